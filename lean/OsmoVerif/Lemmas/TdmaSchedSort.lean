/- `_tdma_sched_bucket_sort` (the exchange sort on `seq[]`); callbacks that report success. -/
import OsmoVerif.Lemmas.TdmaSchedBasic

set_option linter.unusedVariables false

namespace OsmoVerif.TdmaSched

/-- item referenced by position `k` of `seq` (proof-level accessor; all uses are in bounds) -/
def itemAt (items : List Item) (seq : List Nat) (k : Nat) : Item :=
  items.getD (seq.getD k 0) zeroItem

/-- priority at position `k` of `seq` -/
def prioAt (items : List Item) (seq : List Nat) (k : Nat) : Int := (itemAt items seq k).prio

theorem perm_range_lt {seq : List Nat} (hp : seq.Perm (List.range 8)) (k : Nat) (hk : k < 8) :
    seq.getD k 0 < 8 := by
  have hl : seq.length = 8 := by simpa using hp.length_eq
  have : seq.getD k 0 ∈ List.range 8 := hp.mem_iff.mp (getD_mem seq k 0 (by omega))
  simpa using this

theorem sortInner_spec (items : List Item) (hlen : items.length = 8) (n i : Nat) (hn : n ≤ 8) :
    ∀ (rem j : Nat) (seq : List Nat) (itemI : Item), j + rem = n → i < j → seq.Perm (List.range 8) →
      itemI = itemAt items seq i →
      (∀ k, i < k → k < j → itemI.prio ≤ prioAt items seq k) →
      ∃ seq', sortInner items i rem j seq itemI = .ok seq' ∧ seq'.Perm (List.range 8) ∧
        (∀ k, k < i ∨ n ≤ k → seq'.getD k 0 = seq.getD k 0) ∧
        (∀ k, i < k → k < n → prioAt items seq' i ≤ prioAt items seq' k) ∧
        (∀ k, i ≤ k → k < n → ∃ k', i ≤ k' ∧ k' < n ∧ seq'.getD k 0 = seq.getD k' 0) := by
  intro rem
  induction rem with
  | zero =>
    intro j seq itemI hj hij hp hI hmin
    refine ⟨seq, rfl, hp, fun _ _ => rfl, ?_, fun k h1 h2 => ⟨k, h1, h2, rfl⟩⟩
    intro k h1 h2
    have := hmin k h1 (by omega)
    rw [hI] at this
    exact this
  | succ rem ih =>
    intro j seq itemI hj hij hp hI hmin
    have hl : seq.length = 8 := by simpa using hp.length_eq
    have hj8 : j < 8 := by omega
    have hi8 : i < 8 := by omega
    have hsj : seq.getD j 0 < 8 := perm_range_lt hp j hj8
    simp only [sortInner, bind, Except.bind]
    rw [idx_ok_getD seq j 0 (by omega)]
    simp only []
    rw [idx_ok_getD items (seq.getD j 0) zeroItem (by omega)]
    simp only []
    by_cases hgt : itemI.prio > (items.getD (seq.getD j 0) zeroItem).prio
    · -- exchange
      simp only [hgt, if_true]
      rw [idx_ok_getD seq i 0 (by omega)]
      simp only []
      rw [setIdx_ok seq i _ (by omega)]
      simp only []
      rw [setIdx_ok _ j _ (by simp; omega)]
      simp only []
      have hne : i ≠ j := by omega
      have hp2 : ((seq.set i (seq.getD j 0)).set j (seq.getD i 0)).Perm (List.range 8) :=
        (swap_perm 0 seq i j (by omega) (by omega)).trans hp
      have g_i : ((seq.set i (seq.getD j 0)).set j (seq.getD i 0)).getD i 0 = seq.getD j 0 := by
        rw [getD_set_ne _ j i _ _ (by omega), getD_set_eq _ _ _ _ (by omega)]
      have g_j : ((seq.set i (seq.getD j 0)).set j (seq.getD i 0)).getD j 0 = seq.getD i 0 := by
        rw [getD_set_eq _ _ _ _ (by simp; omega)]
      have g_o : ∀ k, k ≠ i → k ≠ j →
          ((seq.set i (seq.getD j 0)).set j (seq.getD i 0)).getD k 0 = seq.getD k 0 := by
        intro k h1 h2
        rw [getD_set_ne _ j k _ _ (by omega), getD_set_ne _ i k _ _ (by omega)]
      obtain ⟨seq', he, hp', hfix, hmin', hval⟩ :=
        ih (j + 1) ((seq.set i (seq.getD j 0)).set j (seq.getD i 0)) (items.getD (seq.getD j 0) zeroItem)
          (by omega) (by omega) hp2 (by simp only [itemAt, g_i])
          (by
            intro k h1 h2
            by_cases hkj : k = j
            · subst hkj
              simp only [prioAt, itemAt, g_j]
              rw [hI] at hgt
              simp only [itemAt] at hgt
              omega
            · simp only [prioAt, itemAt, g_o k (by omega) hkj]
              have := hmin k h1 (by omega)
              simp only [prioAt, itemAt] at this
              omega)
      refine ⟨seq', he, hp', ?_, hmin', ?_⟩
      · intro k hk
        rw [hfix k hk, g_o k (by omega) (by omega)]
      · intro k h1 h2
        obtain ⟨k', a1, a2, a3⟩ := hval k h1 h2
        by_cases c1 : k' = i
        · exact ⟨j, by omega, by omega, by rw [a3, c1, g_i]⟩
        · by_cases c2 : k' = j
          · exact ⟨i, by omega, by omega, by rw [a3, c2, g_j]⟩
          · exact ⟨k', a1, a2, by rw [a3, g_o k' c1 c2]⟩
    · -- keep
      simp only [hgt, if_false]
      obtain ⟨seq', he, hp', hfix, hmin', hval⟩ :=
        ih (j + 1) seq itemI (by omega) (by omega) hp hI
          (by
            intro k h1 h2
            by_cases hkj : k = j
            · subst hkj
              simp only [prioAt, itemAt]
              omega
            · exact hmin k h1 (by omega))
      exact ⟨seq', he, hp', hfix, hmin', hval⟩

theorem sortOuter_spec (items : List Item) (hlen : items.length = 8) (n : Nat) (hn : n ≤ 8) :
    ∀ (rem i : Nat) (seq : List Nat), i + rem = n → seq.Perm (List.range 8) →
      (∀ a b, a < i → a < b → b < n → prioAt items seq a ≤ prioAt items seq b) →
      ∃ seq', sortOuter items n rem i seq = .ok seq' ∧ seq'.Perm (List.range 8) ∧
        (∀ k, n ≤ k → seq'.getD k 0 = seq.getD k 0) ∧
        (∀ a b, a < b → b < n → prioAt items seq' a ≤ prioAt items seq' b) := by
  intro rem
  induction rem with
  | zero =>
    intro i seq hi hp hs
    exact ⟨seq, rfl, hp, fun _ _ => rfl, fun a b h1 h2 => hs a b (by omega) h1 h2⟩
  | succ rem ih =>
    intro i seq hi hp hs
    have hl : seq.length = 8 := by simpa using hp.length_eq
    have hi8 : i < 8 := by omega
    have hsi : seq.getD i 0 < 8 := perm_range_lt hp i hi8
    simp only [sortOuter, bind, Except.bind]
    rw [idx_ok_getD seq i 0 (by omega)]
    simp only []
    rw [idx_ok_getD items (seq.getD i 0) zeroItem (by omega)]
    simp only []
    obtain ⟨seq1, he, hp1, hfix, hmin, hval⟩ :=
      sortInner_spec items hlen n i hn (n - (i + 1)) (i + 1) seq (items.getD (seq.getD i 0) zeroItem)
        (by omega) (by omega) hp rfl (by intro k h1 h2; omega)
    rw [he]
    simp only []
    obtain ⟨seq', he', hp', hfix', hs'⟩ := ih (i + 1) seq1 (by omega) hp1 (by
      intro a b ha hab hb
      by_cases hai : a = i
      · subst hai; exact hmin b hab hb
      · have ea : seq1.getD a 0 = seq.getD a 0 := hfix a (Or.inl (by omega))
        by_cases hbi : b < i
        · have eb : seq1.getD b 0 = seq.getD b 0 := hfix b (Or.inl hbi)
          have := hs a b (by omega) hab hb
          simp only [prioAt, itemAt] at this ⊢
          rw [ea, eb]; exact this
        · obtain ⟨b', b1, b2, b3⟩ := hval b (by omega) hb
          have := hs a b' (by omega) (by omega) b2
          simp only [prioAt, itemAt] at this ⊢
          rw [ea, b3]; exact this)
    refine ⟨seq', he', hp', ?_, hs'⟩
    intro k hk
    rw [hfix' k hk, hfix k (Or.inr hk)]

/-- what `_tdma_sched_bucket_sort` leaves in `seq[]`: a permutation of `0..7` whose first `num_items`
entries are the live slots in ascending priority order and whose other entries are untouched -/
theorem bucketSort_spec (b : Bucket) (hb : BucketWF b) :
    ∃ seq, bucketSort b = .ok seq ∧ seq.Perm (List.range 8) ∧
      (seq.take b.numItems).Perm (List.range b.numItems) ∧
      (∀ a c, a < c → c < b.numItems → prioAt b.item seq a ≤ prioAt b.item seq c) ∧
      (∀ k, b.numItems ≤ k → k < 8 → seq.getD k 0 = k) := by
  obtain ⟨hlen, hn⟩ := hb
  obtain ⟨seq, he, hp, hfix, hs⟩ := sortOuter_spec b.item hlen b.numItems hn b.numItems 0
    (List.range 8) (by omega) (List.Perm.refl _) (by intro a c h; omega)
  refine ⟨seq, by simp only [bucketSort, nc]; exact he, hp, ?_, hs, ?_⟩
  rotate_left
  · intro k hk hk8
    rw [hfix k hk, getD_eq_getElem' (List.range 8) k 0 (by simpa using hk8)]
    simp
  have hl : seq.length = 8 := by simpa using hp.length_eq
  have hdrop : seq.drop b.numItems = (List.range 8).drop b.numItems := by
    apply List.ext_getElem?
    intro k
    simp only [List.getElem?_drop]
    have := hfix (b.numItems + k) (by omega)
    by_cases hk : b.numItems + k < 8
    · have hk' : b.numItems + k < (List.range 8).length := by simpa using hk
      rw [List.getElem?_eq_getElem (by omega), List.getElem?_eq_getElem hk']
      congr 1
      rw [← getD_eq_getElem' seq _ 0 (by omega), ← getD_eq_getElem' (List.range 8) _ 0 hk']
      exact this
    · rw [List.getElem?_eq_none (by omega), List.getElem?_eq_none (by simp; omega)]
  have h1 : (seq.take b.numItems ++ seq.drop b.numItems).Perm
      ((List.range 8).take b.numItems ++ (List.range 8).drop b.numItems) := by
    rw [List.take_append_drop, List.take_append_drop]; exact hp
  rw [hdrop] at h1
  have h2 := (List.perm_append_right_iff _).mp h1
  rw [List.take_range] at h2
  have : min b.numItems 8 = b.numItems := by omega
  rw [this] at h2
  exact h2

/-! ### callbacks that report success -/

/-- a callback invocation that reports success -/
def itemOk (env : Env) (it : Item) : Prop :=
  match it.cb with
  | .null => False
  | .endSet => True
  | .fn id => 0 ≤ env.ret id it.p1 it.p2 it.p3

instance (env : Env) (it : Item) : Decidable (itemOk env it) := by
  unfold itemOk; cases it.cb <;> infer_instance

end OsmoVerif.TdmaSched
