/- C08, gsmtime part: the two schedulers together.  No operation of a well-formed history faults (`Safe`), and where
one particular item of one particular event's set is in the TDMA scheduler, frame by frame (`Tracked`), on top of
the refinement lemmas of the TDMA scheduler (`Lemmas/TdmaSchedOps.lean`, `Lemmas/TdmaSchedSpec.lean`). -/
import OsmoVerif.Lemmas.SchedGsmtime

set_option linter.unusedVariables false

namespace OsmoVerif.SchedGsmtime
open OsmoVerif
open OsmoVerif.TdmaSched (Item Sched Fault Env u16 Cb Inv OpOk abs absOp ranCount framesOf markers EnvOk NoReentry)
open OsmoVerif.Spec.TdmaSched (AItem At trackStep placed)

/-! ### no faults -/

/-- the item set of the event can be handed to `tdma_schedule_set` (terminated by `SCHED_END_SET()`, callbacks
that report success, frame offsets below 256) -/
def SetOk (env : Env) (e : Event) : Prop := OpOk env (.scheduleSet frameOffset e.si e.p3)

instance (env : Env) (e : Event) : Decidable (SetOk env e) := by unfold SetOk; infer_instance

/-- both schedulers well-formed, every pending event has an admissible item set -/
def Safe (env : Env) (st : Sys) : Prop :=
  GInv st.g ∧ Inv env st.s ∧ ∀ e ∈ st.g.active, SetOk env e

instance (env : Env) (st : Sys) : Decidable (Safe env st) := by unfold Safe; infer_instance

/-- admissible operations: those of the TDMA scheduler as in `OpOk`; `sched_gsmtime` with an item set that is
admissible for the `tdma_schedule_set` call it will cause -/
def OpSafe (env : Env) : SOp → Prop
  | .gsched si _ p3 => OpOk env (.scheduleSet frameOffset si (u16 p3))
  | .tdma op => OpOk env op
  | _ => True

instance (env : Env) (op : SOp) : Decidable (OpSafe env op) := by
  cases op <;> unfold OpSafe <;> infer_instance

theorem scheduleSet_safe (env : Env) (s : Sched) (off : Nat) (set : List Item) (p3 : Nat) (hinv : Inv env s)
    (hop : OpOk env (.scheduleSet off set p3)) :
    ∃ s' rc, TdmaSched.scheduleSet s off set p3 = .ok (s', rc) ∧ Inv env s' ∧
      (abs s', rc) = Spec.TdmaSched.scheduleSet (abs s) off (framesOf p3 set) := by
  obtain ⟨he, hm, h3, hok⟩ := hop
  obtain ⟨s', rc, hee, hi, _, ha, _⟩ := TdmaSched.scheduleSet_spec env s off set p3 hinv he hm h3 hok
  exact ⟨s', rc, hee, hi, ha⟩

theorem schedAll_safe (env : Env) : ∀ (es : List Event) (s : Sched), Inv env s → (∀ e ∈ es, SetOk env e) →
    ∃ s' cs, schedAll s es = .ok (s', cs) ∧ Inv env s'
  | [], s, h, _ => ⟨s, [], rfl, h⟩
  | e :: es, s, h, hok => by
    obtain ⟨s1, rc, h1, i1, _⟩ := scheduleSet_safe env s frameOffset e.si e.p3 h (hok e (List.mem_cons_self ..))
    obtain ⟨s2, cs, h2, i2⟩ := schedAll_safe env es s1 i1 (fun x hx => hok x (List.mem_cons_of_mem _ hx))
    exact ⟨s2, ⟨e.slot, frameOffset, e.si, e.p3, rc⟩ :: cs, by simp only [schedAll, h1, h2], i2⟩

theorem execute_safe (env : Env) (g : GState) (s : Sched) (fn : Nat) (h : Safe env ⟨g, s⟩) :
    ∃ g' s' num cs, execute g s fn = .ok (g', s', num, cs) ∧ Safe env ⟨g', s'⟩ := by
  obtain ⟨hg, hs, hok⟩ := h
  simp only at hg hs hok
  obtain ⟨s', cs, h1, i1⟩ := schedAll_safe env (g.active.filter (fun e => e.fn = target fn)) s hs
    (fun e he => hok e (List.mem_filter.mp he).1)
  refine ⟨_, s', _, cs, by rw [execute_eq g s fn hg.2, h1], ?_, i1, ?_⟩
  · exact gexecG_inv g fn hg
  · intro e he
    exact hok e (List.mem_filter.mp he).1

theorem sstep_safe (env : Env) (henv : EnvOk env) (st : Sys) (op : SOp) (h : Safe env st) (hop : OpSafe env op) :
    ∃ st' o, sstep env st op = .ok (st', o) ∧ Safe env st' := by
  obtain ⟨hg, hs, hok⟩ := h
  cases op with
  | gsched si fn p3 =>
    have hst : sstep env st (.gsched si fn p3) =
        .ok (⟨(sched st.g si fn p3).1, st.s⟩, ⟨(sched st.g si fn p3).2, [], []⟩) := rfl
    refine ⟨_, _, hst, sched_inv st.g si fn p3 hg, hs, ?_⟩
    show ∀ e ∈ (sched st.g si fn p3).1.active, SetOk env e
    cases hi : st.g.inactive with
    | nil => rw [sched_busy st.g si fn p3 hi]; exact hok
    | cons lh rest =>
      rw [sched_ok st.g si fn p3 lh rest hi]
      intro e he
      rcases mem_insertSorted.mp he with rfl | he
      · exact hop
      · exact hok e he
  | gexec fn =>
    obtain ⟨g', s', num, cs, h1, h2⟩ := execute_safe env st.g st.s fn ⟨hg, hs, hok⟩
    exact ⟨⟨g', s'⟩, ⟨num, [], cs⟩, by simp only [sstep, h1, bind, Except.bind, pure, Except.pure], h2⟩
  | greset =>
    exact ⟨_, _, rfl, reset_inv st.g hg, hs, by simp [reset]⟩
  | tdma top =>
    obtain ⟨s', out, h1, h2, _⟩ := TdmaSched.step_spec env st.s top hs henv hop
    exact ⟨⟨st.g, s'⟩, ⟨out.rc, out.ran, []⟩, by simp only [sstep, h1, bind, Except.bind, pure, Except.pure],
      hg, h2, hok⟩

theorem srun_safe (env : Env) (henv : EnvOk env) : ∀ (ops : List SOp) (st : Sys), Safe env st → (∀ op ∈ ops, OpSafe env op) →
    ∃ st' outs, srun env st ops = .ok (st', outs) ∧ Safe env st'
  | [], st, h, _ => ⟨st, [], rfl, h⟩
  | op :: ops, st, h, hops => by
    obtain ⟨st1, o, h1, i1⟩ := sstep_safe env henv st op h (hops op (List.mem_cons_self ..))
    obtain ⟨st2, os, h2, i2⟩ := srun_safe env henv ops st1 i1 (fun x hx => hops x (List.mem_cons_of_mem _ hx))
    exact ⟨st2, o :: os, by simp only [srun, h1, h2, bind, Except.bind, pure, Except.pure], i2⟩

/-- admissible frame: its requests are admissible operations -/
def FrameSafe (env : Env) (fr : Frame) : Prop :=
  (∀ op ∈ fr.pre, OpSafe env op) ∧ (∀ op ∈ fr.mid, OpSafe env op)

instance (env : Env) (fr : Frame) : Decidable (FrameSafe env fr) := by unfold FrameSafe; infer_instance

theorem l1Sync_safe (env : Env) (henv : EnvOk env) (st : Sys) (fr : Frame) (h : Safe env st) (hfr : FrameSafe env fr) :
    ∃ st' o, l1Sync env st fr = .ok (st', o) ∧ Safe env st' := by
  obtain ⟨st1, pre, h1, i1⟩ := srun_safe env henv fr.pre st h hfr.1
  obtain ⟨s2, ex, h2, i2, _⟩ := TdmaSched.step_spec env st1.s .execute i1.2.1 henv trivial
  obtain ⟨st3, mid, h3, i3⟩ := srun_safe env henv fr.mid ⟨st1.g, s2⟩ ⟨i1.1, i2, i1.2.2⟩ hfr.2
  obtain ⟨g4, s4, num, cs, h4, i4⟩ := execute_safe env st3.g st3.s fr.fn i3
  obtain ⟨h5, i5, _⟩ := TdmaSched.advance_spec env s4 i4.2.1
  refine ⟨⟨g4, { s4 with cur := (s4.cur + 1) % 25 }⟩, ⟨pre, ex, mid, num, cs⟩, ?_, i4.1, i5, i4.2.2⟩
  simp only [l1Sync, h1, h2, h3, h4, h5, bind, Except.bind, pure, Except.pure]

theorem runFrames_safe (env : Env) (henv : EnvOk env) : ∀ (frs : List Frame) (st : Sys), Safe env st →
    (∀ fr ∈ frs, FrameSafe env fr) → ∃ st' outs, runFrames env st frs = .ok (st', outs) ∧ Safe env st'
  | [], st, h, _ => ⟨st, [], rfl, h⟩
  | fr :: frs, st, h, hfrs => by
    obtain ⟨st1, o, h1, i1⟩ := l1Sync_safe env henv st fr h (hfrs fr (List.mem_cons_self ..))
    obtain ⟨st2, os, h2, i2⟩ := runFrames_safe env henv frs st1 i1 (fun x hx => hfrs x (List.mem_cons_of_mem _ hx))
    exact ⟨st2, o :: os, by simp only [runFrames, h1, h2, bind, Except.bind, pure, Except.pure], i2⟩

/-! ### following one item through the TDMA scheduler -/

/-- one admissible operation of the TDMA scheduler that does not place `x`, with callbacks that do not schedule
from inside (`NoReentry`): where `x` is afterwards, and how many times the operation ran it -/
theorem tstep_track (env : Env) (hne : NoReentry env) (s s' : Sched) (op : TdmaSched.Op) (out : TdmaSched.Out)
    (x : AItem Cb) (pos : Option Nat) (hinv : Inv env s) (hop : OpOk env op) (hat : At x (abs s) pos)
    (hx : ∀ it ∈ placed (absOp op), it ≠ x) (h : TdmaSched.step env s op = .ok (s', out)) :
    Inv env s' ∧ At x (abs s') (trackStep pos (absOp op)).1 ∧ ranCount x out = (trackStep pos (absOp op)).2 := by
  obtain ⟨s1, o1, h1, hi, ht⟩ := TdmaSched.step_track_model env s op x pos hinv
    (TdmaSched.noReentry_envOk env hne) hop hat hx
  rw [h1] at h
  simp only [Except.ok.injEq, Prod.mk.injEq] at h
  obtain ⟨e1, e2⟩ := h
  subst e1; subst e2
  obtain ⟨t1, t2⟩ := ht (by rw [TdmaSched.flyOps_noReentry env hne]; intro c hc; simp at hc)
  exact ⟨hi, t1, t2⟩

/-- a `tdma_schedule_set` call whose set does not contain `x` -/
theorem scheduleSet_track (env : Env) (hne : NoReentry env) (s s' : Sched) (off : Nat) (set : List Item) (p3 : Nat) (rc : Int)
    (x : AItem Cb) (pos : Option Nat) (hinv : Inv env s) (hop : OpOk env (.scheduleSet off set p3))
    (hat : At x (abs s) pos) (hx : x ∉ (framesOf p3 set).flatten)
    (h : TdmaSched.scheduleSet s off set p3 = .ok (s', rc)) : Inv env s' ∧ At x (abs s') pos := by
  have hstep : TdmaSched.step env s (.scheduleSet off set p3) = .ok (s', ⟨rc, [], []⟩) := by
    simp only [TdmaSched.step, h, bind, Except.bind, pure, Except.pure]
  obtain ⟨h1, h2, _⟩ := tstep_track env hne s s' _ _ x pos hinv hop hat
    (by intro it hit hx'; subst hx'; exact hx (by simpa [placed, absOp] using hit)) hstep
  exact ⟨h1, h2⟩

/-- the `tdma_schedule_set` call that places `x`: `x` occurs once, in the k-th frame of the set, and is
pending nowhere.  Unless the call reports an overflow, `x` is afterwards due in `off + k` frames. -/
theorem scheduleSet_place (env : Env) (s s' : Sched) (off : Nat) (set : List Item) (p3 : Nat) (rc : Int)
    (x : AItem Cb) (k : Nat) (f : List (AItem Cb)) (hinv : Inv env s) (hop : OpOk env (.scheduleSet off set p3))
    (hdepth : off + markers set < 25) (hk : (framesOf p3 set)[k]? = some f) (hx1 : f.count x = 1)
    (hx0 : ∀ k' f', k' ≠ k → (framesOf p3 set)[k']? = some f' → x ∉ f')
    (hat : At x (abs s) none) (h : TdmaSched.scheduleSet s off set p3 = .ok (s', rc)) :
    Inv env s' ∧ (rc ≠ -1 → At x (abs s') (some (off + k))) := by
  obtain ⟨s1, rc1, h1, hi, ha⟩ := scheduleSet_safe env s off set p3 hinv hop
  rw [h1] at h
  simp only [Except.ok.injEq, Prod.mk.injEq] at h
  obtain ⟨e1, e2⟩ := h
  subst e1; subst e2
  refine ⟨hi, ?_⟩
  intro hrc
  have hlen := TdmaSched.framesOf_length p3 set
  have hklt : k < markers set + 1 := by rw [← hlen]; exact TdmaSched.lt_of_get? _ _ _ hk
  simp only [Spec.TdmaSched.scheduleSet] at ha
  cases hpf : Spec.TdmaSched.putFrames (abs s) off (framesOf p3 set) with
  | mk due' ok =>
    rw [hpf] at ha
    cases ok with
    | false => simp only [Prod.mk.injEq] at ha; exact absurd ha.2 hrc
    | true =>
      simp only [Prod.mk.injEq] at ha
      obtain ⟨hfr, hun⟩ := Spec.TdmaSched.putFrames_ok (framesOf p3 set) (abs s) due' off
        (by rw [hlen]; omega) hpf
      have hfresh : ∀ d, d < 25 → (abs s d).count x = 0 := by
        intro d hd
        have := hat.2 d hd
        simpa using this
      refine ⟨fun d hd => by simp only [Option.some.injEq] at hd; omega, ?_⟩
      intro e he
      rw [ha.1]
      by_cases hek : e = off + k
      · subst hek
        rw [hfr k f hk, List.count_append, hfresh _ he, hx1]
        simp
      · have hne : ¬ (some (off + k) = some e) := by simp only [Option.some.injEq]; omega
        simp only [hne, if_false]
        by_cases hin : off ≤ e ∧ e ≤ off + markers set
        · have hk' : e - off < (framesOf p3 set).length := by rw [hlen]; omega
          have hget : (framesOf p3 set)[e - off]? = some (framesOf p3 set)[e - off] := by simp [hk']
          have := hfr (e - off) _ hget
          have e1 : off + (e - off) = e := by omega
          rw [e1] at this
          rw [this, List.count_append, hfresh _ he,
            List.count_eq_zero.mpr (hx0 (e - off) _ (by omega) hget)]
        · rw [hun e (by rw [hlen]; omega)]
          exact hfresh _ he

/-- the events handed over by one `sched_gsmtime_execute`, none of whose sets contains `x` -/
theorem schedAll_track (env : Env) (hne : NoReentry env) (x : AItem Cb) (pos : Option Nat) : ∀ (es : List Event) (s s' : Sched)
    (cs : List Call), Inv env s → At x (abs s) pos → (∀ e ∈ es, SetOk env e) →
    (∀ e ∈ es, x ∉ (framesOf e.p3 e.si).flatten) → schedAll s es = .ok (s', cs) →
    Inv env s' ∧ At x (abs s') pos
  | [], s, s', cs, hi, hat, _, _, h => by
    simp only [schedAll, Except.ok.injEq, Prod.mk.injEq] at h
    rw [← h.1]; exact ⟨hi, hat⟩
  | e :: es, s, s', cs, hi, hat, hok, hcl, h => by
    simp only [schedAll] at h
    cases h1 : TdmaSched.scheduleSet s frameOffset e.si e.p3 with
    | error f => simp [h1] at h
    | ok q =>
      obtain ⟨s1, rc⟩ := q
      simp only [h1] at h
      cases h2 : schedAll s1 es with
      | error f => simp [h2] at h
      | ok q2 =>
        obtain ⟨s2, cs2⟩ := q2
        simp only [h2, Except.ok.injEq, Prod.mk.injEq] at h
        obtain ⟨i1, a1⟩ := scheduleSet_track env hne s s1 frameOffset e.si e.p3 rc x pos hi
          (hok e (List.mem_cons_self ..)) hat (hcl e (List.mem_cons_self ..)) h1
        rw [← h.1]
        exact schedAll_track env hne x pos es s1 s2 cs2 i1 a1 (fun y hy => hok y (List.mem_cons_of_mem _ hy))
          (fun y hy => hcl y (List.mem_cons_of_mem _ hy)) h2

/-- the events handed over by one `sched_gsmtime_execute`, among them `ev`, whose set places `x`; the sets of
the others do not contain `x` -/
theorem schedAll_place (env : Env) (hne : NoReentry env) (x : AItem Cb) (ev : Event) (k : Nat) (f : List (AItem Cb))
    (hdepth : frameOffset + markers ev.si < 25) (hk : (framesOf ev.p3 ev.si)[k]? = some f) (hx1 : f.count x = 1)
    (hx0 : ∀ k' f', k' ≠ k → (framesOf ev.p3 ev.si)[k']? = some f' → x ∉ f') :
    ∀ (es : List Event) (s s' : Sched) (cs : List Call), Inv env s → At x (abs s) none → ev ∈ es →
    (slots es).Nodup → (∀ e ∈ es, SetOk env e) → (∀ e ∈ es, e ≠ ev → x ∉ (framesOf e.p3 e.si).flatten) →
    schedAll s es = .ok (s', cs) →
    Inv env s' ∧ ∃ rc, (⟨ev.slot, frameOffset, ev.si, ev.p3, rc⟩ : Call) ∈ cs ∧
      (rc ≠ -1 → At x (abs s') (some (frameOffset + k)))
  | [], s, s', cs, _, _, hev, _, _, _, _ => by simp at hev
  | e :: es, s, s', cs, hi, hat, hev, hn, hok, hcl, h => by
    simp only [schedAll] at h
    cases h1 : TdmaSched.scheduleSet s frameOffset e.si e.p3 with
    | error f => simp [h1] at h
    | ok q =>
      obtain ⟨s1, rc⟩ := q
      simp only [h1] at h
      cases h2 : schedAll s1 es with
      | error f => simp [h2] at h
      | ok q2 =>
        obtain ⟨s2, cs2⟩ := q2
        simp only [h2, Except.ok.injEq, Prod.mk.injEq] at h
        obtain ⟨e1, e2⟩ := h
        subst e1; subst e2
        simp only [slots, List.map_cons, List.nodup_cons] at hn
        by_cases hee : e = ev
        · subst hee
          obtain ⟨i1, a1⟩ := scheduleSet_place env s s1 frameOffset e.si e.p3 rc x k f hi
            (hok e (List.mem_cons_self ..)) hdepth hk hx1 hx0 hat h1
          have hrest : ∀ y ∈ es, y ≠ e := by
            intro y hy hye
            subst hye
            exact hn.1 (List.mem_map.mpr ⟨y, hy, rfl⟩)
          by_cases hrc : rc = -1
          · obtain ⟨s3, cs3, h3, i3⟩ := schedAll_safe env es s1 i1 (fun y hy => hok y (List.mem_cons_of_mem _ hy))
            rw [h3] at h2
            simp only [Except.ok.injEq, Prod.mk.injEq] at h2
            rw [← h2.1]
            exact ⟨i3, rc, List.mem_cons_self .., fun h => absurd hrc h⟩
          · obtain ⟨i2, a2⟩ := schedAll_track env hne x (some (frameOffset + k)) es s1 s2 cs2 i1 (a1 hrc)
              (fun y hy => hok y (List.mem_cons_of_mem _ hy))
              (fun y hy => hcl y (List.mem_cons_of_mem _ hy) (hrest y hy)) h2
            exact ⟨i2, rc, List.mem_cons_self .., fun _ => a2⟩
        · have hev' : ev ∈ es := by
            simp only [List.mem_cons] at hev
            rcases hev with h | h
            · exact absurd h.symm hee
            · exact h
          obtain ⟨i1, a1⟩ := scheduleSet_track env hne s s1 frameOffset e.si e.p3 rc x none hi
            (hok e (List.mem_cons_self ..)) hat (hcl e (List.mem_cons_self ..) hee) h1
          obtain ⟨i2, rc2, m2, a2⟩ := schedAll_place env hne x ev k f hdepth hk hx1 hx0 es s1 s2 cs2 i1 a1 hev' hn.2
            (fun y hy => hok y (List.mem_cons_of_mem _ hy))
            (fun y hy => hcl y (List.mem_cons_of_mem _ hy)) h2
          exact ⟨i2, rc2, List.mem_cons_of_mem _ m2, a2⟩

/-! ### frame by frame -/

/-- admissible requests that do not schedule `x` (neither directly nor as part of an event's item set) -/
def TrafficOk (env : Env) (x : AItem Cb) : SOp → Prop
  | .gsched si _ p3 => OpOk env (.scheduleSet frameOffset si (u16 p3)) ∧ x ∉ (framesOf (u16 p3) si).flatten
  | .tdma (.schedule off cb p1 p2 p3 prio) =>
    OpOk env (.schedule off cb p1 p2 p3 prio) ∧ (⟨cb, p1, p2, p3, prio⟩ : AItem Cb) ≠ x
  | .tdma (.scheduleSet off set p3) => OpOk env (.scheduleSet off set p3) ∧ x ∉ (framesOf p3 set).flatten
  | _ => False

instance (env : Env) (x : AItem Cb) (op : SOp) : Decidable (TrafficOk env x op) := by
  cases op with
  | tdma top => cases top <;> unfold TrafficOk <;> infer_instance
  | _ => unfold TrafficOk <;> infer_instance

theorem TrafficOk.noGexec {env : Env} {x : AItem Cb} {op : SOp} (h : TrafficOk env x op) : NoGexec op = true := by
  cases op with
  | tdma top => rfl
  | gsched si fn p3 => rfl
  | gexec fn => exact absurd h (by simp [TrafficOk])
  | greset => exact absurd h (by simp [TrafficOk])

theorem TrafficOk.opSafe {env : Env} {x : AItem Cb} {op : SOp} (h : TrafficOk env x op) : OpSafe env op := by
  cases op with
  | tdma top =>
    cases top with
    | schedule off cb p1 p2 p3 prio => exact h.1
    | scheduleSet off set p3 => exact h.1
    | advance => exact absurd h (by simp [TrafficOk])
    | execute => exact absurd h (by simp [TrafficOk])
    | reset => exact absurd h (by simp [TrafficOk])
  | gsched si fn p3 => exact h.1
  | gexec fn => trivial
  | greset => trivial

/-- both schedulers well-formed; `x` is where `pos` says; no pending event other than `skip` has `x` in its
item set -/
structure Tracked (env : Env) (x : AItem Cb) (st : Sys) (pos : Option Nat) (skip : Option Event) : Prop where
  safe : Safe env st
  at_ : At x (abs st.s) pos
  clean : ∀ e ∈ st.g.active, some e ≠ skip → x ∉ (framesOf e.p3 e.si).flatten

theorem sstep_traffic (env : Env) (hne : NoReentry env) (x : AItem Cb) (st st' : Sys) (op : SOp) (o : SOut) (pos : Option Nat)
    (skip : Option Event) (ht : Tracked env x st pos skip) (hop : TrafficOk env x op)
    (h : sstep env st op = .ok (st', o)) : Tracked env x st' pos skip := by
  obtain ⟨st1, o1, h1, i1⟩ := sstep_safe env (TdmaSched.noReentry_envOk env hne) st op ht.safe hop.opSafe
  rw [h1] at h
  simp only [Except.ok.injEq, Prod.mk.injEq] at h
  obtain ⟨e1, e2⟩ := h
  subst e1; subst e2
  cases op with
  | gsched si fn p3 =>
    have hst : sstep env st (.gsched si fn p3) =
        .ok (⟨(sched st.g si fn p3).1, st.s⟩, ⟨(sched st.g si fn p3).2, [], []⟩) := rfl
    rw [hst] at h1
    simp only [Except.ok.injEq, Prod.mk.injEq] at h1
    refine ⟨i1, by rw [← h1.1]; exact ht.at_, ?_⟩
    rw [← h1.1]
    show ∀ e ∈ (sched st.g si fn p3).1.active, some e ≠ skip → x ∉ (framesOf e.p3 e.si).flatten
    cases hi : st.g.inactive with
    | nil => rw [sched_busy st.g si fn p3 hi]; exact ht.clean
    | cons lh rest =>
      rw [sched_ok st.g si fn p3 lh rest hi]
      intro e he hs
      rcases mem_insertSorted.mp he with rfl | he
      · exact hop.2
      · exact ht.clean e he hs
  | gexec fn => exact absurd hop (by simp [TrafficOk])
  | greset => exact absurd hop (by simp [TrafficOk])
  | tdma top =>
    simp only [sstep] at h1
    obtain ⟨⟨s2, o2⟩, h2, h3⟩ := bind_ok h1
    simp only [pure, Except.pure, Except.ok.injEq, Prod.mk.injEq] at h3
    have hg : st1.g = st.g := by rw [← h3.1]
    have hs : st1.s = s2 := by rw [← h3.1]
    refine ⟨i1, ?_, by rw [hg]; exact ht.clean⟩
    rw [hs]
    cases top with
    | schedule off cb p1 p2 p3 prio =>
      exact (tstep_track env hne st.s s2 _ o2 x pos ht.safe.2.1 hop.1 ht.at_
        (by intro it hit; simp only [absOp, placed, List.mem_singleton] at hit; rw [hit]; exact hop.2) h2).2.1
    | scheduleSet off set p3 =>
      exact (tstep_track env hne st.s s2 _ o2 x pos ht.safe.2.1 hop.1 ht.at_
        (by intro it hit hx'; subst hx'; exact hop.2 (by simpa [placed, absOp] using hit)) h2).2.1
    | advance => exact absurd hop (by simp [TrafficOk])
    | execute => exact absurd hop (by simp [TrafficOk])
    | reset => exact absurd hop (by simp [TrafficOk])

theorem srun_traffic (env : Env) (hne : NoReentry env) (x : AItem Cb) (pos : Option Nat) (skip : Option Event) :
    ∀ (ops : List SOp) (st st' : Sys) (outs : List SOut), Tracked env x st pos skip →
    (∀ op ∈ ops, TrafficOk env x op) → srun env st ops = .ok (st', outs) → Tracked env x st' pos skip
  | [], st, st', outs, ht, _, h => by
    simp only [srun, Except.ok.injEq, Prod.mk.injEq] at h
    rw [← h.1]; exact ht
  | op :: ops, st, st', outs, ht, hops, h => by
    obtain ⟨st1, o, os, h1, h2, _⟩ := srun_cons_ok env st st' op ops outs h
    exact srun_traffic env hne x pos skip ops st1 st' os
      (sstep_traffic env hne x st st1 op o pos skip ht (hops op (List.mem_cons_self ..)) h1)
      (fun y hy => hops y (List.mem_cons_of_mem _ hy)) h2

/-- the requests of a frame are admissible and do not schedule `x` -/
def FrameTraffic (env : Env) (x : AItem Cb) (fr : Frame) : Prop :=
  (∀ op ∈ fr.pre, TrafficOk env x op) ∧ (∀ op ∈ fr.mid, TrafficOk env x op)

instance (env : Env) (x : AItem Cb) (fr : Frame) : Decidable (FrameTraffic env x fr) := by
  unfold FrameTraffic; infer_instance

theorem FrameTraffic.noGexec {env : Env} {x : AItem Cb} {fr : Frame} (h : FrameTraffic env x fr) :
    FrameNoGexec fr :=
  ⟨fun op hop => (h.1 op hop).noGexec, fun op hop => (h.2 op hop).noGexec⟩

theorem FrameTraffic.safe {env : Env} {x : AItem Cb} {fr : Frame} (h : FrameTraffic env x fr) :
    FrameSafe env fr :=
  ⟨fun op hop => (h.1 op hop).opSafe, fun op hop => (h.2 op hop).opSafe⟩

/-- where `x` is one frame later: an item due now runs (and is gone), everything else comes one frame closer -/
def nextPos : Option Nat → Option Nat
  | some 0 => none
  | some (d + 1) => some d
  | none => none

theorem trackStep_frame (pos : Option Nat) (h : ∀ d, pos = some d → d < 25) :
    (trackStep (trackStep pos (absOp .execute)).1 (absOp .advance)).1 = nextPos pos ∧
      (trackStep pos (absOp .execute)).2 = if pos = some 0 then 1 else 0 := by
  cases pos with
  | none => simp [trackStep, absOp, nextPos]
  | some d =>
    have := h d rfl
    cases d with
    | zero => simp [trackStep, absOp, nextPos]
    | succ d =>
      simp only [trackStep, absOp, nextPos, Option.some.injEq, Nat.add_eq_zero_iff, Nat.succ_ne_self, and_false,
        if_false, Option.map_some]
      constructor
      · congr 1; omega
      · trivial

theorem step_of_advance (env : Env) (s s' : Sched) (h : TdmaSched.advance s = .ok s') :
    TdmaSched.step env s .advance = .ok (s', ⟨0, [], []⟩) := by
  simp only [TdmaSched.step, h, bind, Except.bind, pure, Except.pure]

/-- a frame interrupt whose `sched_gsmtime_execute` does not hand over the event `skip` -/
theorem l1Sync_idle (env : Env) (hne : NoReentry env) (x : AItem Cb) (st st' : Sys) (fr : Frame) (o : FrameOut) (pos : Option Nat)
    (skip : Option Event) (ht : Tracked env x st pos skip) (hfr : FrameTraffic env x fr)
    (hskip : ∀ ev, skip = some ev → ev ∈ st.g.active ∧ target fr.fn ≠ ev.fn)
    (h : l1Sync env st fr = .ok (st', o)) :
    Tracked env x st' (nextPos pos) skip ∧ ranCount x o.exec = (if pos = some 0 then 1 else 0) ∧
      (∀ ev, skip = some ev → ev ∈ st'.g.active) := by
  obtain ⟨st1, s2, st3, g4, s4, s5, h1, h2, h3, h4, h5, h6⟩ := l1Sync_ok env st st' fr o h
  -- requests before tdma_sched_execute
  have t1 := srun_traffic env hne x pos skip fr.pre st st1 o.pre ht hfr.1 h1
  obtain ⟨g1, _⟩ := srun_g env fr.pre st st1 o.pre ht.safe.1 h1
  -- tdma_sched_execute
  obtain ⟨i2, a2, c2⟩ := tstep_track env hne st1.s s2 .execute o.exec x pos t1.safe.2.1 trivial t1.at_
    (by intro it hit; simp [absOp, placed] at hit) h2
  obtain ⟨p1, p2⟩ := trackStep_frame pos t1.at_.1
  -- requests between tdma_sched_execute and sched_gsmtime_execute
  have t2 : Tracked env x ⟨st1.g, s2⟩ (trackStep pos (absOp .execute)).1 skip :=
    ⟨⟨t1.safe.1, i2, t1.safe.2.2⟩, a2, t1.clean⟩
  have t3 := srun_traffic env hne x _ skip fr.mid ⟨st1.g, s2⟩ st3 o.mid t2 hfr.2 h3
  obtain ⟨g3, _⟩ := srun_g env fr.mid ⟨st1.g, s2⟩ st3 o.mid t1.safe.1 h3
  -- sched_gsmtime_execute
  obtain ⟨e4, sa4, _, _⟩ := execute_g st3.g g4 st3.s s4 fr.fn o.num o.calls t3.safe.1 h4
  have hmem : ∀ ev, skip = some ev → ev ∈ st3.g.active := by
    intro ev hs
    rw [g3]
    simp only []
    rw [g1]
    exact gtraffic_keeps _ _ ev hfr.noGexec.2 (gtraffic_keeps _ _ ev hfr.noGexec.1 (hskip ev hs).1)
  obtain ⟨i4, a4⟩ := schedAll_track env hne x _ (gexecG st3.g fr.fn).2 st3.s s4 o.calls t3.safe.2.1 t3.at_
    (fun e he => t3.safe.2.2 e (List.mem_filter.mp he).1)
    (by
      intro e he
      simp only [gexecG, List.mem_filter, decide_eq_true_eq] at he
      apply t3.clean e he.1
      intro hs
      have := (hskip e hs.symm).2
      omega) sa4
  -- tdma_sched_advance
  obtain ⟨i5, a5, _⟩ := tstep_track env hne s4 s5 .advance ⟨0, [], []⟩ x _ i4 trivial a4
    (by intro it hit; simp [absOp, placed] at hit) (step_of_advance env s4 s5 h5)
  subst h6
  refine ⟨⟨⟨?_, i5, ?_⟩, by rw [← p1]; exact a5, ?_⟩, by rw [c2, p2], ?_⟩
  · rw [e4]; exact gexecG_inv _ _ t3.safe.1
  · intro e he
    simp only [e4, gexecG, List.mem_filter] at he
    exact t3.safe.2.2 e he.1
  · intro e he
    simp only [e4, gexecG, List.mem_filter] at he
    exact t3.clean e he.1
  · intro ev hs
    simp only [e4]
    exact (gexecG_miss st3.g fr.fn ev t3.safe.1 (hmem ev hs) (hskip ev hs).2).1

/-- the frame interrupt whose `sched_gsmtime_execute` hands over `ev`, whose item set places `x` -/
theorem l1Sync_hit (env : Env) (hne : NoReentry env) (x : AItem Cb) (st st' : Sys) (fr : Frame) (o : FrameOut) (ev : Event)
    (k : Nat) (f : List (AItem Cb)) (ht : Tracked env x st none (some ev)) (hfr : FrameTraffic env x fr)
    (hev : ev ∈ st.g.active) (heq : target fr.fn = ev.fn)
    (hdepth : frameOffset + markers ev.si < 25) (hk : (framesOf ev.p3 ev.si)[k]? = some f) (hx1 : f.count x = 1)
    (hx0 : ∀ k' f', k' ≠ k → (framesOf ev.p3 ev.si)[k']? = some f' → x ∉ f')
    (h : l1Sync env st fr = .ok (st', o)) :
    Safe env st' ∧ (∀ e ∈ st'.g.active, x ∉ (framesOf e.p3 e.si).flatten) ∧ ranCount x o.exec = 0 ∧
      ∃ c, o.calls.filter (fun c => c.slot = ev.slot) = [c] ∧ CallFor ev c ∧
        (c.rc ≠ -1 → At x (abs st'.s) (some k)) := by
  obtain ⟨st1, s2, st3, g4, s4, s5, h1, h2, h3, h4, h5, h6⟩ := l1Sync_ok env st st' fr o h
  have t1 := srun_traffic env hne x none (some ev) fr.pre st st1 o.pre ht hfr.1 h1
  obtain ⟨g1, _⟩ := srun_g env fr.pre st st1 o.pre ht.safe.1 h1
  obtain ⟨i2, a2, c2⟩ := tstep_track env hne st1.s s2 .execute o.exec x none t1.safe.2.1 trivial t1.at_
    (by intro it hit; simp [absOp, placed] at hit) h2
  have t2 : Tracked env x ⟨st1.g, s2⟩ none (some ev) := ⟨⟨t1.safe.1, i2, t1.safe.2.2⟩, a2, t1.clean⟩
  have t3 := srun_traffic env hne x _ (some ev) fr.mid ⟨st1.g, s2⟩ st3 o.mid t2 hfr.2 h3
  obtain ⟨g3, _⟩ := srun_g env fr.mid ⟨st1.g, s2⟩ st3 o.mid t1.safe.1 h3
  obtain ⟨e4, sa4, _, co4⟩ := execute_g st3.g g4 st3.s s4 fr.fn o.num o.calls t3.safe.1 h4
  have hmem : ev ∈ st3.g.active := by
    rw [g3]
    simp only []
    rw [g1]
    exact gtraffic_keeps _ _ ev hfr.noGexec.2 (gtraffic_keeps _ _ ev hfr.noGexec.1 hev)
  obtain ⟨m1, m2, m3⟩ := gexecG_hit st3.g fr.fn ev t3.safe.1 hmem heq
  have hfired : ev ∈ (gexecG st3.g fr.fn).2 := by
    have : ev ∈ (gexecG st3.g fr.fn).2.filter (fun e => e.slot = ev.slot) := by rw [m1]; simp
    exact (List.mem_filter.mp this).1
  have hnd : (slots (gexecG st3.g fr.fn).2).Nodup :=
    (List.filter_sublist.map _).nodup t3.safe.1.nodup_active
  obtain ⟨i4, rc, hc, a4⟩ := schedAll_place env hne x ev k f hdepth hk hx1 hx0 (gexecG st3.g fr.fn).2 st3.s s4
    o.calls t3.safe.2.1 t3.at_ hfired hnd
    (fun e he => t3.safe.2.2 e (List.mem_filter.mp he).1)
    (by
      intro e he hne
      simp only [gexecG, List.mem_filter] at he
      apply t3.clean e he.1
      intro hs
      simp only [Option.some.injEq] at hs
      exact hne hs) sa4
  obtain ⟨c, hc1, hc2⟩ := (co4.filter_slot ev.slot |> fun h => by rw [m1] at h; exact h.singleton)
  have hcc : c = ⟨ev.slot, frameOffset, ev.si, ev.p3, rc⟩ := by
    have : (⟨ev.slot, frameOffset, ev.si, ev.p3, rc⟩ : Call) ∈ o.calls.filter (fun c => c.slot = ev.slot) := by
      simp only [List.mem_filter, decide_true, and_true]; exact hc
    rw [hc1] at this
    exact (List.mem_singleton.mp this).symm
  have hklt : k < markers ev.si + 1 := by
    rw [← TdmaSched.framesOf_length ev.p3 ev.si]; exact TdmaSched.lt_of_get? _ _ _ hk
  subst h6
  refine ⟨⟨?_, ?_, ?_⟩, ?_, ?_, c, hc1, hc2, ?_⟩
  · rw [e4]; exact gexecG_inv _ _ t3.safe.1
  · exact (TdmaSched.advance_spec env s4 i4).2.1 |> fun hi => by
      have := (TdmaSched.advance_spec env s4 i4).1
      rw [this] at h5
      simp only [Except.ok.injEq] at h5
      rw [← h5]; exact hi
  · intro e he
    simp only [e4, gexecG, List.mem_filter] at he
    exact t3.safe.2.2 e he.1
  · intro e he
    simp only [e4, gexecG, List.mem_filter] at he
    apply t3.clean e he.1
    intro hs
    simp only [Option.some.injEq] at hs
    rw [hs] at he
    simp [heq] at he
  · rw [c2]; rfl
  · intro hrc
    rw [hcc] at hrc
    have a4' := a4 hrc
    obtain ⟨_, a5, _⟩ := tstep_track env hne s4 s5 .advance ⟨0, [], []⟩ x _ i4 trivial a4'
      (by intro it hit; simp [absOp, placed] at hit) (step_of_advance env s4 s5 h5)
    have hfo := frameOffset_eq
    have : (trackStep (some (frameOffset + k)) (absOp .advance)).1 = some k := by
      simp only [trackStep, absOp, Option.map_some, Option.some.injEq]
      omega
    rw [this] at a5
    exact a5

/-- frames in which the event `ev` stays pending: `x` is nowhere and does not run -/
theorem frames_before (env : Env) (hne : NoReentry env) (x : AItem Cb) (ev : Event) : ∀ (frs : List Frame) (st st' : Sys)
    (outs : List FrameOut), Tracked env x st none (some ev) → ev ∈ st.g.active →
    (∀ fr ∈ frs, FrameTraffic env x fr ∧ target fr.fn ≠ ev.fn) → runFrames env st frs = .ok (st', outs) →
    Tracked env x st' none (some ev) ∧ ev ∈ st'.g.active ∧ ∀ o ∈ outs, ranCount x o.exec = 0
  | [], st, st', outs, ht, hev, _, h => by
    simp only [runFrames, Except.ok.injEq, Prod.mk.injEq] at h
    rw [← h.1, ← h.2]
    exact ⟨ht, hev, by simp⟩
  | fr :: frs, st, st', outs, ht, hev, hfr, h => by
    obtain ⟨st1, o, os, h1, h2, h3⟩ := runFrames_cons_ok env st st' fr frs outs h
    obtain ⟨hf1, hf2⟩ := hfr fr (List.mem_cons_self ..)
    obtain ⟨t1, c1, m1⟩ := l1Sync_idle env hne x st st1 fr o none (some ev) ht hf1
      (by intro e he; simp only [Option.some.injEq] at he; rw [← he]; exact ⟨hev, hf2⟩) h1
    obtain ⟨r1, r2, r3⟩ := frames_before env hne x ev frs st1 st' os t1 (m1 ev rfl)
      (fun y hy => hfr y (List.mem_cons_of_mem _ hy)) h2
    refine ⟨r1, r2, ?_⟩
    intro o' ho'
    rw [h3] at ho'
    simp only [List.mem_cons] at ho'
    rcases ho' with rfl | ho'
    · rw [c1]; simp
    · exact r3 o' ho'

/-- the frames after: `x`, due in `d` frames (`pos = some d`), runs in the `tdma_sched_execute` of the d-th
frame interrupt from here (0-based), once, and in no other -/
theorem frames_countdown (env : Env) (hne : NoReentry env) (x : AItem Cb) : ∀ (frs : List Frame) (st st' : Sys)
    (outs : List FrameOut) (pos : Option Nat), Tracked env x st pos none →
    (∀ fr ∈ frs, FrameTraffic env x fr) → runFrames env st frs = .ok (st', outs) →
    ∀ j o, outs[j]? = some o → ranCount x o.exec = if pos = some j then 1 else 0
  | [], st, st', outs, pos, _, _, h, j, o, ho => by
    simp only [runFrames, Except.ok.injEq, Prod.mk.injEq] at h
    rw [← h.2] at ho
    simp at ho
  | fr :: frs, st, st', outs, pos, ht, hfr, h, j, o, ho => by
    obtain ⟨st1, o1, os, h1, h2, h3⟩ := runFrames_cons_ok env st st' fr frs outs h
    obtain ⟨t1, c1, _⟩ := l1Sync_idle env hne x st st1 fr o1 pos none ht (hfr fr (List.mem_cons_self ..))
      (by intro e he; simp at he) h1
    rw [h3] at ho
    cases j with
    | zero =>
      simp only [List.getElem?_cons_zero, Option.some.injEq] at ho
      rw [← ho, c1]
    | succ j =>
      simp only [List.getElem?_cons_succ] at ho
      rw [frames_countdown env hne x frs st1 st' os (nextPos pos) t1
        (fun y hy => hfr y (List.mem_cons_of_mem _ hy)) h2 j o ho]
      apply Spec.TdmaSched.ite_iff
      cases pos with
      | none => simp [nextPos]
      | some d =>
        cases d with
        | zero => simp [nextPos]
        | succ d => simp [nextPos]

end OsmoVerif.SchedGsmtime
