/-
Lemmas for the Python half of C04: every datagram the parsers accept is interpreted per the protocol
layout (`Spec/TrxdLayoutRead.lean`).
-/
import OsmoVerif.Lemmas.Trxd
import OsmoVerif.Spec.TrxdLayoutRead
set_option linter.unusedSimpArgs false
namespace OsmoVerif.Trxd
open OsmoVerif OsmoVerif.Spec.TrxdRanges OsmoVerif.Spec.TrxdLayout

/-- how many of the received hard-bit octets `TxMsg.parse_burst` keeps -/
def txKeep (n : Nat) : Nat := if n ≥ 444 then 444 else if n > 148 then 148 else n

theorem parseCommon_cons (o0 f0 f1 f2 f3 : Nat) (rest : Bytes) (v t fn : Nat)
    (h : parseCommon (o0 :: f0 :: f1 :: f2 :: f3 :: rest) = .ok (v, t, fn)) :
    v = o0 / 16 ∧ t = o0 % 8 ∧ fn = be32val f0 f1 f2 f3 ∧ (v = 0 ∨ v = 1) := by
  have e1 : o0 >>> 4 = o0 / 16 := by rw [Nat.shiftRight_eq_div_pow]
  have e2 : o0 &&& 7 = o0 % 8 := Nat.and_two_pow_sub_one_eq_mod o0 3
  have hl : ¬ (rest.length + 1 + 1 + 1 + 1 + 1 < 5) := by omega
  simp only [parseCommon, List.length_cons, chdrLen_eq, hl, index, List.getElem?_cons_zero, slice,
    List.take_succ_cons, List.take_zero, List.drop_succ_cons, List.drop_zero, unpackBE32u, bind, Except.bind,
    pure, Except.pure, e1, e2, if_false] at h
  split at h
  · cases h
  · rename_i hk
    simp only [Except.ok.injEq, Prod.mk.injEq] at h
    obtain ⟨rfl, rfl, rfl⟩ := h
    refine ⟨rfl, rfl, by simp only [be32val]; omega, ?_⟩
    simp only [List.contains_eq_mem, decide_eq_true_eq, Decidable.not_not, mem_knownVersions] at hk
    omega

theorem parseCommon_short (b : Bytes) (hl : b.length < 5) : parseCommon b = .error .valueError := by
  simp only [parseCommon, chdrLen_eq, hl, if_true, bind, Except.bind]
  rfl

/-- a list with at least 5 elements -/
theorem list_ge5 (b : Bytes) (h : 5 ≤ b.length) : ∃ o0 f0 f1 f2 f3 rest, b = o0 :: f0 :: f1 :: f2 :: f3 :: rest := by
  match b, h with
  | o0 :: f0 :: f1 :: f2 :: f3 :: rest, _ => exact ⟨o0, f0, f1, f2, f3, rest, rfl⟩

/-- C04 (Tx half): every datagram `TxMsg.parse_msg` accepts is interpreted per the protocol layout -/
theorem TxMsg.parse_inv_layout (b : Bytes) (m : TxMsg) (h : TxMsg.parseMsg b = .ok m) :
    ∃ f, readTx b = some f ∧ m.ver = f.ver ∧ m.fn = some (f.fn : Int) ∧ m.tn = some (f.tn : Int) ∧
      m.pwr = some (f.pwr : Int) ∧ (f.ver = 0 ∨ f.ver = 1) ∧
      m.burst = (if f.bits = [] then none else some (f.bits.take (txKeep f.bits.length))) := by
  by_cases hl : b.length < 5
  · simp only [TxMsg.parseMsg, parseCommon_short b hl, bind, Except.bind] at h
    cases h
  · obtain ⟨o0, f0, f1, f2, f3, rest, rfl⟩ := list_ge5 b (by omega)
    unfold TxMsg.parseMsg at h
    cases hc : parseCommon (o0 :: f0 :: f1 :: f2 :: f3 :: rest) with
    | error e => simp only [hc, bind, Except.bind] at h; cases h
    | ok vtf =>
      obtain ⟨v, t, fn⟩ := vtf
      obtain ⟨rfl, rfl, rfl, hv⟩ := parseCommon_cons _ _ _ _ _ _ _ _ _ hc
      have hh : txHdrLen (o0 / 16) = .ok 6 := txHdrLen_ok _ (by omega)
      simp only [hc, hh, bind, Except.bind, pure, Except.pure, List.length_cons] at h
      cases rest with
      | nil => simp only [List.length_nil] at h; split at h <;> first | cases h | omega
      | cons p bits =>
        have h6 : ¬ (bits.length + 1 + 1 + 1 + 1 + 1 + 1 < 6) := by omega
        simp only [List.length_cons, h6, if_false, index, List.getElem?_cons_succ, List.getElem?_cons_zero,
          List.drop_succ_cons, List.drop_zero] at h
        refine ⟨⟨o0 / 16, be32val f0 f1 f2 f3, o0 % 8, p, bits⟩, rfl, ?_⟩
        cases bits with
        | nil =>
          simp only [List.length_nil, Nat.zero_add, Nat.reduceAdd, if_true, Except.ok.injEq] at h
          subst h
          exact ⟨rfl, rfl, rfl, rfl, hv, by simp⟩
        | cons x xs =>
          have hne : ¬ ((x :: xs).length + 1 + 1 + 1 + 1 + 1 + 1 = 6) := by simp only [List.length_cons]; omega
          simp only [hne, if_false, Except.ok.injEq] at h
          subst h
          refine ⟨rfl, rfl, rfl, rfl, hv, ?_⟩
          simp only [reduceCtorEq, if_false, TxMsg.parseBurst, txKeep, edgeBurstLen_eq, gmskBurstLen_eq,
            Option.some.injEq]
          by_cases c1 : (x :: xs).length ≥ 444
          · by_cases c2 : (x :: xs).length > 444
            · simp only [c1, c2, if_true]
            · have e : (x :: xs).take 444 = x :: xs := List.take_of_length_le (by omega)
              simp only [c1, c2, if_true, if_false, e]
          · by_cases c3 : (x :: xs).length > 148
            · simp only [c1, c3, if_true, if_false]
            · simp only [c1, c3, if_false, List.take_length]

theorem u2s_fin : ∀ b : Fin 256, Gen.Trxd.tabUsbit2sbit[b.val]? = some (softVal b.val) := by decide +kernel

theorem translateGo_u2s (u : Bytes) (s : List Int) (h : translateGo Gen.Trxd.tabUsbit2sbit u = .ok s) :
    s = u.map softVal := by
  induction u generalizing s with
  | nil => simp only [translateGo, Except.ok.injEq] at h; simp [← h]
  | cons x xs ih =>
    simp only [translateGo] at h
    cases hx : Gen.Trxd.tabUsbit2sbit[x]? with
    | none => simp only [hx] at h; cases h
    | some v =>
      simp only [hx] at h
      cases hr : translateGo Gen.Trxd.tabUsbit2sbit xs with
      | error e => simp only [hr] at h; cases h
      | ok vs =>
        simp only [hr, Except.ok.injEq] at h
        have hlt : x < 256 := by
          have := List.getElem?_eq_some_iff.mp hx
          obtain ⟨hl, _⟩ := this
          rw [tabUsbit2sbit_length] at hl; exact hl
        have := u2s_fin ⟨x, hlt⟩
        simp only at this
        rw [this] at hx
        simp only [Option.some.injEq] at hx
        rw [← h, ih vs hr, ← hx, List.map_cons]

theorem usbit2sbit_ok (u : Bytes) (s : List Int) (h : usbit2sbit u = .ok s) : s = u.map softVal := by
  unfold usbit2sbit translate at h
  simp only [tabUsbit2sbit_length, ne_eq, not_true_eq_false, if_false] at h
  exact translateGo_u2s u s h

theorem s16_unpack (a b : Nat) : unpackBE16s [a, b] = .ok (s16val a b) := by
  simp only [unpackBE16s, s16val, Except.ok.injEq]
  split <;> split <;> omega

/-- the parsed modulation / TSC set agree with bits 6..3 of the MTS octet (an unassigned coding
7, 14 or 15 leaves the modulation unset) -/
def MtsModOk (mts : Nat) (mod : Option Modulation) (set : Option Int) : Prop :=
  match mod, set with
  | some mod, some set => 0 ≤ set ∧ (modOf mod.coding set.toNat).map Mod.bits = some (mts / 8 % 16)
  | none, some _ => mts / 8 % 16 = 7 ∨ mts / 8 % 16 = 14 ∨ mts / 8 % 16 = 15
  | _, none => False

instance (mts : Nat) (mod : Option Modulation) (set : Option Int) : Decidable (MtsModOk mts mod set) := by
  unfold MtsModOk; split <;> infer_instance

/-- what `parse_mts` reads from an MTS octet, in protocol terms: bit 7 = NOPE, bits 2..0 = TSC,
bits 6..3 = modulation and TSC set -/
theorem mtsParts_spec : ∀ mts : Fin 256,
    (mtsParts mts.val).1 = decide (mts.val / 128 = 1) ∧
    ((mtsParts mts.val).1 = false →
      (mtsParts mts.val).2.2.2 = some ((mts.val % 8 : Nat) : Int) ∧
      MtsModOk mts.val (mtsParts mts.val).2.1 (mtsParts mts.val).2.2.1) := by
  decide +kernel

theorem pickByBl_bl (x : Int) (mod : Modulation) (h : Modulation.pickByBl x = some mod) : (mod.bl : Int) = x := by
  unfold Modulation.pickByBl at h
  have := List.find?_some h
  simpa using this

theorem guessMod_bl (n : Nat) (mod : Modulation) (h : RxMsg.guessMod (n : Int) = some mod) :
    n = mod.bl ∨ n = mod.bl + 2 := by
  unfold RxMsg.guessMod at h
  cases h1 : Modulation.pickByBl (n : Int) with
  | some m1 =>
    simp only [h1, Option.some.injEq] at h
    subst h
    have := pickByBl_bl _ _ h1
    omega
  | none =>
    simp only [h1] at h
    have := pickByBl_bl _ _ h
    omega

/-- `parse_burst` of a version-0 message, in protocol terms -/
theorem RxMsg.parseBurst_v0_inv (m m' : RxMsg) (soft : Bytes) (hv : m.ver = 0)
    (h : m.parseBurst soft = .ok m') :
    ∃ mod, (soft.length = mod.bl ∨ soft.length = mod.bl + 2) ∧
      m' = { m with modType := some mod, burst := some ((soft.take mod.bl).map softVal) } := by
  unfold RxMsg.parseBurst RxMsg.parseBurstV0 at h
  simp only [hv, if_true, bind, Except.bind, pure, Except.pure] at h
  cases hg : RxMsg.guessMod (soft.length : Int) with
  | none => simp only [hg] at h; cases h
  | some mod =>
    simp only [hg] at h
    cases hu : usbit2sbit (soft.take mod.bl) with
    | error e => simp only [hu] at h; cases h
    | ok s =>
      simp only [hu, Except.ok.injEq] at h
      refine ⟨mod, guessMod_bl _ _ hg, ?_⟩
      rw [← h, usbit2sbit_ok _ _ hu]
      simp only [hv]

theorem RxMsg.parseBurst_v1_inv (m m' : RxMsg) (soft : Bytes) (hv : ¬ m.ver = 0)
    (h : m.parseBurst soft = .ok m') :
    m' = { m with burst := some (soft.map softVal) } := by
  unfold RxMsg.parseBurst at h
  simp only [hv, if_false, bind, Except.bind, pure, Except.pure] at h
  cases hu : usbit2sbit soft with
  | error e => simp only [hu] at h; cases h
  | ok s =>
    simp only [hu, Except.ok.injEq] at h
    rw [← h, usbit2sbit_ok _ _ hu]

theorem rxHdrLen_cases (v : Nat) (hv : v = 0 ∨ v = 1) : rxHdrLen v = .ok (if v = 1 then 11 else 8) := by
  rcases hv with rfl | rfl <;> rfl

theorem parseMts_spec (m : RxMsg) (mts : Nat) (h : mts < 256) :
    (m.parseMts mts).nopeInd = decide (mts / 128 = 1) ∧
    ((m.parseMts mts).nopeInd = false →
      (m.parseMts mts).tsc = some ((mts % 8 : Nat) : Int) ∧
      MtsModOk mts (m.parseMts mts).modType (m.parseMts mts).tscSet) ∧
    (m.parseMts mts).ver = m.ver ∧ (m.parseMts mts).fn = m.fn ∧ (m.parseMts mts).tn = m.tn ∧
    (m.parseMts mts).rssi = m.rssi ∧ (m.parseMts mts).toa256 = m.toa256 ∧ (m.parseMts mts).ci = m.ci ∧
    (m.parseMts mts).burst = m.burst := by
  have := mtsParts_spec ⟨mts, h⟩
  simp only at this
  rw [parseMts_parts]
  exact ⟨this.1, this.2, rfl, rfl, rfl, rfl, rfl, rfl, rfl⟩

/-- C04 (Rx half): every datagram `RxMsg().parse_msg` accepts is interpreted per the protocol layout -/
theorem RxMsg.parse_inv_layout (b : Bytes) (hb : ∀ x ∈ b, x < 256) (m : RxMsg)
    (h : RxMsg.parseMsg b = .ok m) :
    ∃ f, readRx b = some f ∧ m.ver = f.ver ∧ (f.ver = 0 ∨ f.ver = 1) ∧
      m.fn = some (f.fn : Int) ∧ m.tn = some (f.tn : Int) ∧ m.rssi = some f.rssi ∧ m.toa256 = some f.toa256 ∧
      (f.ver = 1 → ∃ mts, f.mts = some mts ∧ m.ci = f.ci ∧ m.nopeInd = decide (mts / 128 = 1) ∧
        (m.nopeInd = false → m.tsc = some ((mts % 8 : Nat) : Int) ∧ MtsModOk mts m.modType m.tscSet) ∧
        m.burst = (if f.soft = [] then none else some (f.soft.map softVal))) ∧
      (f.ver = 0 →
        (f.soft = [] ∧ m.burst = none) ∨
        (∃ mod, (f.soft.length = mod.bl ∨ f.soft.length = mod.bl + 2) ∧ m.modType = some mod ∧
          m.burst = some ((f.soft.take mod.bl).map softVal))) := by
  by_cases hl : b.length < 5
  · simp only [RxMsg.parseMsg, RxMsg.parseMsgFrom, parseCommon_short b hl, bind, Except.bind] at h
    cases h
  · obtain ⟨o0, f0, f1, f2, f3, rest, rfl⟩ := list_ge5 b (by omega)
    unfold RxMsg.parseMsg RxMsg.parseMsgFrom at h
    cases hc : parseCommon (o0 :: f0 :: f1 :: f2 :: f3 :: rest) with
    | error e => simp only [hc, bind, Except.bind] at h; cases h
    | ok vtf =>
      obtain ⟨v, t, fn⟩ := vtf
      obtain ⟨rfl, rfl, rfl, hv⟩ := parseCommon_cons _ _ _ _ _ _ _ _ _ hc
      simp only [hc, rxHdrLen_cases _ hv, bind, Except.bind, pure, Except.pure, List.length_cons] at h
      rcases hv with hv0 | hv1
      · -- version 0: header of 8 octets
        have hne : ¬ (o0 / 16 = 1) := by omega
        simp only [hne, if_false] at h
        match rest, h with
        | [], h => simp at h
        | [_], h => simp at h
        | [_, _], h => simp at h
        | r :: t0 :: t1 :: soft, h =>
          have h8 : ¬ (soft.length + 1 + 1 + 1 + 1 + 1 + 1 + 1 + 1 < 8) := by omega
          have hver : ¬ (((o0 / 16 : Nat) : Int) ≥ 1) := by omega
          simp only [List.length_cons, h8, if_false, RxMsg.parseHdr, index, slice, List.getElem?_cons_succ,
            List.getElem?_cons_zero, List.take_succ_cons, List.take_zero, List.drop_succ_cons, List.drop_zero,
            s16_unpack, bind, Except.bind, pure, Except.pure, hver] at h
          refine ⟨⟨o0 / 16, be32val f0 f1 f2 f3, o0 % 8, -(r : Int), s16val t0 t1, none, none, soft⟩,
            by simp only [readRx, hne, if_false], ?_⟩
          cases soft with
          | nil =>
            simp only [List.length_nil, Nat.zero_add, Nat.reduceAdd, if_true, Except.ok.injEq] at h
            subst h
            exact ⟨rfl, Or.inl hv0, rfl, rfl, rfl, rfl, fun h1 => by simp only at h1; omega,
              fun _ => Or.inl ⟨rfl, rfl⟩⟩
          | cons x xs =>
            have hne8 : ¬ ((x :: xs).length + 1 + 1 + 1 + 1 + 1 + 1 + 1 + 1 = 8) := by
              simp only [List.length_cons]; omega
            simp only [hne8, if_false] at h
            obtain ⟨mod, hlen, hm⟩ := RxMsg.parseBurst_v0_inv _ _ _ (by simp only [hv0]; rfl) h
            subst hm
            exact ⟨rfl, Or.inl hv0, rfl, rfl, rfl, rfl, fun h1 => by simp only at h1; omega,
              fun _ => Or.inr ⟨mod, hlen, rfl, rfl⟩⟩
      · -- version 1: header of 11 octets
        simp only [hv1, if_true] at h
        match rest, h with
        | [], h => simp at h
        | [_], h => simp at h
        | [_, _], h => simp at h
        | [_, _, _], h => simp at h
        | [_, _, _, _], h => simp at h
        | [_, _, _, _, _], h => simp at h
        | r :: t0 :: t1 :: mts :: c0 :: c1 :: soft, h =>
          have h11 : ¬ (soft.length + 1 + 1 + 1 + 1 + 1 + 1 + 1 + 1 + 1 + 1 + 1 < 11) := by omega
          have hver : (((1 : Nat) : Int) ≥ 1) := by omega
          have hmts : mts < 256 := hb mts (by simp)
          simp only [List.length_cons, h11, if_false, RxMsg.parseHdr, index, slice, List.getElem?_cons_succ,
            List.getElem?_cons_zero, List.take_succ_cons, List.take_zero, List.drop_succ_cons, List.drop_zero,
            s16_unpack, bind, Except.bind, pure, Except.pure, hver, if_true] at h
          refine ⟨⟨1, be32val f0 f1 f2 f3, o0 % 8, -(r : Int), s16val t0 t1, some mts, some (s16val c0 c1), soft⟩,
            by simp only [readRx, hv1, if_true], ?_⟩
          obtain ⟨hn, htm, e1, e2, e3, e4, e5, _, e7⟩ := parseMts_spec
            ⟨((1 : Nat) : Int), some ((be32val f0 f1 f2 f3 : Nat) : Int), some ((o0 % 8 : Nat) : Int),
             some (-(r : Int)), some (s16val t0 t1), RxMsg.fresh.modType, RxMsg.fresh.nopeInd,
             RxMsg.fresh.tscSet, RxMsg.fresh.tsc, RxMsg.fresh.ci, RxMsg.fresh.burst⟩ mts hmts
          cases soft with
          | nil =>
            simp only [List.length_nil, Nat.zero_add, Nat.reduceAdd, if_true, Except.ok.injEq] at h
            subst h
            refine ⟨e1, Or.inr rfl, e2, e3, e4, e5, fun _ => ⟨mts, rfl, rfl, hn, htm, by simp⟩,
              fun h0 => by simp only at h0; omega⟩
          | cons x xs =>
            have hne11 : ¬ ((x :: xs).length + 1 + 1 + 1 + 1 + 1 + 1 + 1 + 1 + 1 + 1 + 1 = 11) := by
              simp only [List.length_cons]; omega
            simp only [hne11, if_false] at h
            have hm := RxMsg.parseBurst_v1_inv _ _ _ (by simp only [e1]; decide) h
            subst hm
            refine ⟨e1, Or.inr rfl, e2, e3, e4, e5, fun _ => ⟨mts, rfl, rfl, hn, htm, by simp⟩,
              fun h0 => by simp only at h0; omega⟩

end OsmoVerif.Trxd
