/-
Frame lemmas for the transmit-queue property (C03): which entry points of the world model can
change a transceiver's `txQueue` / `running`, and how.
  * forwarding (`handleDataMsg`, `forwardMsg`) never touches any queue or power state (`SameQ`);
  * `recvDataMsg` appends exactly one message to exactly one queue, or changes nothing;
  * `powerEvent` sets `running` of the transceiver (and of the children it manages) and, on
    power-off, empties exactly their queues;
  * TRXC commands other than power events leave every queue and power state alone;
  * `clckTick` replaces the queue of a running transceiver by its `wait` partition;
  * `tick` does that for the transceivers it reaches, in list order.
Core tactics only.
-/
import OsmoVerif.Lemmas.World

namespace OsmoVerif.World
open OsmoVerif OsmoVerif.PyStr

/-- the part of a transceiver the transmit-queue property is about -/
def Trx.qr (t : Trx) : List Trxd.TxMsg × Bool := (t.txQueue, t.running)

/-- `w'` has the same transmit queues, power states and clock generator state as `w` -/
structure SameQ (w w' : World) : Prop where
  qr : w'.trxs.map Trx.qr = w.trxs.map Trx.qr
  clkSrc : w'.clkSrc = w.clkSrc
  clkRunning : w'.clkRunning = w.clkRunning
  clkLinks : w'.clkLinks = w.clkLinks

theorem SameQ.refl (w : World) : SameQ w w := ⟨rfl, rfl, rfl, rfl⟩
theorem SameQ.trans {a b c : World} (h1 : SameQ a b) (h2 : SameQ b c) : SameQ a c :=
  ⟨h2.qr.trans h1.qr, h2.clkSrc.trans h1.clkSrc, h2.clkRunning.trans h1.clkRunning,
   h2.clkLinks.trans h1.clkLinks⟩

theorem SameQ.setTrx (w : World) (i : Nat) (f : Trx → Trx) (hf : ∀ t, (f t).qr = t.qr) :
    SameQ w (setTrx w i f) := by
  refine ⟨?_, rfl, rfl, rfl⟩
  unfold World.setTrx
  apply List.ext_getElem?
  intro k
  simp only [List.getElem?_map, List.getElem?_modify]
  cases w.trxs[k]? with
  | none => rfl
  | some t => simp only [Option.map_some]; split <;> simp [hf]

theorem SameQ.randint {w w' : World} {lo hi v : Int} (h : w.randint lo hi = .ok (v, w')) : SameQ w w' := by
  unfold World.randint at h
  split at h
  · cases h
  · cases h; exact ⟨rfl, rfl, rfl, rfl⟩

theorem SameQ.randAround {w w' : World} {b t v : Int} (h : randAround w b t = .ok (v, w')) : SameQ w w' := by
  unfold World.randAround at h
  split at h
  · cases h; exact SameQ.refl _
  · exact SameQ.randint h

theorem randAround_same {w : World} {b t : Int} {v : Int × World} (h : randAround w b t = .ok v) :
    SameQ w v.2 := SameQ.randAround (v := v.1) (w' := v.2) h

theorem handleDataMsg_sameQ {w w' : World} {k j : Nat} {sm : Trxd.TxMsg} {m : Trxd.RxMsg} {ds : List Dgram}
    (h : handleDataMsg w k j sm m = .ok (w', ds)) : SameQ w w' := by
  unfold handleDataMsg at h
  split at h
  next self src hk hj =>
    simp only [] at h
    split at h
    · cases h
    next nope w1 hd =>
      have h1 : SameQ w w1 := by
        by_cases c1 : self.rfMuted = true
        · rw [if_pos c1] at hd; cases hd; exact SameQ.refl _
        rw [if_neg c1] at hd
        by_cases c2 : ¬ m.nopeInd = true
        · rw [if_pos c2] at hd
          by_cases c3 : self.dropAmount = 0
          · rw [if_pos c3] at hd; cases hd; exact SameQ.refl _
          rw [if_neg c3] at hd
          split at hd
          · cases hd
          by_cases c4 : self.dropPeriod = 0
          · rw [if_pos c4] at hd; cases hd
          rw [if_neg c4] at hd
          split at hd
          · cases hd; exact SameQ.setTrx _ _ _ (fun _ => rfl)
          · cases hd; exact SameQ.refl _
        · rw [if_neg c2] at hd; cases hd; exact SameQ.refl _
      clear hd
      split at h
      · repeat' (first | contradiction | split at h)
        all_goals
          simp only [Except.ok.injEq, Prod.mk.injEq] at h
          obtain ⟨rfl, -⟩ := h
          exact h1
      · simp only [bind, Except.bind, pure, Except.pure, throw, throwThe, MonadExceptOf.throw] at h
        repeat' (first | contradiction | split at h)
        all_goals
          simp only [Except.ok.injEq, Prod.mk.injEq] at h
          obtain ⟨rfl, -⟩ := h
          first
          | exact h1
          | exact h1.trans (randAround_same (by assumption))
          | exact h1.trans ((randAround_same (by assumption)).trans (randAround_same (by assumption)))
          | exact h1.trans ((randAround_same (by assumption)).trans
              ((randAround_same (by assumption)).trans (randAround_same (by assumption))))
  next => cases h

theorem forwardMsg_go_sameQ (j : Nat) (fn : Nat) (txFreq : Option Int) (msg : Trxd.TxMsg) :
    ∀ (ks : List Nat) (w : World) (acc : List Dgram) {w' : World} {ds : List Dgram},
      forwardMsg.go j fn txFreq msg w acc ks = .ok (w', ds) → SameQ w w' := by
  intro ks
  induction ks with
  | nil => intro w acc w' ds h; simp only [forwardMsg.go] at h; cases h; exact SameQ.refl _
  | cons k ks ih =>
    intro w acc w' ds h
    simp only [forwardMsg.go] at h
    repeat' (first | contradiction | split at h)
    all_goals first
      | exact ih _ _ h
      | (rename_i hh; exact (handleDataMsg_sameQ hh).trans (ih _ _ h))

theorem forwardMsg_sameQ {w w' : World} {j : Nat} {m : Trxd.TxMsg} {ds : List Dgram}
    (h : forwardMsg w j m = .ok (w', ds)) : SameQ w w' := by
  unfold forwardMsg at h
  split at h
  · cases h
  split at h
  · cases h
  simp only [] at h
  split at h
  · cases h
  exact forwardMsg_go_sameQ _ _ _ _ _ _ _ h

theorem clckTick_go_sameQ (j : Nat) :
    ∀ (ms : List Trxd.TxMsg) (w : World) (acc : List Dgram) {w' : World} {ds : List Dgram},
      clckTick.go j w acc ms = .ok (w', ds) → SameQ w w' := by
  intro ms
  induction ms with
  | nil => intro w acc w' ds h; simp only [clckTick.go] at h; cases h; exact SameQ.refl _
  | cons m ms ih =>
    intro w acc w' ds h
    simp only [clckTick.go] at h
    split at h
    · cases h
    · rename_i hh; exact (forwardMsg_sameQ hh).trans (ih _ _ h)

/-! ### observers -/

/-- transmit queue of transceiver `j` (a transceiver that does not exist has nothing queued) -/
def queueOf (w : World) (j : Nat) : List Trxd.TxMsg :=
  match w.trxs[j]? with
  | some t => t.txQueue
  | none => []

/-- power state of transceiver `j` (a transceiver that does not exist is not running) -/
def runningOf (w : World) (j : Nat) : Bool :=
  match w.trxs[j]? with
  | some t => t.running
  | none => false

theorem getElem?_of_qr {w w' : World} (h : w'.trxs.map Trx.qr = w.trxs.map Trx.qr) (j : Nat) :
    (w'.trxs[j]?).map Trx.qr = (w.trxs[j]?).map Trx.qr := by
  have := congrArg (fun l => l[j]?) h
  simpa only [List.getElem?_map] using this

theorem queueOf_of_qr {w w' : World} (h : w'.trxs.map Trx.qr = w.trxs.map Trx.qr) (j : Nat) :
    queueOf w' j = queueOf w j := by
  have := getElem?_of_qr h j
  unfold World.queueOf
  cases h1 : w'.trxs[j]? <;> cases h2 : w.trxs[j]? <;> simp only [h1, h2, Option.map_some, Option.map_none] at this <;>
    first | rfl | cases this | skip
  exact congrArg Prod.fst (Option.some.inj this)

theorem runningOf_of_qr {w w' : World} (h : w'.trxs.map Trx.qr = w.trxs.map Trx.qr) (j : Nat) :
    runningOf w' j = runningOf w j := by
  have := getElem?_of_qr h j
  unfold World.runningOf
  cases h1 : w'.trxs[j]? <;> cases h2 : w.trxs[j]? <;> simp only [h1, h2, Option.map_some, Option.map_none] at this <;>
    first | rfl | cases this | skip
  exact congrArg Prod.snd (Option.some.inj this)

theorem SameQ.getElem? {w w' : World} (h : SameQ w w') (j : Nat) :
    (w'.trxs[j]?).map Trx.qr = (w.trxs[j]?).map Trx.qr := getElem?_of_qr h.qr j
theorem SameQ.queueOf {w w' : World} (h : SameQ w w') (j : Nat) : queueOf w' j = queueOf w j :=
  queueOf_of_qr h.qr j
theorem SameQ.runningOf {w w' : World} (h : SameQ w w') (j : Nat) : runningOf w' j = runningOf w j :=
  runningOf_of_qr h.qr j
theorem SameQ.length {w w' : World} (h : SameQ w w') : w'.trxs.length = w.trxs.length := by
  have := congrArg List.length h.qr
  simpa only [List.length_map] using this

theorem queueOf_setTrx (w : World) (i : Nat) (f : Trx → Trx) (k : Nat) :
    queueOf (setTrx w i f) k =
      if i = k then (match w.trxs[k]? with | some t => (f t).txQueue | none => []) else queueOf w k := by
  unfold queueOf
  rw [setTrx_getElem?]
  by_cases e : i = k
  · simp only [if_pos e]; cases w.trxs[k]? <;> rfl
  · simp only [if_neg e]

theorem runningOf_setTrx (w : World) (i : Nat) (f : Trx → Trx) (k : Nat) :
    runningOf (setTrx w i f) k =
      if i = k then (match w.trxs[k]? with | some t => (f t).running | none => false) else runningOf w k := by
  unfold runningOf
  rw [setTrx_getElem?]
  by_cases e : i = k
  · simp only [if_pos e]; cases w.trxs[k]? <;> rfl
  · simp only [if_neg e]

/-- `clck_tick` of a transceiver that is not running does nothing -/
theorem clckTick_idle {w : World} {j fn : Nat} (h : runningOf w j = false) (hj : j < w.trxs.length) :
    clckTick w j fn = .ok (w, [], 0) := by
  unfold clckTick
  unfold runningOf at h
  have : ∃ t, w.trxs[j]? = some t := ⟨w.trxs[j], List.getElem?_eq_getElem hj⟩
  obtain ⟨t, ht⟩ := this
  rw [ht] at h ⊢
  simp only [] at h ⊢
  simp [h]

/-- what `clck_tick` does to the queues and power states -/
theorem clckTick_ok {w w' : World} {j fn : Nat} {ds : List Dgram} {st : Nat}
    (h : clckTick w j fn = .ok (w', ds, st)) :
    (w'.clkSrc = w.clkSrc ∧ w'.clkRunning = w.clkRunning ∧ w'.clkLinks = w.clkLinks) ∧
    (∀ k, runningOf w' k = runningOf w k) ∧ w'.trxs.length = w.trxs.length ∧
    (∀ k, k ≠ j → queueOf w' k = queueOf w k) ∧
    (runningOf w j = false → queueOf w' j = queueOf w j ∧ st = 0) ∧
    (runningOf w j = true →
      queueOf w' j = (queueOf w j).filter (fun m => classify fn m == .wait) ∧
      st = ((queueOf w j).filter (fun m => classify fn m == .stale)).length) := by
  unfold clckTick at h
  split at h
  · cases h
  next trx htrx =>
  have hr : runningOf w j = trx.running := by unfold runningOf; rw [htrx]
  have hq : queueOf w j = trx.txQueue := by unfold queueOf; rw [htrx]
  split at h
  next hrun =>
    simp only [Except.ok.injEq, Prod.mk.injEq] at h
    obtain ⟨rfl, -, rfl⟩ := h
    refine ⟨⟨rfl, rfl, rfl⟩, fun _ => rfl, rfl, fun _ _ => rfl, fun _ => ⟨rfl, rfl⟩, ?_⟩
    intro hc; rw [hr] at hc; exact absurd hc hrun
  next hrun =>
    simp only [] at h
    split at h
    · cases h
    next w2 ds2 hgo =>
    simp only [Except.ok.injEq, Prod.mk.injEq] at h
    obtain ⟨rfl, -, rfl⟩ := h
    have hs := clckTick_go_sameQ _ _ _ _ hgo
    refine ⟨⟨hs.clkSrc, hs.clkRunning, hs.clkLinks⟩, ?_, ?_, ?_, ?_, ?_⟩
    · intro k; rw [hs.runningOf, runningOf_setTrx]; split
      · next e => subst e; unfold runningOf; rw [htrx]
      · rfl
    · rw [hs.length, setTrx_length]
    · intro k hk; rw [hs.queueOf, queueOf_setTrx, if_neg (Ne.symm hk)]
    · intro hc; rw [hr] at hc; simp [hc] at hrun
    · intro _; rw [hs.queueOf, queueOf_setTrx, if_pos rfl, htrx, hq]; exact ⟨rfl, rfl⟩

/-- the `wait` partition of a queue at tick `fn` -/
def waitPart (fn : Nat) (q : List Trxd.TxMsg) : List Trxd.TxMsg := q.filter (fun m => classify fn m == .wait)
/-- number of messages `clck_tick` reports as stale for transceiver `k` at tick `fn` -/
def staleCount (fn : Nat) (w : World) (k : Nat) : Nat :=
  if runningOf w k then ((queueOf w k).filter (fun m => classify fn m == .stale)).length else 0
/-- queue of transceiver `k` after its `clck_tick(fn)` -/
def tickedQueue (fn : Nat) (w : World) (k : Nat) : List Trxd.TxMsg :=
  if runningOf w k then waitPart fn (queueOf w k) else queueOf w k

/-- The `clck_handler` loop over the transceivers `js`: it processes a prefix `js1` of `js` (all of
it unless an exception leaves a `clck_tick`), replacing the queue of each running transceiver by its
`wait` partition and counting the stale ones; nothing else changes in any queue or power state. -/
theorem tick_go_spec (fn : Nat) : ∀ (js : List Nat) (w : World) (acc : List Dgram) (st : Nat),
    js.Nodup → (∀ k ∈ js, k < w.trxs.length) →
    ∃ js1 js2, js = js1 ++ js2 ∧
      (∀ k, runningOf (tick.go fn w acc st js).world k = runningOf w k) ∧
      (∀ k, k ∉ js1 → queueOf (tick.go fn w acc st js).world k = queueOf w k) ∧
      (∀ k, k ∈ js1 → queueOf (tick.go fn w acc st js).world k = tickedQueue fn w k) ∧
      (tick.go fn w acc st js).stale = st + (js1.map (staleCount fn w)).sum ∧
      ((tick.go fn w acc st js).exc = none → js2 = [] ∧
        (tick.go fn w acc st js).world.clkSrc = some ((fn + 1) % Gen.World.hyperframe)) ∧
      ((tick.go fn w acc st js).exc ≠ none → (tick.go fn w acc st js).world.clkSrc = w.clkSrc) := by
  intro js
  induction js with
  | nil =>
    intro w acc st _ _
    refine ⟨[], [], rfl, ?_⟩
    simp [tick.go, runningOf, queueOf]
  | cons j js ih =>
    intro w acc st hnd hlt
    rw [List.nodup_cons] at hnd
    simp only [tick.go]
    split
    next e he =>
      refine ⟨[], j :: js, rfl, ?_⟩
      simp
    next w2 ds s2 hc =>
      obtain ⟨⟨hcs, -, -⟩, hr, hl, hqo, hqf, hqt⟩ := clckTick_ok hc
      obtain ⟨js1, js2, hjs, h1, h2, h3, h4, h5, h6⟩ := ih w2 (acc ++ ds) (st + s2) hnd.2
        (fun k hk => by rw [hl]; exact hlt k (List.mem_cons_of_mem _ hk))
      have hj1 : j ∉ js1 := fun hm => hnd.1 (by rw [hjs]; exact List.mem_append_left _ hm)
      have hsame : ∀ k, k ≠ j → staleCount fn w2 k = staleCount fn w k := by
        intro k hk; unfold staleCount; rw [hr, hqo k hk]
      have htq : ∀ k, k ≠ j → tickedQueue fn w2 k = tickedQueue fn w k := by
        intro k hk; unfold tickedQueue; rw [hr, hqo k hk]
      refine ⟨j :: js1, js2, by rw [hjs]; rfl, ?_, ?_, ?_, ?_, h5, ?_⟩
      · intro k; rw [h1, hr]
      · intro k hk
        rw [List.mem_cons, not_or] at hk
        rw [h2 k hk.2, hqo k hk.1]
      · intro k hk
        rw [List.mem_cons] at hk
        by_cases e : k = j
        · subst e
          rw [h2 k hj1]; unfold tickedQueue waitPart
          cases hrk : runningOf w k
          · exact (hqf hrk).1
          · exact (hqt hrk).1
        · have hk1 : k ∈ js1 := by cases hk with | inl h => exact absurd h e | inr h => exact h
          rw [h3 k hk1, htq k e]
      · rw [h4, List.map_cons, List.sum_cons]
        have : js1.map (staleCount fn w2) = js1.map (staleCount fn w) := by
          apply List.map_congr_left
          intro k hk; exact hsame k (fun e => hj1 (e ▸ hk))
        rw [this]
        have : s2 = staleCount fn w j := by
          unfold staleCount
          cases hrk : runningOf w j
          · exact (hqf hrk).2
          · exact (hqt hrk).2
        omega
      · intro hx; rw [h6 hx, hcs]


/-! ### data datagrams -/

/-- `recv_data_msg` of transceiver `i` accepts the datagram `d` as the message `msg`: it parses
(first `dataRecvSize` octets), carries the configured header version, and `i` is running -/
def Accepts (w : World) (i : Nat) (d : List Nat) (msg : Trxd.TxMsg) : Prop :=
  ∃ trx, w.trxs[i]? = some trx ∧
    Trxd.TxMsg.parseMsg (d.take Gen.World.dataRecvSize) = .ok msg ∧ msg.ver = trx.hdrVer ∧ trx.running = true

theorem Accepts.unique {w : World} {i : Nat} {d : List Nat} {m1 m2 : Trxd.TxMsg}
    (h1 : Accepts w i d m1) (h2 : Accepts w i d m2) : m1 = m2 := by
  obtain ⟨_, _, p1, _⟩ := h1
  obtain ⟨_, _, p2, _⟩ := h2
  rw [p1] at p2; cases p2; rfl

/-- an accepted datagram is appended to the queue of `i`; nothing else happens -/
theorem recvDataMsg_accept {w : World} {i : Nat} {d : List Nat} {msg : Trxd.TxMsg} (h : Accepts w i d msg) :
    recvDataMsg w i d = { world := setTrx w i (fun t => { t with txQueue := t.txQueue ++ [msg] }) } := by
  obtain ⟨trx, ht, hp, hv, hr⟩ := h
  unfold recvDataMsg
  simp only [ht, hp, hv, hr, ne_eq, not_true_eq_false, if_false]

/-- a datagram that is not accepted changes nothing at all -/
theorem recvDataMsg_reject {w : World} {i : Nat} {d : List Nat} (h : ¬ ∃ msg, Accepts w i d msg) :
    (recvDataMsg w i d).world = w ∧ (recvDataMsg w i d).out = [] ∧ (recvDataMsg w i d).stale = 0 := by
  unfold recvDataMsg
  split
  · exact ⟨rfl, rfl, rfl⟩
  next trx ht =>
  simp only []
  split
  · exact ⟨rfl, rfl, rfl⟩
  next msg hp =>
  split
  · exact ⟨rfl, rfl, rfl⟩
  next hv =>
  split
  · exact ⟨rfl, rfl, rfl⟩
  next hr =>
  exfalso
  apply h
  refine ⟨msg, trx, ht, hp, ?_, ?_⟩
  · exact Decidable.of_not_not hv
  · simpa using hr

/-- effect of a data datagram on the queues and power states -/
theorem recvDataMsg_queue (w : World) (i : Nat) (d : List Nat) (k : Nat) :
    runningOf (recvDataMsg w i d).world k = runningOf w k ∧
    ((queueOf (recvDataMsg w i d).world k = queueOf w k ∧ ¬ (k = i ∧ ∃ msg, Accepts w i d msg)) ∨
     (k = i ∧ ∃ msg, Accepts w i d msg ∧ queueOf (recvDataMsg w i d).world k = queueOf w k ++ [msg])) := by
  by_cases h : ∃ msg, Accepts w i d msg
  · obtain ⟨msg, hm⟩ := h
    rw [recvDataMsg_accept hm]
    obtain ⟨trx, ht, hrest⟩ := hm
    have hm : Accepts w i d msg := ⟨trx, ht, hrest⟩
    by_cases e : i = k
    · subst e
      refine ⟨?_, .inr ⟨rfl, msg, hm, ?_⟩⟩
      · rw [runningOf_setTrx, if_pos rfl, ht]; simp only [runningOf, ht]
      · rw [queueOf_setTrx, if_pos rfl, ht]; simp only [queueOf, ht]
    · refine ⟨?_, .inl ⟨?_, fun hh => e hh.1.symm⟩⟩
      · rw [runningOf_setTrx, if_neg e]
      · rw [queueOf_setTrx, if_neg e]
  · rw [(recvDataMsg_reject h).1]
    exact ⟨rfl, .inl ⟨rfl, fun hh => h hh.2⟩⟩

/-! ### the whole tick -/

/-- the indications sent at the start of a tick -/
def tickInds (w : World) (fn : Nat) : List Dgram :=
  if fn % Gen.World.indPeriod = 0 then
    w.clkLinks.filterMap (fun i => (w.trxs[i]?).map (fun t =>
      ⟨t.clckPort, t.addr, t.clckRemote, PyStr.encodeUtf8 (PyStr.lit "IND CLOCK " ++ PyStr.natDigits fn ++ [0])⟩))
  else []

theorem tick_eq_go {w : World} {fn : Nat} (hr : w.clkRunning = true) (hs : w.clkSrc = some fn) :
    tick w = tick.go fn w (tickInds w fn) 0 (List.range w.trxs.length) := by
  unfold tick tickInds
  simp only [hr, hs, not_true_eq_false, if_false]

theorem tick_stopped {w : World} (hr : w.clkRunning = false) : tick w = { world := w } := by
  unfold tick; simp [hr]

theorem tick_nosrc {w : World} (hs : w.clkSrc = none) : (tick w).world = w := by
  unfold tick; split
  · rfl
  · simp only [hs]

/-- what a clock tick does to the queues (see `tick_go_spec`) -/
theorem tick_spec {w : World} {fn : Nat} (hr : w.clkRunning = true) (hs : w.clkSrc = some fn) :
    ∃ js1 js2, List.range w.trxs.length = js1 ++ js2 ∧
      (∀ k, runningOf (tick w).world k = runningOf w k) ∧
      (∀ k, k ∉ js1 → queueOf (tick w).world k = queueOf w k) ∧
      (∀ k, k ∈ js1 → queueOf (tick w).world k = tickedQueue fn w k) ∧
      (tick w).stale = (js1.map (staleCount fn w)).sum ∧
      ((tick w).exc = none → js2 = [] ∧
        (tick w).world.clkSrc = some ((fn + 1) % Gen.World.hyperframe)) ∧
      ((tick w).exc ≠ none → (tick w).world.clkSrc = w.clkSrc) := by
  rw [tick_eq_go hr hs]
  have := tick_go_spec fn (List.range w.trxs.length) w (tickInds w fn) 0 List.nodup_range
    (fun k hk => List.mem_range.mp hk)
  simpa only [Nat.zero_add] using this

theorem tick_go_clk (fn : Nat) : ∀ (js : List Nat) (w : World) (acc : List Dgram) (st : Nat),
    (tick.go fn w acc st js).world.clkRunning = w.clkRunning ∧
    (tick.go fn w acc st js).world.clkLinks = w.clkLinks ∧
    (tick.go fn w acc st js).world.trxs.length = w.trxs.length := by
  intro js
  induction js with
  | nil => intro w acc st; simp [tick.go]
  | cons j js ih =>
    intro w acc st
    simp only [tick.go]
    split
    · exact ⟨rfl, rfl, rfl⟩
    next w2 ds s2 hc =>
      obtain ⟨⟨-, h1, h2⟩, -, h3, -⟩ := clckTick_ok hc
      obtain ⟨i1, i2, i3⟩ := ih w2 (acc ++ ds) (st + s2)
      exact ⟨i1.trans h1, i2.trans h2, i3.trans h3⟩

/-- a tick never changes whether the clock generator runs, its links, or the transceiver list length -/
theorem tick_clk (w : World) :
    (tick w).world.clkRunning = w.clkRunning ∧ (tick w).world.clkLinks = w.clkLinks ∧
    (tick w).world.trxs.length = w.trxs.length := by
  cases hr : w.clkRunning
  · rw [tick_stopped hr]; exact ⟨hr.symm ▸ rfl, rfl, rfl⟩
  cases hs : w.clkSrc with
  | none => rw [tick_nosrc hs]; exact ⟨hr.symm ▸ rfl, rfl, rfl⟩
  | some fn =>
    rw [tick_eq_go hr hs]
    have := tick_go_clk fn (List.range w.trxs.length) w (tickInds w fn) 0
    rw [hr] at this; exact this

theorem tick_running (w : World) (k : Nat) : runningOf (tick w).world k = runningOf w k := by
  cases hr : w.clkRunning
  · rw [tick_stopped hr]
  cases hs : w.clkSrc with
  | none => rw [tick_nosrc hs]
  | some fn =>
    obtain ⟨_, _, -, h, -⟩ := tick_spec hr hs
    exact h k

/-! ### TRXC commands and power events -/

/-- the transceivers a power event of transceiver `i` (= `self`) acts on -/
def powerList (self : Trx) (i : Nat) : List Nat :=
  if self.childMgt && self.childIdx == 0 then i :: self.children else [i]

/-- what a power event does to each of them -/
def powerUpd (on : Bool) (t : Trx) : Trx :=
  if on then { t with running := true }
  else { t with running := false, txQueue := [], fh := none }

theorem powerUpd_idem (on : Bool) (t : Trx) : powerUpd on (powerUpd on t) = powerUpd on t := by
  cases on <;> rfl

theorem foldl_setTrx_getElem? (f : Trx → Trx) (hf : ∀ t, f (f t) = f t) :
    ∀ (l : List Nat) (w : World) (k : Nat),
      (l.foldl (fun w j => setTrx w j f) w).trxs[k]? =
        if k ∈ l then (w.trxs[k]?).map f else w.trxs[k]? := by
  intro l
  induction l with
  | nil => intro w k; simp
  | cons j l ih =>
    intro w k
    rw [List.foldl_cons, ih, setTrx_getElem?]
    by_cases e : j = k
    · subst e
      simp only [if_true, List.mem_cons, true_or]
      cases w.trxs[j]? <;> simp [hf]
    · have : ¬ k = j := fun h => e h.symm
      simp only [if_neg e, List.mem_cons, this, false_or]

theorem powerEvent_trxs {w w' : World} {i : Nat} {on : Bool} (h : powerEvent w i on = .ok w') :
    ∃ self, w.trxs[i]? = some self ∧
      ∀ k, w'.trxs[k]? = if k ∈ powerList self i then (w.trxs[k]?).map (powerUpd on) else w.trxs[k]? := by
  unfold powerEvent at h
  split at h
  · cases h
  next self hs =>
  refine ⟨self, hs, ?_⟩
  have key := foldl_setTrx_getElem? (powerUpd on) (powerUpd_idem on) (powerList self i) w
  simp only [] at h
  generalize hW : List.foldl _ w _ = W at h
  have hW' : W = (powerList self i).foldl (fun w j => setTrx w j (powerUpd on)) w := hW.symm
  have hw : w'.trxs = W.trxs := by
    repeat' split at h
    all_goals (cases h; rfl)
  intro k
  rw [hw, hW', key]

/-- effect of a TRXC command on the transceiver list: either every transceiver keeps its queue and
power state, or a power event of transceiver `i` was carried out -/
inductive CmdEffect (w : World) (i : Nat) (w' : World) : Prop
  | same (h : w'.trxs.map Trx.qr = w.trxs.map Trx.qr)
  | power (on : Bool) (self : Trx) (hs : w.trxs[i]? = some self)
      (h : ∀ k, (w'.trxs[k]?).map Trx.qr =
        if k ∈ powerList self i then (w.trxs[k]?).map (fun t => (powerUpd on t).qr) else (w.trxs[k]?).map Trx.qr)

theorem applyAction_effect {w w' : World} {i : Nat} {a : Action} {r : CmdRes}
    (h : applyAction w i a = .ok (w', r)) : CmdEffect w i w' := by
  cases a with
  | patch p rc =>
    simp only [applyAction, pure, Except.pure, Except.ok.injEq, Prod.mk.injEq] at h
    obtain ⟨rfl, -⟩ := h
    exact .same (SameQ.setTrx _ _ _ (fun t => by simp [Trx.qr])).qr
  | reply rc ps =>
    simp only [applyAction, pure, Except.pure, Except.ok.injEq, Prod.mk.injEq] at h
    obtain ⟨rfl, -⟩ := h
    exact .same rfl
  | power on =>
    simp only [applyAction, bind, Except.bind, pure, Except.pure] at h
    split at h
    · cases h
    next w2 hp =>
    simp only [Except.ok.injEq, Prod.mk.injEq] at h
    obtain ⟨rfl, -⟩ := h
    obtain ⟨self, hs, hk⟩ := powerEvent_trxs hp
    refine .power on self hs (fun k => ?_)
    rw [hk]; split
    · cases w.trxs[k]? <;> rfl
    · rfl
  | measure f =>
    simp only [applyAction, bind, Except.bind, pure, Except.pure, fakePmMeasure] at h
    repeat' split at h
    all_goals first | contradiction | skip
    all_goals
      simp only [Except.ok.injEq, Prod.mk.injEq] at h
      obtain ⟨rfl, -⟩ := h
      rename_i v hh
      split at hh <;> exact .same (SameQ.randint (v := v.1) (w' := v.2) hh).qr

/-- power event on the observed part of a transceiver -/
def powerQr (on : Bool) (q : List Trxd.TxMsg × Bool) : List Trxd.TxMsg × Bool :=
  if on then (q.1, true) else ([], false)

theorem powerUpd_qr (on : Bool) (t : Trx) : (powerUpd on t).qr = powerQr on t.qr := by
  cases on <;> rfl

theorem getElem?_map_qr_setTrx_patch (w : World) (i : Nat) (p : Patch) (k : Nat) :
    ((setTrx w i p.apply).trxs[k]?).map Trx.qr = (w.trxs[k]?).map Trx.qr := by
  have := (SameQ.setTrx w i p.apply (fun t => by simp [Trx.qr])).getElem? k
  exact this

theorem CmdEffect.of_patch {w w' : World} {i : Nat} {p : Patch}
    (h : CmdEffect (setTrx w i p.apply) i w') : CmdEffect w i w' := by
  cases h with
  | same h => exact .same (h.trans (SameQ.setTrx w i p.apply (fun t => by simp [Trx.qr])).qr)
  | power on self hs h =>
    rw [setTrx_getElem?, if_pos rfl] at hs
    cases hw : w.trxs[i]? with
    | none => rw [hw] at hs; cases hs
    | some self0 =>
      rw [hw] at hs
      simp only [Option.map_some, Option.some.injEq] at hs
      subst hs
      refine .power on self0 hw (fun k => ?_)
      have hl : powerList (p.apply self0) i = powerList self0 i := by simp [powerList]
      rw [h k, hl]
      have e1 := getElem?_map_qr_setTrx_patch w i p k
      split
      · simp only [powerUpd_qr]
        have := congrArg (Option.map (powerQr on)) e1
        simp only [Option.map_map] at this
        exact this
      · exact e1

theorem parseCmd_effect {w w' : World} {i : Nat} {req : List PyStr.Str} {r : CmdRes}
    (h : parseCmd w i req = .ok (w', r)) : CmdEffect w i w' := by
  unfold parseCmd at h
  simp only [bind, Except.bind, pure, Except.pure] at h
  split at h
  · cases h
  next pr hh =>
  obtain ⟨patch, res⟩ := pr
  simp only [] at h
  cases patch <;> simp only [] at h
  all_goals
    split at h
    · simp only [Except.ok.injEq, Prod.mk.injEq] at h
      obtain ⟨rfl, -⟩ := h
      first | exact .same rfl | exact CmdEffect.of_patch (.same rfl)
    · split at h
      · cases h
      · split at h
        · cases h
        · first | exact applyAction_effect h | exact (applyAction_effect h).of_patch

theorem handleRx_effect (w : World) (i sa sp : Nat) (d : List Nat) :
    CmdEffect w i (handleRx w i sa sp d).world := by
  unfold handleRx
  split
  · exact .same rfl
  simp only []
  split
  · exact .same rfl
  split
  · exact .same rfl
  split
  · next hp => exact parseCmd_effect hp
  · exact .same rfl
  · exact .same rfl

/-- observable effect of a TRXC datagram on transceiver `k`: nothing, powered on, or powered off
with its queue emptied -/
theorem CmdEffect.cases {w w' : World} {i : Nat} (h : CmdEffect w i w') (k : Nat) :
    (queueOf w' k = queueOf w k ∧ runningOf w' k = runningOf w k) ∨
    (queueOf w' k = queueOf w k ∧ runningOf w' k = true) ∨
    (queueOf w' k = [] ∧ runningOf w' k = false) := by
  cases h with
  | same h => exact .inl ⟨queueOf_of_qr h k, runningOf_of_qr h k⟩
  | power on self hs h =>
    have hk := h k
    split at hk
    · unfold queueOf runningOf
      cases h1 : w'.trxs[k]? <;> cases h2 : w.trxs[k]? <;>
        simp only [h1, h2, Option.map_some, Option.map_none, reduceCtorEq] at hk
      · exact .inl ⟨rfl, rfl⟩
      · have hk := Option.some.inj hk
        rw [powerUpd_qr] at hk
        cases on
        · right; right
          exact ⟨congrArg Prod.fst hk, congrArg Prod.snd hk⟩
        · right; left
          exact ⟨congrArg Prod.fst hk, congrArg Prod.snd hk⟩
    · left
      unfold queueOf runningOf
      cases h1 : w'.trxs[k]? <;> cases h2 : w.trxs[k]? <;>
        simp only [h1, h2, Option.map_some, Option.map_none, reduceCtorEq] at hk
      · exact ⟨rfl, rfl⟩
      · have hk := Option.some.inj hk
        exact ⟨congrArg Prod.fst hk, congrArg Prod.snd hk⟩
/-! ### requests: POWEROFF -/

/-- the TRXC datagram `d` carries the request `req` (`CTRLInterface.handle_rx`: decode, check the
`CMD` signature, strip, split) -/
def CtrlReq (d : List Nat) (req : List Str) : Prop :=
  ∃ s, decodeUtf8 (d.take Gen.World.ctrlRecvSize) = some s ∧ startsWith s (lit "CMD") = true ∧
    splitSpace (stripNul (strip (s.drop 4))) = req

theorem handleRx_of_req {w : World} {i sa sp : Nat} {d : List Nat} {req : List Str} {trx : Trx}
    (ht : w.trxs[i]? = some trx) (hreq : CtrlReq d req) :
    (handleRx w i sa sp d).world = match parseCmd w i req with
      | .ok (w', _) => w'
      | .error _ => w := by
  obtain ⟨s, hs, hst, hsp⟩ := hreq
  unfold handleRx
  simp only [ht, hs, hst, not_true_eq_false, if_false, hsp]
  cases hp : parseCmd w i req with
  | ok v => rfl
  | error e => cases e <;> rfl

theorem step_ctrl_of_req {w : World} {i sp : Nat} {d : List Nat} {req : List Str} {trx : Trx}
    (ht : w.trxs[i]? = some trx) (hreq : CtrlReq d req) :
    (step w (.ctrl i sp d)).world = match parseCmd w i req with
      | .ok (w', _) => w'
      | .error _ => w := by
  simp only [step, ht]
  exact handleRx_of_req ht hreq

/-- `power_event_handler` never raises for an existing transceiver -/
theorem powerEvent_ok {w : World} {i : Nat} {trx : Trx} (ht : w.trxs[i]? = some trx) (on : Bool) :
    ∃ w', powerEvent w i on = .ok w' := by
  unfold powerEvent
  simp only [ht]
  repeat' split
  all_goals exact ⟨_, rfl⟩

theorem ctrlCmdHandler_poweroff : ctrlCmdHandler [lit "POWEROFF"] = .ok (none, none) := rfl
theorem verifyCmd_poweroff_poweron : verifyCmd [lit "POWEROFF"] "POWERON" 0 = false := by decide +kernel
theorem verifyCmd_poweroff_poweroff : verifyCmd [lit "POWEROFF"] "POWEROFF" 0 = true := by decide +kernel
theorem commonCmd_poweroff (t : Trx) : commonCmd t [lit "POWEROFF"] = .ok (.power false) := by
    unfold commonCmd
    simp only [verifyCmd_poweroff_poweron, verifyCmd_poweroff_poweroff, Bool.false_eq_true, if_false, if_true]
    rfl
theorem parseCmd_poweroff {w : World} {i : Nat} {trx : Trx} (ht : w.trxs[i]? = some trx) {w' : World}
    (hw : powerEvent w i false = .ok w') : parseCmd w i [lit "POWEROFF"] = .ok (w', (0, [])) := by
  unfold parseCmd
  rw [ctrlCmdHandler_poweroff]
  simp only [bind, Except.bind, ht, commonCmd_poweroff, applyAction, hw, pure, Except.pure]

/-- POWEROFF of transceiver `i` empties the queue of `i` and of every child it manages and stops them;
all other transceivers keep queue and power state -/
theorem poweroff_effect {w : World} {i sp : Nat} {d : List Nat} {trx : Trx}
    (ht : w.trxs[i]? = some trx) (hreq : CtrlReq d [lit "POWEROFF"]) (k : Nat) :
    (k ∈ powerList trx i →
      queueOf (step w (.ctrl i sp d)).world k = [] ∧ runningOf (step w (.ctrl i sp d)).world k = false) ∧
    (k ∉ powerList trx i →
      queueOf (step w (.ctrl i sp d)).world k = queueOf w k ∧
      runningOf (step w (.ctrl i sp d)).world k = runningOf w k) := by
  obtain ⟨w', hp⟩ := powerEvent_ok ht false
  have hc := parseCmd_poweroff ht hp
  rw [step_ctrl_of_req ht hreq, hc]
  simp only []
  obtain ⟨self, hs, hk⟩ := powerEvent_trxs hp
  rw [ht] at hs; cases hs
  have := hk k
  constructor
  · intro hm
    rw [if_pos hm] at this
    unfold queueOf runningOf
    rw [this]
    cases w.trxs[k]? <;> simp [powerUpd]
  · intro hm
    rw [if_neg hm] at this
    unfold queueOf runningOf
    rw [this]
    exact ⟨rfl, rfl⟩

example : CtrlReq (encodeUtf8 (lit "CMD POWEROFF\x00")) [lit "POWEROFF"] :=
  ⟨lit "CMD POWEROFF\x00", by decide +kernel, by decide +kernel, by decide +kernel⟩

/-! ### requests: SETFORMAT -/

theorem ctrlCmdHandler_setformat (a : Str) : ctrlCmdHandler [lit "SETFORMAT", a] = .ok (none, none) := rfl

theorem commonCmd_setformat (t : Trx) (a : Str) :
    commonCmd t [lit "SETFORMAT", a] =
      (match toInt a with
       | .error e => .error e
       | .ok verReq =>
         if verReq < 0 ∨ verReq > Gen.Trxd.chdrVersionMax then .ok (.reply (-1) [])
         else if ¬ Gen.Trxd.knownVersions.contains verReq then .ok (.reply (pickHdrVer verReq) [])
         else .ok (.patch (.hdrVer verReq) verReq)) := by
  unfold commonCmd
  have e1 : verifyCmd [lit "SETFORMAT", a] "POWERON" 0 = false := rfl
  have e2 : verifyCmd [lit "SETFORMAT", a] "POWEROFF" 0 = false := rfl
  have e3 : verifyCmd [lit "SETFORMAT", a] "RXTUNE" 1 = false := rfl
  have e4 : verifyCmd [lit "SETFORMAT", a] "TXTUNE" 1 = false := rfl
  have e5 : verifyCmd [lit "SETFORMAT", a] "MEASURE" 1 = false := rfl
  have e6 : verifyCmd [lit "SETFORMAT", a] "SETFH" 4 true = false := rfl
  have e7 : verifyCmd [lit "SETFORMAT", a] "SETFORMAT" 1 = true := rfl
  simp only [e1, e2, e3, e4, e5, e6, e7, Bool.false_eq_true, if_false, if_true]
  simp only [arg, List.getElem?_cons_succ, List.getElem?_cons_zero, bind, Except.bind, pure, Except.pure]
  cases toInt a with
  | error e => rfl
  | ok v => rfl

/-- an accepted `SETFORMAT v` (v a known version) sets the header version of `i` and nothing else -/
theorem setformat_effect {w : World} {i sp : Nat} {d : List Nat} {trx : Trx} {a : Str} {v : Int}
    (ht : w.trxs[i]? = some trx) (hreq : CtrlReq d [lit "SETFORMAT", a]) (ha : toInt a = .ok v)
    (hk : v ∈ Gen.Trxd.knownVersions) :
    (step w (.ctrl i sp d)).world = setTrx w i (fun t => { t with hdrVer := v }) := by
  rw [step_ctrl_of_req ht hreq]
  unfold parseCmd
  rw [ctrlCmdHandler_setformat]
  simp only [bind, Except.bind, ht, commonCmd_setformat, ha]
  have hv : v = 0 ∨ v = 1 := by simpa [Gen.Trxd.knownVersions] using hk
  rcases hv with rfl | rfl <;> rfl

/-! ### the clock counter under TRXC commands -/

/-- effect of a TRXC command on the clock counter: untouched, or (re)started at `clck_start` when
the generator was not running -/
def ClkEffect (w w' : World) : Prop :=
  w'.clkSrc = w.clkSrc ∨ (w.clkRunning = false ∧ w'.clkSrc = some Gen.World.clckStart)

/-- the clock-generator part of `power_event_handler` -/
def clkFinish (W : World) (links : List Nat) : Except Exc World :=
  let w := { W with clkLinks := links }
  if ¬ w.clkRunning ∧ links.length > 0 then
    .ok { w with clkRunning := true, clkSrc := some Gen.World.clckStart }
  else if w.clkRunning ∧ links.isEmpty then
    .ok { w with clkRunning := false }
  else .ok w

theorem clkFinish_clk {W w' : World} {links : List Nat} (h : clkFinish W links = .ok w') :
    ClkEffect W w' := by
  unfold clkFinish at h
  simp only [] at h
  by_cases c1 : ¬ W.clkRunning = true ∧ links.length > 0
  · rw [if_pos c1] at h; cases h
    exact .inr ⟨by simpa using c1.1, rfl⟩
  · rw [if_neg c1] at h
    by_cases c2 : W.clkRunning = true ∧ links.isEmpty = true
    · rw [if_pos c2] at h; cases h; exact .inl rfl
    · rw [if_neg c2] at h; cases h; exact .inl rfl

theorem foldl_setTrx_clk (f : Trx → Trx) : ∀ (l : List Nat) (w : World),
    (l.foldl (fun w j => setTrx w j f) w).clkSrc = w.clkSrc ∧
    (l.foldl (fun w j => setTrx w j f) w).clkRunning = w.clkRunning := by
  intro l
  induction l with
  | nil => intro w; exact ⟨rfl, rfl⟩
  | cons a l ih => intro w; rw [List.foldl_cons]; exact ih _

theorem powerEvent_clk {w w' : World} {i : Nat} {on : Bool} (h : powerEvent w i on = .ok w') :
    ClkEffect w w' := by
  unfold powerEvent at h
  split at h
  · cases h
  simp only [] at h
  generalize hW : List.foldl _ w _ = W at h
  have h1 : W.clkSrc = w.clkSrc ∧ W.clkRunning = w.clkRunning := by
    rw [← hW]; exact foldl_setTrx_clk _ _ _
  unfold ClkEffect
  rw [← h1.1, ← h1.2]
  split at h
  · cases h; exact .inl rfl
  · change clkFinish W (if ¬on = true ∧ W.clkLinks.contains i = true then W.clkLinks.erase i
      else if on = true ∧ ¬W.clkLinks.contains i = true then W.clkLinks ++ [i] else W.clkLinks) = .ok w' at h
    exact clkFinish_clk h

theorem applyAction_clk {w w' : World} {i : Nat} {a : Action} {r : CmdRes}
    (h : applyAction w i a = .ok (w', r)) : ClkEffect w w' := by
  cases a with
  | patch p rc =>
    simp only [applyAction, pure, Except.pure, Except.ok.injEq, Prod.mk.injEq] at h
    obtain ⟨rfl, -⟩ := h; exact .inl rfl
  | reply rc ps =>
    simp only [applyAction, pure, Except.pure, Except.ok.injEq, Prod.mk.injEq] at h
    obtain ⟨rfl, -⟩ := h; exact .inl rfl
  | power on =>
    simp only [applyAction, bind, Except.bind, pure, Except.pure] at h
    split at h
    · cases h
    next w2 hp =>
    simp only [Except.ok.injEq, Prod.mk.injEq] at h
    obtain ⟨rfl, -⟩ := h
    exact powerEvent_clk hp
  | measure f =>
    simp only [applyAction, bind, Except.bind, pure, Except.pure, fakePmMeasure] at h
    repeat' split at h
    all_goals first | contradiction | skip
    all_goals
      simp only [Except.ok.injEq, Prod.mk.injEq] at h
      obtain ⟨rfl, -⟩ := h
      rename_i v hh
      split at hh <;> exact .inl (SameQ.randint (v := v.1) (w' := v.2) hh).clkSrc

theorem parseCmd_clk {w w' : World} {i : Nat} {req : List Str} {r : CmdRes}
    (h : parseCmd w i req = .ok (w', r)) : ClkEffect w w' := by
  unfold parseCmd at h
  simp only [bind, Except.bind, pure, Except.pure] at h
  split at h
  · cases h
  next pr hh =>
  obtain ⟨patch, res⟩ := pr
  cases patch <;> simp only [] at h
  all_goals
    split at h
    · simp only [Except.ok.injEq, Prod.mk.injEq] at h
      obtain ⟨rfl, -⟩ := h
      exact .inl rfl
    · split at h
      · cases h
      · split at h
        · cases h
        · have := applyAction_clk h; exact this

theorem step_ctrl_clk (w : World) (i sp : Nat) (d : List Nat) : ClkEffect w (step w (.ctrl i sp d)).world := by
  simp only [step]
  split
  · unfold handleRx
    split
    · exact .inl rfl
    simp only []
    split
    · exact .inl rfl
    split
    · exact .inl rfl
    split
    · next hp => exact parseCmd_clk hp
    · exact .inl rfl
    · exact .inl rfl
  · exact .inl rfl

theorem step_data_clk (w : World) (i : Nat) (d : List Nat) :
    (step w (.data i d)).world.clkSrc = w.clkSrc ∧ (step w (.data i d)).world.clkRunning = w.clkRunning := by
  simp only [step]
  by_cases h : ∃ msg, Accepts w i d msg
  · obtain ⟨msg, hm⟩ := h
    rw [recvDataMsg_accept hm]; exact ⟨rfl, rfl⟩
  · rw [(recvDataMsg_reject h).1]; exact ⟨rfl, rfl⟩

end OsmoVerif.World
