/-
Facts about the TRXD codec model and the hopping model that the world proofs (C05/C14) need:
  * `RxMsg.gen_msg` returns octets or raises ValueError, nothing else (for every object state);
  * `TxMsg.trans` cannot fail on a byte-valued burst; what `TxMsg.parse_msg` leaves in the object;
  * `HoppingParams.resolve` is total on every object `__init__` accepted (from Lemmas/Hopping).
The codec statements are derived from Lemmas/Trxd (validate_iff / validate_err / genMsg_ok).
-/
import OsmoVerif.Lemmas.Trxd
import OsmoVerif.Model.Trxd
import OsmoVerif.Lemmas.Hopping
namespace OsmoVerif.Trxd
open OsmoVerif

theorem knownVersions_contains {ver : Int} (h : Gen.Trxd.knownVersions.contains ver = true) :
    ver = 0 ∨ ver = 1 := by
  simp [Gen.Trxd.knownVersions] at h
  exact h

namespace RxMsg
/-- `gen_msg` returns the octets or raises ValueError — nothing else, for every object state -/
theorem genMsg_safe (m : RxMsg) (l : Bool) :
    (∃ b, m.genMsg l = .ok b) ∨ m.genMsg l = .error .valueError := by
  cases hv : m.validate with
  | ok u => exact .inl (RxMsg.genMsg_ok m l ((RxMsg.validate_iff m).mp hv))
  | error e =>
    cases RxMsg.validate_err m e hv
    right
    simp only [genMsg, hv, bind, Except.bind]
end RxMsg

namespace TxMsg
theorem trans_ok (m : TxMsg) (v : Option Int) (hw : m.WellTyped) :
    ∃ r, m.trans v = .ok r ∧ r.fn = m.fn ∧ (r.nopeInd = false → m.burst.isSome = true) ∧
      r.ver = (match v with | none => m.ver | some v => v) := by
  unfold trans
  cases hb : m.burst with
  | none =>
    refine ⟨_, rfl, rfl, ?_, rfl⟩
    intro h; cases h
  | some b =>
    obtain ⟨s, hs, _⟩ := translateGo_total Gen.Trxd.tabUbit2sbit tabUbit2sbit_length b
      (hw b (by rw [hb]; exact rfl))
    have hs' : ubit2sbit b = .ok s := by
      simp only [ubit2sbit, translate, tabUbit2sbit_length, ne_eq, not_true_eq_false, if_false, hs]
    simp only [hs']
    refine ⟨_, rfl, rfl, ?_, rfl⟩
    intro _; rfl

theorem parseBurst_mem {b : Bytes} {x : Nat} (h : x ∈ parseBurst b) : x ∈ b := by
  unfold parseBurst at h
  simp only at h
  repeat' split at h
  all_goals first | exact h | exact List.mem_of_mem_take h

theorem parseMsg_sane {d : Bytes} {m : TxMsg} (h : parseMsg d = .ok m) (hd : ∀ x ∈ d, x < 256) :
    m.fn.isSome = true ∧ m.tn.isSome = true ∧ m.pwr.isSome = true ∧ m.WellTyped := by
  simp only [parseMsg, bind, Except.bind, pure, Except.pure, throw, throwThe, MonadExceptOf.throw] at h
  repeat' split at h
  all_goals first
    | (cases h; done)
    | (cases h
       refine ⟨rfl, rfl, rfl, ?_⟩
       intro b hb x hx
       first
         | (cases hb; done)
         | (cases hb; exact hd x (List.mem_of_mem_drop (parseBurst_mem hx))))
end TxMsg
end OsmoVerif.Trxd

namespace OsmoVerif.Hopping

/-- `resolve` never raises on an object built by `__init__` (shape of `Props.C07.py_resolve_total`) -/
theorem resolve_total {α : Type} {hsn maio : Int} {ma : List α} {hp : HoppingParams α}
    (h : pyInit hsn maio ma = .ok hp) (fn : Nat) : ∃ v, hp.resolve fn = .ok v := by
  obtain ⟨hn, h0, h64, e1, e2, e3, _⟩ := pyInit_inv hsn maio ma hp h
  obtain ⟨k, hk⟩ := Int.eq_ofNat_of_zero_le h0
  subst hk
  obtain ⟨hsn', maio', ma', pnm⟩ := hp
  simp only at e1 e2 e3
  subst e1 e2 e3
  obtain ⟨v, _, hv⟩ := py_resolve_total_aux k maio' ma' pnm fn (by omega) hn (by decide)
  exact ⟨v, hv⟩

/-- `__init__` succeeds exactly for a non-empty MA and an HSN in `range(64)`
(shape of `Props.C07.py_init_iff`) -/
theorem pyInit_cases {α : Type} (hsn maio : Int) (ma : List α) :
    (ma ≠ [] ∧ 0 ≤ hsn ∧ hsn < 64 →
      pyInit hsn maio ma = .ok ⟨hsn, maio, ma, powNbinMask ma.length⟩) ∧
    (¬ (ma ≠ [] ∧ 0 ≤ hsn ∧ hsn < 64) → pyInit hsn maio ma = .error .ValueError) := by
  have hl : ma.length = 0 ↔ ma = [] := List.length_eq_zero_iff
  constructor
  · intro ⟨hne, h0, h64⟩
    have hn0 : ma.length ≠ 0 := fun h => hne (hl.1 h)
    have hr : ¬ ¬ (0 ≤ hsn ∧ hsn < 64) := fun h => h ⟨h0, h64⟩
    simp only [pyInit, hn0, if_false, if_neg hr, pyPnm_eq]
  · intro h
    by_cases hn0 : ma.length = 0
    · simp only [pyInit, hn0, if_true]
    · have hr : ¬ (0 ≤ hsn ∧ hsn < 64) := fun hr => h ⟨fun e => hn0 (hl.2 e), hr⟩
      simp only [pyInit, hn0, if_false, hr, not_false_eq_true, if_true]

end OsmoVerif.Hopping
