/-
Facts about the TRXD codec model and the hopping model that the world proofs (C05/C14) need:
  * `RxMsg.gen_msg` returns octets or raises ValueError, nothing else (for every object state);
  * `TxMsg.trans` cannot fail on a byte-valued burst; what `TxMsg.parse_msg` leaves in the object;
  * `HoppingParams.resolve` is total on every object `__init__` accepted (from Lemmas/Hopping).
The codec statements are proved here against the draft Model/Trxd.lean of this clone; with the
codec worker's final Model/Trxd.lean + Lemmas/Trxd.lean use docs/WorldCodec_after_trxd_merge.lean
(same three statements, derived from validate_iff / validate_err / genMsg_ok).
-/
import OsmoVerif.Model.Trxd
import OsmoVerif.Lemmas.Hopping
namespace OsmoVerif.Trxd
open OsmoVerif

theorem knownVersions_contains {ver : Int} (h : Gen.Trxd.knownVersions.contains ver = true) :
    ver = 0 ∨ ver = 1 := by
  simp [Gen.Trxd.knownVersions] at h
  exact h

theorem validateCommon_ok {ver : Int} {fn tn : Option Int} (h : validateCommon ver fn tn = .ok ()) :
    (ver = 0 ∨ ver = 1) ∧ (∃ f, fn = some f ∧ 0 ≤ f ∧ f < 2715648) ∧ (∃ t, tn = some t ∧ 0 ≤ t ∧ t ≤ 7) := by
  have hH : Gen.Trxd.gsmHyperframe = 2715648 := by decide
  unfold validateCommon at h
  by_cases hk : Gen.Trxd.knownVersions.contains ver = true
  · rw [if_neg (not_not_intro hk)] at h
    cases fn with
    | none => cases h
    | some f =>
      cases tn with
      | none => 
        simp only at h
        split at h <;> cases h
      | some t =>
        simp only at h
        split at h
        · cases h
        · split at h
          · cases h
          · exact ⟨knownVersions_contains hk, ⟨f, rfl, by omega, by omega⟩, ⟨t, rfl, by omega, by omega⟩⟩
  · rw [if_pos hk] at h; cases h

theorem validateCommon_err {ver : Int} {fn tn : Option Int} {e : Exc}
    (h : validateCommon ver fn tn = .error e) : e = .valueError := by
  unfold validateCommon at h
  repeat' split at h
  all_goals first | (cases h; rfl) | cases h

theorem bytearrayAppend_ok (buf : Bytes) {x : Int} (h0 : 0 ≤ x) (h1 : x < 256) :
    bytearrayAppend buf x = .ok (buf ++ [x.toNat]) := by
  simp only [bytearrayAppend, h0, h1, and_self, if_true]

theorem packBE32u_ok {x : Int} (h0 : 0 ≤ x) (h1 : x < 4294967296) : ∃ b, packBE32u x = .ok b := by
  simp only [packBE32u, h0, h1, and_self, if_true]; exact ⟨_, rfl⟩

theorem packBE16s_ok {x : Int} (h0 : -32768 ≤ x) (h1 : x ≤ 32767) : ∃ b, packBE16s x = .ok b := by
  simp only [packBE16s, h0, h1, and_self, if_true]; exact ⟨_, rfl⟩

theorem genCommon_ok {ver : Int} {fn tn : Option Int} (h : validateCommon ver fn tn = .ok ()) :
    ∃ b, genCommon ver fn tn = .ok b := by
  obtain ⟨hv, ⟨f, rfl, hf0, hf1⟩, ⟨t, rfl, ht0, ht1⟩⟩ := validateCommon_ok h
  obtain ⟨b, hb⟩ := packBE32u_ok hf0 (show f < 4294967296 by omega)
  have : 0 ≤ 16 * ver + t % 8 ∧ 16 * ver + t % 8 < 256 := by omega
  simp only [genCommon, bytearrayAppend_ok [] this.1 this.2, hb]
  exact ⟨_, rfl⟩

theorem translateGo_total {α : Type} (tab : List α) (hl : tab.length = 256) (xs : Bytes)
    (hx : ∀ x ∈ xs, x < 256) : ∃ r, translateGo tab xs = .ok r := by
  induction xs with
  | nil => exact ⟨[], rfl⟩
  | cons x xs ih =>
    obtain ⟨r, hr⟩ := ih (fun y hy => hx y (List.mem_cons_of_mem _ hy))
    have hlt : x < tab.length := by rw [hl]; exact hx x List.mem_cons_self
    simp only [translateGo, List.getElem?_eq_getElem hlt, hr]
    exact ⟨_, rfl⟩

theorem translate_total {α : Type} (tab : List α) (hl : tab.length = 256) (xs : Bytes)
    (hx : ∀ x ∈ xs, x < 256) : ∃ r, translate tab xs = .ok r := by
  simp only [translate, hl, ne_eq, not_true_eq_false, if_false]
  exact translateGo_total tab hl xs hx

theorem sbit2usbit_total (b : List Int) : ∃ u, sbit2usbit b = .ok u := by
  apply translate_total _ (by decide +kernel)
  intro x hx
  obtain ⟨s, _, rfl⟩ := List.mem_map.mp hx
  unfold sbyte; omega

theorem ubit2sbit_total (b : Bytes) (hb : ∀ x ∈ b, x < 256) : ∃ s, ubit2sbit b = .ok s :=
  translate_total _ (by decide +kernel) b hb

theorem coding_shift_lt : ∀ mod : Modulation, mod.coding <<< 3 < 256 := by decide

namespace RxMsg

theorem validateMeas_err {m : RxMsg} {e : Exc} (h : m.validateMeas = .error e) : e = .valueError := by
  unfold validateMeas at h
  repeat' split at h
  all_goals first | (cases h; rfl) | cases h

theorem validateMts_err {m : RxMsg} {e : Exc} (h : m.validateMts = .error e) : e = .valueError := by
  unfold validateMts at h
  repeat' split at h
  all_goals first | (cases h; rfl) | cases h

theorem validateCi_err {m : RxMsg} {e : Exc} (h : m.validateCi = .error e) : e = .valueError := by
  unfold validateCi at h
  repeat' split at h
  all_goals first | (cases h; rfl) | cases h

theorem validateMeas_ok {m : RxMsg} (h : m.validateMeas = .ok ()) :
    (∃ r, m.rssi = some r ∧ -255 ≤ r ∧ r ≤ 0) ∧ (∃ t, m.toa256 = some t ∧ -32768 ≤ t ∧ t ≤ 32767) := by
  have h1 : Gen.Trxd.rssiMin = -120 := by decide
  have h2 : Gen.Trxd.rssiMax = -47 := by decide
  have h3 : Gen.Trxd.toa256Min = -32768 := by decide
  have h4 : Gen.Trxd.toa256Max = 32767 := by decide
  unfold validateMeas at h
  cases hr : m.rssi with
  | none => rw [hr] at h; cases h
  | some r =>
    rw [hr] at h
    simp only at h
    split at h
    · cases h
    · cases ht : m.toa256 with
      | none => rw [ht] at h; cases h
      | some t =>
        rw [ht] at h
        simp only at h
        split at h
        · cases h
        · exact ⟨⟨r, rfl, by omega, by omega⟩, ⟨t, rfl, by omega, by omega⟩⟩

theorem validateCi_ok {m : RxMsg} (h : m.validateCi = .ok ()) (hv : m.ver ≥ 1) :
    ∃ c, m.ci = some c ∧ -32768 ≤ c ∧ c ≤ 32767 := by
  have h1 : Gen.Trxd.ciMin = -1280 := by decide
  have h2 : Gen.Trxd.ciMax = 1280 := by decide
  unfold validateCi at h
  rw [if_pos hv] at h
  cases hc : m.ci with
  | none => rw [hc] at h; cases h
  | some c =>
    rw [hc] at h
    simp only at h
    split at h
    · cases h
    · exact ⟨c, rfl, by omega, by omega⟩

theorem validateMts_ok {m : RxMsg} (h : m.validateMts = .ok ()) (hv : m.ver ≥ 1) (hn : m.nopeInd = false) :
    ∃ mod set tsc, m.modType = some mod ∧ m.tscSet = some set ∧ m.tsc = some tsc ∧ 0 ≤ set ∧ set < 4 := by
  unfold validateMts at h
  rw [if_pos ⟨hv, hn⟩] at h
  cases hm : m.modType with
  | none => rw [hm] at h; cases h
  | some mod =>
    rw [hm] at h
    simp only at h
    cases hs : m.tscSet with
    | none => rw [hs] at h; cases h
    | some set =>
      rw [hs] at h
      simp only at h
      have hset : 0 ≤ set ∧ set < 4 := by
        by_cases hg : mod = Modulation.gmsk
        · simp only [hg, if_true] at h
          by_cases hc : 0 ≤ set ∧ set < 4
          · exact hc
          · rw [if_pos hc] at h; cases h
        · simp only [hg, if_false] at h
          by_cases hc : 0 ≤ set ∧ set < 2
          · exact ⟨hc.1, by omega⟩
          · rw [if_pos hc] at h; cases h
      cases ht : m.tsc with
      | none =>
        rw [ht] at h
        by_cases hc : (if mod = Modulation.gmsk then ¬ (0 ≤ set ∧ set < 4) else ¬ (0 ≤ set ∧ set < 2))
        · rw [if_pos hc] at h; cases h
        · rw [if_neg hc] at h; cases h
      | some tsc => exact ⟨mod, set, tsc, rfl, rfl, rfl, hset⟩

theorem validateBurst_err {m : RxMsg} {e : Exc} (hm : m.validateMts = .ok ())
    (h : m.validateBurst = .error e) : e = .valueError := by
  unfold validateBurst at h
  split at h
  · unfold validateBurstV0 at h
    repeat' split at h
    all_goals first | (cases h; rfl) | cases h
  · split at h
    · rename_i hv
      unfold validateBurstV1 at h
      split at h
      · cases h
      · cases h; rfl
      · cases h; rfl
      · rename_i hn hb
        obtain ⟨mod, _, _, hmod, _⟩ := validateMts_ok hm hv hn
        rw [hmod] at h
        simp only at h
        split at h
        · cases h; rfl
        · cases h
    · cases h

theorem validate_err {m : RxMsg} {e : Exc} (h : m.validate = .error e) : e = .valueError := by
  unfold validate at h
  split at h
  · cases h; exact validateCommon_err ‹_›
  · split at h
    · cases h; exact validateMeas_err ‹_›
    · split at h
      · cases h; exact validateMts_err ‹_›
      · split at h
        · cases h; exact validateCi_err ‹_›
        · exact validateBurst_err ‹_› h


theorem appendMts_ok {m : RxMsg} (buf : Bytes) (hm : m.validateMts = .ok ()) (hv : m.ver ≥ 1) :
    ∃ b, m.appendMts buf = .ok b := by
  unfold appendMts
  cases hn : m.nopeInd with
  | true =>
    simp only [if_true]
    exact ⟨_, bytearrayAppend_ok buf (by decide) (by decide)⟩
  | false =>
    obtain ⟨mod, set, tsc, h1, h2, h3, hs0, hs1⟩ := validateMts_ok hm hv hn
    have hneg : ¬ set < 0 := by omega
    simp only [Bool.false_eq_true, if_false, h1, h2, h3, hneg]
    refine ⟨_, bytearrayAppend_ok buf (by omega) ?_⟩
    have a1 : (tsc % 8).toNat < 2 ^ 8 := by omega
    have a2 : mod.coding <<< 3 < 2 ^ 8 := coding_shift_lt mod
    have a3 : set.toNat <<< 3 < 2 ^ 8 := by rw [Nat.shiftLeft_eq]; omega
    have := Nat.or_lt_two_pow (Nat.or_lt_two_pow a1 a2) a3
    omega

theorem appendHdrTo_ok {m : RxMsg} (buf : Bytes) (h1 : m.validateMeas = .ok ())
    (h2 : m.validateMts = .ok ()) (h3 : m.validateCi = .ok ()) : ∃ b, m.appendHdrTo buf = .ok b := by
  obtain ⟨⟨r, hr, hr0, hr1⟩, ⟨t, ht, ht0, ht1⟩⟩ := validateMeas_ok h1
  obtain ⟨tb, htb⟩ := packBE16s_ok ht0 ht1
  unfold appendHdrTo
  simp only [hr, ht, bytearrayAppend_ok buf (show 0 ≤ -r by omega) (show -r < 256 by omega), htb]
  by_cases hv : m.ver ≥ 1
  · obtain ⟨mb, hmb⟩ := appendMts_ok (buf ++ [(-r).toNat] ++ tb) h2 hv
    obtain ⟨c, hc, hc0, hc1⟩ := validateCi_ok h3 hv
    obtain ⟨cb, hcb⟩ := packBE16s_ok hc0 hc1
    simp only [hv, if_true, hmb, hc, hcb]
    exact ⟨_, rfl⟩
  · simp only [hv, if_false]
    exact ⟨_, rfl⟩

/-- `gen_msg` returns the octets or raises ValueError — nothing else (no struct.error, TypeError,
AttributeError, IndexError), for every object state -/
theorem genMsg_safe (m : RxMsg) (l : Bool) :
    (∃ b, m.genMsg l = .ok b) ∨ m.genMsg l = .error .valueError := by
  unfold genMsg
  cases hv : m.validate with
  | error e => cases validate_err hv; exact .inr rfl
  | ok u =>
    left
    unfold validate at hv
    cases h0 : validateCommon m.ver m.fn m.tn with
    | error e => rw [h0] at hv; cases hv
    | ok u0 =>
      rw [h0] at hv; simp only at hv
      cases h1 : m.validateMeas with
      | error e => rw [h1] at hv; cases hv
      | ok u1 =>
        rw [h1] at hv; simp only at hv
        cases h2 : m.validateMts with
        | error e => rw [h2] at hv; cases hv
        | ok u2 =>
          rw [h2] at hv; simp only at hv
          cases h3 : m.validateCi with
          | error e => rw [h3] at hv; cases hv
          | ok u3 =>
            obtain ⟨cb, hcb⟩ := genCommon_ok h0
            obtain ⟨hb, hhb⟩ := appendHdrTo_ok cb h1 h2 h3
            simp only [hcb, hhb]
            cases m.burst with
            | none => exact ⟨_, rfl⟩
            | some b =>
              obtain ⟨u, hu⟩ := sbit2usbit_total b
              simp only [hu]
              exact ⟨_, rfl⟩

end RxMsg

namespace TxMsg

/-- `trans()` of a message with a byte-valued burst cannot fail; the NOPE flag of the result is
clear only if there was a burst -/
theorem trans_ok (m : TxMsg) (v : Option Int) (hw : m.WellTyped) :
    ∃ r, m.trans v = .ok r ∧ r.fn = m.fn ∧ (r.nopeInd = false → m.burst.isSome = true) ∧
      r.ver = (match v with | none => m.ver | some v => v) := by
  unfold trans
  cases hb : m.burst with
  | none =>
    refine ⟨_, rfl, rfl, ?_, rfl⟩
    intro h; cases h
  | some b =>
    obtain ⟨s, hs⟩ := ubit2sbit_total b (hw b (by rw [hb]; exact rfl))
    simp only [hs]
    refine ⟨_, rfl, rfl, ?_, rfl⟩
    intro _; rfl

theorem parseBurst_mem {b : Bytes} {x : Nat} (h : x ∈ parseBurst b) : x ∈ b := by
  unfold parseBurst at h
  simp only at h
  repeat' split at h
  all_goals first | exact h | exact List.mem_of_mem_take h

/-- what `parse_msg` leaves in the object: frame/timeslot/attenuation set, burst made of octets of
the datagram -/
theorem parseMsg_sane {d : Bytes} {m : TxMsg} (h : parseMsg d = .ok m) (hd : ∀ x ∈ d, x < 256) :
    m.fn.isSome = true ∧ m.tn.isSome = true ∧ m.pwr.isSome = true ∧ m.WellTyped := by
  unfold parseMsg at h
  repeat' split at h
  all_goals first
    | (cases h; done)
    | (cases h
       refine ⟨rfl, rfl, rfl, ?_⟩
       intro b hb x hx
       first
         | (cases hb; done)
         | (cases hb; exact hd x (List.mem_of_mem_drop (parseBurst_mem hx))))

end TxMsg
end OsmoVerif.Trxd

namespace OsmoVerif.Hopping

/-- `resolve` never raises on an object built by `__init__` (shape of `Props.C07.py_resolve_total`) -/
theorem resolve_total {α : Type} {hsn maio : Int} {ma : List α} {hp : HoppingParams α}
    (h : pyInit hsn maio ma = .ok hp) (fn : Nat) : ∃ v, hp.resolve fn = .ok v := by
  obtain ⟨hn, h0, h64, e1, e2, e3, _⟩ := pyInit_inv hsn maio ma hp h
  obtain ⟨k, hk⟩ := Int.eq_ofNat_of_zero_le h0
  subst hk
  obtain ⟨hsn', maio', ma', pnm⟩ := hp
  simp only at e1 e2 e3
  subst e1 e2 e3
  obtain ⟨v, _, hv⟩ := py_resolve_total_aux k maio' ma' pnm fn (by omega) hn (by decide)
  exact ⟨v, hv⟩

/-- `__init__` succeeds exactly for a non-empty MA and an HSN in `range(64)`
(shape of `Props.C07.py_init_iff`) -/
theorem pyInit_cases {α : Type} (hsn maio : Int) (ma : List α) :
    (ma ≠ [] ∧ 0 ≤ hsn ∧ hsn < 64 →
      pyInit hsn maio ma = .ok ⟨hsn, maio, ma, powNbinMask ma.length⟩) ∧
    (¬ (ma ≠ [] ∧ 0 ≤ hsn ∧ hsn < 64) → pyInit hsn maio ma = .error .ValueError) := by
  have hl : ma.length = 0 ↔ ma = [] := List.length_eq_zero_iff
  constructor
  · intro ⟨hne, h0, h64⟩
    have hn0 : ma.length ≠ 0 := fun h => hne (hl.1 h)
    have hr : ¬ ¬ (0 ≤ hsn ∧ hsn < 64) := fun h => h ⟨h0, h64⟩
    simp only [pyInit, hn0, if_false, if_neg hr, pyPnm_eq]
  · intro h
    by_cases hn0 : ma.length = 0
    · simp only [pyInit, hn0, if_true]
    · have hr : ¬ (0 ≤ hsn ∧ hsn < 64) := fun hr => h ⟨fun e => hn0 (hl.2 e), hr⟩
      simp only [pyInit, hn0, if_false, hr, not_false_eq_true, if_true]

end OsmoVerif.Hopping
