/-
The serial link on real message buffers (`Model/SercommMsgb.lean`) and the abstract link of
`Model/Sercomm.lean` are the same machine: simulation relation, step lemmas, and the consequence that
no `MSGB_ABORT` / out-of-bounds access is reachable from sercomm's calls.
-/
import OsmoVerif.Lemmas.Msgb
import OsmoVerif.Lemmas.Sercomm
import OsmoVerif.Model.SercommMsgb

namespace OsmoVerif.SercommMsgb
open OsmoVerif.Sercomm OsmoVerif.Msgb OsmoVerif.Gen.Sercomm

/-- the octets from offset `off` to `tail` -/
def bodyFrom (m : Msgb) (off : Nat) : List Nat := (m.mem.drop off).take (m.tail - off)

theorem bodyFrom_data (m : Msgb) : bodyFrom m m.data = body m := rfl

/-- the abstract queues: every buffer is its octets -/
def absQueues (qs : List (List Msgb)) : List (List Buf) := qs.map (·.map body)

structure TxRel (ct : CTx) (t : Tx) : Prop where
  queues : t.queues = absQueues ct.queues
  qinv : ∀ q ∈ ct.queues, ∀ m ∈ q, Inv m
  state : t.state = ct.state
  msg : match ct.msg with
    | none => t.msg = none ∧ ct.state ≠ .escape
    | some m => Inv m ∧ ct.nextChar ≤ m.tail ∧ t.msg = some (bodyFrom m ct.nextChar) ∧
        (ct.state = .escape → ct.nextChar < m.tail)

theorem absQueues_modify (qs : List (List Msgb)) (d : Nat) (m : Msgb) :
    absQueues (qs.modify d (· ++ [m])) = (absQueues qs).modify d (· ++ [body m]) := by
  induction qs generalizing d with
  | nil => simp [absQueues]
  | cons q qs ih =>
    cases d with
    | zero => simp [absQueues]
    | succ d =>
      simp only [absQueues, List.modify_succ_cons, List.map_cons, List.cons.injEq, true_and] at ih ⊢
      exact ih d

theorem mem_modify_append {qs : List (List Msgb)} {d : Nat} {m x : Msgb} {q : List Msgb}
    (hq : q ∈ qs.modify d (· ++ [m])) (hx : x ∈ q) : x = m ∨ ∃ q' ∈ qs, x ∈ q' := by
  induction qs generalizing d with
  | nil => simp at hq
  | cons q0 qs ih =>
    cases d with
    | zero =>
      simp only [List.modify_zero_cons, List.mem_cons] at hq
      rcases hq with rfl | hq
      · simp only [List.mem_append, List.mem_singleton] at hx
        rcases hx with hx | rfl
        · exact .inr ⟨q0, by simp, hx⟩
        · exact .inl rfl
      · exact .inr ⟨q, by simp [hq], hx⟩
    | succ d =>
      simp only [List.modify_succ_cons, List.mem_cons] at hq
      rcases hq with rfl | hq
      · exact .inr ⟨q, by simp, hx⟩
      · rcases ih hq with h | ⟨q', hq', hx'⟩
        · exact .inl h
        · exact .inr ⟨q', by simp [hq'], hx'⟩

theorem cdequeue_abs : ∀ (qs : List (List Msgb)),
    dequeueFirst (absQueues qs) = (cdequeueFirst qs).map (fun r => (body r.1, absQueues r.2))
  | [] => rfl
  | [] :: qs => by
    have ih := cdequeue_abs qs
    simp only [absQueues, List.map_cons, List.map_nil, dequeueFirst, cdequeueFirst] at ih ⊢
    rw [ih]
    cases cdequeueFirst qs <;> rfl
  | (m :: q) :: qs => by
    simp [absQueues, dequeueFirst, cdequeueFirst]

theorem cdequeue_mem : ∀ (qs : List (List Msgb)) {m : Msgb} {qs' : List (List Msgb)},
    cdequeueFirst qs = some (m, qs') →
    (∃ q ∈ qs, m ∈ q) ∧ (∀ q' ∈ qs', ∀ x ∈ q', ∃ q ∈ qs, x ∈ q)
  | [], _, _, h => by simp [cdequeueFirst] at h
  | [] :: qs, m, qs', h => by
    simp only [cdequeueFirst] at h
    split at h
    · rename_i m1 qs1 h1
      simp only [Option.some.injEq, Prod.mk.injEq] at h
      obtain ⟨rfl, rfl⟩ := h
      obtain ⟨⟨q, hq, hm⟩, h2⟩ := cdequeue_mem qs h1
      refine ⟨⟨q, by simp [hq], hm⟩, ?_⟩
      intro q' hq' x hx
      simp only [List.mem_cons] at hq'
      rcases hq' with rfl | hq'
      · simp at hx
      · obtain ⟨q, hq, hx⟩ := h2 q' hq' x hx
        exact ⟨q, by simp [hq], hx⟩
    · cases h
  | (m0 :: q0) :: qs, m, qs', h => by
    simp only [cdequeueFirst, Option.some.injEq, Prod.mk.injEq] at h
    obtain ⟨rfl, rfl⟩ := h
    refine ⟨⟨m0 :: q0, by simp, by simp⟩, ?_⟩
    intro q' hq' x hx
    simp only [List.mem_cons] at hq'
    rcases hq' with rfl | hq'
    · exact ⟨m0 :: q', by simp, by simp [hx]⟩
    · exact ⟨q', by simp [hq'], hx⟩

theorem liftM_ok {α : Type} {x : Except Fault α} {a : α} (h : x = .ok a) : liftM x = .ok a := by
  subst h; rfl

theorem absQueues_length (qs : List (List Msgb)) : (absQueues qs).length = qs.length := by
  simp [absQueues]

/-- `sercomm_sendmsg` on a buffer with two octets of headroom: never a fault, and the abstract step -/
theorem csendmsg_rel {ct : CTx} {t : Tx} (hr : TxRel ct t) {m : Msgb} (im : Inv m) (hh : 2 ≤ m.data)
    {d : Nat} (hd : d < ct.queues.length) :
    ∃ ct' t', csendmsg ct d m = .ok ct' ∧ sendmsg t d (body m) = some t' ∧ TxRel ct' t' ∧
      ct'.queues.length = ct.queues.length := by
  obtain ⟨m', hm'⟩ := pushBytes_succeeds im (bs := [d, hdlcCUi]) (by simpa using hh)
  obtain ⟨im', hb, _, _, _, _⟩ := pushBytes_ok im hm'
  refine ⟨{ ct with queues := ct.queues.modify d (· ++ [m']) },
    { t with queues := t.queues.modify d (· ++ [d :: hdlcCUi :: body m]) }, ?_, ?_, ?_, by simp⟩
  · simp only [csendmsg, bind, Except.bind, liftM_ok hm', hd, if_true]
  · have : d < t.queues.length := by rw [hr.queues, absQueues_length]; exact hd
    simp [sendmsg, this]
  · refine ⟨?_, ?_, hr.state, hr.msg⟩
    · simp only [hr.queues, absQueues_modify, hb]
      rfl
    · intro q hq x hx
      rcases mem_modify_append hq hx with rfl | ⟨q', hq', hx'⟩
      · exact im'
      · exact hr.qinv q' hq' x hx'

theorem bodyFrom_tail (m : Msgb) : bodyFrom m m.tail = [] := by simp [bodyFrom]

theorem bodyFrom_ge (m : Msgb) {off : Nat} (h : off ≥ m.tail) : bodyFrom m off = [] := by
  simp only [bodyFrom]
  have : m.tail - off = 0 := by omega
  simp [this]

theorem bodyFrom_step {m : Msgb} (i : Inv m) {off : Nat} (h : off < m.tail) :
    ∃ c, readAt m off = .ok c ∧ bodyFrom m off = c :: bodyFrom m (off + 1) := by
  have hl : off < m.mem.length := by rw [i.mem]; have := i.te; omega
  refine ⟨m.mem[off], ?_, ?_⟩
  · simp [readAt, List.getElem?_eq_getElem hl]
  · exact Msgb.bodyFrom_cons m.mem off m.tail _ h (List.getElem?_eq_getElem hl)

theorem bodyFrom_set {m : Msgb} (i : Inv m) {off : Nat} (h : off < m.tail) (v : Nat) :
    ∃ m', writeAt m off v = .ok m' ∧ Inv m' ∧ m'.tail = m.tail ∧ m'.data = m.data ∧
      bodyFrom m' off = v :: bodyFrom m (off + 1) ∧ bodyFrom m' (off + 1) = bodyFrom m (off + 1) := by
  have hl : off < m.mem.length := by rw [i.mem]; have := i.te; omega
  have hw : writeAt m off v = .ok { m with mem := m.mem.set off v } := by simp [writeAt, hl]
  refine ⟨_, hw, writeAt_inv i hw, rfl, rfl, ?_, ?_⟩
  · simp only [bodyFrom]
    rw [Msgb.bodyFrom_cons (m.mem.set off v) off m.tail v h (by simp [hl])]
    rw [drop_set_gt _ _ _ _ (by omega)]
  · simp only [bodyFrom]
    rw [drop_set_gt _ _ _ _ (by omega)]

theorem cdequeue_length : ∀ (qs : List (List Msgb)) {m : Msgb} {qs' : List (List Msgb)},
    cdequeueFirst qs = some (m, qs') → qs'.length = qs.length
  | [], _, _, h => by simp [cdequeueFirst] at h
  | [] :: qs, m, qs', h => by
    simp only [cdequeueFirst] at h
    split at h
    · rename_i m1 qs1 h1
      simp only [Option.some.injEq, Prod.mk.injEq] at h
      obtain ⟨rfl, rfl⟩ := h
      simp [cdequeue_length qs h1]
    · cases h
  | (m0 :: q0) :: qs, m, qs', h => by
    simp only [cdequeueFirst, Option.some.injEq, Prod.mk.injEq] at h
    obtain ⟨rfl, rfl⟩ := h
    simp

/-- `sercomm_drv_pull`: never a fault (no read at or beyond `tail`, no access outside the array), and
the abstract step -/
theorem cpull_rel {ct : CTx} {t : Tx} (hr : TxRel ct t) :
    ∃ ct', cpull ct = .ok (ct', (pull t).2) ∧ (pull t).2 ≠ .fault ∧ TxRel ct' (pull t).1 ∧
      ct'.queues.length = ct.queues.length := by
  obtain ⟨hq, hqi, hs, hm⟩ := hr
  cases hcm : ct.msg with
  | none =>
    rw [hcm] at hm
    obtain ⟨htm, hne⟩ := hm
    have hdq := cdequeue_abs ct.queues
    cases hcd : cdequeueFirst ct.queues with
    | none =>
      rw [hcd] at hdq
      simp only [Option.map_none] at hdq
      refine ⟨ct, ?_, ?_, ?_, rfl⟩
      · simp [cpull, hcm, hcd, Sercomm.pull, htm, hq, hdq]
      · simp [Sercomm.pull, htm, hq, hdq]
      · have : (pull t).1 = t := by simp [Sercomm.pull, htm, hq, hdq]
        rw [this]
        exact ⟨hq, hqi, hs, by rw [hcm]; exact ⟨htm, hne⟩⟩
    | some r =>
      obtain ⟨m, qs⟩ := r
      rw [hcd] at hdq
      simp only [Option.map_some] at hdq
      obtain ⟨⟨q, hqm, hmq⟩, hrest⟩ := cdequeue_mem ct.queues hcd
      have im : Inv m := hqi q hqm m hmq
      refine ⟨{ ct with queues := qs, msg := some m, nextChar := m.data }, ?_, ?_, ?_, ?_⟩
      · simp [cpull, hcm, hcd, Sercomm.pull, htm, hq, hdq]
      · simp [Sercomm.pull, htm, hq, hdq]
      · have : (pull t).1 = { t with queues := absQueues qs, msg := some (body m) } := by
          simp [Sercomm.pull, htm, hq, hdq]
        rw [this]
        refine ⟨rfl, ?_, hs, ?_⟩
        · intro q' hq' x hx
          obtain ⟨q0, hq0, hx0⟩ := hrest q' hq' x hx
          exact hqi q0 hq0 x hx0
        · exact ⟨im, im.dt, rfl, fun e => absurd e hne⟩
      · exact cdequeue_length ct.queues hcd
  | some m =>
    rw [hcm] at hm
    obtain ⟨im, hnt, htm, hesc⟩ := hm
    by_cases he : ct.state = .escape
    · have hlt := hesc he
      obtain ⟨c, hrd, hbf⟩ := bodyFrom_step im hlt
      have hte : t.state = .escape := by rw [hs]; exact he
      refine ⟨{ ct with nextChar := ct.nextChar + 1, state := .data }, ?_, ?_, ?_, rfl⟩
      · simp [cpull, hcm, he, bind, Except.bind, liftM_ok hrd, Sercomm.pull, htm, hte, hbf]
      · simp [Sercomm.pull, htm, hte, hbf]
      · have : (pull t).1 = { t with msg := some (bodyFrom m (ct.nextChar + 1)), state := .data } := by
          simp [Sercomm.pull, htm, hte, hbf]
        rw [this]
        exact ⟨hq, hqi, rfl, by simp only [hcm]; exact ⟨im, by omega, by first | rfl | trivial, fun e => by cases e⟩⟩
    · have hte : t.state ≠ .escape := by rw [hs]; exact he
      by_cases hge : ct.nextChar ≥ m.tail
      · have hb : bodyFrom m ct.nextChar = [] := bodyFrom_ge m hge
        refine ⟨{ ct with msg := none, nextChar := 0 }, ?_, ?_, ?_, rfl⟩
        · simp [cpull, hcm, he, hge, Sercomm.pull, htm, hte, hb]
        · simp [Sercomm.pull, htm, hte, hb]
        · have : (pull t).1 = { t with msg := none } := by simp [Sercomm.pull, htm, hte, hb]
          rw [this]
          exact ⟨hq, hqi, hs, ⟨rfl, he⟩⟩
      · have hlt : ct.nextChar < m.tail := by omega
        obtain ⟨c, hrd, hbf⟩ := bodyFrom_step im hlt
        by_cases hn : needsEscape c = true
        · obtain ⟨m', hw, im', ht', _, hb1, _⟩ := bodyFrom_set im hlt (u8 (c ^^^ txEscXor))
          refine ⟨{ ct with msg := some m', state := .escape }, ?_, ?_, ?_, rfl⟩
          · simp [cpull, hcm, he, hge, bind, Except.bind, liftM_ok hrd, hn, liftM_ok hw, Sercomm.pull, htm, hte, hbf]
          · simp [Sercomm.pull, htm, hte, hbf, hn]
          · have : (pull t).1 = { t with msg := some (u8 (c ^^^ txEscXor) :: bodyFrom m (ct.nextChar + 1)), state := .escape } := by
              simp [Sercomm.pull, htm, hte, hbf, hn]
            rw [this]
            exact ⟨hq, hqi, rfl, ⟨im', by simp only; omega, by simp only; rw [hb1], fun _ => by simp only; omega⟩⟩
        · have hn' : needsEscape c = false := by simpa using hn
          refine ⟨{ ct with nextChar := ct.nextChar + 1 }, ?_, ?_, ?_, rfl⟩
          · simp [cpull, hcm, he, hge, bind, Except.bind, liftM_ok hrd, hn', Sercomm.pull, htm, hte, hbf]
          · simp [Sercomm.pull, htm, hte, hbf, hn']
          · have : (pull t).1 = { t with msg := some (bodyFrom m (ct.nextChar + 1)) } := by
              simp [Sercomm.pull, htm, hte, hbf, hn']
            rw [this]
            exact ⟨hq, hqi, hs, by simp only [hcm]; exact ⟨im, by omega, by first | rfl | trivial, fun e => absurd e he⟩⟩

/-- a receive buffer: allocated by `sercomm_alloc_msgb(size)`, filled by `msgb_put` only -/
structure RxBuf (size : Nat) (m : Msgb) : Prop where
  inv : Inv m
  data : m.data = 4
  dataLen : m.dataLen = size + 4

structure RxRel (size : Nat) (cr : CRx) (r : Rx) : Prop where
  state : r.state = cr.state
  dlci : r.dlci = cr.dlci
  ctrl : r.ctrl = cr.ctrl
  abort : r.abort = false
  msg : match cr.msg with
    | none => r.msg = none
    | some m => RxBuf size m ∧ r.msg = some (body m)

inductive EvRel (size : Nat) : CEv → Ev → Prop
  | deliver (d : Nat) (m : Msgb) : RxBuf size m → EvRel size (.deliver d m) (.deliver d (body m))
  | overflow : EvRel size .overflow .overflow

theorem scBuf_rxBuf {size : Nat} (h : size ≤ 65531) : RxBuf size (scBuf size) :=
  ⟨scBuf_inv h, rfl, rfl⟩

theorem scBuf_body (size : Nat) : body (scBuf size) = [] := by simp [body, scBuf]

theorem rxBuf_len {size : Nat} {m : Msgb} (h : RxBuf size m) : (body m).length = m.tail - 4 := by
  rw [body_length h.inv, h.inv.len, h.data]

theorem rxBuf_tailroom {size : Nat} {m : Msgb} (h : RxBuf size m) :
    tailroom m = 0 ↔ (body m).length = size := by
  have := h.inv.dt; have := h.inv.te; have := h.data; have := h.dataLen
  rw [tailroom_eq h.inv, rxBuf_len h]
  omega

theorem rxBuf_le {size : Nat} {m : Msgb} (h : RxBuf size m) : (body m).length ≤ size := by
  have := h.inv.dt; have := h.inv.te
  rw [rxBuf_len h]
  have := h.data; have := h.dataLen
  omega

/-- `ptr = msgb_put(msg, 1); *ptr = ch` behind the tailroom test: never aborts -/
theorem cstore_ok {size : Nat} {m : Msgb} (h : RxBuf size m) (ht : tailroom m ≠ 0) (ch : Nat) :
    ∃ m', cstore m ch = .ok m' ∧ RxBuf size m' ∧ body m' = body m ++ [ch] := by
  have hlt : m.tail + 1 ≤ m.dataLen := by
    have := h.inv.te
    rw [tailroom_eq h.inv] at ht
    omega
  obtain ⟨m', hm'⟩ := putBytes_succeeds h.inv (bs := [ch]) (by simpa using hlt)
  obtain ⟨i', hb, hd, _, hdl, _⟩ := putBytes_ok h.inv hm'
  exact ⟨m', by simp [cstore, liftM_ok hm'], ⟨i', by rw [hd, h.data], by rw [hdl, h.dataLen]⟩, hb⟩


/-- event lists correspond one by one -/
def EvsRel (size : Nat) : List CEv → List Ev → Prop
  | [], [] => True
  | a :: as, b :: bs => EvRel size a b ∧ EvsRel size as bs
  | _, _ => False

theorem cdispatch_rel (c : RxCfg) (size d : Nat) {m : Msgb} (h : RxBuf size m) :
    EvsRel size (cdispatch c d m) (dispatch c d (body m)) := by
  simp only [cdispatch, dispatch]
  split
  · trivial
  · exact ⟨.deliver d m h, trivial⟩

/-- `sercomm_drv_rx_char` on real buffers: never a fault (`msgb_put` is always behind a non-zero
tailroom), and the abstract step -/
theorem crxChar_rel {c : RxCfg} {size : Nat} (h1 : 1 ≤ size) (h2 : size ≤ 65531) (hc : c.cap = size)
    {cr : CRx} {r : Rx} (hr : RxRel size cr r) (ch : Nat) :
    ∃ cr' ces, crxChar c size cr ch = .ok (cr', ces) ∧ RxRel size cr' (rxChar c r ch).1 ∧
      EvsRel size ces (rxChar c r ch).2 := by
  obtain ⟨cm, st, d, k⟩ := cr
  obtain ⟨rm, st', d', k', a⟩ := r
  obtain ⟨hst, hd, hk, ha, hm⟩ := hr
  simp only at hst hd hk ha hm
  subst hst hd hk ha
  -- the buffer the call works on
  obtain ⟨m0, hm0, hb0, hbuf⟩ : ∃ m0, crxBuf size ⟨cm, st', d', k'⟩ = .ok m0 ∧ RxBuf size m0 ∧ bufOf rm = body m0 := by
    cases cm with
    | none =>
      simp only at hm
      exact ⟨scBuf size, by simp [crxBuf, liftM_ok (sercommAlloc_small h1 h2)], scBuf_rxBuf h2,
        by rw [hm, scBuf_body]; rfl⟩
    | some m =>
      simp only at hm
      exact ⟨m, rfl, hm.1, by rw [hm.2]; rfl⟩
  rw [rxChar_norm, hbuf]
  have hle := rxBuf_le hb0
  have hfull := rxBuf_tailroom hb0
  simp only [crxChar, bind, Except.bind, hm0]
  by_cases ht : tailroom m0 = 0
  · have hl : (body m0).length = c.cap := by rw [hc]; exact hfull.1 ht
    rw [rx_full c _ _ _ _ _ _ hl]
    simp only [crxCharOn, ht, if_true, bind, Except.bind, liftM_ok (sercommAlloc_small h1 h2)]
    exact ⟨_, _, rfl, ⟨rfl, rfl, rfl, rfl, ⟨scBuf_rxBuf h2, by rw [scBuf_body]⟩⟩, ⟨.overflow, trivial⟩⟩
  · have hl : (body m0).length ≠ c.cap := by rw [hc]; exact fun e => ht (hfull.2 e)
    have hlt : (body m0).length < c.cap := by omega
    simp only [crxCharOn, ht, if_false]
    cases st' with
    | waitStart =>
      by_cases hf : ch = 0x7E
      · subst hf
        rw [rx_wait_flag c _ _ _ _ hl]
        simp only [flag_eq, ne_eq, not_true_eq_false, if_false]
        exact ⟨_, _, rfl, ⟨rfl, rfl, rfl, rfl, ⟨hb0, rfl⟩⟩, trivial⟩
      · rw [rx_wait_noflag c _ _ _ _ _ hl hf]
        simp only [flag_eq, ne_eq, hf, not_false_eq_true, if_true]
        exact ⟨_, _, rfl, ⟨rfl, rfl, rfl, rfl, ⟨hb0, rfl⟩⟩, trivial⟩
    | addr =>
      rw [rx_addr c _ _ _ _ _ hl]
      exact ⟨_, _, rfl, ⟨rfl, rfl, rfl, rfl, ⟨hb0, rfl⟩⟩, trivial⟩
    | ctrl =>
      rw [rx_ctrl c _ _ _ _ _ hl]
      exact ⟨_, _, rfl, ⟨rfl, rfl, rfl, rfl, ⟨hb0, rfl⟩⟩, trivial⟩
    | data =>
      by_cases he : ch = 0x7D
      · subst he
        rw [rx_data_esc c _ _ _ _ hl]
        simp only [escape_eq, if_true]
        exact ⟨_, _, rfl, ⟨rfl, rfl, rfl, rfl, ⟨hb0, rfl⟩⟩, trivial⟩
      · by_cases hf : ch = 0x7E
        · subst hf
          rw [rx_data_flag c _ _ _ _ hl]
          simp only [escape_eq, flag_eq, if_true]
          exact ⟨_, _, rfl, ⟨rfl, rfl, rfl, rfl, rfl⟩, cdispatch_rel c size d' hb0⟩
        · rw [rx_data_plain c _ _ _ _ _ hlt hf he]
          obtain ⟨m', hs, hb', hbody⟩ := cstore_ok hb0 ht ch
          simp only [escape_eq, flag_eq, he, hf, if_false, hs, bind, Except.bind]
          exact ⟨_, _, rfl, ⟨rfl, rfl, rfl, rfl, ⟨hb', by rw [hbody]⟩⟩, trivial⟩
    | escape =>
      rw [rx_escape c _ _ _ _ _ hlt]
      obtain ⟨m', hs, hb', hbody⟩ := cstore_ok hb0 ht (u8 (ch ^^^ rxEscXor))
      simp only [hs, bind, Except.bind]
      exact ⟨_, _, rfl, ⟨rfl, rfl, rfl, rfl, ⟨hb', by rw [hbody, rxXor_eq]⟩⟩, trivial⟩

theorem payload_eq_body {m : Msgb} (i : Inv m) : payload m = some (body m) := by
  have := i.dt; have := i.te; have := i.len; have := i.mem
  simp only [payload, body]
  rw [if_pos (by omega), i.len]

/-- the two machines side by side -/
structure WRel (size nq : Nat) (cw : CWorld) (w : World) : Prop where
  tx : TxRel cw.tx w.tx
  rx : RxRel size cw.rx w.rx
  trace : cw.trace = w.trace
  nofault : w.fault = false
  nq : cw.tx.queues.length = nq

theorem capplyEcho_rel {c : Cfg} {size nq : Nat} (hecho : ∀ d, c.echo d = true → d < nq) :
    ∀ (ces : List CEv) (es : List Ev) {cw : CWorld} {w : World}, WRel size nq cw w → EvsRel size ces es →
      ∃ cw', capplyEcho c cw ces = .ok cw' ∧ WRel size nq cw' (applyEcho c w es)
  | [], [], cw, w, hw, _ => ⟨cw, rfl, hw⟩
  | [], _ :: _, _, _, _, h => absurd h (by simp [EvsRel])
  | _ :: _, [], _, _, _, h => absurd h (by simp [EvsRel])
  | ce :: ces, e :: es, cw, w, hw, h => by
    obtain ⟨he, hrest⟩ := h
    cases he with
    | overflow =>
      simp only [capplyEcho, applyEcho]
      exact capplyEcho_rel hecho ces es ⟨hw.tx, hw.rx, by simp [hw.trace], hw.nofault, hw.nq⟩ hrest
    | deliver d m hb =>
      by_cases hd : c.echo d = true
      · have hlt : d < cw.tx.queues.length := by rw [hw.nq]; exact hecho d hd
        obtain ⟨ct', t', hs, ha, hrel, hlen⟩ := csendmsg_rel hw.tx hb.inv (by rw [hb.data]; omega) hlt
        simp only [capplyEcho, applyEcho, hd, if_true, bind, Except.bind, hs, ha]
        exact capplyEcho_rel hecho ces es ⟨hrel, hw.rx, hw.trace, hw.nofault, by rw [hlen]; exact hw.nq⟩ hrest
      · simp only [capplyEcho, applyEcho, hd, payload_eq_body hb.inv]
        exact capplyEcho_rel hecho ces es ⟨hw.tx, hw.rx, by simp [hw.trace], hw.nofault, hw.nq⟩ hrest

theorem rxOctet_rel {c : Cfg} {size nq : Nat} (h1 : 1 ≤ size) (h2 : size ≤ 65531) (hc : c.cap = size)
    (hecho : ∀ d, c.echo d = true → d < nq) {cw : CWorld} {w : World} (hw : WRel size nq cw w) (ch : Nat) :
    ∃ cw', CWorld.rxOctet c size cw ch = .ok cw' ∧ WRel size nq cw' (World.rxOctet c w ch) := by
  obtain ⟨cr', ces, hx, hrx, hev⟩ := crxChar_rel (c := c.toRxCfg) h1 h2 hc hw.rx ch
  simp only [CWorld.rxOctet, bind, Except.bind, hx, World.rxOctet]
  exact capplyEcho_rel hecho ces _ ⟨hw.tx, hrx, hw.trace, hw.nofault, hw.nq⟩ hev

theorem rxOctets_rel {c : Cfg} {size nq : Nat} (h1 : 1 ≤ size) (h2 : size ≤ 65531) (hc : c.cap = size)
    (hecho : ∀ d, c.echo d = true → d < nq) :
    ∀ (octets : List Nat) {cw : CWorld} {w : World}, WRel size nq cw w →
      ∃ cw', CWorld.rxOctets c size cw octets = .ok cw' ∧ WRel size nq cw' (octets.foldl (World.rxOctet c) w)
  | [], cw, w, hw => ⟨cw, rfl, hw⟩
  | ch :: rest, cw, w, hw => by
    obtain ⟨cw1, hx, hw1⟩ := rxOctet_rel h1 h2 hc hecho hw ch
    obtain ⟨cw2, hy, hw2⟩ := rxOctets_rel h1 h2 hc hecho rest hw1
    exact ⟨cw2, by simp only [CWorld.rxOctets, bind, Except.bind, hx, hy], by simpa using hw2⟩

/-- the caller's buffer: `sercomm_alloc_msgb(a)` then `memcpy(msgb_put(msg, n), payload, n)` with `n ≤ a` -/
theorem mkMsg_ok {a : Nat} {p : List Nat} (h1 : 1 ≤ a) (h2 : a ≤ 65531) (hp : p.length ≤ a) :
    ∃ m, mkMsg a p = .ok m ∧ Inv m ∧ m.data = 4 ∧ body m = p := by
  have hb := scBuf_rxBuf (size := a) h2
  obtain ⟨m, hm⟩ := putBytes_succeeds hb.inv (bs := p) (by simp [scBuf]; omega)
  obtain ⟨i, hbody, hd, _, _, _⟩ := putBytes_ok hb.inv hm
  refine ⟨m, by simp [mkMsg, bind, Except.bind, liftM_ok (sercommAlloc_small h1 h2), liftM_ok hm], i, by rw [hd]; rfl, ?_⟩
  rw [hbody, scBuf_body]; rfl

/-- which operations the theorem is about: queue indices inside the array (the code does not check
them), the caller's buffer big enough for its payload -/
def OpOk (nq : Nat) (allocOf : Nat → Nat) : Sercomm.Op → Prop
  | .send d p => d < nq ∧ 1 ≤ allocOf p.length ∧ allocOf p.length ≤ 65531 ∧ p.length ≤ allocOf p.length
  | _ => True

theorem step_rel {c : Cfg} {size nq : Nat} {allocOf : Nat → Nat} (h1 : 1 ≤ size) (h2 : size ≤ 65531)
    (hc : c.cap = size) (hecho : ∀ d, c.echo d = true → d < nq) {cw : CWorld} {w : World}
    (hw : WRel size nq cw w) (op : Sercomm.Op) (hop : OpOk nq allocOf op) :
    ∃ cw', CWorld.step c size allocOf cw op = .ok cw' ∧ WRel size nq cw' (World.step c w op) := by
  cases op with
  | send d p =>
    obtain ⟨hd, ha1, ha2, hp⟩ := hop
    obtain ⟨m, hm, im, hdat, hbody⟩ := mkMsg_ok ha1 ha2 hp
    obtain ⟨ct', t', hs, ha, hrel, hlen⟩ := csendmsg_rel hw.tx im (by rw [hdat]; omega) (by rw [hw.nq]; exact hd)
    rw [hbody] at ha
    simp only [CWorld.step, bind, Except.bind, hm, hs, World.step, ha]
    exact ⟨_, rfl, ⟨hrel, hw.rx, hw.trace, hw.nofault, by rw [hlen]; exact hw.nq⟩⟩
  | pull =>
    obtain ⟨ct', hp, hnf, hrel, hlen⟩ := cpull_rel hw.tx
    simp only [CWorld.step, bind, Except.bind, hp, World.step]
    rcases hpr : Sercomm.pull w.tx with ⟨t', r⟩
    rw [hpr] at hnf hrel
    simp only at hnf hrel
    cases r with
    | octet ch => exact ⟨_, rfl, ⟨hrel, hw.rx, by simp [hw.trace], hw.nofault, by rw [hlen]; exact hw.nq⟩⟩
    | empty => exact ⟨_, rfl, ⟨hrel, hw.rx, by simp [hw.trace], hw.nofault, by rw [hlen]; exact hw.nq⟩⟩
    | fault => exact absurd rfl hnf
  | loop =>
    obtain ⟨ct', hp, hnf, hrel, hlen⟩ := cpull_rel hw.tx
    simp only [CWorld.step, bind, Except.bind, hp, World.step]
    rcases hpr : Sercomm.pull w.tx with ⟨t', r⟩
    rw [hpr] at hnf hrel
    simp only at hnf hrel
    cases r with
    | octet ch =>
      exact rxOctet_rel h1 h2 hc hecho
        (cw := { cw with tx := ct', trace := .pulled ch :: cw.trace })
        (w := { w with tx := t', trace := .pulled ch :: w.trace })
        ⟨hrel, hw.rx, by simp [hw.trace], hw.nofault, by rw [hlen]; exact hw.nq⟩ ch
    | empty => exact ⟨_, rfl, ⟨hrel, hw.rx, by simp [hw.trace], hw.nofault, by rw [hlen]; exact hw.nq⟩⟩
    | fault => exact absurd rfl hnf
  | rx octets =>
    simp only [CWorld.step, World.step]
    exact rxOctets_rel h1 h2 hc hecho octets hw

theorem init_rel (size nq : Nat) : WRel size nq (CWorld.init nq) (World.init nq) := by
  refine ⟨⟨?_, ?_, rfl, ⟨rfl, by simp [CWorld.init, CTx.init]⟩⟩, ⟨rfl, rfl, rfl, rfl, rfl⟩, rfl, rfl, by simp [CWorld.init, CTx.init]⟩
  · simp [World.init, Tx.init, CWorld.init, CTx.init, absQueues]
  · intro q hq m hm
    simp only [CWorld.init, CTx.init, List.mem_replicate] at hq
    rw [hq.2] at hm
    simp at hm

def OpsOk (nq : Nat) (allocOf : Nat → Nat) (ops : List Sercomm.Op) : Prop := ∀ op ∈ ops, OpOk nq allocOf op

theorem run_rel {c : Cfg} {size nq : Nat} {allocOf : Nat → Nat} (h1 : 1 ≤ size) (h2 : size ≤ 65531)
    (hc : c.cap = size) (hecho : ∀ d, c.echo d = true → d < nq) :
    ∀ (ops : List Sercomm.Op) {cw : CWorld} {w : World}, WRel size nq cw w → OpsOk nq allocOf ops →
      ∃ cw', CWorld.run c size allocOf cw ops = .ok cw' ∧ WRel size nq cw' (World.run c w ops)
  | [], cw, w, hw, _ => ⟨cw, rfl, hw⟩
  | op :: ops, cw, w, hw, hops => by
    obtain ⟨cw1, hx, hw1⟩ := step_rel (allocOf := allocOf) h1 h2 hc hecho hw op (hops op (by simp))
    obtain ⟨cw2, hy, hw2⟩ := run_rel h1 h2 hc hecho ops hw1 (fun o ho => hops o (by simp [ho]))
    exact ⟨cw2, by simp only [CWorld.run, bind, Except.bind, hx, hy], by simpa [World.run] using hw2⟩

end OsmoVerif.SercommMsgb
