/-
C11: statement-level predicates that connect the two models through the Spec table,
the Boolean checkers that the kernel evaluates over the regenerated tables (they walk
the tables once instead of indexing them, which keeps kernel evaluation fast), and the
lifting lemmas from "every row of one period" to "every frame number".
-/
import OsmoVerif.Model.Mframe
import OsmoVerif.Spec.Mframe

namespace OsmoVerif.Mframe
open OsmoVerif.Gen OsmoVerif.Gen.FwMframe OsmoVerif.Gen.TrxconMframe OsmoVerif.Spec.Mframe

/-! ## predicates -/

/-- channel and burst id a frame gives to a direction -/
def chanOf (d : Dir) (f : Frame) : Lchan × Nat :=
  match d with
  | .dl => (f.dlChan, f.dlBid)
  | .ul => (f.ulChan, f.ulBid)

/-- row carries `MF_F_SACCH` -/
def isSacch (it : Item) : Bool := it.flags &&& MF_F_SACCH != 0

/-- rows of a task table that serve direction `d` and have SACCH flag `s` -/
def selItems (items : List Item) (d : Dir) (s : Bool) : List Item :=
  items.filter fun it => decide (d ∈ setDirs it.set) && (isSacch it == s)

/-- firmware: at tick `fn` some row of `items` that serves direction `d` and has
    SACCH flag `s` triggers (`mframe_schedule_set` calls `tdma_schedule_set` for it) -/
def fwMarks (items : List Item) (d : Dir) (s : Bool) (fn : Nat) : Bool :=
  (selItems items d s).any fun it => fires it fn

/-- what a frame must show for channel `lc`: it is given to `lc` (`Kind.perFrame`),
    resp. it is the first burst (bid 0) of a block of `lc` (`Kind.block`) -/
def frameMarks (d : Dir) (k : Kind) (lc : Option Lchan) (fr : Frame) : Bool :=
  match lc with
  | none => false
  | some c => (chanOf d fr).1 == c && (k == .perFrame || (chanOf d fr).2 == 0)

/-- trxcon: `frameMarks` of the frame looked up for frame number `f`; `none` if the
    lookup leaves defined behaviour -/
def layoutMarks (L : Layout) (d : Dir) (k : Kind) (lc : Option Lchan) (f : Nat) : Option Bool :=
  match lookup L f with
  | .error _ => none
  | .ok fr => some (frameMarks d k lc fr)

/-- both stacks agree at tick `fn` (air frame `airFrame fn`) on entry `e`, direction `d`:
    for the main channel and for the SACCH (no SACCH in the Spec: the firmware schedules none) -/
def agreeAt (items : List Item) (L : Layout) (e : Entry) (d : Dir) (fn : Nat) : Bool :=
  layoutMarks L d e.kind (some e.main) (airFrame fn) == some (fwMarks items d false fn) &&
  layoutMarks L d e.kind e.sacch (airFrame fn) == some (fwMarks items d true fn)

/-- … for all frame numbers -/
def EntryAgrees (e : Entry) : Prop :=
  ∃ items, tableOf e.task = some items ∧
    ∀ tn ∈ e.tns, ∃ L, layoutFor e.config tn = some L ∧
      ∀ d ∈ e.dirs, ∀ fn, fn + SCHEDULE_AHEAD < 4294967296 → agreeAt items L e d fn = true

/-! ## checkers (kernel-evaluated) -/

/-- the row's trigger expressed in the air frame `f = airFrame fn` -/
def firesAir (it : Item) (f : Nat) : Bool := f % it.modulo == it.frameNr % it.modulo

/-- walk a table with the row index -/
def walk (chk : Frame → Nat → Bool) : List Frame → Nat → Bool
  | [], _ => true
  | fr :: rest, f => chk fr f && walk chk rest (f + 1)

def frameAgree (mi si : List Item) (e : Entry) (d : Dir) (fr : Frame) (f : Nat) : Bool :=
  (frameMarks d e.kind (some e.main) fr == mi.any fun it => firesAir it f) &&
  (frameMarks d e.kind e.sacch fr == si.any fun it => firesAir it f)

/-- `l.length = n`, evaluated without building the length -/
def lengthIs {α} : List α → Nat → Bool
  | [], 0 => true
  | _ :: t, n + 1 => lengthIs t n
  | _, _ => false

theorem lengthIs_eq {α} (l : List α) (n : Nat) (h : lengthIs l n = true) : l.length = n := by
  induction l generalizing n with
  | nil => cases n with
    | zero => rfl
    | succ k => simp [lengthIs] at h
  | cons a t ih => cases n with
    | zero => simp [lengthIs] at h
    | succ k => simp only [lengthIs] at h; simp [ih k h]

/-- period and table fit, and every row's modulo divides the period (so that one
    period of the layout is a full cycle of both sides) -/
def periodOk (items : List Item) (L : Layout) (fr : List Frame) : Bool :=
  (L.period != 0 && lengthIs fr L.period) &&
  items.all fun it => it.modulo != 0 && L.period % it.modulo == 0

def layoutCheck (items : List Item) (L : Layout) (e : Entry) : Bool :=
  match L.frames with
  | none => false
  | some fr =>
    periodOk items L fr &&
    e.dirs.all fun d =>
      walk (frameAgree (selItems items d false) (selItems items d true) e d) fr 0

/-- index in `layouts[]` of the entry `l1sched_mframe_layout(config, tn)` returns -/
def layoutIdx (config : Pchan) (tn : Nat) : Option Nat :=
  layouts.findIdx? fun l => l.config.val == config.val && l.slotmask.testBit tn

/-- `layoutCheck` for every layout whose index is in `idxs` -/
def checkIdx (items : List Item) (e : Entry) (idxs : List (Option Nat)) : List Layout → Nat → Bool
  | [], _ => true
  | L :: rest, i =>
    (!(idxs.contains (some i)) || layoutCheck items L e) && checkIdx items e idxs rest (i + 1)

/-- the whole obligation of one Spec entry: the task has a table, every valid timeslot
    has a layout, and every layout so returned (each checked once) agrees with the table -/
def entryCheck (e : Entry) : Bool :=
  match tableOf e.task with
  | none => false
  | some items =>
    !((e.tns.map (layoutIdx e.config)).contains none) &&
      checkIdx items e (e.tns.map (layoutIdx e.config)) layouts 0

/-! ## lifting -/

theorem any_congr_mem {α} (l : List α) (f g : α → Bool) (h : ∀ x ∈ l, f x = g x) :
    l.any f = l.any g := by
  induction l with
  | nil => rfl
  | cons a t ih =>
    simp only [List.any_cons]
    rw [h a (by simp), ih (fun x hx => h x (by simp [hx]))]

theorem walk_get (chk : Frame → Nat → Bool) (l : List Frame) (k : Nat) (h : walk chk l k = true)
    (i : Nat) (hi : i < l.length) : chk l[i] (k + i) = true := by
  induction l generalizing k i with
  | nil => exact absurd hi (by simp)
  | cons a t ih =>
    simp only [walk, Bool.and_eq_true] at h
    cases i with
    | zero => simpa using h.1
    | succ j =>
      have := ih (k + 1) h.2 j (by simpa using hi)
      simpa [Nat.add_assoc, Nat.add_comm 1 j] using this

theorem walk_mem (chk : Frame → Nat → Bool) (l : List Frame) (k : Nat) (h : walk chk l k = true)
    (x : Frame) (hx : x ∈ l) : ∃ i, chk x (k + i) = true := by
  obtain ⟨i, hi, rfl⟩ := List.getElem_of_mem hx
  exact ⟨i, walk_get chk l k h i hi⟩

theorem lookup_congr (L : Layout) (f g : Nat) (h : f % L.period = g % L.period) :
    lookup L f = lookup L g := by
  simp only [lookup, h]

theorem lookup_mod (L : Layout) (f : Nat) : lookup L (f % L.period) = lookup L f :=
  lookup_congr L _ _ (Nat.mod_mod _ _)

theorem lookup_add_period (L : Layout) (f k : Nat) : lookup L (f + k * L.period) = lookup L f :=
  lookup_congr L _ _ (Nat.add_mul_mod_self_right _ _ _)

/-- the lookup, once the period is positive and the table has `period` rows -/
theorem lookup_ok (L : Layout) (fr : List Frame) (hf : L.frames = some fr) (hp : L.period ≠ 0)
    (hl : fr.length = L.period) (f : Nat) :
    lookup L f = .ok (fr[f % L.period]'(by rw [hl]; exact Nat.mod_lt _ (Nat.pos_of_ne_zero hp))) := by
  have hlt : f % L.period < fr.length := by rw [hl]; exact Nat.mod_lt _ (Nat.pos_of_ne_zero hp)
  simp only [lookup, hp, if_false, hf, List.getElem?_eq_getElem hlt]

theorem airFrame_eq : ∀ fn, airFrame fn = fn + SCHEDULE_AHEAD := by
  intro fn
  have : frameOffset + dspLatency = SCHEDULE_AHEAD := by decide
  simp only [airFrame, Nat.add_assoc, this]

theorem fires_eq_firesAir (it : Item) (fn : Nat) (h : fn + SCHEDULE_AHEAD < 4294967296) :
    fires it fn = firesAir it (airFrame fn) := by
  simp only [fires, firesAir, airFrame_eq, u32, Nat.mod_eq_of_lt h]

theorem firesAir_mod (it : Item) (f P : Nat) (h : P % it.modulo = 0) :
    firesAir it (f % P) = firesAir it f := by
  simp only [firesAir, Nat.mod_mod_of_dvd f (Nat.dvd_of_mod_eq_zero h)]

theorem mem_selItems {items : List Item} {d : Dir} {s : Bool} {it : Item}
    (h : it ∈ selItems items d s) : it ∈ items := by
  simp only [selItems, List.mem_filter] at h
  exact h.1

theorem layout_lift (items : List Item) (L : Layout) (e : Entry)
    (h : layoutCheck items L e = true) (d : Dir) (hd : d ∈ e.dirs) (fn : Nat)
    (hfn : fn + SCHEDULE_AHEAD < 4294967296) : agreeAt items L e d fn = true := by
  unfold layoutCheck at h
  split at h
  · exact absurd h (by decide)
  · rename_i fr hfr
    simp only [Bool.and_eq_true] at h
    obtain ⟨hok, hall⟩ := h
    simp only [periodOk, Bool.and_eq_true, bne_iff_ne, ne_eq, beq_iff_eq, List.all_eq_true] at hok
    obtain ⟨⟨hp, hl0⟩, hit⟩ := hok
    have hl := lengthIs_eq fr L.period hl0
    have hw := (List.all_eq_true.1 hall) d hd
    have hlt : airFrame fn % L.period < fr.length := by
      rw [hl]; exact Nat.mod_lt _ (Nat.pos_of_ne_zero hp)
    have hrow := walk_get _ fr 0 hw (airFrame fn % L.period) hlt
    have hfw : ∀ s, ((selItems items d s).any fun it => firesAir it (0 + airFrame fn % L.period))
        = fwMarks items d s fn := by
      intro s
      unfold fwMarks
      apply any_congr_mem
      intro it hmem
      rw [Nat.zero_add, firesAir_mod it _ _ (hit it (mem_selItems hmem)).2,
        fires_eq_firesAir it fn hfn]
    simp only [frameAgree, hfw, Bool.and_eq_true, beq_iff_eq] at hrow
    simp only [agreeAt, layoutMarks, lookup_ok L fr hfr hp hl, Bool.and_eq_true, beq_iff_eq,
      Option.some.injEq]
    exact hrow

theorem not_mem_of_contains_false {α} [BEq α] [LawfulBEq α] (l : List α) (a : α)
    (h : l.contains a = false) : a ∉ l := by
  intro hm
  have := List.contains_iff_mem.2 hm
  rw [h] at this
  cases this

theorem layoutFor_eq (config : Pchan) (tn : Nat) :
    layoutFor config tn = (layoutIdx config tn).bind (layouts[·]?) :=
  List.find?_eq_bind_findIdx?_getElem?

theorem checkIdx_get (items : List Item) (e : Entry) (idxs : List (Option Nat)) (l : List Layout)
    (k : Nat) (h : checkIdx items e idxs l k = true) (i : Nat) (hi : i < l.length)
    (hm : some (k + i) ∈ idxs) : layoutCheck items l[i] e = true := by
  induction l generalizing k i with
  | nil => exact absurd hi (by simp)
  | cons a t ih =>
    simp only [checkIdx, Bool.and_eq_true, Bool.or_eq_true, Bool.not_eq_true'] at h
    cases i with
    | zero =>
      rcases h.1 with h1 | h1
      · exact absurd (by simpa using hm) (not_mem_of_contains_false _ _ h1)
      · simpa using h1
    | succ j =>
      have := ih (k + 1) h.2 j (by simpa using hi) (by simpa [Nat.add_assoc, Nat.add_comm 1 j] using hm)
      simpa using this

theorem entry_lift (e : Entry) (h : entryCheck e = true) : EntryAgrees e := by
  unfold entryCheck at h
  split at h
  · exact absurd h (by decide)
  · rename_i items hitems
    refine ⟨items, hitems, ?_⟩
    intro tn htn
    simp only [Bool.and_eq_true, Bool.not_eq_true'] at h
    obtain ⟨hnone, hchk⟩ := h
    have hmem : layoutIdx e.config tn ∈ e.tns.map (layoutIdx e.config) := List.mem_map_of_mem htn
    cases hidx : layoutIdx e.config tn with
    | none => rw [hidx] at hmem; exact absurd hmem (not_mem_of_contains_false _ _ hnone)
    | some i =>
      rw [hidx] at hmem
      have hi : i < layouts.length := by
        have := (List.findIdx?_eq_some_iff_getElem.1 hidx)
        exact this.1
      have hL : layoutFor e.config tn = some layouts[i] := by
        rw [layoutFor_eq, hidx]
        simp [hi]
      have hc := checkIdx_get items e _ layouts 0 hchk i hi (by simpa using hmem)
      exact ⟨layouts[i], hL, fun d hd fn hfn => layout_lift items layouts[i] e hc d hd fn hfn⟩

/-! ## reading `agreeAt` -/

/-- `agreeAt` unfolded into the two equivalences it stands for -/
theorem agreeAt_iff (items : List Item) (L : Layout) (e : Entry) (d : Dir) (fn : Nat)
    (h : agreeAt items L e d fn = true) :
    ∃ fr, lookup L (airFrame fn) = .ok fr ∧
      (fwMarks items d false fn = true ↔ frameMarks d e.kind (some e.main) fr = true) ∧
      (fwMarks items d true fn = true ↔ frameMarks d e.kind e.sacch fr = true) := by
  simp only [agreeAt, layoutMarks, Bool.and_eq_true, beq_iff_eq] at h
  cases hl : lookup L (airFrame fn) with
  | error err => rw [hl] at h; exact absurd h.1 (by simp)
  | ok fr =>
    rw [hl] at h
    simp only [Option.some.injEq] at h
    exact ⟨fr, rfl, by rw [h.1], by rw [h.2]⟩

/-! ## the layouts on their own: table bounds, burst ids, channel mask -/

/-- a layout whose lookups are total: positive period, a table, exactly `period` rows -/
def tableOk (L : Layout) : Bool :=
  match L.frames with
  | none => false
  | some fr => L.period != 0 && lengthIs fr L.period

theorem tableOk_lookup (L : Layout) (h : tableOk L = true) :
    0 < L.period ∧ ∃ fr, L.frames = some fr ∧ fr.length = L.period ∧
      ∀ fn, ∃ hlt : fn % L.period < fr.length, lookup L fn = .ok fr[fn % L.period] := by
  unfold tableOk at h
  split at h
  · exact absurd h (by decide)
  · rename_i fr hfr
    simp only [Bool.and_eq_true, bne_iff_ne, ne_eq] at h
    have hl := lengthIs_eq fr L.period h.2
    refine ⟨Nat.pos_of_ne_zero h.1, fr, hfr, hl, fun fn => ?_⟩
    have hlt : fn % L.period < fr.length := by rw [hl]; exact Nat.mod_lt _ (Nat.pos_of_ne_zero h.1)
    exact ⟨hlt, lookup_ok L fr hfr h.1 hl fn⟩

/-- a table that answers every lookup of one period is the layout's table -/
theorem frames_unique (L : Layout) (fr fs : List Frame) (hf : L.frames = some fr)
    (hp : L.period ≠ 0) (hl : fr.length = L.period) (hs : fs.length = L.period)
    (hlk : ∀ r (h : r < fs.length), lookup L r = .ok fs[r]) : fs = fr := by
  apply List.ext_getElem (by rw [hs, hl])
  intro i h1 h2
  have := hlk i h1
  rw [lookup_ok L fr hf hp hl i] at this
  have hi : i % L.period = i := Nat.mod_eq_of_lt (by rw [← hs]; exact h1)
  simp only [hi, Except.ok.injEq] at this
  exact this.symm

/-- burst id of the first frame of `l` that direction `d` gives to channel `c` -/
def nextBid (d : Dir) (c : Lchan) : List Frame → Option Nat
  | [] => none
  | f :: rest => if (chanOf d f).1 = c then some (chanOf d f).2 else nextBid d c rest

/-- a frame of a block channel (block length `n`) has a burst id below `n`, and the next
    frame of the same channel among `later` has the successor burst id modulo `n` -/
def bidStepOk (d : Dir) (f : Frame) (later : List Frame) : Bool :=
  match blockLen (chanOf d f).1 with
  | none => true
  | some n =>
    decide ((chanOf d f).2 < n) &&
      nextBid d (chanOf d f).1 later == some (((chanOf d f).2 + 1) % n)

/-- `bidStepOk` for every frame of `l`, "later" being the rest of `l` followed by one
    more period `all` (the table is cyclic) -/
def bidsWalk (d : Dir) (all : List Frame) : List Frame → Bool
  | [] => true
  | f :: rest => bidStepOk d f (rest ++ all) && bidsWalk d all rest

def bidsCheck (L : Layout) : Bool :=
  match L.frames with
  | none => false
  | some fr => bidsWalk .dl fr fr && bidsWalk .ul fr fr

theorem bidsWalk_get (d : Dir) (all l : List Frame) (h : bidsWalk d all l = true)
    (i : Nat) (hi : i < l.length) : bidStepOk d l[i] (l.drop (i + 1) ++ all) = true := by
  induction l generalizing i with
  | nil => exact absurd hi (by simp)
  | cons a t ih =>
    simp only [bidsWalk, Bool.and_eq_true] at h
    cases i with
    | zero => simpa using h.1
    | succ j => simpa using ih h.2 j (by simpa using hi)

theorem nextBid_first (d : Dir) (c : Lchan) (l : List Frame) (j : Nat) (hj : j < l.length)
    (hc : (chanOf d l[j]).1 = c) (hb : ∀ i (hi : i < j), (chanOf d (l[i]'(by omega))).1 ≠ c) :
    nextBid d c l = some (chanOf d l[j]).2 := by
  induction l generalizing j with
  | nil => exact absurd hj (by simp)
  | cons a t ih =>
    cases j with
    | zero =>
      simp only [List.getElem_cons_zero] at hc
      simp only [nextBid, hc, if_true, List.getElem_cons_zero]
    | succ k =>
      have h0 := hb 0 (by omega)
      simp only [List.getElem_cons_zero] at h0
      simp only [nextBid, h0, if_false, List.getElem_cons_succ]
      apply ih k (by simpa using hj) (by simpa using hc)
      intro i hi
      have := hb (i + 1) (by omega)
      simpa using this

/-- the rest of the table after row `r`, followed by the table: row `j` of it is row
    `(r + 1 + j) % P` of the table -/
theorem drop_append_get (fr : List Frame) (r j : Nat) (hr : r < fr.length) (hj : j < fr.length) :
    ∃ (h1 : j < (fr.drop (r + 1) ++ fr).length) (h2 : (r + 1 + j) % fr.length < fr.length),
      (fr.drop (r + 1) ++ fr)[j] = fr[(r + 1 + j) % fr.length] := by
  have hlen : (fr.drop (r + 1) ++ fr).length = fr.length - (r + 1) + fr.length := by
    simp [List.length_append, List.length_drop]
  have h1 : j < (fr.drop (r + 1) ++ fr).length := by omega
  have h2 : (r + 1 + j) % fr.length < fr.length := Nat.mod_lt _ (by omega)
  refine ⟨h1, h2, ?_⟩
  by_cases hlt : j < fr.length - (r + 1)
  · have e : (r + 1 + j) % fr.length = r + 1 + j := Nat.mod_eq_of_lt (by omega)
    rw [List.getElem_append_left (by simpa [List.length_drop] using hlt)]
    simp only [List.getElem_drop, e]
  · have e : (r + 1 + j) % fr.length = r + 1 + j - fr.length := by
      rw [Nat.mod_eq_sub_mod (by omega)]
      exact Nat.mod_eq_of_lt (by omega)
    rw [List.getElem_append_right (by simp only [List.length_drop]; omega)]
    simp only [List.length_drop, e]
    congr 1
    omega

/-- from the walk to all frame numbers: two consecutive frames of a block channel (no
    frame of that channel in between) carry consecutive burst ids -/
theorem bids_lift (L : Layout) (ht : tableOk L = true) (hb : bidsCheck L = true)
    (d : Dir) (fn k : Nat) (f g : Frame) (n : Nat) (hk : 0 < k)
    (hf : lookup L fn = .ok f) (hg : lookup L (fn + k) = .ok g)
    (hc : (chanOf d g).1 = (chanOf d f).1) (hn : blockLen (chanOf d f).1 = some n)
    (hbetween : ∀ j, 0 < j → j < k → ∀ h, lookup L (fn + j) = .ok h →
      (chanOf d h).1 ≠ (chanOf d f).1) :
    (chanOf d f).2 < n ∧ (chanOf d g).2 = ((chanOf d f).2 + 1) % n := by
  obtain ⟨hp, fr, hfr, hl, row⟩ := tableOk_lookup L ht
  have hkP : k ≤ L.period := by
    by_cases h : k ≤ L.period
    · exact h
    · exfalso
      have hper : lookup L (fn + L.period) = lookup L fn := by
        simpa using lookup_add_period L fn 1
      exact hbetween L.period hp (by omega) f (by rw [hper, hf]) rfl
  have hr : fn % L.period < fr.length := (row fn).1
  have hfrow : f = fr[fn % L.period] := by
    have := (row fn).2
    rw [hf] at this
    exact Except.ok.inj this
  unfold bidsCheck at hb
  rw [hfr] at hb
  simp only [Bool.and_eq_true] at hb
  have hwalk : bidsWalk d fr fr = true := by
    cases d
    · exact hb.1
    · exact hb.2
  have hstep := bidsWalk_get d fr fr hwalk (fn % L.period) hr
  rw [← hfrow] at hstep
  -- row j of "later" is the frame of frame number fn + 1 + j
  have hel : ∀ j (hj : j < fr.length),
      ∃ h1 : j < (fr.drop (fn % L.period + 1) ++ fr).length,
        lookup L (fn + 1 + j) = .ok (fr.drop (fn % L.period + 1) ++ fr)[j] := by
    intro j hj
    obtain ⟨h1, h2, e⟩ := drop_append_get fr (fn % L.period) j hr hj
    refine ⟨h1, ?_⟩
    have hrow := (row (fn + 1 + j)).2
    have hm : (fn + 1 + j) % L.period = (fn % L.period + 1 + j) % fr.length := by
      rw [hl, Nat.add_assoc, Nat.add_assoc, Nat.mod_add_mod]
    rw [hrow, e]
    congr 1
    simp only [hm]
  have hk1 : k - 1 < fr.length := by omega
  obtain ⟨h1, hlast⟩ := hel (k - 1) hk1
  have hfk : fn + 1 + (k - 1) = fn + k := by omega
  rw [hfk, hg] at hlast
  have hgl : g = (fr.drop (fn % L.period + 1) ++ fr)[k - 1] := Except.ok.inj hlast
  have hnb : nextBid d (chanOf d f).1 (fr.drop (fn % L.period + 1) ++ fr) = some (chanOf d g).2 := by
    rw [hgl]
    apply nextBid_first d _ _ (k - 1) h1
    · rw [← hgl]; exact hc
    · intro i hi
      obtain ⟨h1i, hli⟩ := hel i (by omega)
      exact hbetween (1 + i) (by omega) (by omega) _ (by rw [← Nat.add_assoc]; exact hli)
  simp only [bidStepOk, hn, Bool.and_eq_true, decide_eq_true_eq, hnb, beq_iff_eq,
    Option.some.injEq] at hstep
  exact hstep

/-- every channel a frame uses (IDLE excepted) has its bit in the layout's channel mask -/
def frameInMask (mask : Nat) (f : Frame) : Bool :=
  (f.dlChan == .IDLE || mask.testBit f.dlChan.val) && (f.ulChan == .IDLE || mask.testBit f.ulChan.val)

def maskCheck (L : Layout) : Bool :=
  match L.frames with
  | none => false
  | some fr => fr.all (frameInMask L.lchanMask)

theorem lchan_all_complete : ∀ c : Lchan, c ∈ Lchan.all := by
  intro c; cases c <;> decide

theorem dir_all_complete : ∀ d : Dir, d ∈ [Dir.dl, Dir.ul] := by
  intro d; cases d <;> decide

/-! ## `l1sched_mframe_layout` -/

theorem layoutForVal_some (config tn : Nat) (L : Layout) (h : layoutForVal config tn = some L) :
    L ∈ layouts ∧ L.config.val = config ∧ L.slotmask.testBit tn = true := by
  unfold layoutForVal at h
  have hm := List.mem_of_find?_eq_some h
  have hp := List.find?_some h
  simp only [Bool.and_eq_true, beq_iff_eq] at hp
  exact ⟨hm, hp.1, hp.2⟩

theorem layoutForVal_none (config tn : Nat) (h : layoutForVal config tn = none) :
    ∀ L ∈ layouts, ¬ (L.config.val = config ∧ L.slotmask.testBit tn = true) := by
  unfold layoutForVal at h
  intro L hL hc
  have := (List.find?_eq_none.1 h) L hL
  simp only [Bool.and_eq_true, beq_iff_eq] at this
  exact this hc

/-! ## coverage of the Spec table -/

/-- timeslots of a slot mask -/
def maskTns (m : Nat) : List Nat := allTn.filter fun tn => m.testBit tn

/-- channel `c`, used by layout `L` in direction `d`, is either outside what the firmware
    implements (`notInFirmware`; PDTCH Uplink: receive-only task) or paired by a Spec
    entry (among `es`, the entries of the layout's combination) valid for every timeslot
    of the slot mask -/
def covered (L : Layout) (es : List Entry) (d : Dir) (c : Lchan) : Bool :=
  notInFirmware c || (d == .ul && c == .PDTCH) ||
    es.any fun e => (e.main == c || e.sacch == some c) && decide (d ∈ e.dirs) &&
      (maskTns L.slotmask).all fun tn => decide (tn ∈ e.tns)

/-- `covered` for every frame of a table; consecutive frames of the same channel are
    checked once -/
def coverWalk (L : Layout) (es : List Entry) (d : Dir) (prev : Lchan) : List Frame → Bool
  | [] => true
  | f :: rest =>
    ((chanOf d f).1 == prev || covered L es d (chanOf d f).1) && coverWalk L es d (chanOf d f).1 rest

def coverCheck (L : Layout) : Bool :=
  match L.frames with
  | none => false
  | some fr =>
    let es := table.filter fun e => e.config == L.config
    coverWalk L es .dl .IDLE fr && coverWalk L es .ul .IDLE fr

theorem coverWalk_mem (L : Layout) (es : List Entry) (d : Dir) (prev : Lchan) (l : List Frame)
    (hp : covered L es d prev = true) (h : coverWalk L es d prev l = true) :
    ∀ f ∈ l, covered L es d (chanOf d f).1 = true := by
  induction l generalizing prev with
  | nil => intro f hf; exact absurd hf (by simp)
  | cons a t ih =>
    simp only [coverWalk, Bool.and_eq_true, Bool.or_eq_true, beq_iff_eq] at h
    have ha : covered L es d (chanOf d a).1 = true := by
      rcases h.1 with h1 | h1
      · rw [h1]; exact hp
      · exact h1
    intro f hf
    rcases List.mem_cons.1 hf with rfl | hf
    · exact ha
    · exact ih _ ha h.2 f hf

/-- the channels whose Spec entries compare the Downlink only, PDTCH excepted -/
def dlOnlyChans : List Lchan := [.BCCH, .CCCH, .SDCCH4_CBCH, .SDCCH8_CBCH]

/-- … that list is what the Spec table says -/
def dlOnlyListCheck : Bool :=
  table.all fun e => decide (Dir.ul ∈ e.dirs) || e.main == .PDTCH ||
    (dlOnlyChans.contains e.main && e.sacch == none)

/-- a Downlink-only channel is not used on the Uplink by any frame -/
def dlOnlyCheck (L : Layout) : Bool :=
  match L.frames with
  | none => false
  | some fr => fr.all fun f => !(dlOnlyChans.contains f.ulChan)

/-! ## statement-level predicates of the property theorems -/

/-- the firmware starts a block of (the SACCH of, `s = true`) the task's channel at
    tick `fn`; the block's first burst is on the air in frame `airFrame fn` -/
def FwStartsBlock (items : List Item) (d : Dir) (s : Bool) (fn : Nat) : Prop :=
  ∃ it ∈ items, d ∈ setDirs it.set ∧ isSacch it = s ∧ fires it fn = true

/-- trxcon's layout marks frame number `f` as the first burst (bid 0) of a block of `c` -/
def LayoutFirstBurst (L : Layout) (d : Dir) (c : Lchan) (f : Nat) : Prop :=
  ∃ fr, lookup L f = .ok fr ∧ (chanOf d fr).1 = c ∧ (chanOf d fr).2 = 0

/-- trxcon's layout gives frame number `f` to channel `c` -/
def LayoutOwns (L : Layout) (d : Dir) (c : Lchan) (f : Nat) : Prop :=
  ∃ fr, lookup L f = .ok fr ∧ (chanOf d fr).1 = c

theorem fwMarks_iff (items : List Item) (d : Dir) (s : Bool) (fn : Nat) :
    fwMarks items d s fn = true ↔ FwStartsBlock items d s fn := by
  simp only [fwMarks, selItems, List.any_eq_true, List.mem_filter, Bool.and_eq_true,
    decide_eq_true_eq, beq_iff_eq, FwStartsBlock]
  constructor
  · rintro ⟨it, ⟨hm, hd, hs⟩, hf⟩; exact ⟨it, hm, hd, hs, hf⟩
  · rintro ⟨it, hm, hd, hs, hf⟩; exact ⟨it, ⟨hm, hd, hs⟩, hf⟩

theorem mem_real_layouts {L : Layout} (hL : L ∈ layouts) (hn : L.config ≠ .NONE) :
    L ∈ layouts.filter fun L => L.config != .NONE := by
  simp only [List.mem_filter, bne_iff_ne, ne_eq]
  exact ⟨hL, hn⟩

theorem layoutFor_mem {c : Pchan} {tn : Nat} {L : Layout} (h : layoutFor c tn = some L) :
    L ∈ layouts := (layoutForVal_some _ _ _ h).1

/-- from "for every tick" to "the residues modulo the period are the same set" -/
theorem residues_of_pointwise (L : Layout) (hA : SCHEDULE_AHEAD ≤ L.period)
    (hb : L.period + L.period < 4294967296) (F G : Nat → Prop) (hG : ∀ f g, f % L.period = g % L.period → (G f ↔ G g))
    (hpt : ∀ fn, fn + SCHEDULE_AHEAD < 4294967296 → (F fn ↔ G (airFrame fn))) :
    ∀ r, r < L.period →
      ((∃ fn, fn + SCHEDULE_AHEAD < 4294967296 ∧ F fn ∧ airFrame fn % L.period = r) ↔ G r) := by
  intro r hr
  constructor
  · rintro ⟨fn, hfn, hF, hres⟩
    have := (hpt fn hfn).1 hF
    exact (hG (airFrame fn) r (by rw [hres, Nat.mod_eq_of_lt hr])).1 this
  · intro hGr
    refine ⟨r + L.period - SCHEDULE_AHEAD, by omega, ?_, ?_⟩
    · apply (hpt _ (by omega)).2
      apply (hG _ r _).2 hGr
      rw [airFrame_eq, Nat.sub_add_cancel (by omega), Nat.add_mod_right]
    · rw [airFrame_eq, Nat.sub_add_cancel (by omega), Nat.add_mod_right, Nat.mod_eq_of_lt hr]

theorem firstBurst_congr (L : Layout) (d : Dir) (c : Lchan) (f g : Nat)
    (h : f % L.period = g % L.period) : LayoutFirstBurst L d c f ↔ LayoutFirstBurst L d c g := by
  simp only [LayoutFirstBurst, lookup_congr L f g h]

theorem owns_congr (L : Layout) (d : Dir) (c : Lchan) (f g : Nat)
    (h : f % L.period = g % L.period) : LayoutOwns L d c f ↔ LayoutOwns L d c g := by
  simp only [LayoutOwns, lookup_congr L f g h]


end OsmoVerif.Mframe
