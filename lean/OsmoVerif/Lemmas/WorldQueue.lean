/-
C03, sequential histories: ghost bookkeeping of the transmit queues of the world model, and the
proof that every history satisfies `Spec.TxQueue.ExactlyOnce`.

The model (`Model/World.lean`) is not changed.  `ghostStep` looks at one operation of a history
from the outside: the queue of transceiver `j` before and after the operation determines the
events
  * data datagram: the queue grew by one element `m` at the end            → `accepted id m`
    (`id` = position of the operation in the history);
  * tick at clock `fn`: the queue changed → the old queue is classified with the model's `classify fn`:
    `emit` elements → `emitted id fn` (these are the messages `clck_tick` hands to `forward_msg`),
    `stale` elements → `stale id fn`, the `wait` elements stay;
  * TRXC datagram: the queue became empty while it was not                 → `cleared id` for all.
The ids of the queued elements are a parallel list `Ghost.ids`; `Inv.lock` is the lock-step
invariant (same length, and element k of the queue is the message accepted under id `ids[k]`).
A tick in which an exception leaves `clck_tick` of transceiver `j` leaves `j`'s queue unchanged in
the model (the real clock thread dies at that point); such a tick produces no events for `j`.
Core tactics only.
-/
import OsmoVerif.Lemmas.WorldFrame
import OsmoVerif.Spec.TxQueue

namespace OsmoVerif.World
open OsmoVerif OsmoVerif.Spec.TxQueue

abbrev Ev := Event Trxd.TxMsg

/-! ### list facts -/

theorem classify_cases (fn : Nat) (m : Trxd.TxMsg) :
    classify fn m = .emit ∨ classify fn m = .stale ∨ classify fn m = .wait := by
  cases classify fn m <;> simp

/-- the three filters of `clck_tick` partition a list: every element is in exactly one of them -/
theorem filter_partition {α : Type} (c : α → Due) (l : List α) :
    (l.filter (fun x => c x == .emit) ++ l.filter (fun x => c x == .stale) ++
      l.filter (fun x => c x == .wait)).Perm l := by
  induction l with
  | nil => exact List.Perm.nil
  | cons a l ih =>
    simp only [List.filter_cons]
    cases h : c a
    · simp only [beq_self_eq_true, if_true, show (Due.emit == Due.stale) = false from rfl,
        show (Due.emit == Due.wait) = false from rfl, Bool.false_eq_true, if_false, List.cons_append]
      exact ih.cons a
    · simp only [beq_self_eq_true, if_true, show (Due.stale == Due.emit) = false from rfl,
        show (Due.stale == Due.wait) = false from rfl, Bool.false_eq_true, if_false]
      refine List.Perm.trans ?_ (ih.cons a)
      rw [List.append_assoc, List.append_assoc]
      exact List.perm_middle
    · simp only [beq_self_eq_true, if_true, show (Due.wait == Due.emit) = false from rfl,
        show (Due.wait == Due.stale) = false from rfl, Bool.false_eq_true, if_false]
      refine List.Perm.trans ?_ (ih.cons a)
      exact List.perm_middle

/-- each element is in exactly one of the three partitions -/
theorem filter_partition_unique {α : Type} (c : α → Due) (a : α) :
    (c a = .emit ∧ c a ≠ .stale ∧ c a ≠ .wait) ∨ (c a ≠ .emit ∧ c a = .stale ∧ c a ≠ .wait) ∨
    (c a ≠ .emit ∧ c a ≠ .stale ∧ c a = .wait) := by
  cases c a <;> simp

theorem zip_filter_snd {α β : Type} (p : β → Bool) :
    ∀ (l1 : List α) (l2 : List β), l1.length = l2.length →
      ((l1.zip l2).filter (fun x => p x.2)).map Prod.snd = l2.filter p := by
  intro l1
  induction l1 with
  | nil => intro l2 h; cases l2 <;> simp_all
  | cons a l1 ih =>
    intro l2 h
    cases l2 with
    | nil => simp at h
    | cons b l2 =>
      simp only [List.length_cons, Nat.add_right_cancel_iff] at h
      simp only [List.zip_cons_cons, List.filter_cons]
      cases p b <;> simp [ih l2 h]

theorem zip_map_fst_filter {α β : Type} (p : β → Bool) (l : List (α × β)) :
    ((l.filter (fun x => p x.2)).map Prod.fst).zip (l.map Prod.snd |>.filter p) =
      l.filter (fun x => p x.2) := by
  induction l with
  | nil => rfl
  | cons a l ih =>
    simp only [List.filter_cons, List.map_cons]
    cases p a.2 <;> simp [ih]


theorem zip_map_fst_snd {α β : Type} (l : List (α × β)) : (l.map Prod.fst).zip (l.map Prod.snd) = l := by
  induction l with
  | nil => rfl
  | cons a l ih => simp [ih]

/-! ### ghost state and the observer -/

/-- ghost state of one transceiver: ids of the queued messages (parallel to `txQueue`) and the
event log -/
structure Ghost where
  ids : List Nat := []
  log : List Ev := []

/-- the ids and messages a tick at clock `fn` takes out of the tagged queue `tq`: first the `emit`
partition (handed to `forward_msg`), then the `stale` partition (logged as stale) -/
def tickEvents (fn : Nat) (tq : List (Nat × Trxd.TxMsg)) : List Ev :=
  (tq.filter (fun p => classify fn p.2 == .emit)).map (fun p => Event.emitted p.1 fn) ++
  (tq.filter (fun p => classify fn p.2 == .stale)).map (fun p => Event.stale p.1 fn)

/-- ids that stay queued after a tick at clock `fn` -/
def tickIds (fn : Nat) (tq : List (Nat × Trxd.TxMsg)) : List Nat :=
  (tq.filter (fun p => classify fn p.2 == .wait)).map Prod.fst

/-- one operation of a history seen from transceiver `j`: `w` before, `w'` after, `id` = position -/
def ghostStep (j id : Nat) (w : World) (op : Op) (w' : World) (g : Ghost) : Ghost :=
  let old := queueOf w j
  let new := queueOf w' j
  match op with
  | .data _ _ =>
    match new.drop old.length with
    | [m] => ⟨g.ids ++ [id], g.log ++ [Event.accepted id m]⟩
    | _ => g
  | .ctrl _ _ _ =>
    if new = [] ∧ old ≠ [] then ⟨[], g.log ++ g.ids.map Event.cleared⟩ else g
  | .tick =>
    match w.clkSrc with
    | none => g
    | some fn =>
      if new = old then g
      else ⟨tickIds fn (g.ids.zip old), g.log ++ tickEvents fn (g.ids.zip old)⟩
  | .jump _ => g

/-- replay a history from position `id` -/
def replayFrom (j : Nat) : Nat → World → List Op → Ghost → Ghost
  | _, _, [], g => g
  | id, w, op :: ops, g =>
    let w' := (step w op).world
    replayFrom j (id + 1) w' ops (ghostStep j id w op w' g)

/-- the ghost state of transceiver `j` after the history `ops` from `w` (ids = positions in `ops`) -/
def ghost (w : World) (ops : List Op) (j : Nat) : Ghost := replayFrom j 0 w ops {}

/-! ### event-list algebra -/

@[simp] theorem accIds_append (a b : List Ev) : accIds (a ++ b) = accIds a ++ accIds b := by
  simp [accIds, List.filterMap_append]
@[simp] theorem outIds_append (a b : List Ev) : outIds (a ++ b) = outIds a ++ outIds b := by
  simp [outIds, List.filterMap_append]

theorem accIds_tickEvents (fn : Nat) (tq : List (Nat × Trxd.TxMsg)) : accIds (tickEvents fn tq) = [] := by
  simp only [tickEvents, accIds_append]
  simp [accIds, List.filterMap_map, Function.comp_def, Event.accId?]

theorem outIds_tickEvents (fn : Nat) (tq : List (Nat × Trxd.TxMsg)) :
    outIds (tickEvents fn tq) =
      (tq.filter (fun p => classify fn p.2 == .emit)).map Prod.fst ++
      (tq.filter (fun p => classify fn p.2 == .stale)).map Prod.fst := by
  simp only [tickEvents, outIds_append]
  simp [outIds, List.filterMap_map, Function.comp_def, Event.outId?]

theorem accIds_cleared (ids : List Nat) : accIds (ids.map (Event.cleared (μ := Trxd.TxMsg))) = [] := by
  simp [accIds, List.filterMap_map, Function.comp_def, Event.accId?]
theorem outIds_cleared (ids : List Nat) : outIds (ids.map (Event.cleared (μ := Trxd.TxMsg))) = ids := by
  simp [outIds, List.filterMap_map, Function.comp_def, Event.outId?]

theorem mem_accIds {log : List Ev} {id : Nat} : id ∈ accIds log ↔ ∃ m, Event.accepted id m ∈ log := by
  simp only [accIds, List.mem_filterMap]
  constructor
  · rintro ⟨e, he, h⟩
    cases e <;> simp [Event.accId?] at h
    subst h; exact ⟨_, he⟩
  · rintro ⟨m, hm⟩; exact ⟨_, hm, rfl⟩

/-! ### the invariant and its preservation by the three kinds of queue transitions -/

/-- the invariant of the ghost state of one transceiver with queue `q`; `pend` are tagged messages
taken out of the queue whose outcome is still pending (empty in sequential histories) -/
structure Inv (pos : Nat) (q : List Trxd.TxMsg) (pend : List (Nat × Trxd.TxMsg)) (g : Ghost) : Prop where
  /-- lock-step: as many ids as queued messages -/
  lock : g.ids.length = q.length
  /-- ... and each queued (or pending) message is the one accepted under its id -/
  tagged : ∀ p ∈ g.ids.zip q ++ pend, Event.accepted p.1 p.2 ∈ g.log
  /-- ids are positions of past operations -/
  fresh : ∀ id ∈ accIds g.log, id < pos
  spec : ExactlyOnce (fun m => m.fn) g.log (g.ids ++ pend.map Prod.fst)

theorem Inv.init (pos : Nat) : Inv pos [] [] {} :=
  ⟨rfl, by simp, by simp [accIds], ⟨by simp [accIds], by simp [accIds, outIds], by simp, by simp⟩⟩

theorem Inv.mono {pos pos' : Nat} {q pend g} (h : Inv pos q pend g) (hp : pos ≤ pos') : Inv pos' q pend g :=
  ⟨h.lock, h.tagged, fun id hid => Nat.lt_of_lt_of_le (h.fresh id hid) hp, h.spec⟩

theorem Inv.accept {pos : Nat} {q pend g} (h : Inv pos q pend g) (m : Trxd.TxMsg) :
    Inv (pos + 1) (q ++ [m]) pend ⟨g.ids ++ [pos], g.log ++ [Event.accepted pos m]⟩ := by
  have hnew : pos ∉ accIds g.log := fun hm => Nat.lt_irrefl _ (h.fresh pos hm)
  refine ⟨by simp [h.lock], ?_, ?_, ⟨?_, ?_, ?_, ?_⟩⟩
  · intro p hp
    simp only [List.mem_append] at hp ⊢
    rw [List.zip_append h.lock] at hp
    simp only [List.mem_append, List.zip_cons_cons, List.zip_nil_right, List.mem_singleton] at hp
    rcases hp with (hp | hp) | hp
    · exact .inl (h.tagged p (List.mem_append_left _ hp))
    · subst hp; exact .inr (by simp)
    · exact .inl (h.tagged p (List.mem_append_right _ hp))
  · intro id hid
    simp only [accIds_append, List.mem_append] at hid
    rcases hid with hid | hid
    · exact Nat.lt_succ_of_lt (h.fresh id hid)
    · simp [accIds, Event.accId?] at hid; omega
  · simp only [accIds_append]
    rw [List.nodup_append]
    refine ⟨h.spec.ids_distinct, by simp [accIds, Event.accId?], ?_⟩
    intro a ha b hb
    simp [accIds, Event.accId?] at hb
    subst hb; intro e; subst e; exact hnew ha
  · have := h.spec.accounted
    rw [List.perm_iff_count] at this ⊢
    intro a
    have := this a
    simp only [outIds_append, accIds_append, List.count_append] at this ⊢
    simp only [outIds, accIds, Event.outId?, Event.accId?, List.filterMap_cons, List.filterMap_nil,
      List.count_nil, List.count_cons] at this ⊢
    omega
  · intro id fn hm
    simp only [List.mem_append, List.mem_singleton, reduceCtorEq, or_false] at hm
    obtain ⟨m', hm', hfn⟩ := h.spec.on_time id fn hm
    exact ⟨m', List.mem_append_left _ hm', hfn⟩
  · intro id fn hm
    simp only [List.mem_append, List.mem_singleton, reduceCtorEq, or_false] at hm
    obtain ⟨m', mf, hm', hfn, hv⟩ := h.spec.stale_passed id fn hm
    exact ⟨m', mf, List.mem_append_left _ hm', hfn, hv⟩

/-- the model's classification is the spec's verdict (regenerated `GSM_HYPERFRAME` = 2715648) -/
theorem classify_spec (fn : Nat) (m : Trxd.TxMsg) :
    classify fn m = match m.fn with
      | none => .wait
      | some mf => match verdict fn mf with
        | .due => .emit | .passed => .stale | .future => .wait := by
  unfold classify verdict
  cases m.fn with
  | none => rfl
  | some mf =>
    simp only []
    have hH : (Gen.World.hyperframe : Int) = 2715648 := by decide
    have hh : ((Gen.World.hyperframe / 2 : Nat) : Int) = 1357824 := by decide
    rw [hH, hh, Int.fmod_eq_emod_of_nonneg _ (by omega)]
    by_cases h1 : mf = (fn : Int)
    · simp [h1]
    · simp only [h1, if_false]
      by_cases h2 : ((fn : Int) - mf) % 2715648 < 1357824
      · simp [h2]
      · simp [h2]

theorem classify_emit {fn : Nat} {m : Trxd.TxMsg} (h : classify fn m = .emit) : m.fn = some (fn : Int) := by
  unfold classify at h
  split at h
  · cases h
  · split at h
    · next heq e => rw [heq, e]
    · split at h <;> cases h

theorem classify_stale {fn : Nat} {m : Trxd.TxMsg} (h : classify fn m = .stale) :
    ∃ mf, m.fn = some mf ∧ verdict fn mf = .passed := by
  rw [classify_spec] at h
  cases hm : m.fn with
  | none => rw [hm] at h; cases h
  | some mf =>
    rw [hm] at h
    simp only [] at h
    refine ⟨mf, rfl, ?_⟩
    cases hv : verdict fn mf <;> rw [hv] at h <;> first | rfl | cases h

theorem mem_tickEvents {fn : Nat} {tq : List (Nat × Trxd.TxMsg)} {e : Ev} (h : e ∈ tickEvents fn tq) :
    (∃ p ∈ tq, classify fn p.2 = .emit ∧ e = Event.emitted p.1 fn) ∨
    (∃ p ∈ tq, classify fn p.2 = .stale ∧ e = Event.stale p.1 fn) := by
  simp only [tickEvents, List.mem_append, List.mem_map, List.mem_filter, beq_iff_eq] at h
  rcases h with ⟨p, ⟨hp, hc⟩, rfl⟩ | ⟨p, ⟨hp, hc⟩, rfl⟩
  · exact .inl ⟨p, hp, hc, rfl⟩
  · exact .inr ⟨p, hp, hc, rfl⟩

theorem Inv.tick {pos : Nat} {q pend g} (h : Inv pos q pend g) (fn : Nat) :
    Inv pos (waitPart fn q) pend
      ⟨tickIds fn (g.ids.zip q), g.log ++ tickEvents fn (g.ids.zip q)⟩ := by
  have hsnd : ((g.ids.zip q).filter (fun p => classify fn p.2 == .wait)).map Prod.snd = waitPart fn q :=
    zip_filter_snd (fun m => classify fn m == .wait) g.ids q h.lock
  have hids : (g.ids.zip q).map Prod.fst = g.ids := List.map_fst_zip (Nat.le_of_eq h.lock)
  refine ⟨?_, ?_, ?_, ⟨?_, ?_, ?_, ?_⟩⟩
  · rw [← hsnd]; simp [tickIds]
  · intro p hp
    simp only [List.mem_append] at hp ⊢
    left
    rcases hp with hp | hp
    · rw [← hsnd] at hp
      simp only [tickIds, zip_map_fst_snd, List.mem_filter] at hp
      exact h.tagged p (List.mem_append_left _ hp.1)
    · exact h.tagged p (List.mem_append_right _ hp)
  · intro id hid
    simp only [accIds_append, accIds_tickEvents, List.append_nil] at hid
    exact h.fresh id hid
  · simp only [accIds_append, accIds_tickEvents, List.append_nil]
    exact h.spec.ids_distinct
  · have hacc := h.spec.accounted
    have hpart := (filter_partition (fun p : Nat × Trxd.TxMsg => classify fn p.2) (g.ids.zip q)).map Prod.fst
    rw [hids] at hpart
    rw [List.perm_iff_count] at hacc hpart ⊢
    intro a
    have h1 := hacc a
    have h2 := hpart a
    simp only [outIds_append, accIds_append, accIds_tickEvents, outIds_tickEvents, tickIds,
      List.count_append, List.map_append, List.append_nil] at h1 h2 ⊢
    omega
  · intro id fn' hm
    rw [List.mem_append] at hm
    rcases hm with hm | hm
    · obtain ⟨m', hm', hfn⟩ := h.spec.on_time id fn' hm
      exact ⟨m', List.mem_append_left _ hm', hfn⟩
    · rcases mem_tickEvents hm with ⟨p, hp, hc, he⟩ | ⟨p, hp, hc, he⟩
      · cases he
        exact ⟨p.2, List.mem_append_left _ (h.tagged p (List.mem_append_left _ hp)), classify_emit hc⟩
      · cases he
  · intro id fn' hm
    rw [List.mem_append] at hm
    rcases hm with hm | hm
    · obtain ⟨m', mf, hm', hfn, hv⟩ := h.spec.stale_passed id fn' hm
      exact ⟨m', mf, List.mem_append_left _ hm', hfn, hv⟩
    · rcases mem_tickEvents hm with ⟨p, hp, hc, he⟩ | ⟨p, hp, hc, he⟩
      · cases he
      · cases he
        obtain ⟨mf, hmf, hv⟩ := classify_stale hc
        exact ⟨p.2, mf, List.mem_append_left _ (h.tagged p (List.mem_append_left _ hp)), hmf, hv⟩

theorem Inv.clear {pos : Nat} {q pend g} (h : Inv pos q pend g) :
    Inv pos [] pend ⟨[], g.log ++ g.ids.map Event.cleared⟩ := by
  refine ⟨rfl, ?_, ?_, ⟨?_, ?_, ?_, ?_⟩⟩
  · intro p hp
    simp only [List.zip_nil_left, List.nil_append] at hp
    exact List.mem_append_left _ (h.tagged p (List.mem_append_right _ hp))
  · intro id hid
    simp only [accIds_append, accIds_cleared, List.append_nil] at hid
    exact h.fresh id hid
  · simp only [accIds_append, accIds_cleared, List.append_nil]
    exact h.spec.ids_distinct
  · have hacc := h.spec.accounted
    simp only [outIds_append, accIds_append, accIds_cleared, outIds_cleared, List.append_nil,
      List.nil_append]
    rw [List.append_assoc]
    exact hacc
  · intro id fn hm
    rw [List.mem_append] at hm
    rcases hm with hm | hm
    · obtain ⟨m', hm', hfn⟩ := h.spec.on_time id fn hm
      exact ⟨m', List.mem_append_left _ hm', hfn⟩
    · simp at hm
  · intro id fn hm
    rw [List.mem_append] at hm
    rcases hm with hm | hm
    · obtain ⟨m', mf, hm', hfn, hv⟩ := h.spec.stale_passed id fn hm
      exact ⟨m', mf, List.mem_append_left _ hm', hfn, hv⟩
    · simp at hm

/-! ### the tick split into its atomic actions (used by the interleaving semantics) -/

/-- the locked section of `clck_tick`: the `emit` and `drop` partitions leave the queue and become
pending -/
theorem Inv.lockSection {pos : Nat} {q : List Trxd.TxMsg} {g : Ghost} (h : Inv pos q [] g) (fn : Nat) :
    Inv pos (waitPart fn q)
      ((g.ids.zip q).filter (fun p => classify fn p.2 == .emit) ++
       (g.ids.zip q).filter (fun p => classify fn p.2 == .stale))
      ⟨tickIds fn (g.ids.zip q), g.log⟩ := by
  have hsnd : ((g.ids.zip q).filter (fun p => classify fn p.2 == .wait)).map Prod.snd = waitPart fn q :=
    zip_filter_snd (fun m => classify fn m == .wait) g.ids q h.lock
  have hids : (g.ids.zip q).map Prod.fst = g.ids := List.map_fst_zip (Nat.le_of_eq h.lock)
  refine ⟨?_, ?_, h.fresh, ⟨h.spec.ids_distinct, ?_, h.spec.on_time, h.spec.stale_passed⟩⟩
  · rw [← hsnd]; simp [tickIds]
  · intro p hp
    simp only [List.mem_append] at hp
    rcases hp with hp | hp | hp
    · rw [← hsnd] at hp
      simp only [tickIds, zip_map_fst_snd, List.mem_filter] at hp
      exact h.tagged p (List.mem_append_left _ hp.1)
    · exact h.tagged p (List.mem_append_left _ (List.mem_filter.mp hp).1)
    · exact h.tagged p (List.mem_append_left _ (List.mem_filter.mp hp).1)
  · have hacc := h.spec.accounted
    have hpart := (filter_partition (fun p : Nat × Trxd.TxMsg => classify fn p.2) (g.ids.zip q)).map Prod.fst
    rw [hids] at hpart
    rw [List.perm_iff_count] at hacc hpart ⊢
    intro a
    have h1 := hacc a
    have h2 := hpart a
    simp only [tickIds, List.count_append, List.map_append, List.map_nil, List.append_nil] at h1 h2 ⊢
    omega

theorem Inv.emitOne {pos : Nat} {q : List Trxd.TxMsg} {g : Ghost} {p : Nat × Trxd.TxMsg}
    {pend : List (Nat × Trxd.TxMsg)} (h : Inv pos q (p :: pend) g) {fn : Nat} (hc : classify fn p.2 = .emit) :
    Inv pos q pend ⟨g.ids, g.log ++ [Event.emitted p.1 fn]⟩ := by
  have hacc_p : Event.accepted p.1 p.2 ∈ g.log := h.tagged p (by simp)
  refine ⟨h.lock, ?_, ?_, ⟨?_, ?_, ?_, ?_⟩⟩
  · intro p' hp'
    apply List.mem_append_left
    apply h.tagged
    simp only [List.mem_append, List.mem_cons] at hp' ⊢
    rcases hp' with hp' | hp'
    · exact .inl hp'
    · exact .inr (.inr hp')
  · intro id hid
    simp only [accIds_append, List.mem_append] at hid
    rcases hid with hid | hid
    · exact h.fresh id hid
    · simp [accIds, Event.accId?] at hid
  · simp only [accIds_append]
    simp only [accIds, List.filterMap_cons, Event.accId?, List.filterMap_nil, List.append_nil]
    exact h.spec.ids_distinct
  · have hacc := h.spec.accounted
    rw [List.perm_iff_count] at hacc ⊢
    intro a
    have h1 := hacc a
    simp only [outIds_append, accIds_append, List.count_append, List.map_cons, List.count_cons] at h1 ⊢
    simp only [outIds, accIds, Event.outId?, Event.accId?, List.filterMap_cons, List.filterMap_nil,
      List.count_nil, List.count_cons] at h1 ⊢
    omega
  · intro id fn' hm
    simp only [List.mem_append, List.mem_singleton] at hm
    rcases hm with hm | hm
    · obtain ⟨m', hm', hfn⟩ := h.spec.on_time id fn' hm
      exact ⟨m', List.mem_append_left _ hm', hfn⟩
    · cases hm
      exact ⟨p.2, List.mem_append_left _ hacc_p, classify_emit hc⟩
  · intro id fn' hm
    simp only [List.mem_append, List.mem_singleton, reduceCtorEq, or_false] at hm
    obtain ⟨m', mf, hm', hfn, hv⟩ := h.spec.stale_passed id fn' hm
    exact ⟨m', mf, List.mem_append_left _ hm', hfn, hv⟩

theorem Inv.staleOne {pos : Nat} {q : List Trxd.TxMsg} {g : Ghost} {p : Nat × Trxd.TxMsg}
    {pend : List (Nat × Trxd.TxMsg)} (h : Inv pos q (p :: pend) g) {fn : Nat} (hc : classify fn p.2 = .stale) :
    Inv pos q pend ⟨g.ids, g.log ++ [Event.stale p.1 fn]⟩ := by
  have hacc_p : Event.accepted p.1 p.2 ∈ g.log := h.tagged p (by simp)
  refine ⟨h.lock, ?_, ?_, ⟨?_, ?_, ?_, ?_⟩⟩
  · intro p' hp'
    apply List.mem_append_left
    apply h.tagged
    simp only [List.mem_append, List.mem_cons] at hp' ⊢
    rcases hp' with hp' | hp'
    · exact .inl hp'
    · exact .inr (.inr hp')
  · intro id hid
    simp only [accIds_append, List.mem_append] at hid
    rcases hid with hid | hid
    · exact h.fresh id hid
    · simp [accIds, Event.accId?] at hid
  · simp only [accIds_append]
    simp only [accIds, List.filterMap_cons, Event.accId?, List.filterMap_nil, List.append_nil]
    exact h.spec.ids_distinct
  · have hacc := h.spec.accounted
    rw [List.perm_iff_count] at hacc ⊢
    intro a
    have h1 := hacc a
    simp only [outIds_append, accIds_append, List.count_append, List.map_cons, List.count_cons] at h1 ⊢
    simp only [outIds, accIds, Event.outId?, Event.accId?, List.filterMap_cons, List.filterMap_nil,
      List.count_nil, List.count_cons] at h1 ⊢
    omega
  · intro id fn' hm
    simp only [List.mem_append, List.mem_singleton, reduceCtorEq, or_false] at hm
    obtain ⟨m', hm', hfn⟩ := h.spec.on_time id fn' hm
    exact ⟨m', List.mem_append_left _ hm', hfn⟩
  · intro id fn' hm
    simp only [List.mem_append, List.mem_singleton] at hm
    rcases hm with hm | hm
    · obtain ⟨m', mf, hm', hfn, hv⟩ := h.spec.stale_passed id fn' hm
      exact ⟨m', mf, List.mem_append_left _ hm', hfn, hv⟩
    · cases hm
      obtain ⟨mf, hmf, hv⟩ := classify_stale hc
      exact ⟨p.2, mf, List.mem_append_left _ hacc_p, hmf, hv⟩

/-! ### every operation preserves the invariant -/

/-- shape of the queue of transceiver `j` after one operation -/
theorem step_ctrl_effect (w : World) (i sp : Nat) (d : List Nat) :
    CmdEffect w i (step w (.ctrl i sp d)).world := by
  simp only [step]
  split
  · exact handleRx_effect _ _ _ _ _
  · exact .same rfl

theorem step_tick_queue (w : World) (j : Nat) :
    queueOf (step w .tick).world j = queueOf w j ∨
    ∃ fn, w.clkRunning = true ∧ w.clkSrc = some fn ∧ runningOf w j = true ∧
      queueOf (step w .tick).world j = waitPart fn (queueOf w j) := by
  simp only [step]
  cases hr : w.clkRunning
  · rw [tick_stopped hr]; exact .inl rfl
  cases hs : w.clkSrc with
  | none => rw [tick_nosrc hs]; exact .inl rfl
  | some fn =>
    obtain ⟨js1, js2, -, -, h2, h3, -⟩ := tick_spec hr hs
    by_cases hj : j ∈ js1
    · rw [h3 j hj]
      unfold tickedQueue
      cases hrun : runningOf w j
      · exact .inl rfl
      · exact .inr ⟨fn, rfl, rfl, rfl, rfl⟩
    · exact .inl (h2 j hj)

theorem step_jump_queue (w : World) (fn j : Nat) : queueOf (step w (.jump fn)).world j = queueOf w j := by
  simp only [step, jump]
  split <;> rfl

theorem ghostStep_inv {j pos : Nat} {w : World} (op : Op) {g : Ghost} {pend : List (Nat × Trxd.TxMsg)}
    (h : Inv pos (queueOf w j) pend g) :
    Inv (pos + 1) (queueOf (step w op).world j) pend (ghostStep j pos w op (step w op).world g) := by
  cases op with
  | data i d =>
    simp only [ghostStep, step]
    rcases (recvDataMsg_queue w i d j).2 with ⟨hq, -⟩ | ⟨-, msg, -, hq⟩
    · rw [hq, List.drop_length]; exact h.mono (Nat.le_succ _)
    · rw [hq, List.drop_left]; exact h.accept msg
  | ctrl i sp d =>
    simp only [ghostStep]
    rcases (step_ctrl_effect w i sp d).cases j with ⟨hq, -⟩ | ⟨hq, -⟩ | ⟨hq, -⟩
    · rw [hq, if_neg (fun hh => hh.2 hh.1)]; exact h.mono (Nat.le_succ _)
    · rw [hq, if_neg (fun hh => hh.2 hh.1)]; exact h.mono (Nat.le_succ _)
    · rw [hq]
      by_cases ho : queueOf w j = []
      · rw [if_neg (fun hh => hh.2 ho), ← ho]; exact h.mono (Nat.le_succ _)
      · rw [if_pos ⟨rfl, ho⟩]; exact h.clear.mono (Nat.le_succ _)
  | tick =>
    simp only [ghostStep]
    rcases step_tick_queue w j with hq | ⟨fn, -, hs, -, hq⟩
    · rw [hq]
      cases w.clkSrc with
      | none => exact h.mono (Nat.le_succ _)
      | some fn => simp only [if_true]; exact h.mono (Nat.le_succ _)
    · rw [hs, hq]
      simp only []
      split
      · next he => rw [he]; exact h.mono (Nat.le_succ _)
      · exact (h.tick fn).mono (Nat.le_succ _)
  | jump fn =>
    simp only [ghostStep, step_jump_queue]
    exact h.mono (Nat.le_succ _)

theorem replayFrom_inv (j : Nat) : ∀ (ops : List Op) (pos : Nat) (w : World) (g : Ghost),
    Inv pos (queueOf w j) [] g →
    Inv (pos + ops.length) (queueOf (run w ops).1 j) [] (replayFrom j pos w ops g) := by
  intro ops
  induction ops with
  | nil => intro pos w g h; simpa [run, replayFrom] using h
  | cons op ops ih =>
    intro pos w g h
    have := ih (pos + 1) (step w op).world _ (ghostStep_inv op h)
    simp only [run, replayFrom, List.length_cons]
    rw [show pos + (ops.length + 1) = pos + 1 + ops.length by omega]
    exact this

/-- Every history from a world in which `j`'s queue is empty satisfies the invariant. -/
theorem ghost_inv (w : World) (ops : List Op) (j : Nat) (h0 : queueOf w j = []) :
    Inv ops.length (queueOf (run w ops).1 j) [] (ghost w ops j) := by
  have := replayFrom_inv j ops 0 w {} (by rw [h0]; exact Inv.init 0)
  simp only [Nat.zero_add] at this
  exact this

end OsmoVerif.World
/-! ### consequences of `ExactlyOnce` -/
namespace OsmoVerif.Spec.TxQueue
variable {μ : Type} {fnOf : μ → Option Int} {log : List (Event μ)} {queued : List Nat}

theorem ExactlyOnce.nodup_all (h : ExactlyOnce fnOf log queued) : (outIds log ++ queued).Nodup :=
  h.accounted.nodup_iff.mpr h.ids_distinct

/-- at most one outcome event per id -/
theorem ExactlyOnce.outcome_unique (h : ExactlyOnce fnOf log queued) : (outIds log).Nodup :=
  (List.nodup_append.mp h.nodup_all).1

theorem ExactlyOnce.queued_nodup (h : ExactlyOnce fnOf log queued) : queued.Nodup :=
  (List.nodup_append.mp h.nodup_all).2.1

/-- a queued id has no outcome -/
theorem ExactlyOnce.queued_no_outcome (h : ExactlyOnce fnOf log queued) {id : Nat} (hq : id ∈ queued) :
    id ∉ outIds log := fun ho => (List.nodup_append.mp h.nodup_all).2.2 id ho id hq rfl

/-- nothing is lost, nothing appears from nowhere -/
theorem ExactlyOnce.accounted_iff (h : ExactlyOnce fnOf log queued) (id : Nat) :
    id ∈ accIds log ↔ (id ∈ outIds log ∨ id ∈ queued) := by
  rw [← h.accounted.mem_iff, List.mem_append]
end OsmoVerif.Spec.TxQueue
namespace OsmoVerif.World
open OsmoVerif OsmoVerif.Spec.TxQueue

/-! ### the ghost of `ops ++ [op]` -/

theorem replayFrom_append (j : Nat) : ∀ (ops ops2 : List Op) (pos : Nat) (w : World) (g : Ghost),
    replayFrom j pos w (ops ++ ops2) g =
      replayFrom j (pos + ops.length) (run w ops).1 ops2 (replayFrom j pos w ops g) := by
  intro ops
  induction ops with
  | nil => intro ops2 pos w g; simp [run, replayFrom]
  | cons op ops ih =>
    intro ops2 pos w g
    simp only [List.cons_append, replayFrom, run, List.length_cons]
    rw [ih]
    congr 1
    omega

theorem run_append (w : World) (ops ops2 : List Op) :
    (run w (ops ++ ops2)).1 = (run (run w ops).1 ops2).1 := by
  induction ops generalizing w with
  | nil => rfl
  | cons op ops ih => simp only [List.cons_append, run]; exact ih _

/-- the ghost after one more operation -/
theorem ghost_snoc (w : World) (ops : List Op) (op : Op) (j : Nat) :
    ghost w (ops ++ [op]) j =
      ghostStep j ops.length (run w ops).1 op (step (run w ops).1 op).world (ghost w ops j) := by
  unfold ghost
  rw [replayFrom_append]
  simp [replayFrom]

theorem run_snoc (w : World) (ops : List Op) (op : Op) :
    (run w (ops ++ [op])).1 = (step (run w ops).1 op).world := by
  rw [run_append]; rfl

/-! ### a completed tick, uniformly -/

theorem tick_complete_queue {w : World} {fn : Nat} (hr : w.clkRunning = true) (hs : w.clkSrc = some fn)
    (hx : (tick w).exc = none) (j : Nat) :
    queueOf (tick w).world j = tickedQueue fn w j ∧
    (tick w).world.clkSrc = some ((fn + 1) % Gen.World.hyperframe) := by
  obtain ⟨js1, js2, hjs, -, h2, h3, -, h5, -⟩ := tick_spec hr hs
  obtain ⟨rfl, hc⟩ := h5 hx
  refine ⟨?_, hc⟩
  by_cases hj : j ∈ js1
  · exact h3 j hj
  · rw [h2 j hj]
    rw [List.append_nil] at hjs
    rw [← hjs, List.mem_range] at hj
    unfold tickedQueue runningOf
    rw [List.getElem?_eq_none (Nat.le_of_not_lt hj)]
    rfl

theorem tick_nothing_due {fn : Nat} {ids : List Nat} {q : List Trxd.TxMsg} (hl : ids.length = q.length)
    (h : waitPart fn q = q) : tickEvents fn (ids.zip q) = [] ∧ tickIds fn (ids.zip q) = ids := by
  unfold waitPart at h
  rw [List.filter_eq_self] at h
  have hall : ∀ p ∈ ids.zip q, classify fn p.2 = .wait := by
    intro p hp
    have := h p.2 (List.of_mem_zip hp).2
    simpa using this
  constructor
  · unfold tickEvents
    rw [List.filter_eq_nil_iff.mpr, List.filter_eq_nil_iff.mpr]
    · rfl
    · intro p hp; rw [hall p hp]; decide
    · intro p hp; rw [hall p hp]; decide
  · unfold tickIds
    rw [List.filter_eq_self.mpr]
    · exact List.map_fst_zip (Nat.le_of_eq hl)
    · intro p hp; rw [hall p hp]; rfl

/-- the ghost step of a tick that reaches the running transceiver `j` -/
theorem ghostStep_tick_running {j pos : Nat} {w : World} {g : Ghost} {fn : Nat}
    (hl : g.ids.length = (queueOf w j).length) (hs : w.clkSrc = some fn)
    (hq : queueOf (step w .tick).world j = waitPart fn (queueOf w j)) :
    ghostStep j pos w .tick (step w .tick).world g =
      ⟨tickIds fn (g.ids.zip (queueOf w j)), g.log ++ tickEvents fn (g.ids.zip (queueOf w j))⟩ := by
  simp only [ghostStep, hs, hq]
  split
  · next he =>
    obtain ⟨h1, h2⟩ := tick_nothing_due hl he
    rw [h1, h2, List.append_nil]
  · rfl

/-! ### provenance of events -/

/-- where the events of one operation come from -/
theorem ghostStep_mem {j pos : Nat} {w : World} {op : Op} {g : Ghost} {e : Ev}
    (h : e ∈ (ghostStep j pos w op (step w op).world g).log) :
    e ∈ g.log ∨
    (∃ d m, op = .data j d ∧ Accepts w j d m ∧ e = Event.accepted pos m) ∨
    (∃ fn p, op = .tick ∧ w.clkRunning = true ∧ w.clkSrc = some fn ∧ runningOf w j = true ∧
        p ∈ g.ids.zip (queueOf w j) ∧
        ((classify fn p.2 = .emit ∧ e = Event.emitted p.1 fn) ∨
         (classify fn p.2 = .stale ∧ e = Event.stale p.1 fn))) ∨
    (∃ i sp d id, op = .ctrl i sp d ∧ id ∈ g.ids ∧ e = Event.cleared id ∧
        queueOf (step w op).world j = [] ∧ runningOf (step w op).world j = false) := by
  cases op with
  | data i d =>
    simp only [ghostStep, step] at h
    rcases (recvDataMsg_queue w i d j).2 with ⟨hq, -⟩ | ⟨hji, msg, hacc, hq⟩
    · rw [hq, List.drop_length] at h; exact .inl h
    · rw [hq, List.drop_left] at h
      simp only [List.mem_append, List.mem_singleton] at h
      rcases h with h | h
      · exact .inl h
      · subst hji; exact .inr (.inl ⟨d, msg, rfl, hacc, h⟩)
  | ctrl i sp d =>
    simp only [ghostStep] at h
    split at h
    next hc =>
      simp only [List.mem_append, List.mem_map] at h
      rcases h with h | ⟨id, hid, rfl⟩
      · exact .inl h
      · rcases (step_ctrl_effect w i sp d).cases j with ⟨hq, -⟩ | ⟨hq, -⟩ | ⟨hq, hr⟩
        · exact absurd (hq ▸ hc.1) hc.2
        · exact absurd (hq ▸ hc.1) hc.2
        · exact .inr (.inr (.inr ⟨i, sp, d, id, rfl, hid, rfl, hq, hr⟩))
    next => exact .inl h
  | tick =>
    simp only [ghostStep] at h
    rcases step_tick_queue w j with hq | ⟨fn, hr, hs, hrun, hq⟩
    · rw [hq] at h
      cases hcs : w.clkSrc with
      | none => rw [hcs] at h; exact .inl h
      | some fn => rw [hcs] at h; simp only [if_true] at h; exact .inl h
    · rw [hs] at h
      simp only [] at h
      split at h
      · exact .inl h
      · simp only [List.mem_append] at h
        rcases h with h | h
        · exact .inl h
        · right; right; left
          rcases mem_tickEvents h with ⟨p, hp, hc, he⟩ | ⟨p, hp, hc, he⟩
          · exact ⟨fn, p, rfl, hr, hs, hrun, hp, .inl ⟨hc, he⟩⟩
          · exact ⟨fn, p, rfl, hr, hs, hrun, hp, .inr ⟨hc, he⟩⟩
  | jump fn => simp only [ghostStep] at h; exact .inl h

/-- the log only grows -/
theorem ghostStep_log_mono {j pos : Nat} {w w' : World} {op : Op} {g : Ghost} {e : Ev} (h : e ∈ g.log) :
    e ∈ (ghostStep j pos w op w' g).log := by
  cases op <;> simp only [ghostStep]
  · split <;> simp [h]
  · split <;> simp [h]
  · split
    · exact h
    · split <;> simp [h]
  · exact h

/-! ### histories -/

theorem snoc_induction {α : Type} {P : List α → Prop} (h0 : P []) (hs : ∀ l a, P l → P (l ++ [a])) :
    ∀ l, P l := by
  intro l
  have : ∀ r : List α, P r.reverse := by
    intro r
    induction r with
    | nil => exact h0
    | cons a r ih => rw [List.reverse_cons]; exact hs _ _ ih
  simpa using this l.reverse

theorem zip_fst_inj {α β : Type} : ∀ (l1 : List α) (l2 : List β), l1.Nodup →
    ∀ p ∈ l1.zip l2, ∀ p' ∈ l1.zip l2, p.1 = p'.1 → p = p' := by
  intro l1
  induction l1 with
  | nil => intro l2 _ p hp; simp at hp
  | cons a l1 ih =>
    intro l2 hnd p hp p' hp' he
    cases l2 with
    | nil => simp at hp
    | cons b l2 =>
      rw [List.nodup_cons] at hnd
      simp only [List.zip_cons_cons, List.mem_cons] at hp hp'
      rcases hp with rfl | hp <;> rcases hp' with rfl | hp'
      · rfl
      · simp only at he; exact absurd (by rw [he]; exact (List.of_mem_zip hp').1) hnd.1
      · simp only at he; exact absurd (by rw [← he]; exact (List.of_mem_zip hp).1) hnd.1
      · exact ih l2 hnd.2 p hp p' hp' he

/-- the log of a longer history extends the log of a shorter one -/
theorem ghost_log_mono (w : World) (ops ops2 : List Op) (j : Nat) {e : Ev} (h : e ∈ (ghost w ops j).log) :
    e ∈ (ghost w (ops ++ ops2) j).log := by
  revert h
  refine snoc_induction (P := fun ops2 => e ∈ (ghost w ops j).log → e ∈ (ghost w (ops ++ ops2) j).log)
    ?_ ?_ ops2
  · intro h; simpa using h
  · intro l a ih h
    rw [← List.append_assoc, ghost_snoc]
    exact ghostStep_log_mono (ih h)

/-- every event of a history was produced by one of its operations (`ghostStep_mem` at that point) -/
theorem ghost_mem_origin (w : World) (j : Nat) {e : Ev} : ∀ ops : List Op, e ∈ (ghost w ops j).log →
    ∃ pre op post, ops = pre ++ op :: post ∧ e ∉ (ghost w pre j).log ∧
      e ∈ (ghost w (pre ++ [op]) j).log := by
  refine snoc_induction ?_ ?_
  · intro h; simp [ghost, replayFrom] at h
  · intro l a ih h
    by_cases hl : e ∈ (ghost w l j).log
    · obtain ⟨pre, op, post, rfl, h1, h2⟩ := ih hl
      exact ⟨pre, op, post ++ [a], by simp, h1, h2⟩
    · exact ⟨l, a, [], rfl, hl, h⟩

theorem mem_outIds_of_emitted {log : List Ev} {id fn : Nat} (h : Event.emitted id fn ∈ log) : id ∈ outIds log :=
  List.mem_filterMap.mpr ⟨_, h, rfl⟩
theorem mem_outIds_of_stale {log : List Ev} {id fn : Nat} (h : Event.stale id fn ∈ log) : id ∈ outIds log :=
  List.mem_filterMap.mpr ⟨_, h, rfl⟩
theorem mem_outIds_of_cleared {log : List Ev} {id : Nat} (h : Event.cleared id ∈ log) : id ∈ outIds log :=
  List.mem_filterMap.mpr ⟨_, h, rfl⟩

/-- what a tick at clock `fn` does with the queued message `p` (id, msg) -/
theorem Inv.tick_outcome {pos : Nat} {q : List Trxd.TxMsg} {g : Ghost} (h : Inv pos q [] g) (fn : Nat)
    {p : Nat × Trxd.TxMsg} (hp : p ∈ g.ids.zip q) :
    (Event.emitted p.1 fn ∈ g.log ++ tickEvents fn (g.ids.zip q) ↔ classify fn p.2 = .emit) ∧
    (Event.stale p.1 fn ∈ g.log ++ tickEvents fn (g.ids.zip q) ↔ classify fn p.2 = .stale) ∧
    (p.1 ∈ tickIds fn (g.ids.zip q) ↔ classify fn p.2 = .wait) := by
  have hq : p.1 ∈ g.ids ++ ([] : List (Nat × Trxd.TxMsg)).map Prod.fst := by
    simp only [List.map_nil, List.append_nil]; exact (List.of_mem_zip hp).1
  have hno := h.spec.queued_no_outcome hq
  have hnd : g.ids.Nodup := by
    have := h.spec.queued_nodup
    simpa only [List.map_nil, List.append_nil] using this
  have inj := zip_fst_inj g.ids q hnd
  refine ⟨?_, ?_, ?_⟩
  · constructor
    · intro hm
      rcases List.mem_append.mp hm with hm | hm
      · exact absurd (mem_outIds_of_emitted hm) hno
      · rcases mem_tickEvents hm with ⟨p', hp', hc, he⟩ | ⟨p', hp', hc, he⟩
        · have he := (Event.emitted.inj he).1; rw [inj p hp p' hp' he]; exact hc
        · cases he
    · intro hc
      apply List.mem_append_right
      simp only [tickEvents, List.mem_append, List.mem_map, List.mem_filter, beq_iff_eq]
      exact .inl ⟨p, ⟨hp, hc⟩, rfl⟩
  · constructor
    · intro hm
      rcases List.mem_append.mp hm with hm | hm
      · exact absurd (mem_outIds_of_stale hm) hno
      · rcases mem_tickEvents hm with ⟨p', hp', hc, he⟩ | ⟨p', hp', hc, he⟩
        · cases he
        · have he := (Event.stale.inj he).1; rw [inj p hp p' hp' he]; exact hc
    · intro hc
      apply List.mem_append_right
      simp only [tickEvents, List.mem_append, List.mem_map, List.mem_filter, beq_iff_eq]
      exact .inr ⟨p, ⟨hp, hc⟩, rfl⟩
  · simp only [tickIds, List.mem_map, List.mem_filter, beq_iff_eq]
    constructor
    · rintro ⟨p', ⟨hp', hc⟩, he⟩
      rw [inj p hp p' hp' he.symm]; exact hc
    · intro hc; exact ⟨p, ⟨hp, hc⟩, rfl⟩

/-- `classify` in plain arithmetic -/
theorem classify_arith (fn : Nat) (msg : Trxd.TxMsg) (m : Int) (hm : msg.fn = some m) :
    (classify fn msg = .emit ↔ m = fn) ∧
    (classify fn msg = .stale ↔ m ≠ fn ∧ ((fn : Int) - m) % 2715648 < 1357824) ∧
    (classify fn msg = .wait ↔ m ≠ fn ∧ ((fn : Int) - m) % 2715648 ≥ 1357824) := by
  rw [classify_spec, hm]
  simp only [verdict]
  by_cases h1 : m = (fn : Int)
  · simp [h1]
  · by_cases h2 : ((fn : Int) - m) % 2715648 < 1357824
    · simp [h1, h2]
    · simp [h1, h2]; omega

/-- a tick that completes, seen from a running transceiver `j` -/
theorem ghost_tick_complete (w0 : World) (ops : List Op) (j : Nat) (h0 : queueOf w0 j = []) {fn : Nat}
    (hr : (run w0 ops).1.clkRunning = true) (hs : (run w0 ops).1.clkSrc = some fn)
    (hrun : runningOf (run w0 ops).1 j = true) (hx : (step (run w0 ops).1 .tick).exc = none) :
    ghost w0 (ops ++ [Op.tick]) j =
      ⟨tickIds fn ((ghost w0 ops j).ids.zip (queueOf (run w0 ops).1 j)),
       (ghost w0 ops j).log ++ tickEvents fn ((ghost w0 ops j).ids.zip (queueOf (run w0 ops).1 j))⟩ ∧
    queueOf (run w0 (ops ++ [Op.tick])).1 j = waitPart fn (queueOf (run w0 ops).1 j) ∧
    (run w0 (ops ++ [Op.tick])).1.clkSrc = some ((fn + 1) % Gen.World.hyperframe) := by
  have hq := tick_complete_queue hr hs hx j
  have hq1 : queueOf (step (run w0 ops).1 .tick).world j = waitPart fn (queueOf (run w0 ops).1 j) := by
    have := hq.1
    simp only [tickedQueue, hrun, if_true] at this
    exact this
  refine ⟨?_, by rw [run_snoc]; exact hq1, by rw [run_snoc]; exact hq.2⟩
  rw [ghost_snoc]
  exact ghostStep_tick_running (ghost_inv w0 ops j h0).lock hs hq1

theorem mem_zip_after_tick {fn : Nat} {ids : List Nat} {q : List Trxd.TxMsg} (hl : ids.length = q.length)
    {p : Nat × Trxd.TxMsg} (hp : p ∈ ids.zip q) (hc : classify fn p.2 = .wait) :
    p ∈ (tickIds fn (ids.zip q)).zip (waitPart fn q) := by
  have hsnd : ((ids.zip q).filter (fun p => classify fn p.2 == .wait)).map Prod.snd = waitPart fn q :=
    zip_filter_snd (fun m => classify fn m == .wait) ids q hl
  rw [← hsnd, tickIds, zip_map_fst_snd, List.mem_filter]
  exact ⟨hp, by rw [hc]; rfl⟩

/-- a completed tick seen from the queued message `p` of the running transceiver `j` -/
theorem ghost_tick_msg (w0 : World) (ops : List Op) (j : Nat) (h0 : queueOf w0 j = []) {fn : Nat}
    (hr : (run w0 ops).1.clkRunning = true) (hs : (run w0 ops).1.clkSrc = some fn)
    (hrun : runningOf (run w0 ops).1 j = true) (hx : (step (run w0 ops).1 .tick).exc = none)
    {p : Nat × Trxd.TxMsg} (hp : p ∈ (ghost w0 ops j).ids.zip (queueOf (run w0 ops).1 j)) :
    (Event.emitted p.1 fn ∈ (ghost w0 (ops ++ [Op.tick]) j).log ↔ classify fn p.2 = .emit) ∧
    (Event.stale p.1 fn ∈ (ghost w0 (ops ++ [Op.tick]) j).log ↔ classify fn p.2 = .stale) ∧
    (p.1 ∈ (ghost w0 (ops ++ [Op.tick]) j).ids ↔ classify fn p.2 = .wait) ∧
    (classify fn p.2 = .wait →
      p ∈ (ghost w0 (ops ++ [Op.tick]) j).ids.zip (queueOf (run w0 (ops ++ [Op.tick])).1 j)) := by
  obtain ⟨hg, hq, -⟩ := ghost_tick_complete w0 ops j h0 hr hs hrun hx
  have hinv := ghost_inv w0 ops j h0
  obtain ⟨h1, h2, h3⟩ := hinv.tick_outcome fn hp
  rw [hg, hq]
  exact ⟨h1, h2, h3, mem_zip_after_tick hinv.lock hp⟩

/-- with at most one outcome per id, two outcome events of the same id are the same event -/
theorem outcome_event_unique {μ : Type} : ∀ (log : List (Event μ)), (outIds log).Nodup →
    ∀ e1 ∈ log, ∀ e2 ∈ log, ∀ id, e1.outId? = some id → e2.outId? = some id → e1 = e2 := by
  intro log
  induction log with
  | nil => intro _ e1 h1; cases h1
  | cons e l ih =>
    intro hnd e1 h1 e2 h2 id ho1 ho2
    have hmem : ∀ e' ∈ l, e'.outId? = some id → id ∈ outIds l :=
      fun e' he' ho => List.mem_filterMap.mpr ⟨e', he', ho⟩
    have hnd' : (outIds l).Nodup := by
      unfold outIds at hnd ⊢
      rw [List.filterMap_cons] at hnd
      split at hnd
      · exact hnd
      · exact (List.nodup_cons.mp hnd).2
    rcases List.mem_cons.mp h1 with rfl | h1' <;> rcases List.mem_cons.mp h2 with rfl | h2'
    · rfl
    · exfalso
      unfold outIds at hnd
      rw [List.filterMap_cons, ho1] at hnd
      exact (List.nodup_cons.mp hnd).1 (hmem e2 h2' ho2)
    · exfalso
      unfold outIds at hnd
      rw [List.filterMap_cons, ho2] at hnd
      exact (List.nodup_cons.mp hnd).1 (hmem e1 h1' ho1)
    · exact ih hnd' e1 h1' e2 h2' id ho1 ho2

/-! ### liveness while the transceiver stays powered on -/

/-- the clock keeps running, transceiver `j` stays powered on, the clock is not adjusted (no jumps)
and no exception leaves a tick, throughout the history `ops` from `w` -/
def Steady (j : Nat) : World → List Op → Prop
  | w, [] => w.clkRunning = true ∧ runningOf w j = true
  | w, op :: ops => w.clkRunning = true ∧ runningOf w j = true ∧ (∀ fn, op ≠ .jump fn) ∧
      (op = .tick → (step w op).exc = none) ∧ Steady j (step w op).world ops

/-- number of ticks in a history -/
def ticks : List Op → Nat
  | [] => 0
  | .tick :: ops => ticks ops + 1
  | _ :: ops => ticks ops

theorem Steady.head {j : Nat} {w : World} {ops : List Op} (h : Steady j w ops) :
    w.clkRunning = true ∧ runningOf w j = true := by
  cases ops with
  | nil => exact h
  | cons op ops => exact ⟨h.1, h.2.1⟩

/-- a queued message is still queued (same id) after a data datagram to any transceiver -/
theorem ghost_data_mem (w0 : World) (ops : List Op) (j : Nat) (h0 : queueOf w0 j = []) (i : Nat) (d : List Nat)
    {p : Nat × Trxd.TxMsg} (hp : p ∈ (ghost w0 ops j).ids.zip (queueOf (run w0 ops).1 j)) :
    p ∈ (ghost w0 (ops ++ [Op.data i d]) j).ids.zip (queueOf (run w0 (ops ++ [Op.data i d])).1 j) := by
  have hl := (ghost_inv w0 ops j h0).lock
  rw [ghost_snoc, run_snoc]
  simp only [ghostStep, step]
  rcases (recvDataMsg_queue (run w0 ops).1 i d j).2 with ⟨hq, -⟩ | ⟨-, msg, -, hq⟩
  · rw [hq, List.drop_length]; exact hp
  · rw [hq, List.drop_left]
    simp only []
    rw [List.zip_append hl]
    exact List.mem_append_left _ hp

/-- a TRXC datagram after which `j` is (still) running leaves `j`'s queue and bookkeeping alone -/
theorem ghost_ctrl_running (w0 : World) (ops : List Op) (j : Nat) (i sp : Nat) (d : List Nat)
    (hrun : runningOf (run w0 (ops ++ [Op.ctrl i sp d])).1 j = true) :
    queueOf (run w0 (ops ++ [Op.ctrl i sp d])).1 j = queueOf (run w0 ops).1 j ∧
    ghost w0 (ops ++ [Op.ctrl i sp d]) j = ghost w0 ops j := by
  rw [run_snoc] at hrun ⊢
  have hq : queueOf (step (run w0 ops).1 (Op.ctrl i sp d)).world j = queueOf (run w0 ops).1 j := by
    rcases (step_ctrl_effect (run w0 ops).1 i sp d).cases j with ⟨hq, -⟩ | ⟨hq, -⟩ | ⟨-, hr⟩
    · exact hq
    · exact hq
    · rw [hr] at hrun; cases hrun
  refine ⟨hq, ?_⟩
  rw [ghost_snoc]
  simp only [ghostStep, hq]
  rw [if_neg (fun hh => hh.2 hh.1)]


theorem hyperframe_eq : Gen.World.hyperframe = 2715648 := rfl

/-- A burst for frame `m` that is due or still ahead (cyclically) at clock `c` is emitted at the tick
with frame number `m`, which is the `((m − c) mod 2715648) + 1`-th tick from now. -/
theorem resolve_future (w0 : World) (j : Nat) (h0 : queueOf w0 j = []) (p : Nat × Trxd.TxMsg) (m : Nat)
    (hm : p.2.fn = some (m : Int)) (hmH : m < 2715648) :
    ∀ (ops2 ops : List Op) (c : Nat), Steady j (run w0 ops).1 ops2 →
      p ∈ (ghost w0 ops j).ids.zip (queueOf (run w0 ops).1 j) →
      (run w0 ops).1.clkSrc = some c → c < 2715648 →
      (m = c ∨ ((c : Int) - m) % 2715648 ≥ 1357824) →
      ticks ops2 ≥ (((m : Int) - c) % 2715648).toNat + 1 →
      Event.emitted p.1 m ∈ (ghost w0 (ops ++ ops2) j).log := by
  intro ops2
  induction ops2 with
  | nil => intro ops c _ _ _ _ _ ht; simp [ticks] at ht
  | cons op ops2 ih =>
    intro ops c hst hp hc hcH hfut ht
    obtain ⟨hr, hrun, hnj, hx, hst'⟩ := hst
    rw [show ops ++ op :: ops2 = (ops ++ [op]) ++ ops2 by simp]
    rw [← run_snoc] at hst'
    cases op with
    | data i d =>
      refine ih (ops ++ [Op.data i d]) c hst' (ghost_data_mem w0 ops j h0 i d hp) ?_ hcH hfut ht
      rw [run_snoc, (step_data_clk _ i d).1]; exact hc
    | ctrl i sp d =>
      obtain ⟨hq, hg⟩ := ghost_ctrl_running w0 ops j i sp d hst'.head.2
      refine ih (ops ++ [Op.ctrl i sp d]) c hst' (by rw [hq, hg]; exact hp) ?_ hcH hfut ht
      rw [run_snoc]
      rcases step_ctrl_clk (run w0 ops).1 i sp d with h | ⟨h, -⟩
      · rw [h]; exact hc
      · rw [hr] at h; cases h
    | jump fn => exact absurd rfl (hnj fn)
    | tick =>
      have hx' := hx rfl
      obtain ⟨e1, -, -, e4⟩ := ghost_tick_msg w0 ops j h0 hr hc hrun hx' hp
      obtain ⟨c1, -, c3⟩ := classify_arith c p.2 m hm
      by_cases hmc : m = c
      · exact ghost_log_mono w0 _ ops2 j (hmc ▸ e1.mpr (c1.mpr (by rw [hmc])))
      · have hfut' : ((c : Int) - m) % 2715648 ≥ 1357824 := by
          rcases hfut with h | h
          · exact absurd h hmc
          · exact h
        have hw : classify c p.2 = .wait := c3.mpr ⟨by omega, hfut'⟩
        have hclk := (ghost_tick_complete w0 ops j h0 hr hc hrun hx').2.2
        rw [hyperframe_eq] at hclk
        simp only [ticks] at ht
        refine ih (ops ++ [Op.tick]) ((c + 1) % 2715648) hst' (e4 hw) hclk (Nat.mod_lt _ (by decide)) ?_ ?_
        · omega
        · omega

/-- A burst whose frame has passed at clock `c` is reported stale at the very next tick. -/
theorem resolve_passed (w0 : World) (j : Nat) (h0 : queueOf w0 j = []) (p : Nat × Trxd.TxMsg) (m : Int)
    (hm : p.2.fn = some m) :
    ∀ (ops2 ops : List Op) (c : Nat), Steady j (run w0 ops).1 ops2 →
      p ∈ (ghost w0 ops j).ids.zip (queueOf (run w0 ops).1 j) →
      (run w0 ops).1.clkSrc = some c →
      (m ≠ c ∧ ((c : Int) - m) % 2715648 < 1357824) →
      ticks ops2 ≥ 1 →
      Event.stale p.1 c ∈ (ghost w0 (ops ++ ops2) j).log := by
  intro ops2
  induction ops2 with
  | nil => intro ops c _ _ _ _ ht; simp [ticks] at ht
  | cons op ops2 ih =>
    intro ops c hst hp hc hpas ht
    obtain ⟨hr, hrun, hnj, hx, hst'⟩ := hst
    rw [show ops ++ op :: ops2 = (ops ++ [op]) ++ ops2 by simp]
    rw [← run_snoc] at hst'
    cases op with
    | data i d =>
      refine ih (ops ++ [Op.data i d]) c hst' (ghost_data_mem w0 ops j h0 i d hp) ?_ hpas ht
      rw [run_snoc, (step_data_clk _ i d).1]; exact hc
    | ctrl i sp d =>
      obtain ⟨hq, hg⟩ := ghost_ctrl_running w0 ops j i sp d hst'.head.2
      refine ih (ops ++ [Op.ctrl i sp d]) c hst' (by rw [hq, hg]; exact hp) ?_ hpas ht
      rw [run_snoc]
      rcases step_ctrl_clk (run w0 ops).1 i sp d with h | ⟨h, -⟩
      · rw [h]; exact hc
      · rw [hr] at h; cases h
    | jump fn => exact absurd rfl (hnj fn)
    | tick =>
      obtain ⟨-, e2, -, -⟩ := ghost_tick_msg w0 ops j h0 hr hc hrun (hx rfl) hp
      obtain ⟨-, c2, -⟩ := classify_arith c p.2 m hm
      exact ghost_log_mono w0 _ ops2 j (e2.mpr (c2.mpr hpas))

/-- A burst with an out-of-range frame number `m ≥ 2715648` can never be due; it is reported stale
at the latest at the tick whose frame number is `m mod 2715648`. -/
theorem resolve_out_of_range (w0 : World) (j : Nat) (h0 : queueOf w0 j = []) (p : Nat × Trxd.TxMsg) (m : Int)
    (hm : p.2.fn = some m) (hmH : m ≥ 2715648) :
    ∀ (ops2 ops : List Op) (c : Nat), Steady j (run w0 ops).1 ops2 →
      p ∈ (ghost w0 ops j).ids.zip (queueOf (run w0 ops).1 j) →
      (run w0 ops).1.clkSrc = some c → c < 2715648 →
      ticks ops2 ≥ ((m - c) % 2715648).toNat + 1 →
      ∃ fn : Nat, fn < 2715648 ∧ Event.stale p.1 fn ∈ (ghost w0 (ops ++ ops2) j).log := by
  intro ops2
  induction ops2 with
  | nil => intro ops c _ _ _ _ ht; simp [ticks] at ht
  | cons op ops2 ih =>
    intro ops c hst hp hc hcH ht
    obtain ⟨hr, hrun, hnj, hx, hst'⟩ := hst
    rw [show ops ++ op :: ops2 = (ops ++ [op]) ++ ops2 by simp]
    rw [← run_snoc] at hst'
    cases op with
    | data i d =>
      refine ih (ops ++ [Op.data i d]) c hst' (ghost_data_mem w0 ops j h0 i d hp) ?_ hcH ht
      rw [run_snoc, (step_data_clk _ i d).1]; exact hc
    | ctrl i sp d =>
      obtain ⟨hq, hg⟩ := ghost_ctrl_running w0 ops j i sp d hst'.head.2
      refine ih (ops ++ [Op.ctrl i sp d]) c hst' (by rw [hq, hg]; exact hp) ?_ hcH ht
      rw [run_snoc]
      rcases step_ctrl_clk (run w0 ops).1 i sp d with h | ⟨h, -⟩
      · rw [h]; exact hc
      · rw [hr] at h; cases h
    | jump fn => exact absurd rfl (hnj fn)
    | tick =>
      have hx' := hx rfl
      obtain ⟨-, e2, -, e4⟩ := ghost_tick_msg w0 ops j h0 hr hc hrun hx' hp
      obtain ⟨-, c2, c3⟩ := classify_arith c p.2 m hm
      by_cases hpas : ((c : Int) - m) % 2715648 < 1357824
      · exact ⟨c, hcH, ghost_log_mono w0 _ ops2 j (e2.mpr (c2.mpr ⟨by omega, hpas⟩))⟩
      · have hw : classify c p.2 = .wait := c3.mpr ⟨by omega, by omega⟩
        have hclk := (ghost_tick_complete w0 ops j h0 hr hc hrun hx').2.2
        rw [hyperframe_eq] at hclk
        simp only [ticks] at ht
        refine ih (ops ++ [Op.tick]) ((c + 1) % 2715648) hst' (e4 hw) hclk (Nat.mod_lt _ (by decide)) ?_
        omega

/-- every accepted message carries a frame number (any value the four octets encode) -/
theorem parseMsg_fn {data : List Nat} {msg : Trxd.TxMsg} (h : Trxd.TxMsg.parseMsg data = .ok msg) :
    ∃ fn : Nat, msg.fn = some (fn : Int) := by
  simp only [Trxd.TxMsg.parseMsg, bind, Except.bind, pure, Except.pure, throw, throwThe,
    MonadExceptOf.throw] at h
  repeat' split at h
  all_goals first
    | (cases h; done)
    | (cases h; exact ⟨_, rfl⟩)

/-- is this a stale report? -/
def isStaleEv : Ev → Bool
  | .stale _ _ => true
  | _ => false

theorem countP_stale_tickEvents (fn : Nat) (ids : List Nat) (q : List Trxd.TxMsg) (hl : ids.length = q.length) :
    (tickEvents fn (ids.zip q)).countP isStaleEv = (q.filter (fun m => classify fn m == .stale)).length := by
  have h := zip_filter_snd (fun m => classify fn m == .stale) ids q hl
  rw [← h, List.length_map]
  unfold tickEvents
  rw [List.countP_append, List.countP_map, List.countP_map]
  have e1 : (isStaleEv ∘ fun p : Nat × Trxd.TxMsg => Event.emitted p.1 fn) = fun _ => false := rfl
  have e2 : (isStaleEv ∘ fun p : Nat × Trxd.TxMsg => Event.stale p.1 fn) = fun _ => true := rfl
  rw [e1, e2]
  simp

/-! ### concrete worlds for the non-vacuity examples of Props/C03 -/

/-- two running, tuned transceivers (BTS side and MS side), clock generator running at frame `c` -/
def demoWorld (c : Nat) : World :=
  { trxs := [
      { addr := 1, basePort := 5700, childIdx := 0, childMgt := true, hasClock := true,
        running := true, rxFreq := some 890000000, txFreq := some 935000000 },
      { addr := 2, basePort := 6700, childIdx := 0, childMgt := false, hasClock := true,
        running := true, rxFreq := some 935000000, txFreq := some 890000000 }],
    clkLinks := [0, 1], clkRunning := true, clkSrc := some c }

/-- a version-0 L1→TRX datagram: header (ver/tn, FN big-endian, power) and 148 hard bits -/
def demoBurst (fn : Nat) : List Nat :=
  [0, fn / 16777216 % 256, fn / 65536 % 256, fn / 256 % 256, fn % 256, 10] ++ List.replicate 148 1

/-- the message `demoBurst fn` parses to -/
def demoMsg (fn : Nat) : Trxd.TxMsg := ⟨0, some fn, some 0, some 10, some (List.replicate 148 1)⟩

/-- three bursts to transceiver 0: one due at frame 100, one whose frame has passed, one ahead -/
def demoArrivals : List Op := [.data 0 (demoBurst 100), .data 0 (demoBurst 90), .data 0 (demoBurst 110)]

/-- the TRXC datagram `CMD POWEROFF` -/
def demoPoweroff : List Nat := PyStr.encodeUtf8 (PyStr.lit "CMD POWEROFF\x00")
/-- the TRXC datagram `CMD SETFORMAT 1` -/
def demoSetformat1 : List Nat := PyStr.encodeUtf8 (PyStr.lit "CMD SETFORMAT 1\x00")

end OsmoVerif.World
