/-
Helper lemmas for C06 (serial link framing): receiver over octet streams, transmitter versus the
wire format, queue discipline versus `Spec.pick`, and the simulation between the model
(`World`) and the abstract link (`Spec.Link`).
-/
import OsmoVerif.Model.Sercomm
import OsmoVerif.Spec.Sercomm

namespace OsmoVerif.Sercomm
open OsmoVerif.Gen.Sercomm OsmoVerif.Spec.Sercomm

/-! ### the regenerated constants are the protocol's -/

theorem flag_eq : hdlcFlag = 0x7E := by decide
theorem escape_eq : hdlcEscape = 0x7D := by decide
theorem cui_eq : hdlcCUi = 0x03 := by decide
theorem txXor_eq : txEscXor = 0x20 := by decide
theorem rxXor_eq : rxEscXor = 0x20 := by decide

/-! ### escaping -/

theorem special_iff (c : Nat) : special c = true ↔ c = 0x7E ∨ c = 0x7D ∨ c = 0x00 := by
  simp [special, or_assoc]

theorem special_false_iff (c : Nat) : special c = false ↔ c ≠ 0x7E ∧ c ≠ 0x7D ∧ c ≠ 0x00 := by
  simp [special, and_assoc]

theorem needsEscape_eq (c : Nat) : needsEscape c = special c := by
  simp [needsEscape, special, flag_eq, escape_eq]

theorem esc_nil : esc [] = [] := rfl
theorem esc_cons (x : Nat) (xs : List Nat) : esc (x :: xs) = esc1 x ++ esc xs := by
  simp [esc]
theorem esc_append (xs ys : List Nat) : esc (xs ++ ys) = esc xs ++ esc ys := by
  simp [esc]

theorem esc1_ne_nil (x : Nat) : esc1 x ≠ [] := by
  unfold esc1; split <;> simp

/-- no flag and no zero octet between the flags of a frame -/
theorem esc1_clean (x : Nat) : ∀ c ∈ esc1 x, c ≠ 0x7E ∧ c ≠ 0x00 := by
  intro c hc
  unfold esc1 at hc
  split at hc
  · rename_i h
    rcases (special_iff x).1 h with h | h | h <;> subst h <;> simp at hc <;> rcases hc with hc | hc <;> subst hc <;> decide
  · rename_i h
    simp at hc; subst hc
    have := (special_false_iff c).1 (by simpa using h)
    omega

theorem esc_clean (xs : List Nat) : ∀ c ∈ esc xs, c ≠ 0x7E ∧ c ≠ 0x00 := by
  intro c hc
  simp only [esc, List.mem_flatMap] at hc
  obtain ⟨x, _, hx⟩ := hc
  exact esc1_clean x c hx

theorem esc_noflag (xs : List Nat) : ∀ c ∈ esc xs, c ≠ 0x7E := fun c hc => (esc_clean xs c hc).1

theorem esc1_transparent {d : Nat} (h : Transparent d) : esc1 d = [d] := by
  have : special d = false := by
    cases hs : special d
    · rfl
    · rcases (special_iff d).1 hs with h' | h' | h' <;> simp [Transparent] at h <;> omega
  simp [esc1, this]

theorem esc1_three : esc1 0x03 = [0x03] := by decide

/-! ### receiver -/

def bufOf : Option Buf → Buf
  | some b => b
  | none => []

theorem rxChar_norm (c : RxCfg) (m : Option Buf) (st : St) (d k : Nat) (a : Bool) (ch : Nat) :
    rxChar c ⟨m, st, d, k, a⟩ ch = rxChar c ⟨some (bufOf m), st, d, k, a⟩ ch := by
  cases m <;> rfl

theorem feed_norm (c : RxCfg) (m : Option Buf) (st : St) (d k : Nat) (a : Bool) (xs : List Nat) :
    feed c ⟨m, st, d, k, a⟩ xs = feed c ⟨some (bufOf m), st, d, k, a⟩ xs ∨ xs = [] := by
  cases xs with
  | nil => right; rfl
  | cons x xs => left; simp only [feed]; rw [rxChar_norm]

theorem feed_append (c : RxCfg) (r : Rx) (xs ys : List Nat) :
    feed c r (xs ++ ys) =
      ((feed c (feed c r xs).1 ys).1, (feed c r xs).2 ++ (feed c (feed c r xs).1 ys).2) := by
  induction xs generalizing r with
  | nil => simp [feed]
  | cons x xs ih =>
    simp only [List.cons_append, feed]
    rw [ih]
    simp [List.append_assoc]

theorem feed_cons (c : RxCfg) (r : Rx) (x : Nat) (xs : List Nat) :
    feed c r (x :: xs) =
      ((feed c (rxChar c r x).1 xs).1, (rxChar c r x).2 ++ (feed c (rxChar c r x).1 xs).2) := rfl

theorem feed_nil (c : RxCfg) (r : Rx) : feed c r [] = (r, []) := rfl

variable (c : RxCfg)

theorem rx_wait_noflag (b : Buf) (d k : Nat) (a : Bool) (ch : Nat) (hb : b.length ≠ c.cap) (h : ch ≠ 0x7E) :
    rxChar c ⟨some b, .waitStart, d, k, a⟩ ch = (⟨some b, .waitStart, d, k, a⟩, []) := by
  simp [rxChar, hb, flag_eq, h]

theorem rx_wait_flag (b : Buf) (d k : Nat) (a : Bool) (hb : b.length ≠ c.cap) :
    rxChar c ⟨some b, .waitStart, d, k, a⟩ 0x7E = (⟨some b, .addr, d, k, a⟩, []) := by
  simp [rxChar, hb, flag_eq]

theorem rx_addr (b : Buf) (d k : Nat) (a : Bool) (ch : Nat) (hb : b.length ≠ c.cap) :
    rxChar c ⟨some b, .addr, d, k, a⟩ ch = (⟨some b, .ctrl, ch, k, a⟩, []) := by
  simp [rxChar, hb]

theorem rx_ctrl (b : Buf) (d k : Nat) (a : Bool) (ch : Nat) (hb : b.length ≠ c.cap) :
    rxChar c ⟨some b, .ctrl, d, k, a⟩ ch = (⟨some b, .data, d, ch, a⟩, []) := by
  simp [rxChar, hb]

theorem rx_data_plain (b : Buf) (d k : Nat) (a : Bool) (ch : Nat) (hb : b.length < c.cap)
    (h1 : ch ≠ 0x7E) (h2 : ch ≠ 0x7D) :
    rxChar c ⟨some b, .data, d, k, a⟩ ch = (⟨some (b ++ [ch]), .data, d, k, a⟩, []) := by
  have hb' : b.length ≠ c.cap := by omega
  simp [rxChar, hb', flag_eq, escape_eq, h1, h2, msgbPut, hb]

theorem rx_data_esc (b : Buf) (d k : Nat) (a : Bool) (hb : b.length ≠ c.cap) :
    rxChar c ⟨some b, .data, d, k, a⟩ 0x7D = (⟨some b, .escape, d, k, a⟩, []) := by
  simp [rxChar, hb, escape_eq]

theorem rx_data_flag (b : Buf) (d k : Nat) (a : Bool) (hb : b.length ≠ c.cap) :
    rxChar c ⟨some b, .data, d, k, a⟩ 0x7E = (⟨none, .waitStart, d, k, a⟩, dispatch c d b) := by
  simp [rxChar, hb, escape_eq, flag_eq]

theorem rx_escape (b : Buf) (d k : Nat) (a : Bool) (ch : Nat) (hb : b.length < c.cap) :
    rxChar c ⟨some b, .escape, d, k, a⟩ ch = (⟨some (b ++ [u8 (ch ^^^ 0x20)]), .data, d, k, a⟩, []) := by
  have hb' : b.length ≠ c.cap := by omega
  simp [rxChar, hb', msgbPut, hb, rxXor_eq]

theorem rx_full (b : Buf) (st : St) (d k : Nat) (a : Bool) (ch : Nat) (hb : b.length = c.cap) :
    rxChar c ⟨some b, st, d, k, a⟩ ch = (⟨some [], .waitStart, d, k, a⟩, [.overflow]) := by
  simp [rxChar, hb]

variable (c : RxCfg)

/-- flag-free octets are ignored while waiting for a frame -/
theorem feed_wait_noise (d k : Nat) (a : Bool) (ns : List Nat) (hc : 0 < c.cap)
    (h : ∀ x ∈ ns, x ≠ 0x7E) :
    feed c ⟨some [], .waitStart, d, k, a⟩ ns = (⟨some [], .waitStart, d, k, a⟩, []) := by
  induction ns with
  | nil => rfl
  | cons x xs ih =>
    rw [feed_cons, rx_wait_noflag c [] d k a x (by simp; omega) (h x (by simp))]
    simp only []
    rw [ih (fun y hy => h y (by simp [hy]))]
    rfl

theorem unesc_special (x : Nat) (h : special x = true) : u8 ((x ^^^ 0x20) ^^^ 0x20) = x := by
  rcases (special_iff x).1 h with h | h | h <;> subst h <;> decide

/-- data phase: the escaped form of `p` appends `p` to the buffer -/
theorem feed_data_esc (b : Buf) (d k : Nat) (a : Bool) (p : List Nat)
    (h : b.length + p.length ≤ c.cap) :
    feed c ⟨some b, .data, d, k, a⟩ (esc p) = (⟨some (b ++ p), .data, d, k, a⟩, []) := by
  induction p generalizing b with
  | nil => simp [esc_nil, feed_nil]
  | cons x xs ih =>
    have hb : b.length < c.cap := by simp at h; omega
    have hb' : b.length ≠ c.cap := by omega
    rw [esc_cons, feed_append]
    have step : feed c ⟨some b, .data, d, k, a⟩ (esc1 x) = (⟨some (b ++ [x]), .data, d, k, a⟩, []) := by
      unfold esc1
      split
      · rename_i hs
        rw [feed_cons, rx_data_esc c b d k a hb']
        simp only []
        rw [feed_cons, rx_escape c b d k a _ hb, unesc_special x hs]
        rfl
      · rename_i hs
        have := (special_false_iff x).1 (by simpa using hs)
        rw [feed_cons, rx_data_plain c b d k a x hb this.1 this.2.1]
        rfl
    rw [step]
    simp only []
    rw [ih (b ++ [x]) (by simp at h ⊢; omega)]
    simp

/-- with a full buffer the next octet resets the receiver; the rest of the frame is skipped and
its closing flag is taken for an opening flag -/
theorem feed_full_rest (b : Buf) (st : St) (d k : Nat) (a : Bool) (x : Nat) (w : List Nat)
    (hc : 0 < c.cap) (hb : b.length = c.cap) (hw : ∀ y ∈ w, y ≠ 0x7E) :
    feed c ⟨some b, st, d, k, a⟩ (x :: w ++ [0x7E]) = (⟨some [], .addr, d, k, a⟩, [.overflow]) := by
  rw [List.cons_append, feed_cons, rx_full c b st d k a x hb]
  simp only []
  rw [feed_append, feed_wait_noise c d k a w hc hw]
  simp only []
  rw [feed_cons, rx_wait_flag c [] d k a (by simp; omega)]
  rfl

/-- data phase followed by the closing flag, payload fits -/
theorem feed_data_close_fit (b : Buf) (d k : Nat) (a : Bool) (p : List Nat)
    (h : b.length + p.length < c.cap) :
    feed c ⟨some b, .data, d, k, a⟩ (esc p ++ [0x7E]) = (⟨none, .waitStart, d, k, a⟩, dispatch c d (b ++ p)) := by
  rw [feed_append, feed_data_esc c b d k a p (by omega)]
  simp only []
  rw [feed_cons, rx_data_flag c (b ++ p) d k a (by simp; omega)]
  simp [feed_nil]

/-- … payload exactly fills the buffer: dropped at the closing flag, alignment kept -/
theorem feed_data_close_exact (b : Buf) (d k : Nat) (a : Bool) (p : List Nat)
    (h : b.length + p.length = c.cap) :
    feed c ⟨some b, .data, d, k, a⟩ (esc p ++ [0x7E]) = (⟨some [], .waitStart, d, k, a⟩, [.overflow]) := by
  rw [feed_append, feed_data_esc c b d k a p (by omega)]
  simp only []
  rw [feed_cons, rx_full c (b ++ p) .data d k a _ (by simp; omega)]
  simp [feed_nil]

/-- … payload does not fit: dropped, alignment lost -/
theorem feed_data_close_over (b : Buf) (d k : Nat) (a : Bool) (p : List Nat) (hc : 0 < c.cap)
    (hb : b.length ≤ c.cap) (h : b.length + p.length > c.cap) :
    feed c ⟨some b, .data, d, k, a⟩ (esc p ++ [0x7E]) = (⟨some [], .addr, d, k, a⟩, [.overflow]) := by
  have hp : p = p.take (c.cap - b.length) ++ p.drop (c.cap - b.length) := (List.take_append_drop _ _).symm
  generalize hp1 : p.take (c.cap - b.length) = p1 at hp
  generalize hp2 : p.drop (c.cap - b.length) = p2 at hp
  have l1 : p1.length = c.cap - b.length := by rw [← hp1, List.length_take]; omega
  have l2 : p2 ≠ [] := by
    intro e; have : p2.length = 0 := by simp [e]
    rw [← hp2, List.length_drop] at this; omega
  obtain ⟨y, ys, rfl⟩ := List.exists_cons_of_ne_nil l2
  rw [hp, esc_append, List.append_assoc, feed_append, feed_data_esc c b d k a p1 (by omega)]
  simp only []
  rw [esc_cons]
  obtain ⟨z, zs, hz⟩ := List.exists_cons_of_ne_nil (esc1_ne_nil y)
  rw [hz]
  have := feed_full_rest c (b ++ p1) .data d k a z (zs ++ esc ys) hc (by simp; omega) (by
    intro q hq
    rcases List.mem_append.1 hq with hq | hq
    · exact (esc1_clean y q (by rw [hz]; simp [hq])).1
    · exact esc_noflag ys q hq)
  simp only [List.cons_append, List.append_assoc] at this ⊢
  rw [this]
  simp

/-! ### whole frames through the receiver -/

theorem frame_transparent (m : Msg) (ht : Transparent m.dlci) :
    frame m = 0x7E :: m.dlci :: 0x03 :: (esc m.payload ++ [0x7E]) := by
  simp [frame, body, esc_cons, esc1_transparent ht, esc1_three]

/-- aligned receiver (`WAIT_START`, empty buffer): header of a frame -/
theorem feed_sync_header (c : RxCfg) (mb : Option Buf) (d0 k0 : Nat) (a : Bool) (d : Nat) (rest : List Nat)
    (hc : 0 < c.cap) (hm : bufOf mb = []) :
    feed c ⟨mb, .waitStart, d0, k0, a⟩ (0x7E :: d :: 0x03 :: rest) =
      feed c ⟨some [], .data, d, 0x03, a⟩ rest := by
  have h0 : ([] : Buf).length ≠ c.cap := by simp; omega
  rw [feed_cons, rxChar_norm, hm, rx_wait_flag c [] d0 k0 a h0]
  simp only []
  rw [feed_cons, rx_addr c [] d0 k0 a d h0]
  simp only []
  rw [feed_cons, rx_ctrl c [] d k0 a 3 h0]
  simp

/-- receiver out of alignment (`ADDR`, empty buffer): the opening flag is taken as address, the
address as control octet, the control octet as first payload octet -/
theorem feed_desync_header (c : RxCfg) (mb : Option Buf) (d0 k0 : Nat) (a : Bool) (d : Nat) (rest : List Nat)
    (hc : 0 < c.cap) (hm : bufOf mb = []) :
    feed c ⟨mb, .addr, d0, k0, a⟩ (0x7E :: d :: rest) =
      feed c ⟨some [], .data, 0x7E, d, a⟩ rest := by
  have h0 : ([] : Buf).length ≠ c.cap := by simp; omega
  rw [feed_cons, rxChar_norm, hm, rx_addr c [] d0 k0 a _ h0]
  simp only []
  rw [feed_cons, rx_ctrl c [] _ k0 a d h0]
  simp

variable (c : RxCfg) (mb : Option Buf) (d0 k0 : Nat) (a : Bool) (m : Msg)

theorem frame_sync_fit (hc : 0 < c.cap) (hm : bufOf mb = []) (ht : Transparent m.dlci)
    (hl : m.payload.length < c.cap) :
    feed c ⟨mb, .waitStart, d0, k0, a⟩ (frame m) =
      (⟨none, .waitStart, m.dlci, 0x03, a⟩, dispatch c m.dlci m.payload) := by
  rw [frame_transparent m ht, feed_sync_header c mb d0 k0 a _ _ hc hm,
    feed_data_close_fit c [] _ _ a m.payload (by simpa using hl)]
  simp

theorem frame_sync_exact (hc : 0 < c.cap) (hm : bufOf mb = []) (ht : Transparent m.dlci)
    (hl : m.payload.length = c.cap) :
    feed c ⟨mb, .waitStart, d0, k0, a⟩ (frame m) =
      (⟨some [], .waitStart, m.dlci, 0x03, a⟩, [.overflow]) := by
  rw [frame_transparent m ht, feed_sync_header c mb d0 k0 a _ _ hc hm,
    feed_data_close_exact c [] _ _ a m.payload (by simpa using hl)]

theorem frame_sync_over (hc : 0 < c.cap) (hm : bufOf mb = []) (ht : Transparent m.dlci)
    (hl : m.payload.length > c.cap) :
    feed c ⟨mb, .waitStart, d0, k0, a⟩ (frame m) =
      (⟨some [], .addr, m.dlci, 0x03, a⟩, [.overflow]) := by
  rw [frame_transparent m ht, feed_sync_header c mb d0 k0 a _ _ hc hm,
    feed_data_close_over c [] _ _ a m.payload hc (by simp) (by simpa using hl)]

theorem esc_three_cons (p : List Nat) : 0x03 :: esc p = esc (0x03 :: p) := by
  rw [esc_cons, esc1_three]; rfl

theorem frame_desync_fit (hc : 0 < c.cap) (hm : bufOf mb = []) (ht : Transparent m.dlci)
    (hl : m.payload.length + 1 < c.cap) :
    feed c ⟨mb, .addr, d0, k0, a⟩ (frame m) =
      (⟨none, .waitStart, 0x7E, m.dlci, a⟩, dispatch c 0x7E (0x03 :: m.payload)) := by
  rw [frame_transparent m ht, feed_desync_header c mb d0 k0 a _ _ hc hm]
  rw [← List.cons_append, esc_three_cons,
    feed_data_close_fit c [] _ _ a (0x03 :: m.payload) (by simpa using hl)]
  simp

theorem frame_desync_exact (hc : 0 < c.cap) (hm : bufOf mb = []) (ht : Transparent m.dlci)
    (hl : m.payload.length + 1 = c.cap) :
    feed c ⟨mb, .addr, d0, k0, a⟩ (frame m) =
      (⟨some [], .waitStart, 0x7E, m.dlci, a⟩, [.overflow]) := by
  rw [frame_transparent m ht, feed_desync_header c mb d0 k0 a _ _ hc hm]
  rw [← List.cons_append, esc_three_cons,
    feed_data_close_exact c [] _ _ a (0x03 :: m.payload) (by simpa using hl)]

theorem frame_desync_over (hc : 0 < c.cap) (hm : bufOf mb = []) (ht : Transparent m.dlci)
    (hl : m.payload.length + 1 > c.cap) :
    feed c ⟨mb, .addr, d0, k0, a⟩ (frame m) =
      (⟨some [], .addr, 0x7E, m.dlci, a⟩, [.overflow]) := by
  rw [frame_transparent m ht, feed_desync_header c mb d0 k0 a _ _ hc hm]
  rw [← List.cons_append, esc_three_cons,
    feed_data_close_over c [] _ _ a (0x03 :: m.payload) hc (by simp) (by simpa using hl)]

/-! ### transmitter versus the wire format -/

/-- the octets the transmitter will still emit for the message it is sending -/
def TxWire (t : Tx) (todo : List Nat) : Prop :=
  ∃ rest, t.msg = some rest ∧
    ((t.state ≠ .escape ∧ todo = esc rest ++ [0x7E]) ∨
     (t.state = .escape ∧ ∃ x tl, rest = x :: tl ∧ todo = x :: (esc tl ++ [0x7E])))

theorem txEsc_special (x : Nat) (h : special x = true) : u8 (x ^^^ txEscXor) = x ^^^ 0x20 := by
  rcases (special_iff x).1 h with h | h | h <;> subst h <;> decide

/-- one pull while a message is in transmission: the next octet of the wire format -/
theorem pull_txwire (t : Tx) (ch : Nat) (todo : List Nat) (h : TxWire t (ch :: todo)) :
    ∃ t', pull t = (t', .octet ch) ∧ t'.queues = t.queues ∧
      (todo = [] → t'.msg = none ∧ t'.state ≠ .escape) ∧ (todo ≠ [] → TxWire t' todo) := by
  obtain ⟨rest, hmsg, h⟩ := h
  rcases h with ⟨hst, htodo⟩ | ⟨hst, x, tl, hrest, htodo⟩
  · cases rest with
    | nil =>
      simp [esc_nil] at htodo
      obtain ⟨rfl, rfl⟩ := htodo
      refine ⟨{ t with msg := none }, ?_, rfl, ?_, ?_⟩
      · simp [pull, hmsg, hst, flag_eq]
      · intro _; exact ⟨rfl, hst⟩
      · intro h; exact absurd rfl h
    | cons x tl =>
      rw [esc_cons] at htodo
      by_cases hs : special x = true
      · have he : esc1 x = [0x7D, x ^^^ 0x20] := by simp [esc1, hs]
        rw [he] at htodo
        simp at htodo
        obtain ⟨rfl, rfl⟩ := htodo
        refine ⟨{ t with msg := some (u8 (x ^^^ txEscXor) :: tl), state := .escape }, ?_, rfl, ?_, ?_⟩
        · simp [pull, hmsg, hst, needsEscape_eq, hs, escape_eq]
        · intro h; simp at h
        · intro _
          exact ⟨_, rfl, Or.inr ⟨rfl, _, _, rfl, by rw [txEsc_special x hs]⟩⟩
      · have hs' : special x = false := by simpa using hs
        have he : esc1 x = [x] := by simp [esc1, hs']
        rw [he] at htodo
        simp at htodo
        obtain ⟨rfl, rfl⟩ := htodo
        refine ⟨{ t with msg := some tl }, ?_, rfl, ?_, ?_⟩
        · simp [pull, hmsg, hst, needsEscape_eq, hs']
        · intro h; simp at h
        · intro _
          exact ⟨_, rfl, Or.inl ⟨hst, rfl⟩⟩
  · subst hrest
    simp at htodo
    obtain ⟨rfl, rfl⟩ := htodo
    refine ⟨{ t with msg := some tl, state := .data }, ?_, rfl, ?_, ?_⟩
    · simp [pull, hmsg, hst]
    · intro h; simp at h
    · intro _
      exact ⟨_, rfl, Or.inl ⟨by simp, rfl⟩⟩

/-- the octets of the wire format are never the flag, except the last -/
theorem txwire_start (t : Tx) (b : Buf) (h : t.msg = some b) (hs : t.state ≠ .escape) :
    TxWire t (esc b ++ [0x7E]) := ⟨b, h, Or.inl ⟨hs, rfl⟩⟩

/-! ### queue discipline -/

/-- the msgb contents `sercomm_sendmsg` queues for a message -/
def txBody (m : Msg) : Buf := m.dlci :: hdlcCUi :: m.payload

theorem txBody_eq (m : Msg) : txBody m = body m := by simp [txBody, body, cui_eq]

def ofDlci (d : Nat) (ms : List Msg) : List Msg := ms.filter (fun m => m.dlci == d)

theorem dequeueFirst_none (qs : List (List Buf)) (h : ∀ q ∈ qs, q = []) : dequeueFirst qs = none := by
  induction qs with
  | nil => rfl
  | cons q qs ih =>
    have : q = [] := h q (by simp)
    subst this
    simp [dequeueFirst, ih (fun q hq => h q (by simp [hq]))]

theorem dequeueFirst_at (qs : List (List Buf)) (i : Nat) (x : Buf) (q : List Buf)
    (hlt : ∀ j, j < i → qs[j]? = some []) (hi : qs[i]? = some (x :: q)) :
    dequeueFirst qs = some (x, qs.set i q) := by
  induction qs generalizing i with
  | nil => simp at hi
  | cons q0 qs ih =>
    cases i with
    | zero =>
      simp at hi
      subst hi
      simp [dequeueFirst]
    | succ i =>
      have h0 : q0 = [] := by simpa using hlt 0 (by omega)
      subst h0
      have := ih i (fun j hj => by simpa using hlt (j + 1) (by omega)) (by simpa using hi)
      simp [dequeueFirst, this]

theorem minDlci_none (ms : List Msg) : minDlci ms = none ↔ ms = [] := by
  cases ms with
  | nil => simp [minDlci]
  | cons m ms => simp only [minDlci]; split <;> simp

theorem minDlci_le (ms : List Msg) (d : Nat) (h : minDlci ms = some d) : ∀ x ∈ ms, d ≤ x.dlci := by
  induction ms generalizing d with
  | nil => simp
  | cons m ms ih =>
    simp only [minDlci] at h
    split at h
    · rename_i hn
      have := (minDlci_none ms).1 hn
      subst this
      simp at h ⊢; omega
    · rename_i d' hd'
      simp at h
      intro x hx
      rcases List.mem_cons.1 hx with rfl | hx
      · omega
      · have := ih d' hd' x hx; omega

theorem minDlci_mem (ms : List Msg) (d : Nat) (h : minDlci ms = some d) : ∃ x ∈ ms, x.dlci = d := by
  induction ms generalizing d with
  | nil => simp [minDlci] at h
  | cons m ms ih =>
    simp only [minDlci] at h
    split at h
    · simp at h; exact ⟨m, by simp, h⟩
    · rename_i d' hd'
      simp at h
      by_cases hle : m.dlci ≤ d'
      · exact ⟨m, by simp, by omega⟩
      · obtain ⟨x, hx, hxd⟩ := ih d' hd'
        exact ⟨x, by simp [hx], by omega⟩

theorem removeFirst_spec (d : Nat) (ms : List Msg) (h : ∃ x ∈ ms, x.dlci = d) :
    ∃ m rest, removeFirst d ms = some (m, rest) ∧ m.dlci = d ∧
      ofDlci d ms = m :: ofDlci d rest ∧ (∀ d', d' ≠ d → ofDlci d' rest = ofDlci d' ms) ∧
      (∀ x ∈ rest, x ∈ ms) ∧ m ∈ ms := by
  induction ms with
  | nil => simp at h
  | cons a ms ih =>
    by_cases ha : a.dlci = d
    · refine ⟨a, ms, by simp [removeFirst, ha], ha, by simp [ofDlci, ha], ?_, ?_, by simp⟩
      · intro d' hd'
        have : (a.dlci == d') = false := by simp; omega
        simp [ofDlci, this]
      · intro x hx; simp [hx]
    · obtain ⟨x, hx, hxd⟩ := h
      have hx' : x ∈ ms := by
        rcases List.mem_cons.1 hx with rfl | hx
        · exact absurd hxd ha
        · exact hx
      obtain ⟨m, rest, hr, hm, hf, ho, hsub, hmem⟩ := ih ⟨x, hx', hxd⟩
      refine ⟨m, a :: rest, by simp [removeFirst, ha, hr], hm, ?_, ?_, ?_, by simp [hmem]⟩
      · have : (a.dlci == d) = false := by simp [ha]
        simp only [ofDlci, List.filter_cons, this] at hf ⊢
        simpa using hf
      · intro d' hd'
        have := ho d' hd'
        simp only [ofDlci, List.filter_cons] at this ⊢
        rw [this]
      · intro y hy
        rcases List.mem_cons.1 hy with rfl | hy
        · simp
        · simp [hsub y hy]

/-- the queues of the transmitter hold, per DLCI, the waiting messages of the abstract link -/
def QueuesMatch (nq : Nat) (qs : List (List Buf)) (pending : List Msg) : Prop :=
  qs.length = nq ∧ ∀ d, d < nq → qs[d]? = some ((ofDlci d pending).map txBody)

theorem ofDlci_nil_of_lt (ms : List Msg) (d j : Nat) (h : ∀ x ∈ ms, d ≤ x.dlci) (hj : j < d) :
    ofDlci j ms = [] := by
  simp only [ofDlci, List.filter_eq_nil_iff]
  intro x hx
  have := h x hx
  simp; omega

/-- the dequeue loop takes what `Spec.pick` takes -/
theorem dequeue_pick (nq : Nat) (qs : List (List Buf)) (pending : List Msg)
    (hq : QueuesMatch nq qs pending) (hd : ∀ x ∈ pending, x.dlci < nq) :
    (pick pending = none ∧ dequeueFirst qs = none) ∨
    (∃ m rest qs', pick pending = some (m, rest) ∧ dequeueFirst qs = some (txBody m, qs') ∧
      QueuesMatch nq qs' rest ∧ m ∈ pending ∧ ∀ x ∈ rest, x ∈ pending) := by
  cases hmin : minDlci pending with
  | none =>
    left
    have hp := (minDlci_none pending).1 hmin
    subst hp
    refine ⟨by simp [pick, minDlci], dequeueFirst_none qs ?_⟩
    intro q hq'
    obtain ⟨i, hi, rfl⟩ := List.getElem_of_mem hq'
    have := hq.2 i (by rw [← hq.1]; exact hi)
    simp [ofDlci] at this
    rw [List.getElem?_eq_getElem hi] at this
    simpa using this
  | some d =>
    right
    obtain ⟨m, rest, hr, hm, hf, ho, hsub, hmem⟩ := removeFirst_spec d pending (minDlci_mem pending d hmin)
    have hdn : d < nq := by rw [← hm]; exact hd m hmem
    refine ⟨m, rest, qs.set d ((ofDlci d rest).map txBody), by simp [pick, hmin, hr], ?_, ?_, hmem, hsub⟩
    · apply dequeueFirst_at
      · intro j hj
        rw [hq.2 j (by omega), ofDlci_nil_of_lt pending d j (minDlci_le pending d hmin) hj]
        rfl
      · rw [hq.2 d hdn, hf]; rfl
    · refine ⟨by simp [hq.1], ?_⟩
      intro d' hd'
      rw [List.getElem?_set]
      by_cases e : d = d'
      · subst e; simp [hq.1, hdn]
      · simp [e]
        rw [hq.2 d' hd', ho d' (by omega)]

theorem queues_send (nq : Nat) (qs : List (List Buf)) (pending : List Msg) (m : Msg)
    (hq : QueuesMatch nq qs pending) :
    QueuesMatch nq (qs.modify m.dlci (· ++ [txBody m])) (pending ++ [m]) := by
  refine ⟨by simp [hq.1], ?_⟩
  intro d hd
  rw [List.getElem?_modify, hq.2 d hd]
  by_cases e : m.dlci = d
  · simp [e, ofDlci, List.filter_append]
  · have : (m.dlci == d) = false := by simp [e]
    simp [e, ofDlci, List.filter_append, this]

theorem queues_init (nq : Nat) : QueuesMatch nq (Tx.init nq).queues [] := by
  refine ⟨by simp [Tx.init], ?_⟩
  intro d hd
  simp [Tx.init, hd, ofDlci]

/-! ### invariants of the receiver over arbitrary octets -/

/-- memory safety of the receive buffer: never more than `cap` octets stored, `msgb_put` never
called without tailroom -/
def RxInv (cap : Nat) (r : Rx) : Prop := r.len ≤ cap ∧ r.abort = false

theorem rxChar_inv (c : RxCfg) (r : Rx) (ch : Nat) (h : RxInv c.cap r) : RxInv c.cap (rxChar c r ch).1 := by
  obtain ⟨mb, st, d, k, a⟩ := r
  obtain ⟨hl, ha⟩ := h
  simp only at ha; subst ha
  rw [rxChar_norm]
  have hl' : (bufOf mb).length ≤ c.cap := by cases mb <;> simp_all [Rx.len, bufOf]
  generalize bufOf mb = b at hl'
  by_cases hf : b.length = c.cap
  · rw [rx_full c b st d _ _ ch hf]; simp [RxInv, Rx.len]
  · have hlt : b.length < c.cap := by omega
    cases st with
    | waitStart =>
      by_cases e : ch = 0x7E
      · subst e; rw [rx_wait_flag c b d _ _ hf]; simp [RxInv, Rx.len, hl']
      · rw [rx_wait_noflag c b d _ _ ch hf e]; simp [RxInv, Rx.len, hl']
    | addr => rw [rx_addr c b d _ _ ch hf]; simp [RxInv, Rx.len, hl']
    | ctrl => rw [rx_ctrl c b d _ _ ch hf]; simp [RxInv, Rx.len, hl']
    | data =>
      by_cases e : ch = 0x7E
      · subst e; rw [rx_data_flag c b d _ _ hf]; simp [RxInv, Rx.len]
      · by_cases e2 : ch = 0x7D
        · subst e2; rw [rx_data_esc c b d _ _ hf]; simp [RxInv, Rx.len, hl']
        · rw [rx_data_plain c b d _ _ ch hlt e e2]; simp [RxInv, Rx.len]; omega
    | escape => rw [rx_escape c b d _ _ ch hlt]; simp [RxInv, Rx.len]; omega

theorem feed_inv (c : RxCfg) (r : Rx) (xs : List Nat) (h : RxInv c.cap r) : RxInv c.cap (feed c r xs).1 := by
  induction xs generalizing r with
  | nil => exact h
  | cons x xs ih => rw [feed_cons]; exact ih _ (rxChar_inv c r x h)

/-- the callbacks among receiver events -/
def evDeliveries : List Ev → List (Nat × Buf)
  | [] => []
  | .deliver d p :: es => (d, p) :: evDeliveries es
  | .overflow :: es => evDeliveries es

theorem evDeliveries_append (xs ys : List Ev) : evDeliveries (xs ++ ys) = evDeliveries xs ++ evDeliveries ys := by
  induction xs with
  | nil => rfl
  | cons x xs ih => cases x <;> simp [evDeliveries, ih]

/-- a handler is only ever called on a flag octet -/
theorem rxChar_noflag_nodeliver (c : RxCfg) (r : Rx) (ch : Nat) (h : ch ≠ 0x7E) :
    evDeliveries (rxChar c r ch).2 = [] := by
  obtain ⟨mb, st, d, k, a⟩ := r
  rw [rxChar_norm]
  generalize bufOf mb = b
  by_cases hf : b.length = c.cap
  · rw [rx_full c b st d _ _ ch hf]; rfl
  · cases st with
    | waitStart => rw [rx_wait_noflag c b d _ _ ch hf h]; rfl
    | addr => rw [rx_addr c b d _ _ ch hf]; rfl
    | ctrl => rw [rx_ctrl c b d _ _ ch hf]; rfl
    | data =>
      simp only [rxChar, hf, if_false, flag_eq, h]
      split
      · rfl
      · split <;> rfl
    | escape =>
      simp only [rxChar, hf, if_false]
      split <;> rfl

theorem feed_noflag_nodeliver (c : RxCfg) (r : Rx) (xs : List Nat) (h : ∀ x ∈ xs, x ≠ 0x7E) :
    evDeliveries (feed c r xs).2 = [] := by
  induction xs generalizing r with
  | nil => rfl
  | cons x xs ih =>
    rw [feed_cons, evDeliveries_append, rxChar_noflag_nodeliver c r x (h x (by simp)),
      ih _ (fun y hy => h y (by simp [hy]))]
    rfl

/-- receiver between frames: aligned (`WAIT_START`) or, after an over-long frame, one flag ahead (`ADDR`) -/
def RxAt (desync : Bool) (r : Rx) : Prop :=
  bufOf r.msg = [] ∧ r.state = (if desync then St.addr else St.waitStart)

theorem rxChar_open_flag (c : RxCfg) (r : Rx) (ds : Bool) (hc : 0 < c.cap) (h : RxAt ds r) :
    (rxChar c r 0x7E).2 = [] := by
  obtain ⟨mb, st, d, k, a⟩ := r
  obtain ⟨hb, hs⟩ := h
  simp only at hb hs
  have h0 : ([] : Buf).length ≠ c.cap := by simp; omega
  rw [rxChar_norm, hb, hs]
  cases ds
  · simp only [Bool.false_eq_true, if_false]; rw [rx_wait_flag c [] d k a h0]
  · simp only [if_true]; rw [rx_addr c [] d k a _ h0]

/-- flag-free noise into an aligned receiver: nothing happens -/
theorem rxChar_wait_noise (c : RxCfg) (r : Rx) (x : Nat) (hc : 0 < c.cap) (h : RxAt false r) (hx : x ≠ 0x7E) :
    RxAt false (rxChar c r x).1 ∧ (rxChar c r x).2 = [] := by
  obtain ⟨mb, st, d, k, a⟩ := r
  obtain ⟨hb, hs⟩ := h
  simp only [Bool.false_eq_true, if_false] at hb hs
  have h0 : ([] : Buf).length ≠ c.cap := by simp; omega
  rw [rxChar_norm, hb, hs, rx_wait_noflag c [] d k a x h0 hx]
  exact ⟨⟨rfl, rfl⟩, rfl⟩

/-! ### what a complete frame does to the receiver, in the terms of `Spec.Link.complete` -/

def completeDesync (cap : Nat) (desync : Bool) (m : Msg) : Bool :=
  if desync then decide (m.payload.length ≥ cap)
  else if m.payload.length < cap then false else decide (m.payload.length > cap)

def completeDelivers (cap : Nat) (desync : Bool) (m : Msg) : Bool :=
  !desync && decide (m.payload.length < cap)

theorem complete_eq (cap : Nat) (s : Link) (m : Msg) :
    Link.complete cap s m =
      { s with cur := none, desync := completeDesync cap s.desync m, completed := s.completed ++ [m],
               delivered := if completeDelivers cap s.desync m then s.delivered ++ [m] else s.delivered } := by
  unfold Link.complete completeDesync completeDelivers
  cases hd : s.desync
  · by_cases hl : m.payload.length < cap
    · simp [hl]
    · simp [hl]
  · simp

theorem frame_outcome (c : RxCfg) (hc : 0 < c.cap) (h7e : c.reg 0x7E = false) (r0 : Rx) (ds : Bool)
    (hr : RxAt ds r0) (m : Msg) (ht : Transparent m.dlci) (hreg : c.reg m.dlci = true) (hnh : m.dlci < c.nh) :
    RxAt (completeDesync c.cap ds m) (feed c r0 (frame m)).1 ∧
    evDeliveries (feed c r0 (frame m)).2 =
      (if completeDelivers c.cap ds m then [(m.dlci, m.payload)] else []) := by
  obtain ⟨mb, st, d0, k0, a⟩ := r0
  obtain ⟨hb, hs⟩ := hr
  simp only at hb hs
  subst hs
  cases ds
  · simp only [Bool.false_eq_true, if_false]
    rcases Nat.lt_trichotomy m.payload.length c.cap with hl | hl | hl
    · rw [frame_sync_fit c mb d0 k0 a m hc hb ht hl]
      have : ¬ (c.nh ≤ m.dlci) := by omega
      simp [RxAt, bufOf, completeDesync, completeDelivers, hl, dispatch, hreg, this, evDeliveries]
    · rw [frame_sync_exact c mb d0 k0 a m hc hb ht hl]
      simp [RxAt, bufOf, completeDesync, completeDelivers, hl, evDeliveries]
    · rw [frame_sync_over c mb d0 k0 a m hc hb ht hl]
      have : ¬ m.payload.length < c.cap := by omega
      simp [RxAt, bufOf, completeDesync, completeDelivers, hl, this, evDeliveries]
  · simp only [if_true]
    rcases Nat.lt_trichotomy (m.payload.length + 1) c.cap with hl | hl | hl
    · rw [frame_desync_fit c mb d0 k0 a m hc hb ht hl]
      have : ¬ (c.cap ≤ m.payload.length) := by omega
      simp [RxAt, bufOf, completeDesync, completeDelivers, this, dispatch, h7e, evDeliveries]
    · rw [frame_desync_exact c mb d0 k0 a m hc hb ht hl]
      have : ¬ (c.cap ≤ m.payload.length) := by omega
      simp [RxAt, bufOf, completeDesync, completeDelivers, this, evDeliveries]
    · rw [frame_desync_over c mb d0 k0 a m hc hb ht hl]
      have : c.cap ≤ m.payload.length := by omega
      simp [RxAt, bufOf, completeDesync, completeDelivers, this, evDeliveries]

/-! ### observations -/

theorem deliveries_append (xs ys : List Obs) : deliveries (xs ++ ys) = deliveries xs ++ deliveries ys := by
  induction xs with
  | nil => rfl
  | cons x xs ih =>
    cases x with
    | ev e => cases e <;> simp [deliveries, ih]
    | _ => simp [deliveries, ih]

theorem pulledOctets_append (xs ys : List Obs) : pulledOctets (xs ++ ys) = pulledOctets xs ++ pulledOctets ys := by
  induction xs with
  | nil => rfl
  | cons x xs ih => cases x <;> simp [pulledOctets, ih]

theorem deliveries_ev (es : List Ev) : deliveries (es.map Obs.ev) = evDeliveries es := by
  induction es with
  | nil => rfl
  | cons e es ih => cases e <;> simp [deliveries, evDeliveries, ih]

theorem pulledOctets_ev (es : List Ev) : pulledOctets (es.map Obs.ev) = [] := by
  induction es with
  | nil => rfl
  | cons e es ih => simp [pulledOctets, ih]

/-- callbacks that are not `sercomm_sendmsg` only get recorded -/
theorem applyEcho_noecho (c : Cfg) (w : World) (es : List Ev)
    (h : ∀ dp ∈ evDeliveries es, c.echo dp.1 = false) :
    applyEcho c w es = { w with trace := (es.map Obs.ev).reverse ++ w.trace } := by
  induction es generalizing w with
  | nil => simp [applyEcho]
  | cons e es ih =>
    cases e with
    | deliver d p =>
      have hd : c.echo d = false := h (d, p) (by simp [evDeliveries])
      simp only [applyEcho, hd, Bool.false_eq_true, if_false]
      rw [ih _ (fun dp hdp => h dp (by simp [evDeliveries, hdp]))]
      simp
    | overflow =>
      simp only [applyEcho]
      rw [ih _ (fun dp hdp => h dp (by simpa [evDeliveries] using hdp))]
      simp

/-! ### histories the partial theorem speaks about -/

/-- a DLCI a message may be sent on: inside both tables, a user handler registered, and transparent (F10) -/
def DlciOk (c : Cfg) (nq d : Nat) : Prop :=
  d < nq ∧ d < c.nh ∧ c.reg d = true ∧ c.echo d = false ∧ Transparent d

instance (c : Cfg) (nq d : Nat) : Decidable (DlciOk c nq d) := by unfold DlciOk; infer_instance

/-- the abstract link follows a history -/
def specStep (cap : Nat) (s : Link) : Op → Link
  | .send d p => s.send ⟨d, p⟩
  | .pull => s
  | .loop => s.octet cap
  | .rx _ => s

def specRun (cap : Nat) (s : Link) (ops : List Op) : Link := ops.foldl (specStep cap) s

/-- admissible operation: messages on usable DLCIs; every pulled octet reaches the receiver;
foreign octets only between frames, without the flag octet, and (F17) only while the receiver is
aligned -/
def opOk (c : Cfg) (nq : Nat) (s : Link) : Op → Prop
  | .send d _ => DlciOk c nq d
  | .pull => False
  | .loop => True
  | .rx ns => s.cur = none ∧ s.desync = false ∧ ∀ x ∈ ns, x ≠ 0x7E

def opsOk (c : Cfg) (nq : Nat) : Link → List Op → Prop
  | _, [] => True
  | s, op :: ops => opOk c nq s op ∧ opsOk c nq (specStep c.cap s op) ops

/-- configuration the partial theorem needs: a buffer of at least one octet and no handler on
DLCI 0x7E (one of the three addresses that do not travel transparently, F10: it is the address a
receiver that is one flag ahead reads) -/
def CfgOk (c : Cfg) : Prop := 0 < c.cap ∧ c.reg 0x7E = false

/-- simulation relation between the model and the abstract link -/
structure Sim (c : Cfg) (nq : Nat) (w : World) (s : Link) : Prop where
  nofault : w.fault = false
  rxinv : RxInv c.cap w.rx
  queues : QueuesMatch nq w.tx.queues s.pending
  pendOk : ∀ x ∈ s.pending, DlciOk c nq x.dlci
  deliv : deliveries w.obs = s.delivered.map (fun m => (m.dlci, m.payload))
  wire : pulledOctets w.obs = s.wire
  line : match s.cur with
    | none => w.tx.msg = none ∧ w.tx.state ≠ .escape ∧ RxAt s.desync w.rx
    | some (m, todo) => DlciOk c nq m.dlci ∧ TxWire w.tx todo ∧
        ∃ sent r0, sent ++ todo = esc (body m) ++ [0x7E] ∧ RxAt s.desync r0 ∧
          (feed c.toRxCfg r0 (0x7E :: sent)).1 = w.rx

theorem sim_init (c : Cfg) (nq : Nat) : Sim c nq (World.init nq) Link.init where
  nofault := rfl
  rxinv := by simp [RxInv, World.init, Rx.init, Rx.len]
  queues := queues_init nq
  pendOk := by simp [Link.init]
  deliv := rfl
  wire := rfl
  line := by simp [Link.init, World.init, Tx.init, Rx.init, RxAt, bufOf]

theorem sim_send (c : Cfg) (nq : Nat) (w : World) (s : Link) (d : Nat) (p : Buf)
    (h : Sim c nq w s) (hd : DlciOk c nq d) :
    Sim c nq (World.step c w (.send d p)) (s.send ⟨d, p⟩) := by
  have hlen : d < w.tx.queues.length := by rw [h.queues.1]; exact hd.1
  have hstep : World.step c w (.send d p) =
      { w with tx := { w.tx with queues := w.tx.queues.modify d (· ++ [txBody ⟨d, p⟩]) } } := by
    simp [World.step, sendmsg, hlen, txBody]
  rw [hstep]
  exact {
    nofault := h.nofault
    rxinv := h.rxinv
    queues := queues_send nq w.tx.queues s.pending ⟨d, p⟩ h.queues
    pendOk := by
      intro x hx
      simp only [Link.send, List.mem_append, List.mem_singleton] at hx
      rcases hx with hx | rfl
      · exact h.pendOk x hx
      · exact hd
    deliv := h.deliv
    wire := h.wire
    line := by
      have := h.line
      simp only [Link.send]
      cases hc : s.cur with
      | none => simp only [hc] at this; exact this
      | some mt =>
        obtain ⟨m, todo⟩ := mt
        simp only [hc] at this
        obtain ⟨h1, ⟨rest, hm, hw⟩, h3⟩ := this
        exact ⟨h1, ⟨rest, hm, hw⟩, h3⟩ }

theorem rxOctet_eq (c : Cfg) (w : World) (ch : Nat)
    (h : ∀ dp ∈ evDeliveries (rxChar c.toRxCfg w.rx ch).2, c.echo dp.1 = false) :
    World.rxOctet c w ch =
      { w with rx := (rxChar c.toRxCfg w.rx ch).1,
               trace := ((rxChar c.toRxCfg w.rx ch).2.map Obs.ev).reverse ++ w.trace } := by
  simp only [World.rxOctet]
  rw [applyEcho_noecho c _ _ h]

theorem obs_extend (w : World) (ch : Nat) (es : List Ev) (t : Tx) (r : Rx) :
    let w' : World := { tx := t, rx := r, trace := (es.map Obs.ev).reverse ++ Obs.pulled ch :: w.trace, fault := w.fault }
    deliveries w'.obs = deliveries w.obs ++ evDeliveries es ∧
    pulledOctets w'.obs = pulledOctets w.obs ++ [ch] := by
  simp only [World.obs, List.reverse_append, List.reverse_reverse, List.reverse_cons, List.append_assoc,
    deliveries_append, pulledOctets_append, deliveries_ev, pulledOctets_ev]
  simp [deliveries, pulledOctets]

theorem loop_octet (c : Cfg) (w : World) (t : Tx) (ch : Nat) (hp : pull w.tx = (t, .octet ch))
    (h : ∀ dp ∈ evDeliveries (rxChar c.toRxCfg w.rx ch).2, c.echo dp.1 = false) :
    World.step c w .loop =
      { tx := t, rx := (rxChar c.toRxCfg w.rx ch).1,
        trace := ((rxChar c.toRxCfg w.rx ch).2.map Obs.ev).reverse ++ Obs.pulled ch :: w.trace,
        fault := w.fault } := by
  simp only [World.step, hp]
  rw [rxOctet_eq c _ ch (by exact h)]

/-- foreign flag-free octets between frames, receiver aligned -/
theorem sim_noise (c : Cfg) (nq : Nat) (w : World) (s : Link) (ns : List Nat) (hc : CfgOk c)
    (h : Sim c nq w s) (hcur : s.cur = none) (hds : s.desync = false) (hns : ∀ x ∈ ns, x ≠ 0x7E) :
    Sim c nq (World.step c w (.rx ns)) s := by
  simp only [World.step]
  induction ns generalizing w with
  | nil => exact h
  | cons x xs ih =>
    simp only [List.foldl_cons]
    apply ih _ _ (fun y hy => hns y (by simp [hy]))
    have hl := h.line
    simp only [hcur, hds] at hl
    obtain ⟨h1, h2, h3⟩ := hl
    obtain ⟨hat, hev⟩ := rxChar_wait_noise c.toRxCfg w.rx x hc.1 h3 (hns x (by simp))
    rw [rxOctet_eq c w x (by rw [hev]; simp [evDeliveries]), hev]
    exact {
      nofault := h.nofault
      rxinv := rxChar_inv c.toRxCfg w.rx x h.rxinv
      queues := h.queues
      pendOk := h.pendOk
      deliv := by simpa [World.obs] using h.deliv
      wire := by simpa [World.obs] using h.wire
      line := by simp only [hcur, hds]; exact ⟨h1, h2, hat⟩ }

theorem txwire_ne_nil (t : Tx) (h : TxWire t []) : False := by
  obtain ⟨rest, _, h⟩ := h
  rcases h with ⟨_, h⟩ | ⟨_, x, tl, _, h⟩ <;> simp at h

theorem obs_pullEmpty (w : World) (t : Tx) :
    let w' : World := { w with tx := t, trace := Obs.pullEmpty :: w.trace }
    deliveries w'.obs = deliveries w.obs ∧ pulledOctets w'.obs = pulledOctets w.obs := by
  simp [World.obs, deliveries_append, pulledOctets_append, deliveries, pulledOctets]

/-- the line is free: the transmitter starts the frame `Spec.pick` chooses, or has nothing to send -/
theorem sim_loop_idle (c : Cfg) (nq : Nat) (w : World) (s : Link) (hc : CfgOk c)
    (h : Sim c nq w s) (hcur : s.cur = none) :
    Sim c nq (World.step c w .loop) (s.octet c.cap) := by
  have hl := h.line
  simp only [hcur] at hl
  obtain ⟨hmsg, hst, hat⟩ := hl
  rcases dequeue_pick nq w.tx.queues s.pending h.queues (fun x hx => (h.pendOk x hx).1) with
    ⟨hp, hdq⟩ | ⟨m, rest, qs', hp, hdq, hqm, hmem, hsub⟩
  · have hpull : pull w.tx = (w.tx, .empty) := by simp [pull, hmsg, hdq]
    have hstep : World.step c w .loop = { w with tx := w.tx, trace := Obs.pullEmpty :: w.trace } := by
      simp [World.step, hpull]
    have hspec : s.octet c.cap = s := by simp [Link.octet, hcur, hp]
    rw [hstep, hspec]
    have ho := obs_pullEmpty w w.tx
    exact {
      nofault := h.nofault
      rxinv := h.rxinv
      queues := h.queues
      pendOk := h.pendOk
      deliv := by rw [ho.1]; exact h.deliv
      wire := by rw [ho.2]; exact h.wire
      line := by simp only [hcur]; exact ⟨hmsg, hst, hat⟩ }
  · have hpull : pull w.tx = ({ w.tx with queues := qs', msg := some (txBody m) }, .octet 0x7E) := by
      simp [pull, hmsg, hdq, flag_eq]
    have hev : (rxChar c.toRxCfg w.rx 0x7E).2 = [] := rxChar_open_flag c.toRxCfg w.rx s.desync hc.1 hat
    have hstep := loop_octet c w _ 0x7E hpull (by rw [hev]; simp [evDeliveries])
    have hspec : s.octet c.cap =
        { s with pending := rest, cur := some (m, esc (body m) ++ [0x7E]), wire := s.wire ++ [0x7E] } := by
      simp [Link.octet, hcur, hp]
    rw [hstep, hspec, hev]
    have ho := obs_extend w 0x7E [] { w.tx with queues := qs', msg := some (txBody m) } (rxChar c.toRxCfg w.rx 0x7E).1
    simp only [List.map_nil, List.reverse_nil, List.nil_append] at ho ⊢
    exact {
      nofault := h.nofault
      rxinv := rxChar_inv c.toRxCfg w.rx _ h.rxinv
      queues := hqm
      pendOk := fun x hx => h.pendOk x (hsub x hx)
      deliv := by rw [ho.1]; simpa [evDeliveries] using h.deliv
      wire := by rw [ho.2, h.wire]
      line := by
        refine ⟨h.pendOk m hmem, ?_, [], w.rx, by simp, hat, ?_⟩
        · have := txwire_start { w.tx with queues := qs', msg := some (txBody m) } (txBody m) rfl hst
          rw [txBody_eq] at this
          exact this
        · simp [feed_cons, feed_nil] }

theorem feed_snoc_fst (c : RxCfg) (r : Rx) (xs : List Nat) (x : Nat) :
    (feed c r (xs ++ [x])).1 = (rxChar c (feed c r xs).1 x).1 := by
  rw [feed_append]; simp [feed_cons, feed_nil]

theorem feed_snoc_snd (c : RxCfg) (r : Rx) (xs : List Nat) (x : Nat) :
    (feed c r (xs ++ [x])).2 = (feed c r xs).2 ++ (rxChar c (feed c r xs).1 x).2 := by
  rw [feed_append]; simp [feed_cons, feed_nil]

theorem mem_of_split (sent todo e : List Nat) (ch f : Nat) (h : sent ++ ch :: todo = e ++ [f])
    (hne : todo ≠ []) : ch ∈ e := by
  have hlen := congrArg List.length h
  have ht : 0 < todo.length := List.length_pos_iff.2 hne
  simp at hlen
  have h1 : (sent ++ ch :: todo)[sent.length]? = some ch := by simp
  rw [h, List.getElem?_append_left (by omega)] at h1
  exact List.mem_of_getElem? h1

/-- a frame is on the line: its next octet goes over -/
theorem sim_loop_busy (c : Cfg) (nq : Nat) (w : World) (s : Link) (hc : CfgOk c)
    (h : Sim c nq w s) (m : Msg) (todo : List Nat) (hcur : s.cur = some (m, todo)) :
    Sim c nq (World.step c w .loop) (s.octet c.cap) := by
  have hl := h.line
  simp only [hcur] at hl
  obtain ⟨hok, htx, sent, r0, hsplit, hat, hfeed⟩ := hl
  cases todo with
  | nil => exact absurd htx (fun h => txwire_ne_nil _ h)
  | cons ch todo' =>
  obtain ⟨t', hpull, hq, hlast, hmore⟩ := pull_txwire w.tx ch todo' htx
  -- receiver after this octet
  have hrx : (feed c.toRxCfg r0 (0x7E :: (sent ++ [ch]))).1 = (rxChar c.toRxCfg w.rx ch).1 := by
    rw [← List.cons_append, feed_snoc_fst, hfeed]
  by_cases hlastq : todo' = []
  · -- closing flag
    subst hlastq
    have hsent : sent = esc (body m) ∧ ch = 0x7E := by
      have := List.append_inj' hsplit (by simp)
      exact ⟨this.1, by simpa using this.2⟩
    obtain ⟨hsent, hch⟩ := hsent
    subst hch
    have hframe : 0x7E :: (sent ++ [0x7E]) = frame m := by simp [frame, hsent]
    obtain ⟨hat', hdel⟩ := frame_outcome c.toRxCfg hc.1 hc.2 r0 s.desync hat m hok.2.2.2.2 hok.2.2.1 hok.2.1
    rw [← hframe] at hat' hdel
    have hes : evDeliveries (rxChar c.toRxCfg w.rx 0x7E).2 =
        (if completeDelivers c.cap s.desync m then [(m.dlci, m.payload)] else []) := by
      rw [← hdel, ← List.cons_append, feed_snoc_snd, evDeliveries_append, hfeed]
      have : evDeliveries (feed c.toRxCfg r0 (0x7E :: sent)).2 = [] := by
        rw [feed_cons, evDeliveries_append, rxChar_open_flag c.toRxCfg r0 s.desync hc.1 hat,
          feed_noflag_nodeliver _ _ sent (by rw [hsent]; exact esc_noflag _)]
        rfl
      rw [this]; rfl
    have hstep := loop_octet c w t' 0x7E hpull (by
      rw [hes]; intro dp hdp
      split at hdp
      · simp at hdp; subst hdp; exact hok.2.2.2.1
      · simp at hdp)
    have hspec : s.octet c.cap = Link.complete c.cap { s with wire := s.wire ++ [0x7E] } m := by
      simp [Link.octet, hcur]
    rw [hstep, hspec, complete_eq]
    have ho := obs_extend w 0x7E (rxChar c.toRxCfg w.rx 0x7E).2 t' (rxChar c.toRxCfg w.rx 0x7E).1
    simp only at ho
    obtain ⟨hm0, hs0⟩ := hlast rfl
    exact {
      nofault := h.nofault
      rxinv := rxChar_inv c.toRxCfg w.rx _ h.rxinv
      queues := by rw [hq]; exact h.queues
      pendOk := h.pendOk
      deliv := by
        rw [ho.1, hes, h.deliv]
        simp only []
        split <;> simp
      wire := by rw [ho.2, h.wire]
      line := by
        simp only []
        refine ⟨hm0, hs0, ?_⟩
        rw [← hrx]; exact hat' }
  · -- an octet inside the frame
    have hne : ch ≠ 0x7E := by
      have hmem : ch ∈ esc (body m) := mem_of_split sent todo' _ ch _ hsplit hlastq
      exact esc_noflag _ _ hmem
    have hes : evDeliveries (rxChar c.toRxCfg w.rx ch).2 = [] := rxChar_noflag_nodeliver _ _ _ hne
    have hstep := loop_octet c w t' ch hpull (by rw [hes]; simp)
    have hspec : s.octet c.cap = { s with cur := some (m, todo'), wire := s.wire ++ [ch] } := by
      simp [Link.octet, hcur, hlastq]
    rw [hstep, hspec]
    have ho := obs_extend w ch (rxChar c.toRxCfg w.rx ch).2 t' (rxChar c.toRxCfg w.rx ch).1
    simp only at ho
    exact {
      nofault := h.nofault
      rxinv := rxChar_inv c.toRxCfg w.rx _ h.rxinv
      queues := by rw [hq]; exact h.queues
      pendOk := h.pendOk
      deliv := by rw [ho.1, hes, h.deliv]; simp
      wire := by rw [ho.2, h.wire]
      line := by
        simp only []
        exact ⟨hok, hmore hlastq, sent ++ [ch], r0, by simpa using hsplit, hat, hrx⟩ }

theorem sim_step (c : Cfg) (nq : Nat) (w : World) (s : Link) (op : Op) (hc : CfgOk c)
    (h : Sim c nq w s) (hop : opOk c nq s op) :
    Sim c nq (World.step c w op) (specStep c.cap s op) := by
  cases op with
  | send d p => exact sim_send c nq w s d p h hop
  | pull => exact absurd hop (by simp [opOk])
  | loop =>
    simp only [specStep]
    cases hcur : s.cur with
    | none => exact sim_loop_idle c nq w s hc h hcur
    | some mt => exact sim_loop_busy c nq w s hc h mt.1 mt.2 hcur
  | rx ns =>
    obtain ⟨h1, h2, h3⟩ := hop
    exact sim_noise c nq w s ns hc h h1 h2 h3

theorem sim_run (c : Cfg) (nq : Nat) (w : World) (s : Link) (ops : List Op) (hc : CfgOk c)
    (h : Sim c nq w s) (hops : opsOk c nq s ops) :
    Sim c nq (World.run c w ops) (specRun c.cap s ops) := by
  induction ops generalizing w s with
  | nil => exact h
  | cons op ops ih =>
    simp only [World.run, specRun, List.foldl_cons]
    exact ih _ _ (sim_step c nq w s op hc h hops.1) hops.2

/-! ### what the abstract link guarantees (no model involved) -/

/-- the messages of the `send` operations of a history, in order -/
def sentMsgs : List Op → List Msg
  | [] => []
  | .send d p :: ops => ⟨d, p⟩ :: sentMsgs ops
  | _ :: ops => sentMsgs ops

theorem ofDlci_append (d : Nat) (xs ys : List Msg) : ofDlci d (xs ++ ys) = ofDlci d xs ++ ofDlci d ys := by
  simp [ofDlci, List.filter_append]

theorem pick_spec (pending : List Msg) (m : Msg) (rest : List Msg) (h : pick pending = some (m, rest)) :
    (∀ x ∈ pending, m.dlci ≤ x.dlci) ∧ m ∈ pending ∧
    ofDlci m.dlci pending = m :: ofDlci m.dlci rest ∧
    (∀ d, d ≠ m.dlci → ofDlci d rest = ofDlci d pending) ∧ (∀ x ∈ rest, x ∈ pending) := by
  unfold pick at h
  cases hmin : minDlci pending with
  | none => simp [hmin] at h
  | some d =>
    simp only [hmin] at h
    obtain ⟨m', rest', hr, hm, hf, ho, hsub, hmem⟩ := removeFirst_spec d pending (minDlci_mem pending d hmin)
    rw [hr] at h
    simp at h
    obtain ⟨rfl, rfl⟩ := h
    subst hm
    exact ⟨minDlci_le pending _ hmin, hmem, hf, ho, hsub⟩

theorem pick_none (pending : List Msg) : pick pending = none ↔ pending = [] := by
  unfold pick
  cases hmin : minDlci pending with
  | none => simp [(minDlci_none pending).1 hmin]
  | some d =>
    obtain ⟨m', rest', hr, _⟩ := removeFirst_spec d pending (minDlci_mem pending d hmin)
    simp [hr]
    intro e; subst e; simp [minDlci] at hmin

/-- history without over-long messages -/
def allShort (cap : Nat) : List Op → Prop
  | [] => True
  | .send _ p :: ops => p.length < cap ∧ allShort cap ops
  | _ :: ops => allShort cap ops

structure LinkInv (cap : Nat) (s : Link) (sent : List Msg) : Prop where
  aligned : s.desync = false
  short : ∀ m ∈ s.inflight ++ s.pending, m.payload.length < cap
  fifo : ∀ d, ofDlci d s.all = ofDlci d sent

theorem linkInv_octet (cap : Nat) (s : Link) (sent : List Msg) (h : LinkInv cap s sent) :
    LinkInv cap (s.octet cap) sent := by
  unfold Link.octet
  cases hcur : s.cur with
  | none =>
    simp only
    cases hp : pick s.pending with
    | none => simp only; exact h
    | some mr =>
      obtain ⟨m, rest⟩ := mr
      obtain ⟨_, hmem, hf, ho, hsub⟩ := pick_spec s.pending m rest hp
      simp only
      refine ⟨h.aligned, ?_, ?_⟩
      · intro x hx
        simp [Link.inflight] at hx
        apply h.short
        rcases hx with rfl | hx
        · simp [hmem]
        · simp [hsub x hx]
      · intro d
        have := h.fifo d
        simp only [Link.all, Link.inflight, hcur, ofDlci_append, List.append_nil] at this ⊢
        rw [← this]
        by_cases e : d = m.dlci
        · subst e; rw [hf]; simp [ofDlci]
        · have e' : (m.dlci == d) = false := by simp; omega
          rw [ho d e]; simp [ofDlci, e']
  | some mt =>
    obtain ⟨m, todo⟩ := mt
    cases todo with
    | nil => simp only; exact h
    | cons ch rest =>
      simp only
      split
      · rw [complete_eq]
        have hshort : m.payload.length < cap := h.short m (by simp [Link.inflight, hcur])
        have hal := h.aligned
        simp only [completeDesync, completeDelivers, hal, hshort, Bool.false_eq_true, if_false, if_true,
          Bool.not_false, Bool.true_and, decide_true]
        refine ⟨rfl, ?_, ?_⟩
        · intro x hx
          simp [Link.inflight] at hx
          exact h.short x (by simp [hx])
        · intro d
          have := h.fifo d
          simp only [Link.all, Link.inflight, hcur, ofDlci_append] at this ⊢
          rw [← this]; simp [ofDlci]
      · refine ⟨h.aligned, ?_, ?_⟩
        · intro x hx
          simp [Link.inflight] at hx
          exact h.short x (by simp [Link.inflight, hcur, hx])
        · intro d
          have := h.fifo d
          simp only [Link.all, Link.inflight, hcur, ofDlci_append] at this ⊢
          exact this

theorem linkInv_run (cap : Nat) (s : Link) (sent : List Msg) (ops : List Op) (h : LinkInv cap s sent)
    (hs : allShort cap ops) : LinkInv cap (specRun cap s ops) (sent ++ sentMsgs ops) := by
  induction ops generalizing s sent with
  | nil => simpa [specRun, sentMsgs] using h
  | cons op ops ih =>
    simp only [specRun, List.foldl_cons]
    cases op with
    | send d p =>
      have := ih (s.send ⟨d, p⟩) (sent ++ [⟨d, p⟩]) ?_ hs.2
      · simpa [sentMsgs, specRun, specStep] using this
      · refine ⟨h.aligned, ?_, ?_⟩
        · intro x hx
          simp [Link.send, Link.inflight] at hx
          rcases hx with hx | hx | rfl
          · exact h.short x (by simp [Link.inflight, hx])
          · exact h.short x (by simp [hx])
          · exact hs.1
        · intro d'
          have := h.fifo d'
          simp only [Link.all, Link.send, Link.inflight, ofDlci_append] at this ⊢
          rw [← this]; simp
    | pull => exact ih s sent h hs
    | loop => exact ih _ sent (linkInv_octet cap s sent h) hs
    | rx ns => exact ih s sent h hs

/-! ### progress: pulling drains the link -/

theorem removeFirst_sum (d : Nat) (ms : List Msg) (m : Msg) (rest : List Msg)
    (h : removeFirst d ms = some (m, rest)) (f : Msg → Nat) :
    (ms.map f).sum = f m + (rest.map f).sum := by
  induction ms generalizing rest with
  | nil => simp [removeFirst] at h
  | cons a ms ih =>
    simp only [removeFirst] at h
    split at h
    · simp at h; obtain ⟨rfl, rfl⟩ := h; simp
    · cases hr : removeFirst d ms with
      | none => simp [hr] at h
      | some xr =>
        obtain ⟨x, r⟩ := xr
        simp [hr] at h
        obtain ⟨rfl, rfl⟩ := h
        have := ih r hr
        simp [this]; omega

theorem octet_curOk (cap : Nat) (s : Link) (h : s.curOk) : (s.octet cap).curOk := by
  unfold Link.octet
  cases hcur : s.cur with
  | none =>
    simp only
    cases hp : pick s.pending with
    | none => simp only; exact h
    | some mr => intro m todo; simp only; intro e; simp at e; rw [← e.2]; simp
  | some mt =>
    obtain ⟨m, todo⟩ := mt
    cases todo with
    | nil => exact absurd rfl (h m [] hcur)
    | cons ch rest =>
      simp only
      split
      · rw [complete_eq]; intro m' todo'; simp
      · rename_i hne; intro m' todo'; simp only; intro e; simp at e; rw [← e.2]; exact hne

theorem octet_remaining (cap : Nat) (s : Link) (h : s.curOk) (hpos : 0 < s.remaining) :
    (s.octet cap).remaining + 1 = s.remaining := by
  unfold Link.octet
  cases hcur : s.cur with
  | none =>
    simp only
    cases hp : pick s.pending with
    | none =>
      have := (pick_none s.pending).1 hp
      simp [Link.remaining, hcur, this] at hpos
    | some mr =>
      obtain ⟨m, rest⟩ := mr
      simp only [Link.remaining, hcur]
      unfold pick at hp
      cases hmin : minDlci s.pending with
      | none => simp [hmin] at hp
      | some d =>
        simp only [hmin] at hp
        rw [removeFirst_sum d s.pending m rest hp]
        simp [frame]; omega
  | some mt =>
    obtain ⟨m, todo⟩ := mt
    cases todo with
    | nil => exact absurd rfl (h m [] hcur)
    | cons ch rest =>
      simp only
      split
      · rename_i hr; subst hr
        rw [complete_eq]; simp [Link.remaining, hcur]; omega
      · simp [Link.remaining, hcur]; omega

theorem remaining_zero (s : Link) (h : s.curOk) (hz : s.remaining = 0) : s.cur = none ∧ s.pending = [] := by
  cases hcur : s.cur with
  | some mt =>
    obtain ⟨m, todo⟩ := mt
    have := h m todo hcur
    simp [Link.remaining, hcur] at hz
    exact absurd hz.1 this
  | none =>
    refine ⟨rfl, ?_⟩
    cases hp : s.pending with
    | nil => rfl
    | cons a as => simp [Link.remaining, hcur, hp, frame] at hz

theorem drain (cap : Nat) (s : Link) (h : s.curOk) (n : Nat) (hn : s.remaining ≤ n) :
    let s' := specRun cap s (List.replicate n Op.loop)
    s'.cur = none ∧ s'.pending = [] := by
  induction n generalizing s with
  | zero => simpa [specRun] using remaining_zero s h (by omega)
  | succ n ih =>
    simp only [List.replicate_succ, specRun, List.foldl_cons, specStep]
    by_cases hz : s.remaining = 0
    · obtain ⟨hc, hp⟩ := remaining_zero s h hz
      have hfix : s.octet cap = s := by simp [Link.octet, hc, hp, pick, minDlci]
      rw [hfix]
      exact ih s h (by omega)
    · have := octet_remaining cap s h (by omega)
      exact ih _ (octet_curOk cap s h) (by omega)

theorem specStep_curOk (cap : Nat) (s : Link) (op : Op) (h : s.curOk) : (specStep cap s op).curOk := by
  cases op with
  | send d p => exact h
  | pull => exact h
  | loop => exact octet_curOk cap s h
  | rx ns => exact h

theorem specRun_curOk (cap : Nat) (s : Link) (ops : List Op) (h : s.curOk) : (specRun cap s ops).curOk := by
  induction ops generalizing s with
  | nil => exact h
  | cons op ops ih => exact ih _ (specStep_curOk cap s op h)

/-! ### pulling a whole frame -/

theorem pullN_idle (n : Nat) (t : Tx) (hm : t.msg = none) (hq : ∀ q ∈ t.queues, q = []) :
    pullN n t = (t, []) := by
  cases n with
  | zero => rfl
  | succ n => simp [pullN, pull, hm, dequeueFirst_none t.queues hq]

theorem pullN_txwire (todo : List Nat) (n : Nat) (t : Tx) (h : TxWire t todo)
    (hq : ∀ q ∈ t.queues, q = []) (hn : todo.length ≤ n) :
    ∃ t', pullN n t = (t', todo) ∧ t'.msg = none ∧ t'.state ≠ .escape ∧ t'.queues = t.queues := by
  induction todo generalizing n t with
  | nil => exact absurd h (fun h => txwire_ne_nil _ h)
  | cons ch todo ih =>
    cases n with
    | zero => simp at hn
    | succ n =>
      obtain ⟨t1, hp, hq1, hlast, hmore⟩ := pull_txwire t ch todo h
      by_cases e : todo = []
      · subst e
        obtain ⟨hm, hs⟩ := hlast rfl
        refine ⟨t1, ?_, hm, hs, hq1⟩
        simp [pullN, hp, pullN_idle n t1 hm (by rw [hq1]; exact hq)]
      · obtain ⟨t', hp', hm', hs', hq'⟩ := ih n t1 (hmore e) (by rw [hq1]; exact hq) (by simpa using hn)
        refine ⟨t', ?_, hm', hs', by rw [hq', hq1]⟩
        simp [pullN, hp, hp']

/-- the transmitter after `sercomm_init` and one `sercomm_sendmsg` -/
def txOne (nq : Nat) (m : Msg) : Tx :=
  { queues := (List.replicate nq []).modify m.dlci (· ++ [txBody m]), msg := none, state := .waitStart }

theorem sendmsg_init (nq : Nat) (m : Msg) (hd : m.dlci < nq) :
    sendmsg (Tx.init nq) m.dlci m.payload = some (txOne nq m) := by
  simp [sendmsg, Tx.init, hd, txOne, txBody]

/-- one message queued on an idle transmitter: pulling yields exactly its frame -/
theorem pull_one_frame (nq : Nat) (m : Msg) (hd : m.dlci < nq) (n : Nat) (hn : (frame m).length ≤ n) :
    ∃ t', pullN n (txOne nq m) = (t', frame m) ∧ t'.msg = none ∧ ∀ q ∈ t'.queues, q = [] := by
  have hq0 := queues_send nq (Tx.init nq).queues [] m (queues_init nq)
  simp only [List.nil_append] at hq0
  cases n with
  | zero => simp [frame] at hn
  | succ n =>
    rcases dequeue_pick nq _ [m] hq0 (by simpa using hd) with ⟨hp, _⟩ | ⟨m', rest, qs', hp, hdq, hqm, _, _⟩
    · simp [pick, minDlci, removeFirst] at hp
    · have : m' = m ∧ rest = [] := by
        simp [pick, minDlci, removeFirst] at hp; exact ⟨hp.1.symm, hp.2⟩
      obtain ⟨rfl, rfl⟩ := this
      have hempty : ∀ q ∈ qs', q = [] := by
        intro q hq
        obtain ⟨i, hi, rfl⟩ := List.getElem_of_mem hq
        have := hqm.2 i (by rw [← hqm.1]; exact hi)
        rw [List.getElem?_eq_getElem hi] at this
        simpa [ofDlci] using this
      let t1 : Tx := { queues := qs', msg := some (txBody m'), state := .waitStart }
      have hw : TxWire t1 (esc (body m') ++ [0x7E]) := by
        have := txwire_start t1 (txBody m') rfl (by simp [t1])
        rwa [txBody_eq] at this
      obtain ⟨t', hp', hm', _, hq'⟩ := pullN_txwire _ n t1 hw hempty (by simp [frame] at hn ⊢; omega)
      refine ⟨t', ?_, hm', by rw [hq']; exact hempty⟩
      have hpull : pull (txOne nq m') = (t1, .octet 0x7E) := by
        simp only [Tx.init] at hdq
        simp [pull, txOne, hdq, flag_eq, t1]
      simp [pullN, hpull, hp', frame]

/-! ### the octet stream of the abstract link is a sequence of frames -/

/-- the wire is the frames that passed, followed by the part of the current frame already sent -/
def WireInv (s : Link) : Prop :=
  ∃ part, s.wire = s.completed.flatMap frame ++ part ∧
    match s.cur with
    | none => part = []
    | some (m, todo) => part ++ todo = frame m ∧ todo ≠ []

theorem wireInv_octet (cap : Nat) (s : Link) (h : WireInv s) : WireInv (s.octet cap) := by
  obtain ⟨part, hw, hc⟩ := h
  unfold Link.octet
  cases hcur : s.cur with
  | none =>
    simp only [hcur] at hc
    subst hc
    simp only
    cases hp : pick s.pending with
    | none => simp only; exact ⟨[], hw, by simp [hcur]⟩
    | some mr =>
      obtain ⟨m, rest⟩ := mr
      simp only
      exact ⟨[0x7E], by simp [hw], by simp [frame]⟩
  | some mt =>
    obtain ⟨m, todo⟩ := mt
    simp only [hcur] at hc
    obtain ⟨hsplit, hne⟩ := hc
    cases todo with
    | nil => exact absurd rfl hne
    | cons ch rest =>
      simp only
      split
      · rename_i hr; subst hr
        rw [complete_eq]
        refine ⟨[], ?_, by simp⟩
        simp [hw, ← hsplit]
      · rename_i hr
        exact ⟨part ++ [ch], by simp [hw], by simpa using hsplit, hr⟩

theorem wireInv_run (cap : Nat) (s : Link) (ops : List Op) (h : WireInv s) : WireInv (specRun cap s ops) := by
  induction ops generalizing s with
  | nil => exact h
  | cons op ops ih =>
    simp only [specRun, List.foldl_cons]
    apply ih
    cases op with
    | send d p => exact h
    | pull => exact h
    | loop => exact wireInv_octet cap s h
    | rx ns => exact h

theorem wireInv_init : WireInv Link.init := ⟨[], rfl, rfl⟩

end OsmoVerif.Sercomm
