/-
Helper lemmas about `OsmoVerif.Model.Trxd` shared by the TRXD properties (C13, C01, C04, C15).
-/
import OsmoVerif.Spec.TrxdRanges
import OsmoVerif.Spec.TrxdLayout

set_option linter.unusedSimpArgs false

namespace OsmoVerif.Trxd
open OsmoVerif OsmoVerif.Spec.TrxdRanges

/-! ### the regenerated constants are the protocol's numbers -/

theorem mem_knownVersions (v : Int) : v ∈ Gen.Trxd.knownVersions ↔ (v = 0 ∨ v = 1) := by
  simp [Gen.Trxd.knownVersions]

theorem hyperframe_eq : Gen.Trxd.gsmHyperframe = 2715648 := by decide
theorem gmskBurstLen_eq : Gen.Trxd.gmskBurstLen = 148 := by decide
theorem edgeBurstLen_eq : Gen.Trxd.edgeBurstLen = 444 := by decide
theorem pwrMin_eq : Gen.Trxd.pwrMin = 0 := by decide
theorem pwrMax_eq : Gen.Trxd.pwrMax = 255 := by decide
theorem rssiMin_eq : Gen.Trxd.rssiMin = -120 := by decide
theorem rssiMax_eq : Gen.Trxd.rssiMax = -47 := by decide
theorem toa256Min_eq : Gen.Trxd.toa256Min = -32768 := by decide
theorem toa256Max_eq : Gen.Trxd.toa256Max = 32767 := by decide
theorem ciMin_eq : Gen.Trxd.ciMin = -1280 := by decide
theorem ciMax_eq : Gen.Trxd.ciMax = 1280 := by decide
theorem nopeInd_eq : Gen.Trxd.nopeInd = 128 := by decide
theorem chdrLen_eq : Gen.Trxd.chdrLen = 5 := by decide

theorem mem_tscRange (v : Int) : v ∈ Gen.Trxd.tscRange ↔ (0 ≤ v ∧ v ≤ 7) := by
  simp only [Gen.Trxd.tscRange, List.mem_cons, List.not_mem_nil, or_false]
  omega

/-! ### validate -/

/-- `a; b` in a `do` block of checks -/
theorem bind_ok_iff (a : Except Exc Unit) (f : Unit → Except Exc Unit) :
    (a >>= f) = .ok () ↔ a = .ok () ∧ f () = .ok () := by
  cases a <;> simp [bind, Except.bind]

theorem ite_err_iff (c : Prop) {d : Decidable c} (e : Exc) (x : Except Exc Unit) :
    (@ite _ c d (.error e) x) = .ok () ↔ ¬ c ∧ x = .ok () := by
  split <;> simp_all

theorem validateCommon_iff (ver : Int) (fn tn : Option Int) :
    validateCommon ver fn tn = .ok () ↔ knownVersion ver ∧ within 0 2715647 fn ∧ within 0 7 tn := by
  unfold validateCommon knownVersion
  cases fn <;> cases tn <;>
    simp only [within, hyperframe_eq, List.contains_eq_mem, decide_eq_true_eq, mem_knownVersions,
      ite_err_iff, reduceCtorEq, and_false, false_and, and_true, Decidable.not_not] <;> omega

theorem TxMsg.validateOwn_iff (m : TxMsg) :
    m.validateOwn = .ok () ↔ within 0 255 m.pwr ∧ burstLen148or444 m.burst := by
  unfold TxMsg.validateOwn
  rcases m with ⟨ver, fn, tn, pwr, burst⟩
  cases pwr <;> cases burst <;>
    simp only [within, burstLen148or444, pwrMin_eq, pwrMax_eq, gmskBurstLen_eq, edgeBurstLen_eq,
      ite_err_iff, reduceCtorEq, and_false, false_and, and_true, Decidable.not_not] <;> omega

theorem TxMsg.validate_iff (m : TxMsg) : m.validate = .ok () ↔ InRangeTx m := by
  unfold TxMsg.validate InRangeTx
  rw [bind_ok_iff, validateCommon_iff, TxMsg.validateOwn_iff]
  simp only [and_assoc]

/-- the regenerated `Modulation` enum agrees with the protocol's coding/length table -/
theorem modLen_coding (mod : Modulation) : modLen mod.coding = some mod.bl := by
  revert mod; decide

theorem gmsk_iff_coding (mod : Modulation) : mod = Modulation.gmsk ↔ mod.coding = 0 := by
  revert mod; decide

theorem RxMsg.validateMeas_iff (m : RxMsg) :
    m.validateMeas = .ok () ↔ within (-120) (-47) m.rssi ∧ within (-32768) 32767 m.toa256 := by
  unfold RxMsg.validateMeas
  cases m.rssi <;> cases m.toa256 <;>
    simp only [within, rssiMin_eq, rssiMax_eq, toa256Min_eq, toa256Max_eq,
      ite_err_iff, reduceCtorEq, and_false, false_and, and_true, Decidable.not_not] <;> omega

theorem RxMsg.validate_v0_iff (m : RxMsg) (hv : m.ver = 0) :
    (m.validateMts = .ok () ∧ m.validateCi = .ok () ∧ m.validateBurst = .ok ()) ↔
      burstLen148or444 m.burst := by
  unfold RxMsg.validateMts RxMsg.validateCi RxMsg.validateBurst RxMsg.validateBurstV0
  cases m.burst <;>
    simp only [hv, burstLen148or444, gmskBurstLen_eq, edgeBurstLen_eq, ite_err_iff, reduceCtorEq,
      and_false, false_and, and_true, true_and, Decidable.not_not, if_true, if_false,
      show ¬ ((0 : Int) ≥ 1) by omega, show ¬ ((0 : Int) ≥ 1 ∧ m.nopeInd = false) by omega]

theorem RxMsg.validate_v1_iff (m : RxMsg) (hv : m.ver = 1) :
    (m.validateMts = .ok () ∧ m.validateCi = .ok () ∧ m.validateBurst = .ok ()) ↔
      (within (-1280) 1280 m.ci ∧ (if m.nopeInd then m.burst = none else InRangeMts m)) := by
  unfold RxMsg.validateMts RxMsg.validateCi RxMsg.validateBurst RxMsg.validateBurstV1 InRangeMts
  have h1 : ¬ ((1 : Int) = 0) := by omega
  have h2 : (1 : Int) ≥ 1 := by omega
  rcases m with ⟨ver, fn, tn, rssi, toa, mod, nope, set, tsc, ci, burst⟩
  simp only at hv
  subst hv
  cases nope <;> cases mod <;> cases set <;> cases tsc <;> cases ci <;> cases burst <;>
    simp only [h1, h2, within, burstLenOfMod, ciMin_eq, ciMax_eq, ite_err_iff, reduceCtorEq,
      and_false, false_and, and_true, true_and, Decidable.not_not, if_true, if_false,
      List.contains_eq_mem, decide_eq_true_eq, mem_tscRange, gmsk_iff_coding, modLen_coding,
      Option.some.injEq, Bool.false_eq_true, ne_eq, iff_false, false_iff, not_false_eq_true,
      not_true_eq_false, not_and, iff_self, true_iff] <;>
    (try split) <;> first | omega | (intros; first | contradiction | omega)

theorem RxMsg.validate_iff (m : RxMsg) : m.validate = .ok () ↔ InRangeRx m := by
  unfold RxMsg.validate InRangeRx
  simp only [bind_ok_iff, validateCommon_iff, RxMsg.validateMeas_iff]
  constructor
  · rintro ⟨⟨hk, hfn, htn⟩, ⟨hr, ht⟩, rest⟩
    exact ⟨hk, hfn, htn, hr, ht, fun hv => (validate_v0_iff m hv).mp rest,
      fun hv => (validate_v1_iff m hv).mp rest⟩
  · rintro ⟨hk, hfn, htn, hr, ht, h0, h1⟩
    refine ⟨⟨hk, hfn, htn⟩, ⟨hr, ht⟩, ?_⟩
    rcases hk with hv | hv
    · exact (validate_v0_iff m hv).mpr (h0 hv)
    · exact (validate_v1_iff m hv).mpr (h1 hv)

/-! ### the messages as protocol-level field records (`Spec.TrxdLayout`) -/

open OsmoVerif.Spec.TrxdLayout

/-- the protocol-level fields of a Tx message whose attributes are all set and non-negative -/
def TxMsg.fields? (m : TxMsg) : Option TxFields :=
  match m.fn, m.tn, m.pwr, m.burst with
  | some fn, some tn, some pwr, some b =>
    if 0 ≤ m.ver ∧ 0 ≤ fn ∧ 0 ≤ tn ∧ 0 ≤ pwr then
      some ⟨m.ver.toNat, fn.toNat, tn.toNat, pwr.toNat, b⟩
    else none
  | _, _, _, _ => none

/-! ### gen_msg on valid messages -/

theorem bytearrayAppend_ok (buf : Bytes) (x : Int) (h : 0 ≤ x ∧ x < 256) :
    bytearrayAppend buf x = .ok (buf ++ [x.toNat]) := by
  simp only [bytearrayAppend, h, and_self, if_true]

theorem packBE32u_ok (x : Int) (h : 0 ≤ x ∧ x < 4294967296) : packBE32u x = .ok (be32 x.toNat) := by
  simp only [packBE32u, h, and_self, if_true, be32]

theorem packBE16s_ok (x : Int) (h : -32768 ≤ x ∧ x ≤ 32767) : packBE16s x = .ok (s16be x) := by
  simp only [packBE16s, h, and_self, if_true, s16be, Except.ok.injEq, List.cons.injEq, and_true]
  omega

theorem genCommon_ok (ver fn tn : Int) (hv : ver = 0 ∨ ver = 1) (hfn : 0 ≤ fn ∧ fn ≤ 2715647)
    (htn : 0 ≤ tn ∧ tn ≤ 7) :
    genCommon ver (some fn) (some tn) = .ok (hdr ver.toNat tn.toNat fn.toNat) := by
  unfold genCommon
  simp only [need, bind, Except.bind, pure, Except.pure]
  rw [bytearrayAppend_ok _ _ (by omega), packBE32u_ok _ (by omega)]
  simp only [hdr, List.nil_append, List.cons_append, Except.ok.injEq, List.cons.injEq, and_true]
  omega

theorem pad_eq (ver : Int) (l : Bool) (buf : Bytes) (hv : ver = 0 ∨ ver = 1) :
    appendLegacy ver l buf = buf ++ pad ver.toNat l := by
  rcases hv with rfl | rfl <;> cases l <;> simp [appendLegacy, pad]

/-- C04 (Tx half): a valid Tx message is encoded exactly as the protocol layout prescribes. -/
theorem TxMsg.genMsg_layout (m : TxMsg) (l : Bool) (h : InRangeTx m) :
    ∃ f, m.fields? = some f ∧ m.genMsg l = .ok (layoutTx f l) := by
  have hval := (TxMsg.validate_iff m).mpr h
  rcases m with ⟨ver, fn, tn, pwr, burst⟩
  obtain ⟨hv, hfn, htn, hp, hb⟩ := h
  cases fn <;> cases tn <;> cases pwr <;> cases burst <;>
    simp only [within, burstLen148or444] at hfn htn hp hb
  rename_i fn tn pwr b
  have hv' : (0 : Int) ≤ ver := by rcases hv with rfl | rfl <;> omega
  refine ⟨⟨ver.toNat, fn.toNat, tn.toNat, pwr.toNat, b⟩, ?_, ?_⟩
  · simp only [TxMsg.fields?, hv', hfn.1, htn.1, hp.1, and_self, if_true]
  · unfold TxMsg.genMsg
    simp only [hval, bind, Except.bind, pure, Except.pure, genCommon_ok ver fn tn hv hfn htn,
      TxMsg.appendHdrTo, need, bytearrayAppend_ok _ pwr (by omega), TxMsg.appendBurstTo,
      pad_eq ver l _ hv, layoutTx, List.append_assoc]

/-! ### soft-bit translation tables -/

theorem tabSbit2usbit_length : Gen.Trxd.tabSbit2usbit.length = 256 := by decide +kernel
theorem tabUsbit2sbit_length : Gen.Trxd.tabUsbit2sbit.length = 256 := by decide +kernel
theorem tabSbit2ubit_length : Gen.Trxd.tabSbit2ubit.length = 256 := by decide +kernel
theorem tabUbit2sbit_length : Gen.Trxd.tabUbit2sbit.length = 256 := by decide +kernel

theorem translateGo_map {α : Type} (tab : List α) (f : Nat → α) (xs : Bytes)
    (h : ∀ x ∈ xs, tab[x]? = some (f x)) : translateGo tab xs = .ok (xs.map f) := by
  induction xs with
  | nil => rfl
  | cons x xs ih =>
    have hx := h x (List.mem_cons_self ..)
    have ih' := ih (fun y hy => h y (List.mem_cons_of_mem _ hy))
    simp only [translateGo, hx, ih', List.map_cons]

theorem translate_map {α : Type} (tab : List α) (hl : tab.length = 256) (f : Nat → α) (xs : Bytes)
    (h : ∀ x ∈ xs, tab[x]? = some (f x)) : translate tab xs = .ok (xs.map f) := by
  simp only [translate, hl, ne_eq, not_true_eq_false, if_false, translateGo_map tab f xs h]

theorem translateGo_total {α : Type} (tab : List α) (hl : tab.length = 256) (xs : Bytes)
    (h : ∀ x ∈ xs, x < 256) : ∃ ys, translateGo tab xs = .ok ys ∧ ys.length = xs.length := by
  induction xs with
  | nil => exact ⟨[], rfl, rfl⟩
  | cons x xs ih =>
    obtain ⟨ys, hys, hlen⟩ := ih (fun y hy => h y (List.mem_cons_of_mem _ hy))
    have hx : x < tab.length := by have := h x (List.mem_cons_self ..); omega
    refine ⟨tab[x] :: ys, ?_, by simp [hlen]⟩
    simp only [translateGo, List.getElem?_eq_getElem hx, hys]

theorem sbyte_lt (s : Int) : sbyte s < 256 := by unfold sbyte; omega

/-- `sbit2usbit` never raises (every octet indexes the 256-entry table) -/
theorem sbit2usbit_total (b : List Int) : ∃ u, sbit2usbit b = .ok u ∧ u.length = b.length := by
  have hl := tabSbit2usbit_length
  obtain ⟨ys, h1, h2⟩ := translateGo_total Gen.Trxd.tabSbit2usbit hl (b.map sbyte)
    (by intro x hx; obtain ⟨s, _, rfl⟩ := List.mem_map.mp hx; exact sbyte_lt s)
  refine ⟨ys, ?_, by simpa using h2⟩
  simp only [sbit2usbit, translate, hl, ne_eq, not_true_eq_false, if_false, h1]

/-- the regenerated table `_tab_sbit2usbit` is `127 - s` on every signed char -/
theorem s2u_point_fin : ∀ k : Fin 256,
    Gen.Trxd.tabSbit2usbit[sbyte ((k.val : Int) - 128)]? = some (softOctet ((k.val : Int) - 128)) := by
  decide +kernel

theorem s2u_point (s : Int) (h : -128 ≤ s ∧ s ≤ 127) :
    Gen.Trxd.tabSbit2usbit[sbyte s]? = some (softOctet s) := by
  have := s2u_point_fin ⟨(s + 128).toNat, by omega⟩
  have e : (((s + 128).toNat : Nat) : Int) - 128 = s := by omega
  simpa only [e] using this

theorem sbit2usbit_eq (b : List Int) (h : ∀ s ∈ b, -128 ≤ s ∧ s ≤ 127) :
    sbit2usbit b = .ok (b.map softOctet) := by
  have hl := tabSbit2usbit_length
  unfold sbit2usbit
  rw [translate_map Gen.Trxd.tabSbit2usbit hl (fun x => softOctet (ubyte2s x)) (b.map sbyte)]
  · simp only [List.map_map, Except.ok.injEq]
    apply List.map_congr_left
    intro s hs
    have := h s hs
    simp only [Function.comp, sbyte, ubyte2s]
    congr 1
    omega
  · intro x hx
    obtain ⟨s, hs, rfl⟩ := List.mem_map.mp hx
    have hr := h s hs
    rw [s2u_point s hr]
    simp only [sbyte, ubyte2s, Option.some.injEq]
    congr 1
    omega

/-! ### RxMsg: protocol-level fields, header and burst encoding -/

/-- protocol-level modulation + TSC set of an MTS coding -/
def modOf (coding set : Nat) : Option Mod :=
  match coding with
  | 0b0000 => some (.gmsk set)
  | 0b0100 => some (.psk8 set)
  | 0b0110 => some (.gmskAB set)
  | 0b1000 => some (.qam16 set)
  | 0b1010 => some (.qam32 set)
  | 0b1100 => some (.aqpsk set)
  | _ => none

/-- the protocol-level fields of an Rx message whose transported attributes are all set -/
def RxMsg.fields? (m : RxMsg) : Option RxFields :=
  match m.fn, m.tn, m.rssi, m.toa256 with
  | some fn, some tn, some rssi, some toa =>
    if ¬ (0 ≤ m.ver ∧ 0 ≤ fn ∧ 0 ≤ tn) then none
    else if m.ver = 1 then
      match m.ci with
      | none => none
      | some ci =>
        if m.nopeInd then
          some { ver := 1, fn := fn.toNat, tn := tn.toNat, rssi := rssi, toa256 := toa,
                 nope := true, ci := ci, soft := m.burst }
        else
          match m.modType, m.tscSet, m.tsc with
          | some mod, some set, some tsc =>
            if 0 ≤ set ∧ 0 ≤ tsc then
              (modOf mod.coding set.toNat).map fun md =>
                { ver := 1, fn := fn.toNat, tn := tn.toNat, rssi := rssi, toa256 := toa,
                  nope := false, mod := md, tsc := tsc.toNat, ci := ci, soft := m.burst }
            else none
          | _, _, _ => none
    else
      some { ver := m.ver.toNat, fn := fn.toNat, tn := tn.toNat, rssi := rssi, toa256 := toa,
             soft := m.burst }
  | _, _, _, _ => none

/-- header octets (everything before the soft bits) of the protocol layout -/
def rxHdrLayout (f : RxFields) : List Nat :=
  hdr f.ver f.tn f.fn ++ [(-f.rssi).toNat] ++ s16be f.toa256
    ++ (if f.ver = 1 then [mtsOctet f] ++ s16be f.ci else [])

theorem layoutRx_eq (f : RxFields) (l : Bool) :
    layoutRx f l = rxHdrLayout f ++ (match f.soft with | some b => b.map softOctet | none => [])
      ++ pad f.ver l := rfl

/-- the MTS octet computed by `gen_mts` is the protocol's `8·(modulation bits + set) + tsc` -/
theorem mts_fin : ∀ (mod : Modulation) (set : Fin 4) (tsc : Fin 8), (mod.coding = 0 ∨ set.val ≤ 1) →
    (modOf mod.coding set.val).map (fun md => 8 * md.bits + tsc.val) =
      some ((tsc.val ||| (mod.coding <<< 3)) ||| (set.val <<< 3)) := by
  decide +kernel

theorem mts_lt : ∀ (mod : Modulation) (set : Fin 4) (tsc : Fin 8),
    ((tsc.val ||| (mod.coding <<< 3)) ||| (set.val <<< 3)) < 256 := by
  decide +kernel

theorem RxMsg.appendMts_nope (m : RxMsg) (buf : Bytes) (h : m.nopeInd = true) :
    m.appendMts buf = .ok (buf ++ [128]) := by
  simp only [RxMsg.appendMts, h, if_true, nopeInd_eq]
  exact bytearrayAppend_ok buf 128 (by omega)

theorem RxMsg.appendMts_ok (m : RxMsg) (buf : Bytes) (mod : Modulation) (set tsc : Int)
    (hn : m.nopeInd = false) (hm : m.modType = some mod) (hs : m.tscSet = some set)
    (ht : m.tsc = some tsc) (hset : 0 ≤ set ∧ set ≤ 3) (hg : mod.coding = 0 ∨ set ≤ 1)
    (htsc : 0 ≤ tsc ∧ tsc ≤ 7) :
    ∃ md, modOf mod.coding set.toNat = some md ∧
      m.appendMts buf = .ok (buf ++ [8 * md.bits + tsc.toNat]) := by
  have hf := mts_fin mod ⟨set.toNat, by omega⟩ ⟨tsc.toNat, by omega⟩ (by
    rcases hg with h | h
    · exact Or.inl h
    · exact Or.inr (by simp only; omega))
  have hlt := mts_lt mod ⟨set.toNat, by omega⟩ ⟨tsc.toNat, by omega⟩
  simp only at hf hlt
  cases hmd : modOf mod.coding set.toNat with
  | none => simp only [hmd, Option.map_none, reduceCtorEq] at hf
  | some md =>
    simp only [hmd, Option.map_some, Option.some.injEq] at hf
    refine ⟨md, rfl, ?_⟩
    have e8 : (tsc % 8).toNat = tsc.toNat := by omega
    have hneg : ¬ set < 0 := by omega
    simp only [RxMsg.appendMts, hn, Bool.false_eq_true, if_false, hm, hs, ht, need, bind, Except.bind,
      hneg, e8, pure, Except.pure]
    rw [bytearrayAppend_ok _ _ (by omega), Int.toNat_natCast, hf]

/-- a valid Rx message: its protocol-level fields exist and `gen_msg` emits the protocol's header
layout, then whatever `append_burst_to` appends, then the legacy padding -/
theorem RxMsg.genMsg_split (m : RxMsg) (l : Bool) (h : InRangeRx m) :
    ∃ f, m.fields? = some f ∧ f.soft = m.burst ∧
      m.genMsg l = (match m.appendBurstTo (rxHdrLayout f) with
                    | .ok buf => .ok (buf ++ pad f.ver l)
                    | .error e => .error e) := by
  have hval := (RxMsg.validate_iff m).mpr h
  rcases m with ⟨ver, fn, tn, rssi, toa, mod, nope, set, tsc, ci, burst⟩
  obtain ⟨hv, hfn, htn, hr, ht, h0, h1⟩ := h
  cases fn <;> cases tn <;> cases rssi <;> cases toa <;> simp only [within] at hfn htn hr ht
  rename_i fn tn rssi toa
  simp only at h0 h1 hv
  have hv' : (0 : Int) ≤ ver := by rcases hv with rfl | rfl <;> omega
  have hc := genCommon_ok ver fn tn hv hfn htn
  have hrs := bytearrayAppend_ok (hdr ver.toNat tn.toNat fn.toNat) (-rssi) (by omega)
  have hto := packBE16s_ok toa ht
  rcases hv with rfl | rfl
  · -- version 0
    have e0 : (0 : Int).toNat = 0 := rfl
    simp only [e0] at hc hrs
    refine ⟨{ ver := 0, fn := fn.toNat, tn := tn.toNat, rssi := rssi, toa256 := toa, soft := burst }, ?_, rfl, ?_⟩
    · simp only [RxMsg.fields?, hfn.1, htn.1, Int.le_refl, and_self, not_true_eq_false, if_false,
        show ¬ ((0 : Int) = 1) by omega, Int.toNat_zero]
    · unfold RxMsg.genMsg
      simp only [hval, bind, Except.bind, hc, RxMsg.appendHdrTo, need, hrs, hto,
        show ¬ ((0 : Int) ≥ 1) by omega, if_false, pure, Except.pure, rxHdrLayout, Int.toNat_zero,
        show ¬ ((0 : Nat) = 1) by omega, List.append_nil]
      cases RxMsg.appendBurstTo _ _ with
      | error e => rfl
      | ok buf => simp only [pad_eq 0 l buf (Or.inl rfl), Int.toNat_zero]
  · -- version 1
    have e1 : (1 : Int).toNat = 1 := rfl
    simp only [e1] at hc hrs
    obtain ⟨hci, hrest⟩ := h1 rfl
    cases ci <;> simp only [within] at hci
    rename_i ci
    have hcp := packBE16s_ok ci (by omega)
    cases nope
    · -- a burst with MTS information
      simp only [Bool.false_eq_true, if_false, InRangeMts] at hrest
      obtain ⟨mod', rfl⟩ : ∃ x, mod = some x := by
        cases mod with
        | none => exact hrest.elim
        | some x => exact ⟨x, rfl⟩
      have hrest' : (if mod'.coding = 0 then within 0 3 set else within 0 1 set) ∧ within 0 7 tsc ∧
          burstLenOfMod mod'.coding burst := hrest
      clear hrest
      obtain ⟨hset, htsc, hbl⟩ := hrest'
      obtain ⟨set', rfl⟩ : ∃ x, set = some x := by
        cases set with
        | none => split at hset <;> exact hset.elim
        | some x => exact ⟨x, rfl⟩
      obtain ⟨tsc', rfl⟩ : ∃ x, tsc = some x := by
        cases tsc with
        | none => exact htsc.elim
        | some x => exact ⟨x, rfl⟩
      simp only [within] at htsc
      have hset' : (0 ≤ set' ∧ set' ≤ 3) ∧ (mod'.coding = 0 ∨ set' ≤ 1) := by
        split at hset <;> simp only [within] at hset
        · exact ⟨hset, Or.inl (by assumption)⟩
        · exact ⟨by omega, Or.inr hset.2⟩
      obtain ⟨md, hmd, hmts⟩ := RxMsg.appendMts_ok
        ⟨1, some fn, some tn, some rssi, some toa, some mod', false, some set', some tsc', some ci, burst⟩
        (hdr 1 tn.toNat fn.toNat ++ [(-rssi).toNat] ++ s16be toa) mod' set' tsc' rfl rfl rfl rfl
        hset'.1 hset'.2 htsc
      simp only [List.append_assoc] at hmts
      refine ⟨{ ver := 1, fn := fn.toNat, tn := tn.toNat, rssi := rssi, toa256 := toa, nope := false,
                mod := md, tsc := tsc'.toNat, ci := ci, soft := burst }, ?_, rfl, ?_⟩
      · simp only [RxMsg.fields?, hfn.1, htn.1, hset'.1.1, htsc.1, and_self, not_true_eq_false, if_false,
          if_true, Bool.false_eq_true, hmd, Option.map_some, show (0 : Int) ≤ 1 by omega]
      · unfold RxMsg.genMsg
        simp only [hval, bind, Except.bind, hc, RxMsg.appendHdrTo, need, hrs, hto,
          show ((1 : Int) ≥ 1) by omega, if_true, pure, Except.pure, hmts, hcp, rxHdrLayout, mtsOctet, List.append_assoc,
          Bool.false_eq_true, if_false, show (1 : Int).toNat = 1 by rfl]
        cases RxMsg.appendBurstTo _ _ with
        | error e => rfl
        | ok buf => simp only [pad_eq 1 l buf (Or.inr rfl), show (1 : Int).toNat = 1 by rfl]
    · -- NOPE indication
      have hmts := RxMsg.appendMts_nope
        ⟨1, some fn, some tn, some rssi, some toa, mod, true, set, tsc, some ci, burst⟩
        (hdr 1 tn.toNat fn.toNat ++ [(-rssi).toNat] ++ s16be toa) rfl
      simp only [List.append_assoc] at hmts
      refine ⟨{ ver := 1, fn := fn.toNat, tn := tn.toNat, rssi := rssi, toa256 := toa, nope := true,
                ci := ci, soft := burst }, ?_, rfl, ?_⟩
      · simp only [RxMsg.fields?, hfn.1, htn.1, and_self, not_true_eq_false, if_false, if_true,
          show (0 : Int) ≤ 1 by omega]
      · unfold RxMsg.genMsg
        simp only [hval, bind, Except.bind, hc, RxMsg.appendHdrTo, need, hrs, hto,
          show ((1 : Int) ≥ 1) by omega, if_true, pure, Except.pure, hmts, hcp, rxHdrLayout, mtsOctet, List.append_assoc,
          show (1 : Int).toNat = 1 by rfl]
        cases RxMsg.appendBurstTo _ _ with
        | error e => rfl
        | ok buf => simp only [pad_eq 1 l buf (Or.inr rfl), show (1 : Int).toNat = 1 by rfl]

theorem RxMsg.appendBurstTo_total (m : RxMsg) (buf : Bytes) :
    ∃ u, m.appendBurstTo buf = .ok (buf ++ u) := by
  unfold RxMsg.appendBurstTo
  cases m.burst with
  | none => exact ⟨[], by simp⟩
  | some b =>
    obtain ⟨u, hu, _⟩ := sbit2usbit_total b
    exact ⟨u, by simp only [hu, bind, Except.bind, pure, Except.pure]⟩

theorem RxMsg.appendBurstTo_len (m : RxMsg) (buf : Bytes) :
    ∃ u, m.appendBurstTo buf = .ok (buf ++ u) ∧ (m.burst = none → u = []) ∧
      (∀ b, m.burst = some b → u.length = b.length) := by
  unfold RxMsg.appendBurstTo
  cases hb : m.burst with
  | none =>
    refine ⟨[], by simp, fun _ => rfl, ?_⟩
    intro b h; cases h
  | some b =>
    obtain ⟨u, hu, hl⟩ := sbit2usbit_total b
    refine ⟨u, ?_, ?_, ?_⟩
    · simp only [hu, bind, Except.bind, pure, Except.pure]
    · intro h; cases h
    · intro b' h
      cases h
      exact hl

theorem RxMsg.appendBurstTo_eq (m : RxMsg) (buf : Bytes) (hw : m.WellTyped) :
    m.appendBurstTo buf =
      .ok (buf ++ (match m.burst with | some b => b.map softOctet | none => [])) := by
  unfold RxMsg.appendBurstTo
  cases hb : m.burst with
  | none => simp
  | some b =>
    have := sbit2usbit_eq b (hw b (by simp [hb]))
    simp only [this, bind, Except.bind, pure, Except.pure]

/-- a valid Rx message is always encoded (no exception) -/
theorem RxMsg.genMsg_ok (m : RxMsg) (l : Bool) (h : InRangeRx m) : ∃ b, m.genMsg l = .ok b := by
  obtain ⟨f, _, _, hg⟩ := RxMsg.genMsg_split m l h
  obtain ⟨u, hu⟩ := RxMsg.appendBurstTo_total m (rxHdrLayout f)
  exact ⟨_, by rw [hg, hu]⟩

/-- C04 (Rx half): a valid Rx message is encoded exactly as the protocol layout prescribes. -/
theorem RxMsg.genMsg_layout (m : RxMsg) (l : Bool) (h : InRangeRx m) (hw : m.WellTyped) :
    ∃ f, m.fields? = some f ∧ m.genMsg l = .ok (layoutRx f l) := by
  obtain ⟨f, hf, hs, hg⟩ := RxMsg.genMsg_split m l h
  refine ⟨f, hf, ?_⟩
  rw [hg, RxMsg.appendBurstTo_eq m _ hw, layoutRx_eq, hs]

/-! ### `validate` raises nothing but ValueError -/

theorem validateCommon_err (ver : Int) (fn tn : Option Int) (e : Exc)
    (h : validateCommon ver fn tn = .error e) : e = .valueError := by
  unfold validateCommon at h
  cases fn <;> cases tn <;> simp only [] at h <;> (repeat' split at h) <;> simp_all

theorem TxMsg.validate_err (m : TxMsg) (e : Exc) (h : m.validate = .error e) : e = .valueError := by
  unfold TxMsg.validate at h
  cases hc : validateCommon m.ver m.fn m.tn with
  | error e' =>
    simp only [hc, bind, Except.bind, Except.error.injEq] at h
    exact h ▸ validateCommon_err _ _ _ _ hc
  | ok u =>
    simp only [hc, bind, Except.bind] at h
    unfold TxMsg.validateOwn at h
    cases hp : m.pwr <;> cases hb : m.burst <;> simp only [hp, hb] at h <;> (repeat' split at h) <;> simp_all

theorem RxMsg.validateMeas_err (m : RxMsg) (e : Exc) (h : m.validateMeas = .error e) :
    e = .valueError := by
  unfold RxMsg.validateMeas at h
  cases hr : m.rssi <;> cases ht : m.toa256 <;> simp only [hr, ht] at h <;>
    (repeat' split at h) <;> simp_all

theorem RxMsg.validateMts_err (m : RxMsg) (e : Exc) (h : m.validateMts = .error e) :
    e = .valueError := by
  unfold RxMsg.validateMts at h
  cases hm : m.modType <;> cases hs : m.tscSet <;> cases ht : m.tsc <;> simp only [hm, hs, ht] at h <;>
    (repeat' split at h) <;> simp_all

theorem RxMsg.validateCi_err (m : RxMsg) (e : Exc) (h : m.validateCi = .error e) :
    e = .valueError := by
  unfold RxMsg.validateCi at h
  cases hc : m.ci <;> simp only [hc] at h <;> (repeat' split at h) <;> simp_all

/-- `self.mod_type.bl` in `_validate_burst_v1` is only reached after the modulation was checked -/
theorem RxMsg.validateBurst_err (m : RxMsg) (e : Exc) (hm : m.validateMts = .ok ())
    (h : m.validateBurst = .error e) : e = .valueError := by
  unfold RxMsg.validateBurst RxMsg.validateBurstV0 RxMsg.validateBurstV1 at h
  unfold RxMsg.validateMts at hm
  cases hn : m.nopeInd <;> cases hmod : m.modType <;> cases hb : m.burst <;>
    simp only [hn, hmod, hb] at h hm <;> (repeat' split at h) <;> simp_all

theorem RxMsg.validate_err (m : RxMsg) (e : Exc) (h : m.validate = .error e) : e = .valueError := by
  unfold RxMsg.validate at h
  cases h1 : validateCommon m.ver m.fn m.tn with
  | error e' =>
    simp only [h1, bind, Except.bind, Except.error.injEq] at h
    exact h ▸ validateCommon_err _ _ _ _ h1
  | ok u =>
    cases h2 : m.validateMeas with
    | error e' =>
      simp only [h1, h2, bind, Except.bind, Except.error.injEq] at h
      exact h ▸ RxMsg.validateMeas_err _ _ h2
    | ok u =>
      cases h3 : m.validateMts with
      | error e' =>
        simp only [h1, h2, h3, bind, Except.bind, Except.error.injEq] at h
        exact h ▸ RxMsg.validateMts_err _ _ h3
      | ok u =>
        cases h4 : m.validateCi with
        | error e' =>
          simp only [h1, h2, h3, h4, bind, Except.bind, Except.error.injEq] at h
          exact h ▸ RxMsg.validateCi_err _ _ h4
        | ok u =>
          simp only [h1, h2, h3, h4, bind, Except.bind] at h
          exact RxMsg.validateBurst_err m e h3 h

/-! ### parse_msg on the protocol layout -/

theorem octet0_fin : ∀ v, v < 2 → ∀ t, t < 8 → (16 * v + t) >>> 4 = v ∧ (16 * v + t) &&& 7 = t := by
  decide

theorem be32_unpack (fn : Nat) (h : fn < 4294967296) : unpackBE32u (be32 fn) = .ok fn := by
  simp only [be32, unpackBE32u, Except.ok.injEq]
  omega

theorem parseCommon_hdr (ver tn fn : Nat) (rest : Bytes) (hv : ver < 2) (ht : tn < 8)
    (hf : fn < 4294967296) : parseCommon (hdr ver tn fn ++ rest) = .ok (ver, tn, fn) := by
  obtain ⟨h1, h2⟩ := octet0_fin ver hv tn ht
  have hk : Gen.Trxd.knownVersions.contains (ver : Int) = true := by
    have : ver = 0 ∨ ver = 1 := by omega
    rcases this with rfl | rfl <;> decide
  have hu := be32_unpack fn hf
  simp only [be32] at hu
  have hl : ¬ (rest.length + 1 + 1 + 1 + 1 + 1 < 5) := by omega
  simp only [parseCommon, hdr, be32, List.cons_append, List.nil_append, List.length_cons, chdrLen_eq,
    index, List.getElem?_cons_zero, slice, bind, Except.bind, pure, Except.pure, h1, h2, hk, hl,
    List.take_succ_cons, List.take_zero, List.drop_succ_cons, List.drop_zero, not_true_eq_false, if_false, hu]

theorem txHdrLen_ok (ver : Nat) (h : ver < 2) : txHdrLen ver = .ok 6 := by
  have : ver = 0 ∨ ver = 1 := by omega
  rcases this with rfl | rfl <;> rfl

theorem TxMsg.parseBurst_pad (bits : Bytes) (ver : Nat) (l : Bool)
    (hb : bits.length = 148 ∨ bits.length = 444) : TxMsg.parseBurst (bits ++ pad ver l) = bits := by
  have hp : pad ver l = [] ∨ pad ver l = [0, 0] := by
    unfold pad; split <;> simp
  unfold TxMsg.parseBurst
  simp only [gmskBurstLen_eq, edgeBurstLen_eq, List.length_append]
  rcases hp with hp | hp <;> rcases hb with hb | hb <;>
    simp only [hp, hb, List.length_nil, List.length_cons, List.append_nil] <;>
    simp (config := {decide := true}) only [if_true, if_false, ← hb, List.take_left', List.take_length]

theorem TxMsg.parse_layout (f : TxFields) (l : Bool) (hv : f.ver < 2) (ht : f.tn < 8)
    (hf : f.fn < 4294967296) (hb : f.bits.length = 148 ∨ f.bits.length = 444) :
    TxMsg.parseMsg (layoutTx f l) =
      .ok ⟨(f.ver : Int), some (f.fn : Int), some (f.tn : Int), some (f.pwr : Int), some f.bits⟩ := by
  have e : layoutTx f l = hdr f.ver f.tn f.fn ++ (f.pwr :: (f.bits ++ pad f.ver l)) := by
    simp only [layoutTx, List.append_assoc, List.cons_append, List.nil_append]
  have hlen : (hdr f.ver f.tn f.fn ++ (f.pwr :: (f.bits ++ pad f.ver l))).length
      = 6 + (f.bits ++ pad f.ver l).length := by
    simp only [hdr, be32, List.length_append, List.length_cons, List.length_nil]; omega
  have hpos : 0 < (f.bits ++ pad f.ver l).length := by
    simp only [List.length_append]; omega
  have hidx : index (hdr f.ver f.tn f.fn ++ (f.pwr :: (f.bits ++ pad f.ver l))) 5 = .ok f.pwr := by
    simp only [index, hdr, be32, List.cons_append, List.nil_append, List.getElem?_cons_succ,
      List.getElem?_cons_zero]
  have hdrop : (hdr f.ver f.tn f.fn ++ (f.pwr :: (f.bits ++ pad f.ver l))).drop 6 = f.bits ++ pad f.ver l := by
    simp only [hdr, be32, List.cons_append, List.nil_append, List.drop_succ_cons, List.drop_zero]
  rw [e]
  unfold TxMsg.parseMsg
  simp only [parseCommon_hdr f.ver f.tn f.fn _ hv ht hf, txHdrLen_ok f.ver hv, bind, Except.bind, pure,
    Except.pure, hlen, hidx, hdrop, TxMsg.parseBurst_pad f.bits f.ver l hb,
    show ¬ (6 + (f.bits ++ pad f.ver l).length < 6) by omega,
    show ¬ (6 + (f.bits ++ pad f.ver l).length = 6) by omega, if_false]

/-- the regenerated table `_tab_usbit2sbit` inverts `127 - s` on -127..127 -/
theorem u2s_point_fin : ∀ k : Fin 255,
    Gen.Trxd.tabUsbit2sbit[softOctet ((k.val : Int) - 127)]? = some ((k.val : Int) - 127) := by
  decide +kernel

theorem u2s_point (s : Int) (h : -127 ≤ s ∧ s ≤ 127) :
    Gen.Trxd.tabUsbit2sbit[softOctet s]? = some s := by
  have := u2s_point_fin ⟨(s + 127).toNat, by omega⟩
  have e : (((s + 127).toNat : Nat) : Int) - 127 = s := by omega
  simpa only [e] using this

theorem usbit2sbit_soft (b : List Int) (h : ∀ s ∈ b, -127 ≤ s ∧ s ≤ 127) :
    usbit2sbit (b.map softOctet) = .ok b := by
  unfold usbit2sbit
  rw [translate_map Gen.Trxd.tabUsbit2sbit tabUsbit2sbit_length (fun x => 127 - (x : Int)) (b.map softOctet)]
  · simp only [List.map_map, Except.ok.injEq]
    have : b.map ((fun x : Nat => 127 - (x : Int)) ∘ softOctet) = b.map id := by
      apply List.map_congr_left
      intro s hs
      have := h s hs
      simp only [Function.comp, softOctet, id]
      omega
    rw [this, List.map_id]
  · intro x hx
    obtain ⟨s, hs, rfl⟩ := List.mem_map.mp hx
    have hr := h s hs
    rw [u2s_point s hr]
    simp only [softOctet, Option.some.injEq]
    omega

theorem rxHdrLen_v0 : rxHdrLen 0 = .ok 8 := rfl
theorem rxHdrLen_v1 : rxHdrLen 1 = .ok 11 := rfl

theorem s16be_unpack (x : Int) (h : -32768 ≤ x ∧ x ≤ 32767) : unpackBE16s (s16be x) = .ok x := by
  simp only [s16be, unpackBE16s, Except.ok.injEq]
  split <;> omega

/-- the four attributes `parse_mts` assigns -/
def mtsParts (mts : Nat) : Bool × Option Modulation × Option Int × Option Int :=
  let m := RxMsg.fresh.parseMts mts
  (m.nopeInd, m.modType, m.tscSet, m.tsc)

theorem parseMts_parts (m : RxMsg) (mts : Nat) :
    m.parseMts mts = { m with nopeInd := (mtsParts mts).1, modType := (mtsParts mts).2.1,
                              tscSet := (mtsParts mts).2.2.1, tsc := (mtsParts mts).2.2.2 } := by
  unfold mtsParts RxMsg.parseMts
  by_cases h1 : mts &&& Gen.Trxd.nopeInd > 0
  · simp only [h1, if_true]
  · by_cases h2 : ((mts >>> 3) &&& 15) &&& 12 > 0
    · simp only [h1, h2, if_true, if_false]
    · simp only [h1, h2, if_false]

theorem mtsParts_nope : mtsParts 128 = (true, none, none, none) := by decide +kernel

/-- `parse_mts` inverts `gen_mts` on every (modulation, TSC set, TSC) combination -/
theorem mtsParts_fin : ∀ (mod : Modulation) (set : Fin 4) (tsc : Fin 8), (mod.coding = 0 ∨ set.val ≤ 1) →
    (modOf mod.coding set.val).map (fun md => mtsParts (8 * md.bits + tsc.val)) =
      some (false, some mod, some (set.val : Int), some (tsc.val : Int)) := by
  decide +kernel

theorem guess_fin : ∀ n ∈ [148, 444], ∀ k ∈ [0, 2],
    RxMsg.guessMod ((n + k : Nat) : Int) = Modulation.pickByBl (n : Int) ∧
    (Modulation.pickByBl (n : Int)).map (·.bl) = some n := by decide

theorem RxMsg.parseHdr_v0 (m : RxMsg) (a0 a1 a2 a3 a4 : Nat) (rssi toa : Int) (rest : Bytes)
    (hv : ¬ m.ver ≥ 1) (hr : -255 ≤ rssi ∧ rssi ≤ 0) (hto : -32768 ≤ toa ∧ toa ≤ 32767) :
    m.parseHdr (a0 :: a1 :: a2 :: a3 :: a4 :: (-rssi).toNat :: ((toa % 65536).toNat / 256) ::
        ((toa % 65536).toNat % 256) :: rest)
      = .ok { m with rssi := some rssi, toa256 := some toa } := by
  have hu := s16be_unpack toa hto
  simp only [s16be] at hu
  have hrr : -(((-rssi).toNat : Nat) : Int) = rssi := by omega
  simp only [RxMsg.parseHdr, index, slice, List.getElem?_cons_succ, List.getElem?_cons_zero,
    List.take_succ_cons, List.take_zero, List.drop_succ_cons, List.drop_zero, hu, hrr, bind, Except.bind,
    pure, Except.pure, hv, if_false]

theorem RxMsg.parseHdr_v1 (m : RxMsg) (a0 a1 a2 a3 a4 mts : Nat) (rssi toa ci : Int) (rest : Bytes)
    (hv : m.ver ≥ 1) (hr : -255 ≤ rssi ∧ rssi ≤ 0) (hto : -32768 ≤ toa ∧ toa ≤ 32767)
    (hci : -32768 ≤ ci ∧ ci ≤ 32767) :
    m.parseHdr (a0 :: a1 :: a2 :: a3 :: a4 :: (-rssi).toNat :: ((toa % 65536).toNat / 256) ::
        ((toa % 65536).toNat % 256) :: mts :: ((ci % 65536).toNat / 256) :: ((ci % 65536).toNat % 256) :: rest)
      = .ok { ({ m with rssi := some rssi, toa256 := some toa } : RxMsg).parseMts mts with ci := some ci } := by
  have hu := s16be_unpack toa hto
  have hc := s16be_unpack ci hci
  simp only [s16be] at hu hc
  have hrr : -(((-rssi).toNat : Nat) : Int) = rssi := by omega
  simp only [RxMsg.parseHdr, index, slice, List.getElem?_cons_succ, List.getElem?_cons_zero,
    List.take_succ_cons, List.take_zero, List.drop_succ_cons, List.drop_zero, hu, hc, hrr, bind, Except.bind,
    pure, Except.pure, hv, if_true]


/-- version 0: the burst is cut to the guessed modulation's length, with or without the two legacy
padding octets, whatever the (unsigned) soft-bit octets `u` are -/
theorem RxMsg.parseBurst_v0 (m : RxMsg) (u : Bytes) (l : Bool) (hv : m.ver = 0)
    (hb : u.length = 148 ∨ u.length = 444) :
    m.parseBurst (u ++ pad 0 l)
      = (match usbit2sbit u with
         | .ok s => .ok { m with modType := Modulation.pickByBl u.length, burst := some s }
         | .error e => .error e) := by
  have hn : u.length ∈ [148, 444] := by rcases hb with hb | hb <;> simp [hb]
  have hk : (pad 0 l).length ∈ [0, 2] := by unfold pad; split <;> simp
  obtain ⟨hg, hm⟩ := guess_fin u.length hn (pad 0 l).length hk
  have hlen : (u ++ pad 0 l).length = u.length + (pad 0 l).length := by
    simp only [List.length_append]
  cases hp : Modulation.pickByBl (u.length : Int) with
  | none => simp only [hp, Option.map_none, reduceCtorEq] at hm
  | some md =>
    simp only [hp, Option.map_some, Option.some.injEq] at hm
    have htake : (u ++ pad 0 l).take md.bl = u := by
      rw [hm, List.take_left']
      rfl
    unfold RxMsg.parseBurst RxMsg.parseBurstV0
    simp only [hv, if_true, hlen, hg, hp, htake, bind, Except.bind, pure, Except.pure]
    cases usbit2sbit u <;> rfl

theorem RxMsg.parseBurst_v1 (m : RxMsg) (b : List Int) (hv : ¬ m.ver = 0)
    (hs : ∀ s ∈ b, -127 ≤ s ∧ s ≤ 127) :
    m.parseBurst (b.map softOctet) = .ok { m with burst := some b } := by
  unfold RxMsg.parseBurst
  simp only [hv, if_false, usbit2sbit_soft b hs, bind, Except.bind, pure, Except.pure]

/-- parsing a version-0 datagram: header, 148 or 444 soft-bit octets `u`, legacy padding or not -/
theorem RxMsg.parse_v0_raw (self : RxMsg) (fn tn : Nat) (rssi toa : Int) (u : Bytes) (l : Bool)
    (ht : tn < 8) (hf : fn < 4294967296) (hr : -255 ≤ rssi ∧ rssi ≤ 0)
    (hto : -32768 ≤ toa ∧ toa ≤ 32767) (hb : u.length = 148 ∨ u.length = 444) :
    RxMsg.parseMsgFrom self (hdr 0 tn fn ++ [(-rssi).toNat] ++ s16be toa ++ u ++ pad 0 l)
      = (match usbit2sbit u with
         | .ok s => .ok { self with ver := 0, fn := some (fn : Int), tn := some (tn : Int), rssi := some rssi,
                                    toa256 := some toa, modType := Modulation.pickByBl u.length, burst := some s }
         | .error e => .error e) := by
  have e : hdr 0 tn fn ++ [(-rssi).toNat] ++ s16be toa ++ u ++ pad 0 l
      = hdr 0 tn fn ++ ((-rssi).toNat :: (s16be toa ++ (u ++ pad 0 l))) := by
    simp only [List.append_assoc, List.cons_append, List.nil_append]
  have hpos : ¬ ((u ++ pad 0 l).length + 1 + 1 + 1 + 1 + 1 + 1 + 1 + 1 < 8) := by omega
  have hne : ¬ ((u ++ pad 0 l).length + 1 + 1 + 1 + 1 + 1 + 1 + 1 + 1 = 8) := by
    simp only [List.length_append]; omega
  rw [e]
  unfold RxMsg.parseMsgFrom
  simp only [parseCommon_hdr 0 tn fn _ (by omega) ht hf, rxHdrLen_v0, bind, Except.bind, pure, Except.pure]
  simp only [hdr, be32, s16be, List.cons_append, List.nil_append, List.length_cons, hpos, hne, if_false]
  rw [RxMsg.parseHdr_v0 _ _ _ _ _ _ rssi toa _ (by show ¬ (((0 : Nat) : Int) ≥ 1); omega) hr hto]
  simp only [List.drop_succ_cons, List.drop_zero]
  rw [RxMsg.parseBurst_v0 _ u l rfl hb]
  cases usbit2sbit u <;> rfl

/-- parsing the version-0 layout (legacy padding or not) of a burst with soft bits in -127..127 -/
theorem RxMsg.parse_v0 (self : RxMsg) (fn tn : Nat) (rssi toa : Int) (b : List Int) (l : Bool)
    (ht : tn < 8) (hf : fn < 4294967296) (hr : -255 ≤ rssi ∧ rssi ≤ 0)
    (hto : -32768 ≤ toa ∧ toa ≤ 32767) (hb : b.length = 148 ∨ b.length = 444)
    (hs : ∀ s ∈ b, -127 ≤ s ∧ s ≤ 127) :
    RxMsg.parseMsgFrom self (hdr 0 tn fn ++ [(-rssi).toNat] ++ s16be toa ++ b.map softOctet ++ pad 0 l)
      = .ok { self with ver := 0, fn := some (fn : Int), tn := some (tn : Int), rssi := some rssi,
                        toa256 := some toa, modType := Modulation.pickByBl b.length, burst := some b } := by
  rw [RxMsg.parse_v0_raw self fn tn rssi toa (b.map softOctet) l ht hf hr hto (by simpa using hb),
    usbit2sbit_soft b hs]
  simp only [List.length_map]

/-- parsing the version-1 layout of a NOPE indication -/
theorem RxMsg.parse_v1_nope (self : RxMsg) (fn tn : Nat) (rssi toa ci : Int)
    (ht : tn < 8) (hf : fn < 4294967296) (hr : -255 ≤ rssi ∧ rssi ≤ 0)
    (hto : -32768 ≤ toa ∧ toa ≤ 32767) (hci : -32768 ≤ ci ∧ ci ≤ 32767) :
    RxMsg.parseMsgFrom self (hdr 1 tn fn ++ [(-rssi).toNat] ++ s16be toa ++ ([128] ++ s16be ci))
      = .ok { self with ver := 1, fn := some (fn : Int), tn := some (tn : Int), rssi := some rssi,
                        toa256 := some toa, nopeInd := true, modType := none, tscSet := none, tsc := none,
                        ci := some ci, burst := none } := by
  have e : hdr 1 tn fn ++ [(-rssi).toNat] ++ s16be toa ++ ([128] ++ s16be ci)
      = hdr 1 tn fn ++ ((-rssi).toNat :: (s16be toa ++ (128 :: (s16be ci ++ [])))) := by
    simp only [List.append_assoc, List.cons_append, List.nil_append, List.append_nil]
  rw [e]
  unfold RxMsg.parseMsgFrom
  simp only [parseCommon_hdr 1 tn fn _ (by omega) ht hf, rxHdrLen_v1, bind, Except.bind, pure, Except.pure]
  simp only [hdr, be32, s16be, List.cons_append, List.nil_append, List.length_cons, List.length_nil,
    show ¬ (0 + 1 + 1 + 1 + 1 + 1 + 1 + 1 + 1 + 1 + 1 + 1 < 11) by omega, if_false, if_true]
  rw [RxMsg.parseHdr_v1 _ _ _ _ _ _ 128 rssi toa ci _ (by show (((1 : Nat) : Int) ≥ 1); omega) hr hto hci]
  simp only [parseMts_parts, mtsParts_nope]
  rfl

/-- parsing the version-1 layout of a burst with MTS information and soft bits in -127..127 -/
theorem RxMsg.parse_v1_burst (self : RxMsg) (fn tn : Nat) (rssi toa ci : Int) (mod : Modulation)
    (set tsc : Nat) (md : Mod) (b : List Int)
    (ht : tn < 8) (hf : fn < 4294967296) (hr : -255 ≤ rssi ∧ rssi ≤ 0)
    (hto : -32768 ≤ toa ∧ toa ≤ 32767) (hci : -32768 ≤ ci ∧ ci ≤ 32767)
    (hset : set < 4) (htsc : tsc < 8) (hg : mod.coding = 0 ∨ set ≤ 1) (hmd : modOf mod.coding set = some md)
    (hbne : b ≠ []) (hs : ∀ s ∈ b, -127 ≤ s ∧ s ≤ 127) :
    RxMsg.parseMsgFrom self
        (hdr 1 tn fn ++ [(-rssi).toNat] ++ s16be toa ++ ([8 * md.bits + tsc] ++ s16be ci) ++ b.map softOctet)
      = .ok { self with ver := 1, fn := some (fn : Int), tn := some (tn : Int), rssi := some rssi,
                        toa256 := some toa, nopeInd := false, modType := some mod, tscSet := some (set : Int),
                        tsc := some (tsc : Int), ci := some ci, burst := some b } := by
  have e : hdr 1 tn fn ++ [(-rssi).toNat] ++ s16be toa ++ ([8 * md.bits + tsc] ++ s16be ci) ++ b.map softOctet
      = hdr 1 tn fn ++ ((-rssi).toNat :: (s16be toa ++ ((8 * md.bits + tsc) :: (s16be ci ++ b.map softOctet)))) := by
    simp only [List.append_assoc, List.cons_append, List.nil_append]
  have hfin := mtsParts_fin mod ⟨set, hset⟩ ⟨tsc, htsc⟩ hg
  simp only [hmd, Option.map_some, Option.some.injEq] at hfin
  have hlen : 0 < (b.map softOctet).length := by
    simp only [List.length_map]; exact List.length_pos_iff.mpr hbne
  rw [e]
  unfold RxMsg.parseMsgFrom
  simp only [parseCommon_hdr 1 tn fn _ (by omega) ht hf, rxHdrLen_v1, bind, Except.bind, pure, Except.pure]
  simp only [hdr, be32, s16be, List.cons_append, List.nil_append, List.length_cons,
    show ¬ ((b.map softOctet).length + 1 + 1 + 1 + 1 + 1 + 1 + 1 + 1 + 1 + 1 + 1 < 11) by omega,
    show ¬ ((b.map softOctet).length + 1 + 1 + 1 + 1 + 1 + 1 + 1 + 1 + 1 + 1 + 1 = 11) by omega, if_false]
  rw [RxMsg.parseHdr_v1 _ _ _ _ _ _ _ rssi toa ci _ (by show (((1 : Nat) : Int) ≥ 1); omega) hr hto hci]
  simp only [parseMts_parts, hfin, List.drop_succ_cons, List.drop_zero]
  rw [RxMsg.parseBurst_v1 _ b (by show ¬ (((1 : Nat) : Int) = 0); omega) hs]
  rfl

end OsmoVerif.Trxd
