/-
Helper lemmas about `OsmoVerif.Model.Trxd` shared by the TRXD properties (C13, C01, C04, C15).
-/
import OsmoVerif.Spec.TrxdRanges
import OsmoVerif.Spec.TrxdLayout

set_option linter.unusedSimpArgs false

namespace OsmoVerif.Trxd
open OsmoVerif OsmoVerif.Spec.TrxdRanges

/-! ### the regenerated constants are the protocol's numbers -/

theorem mem_knownVersions (v : Int) : v ∈ Gen.Trxd.knownVersions ↔ (v = 0 ∨ v = 1) := by
  simp [Gen.Trxd.knownVersions]

theorem hyperframe_eq : Gen.Trxd.gsmHyperframe = 2715648 := by decide
theorem gmskBurstLen_eq : Gen.Trxd.gmskBurstLen = 148 := by decide
theorem edgeBurstLen_eq : Gen.Trxd.edgeBurstLen = 444 := by decide
theorem pwrMin_eq : Gen.Trxd.pwrMin = 0 := by decide
theorem pwrMax_eq : Gen.Trxd.pwrMax = 255 := by decide
theorem rssiMin_eq : Gen.Trxd.rssiMin = -120 := by decide
theorem rssiMax_eq : Gen.Trxd.rssiMax = -47 := by decide
theorem toa256Min_eq : Gen.Trxd.toa256Min = -32768 := by decide
theorem toa256Max_eq : Gen.Trxd.toa256Max = 32767 := by decide
theorem ciMin_eq : Gen.Trxd.ciMin = -1280 := by decide
theorem ciMax_eq : Gen.Trxd.ciMax = 1280 := by decide
theorem nopeInd_eq : Gen.Trxd.nopeInd = 128 := by decide
theorem chdrLen_eq : Gen.Trxd.chdrLen = 5 := by decide

theorem mem_tscRange (v : Int) : v ∈ Gen.Trxd.tscRange ↔ (0 ≤ v ∧ v ≤ 7) := by
  simp only [Gen.Trxd.tscRange, List.mem_cons, List.not_mem_nil, or_false]
  omega

/-! ### validate -/

/-- `a; b` in a `do` block of checks -/
theorem bind_ok_iff (a : Except Exc Unit) (f : Unit → Except Exc Unit) :
    (a >>= f) = .ok () ↔ a = .ok () ∧ f () = .ok () := by
  cases a <;> simp [bind, Except.bind]

theorem ite_err_iff (c : Prop) {d : Decidable c} (e : Exc) (x : Except Exc Unit) :
    (@ite _ c d (.error e) x) = .ok () ↔ ¬ c ∧ x = .ok () := by
  split <;> simp_all

theorem validateCommon_iff (ver : Int) (fn tn : Option Int) :
    validateCommon ver fn tn = .ok () ↔ knownVersion ver ∧ within 0 2715647 fn ∧ within 0 7 tn := by
  unfold validateCommon knownVersion
  cases fn <;> cases tn <;>
    simp only [within, hyperframe_eq, List.contains_eq_mem, decide_eq_true_eq, mem_knownVersions,
      ite_err_iff, reduceCtorEq, and_false, false_and, and_true, Decidable.not_not] <;> omega

theorem TxMsg.validateOwn_iff (m : TxMsg) :
    m.validateOwn = .ok () ↔ within 0 255 m.pwr ∧ burstLen148or444 m.burst := by
  unfold TxMsg.validateOwn
  rcases m with ⟨ver, fn, tn, pwr, burst⟩
  cases pwr <;> cases burst <;>
    simp only [within, burstLen148or444, pwrMin_eq, pwrMax_eq, gmskBurstLen_eq, edgeBurstLen_eq,
      ite_err_iff, reduceCtorEq, and_false, false_and, and_true, Decidable.not_not] <;> omega

theorem TxMsg.validate_iff (m : TxMsg) : m.validate = .ok () ↔ InRangeTx m := by
  unfold TxMsg.validate InRangeTx
  rw [bind_ok_iff, validateCommon_iff, TxMsg.validateOwn_iff]
  simp only [and_assoc]

/-- the regenerated `Modulation` enum agrees with the protocol's coding/length table -/
theorem modLen_coding (mod : Modulation) : modLen mod.coding = some mod.bl := by
  revert mod; decide

theorem gmsk_iff_coding (mod : Modulation) : mod = Modulation.gmsk ↔ mod.coding = 0 := by
  revert mod; decide

theorem RxMsg.validateMeas_iff (m : RxMsg) :
    m.validateMeas = .ok () ↔ within (-120) (-47) m.rssi ∧ within (-32768) 32767 m.toa256 := by
  unfold RxMsg.validateMeas
  cases m.rssi <;> cases m.toa256 <;>
    simp only [within, rssiMin_eq, rssiMax_eq, toa256Min_eq, toa256Max_eq,
      ite_err_iff, reduceCtorEq, and_false, false_and, and_true, Decidable.not_not] <;> omega

theorem RxMsg.validate_v0_iff (m : RxMsg) (hv : m.ver = 0) :
    (m.validateMts = .ok () ∧ m.validateCi = .ok () ∧ m.validateBurst = .ok ()) ↔
      burstLen148or444 m.burst := by
  unfold RxMsg.validateMts RxMsg.validateCi RxMsg.validateBurst RxMsg.validateBurstV0
  cases m.burst <;>
    simp only [hv, burstLen148or444, gmskBurstLen_eq, edgeBurstLen_eq, ite_err_iff, reduceCtorEq,
      and_false, false_and, and_true, true_and, Decidable.not_not, if_true, if_false,
      show ¬ ((0 : Int) ≥ 1) by omega, show ¬ ((0 : Int) ≥ 1 ∧ m.nopeInd = false) by omega]

theorem RxMsg.validate_v1_iff (m : RxMsg) (hv : m.ver = 1) :
    (m.validateMts = .ok () ∧ m.validateCi = .ok () ∧ m.validateBurst = .ok ()) ↔
      (within (-1280) 1280 m.ci ∧ (if m.nopeInd then m.burst = none else InRangeMts m)) := by
  unfold RxMsg.validateMts RxMsg.validateCi RxMsg.validateBurst RxMsg.validateBurstV1 InRangeMts
  have h1 : ¬ ((1 : Int) = 0) := by omega
  have h2 : (1 : Int) ≥ 1 := by omega
  rcases m with ⟨ver, fn, tn, rssi, toa, mod, nope, set, tsc, ci, burst⟩
  simp only at hv
  subst hv
  cases nope <;> cases mod <;> cases set <;> cases tsc <;> cases ci <;> cases burst <;>
    simp only [h1, h2, within, burstLenOfMod, ciMin_eq, ciMax_eq, ite_err_iff, reduceCtorEq,
      and_false, false_and, and_true, true_and, Decidable.not_not, if_true, if_false,
      List.contains_eq_mem, decide_eq_true_eq, mem_tscRange, gmsk_iff_coding, modLen_coding,
      Option.some.injEq, Bool.false_eq_true, ne_eq, iff_false, false_iff, not_false_eq_true,
      not_true_eq_false, not_and, iff_self, true_iff] <;>
    (try split) <;> first | omega | (intros; first | contradiction | omega)

end OsmoVerif.Trxd
