/-
Helper lemmas for the hopping models (C07): the `2^NBIN - 1` mask, mask = mod,
table-address bounds, Python/C primitive operations on in-range values, and the
closed form to which the Python model, the firmware model and the standard's
algorithm all reduce.  Everything is algebraic; the only kernel evaluation is the
127-case mask table `pnm_core`.
-/
import OsmoVerif.Model.Hopping
import OsmoVerif.Spec.Hopping
namespace OsmoVerif.Hopping
open OsmoVerif OsmoVerif.GsmTime
open OsmoVerif.Spec.Hopping (nbin rntable)

theorem pnm_core : ∀ n < 128, 1 ≤ n → powNbinMask n = 2 ^ (Nat.log2 n + 1) - 1 := by decide +kernel

theorem powNbinMask_eq (n : Nat) (h1 : 1 ≤ n) (h2 : n < 128) : powNbinMask n = 2 ^ nbin n - 1 :=
  pnm_core n h2 h1

theorem and_powNbinMask (x n : Nat) (h1 : 1 ≤ n) (h2 : n < 128) :
    x &&& powNbinMask n = x % 2 ^ nbin n := by
  rw [powNbinMask_eq n h1 h2, Nat.and_two_pow_sub_one_eq_mod]

theorem and_63 (x : Nat) : x &&& 63 = x % 64 := Nat.and_two_pow_sub_one_eq_mod x 6

theorem xor_lt_64 {a b : Nat} (ha : a < 64) (hb : b < 64) : a ^^^ b < 64 :=
  Nat.xor_lt_two_pow (n := 6) ha hb

theorem pyMod_nat (a n : Nat) (hn : 0 < n) : pyMod (a : Int) (n : Int) = .ok ((a % n : Nat) : Int) := by
  have : (n : Int) ≠ 0 := by omega
  simp only [pyMod, this, if_false]
  rw [Int.fmod_eq_emod_of_nonneg _ (by omega), Int.natCast_emod]

theorem pyIndex_nat {α : Type} (l : List α) (i : Nat) (h : i < l.length) :
    pyIndex l (i : Int) = .ok l[i] := by
  have : (0 : Int) ≤ (i : Int) := by omega
  simp only [pyIndex, this, if_true, Int.toNat_natCast, List.getElem?_eq_getElem h]

theorem pyXor_nat (a b : Nat) : pyXor (a : Int) b = ((a ^^^ b : Nat) : Int) := by
  have : (0 : Int) ≤ (a : Int) := by omega
  simp only [pyXor, this, if_true, Int.toNat_natCast]

theorem rntable_length : rntable.length = 114 := by decide


/-- `S` once the table entry `r` is known. -/
def sVal (r t2 t3 n : Nat) : Nat :=
  if (t2 + r) % 2 ^ nbin n < n then (t2 + r) % 2 ^ nbin n
  else ((t2 + r) % 2 ^ nbin n + t3 % 2 ^ nbin n) % n

theorem spec_sOf (x t2 t3 n : Nat) (h : x + t3 < 114) :
    Spec.Hopping.sOf x t2 t3 n = some (sVal (rntable[x + t3]'(by rw [rntable_length]; exact h)) t2 t3 n) := by
  have hl : x + t3 < rntable.length := by rw [rntable_length]; exact h
  simp only [Spec.Hopping.sOf, List.getElem?_eq_getElem hl, sVal]

theorem t1r_eq (fn : Nat) : Spec.Hopping.t1r fn = fn / (26 * 51) % 64 := by
  simp only [Spec.Hopping.t1r, Spec.Hopping.t1]; omega

theorem idx_lt (hsn fn : Nat) (hh : hsn < 64) : (hsn ^^^ (fn / (26 * 51) % 64)) + fn % 51 < 114 := by
  have := xor_lt_64 hh (Nat.mod_lt (fn / (26 * 51)) (by decide : 0 < 64))
  have := Nat.mod_lt fn (by decide : 0 < 51)
  omega

/-- the standard's MAI in closed form on its domain -/
theorem spec_mai (hsn maio n fn : Nat) (hh : hsn < 64) (hn : 1 ≤ n) :
    Spec.Hopping.mai hsn maio n fn = some (
      if hsn = 0 then (fn + maio) % n
      else (sVal (rntable[(hsn ^^^ (fn / (26 * 51) % 64)) + fn % 51]'(by
              rw [rntable_length]; exact idx_lt hsn fn hh)) (fn % 26) (fn % 51) n + maio) % n) := by
  have hn0 : n ≠ 0 := by omega
  simp only [Spec.Hopping.mai, hn0, if_false]
  by_cases h0 : hsn = 0
  · simp only [h0, if_true]
  · simp only [h0, if_false, t1r_eq, Spec.Hopping.t2, Spec.Hopping.t3]
    rw [spec_sOf _ _ _ _ (idx_lt hsn fn hh)]


theorem pyPnm_eq (n : Nat) :
    ((n >>> 0) ||| (n >>> 1) ||| (n >>> 2) ||| (n >>> 3) ||| (n >>> 4) ||| (n >>> 5) ||| (n >>> 6))
      = powNbinMask n := by
  simp only [powNbinMask, Nat.shiftRight_zero]

theorem pyInit_ok {α : Type} (hsn : Nat) (maio : Int) (ma : List α) (hh : hsn < 64)
    (hn0 : ma.length ≠ 0) :
    pyInit (hsn : Int) maio ma
      = .ok { hsn := (hsn : Int), maio := maio, ma := ma, pnm := powNbinMask ma.length } := by
  have hr : ¬ ¬ ((0 : Int) ≤ (hsn : Int) ∧ (hsn : Int) < 64) := by omega
  simp only [pyInit, hn0, if_false, if_neg hr, pyPnm_eq]

theorem sVal_lt (r t2 t3 n : Nat) (hn : 0 < n) : sVal r t2 t3 n < n := by
  unfold sVal
  split
  · assumption
  · exact Nat.mod_lt _ hn

theorem py_resolve_closed {α : Type} (hsn maio fn : Nat) (ma : List α)
    (hh : hsn < 64) (h1 : 1 ≤ ma.length) (h2 : ma.length ≤ 64) (htab : Gen.pyRntable = rntable) :
    ∃ i, ∃ hi : i < ma.length,
      Spec.Hopping.mai hsn maio ma.length fn = some i ∧
      pyResolve (hsn : Int) (maio : Int) ma fn = .ok ma[i] := by
  have hn0 : ma.length ≠ 0 := by omega
  have hnpos : 0 < ma.length := by omega
  rw [spec_mai hsn maio ma.length fn hh h1]
  simp only [pyResolve, pyInit_ok hsn (maio : Int) ma hh hn0]
  by_cases h0 : hsn = 0
  · subst h0
    refine ⟨(fn + maio) % ma.length, Nat.mod_lt _ hnpos, by simp only [if_true], ?_⟩
    simp only [HoppingParams.resolve, Int.natCast_zero, if_true,
      ← Int.natCast_add, pyMod_nat _ _ hnpos, pyIndex_nat _ _ (Nat.mod_lt _ hnpos)]
  · have hidx := idx_lt hsn fn hh
    have hidx' : (hsn ^^^ (fn / (26 * 51) % 64)) + fn % 51 < rntable.length := by
      rw [rntable_length]; exact hidx
    have hz : ¬ ((hsn : Int) = 0) := by omega
    have hslt := sVal_lt (rntable[(hsn ^^^ (fn / (26 * 51) % 64)) + fn % 51]) (fn % 26) (fn % 51) ma.length hnpos
    refine ⟨(sVal (rntable[(hsn ^^^ (fn / (26 * 51) % 64)) + fn % 51]) (fn % 26) (fn % 51) ma.length + maio) % ma.length,
      Nat.mod_lt _ hnpos, by simp only [h0, if_false], ?_⟩
    simp only [HoppingParams.resolve, hz, if_false, pyFn2GsmTime, htab, and_63, pyXor_nat, ← Int.natCast_add, pyIndex_nat _ _ hidx',
      and_powNbinMask _ _ h1 (by omega : ma.length < 128)]
    by_cases hb : (fn % 26 + rntable[(hsn ^^^ (fn / (26 * 51) % 64)) + fn % 51]) % 2 ^ nbin ma.length < ma.length
    · simp only [hb, if_true, ← Int.natCast_add, pyMod_nat _ _ hnpos, sVal]
      rw [pyIndex_nat _ _ (Nat.mod_lt _ hnpos)]
    · simp only [hb, if_false, ← Int.natCast_add, pyMod_nat _ _ hnpos, sVal]
      rw [pyIndex_nat _ _ (Nat.mod_lt _ hnpos)]


theorem i16_roundtrip (a : Nat) (h : a < 65536) : i16ToU16 (toI16 (a : Int)) = a := by
  simp only [toI16, i16ToU16]
  have e : (a : Int) % 65536 = a := by omega
  rw [e]
  split <;> omega

theorem cMod_pos (a n : Nat) (hn : 0 < n) : cMod a n = .ok (a % n) := by
  have : n ≠ 0 := by omega
  simp only [cMod, this, if_false]

theorem cFn2GsmTime_hyper (fn : Nat) (h : fn < 2715648) :
    cFn2GsmTime fn = ⟨fn, fn / (26 * 51), fn % 26, fn % 51, fn / 51 % 8⟩ := by
  simp only [cFn2GsmTime, u8, u16, u32, GsmTime.mk.injEq]
  omega

theorem fw_hop_closed (hsn maio n fn : Nat) (tbl : List Nat)
    (hh : hsn < 64) (hm : maio < 256) (h1 : 1 ≤ n) (h2 : n ≤ 64) (hl : n ≤ tbl.length)
    (hu : ∀ a ∈ tbl, a < 65536) (hf : fn < 2715648) (htab : Gen.fwRnTable = rntable) :
    ∃ i, ∃ hi : i < tbl.length,
      Spec.Hopping.mai hsn maio n fn = some i ∧ fwHop hsn maio n tbl fn = .ok tbl[i] := by
  have hnpos : 0 < n := by omega
  have e1 : u8 hsn = hsn := by simp only [u8]; omega
  have e2 : u8 maio = maio := by simp only [u8]; omega
  have e3 : u8 n = n := by simp only [u8]; omega
  have e4 : u32 (fn + maio) = fn + maio := by simp only [u32]; omega
  have c6 : ¬ ((6 : Nat) = 0) := by decide
  have c1 : (1 : Nat) ≠ 0 := by decide
  rw [spec_mai hsn maio n fn hh h1]
  by_cases h0 : hsn = 0
  · subst h0
    have hi : (fn + maio) % n < tbl.length := Nat.lt_of_lt_of_le (Nat.mod_lt _ hnpos) hl
    refine ⟨(fn + maio) % n, hi, by simp only [if_true], ?_⟩
    simp only [fwHop, fwGetParamsArfcn, c6, c1, ne_eq, not_false_eq_true, if_true, if_false,
      fwHopSeqGen, cFn2GsmTime_hyper fn hf, e1, e2, e3, e4, cMod_pos _ _ hnpos,
      List.getElem?_eq_getElem hi, i16_roundtrip _ (hu _ (List.getElem_mem hi))]
  · have hidx := idx_lt hsn fn hh
    have hidx' : (hsn ^^^ (fn / (26 * 51) % 64)) + fn % 51 < rntable.length := by
      rw [rntable_length]; exact hidx
    have hi : (sVal (rntable[(hsn ^^^ (fn / (26 * 51) % 64)) + fn % 51]) (fn % 26) (fn % 51) n + maio) % n
        < tbl.length := Nat.lt_of_lt_of_le (Nat.mod_lt _ hnpos) hl
    refine ⟨(sVal (rntable[(hsn ^^^ (fn / (26 * 51) % 64)) + fn % 51]) (fn % 26) (fn % 51) n + maio) % n,
      hi, by simp only [h0, if_false], ?_⟩
    simp only [fwHop, fwGetParamsArfcn, c6, c1, ne_eq, not_false_eq_true, if_true, if_false,
      fwHopSeqGen, cFn2GsmTime_hyper fn hf, e1, e2, e3, h0, htab, and_63,
      List.getElem?_eq_getElem hidx', and_powNbinMask _ _ h1 (by omega : n < 128)]
    by_cases hb : (fn % 26 + rntable[(hsn ^^^ (fn / (26 * 51) % 64)) + fn % 51]) % 2 ^ nbin n < n
    · simp only [hb, if_true, cMod_pos _ _ hnpos]
      simp only [sVal, hb, if_true] at hi ⊢
      simp only [List.getElem?_eq_getElem hi, i16_roundtrip _ (hu _ (List.getElem_mem hi))]
    · simp only [hb, if_false, cMod_pos _ _ hnpos]
      simp only [sVal, hb, if_false] at hi ⊢
      simp only [List.getElem?_eq_getElem hi, i16_roundtrip _ (hu _ (List.getElem_mem hi))]

/-! ### totality of `resolve` after a successful `__init__` -/

theorem pyMod_pos (a : Int) (n : Nat) (hn : 0 < n) :
    ∃ r : Nat, r < n ∧ pyMod a (n : Int) = .ok (r : Int) := by
  have h0 : (n : Int) ≠ 0 := by omega
  have hp : (0 : Int) < (n : Int) := by omega
  refine ⟨(a % (n : Int)).toNat, ?_, ?_⟩
  · have := Int.emod_lt_of_pos a hp
    have := Int.emod_nonneg a h0
    omega
  · simp only [pyMod, h0, if_false]
    rw [Int.fmod_eq_emod_of_nonneg _ (by omega), Int.toNat_of_nonneg (Int.emod_nonneg a h0)]

theorem pyIndex_mem {α : Type} (l : List α) (i : Nat) (h : i < l.length) :
    ∃ v, v ∈ l ∧ pyIndex l (i : Int) = .ok v :=
  ⟨l[i], List.getElem_mem h, pyIndex_nat l i h⟩

/-- what a successful `__init__` establishes -/
theorem pyInit_inv {α : Type} (hsn maio : Int) (ma : List α) (hp : HoppingParams α)
    (h : pyInit hsn maio ma = .ok hp) :
    ma.length ≠ 0 ∧ 0 ≤ hsn ∧ hsn < 64 ∧ hp.hsn = hsn ∧ hp.maio = maio ∧ hp.ma = ma ∧
      hp.pnm = powNbinMask ma.length := by
  unfold pyInit at h
  simp only [pyPnm_eq] at h
  by_cases hn : ma.length = 0
  · simp only [hn, if_true] at h; cases h
  · by_cases hr : (0 ≤ hsn ∧ hsn < 64)
    · simp only [hn, if_false, hr] at h
      cases h
      exact ⟨hn, hr.1, hr.2, rfl, rfl, rfl, rfl⟩
    · simp only [hn, if_false, hr, not_false_eq_true, if_true] at h; cases h

theorem py_resolve_total_aux {α : Type} (hsn : Nat) (maio : Int) (ma : List α) (pnm fn : Nat)
    (hh : hsn < 64) (hn : ma.length ≠ 0) (hlen : Gen.pyRntable.length = 114) :
    ∃ v, v ∈ ma ∧
      (HoppingParams.mk (hsn : Int) maio ma pnm).resolve fn = .ok v := by
  have hnpos : 0 < ma.length := by omega
  by_cases h0 : hsn = 0
  · subst h0
    obtain ⟨r, hr, hm⟩ := pyMod_pos ((fn : Int) + maio) ma.length hnpos
    obtain ⟨v, hv, hi⟩ := pyIndex_mem ma r hr
    exact ⟨v, hv, by simp only [HoppingParams.resolve, Int.natCast_zero, if_true, hm, hi]⟩
  · have hz : ¬ ((hsn : Int) = 0) := by omega
    have hidx : (hsn ^^^ (fn / (26 * 51) % 64)) + fn % 51 < Gen.pyRntable.length := by
      rw [hlen]; exact idx_lt hsn fn hh
    simp only [HoppingParams.resolve, hz, if_false, pyFn2GsmTime, and_63, pyXor_nat,
      ← Int.natCast_add, pyIndex_nat _ _ hidx]
    generalize Gen.pyRntable[(hsn ^^^ (fn / (26 * 51) % 64)) + fn % 51] = r0
    by_cases hb : (fn % 26 + r0) &&& pnm < ma.length
    · obtain ⟨r, hr, hm⟩ := pyMod_pos ((((fn % 26 + r0) &&& pnm : Nat) : Int) + maio) ma.length hnpos
      obtain ⟨v, hv, hi⟩ := pyIndex_mem ma r hr
      exact ⟨v, hv, by simp only [hb, if_true, hm, hi]⟩
    · obtain ⟨s, _, hs⟩ := pyMod_pos ((((fn % 26 + r0) &&& pnm) + (fn % 51 &&& pnm) : Nat) : Int) ma.length hnpos
      obtain ⟨r, hr, hm⟩ := pyMod_pos ((s : Int) + maio) ma.length hnpos
      obtain ⟨v, hv, hi⟩ := pyIndex_mem ma r hr
      exact ⟨v, hv, by simp only [hb, if_false, hs, hm, hi]⟩

end OsmoVerif.Hopping
