/- Consequences of the abstract "on the fly" execute (`Spec.TdmaSched.ExecOnTheFly`): where one
particular item is after an `execute` whose callbacks schedule from inside (C08). -/
import OsmoVerif.Lemmas.TdmaSchedSpec

set_option linter.unusedVariables false

namespace OsmoVerif.Spec.TdmaSched

variable {κ : Type} [DecidableEq κ]

theorem run_append : ∀ (a b : List (Op κ)) (due : Due κ),
    run due (a ++ b) = ((run (run due a).1 b).1, (run due a).2 ++ (run (run due a).1 b).2)
  | [], b, due => by simp [run]
  | op :: a, b, due => by
    simp only [List.cons_append, run, run_append a b (step due op).1, List.cons_append]

theorem run_length : ∀ (ops : List (Op κ)) (due : Due κ), (run due ops).2.length = ops.length
  | [], _ => rfl
  | op :: ops, due => by simp [run, run_length ops]

/-! ### calls made from inside only add items -/

theorem step_call_prefix (due : Due κ) (op : Op κ) (h : isCall op = true) (e : Nat) :
    due e <+: (step due op).1 e := by
  cases op with
  | schedule off it =>
    simp only [step, schedule]
    split
    · exact List.prefix_refl _
    · exact put_prefix due _ it e
  | scheduleSet off fs =>
    simp only [step, scheduleSet]
    have := putFrames_prefix fs due off e
    cases hpf : putFrames due off fs with
    | mk due' ok => rw [hpf] at this; cases ok <;> exact this
  | advance => simp [isCall] at h
  | execute => simp [isCall] at h
  | reset => simp [isCall] at h

theorem run_calls_prefix : ∀ (ops : List (Op κ)) (due : Due κ), (∀ op ∈ ops, isCall op = true) →
    ∀ e, due e <+: (run due ops).1 e
  | [], due, _, e => List.prefix_refl _
  | op :: ops, due, h, e => by
    simp only [run]
    exact (step_call_prefix due op (h op (List.mem_cons_self ..)) e).trans
      (run_calls_prefix ops _ (fun o ho => h o (List.mem_cons_of_mem _ ho)) e)

theorem trackStep_call (pos : Option Nat) (op : Op κ) (h : isCall op = true) :
    trackStep pos op = (pos, 0) := by
  cases op <;> first | rfl | simp [isCall] at h

/-- calls that do not place `x` leave `x` where it is -/
theorem run_calls_at (x : AItem κ) : ∀ (ops : List (Op κ)) (due : Due κ) (pos : Option Nat),
    At x due pos → (∀ op ∈ ops, isCall op = true) → (∀ op ∈ ops, ∀ it ∈ placed op, it ≠ x) →
    At x (run due ops).1 pos
  | [], _, _, hat, _, _ => hat
  | op :: ops, due, pos, hat, hc, hx => by
    have h1 := (step_track x due pos op hat (hx op (List.mem_cons_self ..))).1
    rw [trackStep_call pos op (hc op (List.mem_cons_self ..))] at h1
    simp only [run]
    exact run_calls_at x ops _ pos h1 (fun o ho => hc o (List.mem_cons_of_mem _ ho))
      (fun o ho => hx o (List.mem_cons_of_mem _ ho))

/-! ### following one item through an `execute` with on-the-fly scheduling -/

/-- `ran` is a permutation of everything the frame due now held when it was emptied: nothing that
was scheduled on the fly for the current frame is lost -/
theorem execOnTheFly_perm (scr : AItem κ → List (Op κ)) (due due' : Due κ) (ran : List (AItem κ))
    (rets : List Int) (hscr : ∀ y, ∀ op ∈ scr y, isCall op = true)
    (h : ExecOnTheFly scr due ran due' rets) :
    ran.Perm ((run due (ran.flatMap scr)).1 0) := by
  obtain ⟨pre, fly, hran, hv, hfly, _, _⟩ := h
  have hcalls : ∀ op ∈ ran.flatMap scr, isCall op = true := by
    intro op hop
    obtain ⟨y, _, hy⟩ := List.mem_flatMap.mp hop
    exact hscr y op hy
  obtain ⟨t, ht⟩ := run_calls_prefix (ran.flatMap scr) due hcalls 0
  have hf : fly = t := by rw [hfly, ← ht]; simp
  rw [← ht, ← hf]
  conv => lhs; rw [hran]
  exact List.Perm.append_right fly hv.1

/-- an `execute` whose callbacks schedule on the fly but never place `x` treats `x` like the plain
`execute`: it runs iff it was due now, and is pending nowhere afterwards; otherwise it stays -/
theorem execOnTheFly_track (scr : AItem κ → List (Op κ)) (due due' : Due κ) (ran : List (AItem κ))
    (rets : List Int) (x : AItem κ) (pos : Option Nat)
    (hscr : ∀ y, ∀ op ∈ scr y, isCall op = true)
    (h : ExecOnTheFly scr due ran due' rets) (hat : At x due pos)
    (hx : ∀ op ∈ ran.flatMap scr, ∀ it ∈ placed op, it ≠ x) :
    At x due' (trackStep pos (Op.execute : Op κ)).1 ∧ ran.count x = (trackStep pos (Op.execute : Op κ)).2 := by
  have hperm := execOnTheFly_perm scr due due' ran rets hscr h
  obtain ⟨pre, fly, hran, hv, hfly, hdue', _⟩ := h
  have hcalls : ∀ op ∈ ran.flatMap scr, isCall op = true := by
    intro op hop
    obtain ⟨y, _, hy⟩ := List.mem_flatMap.mp hop
    exact hscr y op hy
  have hat1 := run_calls_at x (ran.flatMap scr) due pos hat hcalls hx
  obtain ⟨h1, h2⟩ := step_track x (run due (ran.flatMap scr)).1 pos .execute hat1 (by simp [placed])
  refine ⟨?_, ?_⟩
  · rw [hdue']; exact h1
  · rw [← h2, hperm.count_eq]
    simp only [step, execute]

/-! ### an item scheduled on the fly -/

theorem at_put_fresh (x : AItem κ) (due : Due κ) (d : Nat) (hd : d < 25) (hat : At x due none) :
    At x (put due d x) (some d) := by
  refine ⟨fun d' h => by simp only [Option.some.injEq] at h; omega, ?_⟩
  intro e he
  have h0 := hat.2 e he
  simp only [reduceCtorEq, if_false] at h0
  simp only [put]
  by_cases hed : e = d
  · subst hed
    simp [List.count_append, h0]
  · have : ¬ (some d = some e) := by simp only [Option.some.injEq]; omega
    simp only [hed, if_false, this, h0]

/-- among the calls made from inside, exactly one — `schedule off x`, which returned 0 — places the
fresh item `x`: afterwards `x` is pending exactly once, in the frame `off` ahead -/
theorem calls_place_fresh (x : AItem κ) (due : Due κ) (pre post : List (Op κ)) (off : Nat) (hoff : off < 25)
    (hat : At x due none)
    (hcpre : ∀ op ∈ pre, isCall op = true) (hcpost : ∀ op ∈ post, isCall op = true)
    (hxpre : ∀ op ∈ pre, ∀ it ∈ placed op, it ≠ x) (hxpost : ∀ op ∈ post, ∀ it ∈ placed op, it ≠ x)
    (hrc : ((run due (pre ++ Op.schedule off x :: post)).2.map (·.rc))[pre.length]? = some 0) :
    At x (run due (pre ++ Op.schedule off x :: post)).1 (some off) := by
  rw [run_append] at hrc ⊢
  simp only [run] at hrc ⊢
  have hat1 := run_calls_at x pre due none hat hcpre hxpre
  have hlen := run_length pre due
  simp only [List.map_append, List.map_cons] at hrc
  rw [List.getElem?_append_right (by simp [hlen])] at hrc
  simp only [List.length_map, hlen, Nat.sub_self, List.getElem?_cons_zero, Option.some.injEq] at hrc
  have hslot : slot off = off := by simp only [slot, depth]; omega
  have hput : (step (run due pre).1 (Op.schedule off x)).1 = put (run due pre).1 off x := by
    simp only [step, schedule, hslot] at hrc ⊢
    split
    · rename_i hf; simp [hf] at hrc
    · rfl
  rw [hput]
  exact run_calls_at x post _ (some off) (at_put_fresh x _ off hoff hat1) hcpost hxpost

/-- among the calls made from inside, exactly one — `scheduleSet off fs`, which did not report an
overflow — places the fresh item `x`, in its `k`-th frame: afterwards `x` is pending exactly once, in
the frame `off + k` ahead -/
theorem calls_place_fresh_set (x : AItem κ) (due : Due κ) (pre post : List (Op κ)) (off k : Nat)
    (fs : List (List (AItem κ))) (f : List (AItem κ)) (r : Int) (hdepth : off + fs.length ≤ 25)
    (hat : At x due none)
    (hcpre : ∀ op ∈ pre, isCall op = true) (hcpost : ∀ op ∈ post, isCall op = true)
    (hxpre : ∀ op ∈ pre, ∀ it ∈ placed op, it ≠ x) (hxpost : ∀ op ∈ post, ∀ it ∈ placed op, it ≠ x)
    (hk : fs[k]? = some f) (hx1 : f.count x = 1)
    (hx0 : ∀ k' f', k' ≠ k → fs[k']? = some f' → x ∉ f')
    (hrc : ((run due (pre ++ Op.scheduleSet off fs :: post)).2.map (·.rc))[pre.length]? = some r)
    (hr : r ≠ -1) :
    At x (run due (pre ++ Op.scheduleSet off fs :: post)).1 (some (off + k)) := by
  rw [run_append] at hrc ⊢
  simp only [run] at hrc ⊢
  have hat1 := run_calls_at x pre due none hat hcpre hxpre
  have hlen := run_length pre due
  simp only [List.map_append, List.map_cons] at hrc
  rw [List.getElem?_append_right (by simp [hlen])] at hrc
  simp only [List.length_map, hlen, Nat.sub_self, List.getElem?_cons_zero, Option.some.injEq] at hrc
  have hklt : k < fs.length := by
    have := List.getElem?_eq_some_iff.mp hk
    exact this.1
  apply run_calls_at x post _ (some (off + k)) _ hcpost hxpost
  simp only [step, scheduleSet] at hrc ⊢
  cases hpf : putFrames (run due pre).1 off fs with
  | mk due1 ok =>
    rw [hpf] at hrc
    cases ok with
    | false => simp only [] at hrc; exact absurd hrc.symm hr
    | true =>
      simp only []
      obtain ⟨hin, hout⟩ := putFrames_ok fs (run due pre).1 due1 off hdepth hpf
      refine ⟨fun d' h => by simp only [Option.some.injEq] at h; omega, ?_⟩
      intro e he
      have h0 := hat1.2 e he
      simp only [reduceCtorEq, if_false] at h0
      by_cases hin' : off ≤ e ∧ e < off + fs.length
      · have hj : e - off < fs.length := by omega
        have hget : fs[e - off]? = some fs[e - off] := by simp [hj]
        have := hin (e - off) _ hget
        have e1 : off + (e - off) = e := by omega
        rw [e1] at this
        rw [this, List.count_append, h0]
        by_cases hek : e - off = k
        · have : fs[e - off] = f := by
            have h2 : fs[e - off]? = some f := by rw [hek]; exact hk
            rw [hget] at h2
            exact Option.some.inj h2
          have he' : some (off + k) = some e := by simp only [Option.some.injEq]; omega
          rw [this, hx1]; simp [he']
        · have he' : ¬ (some (off + k) = some e) := by simp only [Option.some.injEq]; omega
          rw [List.count_eq_zero.mpr (hx0 (e - off) _ hek hget)]; simp [he']
      · rw [hout e (by omega), h0]
        have he' : ¬ (some (off + k) = some e) := by simp only [Option.some.injEq]; omega
        simp [he']

/-- an item that the calls made from inside leave pending exactly once, due in `d` frames, and that
was pending nowhere before: if `d = 0` it runs in this very `execute`, exactly once, among the items run
after those that were due at the start, and is pending nowhere afterwards; if `d ≥ 1` it does not run
now and is pending exactly once, due in `d` frames -/
theorem execOnTheFly_placed (scr : AItem κ → List (Op κ)) (due due' : Due κ) (ran : List (AItem κ))
    (rets : List Int) (x : AItem κ) (d : Nat)
    (hscr : ∀ y, ∀ op ∈ scr y, isCall op = true)
    (h : ExecOnTheFly scr due ran due' rets) (hat : At x due none)
    (hat1 : At x (run due (ran.flatMap scr)).1 (some d)) :
    ran.count x = (if d = 0 then 1 else 0) ∧ At x due' (if d = 0 then none else some d) ∧
    (d = 0 → ∃ p f, ran = p ++ f ∧ p.Perm (due 0) ∧ x ∉ p ∧ f.count x = 1 ∧
      f = ((run due (ran.flatMap scr)).1 0).drop (due 0).length) := by
  have hperm := execOnTheFly_perm scr due due' ran rets hscr h
  obtain ⟨p, f, hran, hv, hfly, hdue', hrets⟩ := h
  obtain ⟨h1, h2⟩ := step_track x (run due (ran.flatMap scr)).1 (some d) .execute hat1 (by simp [placed])
  have hcnt : ran.count x = (if d = 0 then 1 else 0) := by
    rw [hperm.count_eq]
    simp only [step, execute] at h2
    rw [h2]
    simp only [trackStep, Option.some.injEq]
    split <;> rfl
  refine ⟨hcnt, ?_, ?_⟩
  · rw [hdue']
    simp only [step, trackStep, Option.some.injEq] at h1
    by_cases h0 : d = 0
    · simp only [h0, if_true] at h1 ⊢; exact h1
    · simp only [h0, if_false] at h1 ⊢; exact h1
  · intro h0
    have hp0 : p.count x = 0 := by
      rw [hv.1.count_eq]
      have := hat.2 0 (by decide)
      simpa using this
    refine ⟨p, f, hran, hv.1, List.count_eq_zero.mp hp0, ?_, hfly⟩
    have : ran.count x = p.count x + f.count x := by rw [hran, List.count_append]
    rw [hcnt, hp0] at this
    simp only [h0, if_true] at this
    omega

/-- the fresh item scheduled on the fly (the call returned 0) for `off`: if `off = 0` it runs in
this very `execute`, exactly once, among the items run after those that were due at the start, and is
pending nowhere afterwards; if `off ≥ 1` it does not run now and is pending exactly once, due in
`off` frames -/
theorem execOnTheFly_fresh (scr : AItem κ → List (Op κ)) (due due' : Due κ) (ran : List (AItem κ))
    (rets : List Int) (x : AItem κ) (pre post : List (Op κ)) (off : Nat) (hoff : off < 25)
    (hscr : ∀ y, ∀ op ∈ scr y, isCall op = true)
    (h : ExecOnTheFly scr due ran due' rets) (hat : At x due none)
    (hsplit : ran.flatMap scr = pre ++ Op.schedule off x :: post)
    (hxpre : ∀ op ∈ pre, ∀ it ∈ placed op, it ≠ x) (hxpost : ∀ op ∈ post, ∀ it ∈ placed op, it ≠ x)
    (hrc : rets[pre.length]? = some 0) :
    ran.count x = (if off = 0 then 1 else 0) ∧ At x due' (if off = 0 then none else some off) ∧
    (off = 0 → ∃ p f, ran = p ++ f ∧ p.Perm (due 0) ∧ x ∉ p ∧ f.count x = 1 ∧
      f = ((run due (ran.flatMap scr)).1 0).drop (due 0).length) := by
  have hcalls : ∀ op ∈ ran.flatMap scr, isCall op = true := by
    intro op hop
    obtain ⟨y, _, hy⟩ := List.mem_flatMap.mp hop
    exact hscr y op hy
  have hcpre : ∀ op ∈ pre, isCall op = true := fun op hop => hcalls op (by rw [hsplit]; simp [hop])
  have hcpost : ∀ op ∈ post, isCall op = true := fun op hop => hcalls op (by rw [hsplit]; simp [hop])
  have hrets := h.choose_spec.choose_spec.2.2.2.2
  rw [hrets, hsplit] at hrc
  have hat1 := calls_place_fresh x due pre post off hoff hat hcpre hcpost hxpre hxpost hrc
  rw [← hsplit] at hat1
  exact execOnTheFly_placed scr due due' ran rets x off hscr h hat hat1

/-- the same for an item of the `k`-th frame of a set scheduled on the fly (the call did not report an
overflow): it is due `off + k` frames ahead -/
theorem execOnTheFly_fresh_set (scr : AItem κ → List (Op κ)) (due due' : Due κ) (ran : List (AItem κ))
    (rets : List Int) (x : AItem κ) (pre post : List (Op κ)) (off k : Nat) (fs : List (List (AItem κ)))
    (f : List (AItem κ)) (r : Int) (hdepth : off + fs.length ≤ 25)
    (hscr : ∀ y, ∀ op ∈ scr y, isCall op = true)
    (h : ExecOnTheFly scr due ran due' rets) (hat : At x due none)
    (hsplit : ran.flatMap scr = pre ++ Op.scheduleSet off fs :: post)
    (hxpre : ∀ op ∈ pre, ∀ it ∈ placed op, it ≠ x) (hxpost : ∀ op ∈ post, ∀ it ∈ placed op, it ≠ x)
    (hk : fs[k]? = some f) (hx1 : f.count x = 1)
    (hx0 : ∀ k' f', k' ≠ k → fs[k']? = some f' → x ∉ f')
    (hrc : rets[pre.length]? = some r) (hr : r ≠ -1) :
    ran.count x = (if off + k = 0 then 1 else 0) ∧ At x due' (if off + k = 0 then none else some (off + k)) ∧
    (off + k = 0 → ∃ p f, ran = p ++ f ∧ p.Perm (due 0) ∧ x ∉ p ∧ f.count x = 1 ∧
      f = ((run due (ran.flatMap scr)).1 0).drop (due 0).length) := by
  have hcalls : ∀ op ∈ ran.flatMap scr, isCall op = true := by
    intro op hop
    obtain ⟨y, _, hy⟩ := List.mem_flatMap.mp hop
    exact hscr y op hy
  have hcpre : ∀ op ∈ pre, isCall op = true := fun op hop => hcalls op (by rw [hsplit]; simp [hop])
  have hcpost : ∀ op ∈ post, isCall op = true := fun op hop => hcalls op (by rw [hsplit]; simp [hop])
  have hrets := h.choose_spec.choose_spec.2.2.2.2
  rw [hrets, hsplit] at hrc
  have hat1 := calls_place_fresh_set x due pre post off k fs f r hdepth hat hcpre hcpost hxpre hxpost hk hx1 hx0
    hrc hr
  rw [← hsplit] at hat1
  exact execOnTheFly_placed scr due due' ran rets x (off + k) hscr h hat hat1

end OsmoVerif.Spec.TdmaSched
