/-
Lemmas about the TRXC control plane of the world model (C05, C14):
request shapes, `parse_cmd` raises nothing but ValueError, `handle_rx` reply form,
the invariant `Sane` under which the clock tick cannot raise.
-/
import OsmoVerif.Lemmas.World
open OsmoVerif OsmoVerif.World OsmoVerif.PyStr
namespace OsmoVerif.World

/-! ### request shapes -/

theorem verifyCmd_shape {req : List Str} {V : String} {n : Nat}
    (h : verifyCmd req V n = true) : ∃ args, req = lit V :: args ∧ args.length = n := by
  cases req with
  | nil => simp [verifyCmd] at h
  | cons v args =>
    simp only [verifyCmd] at h
    by_cases hv : v = lit V
    · by_cases hl : args.length = n
      · exact ⟨args, by rw [hv], hl⟩
      · simp [hv, hl] at h
    · simp [hv] at h

theorem verifyCmd_shape_va {req : List Str} {V : String} {n : Nat}
    (h : verifyCmd req V n true = true) : ∃ args, req = lit V :: args ∧ n ≤ args.length := by
  cases req with
  | nil => simp [verifyCmd] at h
  | cons v args =>
    simp only [verifyCmd] at h
    by_cases hv : v = lit V
    · by_cases hl : n ≤ args.length
      · exact ⟨args, by rw [hv], hl⟩
      · simp [hv] at h; omega
    · simp [hv] at h

theorem verifyCmd0 {req : List Str} {V : String} (h : verifyCmd req V 0 = true) : req = [lit V] := by
  obtain ⟨args, rfl, hl⟩ := verifyCmd_shape h
  rw [List.length_eq_zero_iff.mp hl]

theorem verifyCmd1 {req : List Str} {V : String} (h : verifyCmd req V 1 = true) :
    ∃ a, req = [lit V, a] := by
  obtain ⟨args, rfl, hl⟩ := verifyCmd_shape h
  obtain ⟨a, rfl⟩ := List.length_eq_one_iff.mp hl
  exact ⟨a, rfl⟩

theorem verifyCmd2 {req : List Str} {V : String} (h : verifyCmd req V 2 = true) :
    ∃ a b, req = [lit V, a, b] := by
  obtain ⟨args, rfl, hl⟩ := verifyCmd_shape h
  match args, hl with
  | [a, b], _ => exact ⟨a, b, rfl⟩

theorem toInt_error {s : Str} {e : Exc} (h : toInt s = .error e) : e = .valueError := by
  unfold toInt at h
  split at h
  · cases h
  · cases h; rfl

theorem toInt_ok {s : Str} {v : Int} (h : pyInt s = some v) : toInt s = .ok v := by
  simp only [toInt, h]

theorem toInt_cases (s : Str) : (∃ v, pyInt s = some v ∧ toInt s = .ok v) ∨ (pyInt s = none ∧ toInt s = .error .valueError) := by
  unfold toInt
  cases pyInt s with
  | none => exact .inr ⟨rfl, rfl⟩
  | some v => exact .inl ⟨v, rfl, rfl⟩

@[simp] theorem arg_one (v a : Str) (r : List Str) : arg (v :: a :: r) 1 = .ok a := rfl
@[simp] theorem arg_two (v a b : Str) (r : List Str) : arg (v :: a :: b :: r) 2 = .ok b := rfl

theorem map_eq {α β} (f : α → β) (x : Except Exc α) :
    f <$> x = match x with | .ok v => .ok (f v) | .error e => .error e := by
  cases x <;> rfl

macro "exc_finish" h:ident : tactic =>
  `(tactic| (
    simp only [arg_one, arg_two, bind, Except.bind, pure, Except.pure, map_eq] at $h:ident
    repeat' split at $h:ident
    all_goals first
      | (cases $h:ident; done)
      | contradiction
      | (cases $h:ident; exact toInt_error ‹_›)))


theorem ctrlCmdHandler_error {req : List Str} {e : Exc} (h : ctrlCmdHandler req = .error e) :
    e = .valueError := by
  unfold ctrlCmdHandler at h
  by_cases hv : verifyCmd req "SETTA" 1 = true
  · rw [if_pos hv] at h; obtain ⟨a, rfl⟩ := verifyCmd1 hv; clear hv; exc_finish h
  rw [if_neg hv] at h; clear hv
  by_cases hv : verifyCmd req "FAKE_TOA" 2 = true
  · rw [if_pos hv] at h; obtain ⟨a, b, rfl⟩ := verifyCmd2 hv; clear hv; exc_finish h
  rw [if_neg hv] at h; clear hv
  by_cases hv : verifyCmd req "FAKE_TOA" 1 = true
  · rw [if_pos hv] at h; obtain ⟨a, rfl⟩ := verifyCmd1 hv; clear hv; exc_finish h
  rw [if_neg hv] at h; clear hv
  by_cases hv : verifyCmd req "FAKE_RSSI" 2 = true
  · rw [if_pos hv] at h; obtain ⟨a, b, rfl⟩ := verifyCmd2 hv; clear hv; exc_finish h
  rw [if_neg hv] at h; clear hv
  by_cases hv : verifyCmd req "FAKE_RSSI" 1 = true
  · rw [if_pos hv] at h; obtain ⟨a, rfl⟩ := verifyCmd1 hv; clear hv; exc_finish h
  rw [if_neg hv] at h; clear hv
  by_cases hv : verifyCmd req "FAKE_CI" 2 = true
  · rw [if_pos hv] at h; obtain ⟨a, b, rfl⟩ := verifyCmd2 hv; clear hv; exc_finish h
  rw [if_neg hv] at h; clear hv
  by_cases hv : verifyCmd req "FAKE_CI" 1 = true
  · rw [if_pos hv] at h; obtain ⟨a, rfl⟩ := verifyCmd1 hv; clear hv; exc_finish h
  rw [if_neg hv] at h; clear hv
  by_cases hv : verifyCmd req "FAKE_DROP" 1 = true
  · rw [if_pos hv] at h; obtain ⟨a, rfl⟩ := verifyCmd1 hv; clear hv; exc_finish h
  rw [if_neg hv] at h; clear hv
  by_cases hv : verifyCmd req "FAKE_DROP" 2 = true
  · rw [if_pos hv] at h; obtain ⟨a, b, rfl⟩ := verifyCmd2 hv; clear hv; exc_finish h
  rw [if_neg hv] at h; clear hv
  by_cases hv : verifyCmd req "FAKE_TRXC_DELAY" 1 = true
  · rw [if_pos hv] at h; obtain ⟨a, rfl⟩ := verifyCmd1 hv; clear hv; exc_finish h
  rw [if_neg hv] at h; clear hv
  cases h
/-- `[int(f) * 1000 for f in xs]` -/
def khzList (xs : List Str) : Except Exc (List Int) :=
  xs.mapM (fun f => do let v ← toInt f; pure (v * 1000))

theorem khzList_nil : khzList [] = .ok [] := rfl
theorem khzList_cons (x : Str) (xs : List Str) :
    khzList (x :: xs) = match toInt x with
      | .error e => .error e
      | .ok v => match khzList xs with
        | .error e => .error e
        | .ok vs => .ok (v * 1000 :: vs) := by
  have h : khzList (x :: xs) = (do let v ← toInt x; let vs ← khzList xs; pure (v * 1000 :: vs)) := by
    simp only [khzList, List.mapM_cons, bind_assoc, pure_bind]
  rw [h]
  cases toInt x <;> cases khzList xs <;> rfl

theorem khzList_error {xs : List Str} {e : Exc} (h : khzList xs = .error e) : e = .valueError := by
  induction xs with
  | nil => cases h
  | cons x xs ih =>
    rw [khzList_cons] at h
    split at h
    · cases h; exact toInt_error ‹_›
    · split at h
      · cases h; exact ih ‹_›
      · cases h

theorem verifyCmd4va {req : List Str} {V : String} (h : verifyCmd req V 4 true = true) :
    ∃ a b c d r, req = lit V :: a :: b :: c :: d :: r := by
  obtain ⟨args, rfl, hl⟩ := verifyCmd_shape_va h
  match args, hl with
  | a :: b :: c :: d :: r, _ => exact ⟨a, b, c, d, r, rfl⟩

theorem commonCmd_error {trx : Trx} {req : List Str} {e : Exc} (h : commonCmd trx req = .error e) :
    e = .valueError := by
  unfold commonCmd at h
  by_cases hv : verifyCmd req "POWERON" 0 = true
  · rw [if_pos hv] at h; clear hv; exc_finish h
  rw [if_neg hv] at h; clear hv
  by_cases hv : verifyCmd req "POWEROFF" 0 = true
  · rw [if_pos hv] at h; clear hv; exc_finish h
  rw [if_neg hv] at h; clear hv
  by_cases hv : verifyCmd req "RXTUNE" 1 = true
  · rw [if_pos hv] at h; obtain ⟨a, rfl⟩ := verifyCmd1 hv; clear hv; exc_finish h
  rw [if_neg hv] at h; clear hv
  by_cases hv : verifyCmd req "TXTUNE" 1 = true
  · rw [if_pos hv] at h; obtain ⟨a, rfl⟩ := verifyCmd1 hv; clear hv; exc_finish h
  rw [if_neg hv] at h; clear hv
  by_cases hv : verifyCmd req "MEASURE" 1 = true
  · rw [if_pos hv] at h; obtain ⟨a, rfl⟩ := verifyCmd1 hv; clear hv; exc_finish h
  rw [if_neg hv] at h; clear hv
  by_cases hv : verifyCmd req "SETFH" 4 true = true
  · rw [if_pos hv] at h; obtain ⟨a, b, c, d, r, rfl⟩ := verifyCmd4va hv; clear hv
    change (do
      let hsn ← toInt (← arg _ 1)
      let maio ← toInt (← arg _ 2)
      let ma ← khzList (List.drop 3 _)
      match Hopping.pyInit hsn maio (pairUp ma) with
        | .ok hp => pure (Action.patch (.fh hp) 0)
        | .error _ => pure (Action.reply (-1) [])) = _ at h
    simp only [arg_one, arg_two, bind, Except.bind, pure, Except.pure] at h
    repeat' split at h
    all_goals first
      | (cases h; done)
      | contradiction
      | (cases h; exact toInt_error ‹_›)
      | (cases h; exact khzList_error ‹_›)
  rw [if_neg hv] at h; clear hv
  by_cases hv : verifyCmd req "SETFORMAT" 1 = true
  · rw [if_pos hv] at h; obtain ⟨a, rfl⟩ := verifyCmd1 hv; clear hv; exc_finish h
  rw [if_neg hv] at h; clear hv
  by_cases hv : verifyCmd req "SETPOWER" 1 = true
  · rw [if_pos hv] at h; obtain ⟨a, rfl⟩ := verifyCmd1 hv; clear hv; exc_finish h
  rw [if_neg hv] at h; clear hv
  by_cases hv : verifyCmd req "NOMTXPOWER" 0 = true
  · rw [if_pos hv] at h; clear hv; exc_finish h
  rw [if_neg hv] at h; clear hv
  by_cases hv : verifyCmd req "RFMUTE" 1 = true
  · rw [if_pos hv] at h; obtain ⟨a, rfl⟩ := verifyCmd1 hv; clear hv; exc_finish h
  rw [if_neg hv] at h; clear hv
  cases h
/-! ### power handling, measurement, `parse_cmd` -/

theorem getElem?_of_lt {w : World} {i : Nat} (hi : i < w.trxs.length) : ∃ t, w.trxs[i]? = some t :=
  ⟨w.trxs[i], List.getElem?_eq_getElem hi⟩

/-- the loop of `power_event_handler`: `trx.running = poweron`; on power-off also
`tx_queue_clear()` and `disable_fh()` -/
def powerSet (w : World) (list : List Nat) (on : Bool) : World :=
  list.foldl (fun w j =>
    setTrx w j (fun t =>
      if on then { t with running := true }
      else { t with running := false, txQueue := [], fh := none })) w

/-- the transceivers `power_event_handler` of `self` (at index `i`) touches -/
def powerList (self : Trx) (i : Nat) : List Nat :=
  if self.childMgt && self.childIdx == 0 then i :: self.children else [i]

/-- the clock part of `power_event_handler` (transceivers with a clock generator) -/
def powerClock (w : World) (i : Nat) (on : Bool) : World :=
  let links :=
    if ¬ on ∧ w.clkLinks.contains i then w.clkLinks.erase i
    else if on ∧ ¬ w.clkLinks.contains i then w.clkLinks ++ [i]
    else w.clkLinks
  let w := { w with clkLinks := links }
  if ¬ w.clkRunning ∧ links.length > 0 then
    { w with clkRunning := true, clkSrc := some Gen.World.clckStart }
  else if w.clkRunning ∧ links.isEmpty then { w with clkRunning := false }
  else w

theorem powerEvent_eq (w : World) (i : Nat) (on : Bool) :
    powerEvent w i on = match w.trxs[i]? with
      | none => .error .indexError
      | some self =>
        .ok (if ¬ self.hasClock then powerSet w (powerList self i) on
             else powerClock (powerSet w (powerList self i) on) i on) := by
  unfold powerEvent
  cases w.trxs[i]? with
  | none => rfl
  | some self =>
    simp only [powerClock, apply_ite (Except.ok (ε := Exc))]
    rfl

theorem powerEvent_ok {w : World} {i : Nat} (hi : i < w.trxs.length) (on : Bool) :
    ∃ w', powerEvent w i on = .ok w' := by
  obtain ⟨t, ht⟩ := getElem?_of_lt hi
  rw [powerEvent_eq, ht]
  exact ⟨_, rfl⟩

theorem draw_ok {lo hi : Int} (h : lo ≤ hi) (seed k : Nat) :
    ∃ v, draw seed k lo hi = .ok v ∧ lo ≤ v ∧ v ≤ hi := by
  have hn : ¬ hi < lo := by omega
  refine ⟨lo + ((seed + 7919 * k : Nat) : Int) % (hi - lo + 1), by simp only [draw, hn, if_false], ?_, ?_⟩
  · have := Int.emod_nonneg ((seed + 7919 * k : Nat) : Int) (show hi - lo + 1 ≠ 0 by omega)
    omega
  · have := Int.emod_lt_of_pos ((seed + 7919 * k : Nat) : Int) (show 0 < hi - lo + 1 by omega)
    omega

theorem randint_ok (w : World) {lo hi : Int} (h : lo ≤ hi) :
    ∃ v, w.randint lo hi = .ok (v, { w with drawK := w.drawK + 1 }) ∧ lo ≤ v ∧ v ≤ hi := by
  obtain ⟨v, hv, h1, h2⟩ := draw_ok h w.seed w.drawK
  exact ⟨v, by simp only [World.randint, hv], h1, h2⟩

theorem fakePmMeasure_ok (w : World) (freq : Int) :
    ∃ v, fakePmMeasure w freq = .ok (v, { w with drawK := w.drawK + 1 }) ∧
      (if fakePmFound w.trxs freq then Gen.World.fakePmTrxMin ≤ v ∧ v ≤ Gen.World.fakePmTrxMax
       else Gen.World.fakePmNoiseMin ≤ v ∧ v ≤ Gen.World.fakePmNoiseMax) := by
  unfold fakePmMeasure
  split
  · obtain ⟨v, hv, hb⟩ := randint_ok w (show Gen.World.fakePmTrxMin ≤ Gen.World.fakePmTrxMax by decide)
    exact ⟨v, hv, hb⟩
  · obtain ⟨v, hv, hb⟩ := randint_ok w (show Gen.World.fakePmNoiseMin ≤ Gen.World.fakePmNoiseMax by decide)
    exact ⟨v, hv, hb⟩

theorem applyAction_ok {w : World} {i : Nat} (hi : i < w.trxs.length) (a : Action) :
    ∃ r, applyAction w i a = .ok r := by
  cases a with
  | patch p rc => exact ⟨_, rfl⟩
  | reply rc ps => exact ⟨_, rfl⟩
  | power on =>
    obtain ⟨w', hw⟩ := powerEvent_ok hi on
    simp only [applyAction, hw, bind, Except.bind, pure, Except.pure]
    exact ⟨_, rfl⟩
  | measure f =>
    obtain ⟨v, hv, _⟩ := fakePmMeasure_ok w f
    simp only [applyAction, hv, bind, Except.bind, pure, Except.pure]
    exact ⟨_, rfl⟩

/-- the assignment the custom handler made before returning -/
def applyPatch (w : World) (i : Nat) : Option Patch → World
  | some p => setTrx w i p.apply
  | none => w

@[simp] theorem applyPatch_length (w : World) (i : Nat) (p : Option Patch) :
    (applyPatch w i p).trxs.length = w.trxs.length := by
  cases p <;> simp [applyPatch]

/-- `parse_cmd` as a cascade of outcomes -/
theorem parseCmd_eq (w : World) (i : Nat) (req : List Str) :
    parseCmd w i req =
      match ctrlCmdHandler req with
      | .error e => .error e
      | .ok (patch, some rc) => .ok (applyPatch w i patch, (rc, []))
      | .ok (patch, none) =>
        match (applyPatch w i patch).trxs[i]? with
        | none => .error .indexError
        | some trx =>
          match commonCmd trx req with
          | .error e => .error e
          | .ok a => applyAction (applyPatch w i patch) i a := by
  unfold parseCmd
  simp only [bind, Except.bind]
  cases ctrlCmdHandler req with
  | error e => rfl
  | ok pr =>
    obtain ⟨patch, res⟩ := pr
    cases res with
    | some rc => cases patch <;> rfl
    | none =>
      cases patch with
      | none =>
        simp only [applyPatch]
        cases w.trxs[i]? <;> dsimp only <;> first | rfl | (cases commonCmd _ req <;> rfl)
      | some p =>
        simp only [applyPatch]
        cases (setTrx w i p.apply).trxs[i]? <;> dsimp only <;> first | rfl | (cases commonCmd _ req <;> rfl)

/-- `parse_cmd` raises nothing but ValueError (the `request[k]` IndexError is unreachable after
`verify_cmd`, power handling and the power measurement cannot fail). -/
theorem parseCmd_only_valueError {w : World} {i : Nat} {req : List Str} {e : Exc}
    (hi : i < w.trxs.length) (h : parseCmd w i req = .error e) : e = .valueError := by
  rw [parseCmd_eq] at h
  split at h
  · cases h; exact ctrlCmdHandler_error ‹_›
  · cases h
  · rename_i patch hc
    have hlen : i < (applyPatch w i patch).trxs.length := by simp [hi]
    obtain ⟨t, ht⟩ := getElem?_of_lt hlen
    rw [ht] at h
    simp only at h
    split at h
    · cases h; exact commonCmd_error ‹_›
    · obtain ⟨r, hr⟩ := applyAction_ok hlen ‹Action›
      rw [hr] at h; cases h
/-! ### `handle_rx` -/

/-- `prepare_req(data)` -/
def request (s : Str) : List Str := splitSpace (stripNul (strip (s.drop 4)))

/-- the text `send_response` builds: status inserted after the verb, parameters appended -/
def rspText (req : List Str) (rc : Int) (params : List Str) : Str :=
  lit "RSP " ++ joinSpace ((match req with
      | [] => [intToStr rc]
      | verb :: args => verb :: intToStr rc :: args) ++ params) ++ [0]

theorem splitSpace_ne_nil (s : Str) : splitSpace s ≠ [] := by
  induction s with
  | nil => simp [splitSpace]
  | cons c r ih =>
    simp only [splitSpace]
    split
    · simp
    · split
      · contradiction
      · simp

theorem request_cons (s : Str) : ∃ verb args, request s = verb :: args := by
  unfold request
  cases h : splitSpace (stripNul (strip (s.drop 4))) with
  | nil => exact absurd h (splitSpace_ne_nil _)
  | cons v a => exact ⟨v, a, rfl⟩

theorem handleRx_cmd {w : World} {i : Nat} {t : Trx} {d : List Nat} {s : Str} (a p : Nat)
    (ht : w.trxs[i]? = some t)
    (hd : decodeUtf8 (d.take Gen.World.ctrlRecvSize) = some s)
    (hp : startsWith s (lit "CMD") = true) :
    handleRx w i a p d =
      match parseCmd w i (request s) with
      | .ok (w', (rc, params)) =>
        { world := w', out := [⟨t.ctrlPort, a, p, encodeUtf8 (rspText (request s) rc params)⟩] }
      | .error .valueError =>
        { world := w, out := [⟨t.ctrlPort, a, p, encodeUtf8 (rspText (request s) (-1) [])⟩] }
      | .error e => { world := w, exc := some e } := by
  simp only [handleRx, ht, hd, hp, not_true_eq_false, if_false, request, rspText]
  cases parseCmd w i (splitSpace (stripNul (strip (List.drop 4 s)))) with
  | ok r => rfl
  | error e => cases e <;> rfl

theorem handleRx_undecodable {w : World} {i : Nat} {t : Trx} {d : List Nat} (a p : Nat)
    (ht : w.trxs[i]? = some t)
    (hd : decodeUtf8 (d.take Gen.World.ctrlRecvSize) = none) :
    handleRx w i a p d = { world := w } := by
  simp only [handleRx, ht, hd]

theorem handleRx_noprefix {w : World} {i : Nat} {t : Trx} {d : List Nat} {s : Str} (a p : Nat)
    (ht : w.trxs[i]? = some t)
    (hd : decodeUtf8 (d.take Gen.World.ctrlRecvSize) = some s)
    (hp : startsWith s (lit "CMD") = false) :
    handleRx w i a p d = { world := w } := by
  simp only [handleRx, ht, hd, hp]
  rfl

/-- a decodable `CMD …` datagram: exactly one reply to the sender, no exception; the reply carries
the outcome of `parse_cmd`, ValueError being answered with status −1 and no state change -/
theorem handleRx_reply {w : World} {i : Nat} {t : Trx} {d : List Nat} {s : Str} (a p : Nat)
    (ht : w.trxs[i]? = some t)
    (hd : decodeUtf8 (d.take Gen.World.ctrlRecvSize) = some s)
    (hp : startsWith s (lit "CMD") = true) :
    ∃ rc params w',
      handleRx w i a p d =
        { world := w', out := [⟨t.ctrlPort, a, p, encodeUtf8 (rspText (request s) rc params)⟩] } ∧
      (parseCmd w i (request s) = .ok (w', (rc, params)) ∨
       (parseCmd w i (request s) = .error .valueError ∧ rc = -1 ∧ params = [] ∧ w' = w)) := by
  have hi : i < w.trxs.length := by
    rcases Nat.lt_or_ge i w.trxs.length with h | h
    · exact h
    · rw [List.getElem?_eq_none h] at ht; cases ht
  rw [handleRx_cmd a p ht hd hp]
  cases hpc : parseCmd w i (request s) with
  | ok r =>
    obtain ⟨w', rc, params⟩ := r
    exact ⟨rc, params, w', rfl, .inl rfl⟩
  | error e =>
    cases parseCmd_only_valueError hi hpc
    exact ⟨-1, [], w, rfl, .inr ⟨rfl, rfl, rfl, rfl⟩⟩

/-- any datagram at all: no exception, at most one reply -/
theorem handleRx_total {w : World} {i : Nat} (hi : i < w.trxs.length) (a p : Nat) (d : List Nat) :
    (handleRx w i a p d).exc = none ∧ (handleRx w i a p d).out.length ≤ 1 := by
  obtain ⟨t, ht⟩ := getElem?_of_lt hi
  cases hd : decodeUtf8 (d.take Gen.World.ctrlRecvSize) with
  | none => rw [handleRx_undecodable a p ht hd]; exact ⟨rfl, Nat.le_of_ble_eq_true rfl⟩
  | some s =>
    cases hp : startsWith s (lit "CMD") with
    | false => rw [handleRx_noprefix a p ht hd hp]; exact ⟨rfl, Nat.le_of_ble_eq_true rfl⟩
    | true =>
      obtain ⟨rc, params, w', h, _⟩ := handleRx_reply a p ht hd hp
      rw [h]; exact ⟨rfl, Nat.le_of_ble_eq_true rfl⟩
/-! ### `recv_data_msg` -/

theorem recvDataMsg_eq {w : World} {i : Nat} {t : Trx} (d : List Nat) (ht : w.trxs[i]? = some t) :
    recvDataMsg w i d =
      match Trxd.TxMsg.parseMsg (d.take Gen.World.dataRecvSize) with
      | .error _ => { world := w }
      | .ok msg =>
        if msg.ver ≠ t.hdrVer then { world := w }
        else if ¬ t.running then { world := w }
        else { world := setTrx w i (fun t => { t with txQueue := t.txQueue ++ [msg] }) } := by
  simp only [recvDataMsg, ht]
  cases Trxd.TxMsg.parseMsg (List.take Gen.World.dataRecvSize d) <;> rfl

theorem recvDataMsg_total {w : World} {i : Nat} (hi : i < w.trxs.length) (d : List Nat) :
    (recvDataMsg w i d).exc = none ∧ (recvDataMsg w i d).out = [] ∧ (recvDataMsg w i d).stale = 0 := by
  obtain ⟨t, ht⟩ := getElem?_of_lt hi
  rw [recvDataMsg_eq d ht]
  split
  · exact ⟨rfl, rfl, rfl⟩
  · split
    · exact ⟨rfl, rfl, rfl⟩
    · split <;> exact ⟨rfl, rfl, rfl⟩

theorem recvDataMsg_dropped {w : World} {i : Nat} {t : Trx} (d : List Nat) (ht : w.trxs[i]? = some t)
    (h : (∃ e, Trxd.TxMsg.parseMsg (d.take Gen.World.dataRecvSize) = .error e) ∨
         (∃ m, Trxd.TxMsg.parseMsg (d.take Gen.World.dataRecvSize) = .ok m ∧ m.ver ≠ t.hdrVer) ∨
         t.running = false) :
    (recvDataMsg w i d).world = w := by
  rw [recvDataMsg_eq d ht]
  split
  · rfl
  · rename_i msg hm
    split
    · rfl
    · rename_i hv
      split
      · rfl
      · rename_i hr
        rcases h with ⟨e, he⟩ | ⟨m, hm', hne⟩ | hrun
        · rw [he] at hm; cases hm
        · rw [hm'] at hm; cases hm; exact absurd hne hv
        · rw [hrun] at hr; exact absurd (by simp) hr

theorem recvDataMsg_queued {w : World} {i : Nat} {t : Trx} {m : Trxd.TxMsg} (d : List Nat)
    (ht : w.trxs[i]? = some t)
    (hm : Trxd.TxMsg.parseMsg (d.take Gen.World.dataRecvSize) = .ok m)
    (hv : m.ver = t.hdrVer) (hr : t.running = true) :
    (recvDataMsg w i d).world = setTrx w i (fun t => { t with txQueue := t.txQueue ++ [m] }) := by
  rw [recvDataMsg_eq d ht, hm]
  simp only [hv, hr, ne_eq, not_true_eq_false, if_false]
end OsmoVerif.World
