/- Helper lemmas about the world model (frame properties of commands, power handling). -/
import OsmoVerif.Model.World

namespace OsmoVerif.World

/-! ### Patch frame lemmas -/

@[simp] theorem Patch.apply_running (p : Patch) (t : Trx) : (p.apply t).running = t.running := by
  cases p <;> rfl
@[simp] theorem Patch.apply_txQueue (p : Patch) (t : Trx) : (p.apply t).txQueue = t.txQueue := by
  cases p <;> rfl
@[simp] theorem Patch.apply_children (p : Patch) (t : Trx) : (p.apply t).children = t.children := by
  cases p <;> rfl
@[simp] theorem Patch.apply_childMgt (p : Patch) (t : Trx) : (p.apply t).childMgt = t.childMgt := by
  cases p <;> rfl
@[simp] theorem Patch.apply_childIdx (p : Patch) (t : Trx) : (p.apply t).childIdx = t.childIdx := by
  cases p <;> rfl
@[simp] theorem Patch.apply_hasClock (p : Patch) (t : Trx) : (p.apply t).hasClock = t.hasClock := by
  cases p <;> rfl
@[simp] theorem Patch.apply_hasPm (p : Patch) (t : Trx) : (p.apply t).hasPm = t.hasPm := by
  cases p <;> rfl
@[simp] theorem Patch.apply_addr (p : Patch) (t : Trx) : (p.apply t).addr = t.addr := by
  cases p <;> rfl
@[simp] theorem Patch.apply_basePort (p : Patch) (t : Trx) : (p.apply t).basePort = t.basePort := by
  cases p <;> rfl

/-! ### setTrx -/

theorem setTrx_getElem? (w : World) (i : Nat) (f : Trx → Trx) (k : Nat) :
    (setTrx w i f).trxs[k]? = if i = k then (w.trxs[k]?).map f else w.trxs[k]? := by
  simp only [setTrx, List.getElem?_modify]
  split
  · rfl
  · cases w.trxs[k]? <;> rfl

@[simp] theorem setTrx_length (w : World) (i : Nat) (f : Trx → Trx) :
    (setTrx w i f).trxs.length = w.trxs.length := by
  simp [setTrx]

@[simp] theorem setTrx_clkLinks (w : World) (i : Nat) (f : Trx → Trx) :
    (setTrx w i f).clkLinks = w.clkLinks := rfl
@[simp] theorem setTrx_clkRunning (w : World) (i : Nat) (f : Trx → Trx) :
    (setTrx w i f).clkRunning = w.clkRunning := rfl
@[simp] theorem setTrx_clkSrc (w : World) (i : Nat) (f : Trx → Trx) :
    (setTrx w i f).clkSrc = w.clkSrc := rfl
@[simp] theorem setTrx_seed (w : World) (i : Nat) (f : Trx → Trx) :
    (setTrx w i f).seed = w.seed := rfl
@[simp] theorem setTrx_drawK (w : World) (i : Nat) (f : Trx → Trx) :
    (setTrx w i f).drawK = w.drawK := rfl

end OsmoVerif.World
