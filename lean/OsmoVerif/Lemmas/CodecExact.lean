/- C16: for a definition without spare parts (no Spare fields, no spare or padding bits) re-encoding a
decoded message reproduces the consumed octets exactly. -/
import OsmoVerif.Lemmas.CodecDI
namespace OsmoVerif.Codec

/-- where the chain of offsets ends -/
def chainEnd : Nat → List (BitF × Nat) → Nat
  | off, [] => off
  | _, (_, o) :: rest => chainEnd o rest

theorem chainEnd_sum : ∀ (offs : List (BitF × Nat)) (off : Nat), Chain off offs →
    chainEnd off offs + (offs.map (·.1.bl)).sum = off
  | [], off, _ => by simp [chainEnd]
  | (f, o) :: rest, off, h => by
    obtain ⟨h1, h2⟩ := h
    have := chainEnd_sum rest o h2
    simp only [chainEnd, List.map_cons, List.sum_cons]
    omega

private theorem mod_split (blob o bl : Nat) :
    (blob >>> o) % 2 ^ bl * 2 ^ o + blob % 2 ^ o = blob % 2 ^ (o + bl) := by
  rw [Nat.shiftRight_eq_div_pow, Nat.pow_add, Nat.mod_mul, Nat.mul_comm]
  omega

/-- decoding a set whose fields are all named and then packing the decoded values gives back the blob
(modulo the bits below the last field) -/
theorem bitsDec_pack : ∀ (offs : List (BitF × Nat)) (off : Nat) (pre pre' : Vals) (blob : Nat),
    Chain off offs → (∀ x ∈ offs, x.1.name.isSome = true) →
    (∀ n ∈ bitNames offs, n ∉ pre.keys) → (bitNames offs).Nodup →
    bitsDec offs pre blob = .ok pre' →
    ∃ c, pre' = pre ++ c ∧ inRangeBits offs pre c = true
      ∧ packVals offs c + blob % 2 ^ (chainEnd off offs) = blob % 2 ^ off
  | [], off, pre, pre', blob, _, _, _, _, h => by
    simp only [bitsDec, Except.ok.injEq] at h
    subst h
    exact ⟨[], by simp, rfl, by simp [packVals, chainEnd]⟩
  | (f, o) :: rest, off, pre, pre', blob, hc, hall, hn, hnd, h => by
    obtain ⟨hoff, hch⟩ := hc
    have hsome := hall (f, o) (List.mem_cons_self ..)
    simp only at hsome
    cases hname : f.name with
    | none => simp [hname] at hsome
    | some n =>
      have hb : bitNames ((f, o) :: rest) = n :: bitNames rest := by simp [bitNames, hname]
      rw [hb] at hn hnd
      have hnm : n ∉ pre.keys := hn n (List.mem_cons_self ..)
      simp only [bitsDec, hname, Vals.set_of_not_mem _ _ _ hnm] at h
      have hn' : ∀ m ∈ bitNames rest, m ∉ (pre ++ [(n, Val.int (((blob >>> o) % 2 ^ f.bl : Nat) : Int))]).keys := by
        intro m hm
        rw [Vals.keys_append, List.mem_append, not_or]
        refine ⟨hn m (List.mem_cons_of_mem _ hm), ?_⟩
        simp only [Vals.keys, List.map_cons, List.map_nil, List.mem_singleton]
        rintro rfl
        exact (List.nodup_cons.1 hnd).1 hm
      have hrest : bitsDec rest (pre ++ [(n, Val.int (((blob >>> o) % 2 ^ f.bl : Nat) : Int))]) blob = .ok pre'
          ∧ (∀ cst, f.val = some cst → (((blob >>> o) % 2 ^ f.bl : Nat) : Int) = cst) := by
        cases hv : f.val with
        | none => simp only [hv] at h; exact ⟨h, by simp⟩
        | some cst =>
          simp only [hv] at h
          split at h
          · cases h
          · rename_i hne
            simp only [ne_eq, Decidable.not_not] at hne
            exact ⟨h, by intro c hc; cases hc; exact hne⟩
      obtain ⟨c, e1, e2, e3⟩ := bitsDec_pack rest o _ pre' blob hch
        (fun x hx => hall x (List.mem_cons_of_mem _ hx)) hn' (List.nodup_cons.1 hnd).2 hrest.1
      refine ⟨(n, .int (((blob >>> o) % 2 ^ f.bl : Nat) : Int)) :: c, by simp [e1], ?_, ?_⟩
      · simp only [inRangeBits, hname, e2, Bool.and_true, Bool.and_eq_true, decide_eq_true_eq]
        have hlt : (blob >>> o) % 2 ^ f.bl < 2 ^ f.bl := Nat.mod_lt _ (Nat.pow_pos (by decide))
        refine ⟨⟨⟨⟨trivial, hnm⟩, by omega⟩, by omega⟩, ?_⟩
        cases hv : f.val with
        | none => rfl
        | some cst => simp [hrest.2 cst hv]
      · simp only [packVals, hname, Int.toNat_natCast, chainEnd]
        rw [← hoff, ← mod_split blob o f.bl]
        omega

/-! ## statements -/

def FieldEX (f : FDef) : Prop :=
  ∀ (pre pre' : Vals) (data : List Nat) (k : Nat) (post : Vals),
    wfField f = true → noSpareField f = true → getPres f.pres pre = .ok true →
    (∀ n ∈ f.storedNames, n ∉ pre.keys) → f.storedNames.Nodup → isBytes data = true →
    fieldFrom f pre data = .ok (pre', k) → fieldTo f (pre' ++ post) = .ok (data.take k)

def EnvEX (fs : List FDef) : Prop :=
  ∀ (pre v' : Vals) (data : List Nat) (n : Nat) (post : Vals),
    wfFields fs = true → noSpareFields fs = true → (∀ x ∈ namesOf fs, x ∉ pre.keys) → (namesOf fs).Nodup →
    isBytes data = true → envFrom fs pre data 0 = .ok (v', n) → envTo fs (v' ++ post) = .ok (data.take n)

theorem take_add' {α : Type} (l : List α) (m n : Nat) : l.take (m + n) = l.take m ++ (l.drop m).take n := by
  induction l generalizing m with
  | nil => simp
  | cons a l ih =>
    cases m with
    | zero => simp
    | succ m =>
      have : m + 1 + n = (m + n) + 1 := by omega
      simp [this, ih]

theorem envEX_of_fields : ∀ (fs : List FDef), (∀ f ∈ fs, FieldEX f) → EnvEX fs
  | [], _ => by
    intro pre v' data n post _ _ _ _ _ h
    simp only [envFrom, Except.ok.injEq, Prod.mk.injEq] at h
    obtain ⟨_, rfl⟩ := h
    simp [envTo]
  | f :: fs, hall => by
    intro pre v' data n post hw hs hnames hnodup hib h
    have ih := envEX_of_fields fs (fun g hg => hall g (List.mem_cons_of_mem _ hg))
    simp only [wfFields, Bool.and_eq_true] at hw
    simp only [noSpareFields, Bool.and_eq_true] at hs
    rw [namesOf_cons] at hnames hnodup
    rw [envFrom_cons] at h
    cases hf : fieldFrom f pre data with
    | error e => simp [hf] at h
    | ok r =>
      obtain ⟨p1, k⟩ := r
      simp only [hf] at h
      cases hrest : envFrom fs p1 (List.drop k data) 0 with
      | error e => simp [hrest] at h
      | ok r2 =>
        obtain ⟨v2, k'⟩ := r2
        simp only [hrest, Except.ok.injEq, Prod.mk.injEq] at h
        obtain ⟨rfl, rfl⟩ := h
        have hnfs : ∀ x ∈ namesOf fs, x ∉ pre.keys := fun x hx => hnames x (List.mem_append_right _ hx)
        have hndfs : (namesOf fs).Nodup := (List.nodup_append.1 hnodup).2.1
        rcases fieldFrom_pres f hf with ⟨hp, rfl, rfl⟩ | hp
        · -- absent
          simp only [List.drop_zero] at hrest
          obtain ⟨rst, e1, _, _⟩ := envDI fs p1 v2 data k' hw.2 hnfs hndfs hib hrest
          have hv : getPres f.pres (v2 ++ post) = .ok false := by
            rw [e1, List.append_assoc]; exact getPres_append _ _ _ _ hp
          obtain ⟨a1, _⟩ := field_absent f hw.1 p1 (v2 ++ post) [] hp hv
          have := ih p1 v2 data k' post hw.2 hs.2 hnfs hndfs hib hrest
          simp only [envTo, a1, this, List.nil_append, Nat.zero_add]
        · -- present
          obtain ⟨c, rfl, _, hck, _, _⟩ := fieldDI f pre p1 data k hw.1 hp
            (fun x hx => hnames x (List.mem_append_left _ hx)) (List.nodup_append.1 hnodup).1 hib hf
          have hdisj : ∀ x ∈ namesOf fs, x ∉ (pre ++ c).keys := by
            intro x hx
            rw [Vals.keys_append, List.mem_append, not_or]
            refine ⟨hnfs x hx, fun hxc => ?_⟩
            exact (List.nodup_append.1 hnodup).2.2 x (hck x hxc) x hx rfl
          obtain ⟨rst, e1, _, _⟩ := envDI fs (pre ++ c) v2 (data.drop k) k' hw.2 hdisj hndfs
            (isBytes_drop _ _ hib) hrest
          have h1 := hall f (List.mem_cons_self ..) pre (pre ++ c) data k (rst ++ post) hw.1 hs.1 hp
            (fun x hx => hnames x (List.mem_append_left _ hx)) (List.nodup_append.1 hnodup).1 hib hf
          have h2 := ih (pre ++ c) v2 (data.drop k) k' post hw.2 hs.2 hdisj hndfs (isBytes_drop _ _ hib) hrest
          have e : v2 ++ post = pre ++ c ++ (rst ++ post) := by rw [e1]; simp
          simp only [envTo]
          rw [e, h1, ← e, h2]
          simp only [take_add']

/-! ## sequences -/

theorem seqEX (proc : List Nat → Except Err (Vals × Nat)) (enc : Vals → Except Err (List Nat))
    (H : ∀ (x : List Nat) (v : Vals) (k : Nat), isBytes x = true → proc x = .ok (v, k) → enc v = .ok (x.take k)) :
    ∀ (fuel : Nat) (data : List Nat) (off : Nat) (acc res : List Val), isBytes data = true →
      seqLoop proc fuel data off acc = .ok res →
      ∃ items, res = acc ++ items ∧ seqEnc enc items = .ok (data.drop off)
  | fuel, data, off, acc, res, hib, h => by
    unfold seqLoop at h
    split at h
    · rename_i hlt
      match fuel, h with
      | 0, h => cases h
      | fuel + 1, h =>
        simp only at h
        cases hp : proc (List.drop off data) with
        | error e => simp [hp] at h
        | ok r =>
          obtain ⟨v, k⟩ := r
          simp only [hp] at h
          split at h
          · cases h
          · have he := H _ v k (isBytes_drop _ _ hib) hp
            obtain ⟨items, e1, e2⟩ := seqEX proc enc H fuel data (off + k) _ res hib h
            refine ⟨.dict v :: items, by simp [e1], ?_⟩
            simp only [seqEnc, he, e2]
            rw [← List.drop_drop, List.take_append_drop]
    · rename_i hge
      cases h
      refine ⟨[], by simp, ?_⟩
      have : List.drop off data = [] := List.drop_eq_nil_of_le (by omega)
      simp [seqEnc, this]

/-! ## the field kinds -/

theorem fieldEX_int (name pres len bo sg off mult) : FieldEX (.int name pres len bo sg off mult) := by
  intro pre pre' data k post hw _ hp hn _ hib h
  simp only [wfField, Bool.and_eq_true, decide_eq_true_eq] at hw
  obtain ⟨hlen, hmult⟩ := hw
  simp only [FDef.pres] at hp
  simp only [fieldFrom] at h
  rcases fieldFromCore_ok_inv h with ⟨h1, _, _⟩ | ⟨_, hg, hk, hb⟩
  · rw [hp] at h1; cases h1
  · have hl0 : len ≠ 0 := by omega
    simp only [hl0, if_false, Except.ok.injEq] at hg
    subst hg
    have hnm : name ∉ pre.keys := hn name (by simp [FDef.storedNames])
    simp only [intDec, Except.ok.injEq, Vals.set_of_not_mem _ _ _ hnm] at hb
    subst hb
    have hv : getPres pres (pre ++ [(name, Val.int (intFromBytes bo sg (List.take len data) * mult + off))] ++ post)
        = .ok true := by rw [List.append_assoc]; exact getPres_append _ _ _ _ hp
    have e : intFromBytes bo sg (List.take len data) * mult + off - off
        = intFromBytes bo sg (List.take len data) * mult := by omega
    have hre := intToBytes_intFromBytes bo sg (data.take len) (isBytes_take _ _ hib)
    rw [length_take_le hk] at hre
    simp only [fieldTo]
    apply fieldToCore_present hv
    · simp only [intEnc, Vals.getInt, get_mid pre post name _ hnm, hmult, if_false, e,
        Int.mul_fdiv_cancel _ hmult, hre]
    · intro _; exact length_take_le hk

theorem fieldEX_buf (name pres ld) : FieldEX (.buf name pres ld) := by
  intro pre pre' data k post _ _ hp hn _ _ h
  simp only [FDef.pres] at hp
  simp only [fieldFrom] at h
  rcases fieldFromCore_ok_inv h with ⟨h1, _, _⟩ | ⟨_, hg, hk, hb⟩
  · rw [hp] at h1; cases h1
  · have hnm : name ∉ pre.keys := hn name (by simp [FDef.storedNames])
    simp only [Except.ok.injEq, Vals.set_of_not_mem _ _ _ hnm] at hb
    subst hb
    have hv : getPres pres (pre ++ [(name, Val.bytes (List.take k data))] ++ post) = .ok true := by
      rw [List.append_assoc]; exact getPres_append _ _ _ _ hp
    simp only [fieldTo]
    apply fieldToCore_present hv
    · simp only [Vals.getBytes, get_mid pre post name _ hnm]
    · intro hs; rw [length_take_le hk]; exact selfLen_of_getLen hg hs

theorem fieldEX_bits (pres len little fs) : FieldEX (.bits pres len little fs) := by
  intro pre pre' data k post _ hs hp hn hnd hib h
  simp only [FDef.pres] at hp
  simp only [noSpareField, Bool.and_eq_true, decide_eq_true_eq, List.all_eq_true] at hs
  obtain ⟨hallnamed, htotal⟩ := hs
  simp only [fieldFrom] at h
  cases hd : bitsDerive len little fs with
  | error e => simp [hd] at h
  | ok r =>
    obtain ⟨l, offs⟩ := r
    simp only [hd] at h
    rcases fieldFromCore_ok_inv h with ⟨h1, _, _⟩ | ⟨_, hg, hk, hb⟩
    · rw [hp] at h1; cases h1
    · simp only [Except.ok.injEq] at hg
      subst hg
      obtain ⟨hbn, hchain⟩ := bitNames_derive hd
      obtain ⟨hmem, _, hnodup⟩ := bitsOrdered_names little fs
      simp only [FDef.storedNames] at hn hnd
      -- the processed fields are the declared ones (possibly reversed)
      have hmap : offs.map (·.1) = bitsOrdered little fs ∧ l = bitsLen len (bitsOrdered little fs) := by
        simp only [bitsDerive] at hd
        cases ho : bitsOffsets (bitsLen len (bitsOrdered little fs) * 8) (bitsOrdered little fs) with
        | error e => simp [ho] at hd
        | ok o =>
          simp only [ho, Except.ok.injEq, Prod.mk.injEq] at hd
          obtain ⟨rfl, rfl⟩ := hd
          exact ⟨(bitsOffsets_chain _ _ _ ho).2, rfl⟩
      have hnamed : ∀ x ∈ offs, x.1.name.isSome = true := by
        intro x hx
        have : x.1 ∈ bitsOrdered little fs := by rw [← hmap.1]; exact List.mem_map_of_mem hx
        have : x.1 ∈ fs := by cases little <;> simp_all [bitsOrdered]
        exact hallnamed x.1 this
      obtain ⟨c, e1, e2, e3⟩ := bitsDec_pack offs (l * 8) pre pre' _ hchain hnamed
        (by intro n hx; rw [hbn] at hx; exact hn n ((hmem n).1 hx)) (by rw [hbn]; exact hnodup hnd) hb
      subst e1
      -- all bits are covered: the chain ends at 0
      have hend : chainEnd (l * 8) offs = 0 := by
        have := chainEnd_sum offs (l * 8) hchain
        have hsum : (offs.map (·.1.bl)).sum = bitsTotal (bitsOrdered little fs) := by
          rw [← hmap.1, bitsTotal, List.map_map]; rfl
        rw [hsum, htotal, ← hmap.2] at this
        omega
      rw [hend] at e3
      simp only [Nat.pow_zero, Nat.mod_one, Nat.add_zero] at e3
      -- the blob read from the octets fits the set
      have hdl : (List.take l data).length = l := length_take_le hk
      have hblob : leToNat (List.take l data).reverse < 2 ^ (l * 8) := by
        have := leToNat_lt (List.take l data).reverse (by rw [isBytes_reverse]; exact isBytes_take _ _ hib)
        rw [List.length_reverse, hdl] at this
        have e : 256 ^ l = 2 ^ (l * 8) := by rw [Nat.mul_comm, Nat.pow_mul]
        omega
      rw [Nat.mod_eq_of_lt hblob] at e3
      obtain ⟨r1, _, _⟩ := bits_roundtrip offs (l * 8) pre c post 0 hchain e2
      have hv : getPres pres (pre ++ c ++ post) = .ok true := by
        rw [List.append_assoc]; exact getPres_append _ _ _ _ hp
      have hre := intToBytes_intFromBytes .big false (data.take l) (isBytes_take _ _ hib)
      rw [hdl, intFromBytes_eq] at hre
      simp only [Bool.false_eq_true, false_and, if_false, uOf] at hre
      simp only [fieldTo, hd]
      apply fieldToCore_present hv
      · simp only [bitsEncBytes, r1, Nat.zero_or, e3]
        exact hre
      · intro _; exact hdl

theorem fieldEX_env (name pres ld cl fs) (hfs : EnvEX fs) : FieldEX (.env name pres ld cl fs) := by
  intro pre pre' data k post hw hs hp hn _ hib h
  simp only [wfField, Bool.and_eq_true, decide_eq_true_eq] at hw
  obtain ⟨⟨hcl, hwf⟩, hnd⟩ := hw
  subst hcl
  simp only [noSpareField] at hs
  simp only [FDef.pres] at hp
  simp only [fieldFrom] at h
  rcases fieldFromCore_ok_inv h with ⟨h1, _, _⟩ | ⟨_, hg, hk, hb⟩
  · rw [hp] at h1; cases h1
  · have hnm : name ∉ pre.keys := hn name (by simp [FDef.storedNames])
    cases he : envFrom fs [] (List.take k data) 0 with
    | error e => simp [he, tailCheck] at hb
    | ok r =>
      obtain ⟨inner, off⟩ := r
      by_cases hoff : (List.take k data).length = off
      · simp only [he, tailCheck, hoff, ne_eq, not_true_eq_false, and_false, if_false,
          Except.ok.injEq, Vals.set_of_not_mem _ _ _ hnm] at hb
        subst hb
        have hin := hfs [] inner (data.take k) off [] hwf hs (by simp [Vals.keys]) hnd (isBytes_take _ _ hib) he
        rw [← hoff, List.take_length, List.append_nil] at hin
        have hv : getPres pres (pre ++ [(name, Val.dict inner)] ++ post) = .ok true := by
          rw [List.append_assoc]; exact getPres_append _ _ _ _ hp
        simp only [fieldTo]
        apply fieldToCore_present hv
        · simp only [Vals.getDict, get_mid pre post name _ hnm, hin]
        · intro hsl; rw [length_take_le hk]; exact selfLen_of_getLen hg hsl
      · rw [he] at hb
        simp only [tailCheck] at hb
        rw [if_pos ⟨trivial, hoff⟩] at hb
        cases hb

theorem fieldEX_seq (name pres ld item) (hitem : EnvEX item) : FieldEX (.seq name pres ld item) := by
  intro pre pre' data k post hw hs hp hn _ hib h
  simp only [wfField, Bool.and_eq_true, decide_eq_true_eq] at hw
  obtain ⟨⟨hwf, hnd⟩, _⟩ := hw
  simp only [noSpareField] at hs
  simp only [FDef.pres] at hp
  simp only [fieldFrom] at h
  rcases fieldFromCore_ok_inv h with ⟨h1, _, _⟩ | ⟨_, hg, hk, hb⟩
  · rw [hp] at h1; cases h1
  · have hnm : name ∉ pre.keys := hn name (by simp [FDef.storedNames])
    cases hsq : seqLoop (fun x => envFrom item [] x 0) (List.take k data).length (List.take k data) 0 [] with
    | error e => rw [hsq] at hb; cases hb
    | ok vseq =>
      rw [hsq] at hb
      simp only [Except.ok.injEq, Vals.set_of_not_mem _ _ _ hnm] at hb
      subst hb
      obtain ⟨items, e1, e2⟩ := seqEX (fun x => envFrom item [] x 0) (fun v => envTo item v)
        (by
          intro x v kk hx hpx
          have := hitem [] v x kk [] hwf hs (by simp [Vals.keys]) hnd hx hpx
          simpa using this)
        _ (data.take k) 0 [] vseq (isBytes_take _ _ hib) hsq
      simp only [List.nil_append] at e1
      subst e1
      simp only [List.drop_zero] at e2
      have hv : getPres pres (pre ++ [(name, Val.list vseq)] ++ post) = .ok true := by
        rw [List.append_assoc]; exact getPres_append _ _ _ _ hp
      simp only [fieldTo]
      apply fieldToCore_present hv
      · simp only [Vals.getList, get_mid pre post name _ hnm, e2]
      · intro hsl; rw [length_take_le hk]; exact selfLen_of_getLen hg hsl

theorem fieldEX : ∀ (f : FDef), FieldEX f
  | .int a b c d e f g => fieldEX_int a b c d e f g
  | .buf a b c => fieldEX_buf a b c
  | .spare a b c d => by intro _ _ _ _ _ _ hs; simp [noSpareField] at hs
  | .bits a b c d => fieldEX_bits a b c d
  | .env name pres ld cl fs =>
    fieldEX_env name pres ld cl fs (envEX_of_fields fs (fun g _ => fieldEX g))
  | .seq name pres ld item =>
    fieldEX_seq name pres ld item (envEX_of_fields item (fun g _ => fieldEX g))
termination_by f => sizeOf f
decreasing_by
  all_goals simp_wf
  all_goals (have := List.sizeOf_lt_of_mem ‹_›; omega)

theorem envEX (fs : List FDef) : EnvEX fs := envEX_of_fields fs (fun g _ => fieldEX g)

end OsmoVerif.Codec
