/-
C12 helper lemmas: `Application.__init__` (`build`) establishes the wiring invariant.
-/
import OsmoVerif.Lemmas.WorldPower

namespace OsmoVerif.WorldPower
open OsmoVerif OsmoVerif.World OsmoVerif.PyStr

/-! ### list access -/

theorem getElem?_snoc_some {α} {l : List α} {x y : α} {i : Nat} :
    (l ++ [x])[i]? = some y ↔ (i < l.length ∧ l[i]? = some y) ∨ (i = l.length ∧ y = x) := by
  rw [List.getElem?_append]
  split
  next h => simp only [h, true_and]; constructor
            · exact fun h' => .inl h'
            · rintro (h' | ⟨h', -⟩)
              · exact h'
              · omega
  next h =>
    constructor
    · intro h'
      have : i - l.length = 0 := by
        cases hi : i - l.length with
        | zero => rfl
        | succ n => rw [hi] at h'; simp at h'
      rw [this] at h'
      simp only [List.getElem?_cons_zero, Option.some.injEq] at h'
      exact .inr ⟨by omega, h'.symm⟩
    · rintro (⟨h', -⟩ | ⟨h', rfl⟩)
      · omega
      · subst h'; simp

theorem getElem?_modify_some {α} {l : List α} {f : α → α} {p i : Nat} {y : α} :
    (l.modify p f)[i]? = some y ↔ ∃ z, l[i]? = some z ∧ y = if p = i then f z else z := by
  rw [List.getElem?_modify]
  cases l[i]? with
  | none => simp
  | some z => simp [eq_comm]

/-! ### `find_trx` -/

theorem findTrx_none {ts : List Trx} {a p i : Nat} (h : findTrx ts a p i = none) :
    ∀ (k : Nat) (t : Trx), ts[k]? = some t → ¬ (t.addr = a ∧ t.basePort = p ∧ t.childIdx = i) := by
  intro k t ht hc
  unfold findTrx at h
  rw [List.findIdx?_eq_none_iff] at h
  have := h t (List.mem_of_getElem? ht)
  simp [hc.1, hc.2.1, hc.2.2] at this

theorem findTrx_some {ts : List Trx} {a p i k : Nat} (h : findTrx ts a p i = some k) :
    ∃ t, ts[k]? = some t ∧ t.addr = a ∧ t.basePort = p ∧ t.childIdx = i := by
  unfold findTrx at h
  rw [List.findIdx?_eq_some_iff_getElem] at h
  obtain ⟨hk, hp, -⟩ := h
  refine ⟨ts[k], List.getElem?_eq_getElem hk, ?_⟩
  simpa [and_assoc] using hp


theorem lt_of_getElem? {α} {l : List α} {i : Nat} {y : α} (h : l[i]? = some y) : i < l.length :=
  (List.getElem?_eq_some_iff.mp h).1

/-! ### the invariant of `Application.__init__` while it appends transceivers -/

/-- wiring invariant without the BTS/MS positions, plus the initial power state -/
structure WFC (ts : List Trx) : Prop where
  child_ok : ∀ (i : Nat) (t : Trx), ts[i]? = some t → ∀ c ∈ t.children, ∃ tc, ts[c]? = some tc ∧
    0 < tc.childIdx ∧ tc.hasClock = false ∧ tc.addr = t.addr ∧ tc.basePort = t.basePort
  parent_ok : ∀ (i : Nat) (t : Trx), ts[i]? = some t → t.children ≠ [] → t.childIdx = 0 ∧ t.hasClock = true
  clock_iff : ∀ (i : Nat) (t : Trx), ts[i]? = some t → (t.hasClock = true ↔ t.childIdx = 0)
  child_has_parent : ∀ (c : Nat) (tc : Trx), ts[c]? = some tc → 0 < tc.childIdx →
    ∃ (p : Nat) (tp : Trx), ts[p]? = some tp ∧ c ∈ tp.children ∧ tp.childIdx = 0 ∧
      tp.addr = tc.addr ∧ tp.basePort = tc.basePort
  one_parent : ∀ (i j : Nat) (ti tj : Trx), ts[i]? = some ti → ts[j]? = some tj →
    ∀ c ∈ ti.children, c ∈ tj.children → i = j
  children_nodup : ∀ (i : Nat) (t : Trx), ts[i]? = some t → t.children.Nodup
  distinct : ∀ (i j : Nat) (ti tj : Trx), ts[i]? = some ti → ts[j]? = some tj →
    ti.addr = tj.addr → ti.basePort = tj.basePort → ti.childIdx = tj.childIdx → i = j
  init : ∀ (i : Nat) (t : Trx), ts[i]? = some t → t.running = false ∧ t.txQueue = [] ∧ t.fh = none

theorem WFC.nil : WFC [] := by
  constructor <;> intros <;> simp_all

theorem WFC.child_lt {ts : List Trx} (wf : WFC ts) {i : Nat} {t : Trx} (ht : ts[i]? = some t)
    {c : Nat} (hc : c ∈ t.children) : c < ts.length := by
  obtain ⟨tc, htc, -⟩ := wf.child_ok i t ht c hc
  exact lt_of_getElem? htc

/-- appending a parent (clock owner) with a fresh (address, port, 0) -/
theorem WFC.snoc_parent {ts : List Trx} (wf : WFC ts) (x : Trx) (hch : x.children = [])
    (hidx : x.childIdx = 0) (hclk : x.hasClock = true)
    (hinit : x.running = false ∧ x.txQueue = [] ∧ x.fh = none)
    (fresh : ∀ (k : Nat) (t : Trx), ts[k]? = some t →
      ¬ (t.addr = x.addr ∧ t.basePort = x.basePort ∧ t.childIdx = x.childIdx)) :
    WFC (ts ++ [x]) := by
  have old : ∀ {i : Nat} {t : Trx}, ts[i]? = some t → (ts ++ [x])[i]? = some t :=
    fun h => getElem?_snoc_some.mpr (.inl ⟨lt_of_getElem? h, h⟩)
  constructor
  · intro i t ht c hc
    rcases getElem?_snoc_some.mp ht with ⟨-, ht⟩ | ⟨-, rfl⟩
    · obtain ⟨tc, htc, h⟩ := wf.child_ok i t ht c hc
      exact ⟨tc, old htc, h⟩
    · rw [hch] at hc; cases hc
  · intro i t ht hne
    rcases getElem?_snoc_some.mp ht with ⟨-, ht⟩ | ⟨-, rfl⟩
    · exact wf.parent_ok i t ht hne
    · exact ⟨hidx, hclk⟩
  · intro i t ht
    rcases getElem?_snoc_some.mp ht with ⟨-, ht⟩ | ⟨-, rfl⟩
    · exact wf.clock_iff i t ht
    · simp only [hidx, hclk]
  · intro c tc htc hpos
    rcases getElem?_snoc_some.mp htc with ⟨-, htc⟩ | ⟨-, rfl⟩
    · obtain ⟨p, tp, htp, h⟩ := wf.child_has_parent c tc htc hpos
      exact ⟨p, tp, old htp, h⟩
    · omega
  · intro i j ti tj hti htj c hc1 hc2
    rcases getElem?_snoc_some.mp hti with ⟨-, hti⟩ | ⟨-, rfl⟩
    · rcases getElem?_snoc_some.mp htj with ⟨-, htj⟩ | ⟨-, rfl⟩
      · exact wf.one_parent i j ti tj hti htj c hc1 hc2
      · rw [hch] at hc2; cases hc2
    · rw [hch] at hc1; cases hc1
  · intro i t ht
    rcases getElem?_snoc_some.mp ht with ⟨-, ht⟩ | ⟨-, rfl⟩
    · exact wf.children_nodup i t ht
    · rw [hch]; exact List.nodup_nil
  · intro i j ti tj hti htj h1 h2 h3
    rcases getElem?_snoc_some.mp hti with ⟨-, hti'⟩ | ⟨hi, hxi⟩
    · rcases getElem?_snoc_some.mp htj with ⟨-, htj'⟩ | ⟨hj, hxj⟩
      · exact wf.distinct i j ti tj hti' htj' h1 h2 h3
      · subst hxj; exact absurd ⟨h1, h2, h3⟩ (fresh i ti hti')
    · rcases getElem?_snoc_some.mp htj with ⟨-, htj'⟩ | ⟨hj, hxj⟩
      · subst hxi; exact absurd ⟨h1.symm, h2.symm, h3.symm⟩ (fresh j tj htj')
      · omega
  · intro i t ht
    rcases getElem?_snoc_some.mp ht with ⟨-, ht⟩ | ⟨-, rfl⟩
    · exact wf.init i t ht
    · exact hinit


/-- `child_trx_list.add_trx(child)` -/
def addChild (ci : Nat) (t : Trx) : Trx := { t with children := t.children ++ [ci] }

/-- appending a child with a fresh (address, port, idx > 0) to the parent `p` -/
theorem WFC.snoc_child {ts : List Trx} (wf : WFC ts) (p : Nat) (tp : Trx) (htp : ts[p]? = some tp)
    (hp0 : tp.childIdx = 0) (x : Trx) (hch : x.children = [])
    (hidx : 0 < x.childIdx) (hclk : x.hasClock = false)
    (haddr : x.addr = tp.addr) (hport : x.basePort = tp.basePort)
    (hinit : x.running = false ∧ x.txQueue = [] ∧ x.fh = none)
    (fresh : ∀ (k : Nat) (t : Trx), ts[k]? = some t →
      ¬ (t.addr = x.addr ∧ t.basePort = x.basePort ∧ t.childIdx = x.childIdx)) :
    WFC ((ts ++ [x]).modify p (addChild ts.length)) := by
  have hpl : p < ts.length := lt_of_getElem? htp
  have view : ∀ {i : Nat} {t' : Trx}, ((ts ++ [x]).modify p (addChild ts.length))[i]? = some t' →
      (i ≠ p ∧ ts[i]? = some t') ∨ (i = p ∧ t' = addChild ts.length tp) ∨ (i = ts.length ∧ t' = x) := by
    intro i t' h
    obtain ⟨z, hz, rfl⟩ := getElem?_modify_some.mp h
    rcases getElem?_snoc_some.mp hz with ⟨-, hz⟩ | ⟨hi, rfl⟩
    · by_cases hpi : p = i
      · subst hpi
        rw [htp] at hz; cases hz
        exact .inr (.inl ⟨rfl, by simp only [if_true]⟩)
      · exact .inl ⟨fun h => hpi h.symm, by simp only [if_neg hpi]; exact hz⟩
    · have hpi : ¬ p = i := by omega
      exact .inr (.inr ⟨hi, by simp only [if_neg hpi]⟩)
  have old : ∀ {i : Nat} {t : Trx}, i ≠ p → ts[i]? = some t →
      ((ts ++ [x]).modify p (addChild ts.length))[i]? = some t := by
    intro i t hne h
    refine getElem?_modify_some.mpr ⟨t, getElem?_snoc_some.mpr (.inl ⟨lt_of_getElem? h, h⟩), ?_⟩
    rw [if_neg (fun h => hne h.symm)]
  have atp : ((ts ++ [x]).modify p (addChild ts.length))[p]? = some (addChild ts.length tp) := by
    refine getElem?_modify_some.mpr ⟨tp, getElem?_snoc_some.mpr (.inl ⟨hpl, htp⟩), ?_⟩
    rw [if_pos rfl]
  have new : ((ts ++ [x]).modify p (addChild ts.length))[ts.length]? = some x := by
    refine getElem?_modify_some.mpr ⟨x, getElem?_snoc_some.mpr (.inr ⟨rfl, rfl⟩), ?_⟩
    rw [if_neg (by omega)]
  -- a child of the old list is never the parent `p`
  have child_ne_p : ∀ {c : Nat} {tc : Trx}, ts[c]? = some tc → 0 < tc.childIdx → c ≠ p := by
    intro c tc htc hpos hcp
    subst hcp
    rw [htp] at htc; cases htc
    omega
  have hmem : ∀ {c : Nat}, c ∈ (addChild ts.length tp).children ↔ c ∈ tp.children ∨ c = ts.length := by
    intro c; simp only [addChild, List.mem_append, List.mem_singleton]
  constructor
  · -- child_ok
    intro i t ht c hc
    have oldc : ∀ (t0 : Trx), ts[i]? = some t0 → c ∈ t0.children →
        ∃ tc, ((ts ++ [x]).modify p (addChild ts.length))[c]? = some tc ∧ 0 < tc.childIdx ∧
          tc.hasClock = false ∧ tc.addr = t0.addr ∧ tc.basePort = t0.basePort := by
      intro t0 ht0 hc0
      obtain ⟨tc, htc, h1, h2, h3, h4⟩ := wf.child_ok i t0 ht0 c hc0
      exact ⟨tc, old (child_ne_p htc h1) htc, h1, h2, h3, h4⟩
    rcases view ht with ⟨-, ht⟩ | ⟨hi, rfl⟩ | ⟨-, rfl⟩
    · exact oldc t ht hc
    · subst hi
      rcases hmem.mp hc with hc | hc
      · exact oldc tp htp hc
      · subst hc
        exact ⟨x, new, hidx, hclk, haddr, hport⟩
    · rw [hch] at hc; cases hc
  · -- parent_ok
    intro i t ht hne
    rcases view ht with ⟨-, ht⟩ | ⟨hi, rfl⟩ | ⟨-, rfl⟩
    · exact wf.parent_ok i t ht hne
    · exact ⟨hp0, (wf.clock_iff p tp htp).mpr hp0⟩
    · exact absurd hch hne
  · -- clock_iff
    intro i t ht
    rcases view ht with ⟨-, ht⟩ | ⟨hi, rfl⟩ | ⟨-, rfl⟩
    · exact wf.clock_iff i t ht
    · exact wf.clock_iff p tp htp
    · simp only [hclk, Bool.false_eq_true, false_iff]; omega
  · -- child_has_parent
    intro c tc htc hpos
    rcases view htc with ⟨-, htc'⟩ | ⟨hi, rfl⟩ | ⟨hc, hxc⟩
    · obtain ⟨q, tq, htq, h1, h2, h3, h4⟩ := wf.child_has_parent c tc htc' hpos
      by_cases hq : q = p
      · subst hq
        rw [htp] at htq; cases htq
        exact ⟨q, addChild ts.length tp, atp, hmem.mpr (.inl h1), h2, h3, h4⟩
      · exact ⟨q, tq, old hq htq, h1, h2, h3, h4⟩
    · have : (addChild ts.length tp).childIdx = tp.childIdx := rfl
      omega
    · subst hc; subst hxc
      exact ⟨p, addChild ts.length tp, atp, hmem.mpr (.inr rfl), hp0, haddr.symm, hport.symm⟩
  · -- one_parent
    intro i j ti tj hti htj c hc1 hc2
    rcases view hti with ⟨hi, hti'⟩ | ⟨hi, hxi⟩ | ⟨-, hxi⟩
    · rcases view htj with ⟨hj, htj'⟩ | ⟨hj, hxj⟩ | ⟨-, hxj⟩
      · exact wf.one_parent i j ti tj hti' htj' c hc1 hc2
      · subst hxj; subst hj
        rcases hmem.mp hc2 with hc2 | hc2
        · exact wf.one_parent i j ti tp hti' htp c hc1 hc2
        · have := wf.child_lt hti' hc1; omega
      · subst hxj; rw [hch] at hc2; cases hc2
    · subst hxi; subst hi
      rcases view htj with ⟨hj, htj'⟩ | ⟨hj, hxj⟩ | ⟨-, hxj⟩
      · rcases hmem.mp hc1 with hc1 | hc1
        · exact wf.one_parent i j tp tj htp htj' c hc1 hc2
        · have := wf.child_lt htj' hc2; omega
      · exact hj.symm
      · subst hxj; rw [hch] at hc2; cases hc2
    · subst hxi; rw [hch] at hc1; cases hc1
  · -- children_nodup
    intro i t ht
    rcases view ht with ⟨-, ht⟩ | ⟨hi, rfl⟩ | ⟨-, rfl⟩
    · exact wf.children_nodup i t ht
    · simp only [addChild]
      refine List.nodup_append.mpr ⟨wf.children_nodup p tp htp, (by simp), ?_⟩
      intro a ha b hb
      simp only [List.mem_singleton] at hb
      subst hb
      have := wf.child_lt htp ha
      omega
    · rw [hch]; exact List.nodup_nil
  · -- distinct
    intro i j ti tj hti htj h1 h2 h3
    have tv : ∀ {i : Nat} {t' : Trx}, ((ts ++ [x]).modify p (addChild ts.length))[i]? = some t' →
        (∃ t, ts[i]? = some t ∧ t.addr = t'.addr ∧ t.basePort = t'.basePort ∧ t.childIdx = t'.childIdx) ∨
        (i = ts.length ∧ t' = x) := by
      intro i t' h
      rcases view h with ⟨-, h⟩ | ⟨hi, rfl⟩ | h
      · exact .inl ⟨t', h, rfl, rfl, rfl⟩
      · subst hi; exact .inl ⟨tp, htp, rfl, rfl, rfl⟩
      · exact .inr h
    rcases tv hti with ⟨ti0, hti0, a1, a2, a3⟩ | ⟨hi, hxi⟩
    · rcases tv htj with ⟨tj0, htj0, b1, b2, b3⟩ | ⟨hj, hxj⟩
      · exact wf.distinct i j ti0 tj0 hti0 htj0 (by omega) (by omega) (by omega)
      · subst hxj
        exact absurd ⟨by omega, by omega, by omega⟩ (fresh i ti0 hti0)
    · rcases tv htj with ⟨tj0, htj0, b1, b2, b3⟩ | ⟨hj, hxj⟩
      · subst hxi
        exact absurd ⟨by omega, by omega, by omega⟩ (fresh j tj0 htj0)
      · omega
  · -- init
    intro i t ht
    rcases view ht with ⟨-, ht⟩ | ⟨hi, rfl⟩ | ⟨-, rfl⟩
    · exact wf.init i t ht
    · exact wf.init p tp htp
    · exact hinit


/-! ### `append_trx`, `append_child_trx`, `Application.__init__` -/

/-- an old entry keeps its position and everything but (possibly) its child list -/
def Keeps (ts ts' : List Trx) : Prop :=
  ∀ (i : Nat) (t : Trx), ts[i]? = some t → ∃ t', ts'[i]? = some t' ∧ t'.addr = t.addr ∧
    t'.basePort = t.basePort ∧ t'.childIdx = t.childIdx ∧ t'.childMgt = t.childMgt ∧
    t'.hasClock = t.hasClock

theorem Keeps.snoc (ts : List Trx) (x : Trx) : Keeps ts (ts ++ [x]) :=
  fun _ t h => ⟨t, getElem?_snoc_some.mpr (.inl ⟨lt_of_getElem? h, h⟩), rfl, rfl, rfl, rfl, rfl⟩

theorem Keeps.snoc_modify (ts : List Trx) (x : Trx) (p n : Nat) :
    Keeps ts ((ts ++ [x]).modify p (addChild n)) := by
  intro i t h
  refine ⟨_, getElem?_modify_some.mpr ⟨t, getElem?_snoc_some.mpr (.inl ⟨lt_of_getElem? h, h⟩), rfl⟩, ?_⟩
  split <;> exact ⟨rfl, rfl, rfl, rfl, rfl⟩

theorem appendTrx_ok {ts ts' : List Trx} {a p c : Nat} {m : Bool} (h : appendTrx ts a p c m = .ok ts') :
    c = 0 ∧ findTrx ts a p c = none ∧
    ts' = ts ++ [{ addr := a, basePort := p, childIdx := c, childMgt := m, hasClock := true }] := by
  unfold appendTrx at h
  split at h
  · cases h
  · split at h
    · cases h
    next h1 h2 =>
      cases h
      refine ⟨by omega, ?_, rfl⟩
      cases hf : findTrx ts a p c with
      | none => rfl
      | some k => rw [hf] at h2; simp at h2

theorem WFC.appendTrx {ts ts' : List Trx} {a p c : Nat} {m : Bool} (wf : WFC ts)
    (h : appendTrx ts a p c m = .ok ts') : WFC ts' ∧ Keeps ts ts' ∧
      ts'[ts.length]? = some { addr := a, basePort := p, childIdx := c, childMgt := m, hasClock := true } ∧
      c = 0 := by
  obtain ⟨hc, hf, rfl⟩ := appendTrx_ok h
  refine ⟨?_, Keeps.snoc _ _, getElem?_snoc_some.mpr (.inr ⟨rfl, rfl⟩), hc⟩
  exact wf.snoc_parent _ rfl hc rfl ⟨rfl, rfl, rfl⟩ (findTrx_none hf)

theorem WFC.appendChildTrx {ts ts' : List Trx} {a p c : Nat} (wf : WFC ts)
    (h : appendChildTrx ts a p c = .ok ts') : WFC ts' ∧ Keeps ts ts' := by
  unfold World.appendChildTrx at h
  split at h
  · obtain ⟨h1, h2, -, -⟩ := wf.appendTrx h
    exact ⟨h1, h2⟩
  next hc =>
    split at h
    · cases h
    next q hq =>
      split at h
      · cases h
      next hf =>
        cases h
        obtain ⟨tq, htq, h1, h2, h3⟩ := findTrx_some hq
        have hf' : findTrx ts a p c = none := by
          cases hf2 : findTrx ts a p c with
          | none => rfl
          | some k => rw [hf2] at hf; simp at hf
        refine ⟨?_, Keeps.snoc_modify _ _ _ _⟩
        exact wf.snoc_child q tq htq h3 _ rfl (by change 0 < c; omega) rfl h1.symm h2.symm
          ⟨rfl, rfl, rfl⟩ (findTrx_none hf')

/-- the positions of BTS and MS -/
def Heads (ts : List Trx) : Prop :=
  (∃ t ∈ ts[0]?, t.addr = addrBts ∧ t.basePort = 5700 ∧ t.childIdx = 0 ∧
    t.childMgt = Gen.World.btsChildMgt ∧ t.hasClock = true) ∧
  (∃ t ∈ ts[1]?, t.addr = addrBb ∧ t.basePort = 6700 ∧ t.childIdx = 0 ∧
    t.childMgt = Gen.World.msChildMgt ∧ t.hasClock = true)

theorem Heads.keeps {ts ts' : List Trx} (h : Heads ts) (k : Keeps ts ts') : Heads ts' := by
  obtain ⟨⟨t0, h0, a1, a2, a3, a4, a5⟩, ⟨t1, h1, b1, b2, b3, b4, b5⟩⟩ := h
  obtain ⟨t0', h0', c1, c2, c3, c4, c5⟩ := k 0 t0 h0
  obtain ⟨t1', h1', d1, d2, d3, d4, d5⟩ := k 1 t1 h1
  exact ⟨⟨t0', h0', by omega, by omega, by omega, by rw [c4]; exact a4, by rw [c5]; exact a5⟩,
    ⟨t1', h1', by omega, by omega, by omega, by rw [d4]; exact b4, by rw [d5]; exact b5⟩⟩

theorem foldlM_appendChild {extra : List (Nat × Nat × Nat)} {ts ts' : List Trx} (wf : WFC ts) (hd : Heads ts)
    (h : extra.foldlM (fun ts (x : Nat × Nat × Nat) => appendChildTrx ts x.1 x.2.1 x.2.2) ts = .ok ts') :
    WFC ts' ∧ Heads ts' := by
  induction extra generalizing ts with
  | nil =>
    simp only [List.foldlM_nil, pure, Except.pure, Except.ok.injEq] at h
    subst h; exact ⟨wf, hd⟩
  | cons x xs ih =>
    simp only [List.foldlM_cons, bind, Except.bind] at h
    split at h
    · cases h
    next ts1 h1 =>
      obtain ⟨wf1, k1⟩ := wf.appendChildTrx h1
      exact ih wf1 (hd.keeps k1) h

theorem build_wfc {seed : Nat} {extra : List (Nat × Nat × Nat)} {w : World} (h : build seed extra = .ok w) :
    WFC w.trxs ∧ Heads w.trxs ∧ w.clkLinks = [] ∧ w.clkRunning = false ∧ w.clkSrc = none ∧ w.seed = seed := by
  unfold build at h
  simp only [bind, Except.bind, pure, Except.pure] at h
  split at h
  · cases h
  next ts0 h0 =>
    split at h
    · cases h
    next ts1 h1 =>
      split at h
      · cases h
      next ts2 h2 =>
        cases h
        obtain ⟨wf0, -, e0, -⟩ := WFC.nil.appendTrx h0
        obtain ⟨wf1, k1, e1, -⟩ := wf0.appendTrx h1
        have hl0 : ts0.length = 1 := by
          obtain ⟨-, -, rfl⟩ := appendTrx_ok h0; rfl
        have hd : Heads ts1 := by
          obtain ⟨t0', h0', c1, c2, c3, c4, c5⟩ := k1 0 _ e0
          rw [hl0] at e1
          exact ⟨⟨t0', h0', c1, c2, c3, c4, c5⟩, ⟨_, e1, rfl, rfl, rfl, rfl, rfl⟩⟩
        obtain ⟨wf2, hd2⟩ := foldlM_appendChild wf1 hd h2
        exact ⟨wf2, hd2, rfl, rfl, rfl, rfl⟩

theorem WFT.of_wfc {ts : List Trx} (wf : WFC ts) (hd : Heads ts) : WFT ts where
  child_ok := fun i _ t ht c hc => wf.child_ok i t ht c hc
  parent_ok := fun i _ t ht => wf.parent_ok i t ht
  clock_iff := fun i _ t ht => wf.clock_iff i t ht
  child_has_parent := fun c _ tc htc hpos => by
    obtain ⟨p, tp, htp, h⟩ := wf.child_has_parent c tc htc hpos
    exact ⟨p, lt_of_getElem? htp, tp, htp, h⟩
  one_parent := fun i _ j _ ti hti tj htj c hc1 hc2 => wf.one_parent i j ti tj hti htj c hc1 hc2
  children_nodup := fun i _ t ht => wf.children_nodup i t ht
  distinct := fun i _ j _ ti hti tj htj => wf.distinct i j ti tj hti htj
  bts := hd.1
  ms := hd.2

end OsmoVerif.WorldPower
