/-
Text-level facts for the TRXC reply form (C05, trxcon compatibility): ASCII texts pass through
UTF-8 unchanged, `prepare_req` recovers verb and arguments of a well-formed command text
"CMD <VERB> <arg> … <arg>\0", the reply to such a text is "RSP <VERB> <status> <args>[ <result>]\0"
octet for octet, and the length of the command texts trxcon can emit.
-/
import OsmoVerif.Lemmas.WorldCmd
set_option linter.unusedSimpArgs false

namespace OsmoVerif.World
open OsmoVerif OsmoVerif.PyStr

/-! ### ASCII texts: UTF-8 is the identity -/

def Ascii (s : Str) : Prop := ∀ c ∈ s, c < 128

theorem decodeUtf8_ascii {s : Str} (h : Ascii s) : decodeUtf8 s = some s := by
  induction s with
  | nil => rfl
  | cons c r ih =>
    have hc : c < 128 := h c List.mem_cons_self
    have hr := ih (fun x hx => h x (List.mem_cons_of_mem _ hx))
    unfold decodeUtf8
    rw [if_pos hc, hr]; rfl

theorem encodeUtf8_ascii {s : Str} (h : Ascii s) : encodeUtf8 s = s := by
  induction s with
  | nil => rfl
  | cons c r ih =>
    have hc : c < 128 := h c List.mem_cons_self
    have hr := ih (fun x hx => h x (List.mem_cons_of_mem _ hx))
    simp only [encodeUtf8, List.flatMap_cons, encodeChar, hc, if_true] at hr ⊢
    rw [hr]; rfl

theorem ascii_append {a b : Str} (ha : Ascii a) (hb : Ascii b) : Ascii (a ++ b) := by
  intro c hc
  rcases List.mem_append.mp hc with h | h
  · exact ha c h
  · exact hb c h

/-! ### tokens, split and join -/

/-- a command word: non-empty, printable ASCII without the space -/
def Token (t : Str) : Prop := t ≠ [] ∧ ∀ c ∈ t, 32 < c ∧ c < 127

theorem Token.ascii {t : Str} (h : Token t) : Ascii t := fun c hc => by have := (h.2 c hc).2; omega

theorem splitSpace_cons_ne (c : Nat) (r : Str) (hc : c ≠ 32) :
    splitSpace (c :: r) = (c :: (splitSpace r).head!) :: (splitSpace r).tail := by
  simp only [splitSpace, hc, if_false]
  cases h : splitSpace r with
  | nil => exact absurd h (splitSpace_ne_nil r)
  | cons w ws => rfl

theorem splitSpace_word_sep (t : Str) (ht : ∀ c ∈ t, c ≠ 32) (rest : Str) :
    splitSpace (t ++ 32 :: rest) = t :: splitSpace rest := by
  induction t with
  | nil => simp [splitSpace]
  | cons c r ih =>
    have hc : c ≠ 32 := ht c List.mem_cons_self
    have := ih (fun x hx => ht x (List.mem_cons_of_mem _ hx))
    simp only [List.cons_append, splitSpace, hc, if_false, this]

theorem splitSpace_word (t : Str) (ht : ∀ c ∈ t, c ≠ 32) : splitSpace t = [t] := by
  induction t with
  | nil => rfl
  | cons c r ih =>
    have hc : c ≠ 32 := ht c List.mem_cons_self
    have := ih (fun x hx => ht x (List.mem_cons_of_mem _ hx))
    simp only [splitSpace, hc, if_false, this]

theorem splitSpace_joinSpace (t : Str) (ts : List Str) (h : ∀ x ∈ t :: ts, ∀ c ∈ x, c ≠ 32) :
    splitSpace (joinSpace (t :: ts)) = t :: ts := by
  induction ts generalizing t with
  | nil => exact splitSpace_word t (h t List.mem_cons_self)
  | cons u us ih =>
    simp only [joinSpace]
    rw [splitSpace_word_sep t (h t List.mem_cons_self),
      ih u (fun x hx => h x (List.mem_cons_of_mem _ hx))]
/-! ### strip -/

theorem stripBy_keep (p : Nat → Bool) (c d : Nat) (m : Str) (hc : p c = false) (hd : p d = false) :
    stripBy p (c :: (m ++ [d])) = c :: (m ++ [d]) := by
  unfold stripBy
  have h1 : (c :: (m ++ [d])).dropWhile p = c :: (m ++ [d]) := by
    simp only [List.dropWhile_cons, hc, Bool.false_eq_true, if_false]
  rw [h1]
  have h2 : (c :: (m ++ [d])).reverse = d :: (m.reverse ++ [c]) := by simp
  rw [h2]
  have h3 : (d :: (m.reverse ++ [c])).dropWhile p = d :: (m.reverse ++ [c]) := by
    simp only [List.dropWhile_cons, hd, Bool.false_eq_true, if_false]
  rw [h3, ← h2, List.reverse_reverse]

theorem stripBy_single (p : Nat → Bool) (c : Nat) (hc : p c = false) : stripBy p [c] = [c] := by
  simp [stripBy, List.dropWhile_cons, hc]

/-- a text that starts and ends with a character outside the stripped class is unchanged -/
theorem stripBy_ends (p : Nat → Bool) (s : Str) (c d : Nat) (hh : s.head? = some c)
    (hl : s.getLast? = some d) (hc : p c = false) (hd : p d = false) : stripBy p s = s := by
  cases s with
  | nil => cases hh
  | cons x r =>
    simp only [List.head?_cons, Option.some.injEq] at hh
    subst hh
    rcases List.eq_nil_or_concat r with rfl | ⟨m, y, rfl⟩
    · exact stripBy_single p x hc
    · rw [List.concat_eq_append] at hl ⊢
      have : (x :: (m ++ [y])).getLast? = some y := by
        rw [← List.cons_append, List.getLast?_append]; rfl
      rw [this] at hl; cases hl
      exact stripBy_keep p x d m hc hd

/-- a trailing NUL is removed by `strip("\0")` when the text before it neither starts nor ends
with NUL -/
theorem stripNul_trailing (s : Str) (c d : Nat) (hh : s.head? = some c) (hl : s.getLast? = some d)
    (hc : c ≠ 0) (hd : d ≠ 0) : stripNul (s ++ [0]) = s := by
  cases s with
  | nil => cases hh
  | cons x r =>
    simp only [List.head?_cons, Option.some.injEq] at hh
    subst hh
    unfold stripNul stripBy
    have hx : (x == 0) = false := by simpa using hc
    have hdd : (d == 0) = false := by simpa using hd
    have h1 : (x :: r ++ [0]).dropWhile (· == 0) = x :: r ++ [0] := by
      simp only [List.cons_append, List.dropWhile_cons, hx, Bool.false_eq_true, if_false]
    rw [h1]
    obtain ⟨m, hm⟩ : ∃ m, x :: r = m ++ [d] := by
      rcases List.eq_nil_or_concat (x :: r) with h | ⟨m, y, h⟩
      · cases h
      · rw [List.concat_eq_append] at h
        rw [h, List.getLast?_append] at hl
        cases hl
        exact ⟨m, h⟩
    rw [hm]
    have h2 : (m ++ [d] ++ [0]).reverse = 0 :: d :: m.reverse := by simp
    rw [h2]
    have h3 : (0 :: d :: m.reverse).dropWhile (· == 0) = d :: m.reverse := by
      simp only [List.dropWhile_cons, beq_self_eq_true, if_true, hdd, Bool.false_eq_true, if_false]
    rw [h3]; simp
/-! ### join -/

theorem joinSpace_ascii (ts : List Str) (h : ∀ t ∈ ts, Ascii t) : Ascii (joinSpace ts) := by
  induction ts with
  | nil => intro c hc; cases hc
  | cons t ts ih =>
    cases ts with
    | nil => exact h t List.mem_cons_self
    | cons u us =>
      simp only [joinSpace]
      apply ascii_append (h t List.mem_cons_self)
      intro c hc
      rcases List.mem_cons.mp hc with rfl | hc
      · decide
      · exact ih (fun x hx => h x (List.mem_cons_of_mem _ hx)) c hc

theorem joinSpace_head (t : Str) (ts : List Str) (ht : Token t) :
    ∃ c, (joinSpace (t :: ts)).head? = some c ∧ 32 < c ∧ c < 127 := by
  obtain ⟨hne, hc⟩ := ht
  cases t with
  | nil => exact absurd rfl hne
  | cons c r =>
    refine ⟨c, ?_, hc c List.mem_cons_self⟩
    cases ts <;> rfl

theorem joinSpace_last (t : Str) (ts : List Str) (h : ∀ x ∈ t :: ts, Token x) :
    ∃ d, (joinSpace (t :: ts)).getLast? = some d ∧ 32 < d ∧ d < 127 := by
  induction ts generalizing t with
  | nil =>
    obtain ⟨hne, hc⟩ := h t List.mem_cons_self
    rcases List.eq_nil_or_concat t with rfl | ⟨m, y, rfl⟩
    · exact absurd rfl hne
    · rw [List.concat_eq_append] at hc ⊢
      refine ⟨y, ?_, hc y (by simp)⟩
      simp only [joinSpace]
      rw [List.getLast?_append]; rfl
  | cons u us ih =>
    obtain ⟨d, hd, hb⟩ := ih u (fun x hx => h x (List.mem_cons_of_mem _ hx))
    refine ⟨d, ?_, hb⟩
    simp only [joinSpace] at hd ⊢
    simp [List.getLast?_append, List.getLast?_cons, hd]
/-! ### well-formed command texts -/

/-- the text `CMD <VERB> <arg> … <arg>\0` -/
def cmdText (V : Str) (args : List Str) : Str := lit "CMD " ++ joinSpace (V :: args) ++ [0]

theorem stripSpace_printable : ∀ c : Fin 127, 32 < c.val → isStripSpace c.val = false := by decide

theorem cmdText_drop (V : Str) (args : List Str) :
    (cmdText V args).drop 4 = joinSpace (V :: args) ++ [0] := rfl

theorem cmdText_startsWith (V : Str) (args : List Str) :
    startsWith (cmdText V args) (lit "CMD") = true := rfl

theorem request_cmdText (V : Str) (args : List Str) (h : ∀ x ∈ V :: args, Token x) :
    request (cmdText V args) = V :: args := by
  obtain ⟨c, hc, hc1, hc2⟩ := joinSpace_head V args (h V List.mem_cons_self)
  obtain ⟨d, hd, hd1, hd2⟩ := joinSpace_last V args h
  have hne : joinSpace (V :: args) ≠ [] := by intro e; rw [e] at hc; cases hc
  have hh : (joinSpace (V :: args) ++ [0]).head? = some c := by
    cases hj : joinSpace (V :: args) with
    | nil => exact absurd hj hne
    | cons x r => rw [hj] at hc; exact hc
  have hl : (joinSpace (V :: args) ++ [0]).getLast? = some 0 := by
    rw [List.getLast?_append]; rfl
  have hstrip : strip (joinSpace (V :: args) ++ [0]) = joinSpace (V :: args) ++ [0] :=
    stripBy_ends _ _ c 0 hh hl (stripSpace_printable ⟨c, hc2⟩ hc1) (by decide)
  unfold request
  rw [cmdText_drop, hstrip, stripNul_trailing _ c d hc hd (by omega) (by omega)]
  exact splitSpace_joinSpace V args (fun x hx ch hch => by have := (h x hx).2 ch hch; omega)

theorem cmdText_ascii (V : Str) (args : List Str) (h : ∀ x ∈ V :: args, Token x) :
    Ascii (cmdText V args) := by
  unfold cmdText
  refine ascii_append (ascii_append ?_ (joinSpace_ascii _ (fun t ht => (h t ht).ascii))) ?_
  · unfold Ascii; decide
  · unfold Ascii; decide

/-! ### decimal numbers are tokens -/

theorem natDigits_token (n : Nat) : Token (natDigits n) ∧ ∀ c ∈ natDigits n, 48 ≤ c ∧ c ≤ 57 := by
  have hd : ∀ c ∈ natDigits n, 48 ≤ c ∧ c ≤ 57 := by
    intro c hc
    obtain ⟨ch, hch, rfl⟩ := List.mem_map.mp hc
    have := Nat.isDigit_of_mem_toDigits (by decide) (by decide) hch
    simp only [Char.isDigit, Bool.and_eq_true, decide_eq_true_eq] at this
    have h1 : (48 : UInt32) ≤ ch.val := this.1
    have h2 : ch.val ≤ (57 : UInt32) := this.2
    exact ⟨UInt32.le_iff_toNat_le.mp h1, UInt32.le_iff_toNat_le.mp h2⟩
  refine ⟨⟨?_, fun c hc => by have := hd c hc; omega⟩, hd⟩
  intro e
  have : Nat.toDigits 10 n = [] := List.map_eq_nil_iff.mp e
  exact Nat.toDigits_ne_nil this

theorem intToStr_token (v : Int) : Token (intToStr v) := by
  unfold intToStr
  split
  · refine ⟨by simp, fun c hc => ?_⟩
    rcases List.mem_cons.mp hc with rfl | hc
    · decide
    · exact (natDigits_token _).1.2 c hc
  · exact (natDigits_token _).1
/-! ### result parameters -/

def ActionResults (req : List Str) : Action → Prop
  | .reply _ ps => ps = [] ∨ (verifyCmd req "NOMTXPOWER" 0 = true ∧ ∃ v, ps = [intToStr v])
  | .measure _ => verifyCmd req "MEASURE" 1 = true
  | _ => True

macro "res_finish" h:ident : tactic =>
  `(tactic| (
    simp only [arg_one, arg_two, bind, Except.bind, pure, Except.pure, map_eq] at $h:ident
    repeat' split at $h:ident
    all_goals first
      | (cases $h:ident; done)
      | contradiction
      | (cases $h:ident; exact True.intro)
      | (cases $h:ident; exact Or.inl rfl)))

theorem commonCmd_results {trx : Trx} {req : List Str} {a : Action} (h : commonCmd trx req = .ok a) :
    ActionResults req a := by
  unfold commonCmd at h
  by_cases hv : verifyCmd req "POWERON" 0 = true
  · rw [if_pos hv] at h; clear hv; res_finish h
  rw [if_neg hv] at h; clear hv
  by_cases hv : verifyCmd req "POWEROFF" 0 = true
  · rw [if_pos hv] at h; clear hv; res_finish h
  rw [if_neg hv] at h; clear hv
  by_cases hv : verifyCmd req "RXTUNE" 1 = true
  · rw [if_pos hv] at h; obtain ⟨a, rfl⟩ := verifyCmd1 hv; clear hv; res_finish h
  rw [if_neg hv] at h; clear hv
  by_cases hv : verifyCmd req "TXTUNE" 1 = true
  · rw [if_pos hv] at h; obtain ⟨a, rfl⟩ := verifyCmd1 hv; clear hv; res_finish h
  rw [if_neg hv] at h; clear hv
  by_cases hv : verifyCmd req "MEASURE" 1 = true
  · rw [if_pos hv] at h
    simp only [bind, Except.bind, pure, Except.pure] at h
    repeat' split at h
    all_goals first
      | (cases h; done)
      | (cases h; exact Or.inl rfl)
      | (cases h; exact hv)
  rw [if_neg hv] at h; clear hv
  by_cases hv : verifyCmd req "SETFH" 4 true = true
  · rw [if_pos hv] at h; clear hv
    simp only [bind, Except.bind, pure, Except.pure] at h
    repeat' split at h
    all_goals first
      | (cases h; done)
      | contradiction
      | (cases h; exact True.intro)
      | (cases h; exact Or.inl rfl)
  rw [if_neg hv] at h; clear hv
  by_cases hv : verifyCmd req "SETFORMAT" 1 = true
  · rw [if_pos hv] at h; obtain ⟨a, rfl⟩ := verifyCmd1 hv; clear hv; res_finish h
  rw [if_neg hv] at h; clear hv
  by_cases hv : verifyCmd req "SETPOWER" 1 = true
  · rw [if_pos hv] at h; obtain ⟨a, rfl⟩ := verifyCmd1 hv; clear hv; res_finish h
  rw [if_neg hv] at h; clear hv
  by_cases hv : verifyCmd req "NOMTXPOWER" 0 = true
  · rw [if_pos hv] at h
    cases h
    exact Or.inr ⟨hv, _, rfl⟩
  rw [if_neg hv] at h; clear hv
  by_cases hv : verifyCmd req "RFMUTE" 1 = true
  · rw [if_pos hv] at h; obtain ⟨a, rfl⟩ := verifyCmd1 hv; clear hv; res_finish h
  rw [if_neg hv] at h; clear hv
  cases h; exact Or.inl rfl

/-- result parameters exist only for MEASURE (the power level) and NOMTXPOWER (the nominal power);
each is one decimal number -/
theorem parseCmd_results {w w' : World} {i : Nat} {req : List Str} {rc : Int} {ps : List Str}
    (h : parseCmd w i req = .ok (w', (rc, ps))) :
    ps = [] ∨ ((verifyCmd req "MEASURE" 1 = true ∨ verifyCmd req "NOMTXPOWER" 0 = true) ∧
      ∃ v, ps = [intToStr v]) := by
  rw [parseCmd_eq] at h
  split at h
  · cases h
  · cases h; exact .inl rfl
  · split at h
    · cases h
    · split at h
      · cases h
      · rename_i a hc
        have hr := commonCmd_results hc
        cases a with
        | patch p rc' => cases h; exact .inl rfl
        | reply rc' ps' =>
          cases h
          rcases hr with rfl | ⟨hv, v, rfl⟩
          · exact .inl rfl
          · exact .inr ⟨.inr hv, v, rfl⟩
        | power on =>
          simp only [applyAction, bind, Except.bind, pure, Except.pure] at h
          split at h
          · cases h
          · cases h; exact .inl rfl
        | measure f =>
          simp only [applyAction, bind, Except.bind, pure, Except.pure] at h
          split at h
          · cases h
          · cases h; exact .inr ⟨.inl hr, _, rfl⟩
/-! ### the reply to a well-formed command text -/

/-- the text `RSP <VERB> <status> <arg> … <arg>[ <result>]\0` -/
def rspTextOf (V : Str) (status : Int) (args results : List Str) : Str :=
  lit "RSP " ++ joinSpace (V :: intToStr status :: (args ++ results)) ++ [0]

theorem handleRx_cmdText {w : World} {i : Nat} {t : Trx} (a p : Nat) (ht : w.trxs[i]? = some t)
    (V : Str) (args : List Str) (h : ∀ x ∈ V :: args, Token x)
    (hlen : (cmdText V args).length ≤ Gen.World.ctrlRecvSize) :
    ∃ status results w',
      handleRx w i a p (cmdText V args) =
        { world := w', out := [⟨t.ctrlPort, a, p, rspTextOf V status args results⟩] } ∧
      (results = [] ∨
        ((V = lit "MEASURE" ∨ V = lit "NOMTXPOWER") ∧ ∃ v, results = [intToStr v])) ∧
      (parseCmd w i (V :: args) = .ok (w', (status, results)) ∨
       (parseCmd w i (V :: args) = .error .valueError ∧ status = -1 ∧ results = [] ∧ w' = w)) := by
  have hd : decodeUtf8 ((cmdText V args).take Gen.World.ctrlRecvSize) = some (cmdText V args) := by
    rw [List.take_of_length_le hlen]; exact decodeUtf8_ascii (cmdText_ascii V args h)
  obtain ⟨rc, params, w', hh, hpc⟩ := handleRx_reply a p ht hd (cmdText_startsWith V args)
  rw [request_cmdText V args h] at hh hpc
  have hres : params = [] ∨
      ((V = lit "MEASURE" ∨ V = lit "NOMTXPOWER") ∧ ∃ v, params = [intToStr v]) := by
    rcases hpc with hok | ⟨_, _, rfl, _⟩
    · rcases parseCmd_results hok with h0 | ⟨hv, v, hp⟩
      · exact .inl h0
      · refine .inr ⟨?_, v, hp⟩
        rcases hv with hv | hv
        · obtain ⟨_, he, _⟩ := verifyCmd_shape hv
          simp only [List.cons.injEq] at he
          exact .inl he.1
        · obtain ⟨_, he, _⟩ := verifyCmd_shape hv
          simp only [List.cons.injEq] at he
          exact .inr he.1
    · exact .inl rfl
  refine ⟨rc, params, w', ?_, hres, hpc⟩
  rw [hh]
  have hasc : Ascii (rspText (V :: args) rc params) := by
    unfold rspText
    refine ascii_append (ascii_append (by unfold Ascii; decide) (joinSpace_ascii _ ?_))
      (by unfold Ascii; decide)
    intro x hx
    simp only [List.cons_append, List.mem_cons, List.mem_append] at hx
    rcases hx with rfl | rfl | hx | hx
    · exact (h _ List.mem_cons_self).ascii
    · exact (intToStr_token rc).ascii
    · exact (h x (List.mem_cons_of_mem _ hx)).ascii
    · rcases hres with rfl | ⟨_, v, rfl⟩
      · cases hx
      · cases List.mem_singleton.mp hx; exact (intToStr_token v).ascii
  rw [encodeUtf8_ascii hasc]
  rfl
/-! ### length of command texts -/

theorem joinSpace_length (t : Str) (ts : List Str) :
    (joinSpace (t :: ts)).length = t.length + (ts.map (·.length + 1)).sum := by
  induction ts generalizing t with
  | nil => simp [joinSpace]
  | cons u us ih =>
    simp only [joinSpace, List.length_append, List.length_cons, ih u, List.map_cons, List.sum_cons]
    omega

theorem cmdText_length (V : Str) (args : List Str) :
    (cmdText V args).length = 5 + V.length + (args.map (·.length + 1)).sum := by
  unfold cmdText
  rw [List.length_append, List.length_append, joinSpace_length]
  have : (lit "CMD ").length = 4 := rfl
  rw [this]; simp only [List.length_cons, List.length_nil]; omega

theorem sum_lengths_le (fs : List Str) (k : Nat) (h : ∀ f ∈ fs, f.length ≤ k) :
    (fs.map (·.length + 1)).sum ≤ fs.length * (k + 1) := by
  induction fs with
  | nil => simp
  | cons f fs ih =>
    have h1 := h f List.mem_cons_self
    have h2 := ih (fun x hx => h x (List.mem_cons_of_mem _ hx))
    simp only [List.map_cons, List.sum_cons, List.length_cons]
    rw [Nat.add_mul]
    omega

/-- a SETFH text whose mobile-allocation part — every frequency followed by one separator, as
trxcon's `snprintf("%u %u ")` loop writes it into `ma_buf[TRXC_BUF_SIZE − 24]` — takes at most 999
octets, with HSN and MAIO of at most three digits, is at most 1017 octets long (NUL included) -/
theorem setfh_text_length (hsn maio : Str) (freqs : List Str) (hh : hsn.length ≤ 3)
    (hm : maio.length ≤ 3) (hma : (freqs.map (·.length + 1)).sum ≤ 999) :
    (cmdText (lit "SETFH") (hsn :: maio :: freqs)).length ≤ 1017 := by
  rw [cmdText_length]
  have : (lit "SETFH").length = 5 := rfl
  simp only [this, List.map_cons, List.sum_cons]
  omega
/-! ### the commands trxcon emits (trx_if.c: `trx_if_cmd_*`, formats `%u` / `%d`) -/

inductive TrxconCmd
  | echo
  | poweroff
  | poweron
  | rxtune (khz : Nat)
  | txtune (khz : Nat)
  | measure (khz : Nat)
  | setslot (tn cfg : Nat)
  | setta (ta : Int)
  /-- `CMD SETFH <hsn> <maio> <rx1> <tx1> … <rxN> <txN>` -/
  | setfh (hsn maio : Nat) (pairs : List (Nat × Nat))

namespace TrxconCmd

def verb : TrxconCmd → Str
  | echo => lit "ECHO"
  | poweroff => lit "POWEROFF"
  | poweron => lit "POWERON"
  | rxtune _ => lit "RXTUNE"
  | txtune _ => lit "TXTUNE"
  | measure _ => lit "MEASURE"
  | setslot _ _ => lit "SETSLOT"
  | setta _ => lit "SETTA"
  | setfh _ _ _ => lit "SETFH"

/-- `rx1 tx1 … rxN txN` as decimal texts -/
def freqTexts : List (Nat × Nat) → List Str
  | [] => []
  | (rx, tx) :: rest => natDigits rx :: natDigits tx :: freqTexts rest

def args : TrxconCmd → List Str
  | echo => []
  | poweroff => []
  | poweron => []
  | rxtune k => [natDigits k]
  | txtune k => [natDigits k]
  | measure k => [natDigits k]
  | setslot tn cfg => [natDigits tn, natDigits cfg]
  | setta ta => [intToStr ta]
  | setfh hsn maio pairs => natDigits hsn :: natDigits maio :: freqTexts pairs

/-- the datagram: `CMD <VERB>[ <args>]\0` in ASCII -/
def text (c : TrxconCmd) : Str := cmdText c.verb c.args

theorem verb_token (c : TrxconCmd) : Token c.verb := by
  cases c <;> (dsimp only [verb]; unfold Token; decide)

theorem verb_ne_nomtxpower (c : TrxconCmd) : c.verb ≠ lit "NOMTXPOWER" := by
  cases c <;> (dsimp only [verb]; decide)

theorem freqTexts_token (ps : List (Nat × Nat)) : ∀ x ∈ freqTexts ps, Token x := by
  induction ps with
  | nil => intro x hx; cases hx
  | cons p ps ih =>
    obtain ⟨rx, tx⟩ := p
    intro x hx
    simp only [freqTexts, List.mem_cons] at hx
    rcases hx with rfl | rfl | hx
    · exact (natDigits_token _).1
    · exact (natDigits_token _).1
    · exact ih x hx

theorem args_token (c : TrxconCmd) : ∀ x ∈ c.args, Token x := by
  intro x hx
  cases c <;> simp only [args, List.mem_cons, List.not_mem_nil, or_false] at hx
  case rxtune k => cases hx; exact (natDigits_token _).1
  case txtune k => cases hx; exact (natDigits_token _).1
  case measure k => cases hx; exact (natDigits_token _).1
  case setslot tn cfg => rcases hx with rfl | rfl <;> exact (natDigits_token _).1
  case setta ta => cases hx; exact intToStr_token _
  case setfh hsn maio ps =>
    rcases hx with rfl | rfl | hx
    · exact (natDigits_token _).1
    · exact (natDigits_token _).1
    · exact freqTexts_token ps x hx

theorem tokens (c : TrxconCmd) : ∀ x ∈ c.verb :: c.args, Token x := by
  intro x hx
  rcases List.mem_cons.mp hx with rfl | hx
  · exact verb_token c
  · exact args_token c x hx

end TrxconCmd

theorem natDigits_length_le {n k : Nat} (hk : 0 < k) (h : n < 10 ^ k) : (natDigits n).length ≤ k := by
  unfold natDigits
  rw [List.length_map]
  exact (Nat.length_toDigits_le_iff (by decide) hk).mpr h

theorem freqTexts_length (ps : List (Nat × Nat)) : (TrxconCmd.freqTexts ps).length = 2 * ps.length := by
  induction ps with
  | nil => rfl
  | cons p ps ih => obtain ⟨rx, tx⟩ := p; simp only [TrxconCmd.freqTexts, List.length_cons, ih]; omega

theorem freqTexts_digits (ps : List (Nat × Nat)) (k : Nat) (hk : 0 < k)
    (h : ∀ p ∈ ps, p.1 < 10 ^ k ∧ p.2 < 10 ^ k) : ∀ f ∈ TrxconCmd.freqTexts ps, f.length ≤ k := by
  induction ps with
  | nil => intro f hf; cases hf
  | cons p ps ih =>
    obtain ⟨rx, tx⟩ := p
    intro f hf
    simp only [TrxconCmd.freqTexts, List.mem_cons] at hf
    have hp := h (rx, tx) List.mem_cons_self
    rcases hf with rfl | rfl | hf
    · exact natDigits_length_le hk hp.1
    · exact natDigits_length_le hk hp.2
    · exact ih (fun q hq => h q (List.mem_cons_of_mem _ hq)) f hf

/-- SETFH as trxcon composes it: HSN, MAIO below 1000 (they are `uint8_t`), `n` pairs of
frequencies of at most `k` digits with `2·n·(k+1) ≤ 999` (what fits `ma_buf`): at most 1017 octets -/
theorem trxcon_setfh_length (hsn maio : Nat) (pairs : List (Nat × Nat)) (k : Nat) (hk : 0 < k)
    (hh : hsn < 1000) (hm : maio < 1000) (hf : ∀ p ∈ pairs, p.1 < 10 ^ k ∧ p.2 < 10 ^ k)
    (hfit : 2 * pairs.length * (k + 1) ≤ 999) :
    (TrxconCmd.setfh hsn maio pairs).text.length ≤ 1017 := by
  unfold TrxconCmd.text TrxconCmd.verb TrxconCmd.args
  apply setfh_text_length
  · exact natDigits_length_le (by decide) hh
  · exact natDigits_length_le (by decide) hm
  · have := sum_lengths_le _ k (freqTexts_digits pairs k hk hf)
    rw [freqTexts_length] at this
    omega
end OsmoVerif.World
