/-
Lemmas about `Model/Osmocon.lean`: the chunking of `handle_sercomm_write`, the bound of `hdlc_send_to_phone`,
the window arithmetic and the feeding of the receiver in the read loop.
-/
import OsmoVerif.Model.Osmocon
import OsmoVerif.Lemmas.SercommMsgb

namespace OsmoVerif.Osmocon
open OsmoVerif.Sercomm OsmoVerif.Gen.Sercomm OsmoVerif.Gen.Osmocon

/-- the fill loop of `handle_sercomm_write` is `pullN` -/
theorem fill_pullN : ∀ (n : Nat) (t : Tx), (fill n t).1 = (pullN n t).1 ∧ (fill n t).2.1 = (pullN n t).2
  | 0, t => ⟨rfl, rfl⟩
  | n + 1, t => by
    simp only [fill, pullN]
    rcases h : Sercomm.pull t with ⟨t', r⟩
    cases r with
    | octet c =>
      have ih := fill_pullN n t'
      simp only
      exact ⟨ih.1, by rw [ih.2]⟩
    | empty => exact ⟨rfl, rfl⟩
    | fault => exact ⟨rfl, rfl⟩

/-- a pull that returns no octet leaves the transmitter as it is -/
theorem pull_stop (t : Tx) (h : ∀ c, (Sercomm.pull t).2 ≠ .octet c) : (Sercomm.pull t).1 = t := by
  unfold Sercomm.pull at h ⊢
  cases hm : t.msg with
  | none =>
    simp only [hm] at h ⊢
    cases hd : dequeueFirst t.queues with
    | none => rfl
    | some r => simp only [hd] at h; exact absurd rfl (h _)
  | some rest =>
    simp only [hm] at h ⊢
    by_cases he : t.state = .escape
    · simp only [he, if_true] at h ⊢
      cases rest with
      | nil => rfl
      | cons c r => exact absurd rfl (h _)
    · simp only [he, if_false] at h ⊢
      cases rest with
      | nil => exact absurd rfl (h _)
      | cons c r =>
        by_cases hn : needsEscape c = true
        · simp only [hn, if_true] at h; exact absurd rfl (h _)
        · simp only [hn] at h; exact absurd rfl (h _)

theorem pullN_add : ∀ (a b : Nat) (t : Tx),
    (pullN (a + b) t).2 = (pullN a t).2 ++ (pullN b (pullN a t).1).2 ∧
    (pullN (a + b) t).1 = (pullN b (pullN a t).1).1
  | 0, b, t => by simp [pullN]
  | a + 1, b, t => by
    have e : a + 1 + b = (a + b) + 1 := by omega
    rw [e]
    simp only [pullN]
    rcases h : Sercomm.pull t with ⟨t', r⟩
    cases r with
    | octet c =>
      have ih := pullN_add a b t'
      simp only
      exact ⟨by rw [ih.1]; rfl, ih.2⟩
    | empty =>
      have hs : (Sercomm.pull t).1 = t := pull_stop t (by rw [h]; intro c hc; cases hc)
      rw [h] at hs
      simp only at hs ⊢
      subst hs
      cases b with
      | zero => simp [pullN]
      | succ b => simp [pullN, h]
    | fault =>
      have hs : (Sercomm.pull t).1 = t := pull_stop t (by rw [h]; intro c hc; cases hc)
      rw [h] at hs
      simp only at hs ⊢
      subst hs
      cases b with
      | zero => simp [pullN]
      | succ b => simp [pullN, h]

/-- the transmitter after a call does not depend on what `write()` did, and what was offered is the
next `sizeof(buffer)` octets of the pull stream -/
theorem hsw_tx (t : Tx) (wr : List Nat → Int) :
    (handleSercommWrite t wr).tx = (pullN writeBuf t).1 ∧
    (handleSercommWrite t wr).offered = (pullN writeBuf t).2 := by
  have h := fill_pullN writeBuf t
  unfold handleSercommWrite
  rcases hf : fill writeBuf t with ⟨t', buf, stop⟩
  rw [hf] at h
  simp only at h ⊢
  by_cases hb : buf.isEmpty = true
  · simp only [hb, if_true]
    have : buf = [] := by simpa using hb
    exact ⟨h.1, by rw [← h.2, this]⟩
  · simp only [hb]
    exact ⟨h.1, h.2⟩

/-- what reaches the line in one call: the first `rc` of the offered octets -/
theorem hsw_line (t : Tx) (wr : List Nat → Int) :
    (handleSercommWrite t wr).line = ((pullN writeBuf t).2).take (wr (pullN writeBuf t).2).toNat := by
  have h := fill_pullN writeBuf t
  unfold handleSercommWrite
  rcases hf : fill writeBuf t with ⟨t', buf, stop⟩
  rw [hf] at h
  simp only at h ⊢
  by_cases hb : buf.isEmpty = true
  · simp only [hb, if_true]
    have : buf = [] := by simpa using hb
    rw [← h.2, this]; simp
  · simp only [hb]
    rw [← h.2]; rfl

/-- a call whose `write()` takes everything puts the next `sizeof(buffer)` octets of the pull stream
on the line -/
theorem hsw_complete (t : Tx) (wr : List Nat → Int) (h : wr (pullN writeBuf t).2 = ((pullN writeBuf t).2).length) :
    (handleSercommWrite t wr).line = (pullN writeBuf t).2 := by
  rw [hsw_line, h]
  simp

theorem writeCalls_complete : ∀ (k : Nat) (t : Tx),
    (writeCalls t (List.replicate k wrAll)).2 = (pullN (k * writeBuf) t).2 ∧
    (writeCalls t (List.replicate k wrAll)).1 = (pullN (k * writeBuf) t).1
  | 0, t => by simp [writeCalls, pullN]
  | k + 1, t => by
    have ih := writeCalls_complete k (pullN writeBuf t).1
    have e : (k + 1) * writeBuf = writeBuf + k * writeBuf := by rw [Nat.add_mul]; omega
    rw [e]
    have ha := pullN_add writeBuf (k * writeBuf) t
    simp only [List.replicate_succ, writeCalls]
    rw [(hsw_tx t wrAll).1, hsw_complete t wrAll rfl, ih.1, ih.2]
    exact ⟨ha.1.symm, ha.2.symm⟩

open OsmoVerif.Msgb OsmoVerif.SercommMsgb

/-- what the property needs of the two literals in `hdlc_send_to_phone`: every accepted length fits the
tailroom of the buffer allocated for it, and that allocation is one `sercomm_alloc_msgb` can serve -/
theorem sendMax_le_alloc : sendMax ≤ sendAlloc := by decide
theorem sendAlloc_pos : 1 ≤ sendAlloc := by decide
theorem sendAlloc_le : sendAlloc ≤ 65531 := by decide
theorem window_pos : 1 ≤ window := by decide

/-- `len > 512`: dropped before anything is allocated -/
theorem hdlcSend_tooMuch (t : CTx) (dlci : Nat) (data : List Nat) {len : Int} (h : len > (sendMax : Int)) :
    hdlcSendToPhone t dlci data len = .tooMuch := by
  simp [hdlcSendToPhone, h]

/-- a negative `len` passes the `len > 512` test; converted to `unsigned int` it passes the `(int)`
comparison in `msgb_put` too and the tail pointer leaves the buffer -/
theorem hdlcSend_negative (t : CTx) (dlci : Nat) (data : List Nat) {len : Int} (h0 : len < 0)
    (h1 : -2147483648 ≤ len) : hdlcSendToPhone t dlci data len = .fault (.msgb .oob) := by
  have hn : ¬ len > (sendMax : Int) := by omega
  have hbig : ¬ (len % 4294967296).toNat < 2147483648 := by omega
  have hlt : (len % 4294967296).toNat < 4294967296 := by omega
  simp only [hdlcSendToPhone, hn, if_false, sercommAlloc_small sendAlloc_pos sendAlloc_le]
  rw [put_huge (scBuf_inv sendAlloc_le) hbig hlt]

/-- `0 ≤ len ≤ 512` octets of the caller's data, a DLCI inside the queue array: the message is queued —
no `MSGB_ABORT`, the buffer holds exactly `data[0 .. len)` behind the two header octets — and this is
the abstract `sercomm_sendmsg` of that payload -/
theorem hdlcSend_ok {ct : CTx} {t : Tx} (hr : TxRel ct t) {dlci : Nat} {data : List Nat} {len : Int}
    (h0 : 0 ≤ len) (h1 : len ≤ (sendMax : Int)) (hd : len.toNat ≤ data.length) (hq : dlci < ct.queues.length) :
    ∃ ct' t', hdlcSendToPhone ct dlci data len = .sent ct' ∧
      sendmsg t dlci (data.take len.toNat) = some t' ∧ TxRel ct' t' ∧ ct'.queues.length = ct.queues.length := by
  have hma := sendMax_le_alloc
  have hn : ¬ len > (sendMax : Int) := by omega
  have hmod : (len % 4294967296).toNat = len.toNat := by have := sendAlloc_le; omega
  have hb := scBuf_rxBuf (size := sendAlloc) sendAlloc_le
  have hlen : (data.take len.toNat).length = len.toNat := by simp; omega
  -- msgb_put + memcpy is putBytes of the first `len` octets
  obtain ⟨m, hm⟩ := putBytes_succeeds hb.inv (bs := data.take len.toNat)
    (by rw [hlen]; show 4 + len.toNat ≤ sendAlloc + 4; omega)
  obtain ⟨im, hbody, hdat, _, _, _⟩ := putBytes_ok hb.inv hm
  simp only [putBytes, bind, Except.bind, hlen] at hm
  obtain ⟨ct', t', hs, ha, hrel, hl⟩ := csendmsg_rel hr im (by rw [hdat]; decide) hq
  rw [hbody, scBuf_body, List.nil_append] at ha
  refine ⟨ct', t', ?_, ha, hrel, hl⟩
  simp only [hdlcSendToPhone, hn, if_false, sercommAlloc_small sendAlloc_pos sendAlloc_le, hmod]
  cases hp : put (scBuf sendAlloc) len.toNat with
  | error f => rw [hp] at hm; cases hm
  | ok r =>
    obtain ⟨m1, dest⟩ := r
    rw [hp] at hm
    simp only at hm ⊢
    rw [if_neg (by omega), hm]
    simp only [hs]

/-- the window is intact: `bufptr` inside it, 7 octets, no write outside so far -/
structure HostOk (h : Host) : Prop where
  ptr : h.bufptr ≤ window
  len : h.buffer.length = window
  oob : h.oob = false

theorem storeAt_length : ∀ (bs buf : List Nat) (off : Nat), (storeAt buf off bs).length = buf.length
  | [], _, _ => rfl
  | b :: bs, buf, off => by simp [storeAt, storeAt_length bs]

theorem read_empty {fd : Fd} (h : fd.avail = []) (n : Nat) :
    fd.read n = ((if fd.eof then 0 else -1), [], fd) := by
  simp [Fd.read, h]

theorem read_nonempty {fd : Fd} (h : fd.avail ≠ []) (n : Nat) :
    fd.read n = (((fd.count n : Nat) : Int), fd.avail.take (fd.count n), { fd with avail := fd.avail.drop (fd.count n) }) := by
  have : fd.avail.isEmpty = false := by simpa using h
  simp [Fd.read, this]

theorem count_le (fd : Fd) (n : Nat) : fd.count n ≤ n ∧ fd.count n ≤ fd.avail.length := by
  unfold Fd.count; split <;> omega

theorem count_pos {fd : Fd} (h : fd.avail ≠ []) {n : Nat} (hn : 1 ≤ n) : 1 ≤ fd.count n := by
  have hpos : 0 < fd.avail.length := List.length_pos_iff.2 h
  unfold Fd.count; split <;> omega

/-- `read()` returns at most `n` -/
theorem read_le (fd : Fd) (n : Nat) : (fd.read n).1 ≤ n := by
  by_cases h : fd.avail = []
  · rw [read_empty h]; simp only; split <;> omega
  · rw [read_nonempty h]; simp only; have := (count_le fd n).1; omega

theorem slide_spec {buffer : List Nat} {bufptr : Nat} (hp : bufptr ≤ window) (hl : buffer.length = window) :
    (slide window buffer bufptr).2.1 + (slide window buffer bufptr).2.2 = window ∧
    1 ≤ (slide window buffer bufptr).2.2 ∧ (slide window buffer bufptr).1.length = window := by
  have hw := window_pos
  unfold slide
  by_cases h : window ≤ bufptr
  · simp only [h, if_true]
    refine ⟨by omega, by omega, ?_⟩
    simp only [List.length_append, List.length_take, List.length_drop, hl]
    omega
  · simp only [h, if_false]
    exact ⟨by omega, by omega, hl⟩

/-- **memory safety of the window**: `handle_buffer` reads into `buffer[bufptr .. bufptr + buf_left)`,
which lies inside the 7 octets, and `handle_read` leaves `bufptr` inside them -/
theorem handleBuffer_ok (c : Cfg) {h : Host} (fd : Fd) (ok : HostOk h) :
    (handleBuffer c h fd).1.buffer.length = window ∧ (handleBuffer c h fd).1.oob = false ∧
    (handleBuffer c h fd).1.bufptr + ((handleBuffer c h fd).2.2).toNat ≤ window := by
  obtain ⟨h1, h2, h3⟩ := slide_spec ok.ptr ok.len
  have r1 := read_le fd (slide window h.buffer h.bufptr).2.2
  unfold handleBuffer
  simp only
  have hoob : (h.oob || decide ((slide window h.buffer h.bufptr).2.1 + (slide window h.buffer h.bufptr).2.2 > window)) = false := by
    rw [ok.oob, h1]; simp
  split
  · exact ⟨by simp [storeAt_length, h3], hoob, by simp only; omega⟩
  · split
    · exact ⟨by simp [storeAt_length, h3], hoob, by simp only; omega⟩
    · exact ⟨by simp [storeAt_length, h3], hoob, by simp only; omega⟩

theorem prompts_window (h : Host) :
    (prompts h).buffer = h.buffer ∧ (prompts h).bufptr = h.bufptr ∧ (prompts h).oob = h.oob ∧ (prompts h).w = h.w := by
  unfold prompts
  repeat' split
  all_goals exact ⟨rfl, rfl, rfl, rfl⟩

theorem handleRead_ok (c : Cfg) {h : Host} (fd : Fd) (ok : HostOk h) : HostOk (handleRead c h fd).1 := by
  obtain ⟨b1, b2, b3⟩ := handleBuffer_ok c fd ok
  unfold handleRead
  simp only
  split
  · exact ⟨by omega, b1, b2⟩
  · obtain ⟨p1, p2, p3, _⟩ := prompts_window (handleBuffer c h fd).1
    exact ⟨by simp only [p2]; omega, by simp only [p1]; exact b1, by simp only [p3]; exact b2⟩

/-- no zero octet -/
def ZeroFree (l : List Nat) : Prop := ∀ x ∈ l, x ≠ 0

instance (l : List Nat) : Decidable (ZeroFree l) := by unfold ZeroFree; infer_instance

theorem storeAt_mem : ∀ (bs buf : List Nat) (off : Nat) {x : Nat}, x ∈ storeAt buf off bs → x ∈ buf ∨ x ∈ bs
  | [], _, _, _, h => .inl h
  | b :: bs, buf, off, x, h => by
    simp only [storeAt] at h
    rcases storeAt_mem bs _ _ h with h1 | h1
    · rcases List.mem_or_eq_of_mem_set h1 with h2 | h2
      · exact .inl h2
      · exact .inr (by simp [h2])
    · exact .inr (by simp [h1])

theorem slide_mem {used : Nat} {buffer : List Nat} {bufptr x : Nat} (h : x ∈ (slide used buffer bufptr).1) :
    x ∈ buffer := by
  unfold slide at h
  split at h
  · simp only [List.mem_append] at h
    rcases h with h | h
    · exact List.mem_of_mem_drop (List.mem_of_mem_take h)
    · exact List.mem_of_mem_drop h
  · exact h

theorem memEq_zeroFree {buf table : List Nat} (hz : ZeroFree buf) (h0 : 0 ∈ table) : memEq buf table = false := by
  by_cases h : memEq buf table = true
  · simp only [memEq, beq_iff_eq] at h
    have : (0 : Nat) ∈ buf := List.mem_of_mem_take (h ▸ h0)
    exact absurd rfl (hz 0 this)
  · simpa using h

/-- in HDLC mode a window without a zero octet matches no prompt that would leave HDLC mode -/
theorem prompts_keep_hdlc {h : Host} (hz : ZeroFree h.buffer) (he : h.expectHdlc = true) :
    (prompts h).expectHdlc = true := by
  have h1 : memEq h.buffer phonePrompt1 = false := memEq_zeroFree hz (by decide)
  unfold prompts
  simp only [h1, Bool.false_eq_true, if_false]
  repeat' split
  all_goals first | rfl | exact he

/-- one `handle_read()` in HDLC mode on a zero-free stream: the octets `read()` delivered go to
`sercomm_drv_rx_char`, each once, in order; HDLC mode stays -/
theorem handleRead_feed (c : Cfg) {h : Host} {fd : Fd} (ok : HostOk h) (hz : ZeroFree h.buffer)
    (hs : ZeroFree fd.avail) (he : h.expectHdlc = true) (hne : fd.avail ≠ []) :
    ∃ k, 1 ≤ k ∧ k ≤ fd.avail.length ∧ (handleRead c h fd).2.2 = (k : Nat) ∧
      (handleRead c h fd).2.1 = { fd with avail := fd.avail.drop k } ∧
      (handleRead c h fd).1.w = (fd.avail.take k).foldl (World.rxOctet c) h.w ∧
      (handleRead c h fd).1.expectHdlc = true ∧ ZeroFree (handleRead c h fd).1.buffer ∧
      HostOk (handleRead c h fd).1 := by
  obtain ⟨s1, s2, s3⟩ := slide_spec ok.ptr ok.len
  have hk := count_pos hne s2
  have hkl := (count_le fd (slide window h.buffer h.bufptr).2.2).2
  have hok := handleRead_ok c fd ok
  refine ⟨fd.count (slide window h.buffer h.bufptr).2.2, hk, hkl, ?_⟩
  have hb : handleBuffer c h fd =
      ({ h with buffer := storeAt (slide window h.buffer h.bufptr).1 (slide window h.buffer h.bufptr).2.1
                  (fd.avail.take (fd.count (slide window h.buffer h.bufptr).2.2)),
                bufptr := (slide window h.buffer h.bufptr).2.1,
                oob := h.oob || decide ((slide window h.buffer h.bufptr).2.1 + (slide window h.buffer h.bufptr).2.2 > window),
                w := (fd.avail.take (fd.count (slide window h.buffer h.bufptr).2.2)).foldl (World.rxOctet c) h.w },
       { fd with avail := fd.avail.drop (fd.count (slide window h.buffer h.bufptr).2.2) },
       ((fd.count (slide window h.buffer h.bufptr).2.2 : Nat) : Int)) := by
    unfold handleBuffer
    simp only [read_nonempty hne, he]
    rw [if_neg (by omega)]
    simp
  have hzb : ZeroFree (handleBuffer c h fd).1.buffer := by
    rw [hb]
    intro x hx
    rcases storeAt_mem _ _ _ hx with h1 | h1
    · exact hz x (slide_mem h1)
    · exact hs x (List.mem_of_mem_take h1)
  have heb : (handleBuffer c h fd).1.expectHdlc = true := by rw [hb]; exact he
  have hpk := prompts_keep_hdlc hzb heb
  obtain ⟨p1, p2, p3, p4⟩ := prompts_window (handleBuffer c h fd).1
  have hr : handleRead c h fd =
      ({ prompts (handleBuffer c h fd).1 with
          bufptr := (prompts (handleBuffer c h fd).1).bufptr + ((handleBuffer c h fd).2.2).toNat },
        (handleBuffer c h fd).2.1, (handleBuffer c h fd).2.2) := by
    unfold handleRead
    simp only
    rw [if_neg (by rw [hb]; simp only; omega)]
  rw [hr] at hok ⊢
  refine ⟨by rw [hb], by rw [hb], ?_, hpk, ?_, hok⟩
  · simp only [p4]; rw [hb]
  · simp only [p1]; exact hzb

/-- `handle_read()` with nothing readable: `read()` fails (or reports end of file), nothing is fed -/
theorem handleRead_idle (c : Cfg) {h : Host} {fd : Fd} (ok : HostOk h) (hz : ZeroFree h.buffer) (hne : fd.avail = []) :
    (handleRead c h fd).2.2 = (if fd.eof then 0 else -1) ∧ (handleRead c h fd).2.1 = fd ∧
      (handleRead c h fd).1.w = h.w ∧ (handleRead c h fd).1.expectHdlc = h.expectHdlc ∧
      ZeroFree (handleRead c h fd).1.buffer ∧ HostOk (handleRead c h fd).1 := by
  have hok := handleRead_ok c fd ok
  have hle : (if fd.eof then (0 : Int) else -1) ≤ 0 := by split <;> omega
  have hb : handleBuffer c h fd =
      ({ h with buffer := storeAt (slide window h.buffer h.bufptr).1 (slide window h.buffer h.bufptr).2.1 [],
                bufptr := (slide window h.buffer h.bufptr).2.1,
                oob := h.oob || decide ((slide window h.buffer h.bufptr).2.1 + (slide window h.buffer h.bufptr).2.2 > window) },
       fd, (if fd.eof then 0 else -1)) := by
    unfold handleBuffer
    simp only [read_empty hne]
    rw [if_pos hle]
  have hr : handleRead c h fd = handleBuffer c h fd := by
    unfold handleRead
    simp only
    rw [if_pos (by rw [hb]; exact hle)]
  rw [hr] at hok ⊢
  rw [hb] at hok ⊢
  refine ⟨rfl, rfl, rfl, rfl, ?_, hok⟩
  intro x hx
  exact hz x (slide_mem (by simpa [storeAt] using hx))

/-- **the read loop feeds everything**: in HDLC mode, with a zero-free window and a zero-free stream
(frames of the link never contain a zero octet), `serial_read` passes every readable octet to
`sercomm_drv_rx_char`, once, in order, whatever the chunking of `read()`; it ends with `EAGAIN`
(or `exit(2)` on end of file), stays in HDLC mode and keeps the window intact -/
theorem readLoop_feeds (c : Cfg) : ∀ (fuel : Nat) (h : Host) (fd : Fd), HostOk h → ZeroFree h.buffer →
    ZeroFree fd.avail → h.expectHdlc = true → fd.avail.length < fuel →
    (readLoop c fuel h fd).1.w = fd.avail.foldl (World.rxOctet c) h.w ∧
    (readLoop c fuel h fd).2.1.avail = [] ∧
    (readLoop c fuel h fd).2.2 = (if fd.eof then 0 else -1) ∧
    HostOk (readLoop c fuel h fd).1 ∧ (readLoop c fuel h fd).1.expectHdlc = true ∧
    ZeroFree (readLoop c fuel h fd).1.buffer
  | 0, _, _, _, _, _, _, hf => by omega
  | fuel + 1, h, fd, ok, hz, hs, he, hf => by
    by_cases hne : fd.avail = []
    · obtain ⟨i1, i2, i3, i4, i5, i6⟩ := handleRead_idle c ok hz hne
      have hle : ¬ (handleRead c h fd).2.2 > 0 := by rw [i1]; split <;> omega
      simp only [readLoop, hle, if_false]
      exact ⟨by rw [i3, hne]; rfl, by rw [i2]; exact hne, i1, i6, by rw [i4]; exact he, i5⟩
    · obtain ⟨k, k1, k2, r1, r2, r3, r4, r5, r6⟩ := handleRead_feed c ok hz hs he hne
      have hgt : (handleRead c h fd).2.2 > 0 := by rw [r1]; omega
      simp only [readLoop, hgt, if_true]
      have hs' : ZeroFree (handleRead c h fd).2.1.avail := by
        rw [r2]; intro x hx; exact hs x (List.mem_of_mem_drop hx)
      have hf' : (handleRead c h fd).2.1.avail.length < fuel := by
        rw [r2]; simp only [List.length_drop]; omega
      obtain ⟨j1, j2, j3, j4, j5, j6⟩ := readLoop_feeds c fuel _ _ r6 r5 hs' r4 hf'
      refine ⟨?_, j2, by rw [j3, r2], j4, j5, j6⟩
      rw [j1, r3, r2]
      simp only
      rw [← List.foldl_append, List.take_append_drop]

theorem serialRead_feeds (c : Cfg) (h : Host) (fd : Fd) (ok : HostOk h) (hz : ZeroFree h.buffer)
    (hs : ZeroFree fd.avail) (he : h.expectHdlc = true) :
    (serialRead c h fd).1.w = fd.avail.foldl (World.rxOctet c) h.w ∧
    (serialRead c h fd).2.1.avail = [] ∧ (serialRead c h fd).2.2 = fd.eof ∧
    HostOk (serialRead c h fd).1 ∧ (serialRead c h fd).1.expectHdlc = true := by
  obtain ⟨j1, j2, j3, j4, j5, _⟩ := readLoop_feeds c (fd.avail.length + 1) h fd ok hz hs he (by omega)
  simp only [serialRead]
  refine ⟨j1, j2, ?_, j4, j5⟩
  rw [j3]
  cases fd.eof <;> rfl

end OsmoVerif.Osmocon
