/-
Helper lemmas for C14 (parser half): `TxMsg.parse_msg` / `RxMsg.parse_msg` of `OsmoVerif.Model.Trxd` on
ARBITRARY octet strings.  The model is failure tagged (`b[i]` -> IndexError, `struct.unpack` on a slice
of the wrong size -> struct.error, the `HDR_LEN` property on an unhandled version -> IndexError, a
table lookup in `bytes.translate` -> IndexError); these lemmas show which tags are reachable:
only `ValueError`, and exactly for the datagrams described by `TxMalformed` / `RxMalformed`
(literal numbers of the TRXD layout, not taken from the code).
-/
import OsmoVerif.Lemmas.Trxd
namespace OsmoVerif.Trxd
open OsmoVerif.Gen

/-! ### partial operations that succeed once the length checks have passed -/

theorem index_ok (b : Bytes) (i : Nat) (h : i < b.length) : index b i = .ok b[i] := by
  simp only [index, List.getElem?_eq_getElem h]

theorem slice_length {α} (b : List α) (i j : Nat) (h : j ≤ b.length) : (slice b i j).length = j - i := by
  simp only [slice, List.length_drop, List.length_take]; omega

theorem unpackBE32u_total (l : Bytes) (h : l.length = 4) : ∃ v, unpackBE32u l = .ok v := by
  match l, h with
  | [_, _, _, _], _ => exact ⟨_, rfl⟩

theorem unpackBE16s_total (l : Bytes) (h : l.length = 2) : ∃ v, unpackBE16s l = .ok v := by
  match l, h with
  | [_, _], _ => exact ⟨_, rfl⟩

theorem knownVersions_nat (v : Nat) : Gen.Trxd.knownVersions.contains (v : Int) = true ↔ v < 2 := by
  rw [List.contains_iff_mem, mem_knownVersions]; omega

/-- the version nibble of a datagram (`msg[0] >> 4`), `none` for the empty datagram -/
def verNibble (b : Bytes) : Option Nat := b[0]?.map (· >>> 4)

theorem verNibble_of_pos (b : Bytes) (h : 0 < b.length) : verNibble b = some (b[0] >>> 4) := by
  simp only [verNibble, List.getElem?_eq_getElem h, Option.map_some]

/-- `parse_msg`, common part: `ValueError` exactly for a message shorter than the common header (5 octets)
or with a version nibble other than 0 / 1; otherwise version, TN and FN are extracted - the `msg[0]` and
the `struct.unpack(">L", msg[1:5])` behind the length check cannot fail. -/
theorem parseCommon_cases (b : Bytes) :
    (parseCommon b = .error .valueError ∧ (b.length < 5 ∨ ∀ v ∈ verNibble b, ¬ v < 2)) ∨
    (∃ ver tn fn, parseCommon b = .ok (ver, tn, fn) ∧ 5 ≤ b.length ∧ verNibble b = some ver ∧ ver < 2) := by
  unfold parseCommon
  by_cases hl : b.length < 5
  · left
    simp only [chdrLen_eq, hl, throw, throwThe, MonadExceptOf.throw, bind, Except.bind, if_true, true_or, and_self]
  · have h0 : 0 < b.length := by omega
    obtain ⟨fn, hfn⟩ := unpackBE32u_total (slice b 1 5) (by rw [slice_length b 1 5 (by omega)])
    simp only [chdrLen_eq, hl, throw, throwThe, MonadExceptOf.throw, bind, Except.bind, pure, Except.pure, if_false,
      index_ok b 0 h0, knownVersions_nat, hfn, verNibble_of_pos b h0]
    by_cases hv : b[0] >>> 4 < 2
    · right
      exact ⟨b[0] >>> 4, b[0] &&& 7, fn, by simp only [hv, not_true_eq_false, if_false], by omega, rfl, hv⟩
    · left
      refine ⟨by simp only [hv, not_false_eq_true, if_true], Or.inr ?_⟩
      intro v hv'
      cases Option.mem_some_iff.mp hv'
      exact hv

theorem txHdrLen_of_known (ver : Nat) (h : ver < 2) : txHdrLen ver = .ok 6 := txHdrLen_ok ver h

theorem rxHdrLen_of_known (ver : Nat) (h : ver < 2) :
    rxHdrLen ver = .ok (if ver = 0 then 8 else 11) := by
  match ver, h with
  | 0, _ => rfl
  | 1, _ => rfl

/-! ### TxMsg.parse_msg -/

/-- a Tx datagram the layout cannot hold: shorter than the 6 header octets, or a version nibble other
than 0 / 1 -/
def TxMalformed (b : Bytes) : Prop := b.length < 6 ∨ ∀ v ∈ verNibble b, ¬ v < 2
instance (b : Bytes) : Decidable (TxMalformed b) := by unfold TxMalformed; infer_instance

/-- `TxMsg().parse_msg(b)` on ANY octet list: `ValueError` exactly when the datagram is malformed, a
message with every field assigned otherwise.  `hdr[5]` is behind the `HDR_LEN` check, `HDR_LEN`'s own
IndexError is behind the version check. -/
theorem TxMsg.parseMsg_cases (b : Bytes) :
    (TxMsg.parseMsg b = .error .valueError ∧ TxMalformed b) ∨
    (∃ m, TxMsg.parseMsg b = .ok m ∧ ¬ TxMalformed b ∧ verNibble b = some m.ver.toNat ∧ (m.ver = 0 ∨ m.ver = 1) ∧
          (∃ fn, m.fn = some fn) ∧ (∃ tn, m.tn = some tn) ∧ (∃ p, m.pwr = some p) ∧
          (m.burst = none ↔ b.length = 6)) := by
  unfold TxMsg.parseMsg
  rcases parseCommon_cases b with ⟨he, hwhy⟩ | ⟨ver, tn, fn, hok, hl, hvn, hv⟩
  · left
    refine ⟨by simp only [he, bind, Except.bind], ?_⟩
    rcases hwhy with h | h
    · exact Or.inl (by omega)
    · exact Or.inr h
  · simp only [hok, bind, Except.bind, txHdrLen_of_known ver hv, throw, throwThe, MonadExceptOf.throw, pure,
      Except.pure]
    by_cases h6 : b.length < 6
    · left
      exact ⟨by simp only [h6, if_true], Or.inl h6⟩
    · right
      have hnm : ¬ TxMalformed b := by
        rintro (h | h)
        · exact h6 h
        · exact h ver (by rw [hvn]; rfl) hv
      have hver : ((ver : Int) = 0 ∨ (ver : Int) = 1) := by omega
      simp only [h6, if_false, index_ok b 5 (by omega)]
      by_cases he : b.length = 6
      · rw [if_pos he]
        exact ⟨_, rfl, hnm, by simpa using hvn, hver, ⟨_, rfl⟩, ⟨_, rfl⟩, ⟨_, rfl⟩, by simp only [he]⟩
      · rw [if_neg he]
        exact ⟨_, rfl, hnm, by simpa using hvn, hver, ⟨_, rfl⟩, ⟨_, rfl⟩, ⟨_, rfl⟩, by simp only [he, reduceCtorEq]⟩

/-- the exception classes `TxMsg.parse_msg` can signal: `ValueError` only -/
theorem TxMsg.parseMsg_err (b : Bytes) (e : Exc) (h : TxMsg.parseMsg b = .error e) : e = .valueError := by
  rcases TxMsg.parseMsg_cases b with ⟨he, _⟩ | ⟨m, hm, _⟩
  · rw [he] at h; cases h; rfl
  · rw [hm] at h; cases h

/-! ### RxMsg.parse_msg -/

theorem RxMsg.parseMts_ver (m : RxMsg) (mts : Nat) : (m.parseMts mts).ver = m.ver := by
  unfold RxMsg.parseMts
  split
  · rfl
  · dsimp only
    split <;> rfl

/-- `bytes.translate(Msg._tab_usbit2sbit)` on octets never raises -/
theorem usbit2sbit_total (b : Bytes) (h : ∀ x ∈ b, x < 256) : ∃ s, usbit2sbit b = .ok s ∧ s.length = b.length := by
  have hl := tabUsbit2sbit_length
  obtain ⟨ys, h1, h2⟩ := translateGo_total Gen.Trxd.tabUsbit2sbit hl b h
  exact ⟨ys, by simp only [usbit2sbit, translate, hl, ne_eq, not_true_eq_false, if_false, h1], h2⟩

/-- `parse_hdr` behind the `HDR_LEN` check: every `hdr[i]` and every `struct.unpack(">h", hdr[i:i+2])` succeeds -/
theorem RxMsg.parseHdr_total (m : RxMsg) (b : Bytes) (hv : m.ver = 0 ∨ m.ver = 1)
    (hl : (if m.ver = 0 then 8 else 11) ≤ b.length) :
    ∃ m', m.parseHdr b = .ok m' ∧ m'.ver = m.ver := by
  unfold RxMsg.parseHdr
  have h8 : 8 ≤ b.length := by split at hl <;> omega
  obtain ⟨toa, htoa⟩ := unpackBE16s_total (slice b 6 8) (by rw [slice_length b 6 8 h8])
  rcases hv with hv | hv
  · have hge : ¬ (m.ver ≥ 1) := by omega
    simp only [index_ok b 5 (by omega), htoa, bind, Except.bind, pure, Except.pure, hge, if_false]
    exact ⟨_, rfl, rfl⟩
  · have hge : m.ver ≥ 1 := by omega
    have h11 : 11 ≤ b.length := by
      rw [if_neg (by omega)] at hl; exact hl
    obtain ⟨ci, hci⟩ := unpackBE16s_total (slice b 9 11) (by rw [slice_length b 9 11 h11])
    simp only [index_ok b 5 (by omega), htoa, bind, Except.bind, pure, Except.pure, hge, if_true,
      index_ok b 8 (by omega), hci]
    exact ⟨_, rfl, RxMsg.parseMts_ver _ _⟩

/-- `parse_burst`: a version 0 burst of a length no modulation has (with or without the two legacy
octets) is a `ValueError`; nothing else can be raised for octets -/
theorem RxMsg.parseBurst_cases (m : RxMsg) (u : Bytes) (hu : ∀ x ∈ u, x < 256) :
    (m.parseBurst u = .error .valueError ∧ m.ver = 0 ∧ RxMsg.guessMod (u.length : Int) = none) ∨
    (∃ m', m.parseBurst u = .ok m' ∧ (m.ver = 0 → RxMsg.guessMod (u.length : Int) ≠ none) ∧ m'.ver = m.ver ∧
       ∃ s, m'.burst = some s) := by
  unfold RxMsg.parseBurst
  by_cases hv : m.ver = 0
  · rw [if_pos hv]
    simp only [RxMsg.parseBurstV0, bind, Except.bind, pure, Except.pure]
    cases hg : RxMsg.guessMod (u.length : Int) with
    | none => left; exact ⟨rfl, hv, rfl⟩
    | some mod =>
      right
      obtain ⟨s, hs, _⟩ := usbit2sbit_total (u.take mod.bl) (fun x hx => hu x (List.mem_of_mem_take hx))
      simp only [hs]
      exact ⟨_, rfl, fun _ => by simp, rfl, s, rfl⟩
  · right
    obtain ⟨s, hs, _⟩ := usbit2sbit_total u hu
    rw [if_neg hv]
    simp only [hs, bind, Except.bind, pure, Except.pure]
    exact ⟨_, rfl, fun h => absurd h hv, rfl, s, rfl⟩

/-- an Rx datagram the layout cannot hold: shorter than the header of its version (8 octets for
version 0, 11 for version 1), a version nibble other than 0 / 1, or (version 0, which has no modulation
field) a burst whose length fits no modulation with or without the two legacy octets -/
def RxMalformed (b : Bytes) : Prop :=
  b.length < 8 ∨ (∀ v ∈ verNibble b, ¬ v < 2) ∨ (verNibble b = some 1 ∧ b.length < 11) ∨
  (verNibble b = some 0 ∧ 8 < b.length ∧ RxMsg.guessMod ((b.length - 8 : Nat) : Int) = none)
instance (b : Bytes) : Decidable (RxMalformed b) := by unfold RxMalformed; infer_instance

/-- `self.parse_msg(b)` of an `RxMsg` on ANY octet string (elements < 256): `ValueError` exactly when
the datagram is malformed, a message otherwise. -/
theorem RxMsg.parseMsgFrom_cases (self : RxMsg) (b : Bytes) (hb : ∀ x ∈ b, x < 256) :
    (self.parseMsgFrom b = .error .valueError ∧ RxMalformed b) ∨
    (∃ m, self.parseMsgFrom b = .ok m ∧ ¬ RxMalformed b ∧ verNibble b = some m.ver.toNat ∧ (m.ver = 0 ∨ m.ver = 1) ∧
          (m.burst = none ↔ b.length = (if m.ver = 0 then 8 else 11))) := by
  unfold RxMsg.parseMsgFrom
  rcases parseCommon_cases b with ⟨he, hwhy⟩ | ⟨ver, tn, fn, hok, hl, hvn, hv⟩
  · left
    refine ⟨by simp only [he, bind, Except.bind], ?_⟩
    rcases hwhy with h | h
    · exact Or.inl (by omega)
    · exact Or.inr (Or.inl h)
  · simp only [hok, bind, Except.bind, rxHdrLen_of_known ver hv, throw, throwThe, MonadExceptOf.throw, pure,
      Except.pure]
    have hverI : ((ver : Int) = 0 ∨ (ver : Int) = 1) := by omega
    have hnv : ¬ ∀ v ∈ verNibble b, ¬ v < 2 := fun h => h ver (by rw [hvn]; rfl) hv
    by_cases hs : b.length < (if ver = 0 then 8 else 11)
    · left
      refine ⟨by simp only [hs, if_true], ?_⟩
      by_cases h0 : ver = 0
      · exact Or.inl (by simpa [h0] using hs)
      · have h1 : ver = 1 := by omega
        exact Or.inr (Or.inr (Or.inl ⟨by rw [hvn, h1], by simpa [h1] using hs⟩))
    · simp only [hs, if_false]
      obtain ⟨m', hm', hver'⟩ := RxMsg.parseHdr_total
        { self with ver := (ver : Int), tn := some (tn : Int), fn := some (fn : Int) } b hverI
        (by
          have : ((ver : Int) = 0) ↔ ver = 0 := by omega
          simp only [this]; omega)
      simp only [hm']
      have hver'' : m'.ver = (ver : Int) := hver'
      by_cases he : b.length = (if ver = 0 then 8 else 11)
      · right
        refine ⟨{ m' with burst := none }, by simp only [he, if_true], ?_, by simpa [hver''] using hvn,
          by simpa [hver''] using hverI, ?_⟩
        · rintro (h | h | ⟨hn1, h⟩ | ⟨hn0, h, _⟩)
          · split at he <;> omega
          · exact hnv h
          · rw [hvn] at hn1; cases hn1; simp at he; omega
          · rw [hvn] at hn0; cases hn0; simp at he; omega
        · have : ((ver : Int) = 0) ↔ ver = 0 := by omega
          simp only [hver'', this, he]
      · simp only [he, if_false]
        rcases RxMsg.parseBurst_cases m' (b.drop (if ver = 0 then 8 else 11))
            (fun x hx => hb x (List.mem_of_mem_drop hx)) with ⟨hbe, hbv, hg⟩ | ⟨m'', hbo, hg, hbv, s, hsb⟩
        · left
          refine ⟨hbe, Or.inr (Or.inr (Or.inr ?_))⟩
          have h0 : ver = 0 := by rw [hver''] at hbv; omega
          subst h0
          simp only [if_true, List.length_drop] at hg hs he
          exact ⟨hvn, by omega, hg⟩
        · right
          refine ⟨m'', hbo, ?_, by simpa [hbv, hver''] using hvn, by simpa [hbv, hver''] using hverI, ?_⟩
          · rintro (h | h | ⟨hn1, h⟩ | ⟨hn0, h, hgn⟩)
            · split at hs <;> omega
            · exact hnv h
            · rw [hvn] at hn1; cases hn1; simp at hs; omega
            · rw [hvn] at hn0; cases hn0
              simp only [if_true, List.length_drop] at hg
              exact hg (by rw [hver'']; rfl) hgn
          · have : ((ver : Int) = 0) ↔ ver = 0 := by omega
            simp only [hsb, reduceCtorEq, hbv, hver'', this, false_iff]
            exact he

/-- the exception classes `RxMsg.parse_msg` can signal on octets: `ValueError` only -/
theorem RxMsg.parseMsgFrom_err (self : RxMsg) (b : Bytes) (hb : ∀ x ∈ b, x < 256) (e : Exc)
    (h : self.parseMsgFrom b = .error e) : e = .valueError := by
  rcases RxMsg.parseMsgFrom_cases self b hb with ⟨he, _⟩ | ⟨m, hm, _⟩
  · rw [he] at h; cases h; rfl
  · rw [hm] at h; cases h

/-! ### the burst lengths version 0 accepts, as literal numbers -/

theorem bl_le (m : Modulation) : m.bl ≤ 740 := by
  revert m; decide

theorem guessMod_none_of_big (n : Nat) (h : 742 < n) : RxMsg.guessMod (n : Int) = none := by
  have hp : ∀ k : Int, 740 < k → Modulation.pickByBl k = none := by
    intro k hk
    simp only [Modulation.pickByBl, List.find?_eq_none, beq_iff_eq]
    intro m _ hm
    have := bl_le m
    omega
  simp only [RxMsg.guessMod, hp (n : Int) (by omega), hp ((n : Int) - 2) (by omega)]

theorem guessMod_fin : ∀ n : Fin 743, RxMsg.guessMod ((n.val : Nat) : Int) = none ↔
    n.val ∉ [148, 150, 296, 298, 444, 446, 592, 594, 740, 742] := by decide +kernel

/-- version 0 guesses the modulation from the burst length: exactly the five burst lengths of the
modulations, each with or without the two legacy octets, are accepted -/
theorem guessMod_none_iff (n : Nat) :
    RxMsg.guessMod (n : Int) = none ↔ n ∉ [148, 150, 296, 298, 444, 446, 592, 594, 740, 742] := by
  by_cases h : n < 743
  · exact guessMod_fin ⟨n, h⟩
  · have hn : 742 < n := by omega
    simp only [guessMod_none_of_big n hn, true_iff]
    intro hm
    simp only [List.mem_cons, List.not_mem_nil, or_false] at hm
    omega

end OsmoVerif.Trxd
