/- Every scheduler operation of the model, on a well-formed state, against the abstract machine
of `Spec/TdmaSched.lean` (C08). -/
import OsmoVerif.Lemmas.TdmaSchedSort
import OsmoVerif.Spec.TdmaSched

set_option linter.unusedVariables false

namespace OsmoVerif.TdmaSched
open OsmoVerif.Spec.TdmaSched (AItem Due)

/-- what the property sees of an item (the `flags` field is not part of it) -/
def absItem (it : Item) : AItem Cb := ⟨it.cb, it.p1, it.p2, it.p3, it.prio⟩

def absBucket (b : Bucket) : List (AItem Cb) := (live b).map absItem

/-- abstraction: the items due in `d` frames are the live items of `bucket[(cur_bucket + d) % 25]`.
(The `none` branch is unreachable on well-formed states, see `abs_get`.) -/
def abs (s : Sched) : Due Cb := fun d =>
  if d < 25 then
    match s.bucket[(s.cur + d) % 25]? with
    | some b => absBucket b
    | none => []
  else []

/-- invariant of the reachable states: memory layout intact, counters in range, every pending
callback is a function that reports success in the environment `env` -/
def Inv (env : Env) (s : Sched) : Prop := WF s ∧ AllLive (itemOk env) s

instance (env : Env) (s : Sched) : Decidable (Inv env s) := by unfold Inv; infer_instance

theorem init_inv (env : Env) (cur : Nat) (h : cur < 25) : Inv env (init cur) :=
  ⟨init_wf cur h, init_allLive _ cur⟩

theorem abs_init (cur : Nat) (h : cur < 25) : abs (init cur) = Spec.TdmaSched.empty := by
  funext d
  simp only [abs, Spec.TdmaSched.empty]
  split
  · have h25 : (cur + d) % 25 < Gen.tdmaNumFrames := by rw [nf]; exact Nat.mod_lt _ (by decide)
    have : (init cur).bucket[((init cur).cur + d) % 25]? = some zeroBucket := by
      simp only [init, List.getElem?_replicate, h25, if_true]
    rw [this]
    simp [absBucket, live, zeroBucket]
  · rfl

theorem bucket_get (s : Sched) (hw : WF s) (i : Nat) (hi : i < 25) :
    ∃ b, s.bucket[i]? = some b ∧ b ∈ s.bucket ∧ BucketWF b := by
  have hl : i < s.bucket.length := by rw [hw.1]; exact hi
  exact ⟨s.bucket[i], by simp [hl], List.getElem_mem hl, hw.2.2 _ (List.getElem_mem hl)⟩

theorem abs_get (s : Sched) (d : Nat) (b : Bucket) (hd : d < 25)
    (hb : s.bucket[(s.cur + d) % 25]? = some b) : abs s d = absBucket b := by
  simp only [abs, hd, if_true, hb]

theorem abs_ge (s : Sched) (d : Nat) (hd : ¬ d < 25) : abs s d = [] := by
  simp only [abs, hd, if_false]

theorem absBucket_length (b : Bucket) (hb : BucketWF b) : (absBucket b).length = b.numItems := by
  simp only [absBucket, live, List.length_map, List.length_take, hb.1]
  have := hb.2
  omega

theorem idx_of_get? {α : Type} (l : List α) (i : Nat) (x : α) (h : l[i]? = some x) : idx l i = .ok x := by
  simp [idx, h]

theorem lt_of_get? {α : Type} (l : List α) (i : Nat) (x : α) (h : l[i]? = some x) : i < l.length := by
  have := List.getElem?_eq_some_iff.mp h
  exact this.1

/-- `s'` extends `s`: every bucket keeps its live items, in place (new items are only appended) -/
def Ext (s s' : Sched) : Prop :=
  ∀ (j : Nat) (b : Bucket), s.bucket[j]? = some b → ∃ b', s'.bucket[j]? = some b' ∧ live b <+: live b'

theorem Ext.refl (s : Sched) : Ext s s := fun j b h => ⟨b, h, List.prefix_refl _⟩

theorem Ext.trans {s1 s2 s3 : Sched} (h12 : Ext s1 s2) (h23 : Ext s2 s3) : Ext s1 s3 := by
  intro j b hb
  obtain ⟨b2, h2, p2⟩ := h12 j b hb
  obtain ⟨b3, h3, p3⟩ := h23 j b2 h2
  exact ⟨b3, h3, p2.trans p3⟩

/-- storing one more item `v` in slot `num_items` of the bucket `off` frames ahead -/
theorem push_spec (env : Env) (s : Sched) (off : Nat) (b : Bucket) (v : Item) (hinv : Inv env s)
    (hb : s.bucket[(s.cur + off) % 25]? = some b) (hn : b.numItems < 8) (hv : itemOk env v) :
    Inv env { s with bucket := s.bucket.set ((s.cur + off) % 25) ⟨b.item.set b.numItems v, b.numItems + 1⟩ } ∧
    abs { s with bucket := s.bucket.set ((s.cur + off) % 25) ⟨b.item.set b.numItems v, b.numItems + 1⟩ } =
      Spec.TdmaSched.put (abs s) (off % 25) (absItem v) ∧
    Ext s { s with bucket := s.bucket.set ((s.cur + off) % 25) ⟨b.item.set b.numItems v, b.numItems + 1⟩ } := by
  obtain ⟨⟨hl, hc, hbw⟩, hal⟩ := hinv
  have hi : (s.cur + off) % 25 < s.bucket.length := lt_of_get? _ _ _ hb
  have hbm : b ∈ s.bucket := List.mem_of_getElem? hb
  have hbwf := hbw b hbm
  have hlive : live ⟨b.item.set b.numItems v, b.numItems + 1⟩ = live b ++ [v] := by
    simp only [live]
    exact take_set_succ _ _ _ (by rw [hbwf.1]; exact hn)
  refine ⟨⟨⟨by simpa using hl, hc, ?_⟩, ?_⟩, ?_, ?_⟩
  rotate_right
  · intro j bj hbj
    by_cases hj : (s.cur + off) % 25 = j
    · subst hj
      rw [hb] at hbj
      simp only [Option.some.injEq] at hbj
      subst hbj
      refine ⟨_, List.getElem?_set_self hi, ?_⟩
      rw [hlive]; exact List.prefix_append _ _
    · exact ⟨bj, by simp only [List.getElem?_set_ne hj]; exact hbj, List.prefix_refl _⟩
  · intro b' hb'
    rcases List.mem_or_eq_of_mem_set hb' with h | h
    · exact hbw b' h
    · rw [h]; exact ⟨by simpa using hbwf.1, by simp only []; omega⟩
  · intro b' hb' it hit
    rcases List.mem_or_eq_of_mem_set hb' with h | h
    · exact hal b' h it hit
    · rw [h, hlive] at hit
      rcases List.mem_append.mp hit with h' | h'
      · exact hal b hbm it h'
      · simp only [List.mem_singleton] at h'; rw [h']; exact hv
  · funext d
    simp only [Spec.TdmaSched.put]
    by_cases hd : d < 25
    · have hmod : off % 25 < 25 := Nat.mod_lt _ (by decide)
      by_cases he : d = off % 25
      · have e1 : (s.cur + d) % 25 = (s.cur + off) % 25 := by omega
        have hb2 : s.bucket[(s.cur + off % 25) % 25]? = some b := by
          have : (s.cur + off % 25) % 25 = (s.cur + off) % 25 := by omega
          rw [this]; exact hb
        simp only [he, if_true]
        rw [abs_get s (off % 25) b hmod hb2]
        simp only [abs, hmod, if_true]
        have : (s.cur + off % 25) % 25 = (s.cur + off) % 25 := by omega
        rw [this, List.getElem?_set_self hi]
        simp only [absBucket, hlive, List.map_append, List.map_cons, List.map_nil]
      · have e1 : (s.cur + off) % 25 ≠ (s.cur + d) % 25 := by omega
        simp only [he, if_false, abs, hd, if_true]
        rw [List.getElem?_set_ne e1]
    · have he : d ≠ off % 25 := by
        have : off % 25 < 25 := Nat.mod_lt _ (by decide)
        omega
      simp only [he, if_false]
      rw [abs_ge _ d hd, abs_ge _ d hd]

theorem full_iff (s : Sched) (off : Nat) (b : Bucket) (hw : WF s)
    (hb : s.bucket[(s.cur + off) % 25]? = some b) :
    Spec.TdmaSched.full (abs s) (Spec.TdmaSched.slot off) ↔ 8 ≤ b.numItems := by
  have hmod : off % 25 < 25 := Nat.mod_lt _ (by decide)
  have hb2 : s.bucket[(s.cur + off % 25) % 25]? = some b := by
    have : (s.cur + off % 25) % 25 = (s.cur + off) % 25 := by omega
    rw [this]; exact hb
  have hbwf := hw.2.2 b (List.mem_of_getElem? hb)
  simp only [Spec.TdmaSched.full, Spec.TdmaSched.slot, Spec.TdmaSched.depth, Spec.TdmaSched.capacity]
  rw [abs_get s (off % 25) b hmod hb2, absBucket_length b hbwf]

theorem itemOk_congr (env : Env) (a b : Item) (h1 : a.cb = b.cb) (h2 : a.p1 = b.p1) (h3 : a.p2 = b.p2)
    (h4 : a.p3 = b.p3) : itemOk env a ↔ itemOk env b := by
  simp only [itemOk, h1, h2, h3, h4]

/-- `tdma_schedule` on a well-formed state -/
theorem schedule_spec (env : Env) (s : Sched) (off : Nat) (cb : Cb) (p1 p2 p3 : Nat) (prio : Int)
    (hinv : Inv env s) (ho : off < 256) (h1 : p1 < 256) (h2 : p2 < 256) (h3 : p3 < 65536)
    (hp : -32768 ≤ prio ∧ prio ≤ 32767) (hok : itemOk env ⟨cb, p1, p2, p3, prio, 0⟩) :
    ∃ s' rc, schedule s off cb p1 p2 p3 prio = .ok (s', rc) ∧ Inv env s' ∧ s'.cur = s.cur ∧
      (abs s', rc) = Spec.TdmaSched.schedule (abs s) off ⟨cb, p1, p2, p3, prio⟩ ∧
      (rc = -1 → s' = s) ∧ Ext s s' := by
  have hw := hinv.1
  obtain ⟨hl, hc, hbw⟩ := hw
  obtain ⟨b, hb, hbm, hbwf⟩ := bucket_get s hinv.1 ((s.cur + off) % 25) (Nat.mod_lt _ (by decide))
  have e0 : u8 off = off := by simp only [u8]; omega
  have e1 : u8 p1 = p1 := by simp only [u8]; omega
  have e2 : u8 p2 = p2 := by simp only [u8]; omega
  have e3 : u16 p3 = p3 := by simp only [u16]; omega
  have e4 : i16 prio = prio := by simp only [i16]; omega
  simp only [schedule, e0, e1, e2, e3, e4]
  rw [wrapBucket_ok s off hc ho]
  simp only [bind, Except.bind, idx_of_get? _ _ _ hb, nc]
  by_cases hfull : b.numItems ≥ 8
  · simp only [hfull, if_true]
    refine ⟨s, -1, rfl, hinv, rfl, ?_, fun _ => rfl, Ext.refl s⟩
    simp only [Spec.TdmaSched.schedule]
    rw [if_pos ((full_iff s off b hinv.1 hb).mpr hfull)]
  · simp only [hfull, if_false]
    have hn : b.numItems < 8 := by omega
    have hnl : b.numItems < b.item.length := by rw [hbwf.1]; exact hn
    rw [idx_ok _ _ hnl]
    simp only []
    rw [setIdx_ok _ _ _ hnl]
    simp only []
    rw [setIdx_ok _ _ _ (lt_of_get? _ _ _ hb)]
    have e5 : u8 (b.numItems + 1) = b.numItems + 1 := by simp only [u8]; omega
    rw [e5]
    have hv : itemOk env { b.item[b.numItems] with cb := cb, p1 := p1, p2 := p2, p3 := p3, prio := prio } :=
      (itemOk_congr env _ _ rfl rfl rfl rfl).mpr hok
    obtain ⟨hi', ha', hx'⟩ := push_spec env s off b _ hinv hb hn hv
    refine ⟨_, 0, rfl, hi', rfl, ?_, fun h => by omega, hx'⟩
    simp only [Spec.TdmaSched.schedule]
    rw [if_neg (fun h => hfull ((full_iff s off b hinv.1 hb).mp h))]
    simp only [Spec.TdmaSched.slot, Spec.TdmaSched.depth]
    rw [ha']
    rfl

/-! ### item sets -/

/-- the frames of an item set as the property sees them: the elements before `SCHED_END_SET()`, split
at the `SCHED_END_FRAME()` markers, with the common `p3`.  (A set without end marker is outside
`OpOk`; the `[]` case is then unreachable.) -/
def framesOf (p3 : Nat) : List Item → List (List (AItem Cb))
  | [] => [[]]
  | it :: rest =>
    if it.cb = .endSet then [[]]
    else if it.cb = .null then [] :: framesOf p3 rest
    else match framesOf p3 rest with
      | f :: fs => (absItem { it with p3 := p3 } :: f) :: fs
      | [] => [[absItem { it with p3 := p3 }]]

/-- the set is terminated by `SCHED_END_SET()` -/
def hasEnd : List Item → Bool
  | [] => false
  | it :: rest => if it.cb = .endSet then true else hasEnd rest

/-- number of `SCHED_END_FRAME()` markers before the end marker -/
def markers : List Item → Nat
  | [] => 0
  | it :: rest => if it.cb = .endSet then 0 else if it.cb = .null then markers rest + 1 else markers rest

/-- the items `tdma_schedule_set` tries to store (before the end marker, `p3` overwritten) -/
def setItems (p3 : Nat) : List Item → List Item
  | [] => []
  | it :: rest =>
    if it.cb = .endSet then [] else if it.cb = .null then setItems p3 rest
    else { it with p3 := p3 } :: setItems p3 rest

theorem framesOf_ne_nil (p3 : Nat) : ∀ rest, ∃ f fs, framesOf p3 rest = f :: fs
  | [] => ⟨[], [], rfl⟩
  | it :: rest => by
    simp only [framesOf]
    split
    · exact ⟨_, _, rfl⟩
    · split
      · exact ⟨_, _, rfl⟩
      · obtain ⟨f, fs, h⟩ := framesOf_ne_nil p3 rest
        rw [h]; exact ⟨_, _, rfl⟩

theorem setLoop_spec (env : Env) (p3 : Nat) : ∀ (rest : List Item) (s : Sched) (fo : Nat) (j : Int),
    Inv env s → hasEnd rest = true → fo + markers rest < 256 →
    (∀ it ∈ setItems p3 rest, itemOk env it) →
    ∃ s' rc ok, scheduleSetLoop p3 rest s fo ((s.cur + fo) % 25) j = .ok (s', rc) ∧ Inv env s' ∧
      s'.cur = s.cur ∧
      (abs s', ok) = Spec.TdmaSched.putFrames (abs s) fo (framesOf p3 rest) ∧
      (rc = if ok = true then j + (((framesOf p3 rest).length - 1 : Nat) : Int) else -1) ∧ Ext s s' := by
  intro rest
  induction rest with
  | nil => intro s fo j _ he; simp [hasEnd] at he
  | cons it rest ih =>
    intro s fo j hinv he hm hok
    by_cases c1 : it.cb = .endSet
    · refine ⟨s, j, true, ?_, hinv, rfl, ?_, ?_, Ext.refl s⟩
      · simp only [scheduleSetLoop, c1, if_true]
      · simp only [framesOf, c1, if_true, Spec.TdmaSched.putFrames, Spec.TdmaSched.putFrame]
      · simp only [framesOf, c1, if_true, List.length_cons, List.length_nil]; simp
    · by_cases c2 : it.cb = .null
      · -- SCHED_END_FRAME: next bucket
        have c3 : ¬ (Cb.null = Cb.endSet) := by decide
        simp only [hasEnd, c1, if_false] at he
        simp only [markers, c2, c3, if_false, if_true] at hm
        simp only [setItems, c2, c3, if_false, if_true] at hok
        have e1 : u8 (fo + 1) = fo + 1 := by simp only [u8]; omega
        obtain ⟨s', rc, ok, h1, h2, h3, h4, h5, h6⟩ := ih s (fo + 1) (j + 1) hinv he (by omega) hok
        refine ⟨s', rc, ok, ?_, h2, h3, ?_, ?_, h6⟩
        · simp only [scheduleSetLoop, c2, c3, if_false, if_true, e1]
          rw [wrapBucket_ok s (fo + 1) hinv.1.2.1 (by omega)]
          simp only [bind, Except.bind]
          exact h1
        · simp only [framesOf, c2, c3, if_false, if_true, Spec.TdmaSched.putFrames,
            Spec.TdmaSched.putFrame]
          exact h4
        · obtain ⟨f, fs, hf⟩ := framesOf_ne_nil p3 rest
          rw [h5]
          simp only [framesOf, c2, c3, if_false, if_true, hf, List.length_cons]
          split
          · simp only [Nat.add_sub_cancel]; omega
          · rfl
      · -- an item
        simp only [hasEnd, c1, if_false] at he
        simp only [markers, c1, c2, if_false] at hm
        simp only [setItems, c1, c2, if_false] at hok
        obtain ⟨b, hb, hbm, hbwf⟩ := bucket_get s hinv.1 ((s.cur + fo) % 25) (Nat.mod_lt _ (by decide))
        obtain ⟨f, fs, hf⟩ := framesOf_ne_nil p3 rest
        simp only [scheduleSetLoop, c1, c2, if_false, bind, Except.bind, idx_of_get? _ _ _ hb, nc]
        by_cases hfull : b.numItems ≥ 8
        · simp only [hfull, if_true]
          refine ⟨s, -1, false, rfl, hinv, rfl, ?_, by simp, Ext.refl s⟩
          simp only [framesOf, c1, c2, if_false, hf, Spec.TdmaSched.putFrames, Spec.TdmaSched.putFrame]
          rw [if_pos ((full_iff s fo b hinv.1 hb).mpr hfull)]
        · simp only [hfull, if_false]
          have hn : b.numItems < 8 := by omega
          have hnl : b.numItems < b.item.length := by rw [hbwf.1]; exact hn
          rw [setIdx_ok _ _ _ hnl]
          simp only []
          rw [setIdx_ok _ _ _ (lt_of_get? _ _ _ hb)]
          have e5 : u8 (b.numItems + 1) = b.numItems + 1 := by simp only [u8]; omega
          rw [e5]
          simp only []
          obtain ⟨hi', ha', hx'⟩ := push_spec env s fo b { it with p3 := p3 } hinv hb hn
            (hok _ (List.mem_cons_self ..))
          obtain ⟨s', rc, ok, h1, h2, h3, h4, h5, h6⟩ := ih _ fo j hi' he hm
            (fun x hx => hok x (List.mem_cons_of_mem _ hx))
          refine ⟨s', rc, ok, h1, h2, h3, ?_, ?_, hx'.trans h6⟩
          · rw [h4, ha']
            simp only [framesOf, c1, c2, if_false, hf, Spec.TdmaSched.putFrames, Spec.TdmaSched.putFrame]
            rw [if_neg (fun h => hfull ((full_iff s fo b hinv.1 hb).mp h))]
            simp only [Spec.TdmaSched.slot, Spec.TdmaSched.depth]
          · rw [h5]
            simp only [framesOf, c1, c2, if_false, hf, List.length_cons]

/-- `tdma_schedule_set` on a well-formed state -/
theorem scheduleSet_spec (env : Env) (s : Sched) (off : Nat) (set : List Item) (p3 : Nat)
    (hinv : Inv env s) (he : hasEnd set = true) (hm : off + markers set < 256) (h3 : p3 < 65536)
    (hok : ∀ it ∈ setItems p3 set, itemOk env it) :
    ∃ s' rc, scheduleSet s off set p3 = .ok (s', rc) ∧ Inv env s' ∧ s'.cur = s.cur ∧
      (abs s', rc) = Spec.TdmaSched.scheduleSet (abs s) off (framesOf p3 set) ∧ Ext s s' := by
  have e0 : u8 off = off := by simp only [u8]; omega
  have e3 : u16 p3 = p3 := by simp only [u16]; omega
  obtain ⟨s', rc, ok, h1, h2, h3', h4, h5, h6⟩ := setLoop_spec env p3 set s off 0 hinv he hm hok
  refine ⟨s', rc, ?_, h2, h3', ?_, h6⟩
  · simp only [scheduleSet, e0, e3]
    rw [wrapBucket_ok s off hinv.1.2.1 (by omega)]
    simp only [bind, Except.bind]
    exact h1
  · simp only [Spec.TdmaSched.scheduleSet]
    rw [← h4, h5]
    obtain ⟨f, fs, hf⟩ := framesOf_ne_nil p3 set
    cases ok
    · simp
    · simp only [if_true, hf, List.length_cons, Nat.add_sub_cancel]
      congr 1
      omega

/-! ### advance -/

theorem advance_spec (env : Env) (s : Sched) (hinv : Inv env s) :
    advance s = .ok { s with cur := (s.cur + 1) % 25 } ∧ Inv env { s with cur := (s.cur + 1) % 25 } ∧
      abs { s with cur := (s.cur + 1) % 25 } = Spec.TdmaSched.advance (abs s) := by
  obtain ⟨⟨hl, hc, hbw⟩, hal⟩ := hinv
  refine ⟨?_, ⟨⟨hl, Nat.mod_lt _ (by decide), hbw⟩, hal⟩, ?_⟩
  · simp only [advance]
    rw [wrapBucket_ok s 1 hc (by decide)]
    have : u8 ((s.cur + 1) % 25) = (s.cur + 1) % 25 := by simp only [u8]; omega
    simp only [bind, Except.bind, pure, Except.pure, this]
  · funext d
    simp only [Spec.TdmaSched.advance, Spec.TdmaSched.depth, abs]
    by_cases hd : d < 25
    · have h2 : (d + 1) % 25 < 25 := Nat.mod_lt _ (by decide)
      have e : ((s.cur + 1) % 25 + d) % 25 = (s.cur + (d + 1) % 25) % 25 := by omega
      simp only [hd, h2, if_true, e]
    · simp only [hd, if_false]

/-! ### reset -/

theorem resetLoop_spec (cur : Nat) : ∀ (rem k : Nat) (buckets : List Bucket), k + rem = buckets.length →
    ∃ bs, resetLoop cur rem k buckets = .ok bs ∧ bs.length = buckets.length ∧
      ∀ i, bs[i]? = (buckets[i]?).map (fun b => if k ≤ i ∧ i ≠ cur then { b with numItems := 0 } else b) := by
  intro rem
  induction rem with
  | zero =>
    intro k buckets hk
    refine ⟨buckets, rfl, rfl, ?_⟩
    intro i
    by_cases hi : i < buckets.length
    · have : ¬ (k ≤ i ∧ i ≠ cur) := by omega
      simp [hi, this]
    · simp [List.getElem?_eq_none (by omega : buckets.length ≤ i)]
  | succ rem ih =>
    intro k buckets hk
    have hkl : k < buckets.length := by omega
    simp only [resetLoop, bind, Except.bind, idx_ok _ _ hkl]
    by_cases hc : k ≠ cur
    · simp only [hc, if_true, ne_eq, not_false_eq_true]
      rw [setIdx_ok _ _ _ hkl]
      simp only []
      obtain ⟨bs, h1, h2, h3⟩ := ih (k + 1) (buckets.set k { buckets[k] with numItems := 0 })
        (by simp; omega)
      refine ⟨bs, h1, by simpa using h2, ?_⟩
      intro i
      rw [h3 i]
      by_cases hik : k = i
      · subst hik
        have a1 : ¬ (k + 1 ≤ k ∧ k ≠ cur) := by omega
        have a2 : (k ≤ k ∧ k ≠ cur) := ⟨Nat.le_refl _, hc⟩
        simp [List.getElem?_set_self hkl, a1, a2, hkl]
      · rw [List.getElem?_set_ne hik]
        have : (k + 1 ≤ i ∧ i ≠ cur) ↔ (k ≤ i ∧ i ≠ cur) := by omega
        simp only [this]
    · have hc' : cur = k := by omega
      subst hc'
      simp only [ne_eq, not_true_eq_false, if_false]
      obtain ⟨bs, h1, h2, h3⟩ := ih (cur + 1) buckets (by omega)
      refine ⟨bs, h1, h2, ?_⟩
      intro i
      rw [h3 i]
      have : (cur + 1 ≤ i ∧ i ≠ cur) ↔ (cur ≤ i ∧ i ≠ cur) := by omega
      simp only [this]

theorem reset_spec (env : Env) (s : Sched) (hinv : Inv env s) :
    ∃ s', reset s = .ok s' ∧ Inv env s' ∧ s'.cur = s.cur ∧ abs s' = Spec.TdmaSched.reset (abs s) := by
  obtain ⟨⟨hl, hc, hbw⟩, hal⟩ := hinv
  obtain ⟨bs, h1, h2, h3⟩ := resetLoop_spec s.cur 25 0 s.bucket (by omega)
  have hmem : ∀ b' ∈ bs, ∃ b ∈ s.bucket, b' = b ∨ b' = { b with numItems := 0 } := by
    intro b' hb'
    obtain ⟨i, hi⟩ := List.mem_iff_getElem?.mp hb'
    rw [h3 i] at hi
    cases hg : s.bucket[i]? with
    | none => simp [hg] at hi
    | some b =>
      simp only [hg, Option.map_some, Option.some.injEq] at hi
      refine ⟨b, List.mem_of_getElem? hg, ?_⟩
      split at hi
      · exact Or.inr hi.symm
      · exact Or.inl hi.symm
  refine ⟨{ s with bucket := bs }, ?_, ⟨⟨by show bs.length = 25; omega, hc, ?_⟩, ?_⟩, rfl, ?_⟩
  · simp only [reset, nf, bind, Except.bind, h1]; rfl
  · intro b' hb'
    obtain ⟨b, hb, h | h⟩ := hmem b' hb'
    · rw [h]; exact hbw b hb
    · rw [h]; exact ⟨(hbw b hb).1, by simp⟩
  · intro b' hb' it hit
    obtain ⟨b, hb, h | h⟩ := hmem b' hb'
    · rw [h] at hit; exact hal b hb it hit
    · rw [h] at hit; simp [live] at hit
  · funext d
    simp only [Spec.TdmaSched.reset, abs]
    by_cases hd : d < 25
    · simp only [hd, if_true]
      rw [h3]
      obtain ⟨b, hb, _, _⟩ := bucket_get s ⟨hl, hc, hbw⟩ ((s.cur + d) % 25) (Nat.mod_lt _ (by decide))
      simp only [hb, Option.map_some]
      by_cases h0 : d = 0
      · have hn : ¬ (0 ≤ (s.cur + d) % 25 ∧ (s.cur + d) % 25 ≠ s.cur) := by omega
        rw [if_neg hn, if_pos h0]
        subst h0
        simp only [(by decide : (0:Nat) < 25), if_true, hb]
      · have hp : (0 ≤ (s.cur + d) % 25 ∧ (s.cur + d) % 25 ≠ s.cur) := by omega
        rw [if_pos hp, if_neg h0]
        simp [absBucket, live]
    · simp only [hd, if_false]
      have : d ≠ 0 := by omega
      simp only [this, if_false]

/-! ### operations and histories -/

/-- the operation as the property sees it -/
def absOp : Op → Spec.TdmaSched.Op Cb
  | .schedule off cb p1 p2 p3 prio => .schedule off ⟨cb, p1, p2, p3, prio⟩
  | .scheduleSet off set p3 => .scheduleSet off (framesOf p3 set)
  | .advance => .advance
  | .execute => .execute
  | .reset => .reset

/-- admissible operations: arguments within the C parameter types (so that the conversions at the
call are the identity), the callback a function that reports success in `env`, an item set that is
terminated by `SCHED_END_SET()` and whose frame offsets stay below 256 (no `uint8_t` wrap of
`++frame_offset`) -/
def OpOk (env : Env) : Op → Prop
  | .schedule off cb p1 p2 p3 prio =>
    off < 256 ∧ p1 < 256 ∧ p2 < 256 ∧ p3 < 65536 ∧ -32768 ≤ prio ∧ prio ≤ 32767 ∧
      itemOk env ⟨cb, p1, p2, p3, prio, 0⟩
  | .scheduleSet off set p3 =>
    hasEnd set = true ∧ off + markers set < 256 ∧ p3 < 65536 ∧ ∀ it ∈ setItems p3 set, itemOk env it
  | _ => True

instance (env : Env) (op : Op) : Decidable (OpOk env op) := by
  cases op <;> unfold OpOk <;> infer_instance

/-- the observable result of a model step agrees with the specification's -/
def OutMatch (o : Out) (so : Spec.TdmaSched.Out Cb) : Prop :=
  o.rc = so.rc ∧ Spec.TdmaSched.ValidRun so.toRun (o.ran.map absItem)

/-- pointwise `OutMatch` of two output lists of the same length -/
def OutsMatch : List Out → List (Spec.TdmaSched.Out Cb) → Prop
  | [], [] => True
  | o :: os, so :: sos => OutMatch o so ∧ OutsMatch os sos
  | _, _ => False

theorem validRun_nil : Spec.TdmaSched.ValidRun ([] : List (AItem Cb)) [] :=
  ⟨List.Perm.nil, List.Pairwise.nil⟩

end OsmoVerif.TdmaSched
