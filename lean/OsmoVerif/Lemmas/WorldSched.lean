/-
C03, schedules: ghost bookkeeping over the interleaving semantics (Model/WorldSched.lean) and the
proof that every reachable state of every schedule satisfies the exactly-once invariant.

`sgStep` observes one action of a schedule for transceiver `j0`:
  * a socket action is observed exactly as in the sequential case (`ghostStep`);
  * the locked section of `clck_tick(j0)` moves the `emit` and `drop` partitions of the tagged queue
    into the pending lists `pendE` / `pendD` (parallel to the clock thread's local `emit` / `drop`)
    and records the snapshot `snap` of the tagged queue;
  * `forward_msg` being called for the head of `emit` logs `emitted`; one stale warning logs `stale`.
If the clock thread dies, what was pending stays pending (the ghost remembers it).
Core tactics only.
-/
import OsmoVerif.Lemmas.WorldQueue
import OsmoVerif.Model.WorldSched

namespace OsmoVerif.World.Sched
open OsmoVerif OsmoVerif.World OsmoVerif.Spec.TxQueue

/-- ghost state of transceiver `j0` under a schedule -/
structure SGhost where
  g : Ghost := {}
  /-- tagged messages in the clock thread's local `emit` list (not yet handed to `forward_msg`) -/
  pendE : List (Nat × Trxd.TxMsg) := []
  /-- tagged messages in the clock thread's local `drop` list (not yet reported) -/
  pendD : List (Nat × Trxd.TxMsg) := []
  /-- the tagged queue of `j0` when the locked section of its current (or last) `clck_tick` ran -/
  snap : List (Nat × Trxd.TxMsg) := []
  /-- the outcome events the clock thread has produced for `j0` since that locked section -/
  tickLog : List Ev := []

/-- the `clck_tick` the clock thread is in: (frame number, transceiver, local emit, local drop) -/
def Pc.inTick : Pc → Option (Nat × Nat × List Trxd.TxMsg × List Trxd.TxMsg)
  | .loop fn j emit drop _ => some (fn, j, emit, drop)
  | .fwd fn j _ _ _ _ emit drop _ => some (fn, j, emit, drop)
  | .hdl fn j _ _ _ _ _ _ emit drop _ => some (fn, j, emit, drop)
  | _ => none

/-- one action of a schedule seen from transceiver `j0` (`pos` = position of the action) -/
def sgStep (j0 pos : Nat) (s : State) (a : Act) (sg : SGhost) : SGhost :=
  match a.op? with
  | some op => { sg with g := ghostStep j0 pos s.w op (step s.w op).world sg.g }
  | none =>
    match s.pc with
    | .lock fn j _ =>
      if j = j0 then
        let tq := sg.g.ids.zip (queueOf s.w j0)
        { g := ⟨tickIds fn tq, sg.g.log⟩,
          pendE := tq.filter (fun p => classify fn p.2 == .emit),
          pendD := tq.filter (fun p => classify fn p.2 == .stale),
          snap := tq, tickLog := [] }
      else sg
    | .loop fn j (_ :: _) _ _ =>
      if j = j0 then
        match sg.pendE with
        | p :: rest =>
          { sg with g := ⟨sg.g.ids, sg.g.log ++ [Event.emitted p.1 fn]⟩, pendE := rest,
                    tickLog := sg.tickLog ++ [Event.emitted p.1 fn] }
        | [] => sg
      else sg
    | .loop fn j [] (_ :: _) _ =>
      if j = j0 then
        match sg.pendD with
        | p :: rest =>
          { sg with g := ⟨sg.g.ids, sg.g.log ++ [Event.stale p.1 fn]⟩, pendD := rest,
                    tickLog := sg.tickLog ++ [Event.stale p.1 fn] }
        | [] => sg
      else sg
    | _ => sg

/-- replay a schedule from position `pos` -/
def sreplay (j0 : Nat) : Nat → State → List Act → SGhost → SGhost
  | _, _, [], sg => sg
  | pos, s, a :: as, sg => sreplay j0 (pos + 1) (act s a) as (sgStep j0 pos s a sg)

/-- the ghost state of `j0` after the schedule `acts` from `s0` -/
def sghost (s0 : State) (acts : List Act) (j0 : Nat) : SGhost := sreplay j0 0 s0 acts {}

/-- events still to be produced for the pending lists at tick `fn` -/
def pendEvents (fn : Nat) (sg : SGhost) : List Ev :=
  sg.pendE.map (fun p => Event.emitted p.1 fn) ++ sg.pendD.map (fun p => Event.stale p.1 fn)

/-- the clock thread is inside `clck_tick(j0)` at frame `fn` with local lists `emit`, `drop` -/
structure TickOk (fn : Nat) (emit drop : List Trxd.TxMsg) (sg : SGhost) : Prop where
  /-- lock-step of the pending lists with the clock thread's locals -/
  lockE : sg.pendE.map Prod.snd = emit
  lockD : sg.pendD.map Prod.snd = drop
  clsE : ∀ p ∈ sg.pendE, classify fn p.2 = .emit
  clsD : ∀ p ∈ sg.pendD, classify fn p.2 = .stale
  /-- produced so far ++ still pending = what the snapshot determines -/
  total : sg.tickLog ++ pendEvents fn sg = tickEvents fn sg.snap

/-- what the ghost state must satisfy at each control point of the clock thread -/
def PcOk (j0 : Nat) (sg : SGhost) : Pc → Prop
  | .dead _ => True
  | .loop fn j emit drop _ => if j = j0 then TickOk fn emit drop sg else sg.pendE = [] ∧ sg.pendD = []
  | .fwd fn j _ _ _ _ emit drop _ =>
    if j = j0 then TickOk fn emit drop sg else sg.pendE = [] ∧ sg.pendD = []
  | .hdl fn j _ _ _ _ _ _ emit drop _ =>
    if j = j0 then TickOk fn emit drop sg else sg.pendE = [] ∧ sg.pendD = []
  | _ => sg.pendE = [] ∧ sg.pendD = []

/-- the invariant of the interleaving semantics for transceiver `j0` -/
structure SInv (j0 pos : Nat) (s : State) (sg : SGhost) : Prop where
  inv : Inv pos (queueOf s.w j0) (sg.pendE ++ sg.pendD) sg.g
  sub : ∀ e ∈ sg.tickLog, e ∈ sg.g.log
  pcOk : PcOk j0 sg s.pc

/-! ### preservation -/

theorem map_snd_eq_cons {l : List (Nat × Trxd.TxMsg)} {m : Trxd.TxMsg} {ms : List Trxd.TxMsg}
    (h : l.map Prod.snd = m :: ms) : ∃ p rest, l = p :: rest ∧ p.2 = m ∧ rest.map Prod.snd = ms := by
  cases l with
  | nil => cases h
  | cons p rest =>
    simp only [List.map_cons, List.cons.injEq] at h
    exact ⟨p, rest, rfl, h.1, h.2⟩

theorem TickOk.congr {fn : Nat} {emit drop : List Trxd.TxMsg} {sg sg' : SGhost} (h : TickOk fn emit drop sg)
    (hE : sg'.pendE = sg.pendE) (hD : sg'.pendD = sg.pendD) (hs : sg'.snap = sg.snap)
    (ht : sg'.tickLog = sg.tickLog) : TickOk fn emit drop sg' := by
  refine ⟨by rw [hE]; exact h.lockE, by rw [hD]; exact h.lockD, by rw [hE]; exact h.clsE,
    by rw [hD]; exact h.clsD, ?_⟩
  have := h.total
  unfold pendEvents at this ⊢
  rw [hE, hD, hs, ht]; exact this

theorem PcOk.congr {j0 : Nat} {pc : Pc} {sg sg' : SGhost} (h : PcOk j0 sg pc)
    (hE : sg'.pendE = sg.pendE) (hD : sg'.pendD = sg.pendD) (hs : sg'.snap = sg.snap)
    (ht : sg'.tickLog = sg.tickLog) : PcOk j0 sg' pc := by
  cases pc <;> simp only [PcOk] at h ⊢
  case loop fn j emit drop js =>
    split
    · next e => rw [if_pos e] at h; exact h.congr hE hD hs ht
    · next e => rw [if_neg e] at h; rw [hE, hD]; exact h
  case fwd fn j _ _ _ _ emit drop js =>
    split
    · next e => rw [if_pos e] at h; exact h.congr hE hD hs ht
    · next e => rw [if_neg e] at h; rw [hE, hD]; exact h
  case hdl fn j _ _ _ _ _ _ emit drop js =>
    split
    · next e => rw [if_pos e] at h; exact h.congr hE hD hs ht
    · next e => rw [if_neg e] at h; rw [hE, hD]; exact h
  all_goals (rw [hE, hD]; exact h)

/-- a socket action preserves the invariant -/
theorem sinv_sock {j0 pos : Nat} {s : State} {sg : SGhost} (op : Op) (h : SInv j0 pos s sg) :
    SInv j0 (pos + 1) (sockStep s op)
      { sg with g := ghostStep j0 pos s.w op (step s.w op).world sg.g } :=
  ⟨ghostStep_inv op h.inv, fun e he => ghostStep_log_mono (h.sub e he), h.pcOk.congr rfl rfl rfl rfl⟩


theorem sgStep_clk (j0 pos : Nat) (s : State) (sg : SGhost) :
    sgStep j0 pos s Act.clk sg = (match s.pc with
    | .lock fn j _ =>
      if j = j0 then
        let tq := sg.g.ids.zip (queueOf s.w j0)
        { g := ⟨tickIds fn tq, sg.g.log⟩,
          pendE := tq.filter (fun p => classify fn p.2 == .emit),
          pendD := tq.filter (fun p => classify fn p.2 == .stale),
          snap := tq, tickLog := [] }
      else sg
    | .loop fn j (_ :: _) _ _ =>
      if j = j0 then
        match sg.pendE with
        | p :: rest =>
          { sg with g := ⟨sg.g.ids, sg.g.log ++ [Event.emitted p.1 fn]⟩, pendE := rest,
                    tickLog := sg.tickLog ++ [Event.emitted p.1 fn] }
        | [] => sg
      else sg
    | .loop fn j [] (_ :: _) _ =>
      if j = j0 then
        match sg.pendD with
        | p :: rest =>
          { sg with g := ⟨sg.g.ids, sg.g.log ++ [Event.stale p.1 fn]⟩, pendD := rest,
                    tickLog := sg.tickLog ++ [Event.stale p.1 fn] }
        | [] => sg
      else sg
    | _ => sg) := rfl

theorem SInv.mono {j0 pos : Nat} {s : State} {sg : SGhost} (h : SInv j0 pos s sg) :
    SInv j0 (pos + 1) s sg := ⟨h.inv.mono (Nat.le_succ _), h.sub, h.pcOk⟩

/-- an action of the clock thread preserves the invariant -/
theorem sinv_clk {j0 pos : Nat} {s : State} {sg : SGhost} (h : SInv j0 pos s sg) :
    SInv j0 (pos + 1) (clockStep s) (sgStep j0 pos s Act.clk sg) := by
  obtain ⟨w, pc, out, stale, sout⟩ := s
  obtain ⟨hinv, hsub, hpc⟩ := h
  rw [sgStep_clk]
  cases pc with
  | idle =>
    simp only [PcOk] at hpc
    simp only [clockStep]
    split
    · exact ⟨hinv.mono (Nat.le_succ _), hsub, by simpa only [PcOk] using hpc⟩
    · split
      · exact ⟨hinv.mono (Nat.le_succ _), hsub, trivial⟩
      · exact ⟨hinv.mono (Nat.le_succ _), hsub, by simpa only [PcOk] using hpc⟩
  | dead e => exact ⟨hinv.mono (Nat.le_succ _), hsub, trivial⟩
  | next fn js =>
    simp only [PcOk] at hpc
    cases js with
    | nil =>
      simp only [clockStep]
      split
      · exact ⟨hinv.mono (Nat.le_succ _), hsub, trivial⟩
      · exact ⟨hinv.mono (Nat.le_succ _), hsub, by simpa only [PcOk] using hpc⟩
    | cons j js =>
      simp only [clockStep]
      split
      · exact ⟨hinv.mono (Nat.le_succ _), hsub, trivial⟩
      · split
        · exact ⟨hinv.mono (Nat.le_succ _), hsub, by simpa only [PcOk] using hpc⟩
        · exact ⟨hinv.mono (Nat.le_succ _), hsub, by simpa only [PcOk] using hpc⟩
  | lock fn j js =>
    simp only [PcOk] at hpc
    obtain ⟨hE, hD⟩ := hpc
    rw [hE, hD, List.append_nil] at hinv
    simp only [clockStep]
    by_cases hj : j = j0
    · subst hj
      simp only [if_true]
      have hL := (hinv.lockSection fn).mono (Nat.le_succ pos)
      cases ht : w.trxs[j]? with
      | none =>
        have hq : queueOf w j = [] := by simp [queueOf, ht]
        refine ⟨?_, (by intro e he; cases he), trivial⟩
        simp only [hq] at hL ⊢
        exact hL
      | some trx =>
        have hq : queueOf w j = trx.txQueue := by simp [queueOf, ht]
        refine ⟨?_, (by intro e he; cases he), ?_⟩
        · simp only []
          rw [queueOf_setTrx, if_pos rfl, ht]
          simp only []
          rw [← hq]
          exact hL
        · simp only [PcOk, if_true]
          refine ⟨?_, ?_, ?_, ?_, ?_⟩
          · rw [← hq]; exact zip_filter_snd (fun m => classify fn m == .emit) _ _ hinv.lock
          · rw [← hq]; exact zip_filter_snd (fun m => classify fn m == .stale) _ _ hinv.lock
          · intro p hp; simpa using (List.mem_filter.mp hp).2
          · intro p hp; simpa using (List.mem_filter.mp hp).2
          · simp only [List.nil_append, pendEvents, tickEvents]
    · simp only [if_neg hj]
      have hpc' : sg.pendE = [] ∧ sg.pendD = [] := ⟨hE, hD⟩
      have hinv' : Inv pos (queueOf w j0) (sg.pendE ++ sg.pendD) sg.g := by
        rw [hE, hD, List.append_nil]; exact hinv
      split
      · exact ⟨hinv'.mono (Nat.le_succ _), hsub, trivial⟩
      · refine ⟨?_, hsub, by simp only [PcOk, if_neg hj]; exact hpc'⟩
        simp only []
        rw [queueOf_setTrx, if_neg hj]
        exact hinv'.mono (Nat.le_succ _)
  | loop fn j emit drop js =>
    cases emit with
    | cons m emit =>
      simp only [PcOk] at hpc
      by_cases hj : j = j0
      · subst hj
        rw [if_pos rfl] at hpc
        simp only [if_true]
        obtain ⟨p, rest, hp, hpm, hrest⟩ := map_snd_eq_cons hpc.lockE
        rw [hp]
        simp only []
        have hcls : classify fn p.2 = .emit := hpc.clsE p (by rw [hp]; simp)
        have hinv2 : Inv (pos + 1) (queueOf w j) (rest ++ sg.pendD)
            ⟨sg.g.ids, sg.g.log ++ [Event.emitted p.1 fn]⟩ := by
          rw [hp, List.cons_append] at hinv
          exact (hinv.emitOne hcls).mono (Nat.le_succ _)
        have hsub2 : ∀ e ∈ sg.tickLog ++ [Event.emitted p.1 fn], e ∈ sg.g.log ++ [Event.emitted p.1 fn] := by
          intro e he
          rcases List.mem_append.mp he with he | he
          · exact List.mem_append_left _ (hsub e he)
          · exact List.mem_append_right _ he
        have htick : TickOk fn emit drop
            { sg with g := ⟨sg.g.ids, sg.g.log ++ [Event.emitted p.1 fn]⟩, pendE := rest,
                      tickLog := sg.tickLog ++ [Event.emitted p.1 fn] } := by
          refine ⟨hrest, hpc.lockD, fun p' hp' => hpc.clsE p' (by rw [hp]; exact List.mem_cons_of_mem _ hp'),
            hpc.clsD, ?_⟩
          have := hpc.total
          simp only [pendEvents, hp, List.map_cons] at this ⊢
          rw [← this]; simp
        simp only [clockStep]
        repeat' split
        all_goals first
          | exact ⟨hinv2, hsub2, trivial⟩
          | exact ⟨hinv2, hsub2, by simp only [PcOk, if_true]; exact htick⟩
      · rw [if_neg hj] at hpc
        simp only [if_neg hj]
        simp only [clockStep]
        repeat' split
        all_goals first
          | exact ⟨hinv.mono (Nat.le_succ _), hsub, trivial⟩
          | exact ⟨hinv.mono (Nat.le_succ _), hsub, by simp only [PcOk, if_neg hj]; exact hpc⟩
    | nil =>
      cases drop with
      | cons d drop =>
        simp only [PcOk] at hpc
        by_cases hj : j = j0
        · subst hj
          rw [if_pos rfl] at hpc
          simp only [if_true]
          have hE : sg.pendE = [] := List.map_eq_nil_iff.mp hpc.lockE
          obtain ⟨p, rest, hp, hpm, hrest⟩ := map_snd_eq_cons hpc.lockD
          rw [hp]
          simp only []
          have hcls : classify fn p.2 = .stale := hpc.clsD p (by rw [hp]; simp)
          refine ⟨?_, ?_, ?_⟩
          · rw [hp, hE, List.nil_append] at hinv
            simp only [clockStep]
            rw [hE, List.nil_append]
            exact (hinv.staleOne hcls).mono (Nat.le_succ _)
          · intro e he
            rcases List.mem_append.mp he with he | he
            · exact List.mem_append_left _ (hsub e he)
            · exact List.mem_append_right _ he
          · simp only [clockStep, PcOk, if_true]
            refine ⟨hpc.lockE, hrest, hpc.clsE,
              fun p' hp' => hpc.clsD p' (by rw [hp]; exact List.mem_cons_of_mem _ hp'), ?_⟩
            have := hpc.total
            simp only [pendEvents, hp, hE, List.map_cons, List.map_nil, List.nil_append] at this ⊢
            rw [← this]; simp
        · rw [if_neg hj] at hpc
          simp only [if_neg hj, clockStep]
          exact ⟨hinv.mono (Nat.le_succ _), hsub, by simp only [PcOk, if_neg hj]; exact hpc⟩
      | nil =>
        simp only [PcOk] at hpc
        simp only [clockStep]
        refine ⟨hinv.mono (Nat.le_succ _), hsub, ?_⟩
        simp only [PcOk]
        by_cases hj : j = j0
        · rw [if_pos hj] at hpc
          exact ⟨List.map_eq_nil_iff.mp hpc.lockE, List.map_eq_nil_iff.mp hpc.lockD⟩
        · rw [if_neg hj] at hpc; exact hpc
  | fwd fn j msg mfn txFreq ks emit drop js =>
    cases ks with
    | nil =>
      simp only [clockStep]
      exact ⟨hinv.mono (Nat.le_succ _), hsub, by simpa only [PcOk] using hpc⟩
    | cons k ks =>
      simp only [clockStep]
      split
      · exact ⟨hinv.mono (Nat.le_succ _), hsub, trivial⟩
      · exact ⟨hinv.mono (Nat.le_succ _), hsub, by simpa only [PcOk] using hpc⟩
      · exact ⟨hinv.mono (Nat.le_succ _), hsub, by simpa only [PcOk] using hpc⟩
  | hdl fn j msg mfn txFreq k rx ks emit drop js =>
    simp only [clockStep]
    split
    · exact ⟨hinv.mono (Nat.le_succ _), hsub, trivial⟩
    · next w' ds hf =>
      refine ⟨?_, hsub, by simpa only [PcOk] using hpc⟩
      simp only []
      rw [(handleDataMsg_sameQ hf).queueOf]
      exact hinv.mono (Nat.le_succ _)

/-! ### schedules -/

/-- every action of a schedule preserves the invariant -/
theorem sinv_act {j0 pos : Nat} {s : State} {sg : SGhost} (a : Act) (h : SInv j0 pos s sg) :
    SInv j0 (pos + 1) (act s a) (sgStep j0 pos s a sg) := by
  cases a with
  | ctrl i sp d => exact sinv_sock (.ctrl i sp d) h
  | data i d => exact sinv_sock (.data i d) h
  | clk => exact sinv_clk h

theorem sreplay_inv (j0 : Nat) : ∀ (acts : List Act) (pos : Nat) (s : State) (sg : SGhost),
    SInv j0 pos s sg → SInv j0 (pos + acts.length) (exec s acts) (sreplay j0 pos s acts sg) := by
  intro acts
  induction acts with
  | nil => intro pos s sg h; simpa [exec, sreplay] using h
  | cons a acts ih =>
    intro pos s sg h
    have := ih (pos + 1) (act s a) _ (sinv_act a h)
    simp only [exec, sreplay, List.length_cons]
    rw [show pos + (acts.length + 1) = pos + 1 + acts.length by omega]
    exact this

/-- initial states: clock thread between two ticks, nothing queued at `j0` -/
def Initial (j0 : Nat) (s : State) : Prop := s.pc = .idle ∧ queueOf s.w j0 = []

theorem sinv_init {j0 : Nat} {s : State} (h : Initial j0 s) : SInv j0 0 s {} := by
  refine ⟨?_, (by intro e he; cases he), ?_⟩
  · rw [h.2]; exact Inv.init 0
  · rw [h.1]; exact ⟨rfl, rfl⟩

/-- the invariant holds after every schedule -/
theorem sghost_inv {j0 : Nat} {s0 : State} (h0 : Initial j0 s0) (acts : List Act) :
    SInv j0 acts.length (exec s0 acts) (sghost s0 acts j0) := by
  have := sreplay_inv j0 acts 0 s0 {} (sinv_init h0)
  simp only [Nat.zero_add] at this
  exact this

theorem exec_append (s : State) (as bs : List Act) : exec s (as ++ bs) = exec (exec s as) bs := by
  induction as generalizing s with
  | nil => rfl
  | cons a as ih => simp only [List.cons_append, exec]; exact ih _

theorem sreplay_append (j0 : Nat) : ∀ (as bs : List Act) (pos : Nat) (s : State) (sg : SGhost),
    sreplay j0 pos s (as ++ bs) sg = sreplay j0 (pos + as.length) (exec s as) bs (sreplay j0 pos s as sg) := by
  intro as
  induction as with
  | nil => intro bs pos s sg; simp [exec, sreplay]
  | cons a as ih =>
    intro bs pos s sg
    simp only [List.cons_append, sreplay, exec, List.length_cons]
    rw [ih]; congr 1; omega

/-- the ghost after one more action -/
theorem sghost_snoc (s0 : State) (acts : List Act) (a : Act) (j0 : Nat) :
    sghost s0 (acts ++ [a]) j0 = sgStep j0 acts.length (exec s0 acts) a (sghost s0 acts j0) := by
  unfold sghost
  rw [sreplay_append]
  simp [sreplay]

theorem exec_snoc (s0 : State) (acts : List Act) (a : Act) :
    exec s0 (acts ++ [a]) = act (exec s0 acts) a := by
  rw [exec_append]; rfl

/-- the clock thread touches the queue of `j0` only in the locked section of `clck_tick(j0)` -/
theorem clockStep_queue (s : State) (j0 : Nat) :
    queueOf (clockStep s).w j0 =
      match s.pc with
      | .lock fn j _ => if j = j0 then waitPart fn (queueOf s.w j0) else queueOf s.w j0
      | _ => queueOf s.w j0 := by
  obtain ⟨w, pc, out, stale, sout⟩ := s
  cases pc with
  | idle => simp only [clockStep]; repeat' split
            all_goals rfl
  | dead e => rfl
  | next fn js =>
    cases js with
    | nil => simp only [clockStep]; repeat' split
             all_goals rfl
    | cons j js => simp only [clockStep]; repeat' split
                   all_goals rfl
  | lock fn j js =>
    simp only [clockStep]
    cases ht : w.trxs[j]? with
    | none =>
      simp only []
      split
      · next e => subst e; simp [queueOf, ht, waitPart]
      · rfl
    | some trx =>
      simp only []
      rw [queueOf_setTrx]
      split
      · next e => subst e; simp [queueOf, ht, waitPart]
      · rfl
  | loop fn j emit drop js =>
    cases emit with
    | cons m emit => simp only [clockStep]; repeat' split
                     all_goals rfl
    | nil => cases drop <;> rfl
  | fwd fn j msg mfn txFreq ks emit drop js =>
    cases ks with
    | nil => rfl
    | cons k ks =>
      simp only [clockStep]
      split <;> rfl
  | hdl fn j msg mfn txFreq k rx ks emit drop js =>
    simp only [clockStep]
    split
    · rfl
    · next hf => exact (handleDataMsg_sameQ hf).queueOf j0

/-! ### pending lists -/

/-- socket actions never touch the clock thread's control state or the pending lists -/
theorem sock_keeps_pending (j0 pos : Nat) (s : State) (op : Op) (sg : SGhost) (a : Act) (ha : a.op? = some op) :
    (act s a).pc = s.pc ∧ (sgStep j0 pos s a sg).pendE = sg.pendE ∧ (sgStep j0 pos s a sg).pendD = sg.pendD ∧
    (sgStep j0 pos s a sg).snap = sg.snap ∧ (sgStep j0 pos s a sg).tickLog = sg.tickLog := by
  simp only [act, sgStep, ha, sockStep, and_self]

/-- the pending lists are filled only by the locked section of `clck_tick(j0)`, from the queue as it
is at that moment -/
theorem pending_only_from_lock {j0 pos : Nat} {s : State} {a : Act} {sg : SGhost} {p : Nat × Trxd.TxMsg}
    (h : p ∈ (sgStep j0 pos s a sg).pendE ++ (sgStep j0 pos s a sg).pendD) :
    p ∈ sg.pendE ++ sg.pendD ∨
    (a.op? = none ∧ ∃ fn js, s.pc = .lock fn j0 js ∧ p ∈ sg.g.ids.zip (queueOf s.w j0)) := by
  cases hop : a.op? with
  | some op =>
    obtain ⟨-, h1, h2, -⟩ := sock_keeps_pending j0 pos s op sg a hop
    rw [h1, h2] at h; exact .inl h
  | none =>
    have ha : a = Act.clk := by cases a <;> simp [Act.op?] at hop; rfl
    subst ha
    rw [sgStep_clk] at h
    split at h
    · next fn j js hpc =>
      split at h
      · next e =>
        subst e
        right
        refine ⟨rfl, fn, js, hpc, ?_⟩
        simp only [List.mem_append, List.mem_filter] at h
        rcases h with h | h <;> exact h.1
      · exact .inl h
    · split at h
      · split at h
        · next p' rest hp =>
          left
          rw [hp]
          simp only [List.mem_append, List.mem_cons] at h ⊢
          rcases h with h | h
          · exact .inl (.inr h)
          · exact .inr h
        · exact .inl h
      · exact .inl h
    · split at h
      · split at h
        · next p' rest hp =>
          left
          rw [hp]
          simp only [List.mem_append, List.mem_cons] at h ⊢
          rcases h with h | h
          · exact .inl h
          · exact .inr (.inr h)
        · exact .inl h
      · exact .inl h
    · exact .inl h

/-- a tick outcome (`emitted` / `stale`) is only ever given to a pending message, by the clock thread -/
theorem tick_outcome_needs_pending {j0 pos : Nat} {s : State} {a : Act} {sg : SGhost} {e : Ev}
    (h : e ∈ (sgStep j0 pos s a sg).g.log) (hn : e ∉ sg.g.log) (id fn : Nat)
    (he : e = Event.emitted id fn ∨ e = Event.stale id fn) :
    a.op? = none ∧ ∃ p ∈ sg.pendE ++ sg.pendD, p.1 = id := by
  cases hop : a.op? with
  | some op =>
    exfalso
    simp only [sgStep, hop] at h
    rcases ghostStep_mem h with h | ⟨d, m, -, -, hh⟩ | ⟨fn', p, hop', -⟩ | ⟨i, sp, d, id', -, -, hh, -⟩
    · exact hn h
    · rcases he with he | he <;> rw [he] at hh <;> cases hh
    · cases a <;> simp [Act.op?] at hop <;> subst hop <;> cases hop'
    · rcases he with he | he <;> rw [he] at hh <;> cases hh
  | none =>
    refine ⟨rfl, ?_⟩
    have ha : a = Act.clk := by cases a <;> simp [Act.op?] at hop; rfl
    subst ha
    rw [sgStep_clk] at h
    split at h
    · split at h
      · exact absurd h hn
      · exact absurd h hn
    · split at h
      · split at h
        · next p' rest hp =>
          simp only [List.mem_append, List.mem_singleton] at h
          rcases h with h | h
          · exact absurd h hn
          · refine ⟨p', by rw [hp]; simp, ?_⟩
            rcases he with he | he <;> rw [he] at h <;> cases h
            rfl
        · exact absurd h hn
      · exact absurd h hn
    · split at h
      · split at h
        · next p' rest hp =>
          simp only [List.mem_append, List.mem_singleton] at h
          rcases h with h | h
          · exact absurd h hn
          · refine ⟨p', by rw [hp]; simp, ?_⟩
            rcases he with he | he <;> rw [he] at h <;> cases h
            rfl
        · exact absurd h hn
      · exact absurd h hn
    · exact absurd h hn

/-- a message in the clock thread's local `emit` list is handed to `forward_msg` by the next action
of the clock thread, whatever has happened to the transceiver in between -/
theorem pending_emit_is_emitted {j0 pos : Nat} {s : State} {sg : SGhost} (h : SInv j0 pos s sg)
    {fn : Nat} {m : Trxd.TxMsg} {emit drop : List Trxd.TxMsg} {js : List Nat}
    (hpc : s.pc = .loop fn j0 (m :: emit) drop js) :
    ∃ p rest, sg.pendE = p :: rest ∧ p.2 = m ∧
      Event.emitted p.1 fn ∈ (sgStep j0 pos s Act.clk sg).g.log ∧ p.2.fn = some (fn : Int) := by
  have hp := h.pcOk
  rw [hpc] at hp
  simp only [PcOk, if_true] at hp
  obtain ⟨p, rest, hpe, hpm, -⟩ := map_snd_eq_cons hp.lockE
  refine ⟨p, rest, hpe, hpm, ?_, classify_emit (hp.clsE p (by rw [hpe]; simp))⟩
  rw [sgStep_clk, hpc]
  simp only [if_true, hpe]
  simp

/-- the locked section records the tagged queue as it is at that moment -/
theorem snap_at_lock {j0 pos : Nat} {s : State} {sg : SGhost} {fn : Nat} {js : List Nat}
    (hpc : s.pc = .lock fn j0 js) :
    (sgStep j0 pos s Act.clk sg).snap = sg.g.ids.zip (queueOf s.w j0) ∧
    (sgStep j0 pos s Act.clk sg).tickLog = [] := by
  rw [sgStep_clk, hpc]
  simp only [if_true, and_self]

/-! ### refinement: an uninterrupted tick of the clock thread is `World.tick` -/

theorem clockRun_add (s : State) (a b : Nat) : clockRun s (a + b) = clockRun (clockRun s a) b := by
  induction a generalizing s with
  | zero => simp [clockRun]
  | succ a ih => rw [Nat.succ_add]; simp only [clockRun]; exact ih _

theorem forwardMsg_go_cons (j mfn : Nat) (txFreq : Option Int) (msg : Trxd.TxMsg) (w : World)
    (acc : List Dgram) (k : Nat) (ks : List Nat) :
    forwardMsg.go j mfn txFreq msg w acc (k :: ks) =
      match fwdRead w j msg mfn txFreq k with
      | .error e => .error e
      | .ok none => forwardMsg.go j mfn txFreq msg w acc ks
      | .ok (some rx) =>
        match handleDataMsg w k j msg rx with
        | .error e => .error e
        | .ok (w', ds) => forwardMsg.go j mfn txFreq msg w' (acc ++ ds) ks := by
  simp only [forwardMsg.go, fwdRead]
  repeat' split
  all_goals first | rfl | (simp_all; done)

/-- the recipient loop of `forward_msg`, run by the clock thread without interference -/
theorem fwd_run (fn j mfn : Nat) (txFreq : Option Int) (msg : Trxd.TxMsg) (emit drop : List Trxd.TxMsg)
    (js : List Nat) : ∀ (ks : List Nat) (w : World) (acc : List Dgram) (w' : World) (r out : List Dgram)
      (st : Nat) (so : List Dgram),
    forwardMsg.go j mfn txFreq msg w acc ks = .ok (w', r) →
    ∃ D n, r = acc ++ D ∧
      clockRun ⟨w, .fwd fn j msg mfn txFreq ks emit drop js, out, st, so⟩ n =
        ⟨w', .loop fn j emit drop js, out ++ D, st, so⟩ := by
  intro ks
  induction ks with
  | nil =>
    intro w acc w' r out st so h
    simp only [forwardMsg.go, Except.ok.injEq, Prod.mk.injEq] at h
    obtain ⟨rfl, rfl⟩ := h
    exact ⟨[], 1, by simp, by simp [clockRun, clockStep]⟩
  | cons k ks ih =>
    intro w acc w' r out st so h
    rw [forwardMsg_go_cons] at h
    cases hf : fwdRead w j msg mfn txFreq k with
    | error e => rw [hf] at h; cases h
    | ok v =>
      rw [hf] at h
      cases v with
      | none =>
        simp only [] at h
        obtain ⟨D, n, hr, hn⟩ := ih w acc w' r out st so h
        refine ⟨D, n + 1, hr, ?_⟩
        rw [Nat.add_comm, clockRun_add]
        simp only [clockRun, clockStep, hf]
        exact hn
      | some rx =>
        simp only [] at h
        cases hh : handleDataMsg w k j msg rx with
        | error e => rw [hh] at h; cases h
        | ok v =>
          obtain ⟨w2, ds⟩ := v
          rw [hh] at h
          simp only [] at h
          obtain ⟨D, n, hr, hn⟩ := ih w2 (acc ++ ds) w' r (out ++ ds) st so h
          refine ⟨ds ++ D, n + 2, by rw [hr, List.append_assoc], ?_⟩
          rw [Nat.add_comm, clockRun_add]
          simp only [clockRun, clockStep, hf, hh]
          rw [hn, List.append_assoc]

/-- `forward_msg` for the emitted messages one after the other (`clckTick.go`) -/
theorem emit_run (fn j : Nat) (drop : List Trxd.TxMsg) (js : List Nat) :
    ∀ (emit : List Trxd.TxMsg) (w : World) (acc : List Dgram) (w' : World) (r out : List Dgram)
      (st : Nat) (so : List Dgram),
    clckTick.go j w acc emit = .ok (w', r) →
    ∃ D n, r = acc ++ D ∧
      clockRun ⟨w, .loop fn j emit drop js, out, st, so⟩ n = ⟨w', .loop fn j [] drop js, out ++ D, st, so⟩ := by
  intro emit
  induction emit with
  | nil =>
    intro w acc w' r out st so h
    simp only [clckTick.go, Except.ok.injEq, Prod.mk.injEq] at h
    obtain ⟨rfl, rfl⟩ := h
    exact ⟨[], 0, by simp, by simp [clockRun]⟩
  | cons m emit ih =>
    intro w acc w' r out st so h
    simp only [clckTick.go] at h
    split at h
    · cases h
    next w2 ds hfw =>
    obtain ⟨D, n, hr, hn⟩ := ih w2 (acc ++ ds) w' r (out ++ ds) st so h
    -- unfold `forward_msg`
    unfold forwardMsg at hfw
    split at hfw
    · cases hfw
    next src hsrc =>
    split at hfw
    · cases hfw
    next fnI hfnI =>
    simp only [] at hfw
    split at hfw
    · cases hfw
    next txFreq htx =>
    obtain ⟨D1, n1, hr1, hn1⟩ := fwd_run fn j fnI.toNat txFreq _ emit drop js _ w [] w2 ds out st so hfw
    simp only [List.nil_append] at hr1
    subst hr1
    refine ⟨ds ++ D, 1 + n1 + n, by rw [hr, List.append_assoc], ?_⟩
    rw [clockRun_add, clockRun_add]
    have h1 : clockRun ⟨w, .loop fn j (m :: emit) drop js, out, st, so⟩ 1 =
        ⟨w, .fwd fn j (if src.rfMuted then { m with burst := none } else m) fnI.toNat txFreq
          (List.range w.trxs.length) emit drop js, out, st, so⟩ := by
      simp only [clockRun, clockStep, hsrc, hfnI, htx]
    rw [h1, hn1, hn, List.append_assoc]

/-- the stale warnings one after the other -/
theorem drop_run (fn j : Nat) (js : List Nat) : ∀ (drop : List Trxd.TxMsg) (w : World) (out : List Dgram)
      (st : Nat) (so : List Dgram),
    clockRun ⟨w, .loop fn j [] drop js, out, st, so⟩ (drop.length + 1) =
      ⟨w, .next fn js, out, st + drop.length, so⟩ := by
  intro drop
  induction drop with
  | nil => intro w out st so; simp [clockRun, clockStep]
  | cons d drop ih =>
    intro w out st so
    rw [List.length_cons, Nat.add_comm (drop.length + 1) 1, clockRun_add]
    have h1 : clockRun ⟨w, .loop fn j [] (d :: drop) js, out, st, so⟩ 1 =
        ⟨w, .loop fn j [] drop js, out, st + 1, so⟩ := rfl
    rw [h1, ih]
    congr 1
    omega

/-- one `clck_tick`, run by the clock thread without interference -/
theorem clckTick_run {w w' : World} {j fn : Nat} {ds : List Dgram} {st' : Nat}
    (h : clckTick w j fn = .ok (w', ds, st')) (js : List Nat) (out : List Dgram) (st : Nat) (so : List Dgram) :
    ∃ n, clockRun ⟨w, .next fn (j :: js), out, st, so⟩ n = ⟨w', .next fn js, out ++ ds, st + st', so⟩ := by
  unfold clckTick at h
  split at h
  · cases h
  next trx htrx =>
  split at h
  next hrun =>
    simp only [Except.ok.injEq, Prod.mk.injEq] at h
    obtain ⟨rfl, rfl, rfl⟩ := h
    refine ⟨1, ?_⟩
    simp [clockRun, clockStep, htrx, hrun]
  next hrun =>
    simp only [] at h
    split at h
    · cases h
    next w2 ds2 hgo =>
    simp only [Except.ok.injEq, Prod.mk.injEq] at h
    obtain ⟨rfl, rfl, rfl⟩ := h
    obtain ⟨D, n, hr, hn⟩ := emit_run fn j (trx.txQueue.filter (fun m => classify fn m == .stale)) js _ _ []
      w2 ds2 out st so hgo
    simp only [List.nil_append] at hr
    subst hr
    refine ⟨2 + n + ((trx.txQueue.filter (fun m => classify fn m == .stale)).length + 1), ?_⟩
    rw [clockRun_add _ (2 + n), clockRun_add _ 2 n]
    have h2 : clockRun ⟨w, .next fn (j :: js), out, st, so⟩ 2 =
        ⟨setTrx w j (fun t => { t with txQueue := trx.txQueue.filter (fun m => classify fn m == .wait) }),
         .loop fn j (trx.txQueue.filter (fun m => classify fn m == .emit))
           (trx.txQueue.filter (fun m => classify fn m == .stale)) js, out, st, so⟩ := by
      simp only [clockRun, clockStep, htrx, hrun, if_false]
    rw [h2, hn, drop_run]

/-- the `clck_handler` loop -/
theorem tick_go_run (fn : Nat) (so : List Dgram) : ∀ (js : List Nat) (w : World) (acc : List Dgram) (st : Nat),
    w.clkSrc = some fn → (tick.go fn w acc st js).exc = none →
    ∃ n, clockRun ⟨w, .next fn js, acc, st, so⟩ n =
      ⟨(tick.go fn w acc st js).world, .idle, (tick.go fn w acc st js).out, (tick.go fn w acc st js).stale, so⟩ := by
  intro js
  induction js with
  | nil =>
    intro w acc st hs _
    exact ⟨1, by simp only [clockRun, clockStep, tick.go, hs]⟩
  | cons j js ih =>
    intro w acc st hs hx
    simp only [tick.go] at hx ⊢
    split at hx
    · cases hx
    next w2 ds s2 hc =>
    try simp only [hc]
    obtain ⟨n1, h1⟩ := clckTick_run hc js acc st so
    obtain ⟨n2, h2⟩ := ih w2 (acc ++ ds) (st + s2) ((clckTick_ok hc).1.1.trans hs) hx
    exact ⟨n1 + n2, by rw [clockRun_add, h1, h2]⟩

/-- Refinement: a tick of the clock thread that is not interleaved with socket operations and that no
exception leaves is exactly `World.tick` — same world, same datagrams, same number of stale
reports. -/
theorem tick_run {w : World} (hx : (tick w).exc = none) (so : List Dgram) :
    ∃ n, clockRun ⟨w, .idle, [], 0, so⟩ n = ⟨(tick w).world, .idle, (tick w).out, (tick w).stale, so⟩ := by
  cases hr : w.clkRunning with
  | false =>
    rw [tick_stopped hr]
    exact ⟨0, rfl⟩
  | true =>
    cases hs : w.clkSrc with
    | none =>
      exfalso
      unfold tick at hx
      simp [hr, hs] at hx
    | some fn =>
      rw [tick_eq_go hr hs] at hx ⊢
      obtain ⟨n, hn⟩ := tick_go_run fn so (List.range w.trxs.length) w (tickInds w fn) 0 hs hx
      refine ⟨1 + n, ?_⟩
      rw [clockRun_add]
      have h1 : clockRun ⟨w, .idle, [], 0, so⟩ 1 =
          ⟨w, .next fn (List.range w.trxs.length), tickInds w fn, 0, so⟩ := by
        simp only [clockRun, clockStep, hr, hs, not_true_eq_false, if_false, List.nil_append]
        rfl
      rw [h1, hn]

/-! ### the recipient loop of `forward_msg`: the reads (`fwd-read`) and the call (`fwd-handle`) -/

/-- `TxMsg.trans(ver = v)`: the translated message carries the requested header version and the
frame / timeslot number of the original -/
theorem trans_hdr {m : Trxd.TxMsg} {v : Int} {rx : Trxd.RxMsg} (h : m.trans (some v) = .ok rx) :
    rx.ver = v ∧ rx.fn = m.fn ∧ rx.tn = m.tn := by
  unfold Trxd.TxMsg.trans at h
  dsimp only at h
  split at h
  · split at h
    · cases h
    · injection h with h; rw [← h]; exact ⟨rfl, rfl, rfl⟩
  · injection h with h; rw [← h]; exact ⟨rfl, rfl, rfl⟩

/-- what the reads of one iteration of the recipient loop decide: recipient `k` is served iff it is
another transceiver, it is running, its Rx frequency for the burst's frame is the sender's Tx
frequency; the message is translated with the header version `k` has at that moment -/
theorem fwdRead_some_iff (w : World) (j mfn k : Nat) (msg : Trxd.TxMsg) (txFreq : Option Int) (rx : Trxd.RxMsg) :
    fwdRead w j msg mfn txFreq k = .ok (some rx) ↔
      k ≠ j ∧ ∃ trx, w.trxs[k]? = some trx ∧ trx.running = true ∧ trx.getRxFreq mfn = .ok txFreq ∧
        msg.trans (some trx.hdrVer) = .ok rx := by
  unfold fwdRead
  by_cases hkj : k = j
  · simp [hkj]
  rw [if_neg hkj]
  cases htrx : w.trxs[k]? with
  | none => simp
  | some trx =>
    simp only [Option.some.injEq, exists_eq_left', ne_eq, hkj, not_false_eq_true, true_and]
    by_cases hrun : trx.running = true
    · simp only [hrun, not_true_eq_false, if_false, true_and]
      cases hrx : trx.getRxFreq mfn with
      | error e => simp
      | ok rxf =>
        simp only [Except.ok.injEq]
        by_cases hf : rxf = txFreq
        · subst hf
          simp only [not_true_eq_false, if_false, true_and]
          cases htr : msg.trans (some trx.hdrVer) with
          | error e => simp
          | ok rx' => simp
        · simp [hf]
    · simp [hrun]


theorem act_sock_keeps {s : State} {a : Act} (h : a ≠ Act.clk) :
    (act s a).pc = s.pc ∧ (act s a).out = s.out ∧ (act s a).stale = s.stale := by
  cases a with
  | clk => exact absurd rfl h
  | ctrl i sp d => exact ⟨rfl, rfl, rfl⟩
  | data i d => exact ⟨rfl, rfl, rfl⟩

/-- operations of the socket thread never touch the clock thread's control state, what it has sent
and what it has reported -/
theorem exec_sock_keeps : ∀ (xs : List Act) (s : State), (∀ a ∈ xs, a ≠ Act.clk) →
    (exec s xs).pc = s.pc ∧ (exec s xs).out = s.out ∧ (exec s xs).stale = s.stale := by
  intro xs
  induction xs with
  | nil => intro s _; exact ⟨rfl, rfl, rfl⟩
  | cons a xs ih =>
    intro s h
    obtain ⟨h1, h2, h3⟩ := ih (act s a) (fun b hb => h b (List.mem_cons_of_mem _ hb))
    obtain ⟨g1, g2, g3⟩ := act_sock_keeps (s := s) (h a List.mem_cons_self)
    exact ⟨h1.trans g1, h2.trans g2, h3.trans g3⟩

/-- the `fwd-read` action: the next control state is decided by `fwdRead`, nothing else changes -/
theorem clockStep_fwd (s : State) {fn j mfn k : Nat} {msg : Trxd.TxMsg} {txFreq : Option Int} {ks : List Nat}
    {emit drop : List Trxd.TxMsg} {js : List Nat}
    (hpc : s.pc = Pc.fwd fn j msg mfn txFreq (k :: ks) emit drop js) :
    clockStep s = { s with pc :=
      (match fwdRead s.w j msg mfn txFreq k with
       | .error e => Pc.dead e
       | .ok none => Pc.fwd fn j msg mfn txFreq ks emit drop js
       | .ok (some rx) => Pc.hdl fn j msg mfn txFreq k rx ks emit drop js) } := by
  obtain ⟨w, pc, out, stale, sout⟩ := s
  simp only at hpc
  subst hpc
  simp only [clockStep]
  split <;> simp_all

/-- the `fwd-handle` action: `handle_data_msg` of recipient `k` with the message translated earlier -/
theorem clockStep_hdl (s : State) {fn j mfn k : Nat} {msg : Trxd.TxMsg} {txFreq : Option Int} {rx : Trxd.RxMsg}
    {ks : List Nat} {emit drop : List Trxd.TxMsg} {js : List Nat}
    (hpc : s.pc = Pc.hdl fn j msg mfn txFreq k rx ks emit drop js) :
    clockStep s =
      match handleDataMsg s.w k j msg rx with
      | .error e => { s with pc := Pc.dead e }
      | .ok (w, ds) => { s with w := w, out := s.out ++ ds, pc := Pc.fwd fn j msg mfn txFreq ks emit drop js } := by
  obtain ⟨w, pc, out, stale, sout⟩ := s
  simp only at hpc
  subst hpc
  simp only [clockStep]
  split <;> simp_all

/-! ### concrete schedules for the non-vacuity examples of Props/C03 -/

/-- the demo world with the clock thread between two ticks -/
def demoState (c : Nat) : State := { w := demoWorld c }
/-- the three demo bursts (due / passed / ahead) arriving at transceiver 0 -/
def demoArrivalActs : List Act := [.data 0 (demoBurst 100), .data 0 (demoBurst 90), .data 0 (demoBurst 110)]
/-- `n` consecutive actions of the clock thread -/
def clks (n : Nat) : List Act := List.replicate n Act.clk
/-- the TRXC datagram `CMD RXTUNE 890000` (retunes a receiver away from the demo sender's 935 MHz) -/
def demoRxtune : List Nat := PyStr.encodeUtf8 (PyStr.lit "CMD RXTUNE 890000\x00")

end OsmoVerif.World.Sched
