/- Helper lemmas for `Model.TrxconIf` (C04 / C05 / C14, trxcon side).  Core Lean only. -/
import OsmoVerif.Model.TrxconIf
import OsmoVerif.Spec.TrxdLayout

namespace OsmoVerif.TrxconIf
open OsmoVerif.Gen.Trxcon OsmoVerif.Spec.TrxdLayout

/-! ### bit operations as arithmetic -/

theorem and255 (x : Nat) : x &&& 255 = x % 256 := Nat.and_two_pow_sub_one_eq_mod x 8
theorem and7 (x : Nat) : x &&& 7 = x % 8 := Nat.and_two_pow_sub_one_eq_mod x 3
theorem and4095 (x : Nat) : x &&& 4095 = x % 4096 := Nat.and_two_pow_sub_one_eq_mod x 12

theorem or_low (i a b : Nat) (h : b < 2 ^ i) : 2 ^ i * a ||| b = 2 ^ i * a + b :=
  (Nat.two_pow_add_eq_or_of_lt h a).symm

/-- `osmo_load32be` of four octets -/
theorem or4 (a b c d : Nat) (ha : a < 256) (hb : b < 256) (hc : c < 256) (hd : d < 256) :
    u32 (a * 16777216) ||| u32 (b * 65536) ||| u32 (c * 256) ||| d
      = 16777216 * a + 65536 * b + 256 * c + d := by
  have e1 : u32 (a * 16777216) = 2 ^ 24 * a := by simp only [u32]; omega
  have e2 : u32 (b * 65536) = 65536 * b := by simp only [u32]; omega
  have e3 : u32 (c * 256) = 256 * c := by simp only [u32]; omega
  rw [e1, e2, e3, or_low 24 a (65536 * b) (by omega)]
  have f1 : 2 ^ 24 * a + 65536 * b = 2 ^ 16 * (256 * a + b) := by omega
  rw [f1, or_low 16 _ (256 * c) (by omega)]
  have f2 : 2 ^ 16 * (256 * a + b) + 256 * c = 2 ^ 8 * (65536 * a + 256 * b + c) := by omega
  rw [f2, or_low 8 _ d (by omega)]

theorem store32be_eq (x : Nat) : store32be x = [x / 16777216 % 256, x / 65536 % 256, x / 256 % 256, x % 256] := by
  simp only [store32be, and255, Nat.shiftRight_eq_div_pow]

/-! ### checked buffer access -/

theorem rd_ok {mem : List Nat} {cap i b : Nat} (h : mem[i]? = some b) (hc : i < cap) : rd mem cap i = .ok b := by
  simp only [rd, h]
  split
  · omega
  · rfl

theorem rd_lt {mem : List Nat} {cap i : Nat} (h : i < mem.length) (hc : mem.length ≤ cap) :
    rd mem cap i = .ok mem[i] := by
  apply rd_ok _ (by omega)
  exact List.getElem?_eq_getElem h

/-- the ubit→sbit loop over `pre ++ xs ++ post`, started at the first octet of `xs` -/
theorem convLoop_append (cap : Nat) (xs : List Nat) : ∀ (pre post : List Nat) (i : Nat),
    pre.length = 8 + i → pre.length + xs.length ≤ cap →
    convLoop cap (pre ++ xs ++ post) i xs.length = .ok (pre ++ xs.map sbitOctet ++ post) := by
  induction xs with
  | nil => intro pre post i _ _; simp [convLoop]
  | cons x xs ih =>
    intro pre post i hp hc
    simp only [List.length_cons] at hc
    have hrd : rd (pre ++ x :: xs ++ post) cap (8 + i) = .ok x := by
      apply rd_ok _ (by omega)
      rw [List.append_assoc, List.getElem?_append_right (by omega)]
      simp [hp]
    have hwr : wr (pre ++ x :: xs ++ post) cap (8 + i) (sbitOctet x)
        = .ok ((pre ++ [sbitOctet x]) ++ xs ++ post) := by
      simp only [wr]
      rw [if_neg (by omega), if_pos (by simp; omega)]
      rw [List.append_assoc, List.set_append_right _ _ (by omega)]
      simp [hp]
    simp only [List.length_cons, convLoop, hrd, hwr, bind, Except.bind]
    have := ih (pre ++ [sbitOctet x]) post (i + 1) (by simp; omega) (by simp; omega)
    rw [this]
    simp

theorem readBurst_append (cap : Nat) (ys : List Nat) : ∀ (pre post : List Nat) (i : Nat),
    pre.length = 8 + i → pre.length + ys.length ≤ cap →
    readBurst cap (pre ++ ys ++ post) i ys.length = .ok (ys.map s8) := by
  induction ys with
  | nil => intro pre post i _ _; simp [readBurst]
  | cons y ys ih =>
    intro pre post i hp hc
    simp only [List.length_cons] at hc
    have hrd : rd (pre ++ y :: ys ++ post) cap (8 + i) = .ok y := by
      apply rd_ok _ (by omega)
      rw [List.append_assoc, List.getElem?_append_right (by omega)]
      simp [hp]
    have e : pre ++ y :: ys ++ post = (pre ++ [y]) ++ ys ++ post := by simp
    have := ih (pre ++ [y]) post (i + 1) (by simp; omega) (by simp; omega)
    simp only [List.length_cons, readBurst, hrd, bind, Except.bind]
    rw [e, this]
    simp [pure, Except.pure]

/-- any buffer with at least `8 + i + n` initialised octets splits as `pre ++ xs ++ post` -/
theorem split3 (mem : List Nat) (k n : Nat) (h : k + n ≤ mem.length) :
    mem = mem.take k ++ (mem.drop k).take n ++ mem.drop (k + n) ∧ (mem.take k).length = k ∧
      ((mem.drop k).take n).length = n := by
  refine ⟨?_, ?_, ?_⟩
  · rw [List.append_assoc, ← List.drop_drop, List.take_append_drop, List.take_append_drop]
  · simp; omega
  · simp; omega

/-! ### `trx_data_rx_cb` never faults -/

theorem load32be_ok (buf : List Nat) (cap off : Nat) (h : off + 3 < buf.length) (hc : buf.length ≤ cap) :
    ∃ v, load32be buf cap off = .ok v := by
  simp only [load32be, rd_lt (show off < buf.length by omega) hc, rd_lt (show off + 1 < buf.length by omega) hc,
    rd_lt (show off + 2 < buf.length by omega) hc, rd_lt h hc, bind, Except.bind, pure, Except.pure]
  exact ⟨_, rfl⟩

theorem convLoop_ok (cap : Nat) (mem : List Nat) (i n : Nat) (h : 8 + i + n ≤ mem.length) (hc : mem.length ≤ cap) :
    ∃ mem', convLoop cap mem i n = .ok mem' ∧ mem'.length = mem.length := by
  obtain ⟨e, l1, l2⟩ := split3 mem (8 + i) n (by omega)
  have := convLoop_append cap ((mem.drop (8 + i)).take n) (mem.take (8 + i)) (mem.drop (8 + i + n)) i l1 (by omega)
  rw [l2, ← e] at this
  refine ⟨_, this, ?_⟩
  simp; omega

theorem readBurst_ok (cap : Nat) (mem : List Nat) (i n : Nat) (h : 8 + i + n ≤ mem.length) (hc : mem.length ≤ cap) :
    ∃ b, readBurst cap mem i n = .ok b := by
  obtain ⟨e, l1, l2⟩ := split3 mem (8 + i) n (by omega)
  have := readBurst_append cap ((mem.drop (8 + i)).take n) (mem.take (8 + i)) (mem.drop (8 + i + n)) i l1 (by omega)
  rw [l2, ← e] at this
  exact ⟨_, this⟩

/-- what `trx_data_rx_cb` can come to: a return code without indication, or the two indications -/
def RxOut.noFault : RxOut → Prop
  | .fault _ => False
  | _ => True

theorem cRxInd_ok (buf : List Nat) (adv b0 n : Nat) (h : 8 + n ≤ buf.length) (hc : buf.length ≤ trxdBufSize) :
    ∃ o, cRxInd buf adv b0 n = .ok o ∧ o.noFault := by
  obtain ⟨fn, hfn⟩ := load32be_ok buf trxdBufSize 1 (by omega) hc
  obtain ⟨mem, hm, hl⟩ := convLoop_ok trxdBufSize buf 0 n (by omega) hc
  obtain ⟨b, hb⟩ := readBurst_ok trxdBufSize mem 0 n (by omega) (by omega)
  simp only [cRxInd, hfn, rd_lt (show 5 < buf.length by omega) hc, rd_lt (show 6 < buf.length by omega) hc,
    rd_lt (show 7 < buf.length by omega) hc, hm, hb, bind, Except.bind, pure, Except.pure]
  split
  · exact ⟨_, rfl, trivial⟩
  · exact ⟨_, rfl, trivial⟩

theorem burstLenSwitch_le (rl n : Nat) (h : burstLenSwitch rl = some n) : n ≤ rl := by
  simp only [burstLenSwitch] at h
  split at h
  · injection h; omega
  · split at h
    · injection h; omega
    · cases h

theorem cRxBody_ok (buf : List Nat) (adv : Nat) (h8 : trxdv0HdrLen ≤ buf.length) (hc : buf.length ≤ trxdBufSize) :
    ∃ o, cRxBody buf adv = .ok o ∧ o.noFault := by
  have hh : trxdv0HdrLen = 8 := by decide
  rw [hh] at h8
  simp only [cRxBody, rd_lt (show 0 < buf.length by omega) hc, bind, Except.bind, pure, Except.pure, hh]
  split
  · exact ⟨_, rfl, trivial⟩
  · split
    · exact ⟨_, rfl, trivial⟩
    · rename_i n hn
      exact cRxInd_ok buf adv _ n (by have := burstLenSwitch_le _ _ hn; omega) hc

theorem cRx_noFault (d : List Nat) (adv : Nat) : (cRx d adv).noFault := by
  simp only [cRx]
  split
  · trivial
  · split
    · trivial
    · rename_i h0 h8
      obtain ⟨o, ho, hn⟩ := cRxBody_ok (d.take trxdBufSize) adv (by omega) (by simp; omega)
      rw [ho]; exact hn
/-! ### field conversions of `trx_data_rx_cb` against the layout -/

/-- `.rssi = -(int8_t) buf[5]` recovers the RSSI from the octet −RSSI exactly for −128..0 -/
theorem rssi_decode (r : Int) (h1 : -128 ≤ r) (h2 : r ≤ 0) : s8i (-(s8 (-r).toNat)) = r := by
  simp only [s8i, s8]
  split <;> split <;> omega

/-- octets 129..255 decode to a positive value -/
theorem rssi_decode_out (b : Nat) (h1 : 129 ≤ b) (h2 : b ≤ 255) : s8i (-(s8 b)) = 256 - (b : Int) := by
  simp only [s8i, s8]
  split <;> split <;> omega

theorem toa_decode (u : Nat) (h : u < 65536) :
    s16i (orInt (s16 ((u / 256) <<< 8)) ((u % 256 : Nat) : Int)) = s16 u := by
  rw [Nat.shiftLeft_eq]
  by_cases hn : u / 256 < 128
  · have e1 : s16 (u / 256 * 2 ^ 8) = ((2 ^ 8 * (u / 256) : Nat) : Int) := by
      simp only [s16]; split <;> omega
    have e2 : u32i ((2 ^ 8 * (u / 256) : Nat) : Int) = 2 ^ 8 * (u / 256) := by simp only [u32i]; omega
    have e3 : u32i ((u % 256 : Nat) : Int) = u % 256 := by simp only [u32i]; omega
    rw [e1]; simp only [orInt]; rw [e2, e3, or_low 8 _ _ (by omega)]
    simp only [s16i, s32, s16]
    split <;> split <;> split <;> omega
  · have e1 : s16 (u / 256 * 2 ^ 8) = ((2 ^ 8 * (u / 256) : Nat) : Int) - 65536 := by
      simp only [s16]; split <;> omega
    have e2 : u32i (((2 ^ 8 * (u / 256) : Nat) : Int) - 65536) = 2 ^ 8 * (16776960 + u / 256) := by
      simp only [u32i]; omega
    have e3 : u32i ((u % 256 : Nat) : Int) = u % 256 := by simp only [u32i]; omega
    rw [e1]; simp only [orInt]; rw [e2, e3, or_low 8 _ _ (by omega)]
    simp only [s16i, s32, s16]
    split <;> split <;> split <;> omega

theorem s16_s16be (x : Int) (h1 : -32768 ≤ x) (h2 : x ≤ 32767) : s16 (x % 65536).toNat = x := by
  simp only [s16]; split <;> omega

theorem soft_decode (s : Int) (h1 : -127 ≤ s) (h2 : s ≤ 127) : s8 (sbitOctet (softOctet s)) = s := by
  have hne : (127 - s).toNat ≠ 255 := by omega
  simp only [softOctet, sbitOctet, s8, u8, hne, if_false]
  split <;> omega

theorem soft_decode_list (soft : List Int) (h : ∀ s ∈ soft, -127 ≤ s ∧ s ≤ 127) :
    ((soft.map softOctet).map sbitOctet).map s8 = soft := by
  induction soft with
  | nil => rfl
  | cons s t ih =>
    simp only [List.map_cons, List.cons.injEq]
    exact ⟨soft_decode s (h s (by simp)).1 (h s (by simp)).2, ih (fun x hx => h x (by simp [hx]))⟩

/-- the version-0 TRX→L1 layout is header (8 octets), soft bits, optional padding -/
theorem layoutRx_v0 (m : RxFields) (legacy : Bool) (soft : List Int) (hv : m.ver = 0) (hs : m.soft = some soft) :
    layoutRx m legacy =
      [m.tn, m.fn / 16777216 % 256, m.fn / 65536 % 256, m.fn / 256 % 256, m.fn % 256, (-m.rssi).toNat,
        (m.toa256 % 65536).toNat / 256, (m.toa256 % 65536).toNat % 256]
      ++ soft.map softOctet ++ (if legacy then [0, 0] else []) := by
  simp only [layoutRx, hdr, be32, s16be, pad, hv, hs]
  cases legacy <;> simp

theorem cRxInd_layout (pre : List Nat) (soft : List Int) (post : List Nat) (adv : Nat)
    (tn fn : Nat) (rssi toa : Int)
    (hpre : pre = [tn, fn / 16777216 % 256, fn / 65536 % 256, fn / 256 % 256, fn % 256, (-rssi).toNat,
        (toa % 65536).toNat / 256, (toa % 65536).toNat % 256])
    (htn : tn < 8) (hfn : fn < 2715648) (hr : -128 ≤ rssi ∧ rssi ≤ 0) (ht : -32768 ≤ toa ∧ toa ≤ 32767)
    (hb : ∀ s ∈ soft, -127 ≤ s ∧ s ≤ 127) (hlen : 8 + soft.length + post.length ≤ 512) :
    cRxInd (pre ++ soft.map softOctet ++ post) adv tn soft.length
      = .ok (.ind ⟨tn, fn, rssi, toa, soft⟩ ⟨u32 (fn + u32 adv) % 2715648, tn⟩) := by
  have hcap : trxdBufSize = 512 := by decide
  have hH : gsmTdmaHyperframe = 2715648 := by decide
  have hpl : pre.length = 8 := by rw [hpre]; rfl
  have hrd : ∀ i (hi : i < 8), rd (pre ++ soft.map softOctet ++ post) 512 i = .ok (pre[i]'(by omega)) := by
    intro i hi
    apply rd_ok _ (by omega)
    rw [List.append_assoc, List.getElem?_append_left (by omega)]
    exact List.getElem?_eq_getElem (by omega)
  have hl32 : load32be (pre ++ soft.map softOctet ++ post) 512 1 = .ok fn := by
    simp only [load32be, hrd 1 (by omega), hrd 2 (by omega), hrd 3 (by omega), hrd 4 (by omega), bind, Except.bind,
      pure, Except.pure]
    subst hpre
    simp only [List.getElem_cons_succ, List.getElem_cons_zero]
    rw [or4 _ _ _ _ (by omega) (by omega) (by omega) (by omega)]
    congr 1; omega
  have hconv := convLoop_append 512 (soft.map softOctet) pre post 0 (by omega) (by simp; omega)
  have hread := readBurst_append 512 ((soft.map softOctet).map sbitOctet) pre post 0 (by omega) (by simp; omega)
  simp only [List.length_map] at hconv hread
  simp only [cRxInd, hcap, hH, hl32, hrd 5 (by omega), hrd 6 (by omega), hrd 7 (by omega), hconv, hread, bind,
    Except.bind, pure, Except.pure]
  subst hpre
  simp only [List.getElem_cons_succ, List.getElem_cons_zero]
  rw [if_neg (by omega), toa_decode _ (by omega), rssi_decode _ hr.1 hr.2, s16_s16be _ ht.1 ht.2,
    soft_decode_list _ hb, and7, Nat.mod_eq_of_lt htn]

/-! ### decimal printing and scanning -/

theorem isDigit_iff (c : Nat) : isDigit c = true ↔ 48 ≤ c ∧ c ≤ 57 := by
  simp [isDigit]

theorem decFuel_digits : ∀ (f n : Nat), ∀ c ∈ decFuel f n, isDigit c = true := by
  intro f
  induction f with
  | zero => intro n c hc; simp [decFuel] at hc
  | succ f ih =>
    intro n c hc
    simp only [decFuel] at hc
    split at hc
    · simp only [List.mem_singleton] at hc; subst hc; rw [isDigit_iff]; omega
    · simp only [List.mem_append, List.mem_singleton] at hc
      rcases hc with hc | hc
      · exact ih _ c hc
      · subst hc; rw [isDigit_iff]; omega

theorem decFuel_ne_nil (f n : Nat) : decFuel (f + 1) n ≠ [] := by
  simp only [decFuel]; split <;> simp

/-- exact number of digits -/
theorem decFuel_length : ∀ (k f n : Nat), k ≤ f → 10 ^ k ≤ n → n < 10 ^ (k + 1) → (decFuel (f + 1) n).length = k + 1 := by
  intro k
  induction k with
  | zero => intro f n _ h1 h2; simp only [decFuel]; rw [if_pos (by omega)]; rfl
  | succ k ih =>
    intro f n hf h1 h2
    obtain ⟨f', rfl⟩ : ∃ f', f = f' + 1 := ⟨f - 1, by omega⟩
    have h10 : ¬ n < 10 := by
      have : 10 ^ (k + 1) ≥ 10 := by
        have := Nat.pow_le_pow_right (show 10 > 0 by omega) (show 1 ≤ k + 1 by omega)
        omega
      omega
    rw [decFuel, if_neg h10, List.length_append, List.length_singleton]
    have p1 : 10 ^ (k + 1) = 10 * 10 ^ k := by rw [Nat.pow_succ]; omega
    have p2 : 10 ^ (k + 1 + 1) = 10 * 10 ^ (k + 1) := by rw [Nat.pow_succ]; omega
    rw [ih f' (n / 10) (by omega) (by omega) (by omega)]

theorem decFuel_length_small (f n : Nat) (h : n < 10) : (decFuel (f + 1) n).length = 1 := by
  simp only [decFuel]; rw [if_pos h]; rfl

/-- at most `k` digits below `10^k` -/
theorem decFuel_length_le : ∀ (k f n : Nat), 1 ≤ k → k ≤ f → n < 10 ^ k → (decFuel f n).length ≤ k := by
  intro k
  induction k with
  | zero => intro f n h; omega
  | succ k ih =>
    intro f n _ hf h2
    obtain ⟨f', rfl⟩ : ∃ f', f = f' + 1 := ⟨f - 1, by omega⟩
    simp only [decFuel]
    split
    · simp
    · rename_i h10
      have p2 : 10 ^ (k + 1) = 10 * 10 ^ k := by rw [Nat.pow_succ]; omega
      have hk : 1 ≤ k := by
        rcases Nat.eq_zero_or_pos k with h | h
        · subst h; simp at h2; omega
        · exact h
      have := ih f' (n / 10) hk (by omega) (by omega)
      simp only [List.length_append, List.length_singleton]; omega

/-- scanning the printed digits of `n` continues behind them with the accumulated value -/
theorem scanDigits_decFuel : ∀ (f n : Nat) (rest : List Nat) (acc : Nat), n < 10 ^ f →
    scanDigits (decFuel f n ++ rest) acc = scanDigits rest (acc * 10 ^ (decFuel f n).length + n) := by
  intro f
  induction f with
  | zero => intro n rest acc h; simp at h; subst h; simp [decFuel]
  | succ f ih =>
    intro n rest acc h
    simp only [decFuel]
    split
    · rename_i h10
      have hd : isDigit (48 + n) = true := by rw [isDigit_iff]; omega
      simp only [List.singleton_append, scanDigits, hd, if_true, List.length_singleton]
      congr 1; omega
    · rename_i h10
      have p2 : 10 ^ (f + 1) = 10 * 10 ^ f := by rw [Nat.pow_succ]; omega
      rw [List.append_assoc, ih (n / 10) _ acc (by omega)]
      have hd : isDigit (48 + n % 10) = true := by rw [isDigit_iff]; omega
      simp only [List.singleton_append, scanDigits, hd, if_true, List.length_append, List.length_singleton]
      congr 1
      rw [Nat.pow_succ]
      have : 48 + n % 10 - 48 = n % 10 := by omega
      rw [this, Nat.mul_add, ← Nat.mul_assoc, Nat.mul_comm 10 acc]
      have e : 10 * (n / 10) + n % 10 = n := by omega
      rw [Nat.mul_assoc, Nat.mul_comm 10 (10 ^ _)]
      omega

/-- the text does not go on with a digit -/
def NoDigitHead (rest : List Nat) : Prop := ∀ c t, rest = c :: t → isDigit c = false

theorem noDigitHead_nil : NoDigitHead [] := by intro c t h; cases h
theorem noDigitHead_cons (c : Nat) (t : List Nat) (h : isDigit c = false) : NoDigitHead (c :: t) := by
  intro c' t' e; injection e with e1 _; subst e1; exact h

theorem scanDigits_stop (rest : List Nat) (acc : Nat) (h : NoDigitHead rest) : scanDigits rest acc = (acc, rest) := by
  cases rest with
  | nil => rfl
  | cons c t => simp only [scanDigits, h c t rfl]; rfl

theorem scanSign_digit (c : Nat) (t : List Nat) (h : isDigit c = true) : scanSign (c :: t) = (false, c :: t) := by
  rw [isDigit_iff] at h
  unfold scanSign
  split
  · rename_i e; injection e with e1 _; omega
  · rename_i e; injection e with e1 _; omega
  · rfl

theorem isSpace_digit (c : Nat) (h : isDigit c = true) : isSpace c = false := by
  rw [isDigit_iff] at h
  simp only [isSpace, Bool.or_eq_false_iff, beq_eq_false_iff_ne, Bool.and_eq_false_iff, decide_eq_false_iff_not]
  omega

/-- scanning printed digits (`f ≥ 1` places) -/
theorem scanNum_dec (f n : Nat) (rest : List Nat) (h : n < 10 ^ (f + 1)) (hr : NoDigitHead rest) :
    scanNum (decFuel (f + 1) n ++ rest) = some (false, n, rest) := by
  have hne := decFuel_ne_nil f n
  have hsd := scanDigits_decFuel (f + 1) n rest 0 h
  have hdig := decFuel_digits (f + 1) n
  cases hd : decFuel (f + 1) n with
  | nil => exact absurd hd hne
  | cons c cs =>
    rw [hd] at hsd hdig
    have hc : isDigit c = true := hdig c (by simp)
    simp only [List.cons_append] at hsd
    simp only [scanNum, List.cons_append, List.dropWhile_cons, isSpace_digit c hc, Bool.false_eq_true, if_false]
    rw [scanSign_digit c (cs ++ rest) hc]
    simp only [hc, if_true, hsd, Nat.zero_mul, Nat.zero_add, scanDigits_stop rest n hr]

theorem scanNum_neg (f n : Nat) (rest : List Nat) (h : n < 10 ^ (f + 1)) (hr : NoDigitHead rest) :
    scanNum (45 :: decFuel (f + 1) n ++ rest) = some (true, n, rest) := by
  have hne := decFuel_ne_nil f n
  have hsd := scanDigits_decFuel (f + 1) n rest 0 h
  have hdig := decFuel_digits (f + 1) n
  cases hd : decFuel (f + 1) n with
  | nil => exact absurd hd hne
  | cons c cs =>
    rw [hd] at hsd hdig
    have hc : isDigit c = true := hdig c (by simp)
    have hs45 : isSpace 45 = false := by decide
    simp only [List.cons_append] at hsd
    simp only [scanNum, List.cons_append, List.dropWhile_cons, hs45, Bool.false_eq_true, if_false, scanSign]
    simp only [hc, if_true, hsd, Nat.zero_mul, Nat.zero_add, scanDigits_stop rest n hr]

/-- white space in front is skipped -/
theorem scanNum_space (s : List Nat) : scanNum (32 :: s) = scanNum s := by
  have : isSpace 32 = true := by decide
  simp only [scanNum, List.dropWhile_cons, this, if_true]

theorem fmtD_first (x : Int) : ∃ c t, fmtD x = c :: t ∧ isSpace c = false := by
  simp only [fmtD]
  split
  · exact ⟨45, _, rfl, by decide⟩
  · have hne := decFuel_ne_nil 9 (s32i x).toNat
    have hdig := decFuel_digits 10 (s32i x).toNat
    cases hd : decFuel 10 (s32i x).toNat with
    | nil => exact absurd hd hne
    | cons c cs => rw [hd] at hdig; exact ⟨c, cs, rfl, isSpace_digit c (hdig c (by simp))⟩

theorem s32i_id (x : Int) (h1 : -2147483648 ≤ x) (h2 : x ≤ 2147483647) : s32i x = x := by
  simp only [s32i, s32]; split <;> omega

/-- `sscanf("%d")` of a printed `int` (`%d`) returns it -/
theorem sscanfD_fmtD (x : Int) (rest : List Nat) (h1 : -2147483648 ≤ x) (h2 : x ≤ 2147483647)
    (hr : NoDigitHead rest) : sscanfD (fmtD x ++ rest) = some x := by
  simp only [sscanfD, fmtD, s32i_id x h1 h2]
  by_cases hneg : x < 0
  · rw [if_pos hneg, scanNum_neg 9 x.natAbs rest (by omega) hr]
    simp only [valD, if_true]
    rw [if_neg (by omega)]
    rw [s32i_id _ (by omega) (by omega)]; congr 1; omega
  · rw [if_neg hneg, scanNum_dec 9 x.toNat rest (by omega) hr]
    simp only [valD, Bool.false_eq_true, if_false]
    rw [if_neg (by omega)]
    rw [s32i_id _ (by omega) (by omega)]; congr 1; omega

/-- `sscanf("%u %d")` of `"<%u> <%d>"` returns both -/
theorem sscanfUD_fmt (a : Nat) (b : Int) (rest : List Nat) (ha : a < 4294967296)
    (h1 : -2147483648 ≤ b) (h2 : b ≤ 2147483647) (hr : NoDigitHead rest) :
    sscanfUD (fmtU a ++ [32] ++ fmtD b ++ rest) = some (a, b) := by
  have hu : u32 a = a := by simp only [u32]; omega
  have hsp : NoDigitHead ([32] ++ fmtD b ++ rest) := by
    simp only [List.cons_append]; exact noDigitHead_cons 32 _ (by decide)
  have hD := sscanfD_fmtD b rest h1 h2 hr
  simp only [sscanfD] at hD
  simp only [sscanfUD, fmtU, hu, List.append_assoc]
  rw [scanNum_dec 9 a _ (by omega) (by simpa using hsp)]
  simp only [List.singleton_append, scanNum_space]
  cases hs : scanNum (fmtD b ++ rest) with
  | none => rw [hs] at hD; cases hD
  | some r =>
    obtain ⟨neg, m, rr⟩ := r
    rw [hs] at hD
    simp only [Option.some.injEq] at hD
    simp only [hD, valU]
    rw [if_neg (by omega)]
    simp only [Bool.false_eq_true, if_false, u32]
    congr 2

/-! ### ARFCN ↔ frequency -/

theorem and_two_pow' (x n : Nat) : x &&& 2 ^ n = if x / 2 ^ n % 2 = 1 then 2 ^ n else 0 := by
  apply Nat.eq_of_testBit_eq
  intro j
  rw [Nat.testBit_and, Nat.testBit_two_pow]
  by_cases h : n = j
  · subst h
    by_cases hx : x / 2 ^ n % 2 = 1
    · have : 2 ^ n / 2 ^ n = 1 := Nat.div_self (Nat.two_pow_pos n)
      simp [hx, Nat.testBit_eq_decide_div_mod_eq, this]
    · simp [hx, Nat.testBit_eq_decide_div_mod_eq]
  · by_cases hx : x / 2 ^ n % 2 = 1
    · simp [hx, h, Nat.testBit_two_pow_of_ne h]
    · simp [hx, h]

theorem and32768 (x : Nat) : x &&& 32768 = if x / 32768 % 2 = 1 then 32768 else 0 := and_two_pow' x 15

/-- what the band chain yields for a 12 bit ARFCN -/
theorem arfcnBand_some (pcs : Bool) (a ul off : Int) (h0 : 0 ≤ a) (h1 : a ≤ 4095)
    (h : arfcnBand pcs a = some (ul, off)) :
    4506 ≤ ul ∧ ul + off ≤ 26468 ∧ 100 ≤ off ∧ off ≤ 950 ∧
    ((ul < 10000 ∧ ul + off < 10000) ∨ (10000 ≤ ul)) := by
  unfold arfcnBand at h
  repeat' split at h
  all_goals (cases h; try omega)

/-- an ARFCN for which `gsm_arfcn2freq10` does not answer 0xffff -/
def ValidArfcn (a : Nat) : Prop := arfcn2freq10 a false ≠ 65535

instance (a : Nat) : Decidable (ValidArfcn a) := by unfold ValidArfcn; infer_instance

/-- both directions are defined together; both frequencies have the same number of digits -/
theorem arfcn2freq10_valid (a : Nat) (h : ValidArfcn a) :
    ∃ ul off : Nat, arfcn2freq10 a true = ul ∧ arfcn2freq10 a false = ul + off ∧ 4506 ≤ ul ∧ ul + off ≤ 26468 ∧
      100 ≤ off ∧ ((ul < 10000 ∧ ul + off < 10000) ∨ 10000 ≤ ul) := by
  unfold ValidArfcn at h
  simp only [arfcn2freq10] at h ⊢
  have hb : (0 : Int) ≤ ((u16 a &&& (65535 - arfcnFlagMask) : Nat) : Int) := by omega
  have hb2 : ((u16 a &&& (65535 - arfcnFlagMask) : Nat) : Int) ≤ 4095 := by
    have : 65535 - arfcnFlagMask = 4095 := by decide
    rw [this, and4095]; omega
  cases hband : arfcnBand ((u16 a &&& arfcnPCS) != 0) ((u16 a &&& (65535 - arfcnFlagMask) : Nat) : Int) with
  | none => simp [hband] at h
  | some r =>
    obtain ⟨ul, off⟩ := r
    obtain ⟨f1, f2, f3, f4, f5⟩ := arfcnBand_some _ _ ul off hb hb2 hband
    refine ⟨ul.toNat, off.toNat, ?_, ?_, ?_, ?_, ?_, ?_⟩
    · simp only [u16i, if_true]; omega
    · simp only [u16i, u16, Bool.false_eq_true, if_false]; omega
    · omega
    · omega
    · omega
    · omega


/-- ARFCNs in the bands of TS 45.005 as trxcon's scheduler names them: plain numbers, and
512..810 with the PCS flag for PCS 1900 -/
def CanonArfcn (a : Nat) : Prop :=
  a ≤ 124 ∨ (955 ≤ a ∧ a ≤ 1023) ∨ (128 ≤ a ∧ a ≤ 251) ∨ (512 ≤ a ∧ a ≤ 885) ∨ (259 ≤ a ∧ a ≤ 293) ∨
  (306 ≤ a ∧ a ≤ 340) ∨ (350 ≤ a ∧ a ≤ 425) ∨ (438 ≤ a ∧ a ≤ 511) ∨ (32768 + 512 ≤ a ∧ a ≤ 32768 + 810)

instance (a : Nat) : Decidable (CanonArfcn a) := by unfold CanonArfcn; infer_instance

/-- downlink frequency of a canonical ARFCN, in closed form -/
theorem arfcn2freq10_canon (a : Nat) (h : CanonArfcn a) :
    arfcn2freq10 a false =
      if a ≤ 124 then 9350 + 2 * a
      else if 955 ≤ a ∧ a ≤ 1023 then 9350 + 2 * a - 2048
      else if 128 ≤ a ∧ a ≤ 251 then 8692 + 2 * (a - 128)
      else if 512 ≤ a ∧ a ≤ 885 then 18052 + 2 * (a - 512)
      else if 259 ≤ a ∧ a ≤ 293 then 4606 + 2 * (a - 259)
      else if 306 ≤ a ∧ a ≤ 340 then 4890 + 2 * (a - 306)
      else if 350 ≤ a ∧ a ≤ 425 then 8510 + 2 * (a - 350)
      else if 438 ≤ a ∧ a ≤ 511 then 7772 + 2 * (a - 438)
      else 19302 + 2 * (a - 32768 - 512) := by
  have hu : u16 a = a := by unfold CanonArfcn at h; simp only [u16]; omega
  have hm : 65535 - arfcnFlagMask = 4095 := by decide
  simp only [arfcn2freq10, hu, hm, and4095, arfcnPCS, and32768]
  unfold CanonArfcn at h
  by_cases hp : a / 32768 % 2 = 1
  · have e : arfcnBand ((if a / 32768 % 2 = 1 then 32768 else 0) != 0) ((a % 4096 : Nat) : Int)
        = some (18502 + 2 * (((a % 4096 : Nat) : Int) - 512), 800) := by
      simp [arfcnBand, hp]
    rw [e]
    simp only [u16i, u16, Bool.false_eq_true, if_false]
    repeat' split
    all_goals omega
  · have e0 : ((if a / 32768 % 2 = 1 then 32768 else 0) != 0) = false := by simp [hp]
    rw [e0]
    have hmod : a % 4096 = a := by omega
    simp only [arfcnBand, Bool.false_eq_true, if_false, hmod]
    rcases h with h | h | h | h | h | h | h | h | h
    all_goals
      repeat (first | rw [if_pos (by omega)] | rw [if_neg (by omega)])
      simp only [u16i, u16]
      omega


/-- `gsm_freq102arfcn` inverts `gsm_arfcn2freq10` (downlink) on the canonical ARFCNs -/
theorem freq_roundtrip (a : Nat) (h : CanonArfcn a) : freq102arfcn (arfcn2freq10 a false) false = a := by
  have hc := arfcn2freq10_canon a h
  unfold CanonArfcn at h
  rcases h with h | h | h | h | h | h | h | h | h
  all_goals
    (repeat (first | rw [if_pos (by omega)] at hc | rw [if_neg (by omega)] at hc))
    rw [hc]
    simp only [freq102arfcn, freq102arfcn.go, gsmRanges, Bool.false_eq_true, if_false, u16,
      Nat.shiftRight_eq_div_pow, Nat.or_zero]
    (repeat (first | rw [if_pos (by omega)] | rw [if_neg (by omega)]))
  all_goals try omega
  -- PCS: the flag is or-ed in
  rw [Nat.or_two_pow_eq_add_of_lt (n := 15) (by omega)]
  omega

/-! ### FSM / queue plumbing -/

/-- the fields of `Trx` that `fsmChg` / `ctrlSend` leave alone -/
structure SameData (t t' : Trx) : Prop where
  queue : t'.queue = t.queue
  elog : t'.elog = t.elog
  rsp : t'.rsp = t.rsp

theorem fsmChg_ok (t : Trx) (new : Nat) (h : t.state < 4) (hn : new < 4) :
    ∃ t', fsmChg t new = .ok t' ∧ SameData t t' ∧ t'.sent = t.sent ∧ t'.poweredUp = t.poweredUp ∧ t'.state < 4 := by
  have hl : fsmOutMask.length = 4 := by decide
  have hg : fsmOutMask[t.state]? = some (fsmOutMask[t.state]'(by omega)) := List.getElem?_eq_getElem (by omega)
  simp only [fsmChg, hg]
  split
  · exact ⟨_, rfl, ⟨rfl, rfl, rfl⟩, rfl, rfl, hn⟩
  · exact ⟨_, rfl, ⟨rfl, rfl, rfl⟩, rfl, rfl, h⟩

theorem takeWhile_all {p : Nat → Bool} (l : List Nat) (h : ∀ c ∈ l, p c = true) : l.takeWhile p = l := by
  induction l with
  | nil => rfl
  | cons x xs ih =>
    simp only [List.takeWhile_cons, h x (by simp), if_true]
    rw [ih (fun c hc => h c (by simp [hc]))]

theorem cmdStrAt_zero (m : CtrlMsg) (h : ∀ c ∈ m.cmd, c ≠ 0) : cmdStrAt m 0 = m.cmd := by
  simp only [cmdStrAt, List.drop_zero]
  exact takeWhile_all _ (fun c hc => by simpa using h c hc)

theorem ctrlSend_ok (t : Trx) (h : t.state < 4) :
    ∃ t', ctrlSend t = .ok t' ∧ SameData t t' ∧ t'.state < 4 ∧ t'.poweredUp = t.poweredUp ∧
      (t.queue = [] → t'.sent = t.sent) ∧
      (∀ m rest, t.queue = m :: rest → t'.sent = t.sent ++ [cmdStrAt m 0 ++ [0]]) := by
  unfold ctrlSend
  split
  · rename_i hq
    exact ⟨t, rfl, ⟨rfl, rfl, rfl⟩, h, rfl, fun _ => rfl, fun m rest e => by rw [hq] at e; cases e⟩
  · rename_i m rest hq
    simp only [bind, Except.bind, pure, Except.pure]
    by_cases hs : t.state ≠ stRspWait
    · rw [if_pos (by simpa using hs)]
      obtain ⟨t1, h1, sd, hsent, hpu, hst⟩ := fsmChg_ok { t with sent := t.sent ++ [cmdStrAt m 0 ++ [0]], prevState := t.state }
        stRspWait h (by decide)
      rw [h1]
      refine ⟨_, rfl, ⟨sd.queue, sd.elog, sd.rsp⟩, hst, hpu, (fun e => by rw [hq] at e; cases e), ?_⟩
      intro m' rest' e
      rw [hq] at e; injection e with e1 e2; subst e1
      exact hsent
    · rw [if_neg (by simpa using hs)]
      refine ⟨_, rfl, ⟨rfl, rfl, rfl⟩, h, rfl, (fun e => by rw [hq] at e; cases e), ?_⟩
      intro m' rest' e
      rw [hq] at e; injection e with e1 e2; subst e1
      rfl


/-- the text `trx_ctrl_cmd` builds when nothing is cut off -/
def cmdText (verb : List Nat) (args : Option (List Nat)) : List Nat :=
  match args with
  | some a => str "CMD " ++ verb ++ [32] ++ a
  | none => str "CMD " ++ verb

theorem ctrlCmd_ok (t : Trx) (crit : Int) (verb : List Nat) (args : Option (List Nat)) (hst : t.state < 4)
    (hfit : (cmdText verb args).length + 2 ≤ cmdSize) :
    ∃ t', ctrlCmd t crit verb args = .ok (0, t') ∧
      t'.queue = t.queue ++ [⟨cmdText verb args, crit, verb.length⟩] ∧ t'.state < 4 ∧ t'.elog = t.elog ∧
      (t.queue = [] → t'.sent = t.sent ++ [cmdStrAt ⟨cmdText verb args, crit, verb.length⟩ 0 ++ [0]]) ∧
      (t.queue ≠ [] → t'.sent = t.sent) := by
  have htext : ctrlCmdText verb args = .ok (cmdText verb args) := by
    unfold ctrlCmdText
    cases args with
    | none =>
      simp only [cmdText] at hfit ⊢
      simp only [snprintfStored]
      rw [List.take_of_length_le (by omega)]
    | some a =>
      simp only [cmdText, List.length_append] at hfit
      simp only [cmdText, snprintfStored]
      rw [if_neg (by simp only [List.length_append]; omega)]
      rw [List.take_of_length_le (by simp only [List.length_append]; omega),
        List.take_of_length_le (by simp only [List.length_append]; omega)]
  unfold ctrlCmd
  simp only [htext, bind, Except.bind, pure, Except.pure]
  by_cases hq : t.queue = []
  · have hp : (!t.queue.isEmpty) = false := by simp [hq]
    simp only [hp, Bool.not_false, if_true]
    obtain ⟨t1, h1, sd, hs1, hpu, hnil, hcons⟩ := ctrlSend_ok
      { t with queue := t.queue ++ [⟨cmdText verb args, crit, verb.length⟩] } hst
    rw [h1]
    refine ⟨t1, rfl, sd.queue, hs1, sd.elog, ?_, fun h => absurd hq h⟩
    intro _
    have := hcons ⟨cmdText verb args, crit, verb.length⟩ [] (by simp [hq])
    exact this
  · have hp : (!t.queue.isEmpty) = true := by
      cases hq' : t.queue with
      | nil => exact absurd hq' hq
      | cons => rfl
    simp only [hp, Bool.not_true, Bool.false_eq_true, if_false]
    exact ⟨_, rfl, rfl, hst, rfl, fun h => absurd h hq, fun _ => rfl⟩

end OsmoVerif.TrxconIf
