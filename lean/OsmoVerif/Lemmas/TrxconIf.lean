/- Helper lemmas for `Model.TrxconIf` (C04 / C05 / C14, trxcon side).  Core Lean only. -/
import OsmoVerif.Model.TrxconIf
import OsmoVerif.Spec.TrxdLayout

namespace OsmoVerif.TrxconIf
open OsmoVerif.Gen.Trxcon OsmoVerif.Spec.TrxdLayout

/-! ### bit operations as arithmetic -/

theorem and255 (x : Nat) : x &&& 255 = x % 256 := Nat.and_two_pow_sub_one_eq_mod x 8
theorem and7 (x : Nat) : x &&& 7 = x % 8 := Nat.and_two_pow_sub_one_eq_mod x 3
theorem and4095 (x : Nat) : x &&& 4095 = x % 4096 := Nat.and_two_pow_sub_one_eq_mod x 12

theorem or_low (i a b : Nat) (h : b < 2 ^ i) : 2 ^ i * a ||| b = 2 ^ i * a + b :=
  (Nat.two_pow_add_eq_or_of_lt h a).symm

/-- `osmo_load32be` of four octets -/
theorem or4 (a b c d : Nat) (ha : a < 256) (hb : b < 256) (hc : c < 256) (hd : d < 256) :
    u32 (a * 16777216) ||| u32 (b * 65536) ||| u32 (c * 256) ||| d
      = 16777216 * a + 65536 * b + 256 * c + d := by
  have e1 : u32 (a * 16777216) = 2 ^ 24 * a := by simp only [u32]; omega
  have e2 : u32 (b * 65536) = 65536 * b := by simp only [u32]; omega
  have e3 : u32 (c * 256) = 256 * c := by simp only [u32]; omega
  rw [e1, e2, e3, or_low 24 a (65536 * b) (by omega)]
  have f1 : 2 ^ 24 * a + 65536 * b = 2 ^ 16 * (256 * a + b) := by omega
  rw [f1, or_low 16 _ (256 * c) (by omega)]
  have f2 : 2 ^ 16 * (256 * a + b) + 256 * c = 2 ^ 8 * (65536 * a + 256 * b + c) := by omega
  rw [f2, or_low 8 _ d (by omega)]

theorem store32be_eq (x : Nat) : store32be x = [x / 16777216 % 256, x / 65536 % 256, x / 256 % 256, x % 256] := by
  simp only [store32be, and255, Nat.shiftRight_eq_div_pow]

/-! ### checked buffer access -/

theorem rd_ok {mem : List Nat} {cap i b : Nat} (h : mem[i]? = some b) (hc : i < cap) : rd mem cap i = .ok b := by
  simp only [rd, h]
  split
  · omega
  · rfl

theorem rd_lt {mem : List Nat} {cap i : Nat} (h : i < mem.length) (hc : mem.length ≤ cap) :
    rd mem cap i = .ok mem[i] := by
  apply rd_ok _ (by omega)
  exact List.getElem?_eq_getElem h

/-- the ubit→sbit loop over `pre ++ xs ++ post`, started at the first octet of `xs` -/
theorem convLoop_append (cap : Nat) (xs : List Nat) : ∀ (pre post : List Nat) (i : Nat),
    pre.length = 8 + i → pre.length + xs.length ≤ cap →
    convLoop cap (pre ++ xs ++ post) i xs.length = .ok (pre ++ xs.map sbitOctet ++ post) := by
  induction xs with
  | nil => intro pre post i _ _; simp [convLoop]
  | cons x xs ih =>
    intro pre post i hp hc
    simp only [List.length_cons] at hc
    have hrd : rd (pre ++ x :: xs ++ post) cap (8 + i) = .ok x := by
      apply rd_ok _ (by omega)
      rw [List.append_assoc, List.getElem?_append_right (by omega)]
      simp [hp]
    have hwr : wr (pre ++ x :: xs ++ post) cap (8 + i) (sbitOctet x)
        = .ok ((pre ++ [sbitOctet x]) ++ xs ++ post) := by
      simp only [wr]
      rw [if_neg (by omega), if_pos (by simp; omega)]
      rw [List.append_assoc, List.set_append_right _ _ (by omega)]
      simp [hp]
    simp only [List.length_cons, convLoop, hrd, hwr, bind, Except.bind]
    have := ih (pre ++ [sbitOctet x]) post (i + 1) (by simp; omega) (by simp; omega)
    rw [this]
    simp

theorem readBurst_append (cap : Nat) (ys : List Nat) : ∀ (pre post : List Nat) (i : Nat),
    pre.length = 8 + i → pre.length + ys.length ≤ cap →
    readBurst cap (pre ++ ys ++ post) i ys.length = .ok (ys.map s8) := by
  induction ys with
  | nil => intro pre post i _ _; simp [readBurst]
  | cons y ys ih =>
    intro pre post i hp hc
    simp only [List.length_cons] at hc
    have hrd : rd (pre ++ y :: ys ++ post) cap (8 + i) = .ok y := by
      apply rd_ok _ (by omega)
      rw [List.append_assoc, List.getElem?_append_right (by omega)]
      simp [hp]
    have e : pre ++ y :: ys ++ post = (pre ++ [y]) ++ ys ++ post := by simp
    have := ih (pre ++ [y]) post (i + 1) (by simp; omega) (by simp; omega)
    simp only [List.length_cons, readBurst, hrd, bind, Except.bind]
    rw [e, this]
    simp [pure, Except.pure]

/-- any buffer with at least `8 + i + n` initialised octets splits as `pre ++ xs ++ post` -/
theorem split3 (mem : List Nat) (k n : Nat) (h : k + n ≤ mem.length) :
    mem = mem.take k ++ (mem.drop k).take n ++ mem.drop (k + n) ∧ (mem.take k).length = k ∧
      ((mem.drop k).take n).length = n := by
  refine ⟨?_, ?_, ?_⟩
  · rw [List.append_assoc, ← List.drop_drop, List.take_append_drop, List.take_append_drop]
  · simp; omega
  · simp; omega

/-! ### `trx_data_rx_cb` never faults -/

theorem load32be_ok (buf : List Nat) (cap off : Nat) (h : off + 3 < buf.length) (hc : buf.length ≤ cap) :
    ∃ v, load32be buf cap off = .ok v := by
  simp only [load32be, rd_lt (show off < buf.length by omega) hc, rd_lt (show off + 1 < buf.length by omega) hc,
    rd_lt (show off + 2 < buf.length by omega) hc, rd_lt h hc, bind, Except.bind, pure, Except.pure]
  exact ⟨_, rfl⟩

theorem convLoop_ok (cap : Nat) (mem : List Nat) (i n : Nat) (h : 8 + i + n ≤ mem.length) (hc : mem.length ≤ cap) :
    ∃ mem', convLoop cap mem i n = .ok mem' ∧ mem'.length = mem.length := by
  obtain ⟨e, l1, l2⟩ := split3 mem (8 + i) n (by omega)
  have := convLoop_append cap ((mem.drop (8 + i)).take n) (mem.take (8 + i)) (mem.drop (8 + i + n)) i l1 (by omega)
  rw [l2, ← e] at this
  refine ⟨_, this, ?_⟩
  simp; omega

theorem readBurst_ok (cap : Nat) (mem : List Nat) (i n : Nat) (h : 8 + i + n ≤ mem.length) (hc : mem.length ≤ cap) :
    ∃ b, readBurst cap mem i n = .ok b := by
  obtain ⟨e, l1, l2⟩ := split3 mem (8 + i) n (by omega)
  have := readBurst_append cap ((mem.drop (8 + i)).take n) (mem.take (8 + i)) (mem.drop (8 + i + n)) i l1 (by omega)
  rw [l2, ← e] at this
  exact ⟨_, this⟩

/-- what `trx_data_rx_cb` can come to: a return code without indication, or the two indications -/
def RxOut.noFault : RxOut → Prop
  | .fault _ => False
  | _ => True

theorem cRxInd_ok (buf : List Nat) (adv b0 n : Nat) (h : 8 + n ≤ buf.length) (hc : buf.length ≤ trxdBufSize) :
    ∃ o, cRxInd buf adv b0 n = .ok o ∧ o.noFault := by
  obtain ⟨fn, hfn⟩ := load32be_ok buf trxdBufSize 1 (by omega) hc
  obtain ⟨mem, hm, hl⟩ := convLoop_ok trxdBufSize buf 0 n (by omega) hc
  obtain ⟨b, hb⟩ := readBurst_ok trxdBufSize mem 0 n (by omega) (by omega)
  simp only [cRxInd, hfn, rd_lt (show 5 < buf.length by omega) hc, rd_lt (show 6 < buf.length by omega) hc,
    rd_lt (show 7 < buf.length by omega) hc, hm, hb, bind, Except.bind, pure, Except.pure]
  split
  · exact ⟨_, rfl, trivial⟩
  · exact ⟨_, rfl, trivial⟩

theorem burstLenSwitch_le (rl n : Nat) (h : burstLenSwitch rl = some n) : n ≤ rl := by
  simp only [burstLenSwitch] at h
  split at h
  · injection h; omega
  · split at h
    · injection h; omega
    · cases h

theorem cRxBody_ok (buf : List Nat) (adv : Nat) (h8 : trxdv0HdrLen ≤ buf.length) (hc : buf.length ≤ trxdBufSize) :
    ∃ o, cRxBody buf adv = .ok o ∧ o.noFault := by
  have hh : trxdv0HdrLen = 8 := by decide
  rw [hh] at h8
  simp only [cRxBody, rd_lt (show 0 < buf.length by omega) hc, bind, Except.bind, pure, Except.pure, hh]
  split
  · exact ⟨_, rfl, trivial⟩
  · split
    · exact ⟨_, rfl, trivial⟩
    · rename_i n hn
      exact cRxInd_ok buf adv _ n (by have := burstLenSwitch_le _ _ hn; omega) hc

theorem cRx_noFault (d : List Nat) (adv : Nat) : (cRx d adv).noFault := by
  simp only [cRx]
  split
  · trivial
  · split
    · trivial
    · rename_i h0 h8
      obtain ⟨o, ho, hn⟩ := cRxBody_ok (d.take trxdBufSize) adv (by omega) (by simp; omega)
      rw [ho]; exact hn
/-! ### field conversions of `trx_data_rx_cb` against the layout -/

/-- `.rssi = -(int8_t) buf[5]` recovers the RSSI from the octet −RSSI exactly for −128..0 -/
theorem rssi_decode (r : Int) (h1 : -128 ≤ r) (h2 : r ≤ 0) : s8i (-(s8 (-r).toNat)) = r := by
  simp only [s8i, s8]
  split <;> split <;> omega

/-- octets 129..255 decode to a positive value -/
theorem rssi_decode_out (b : Nat) (h1 : 129 ≤ b) (h2 : b ≤ 255) : s8i (-(s8 b)) = 256 - (b : Int) := by
  simp only [s8i, s8]
  split <;> split <;> omega

theorem toa_decode (u : Nat) (h : u < 65536) :
    s16i (orInt (s16 ((u / 256) <<< 8)) ((u % 256 : Nat) : Int)) = s16 u := by
  rw [Nat.shiftLeft_eq]
  by_cases hn : u / 256 < 128
  · have e1 : s16 (u / 256 * 2 ^ 8) = ((2 ^ 8 * (u / 256) : Nat) : Int) := by
      simp only [s16]; split <;> omega
    have e2 : u32i ((2 ^ 8 * (u / 256) : Nat) : Int) = 2 ^ 8 * (u / 256) := by simp only [u32i]; omega
    have e3 : u32i ((u % 256 : Nat) : Int) = u % 256 := by simp only [u32i]; omega
    rw [e1]; simp only [orInt]; rw [e2, e3, or_low 8 _ _ (by omega)]
    simp only [s16i, s32, s16]
    split <;> split <;> split <;> omega
  · have e1 : s16 (u / 256 * 2 ^ 8) = ((2 ^ 8 * (u / 256) : Nat) : Int) - 65536 := by
      simp only [s16]; split <;> omega
    have e2 : u32i (((2 ^ 8 * (u / 256) : Nat) : Int) - 65536) = 2 ^ 8 * (16776960 + u / 256) := by
      simp only [u32i]; omega
    have e3 : u32i ((u % 256 : Nat) : Int) = u % 256 := by simp only [u32i]; omega
    rw [e1]; simp only [orInt]; rw [e2, e3, or_low 8 _ _ (by omega)]
    simp only [s16i, s32, s16]
    split <;> split <;> split <;> omega

theorem s16_s16be (x : Int) (h1 : -32768 ≤ x) (h2 : x ≤ 32767) : s16 (x % 65536).toNat = x := by
  simp only [s16]; split <;> omega

theorem soft_decode (s : Int) (h1 : -127 ≤ s) (h2 : s ≤ 127) : s8 (sbitOctet (softOctet s)) = s := by
  have hne : (127 - s).toNat ≠ 255 := by omega
  simp only [softOctet, sbitOctet, s8, u8, hne, if_false]
  split <;> omega

theorem soft_decode_list (soft : List Int) (h : ∀ s ∈ soft, -127 ≤ s ∧ s ≤ 127) :
    ((soft.map softOctet).map sbitOctet).map s8 = soft := by
  induction soft with
  | nil => rfl
  | cons s t ih =>
    simp only [List.map_cons, List.cons.injEq]
    exact ⟨soft_decode s (h s (by simp)).1 (h s (by simp)).2, ih (fun x hx => h x (by simp [hx]))⟩

/-- the version-0 TRX→L1 layout is header (8 octets), soft bits, optional padding -/
theorem layoutRx_v0 (m : RxFields) (legacy : Bool) (soft : List Int) (hv : m.ver = 0) (hs : m.soft = some soft) :
    layoutRx m legacy =
      [m.tn, m.fn / 16777216 % 256, m.fn / 65536 % 256, m.fn / 256 % 256, m.fn % 256, (-m.rssi).toNat,
        (m.toa256 % 65536).toNat / 256, (m.toa256 % 65536).toNat % 256]
      ++ soft.map softOctet ++ (if legacy then [0, 0] else []) := by
  simp only [layoutRx, hdr, be32, s16be, pad, hv, hs]
  cases legacy <;> simp

theorem cRxInd_layout (pre : List Nat) (soft : List Int) (post : List Nat) (adv : Nat)
    (tn fn : Nat) (rssi toa : Int)
    (hpre : pre = [tn, fn / 16777216 % 256, fn / 65536 % 256, fn / 256 % 256, fn % 256, (-rssi).toNat,
        (toa % 65536).toNat / 256, (toa % 65536).toNat % 256])
    (htn : tn < 8) (hfn : fn < 2715648) (hr : -128 ≤ rssi ∧ rssi ≤ 0) (ht : -32768 ≤ toa ∧ toa ≤ 32767)
    (hb : ∀ s ∈ soft, -127 ≤ s ∧ s ≤ 127) (hlen : 8 + soft.length + post.length ≤ 512) :
    cRxInd (pre ++ soft.map softOctet ++ post) adv tn soft.length
      = .ok (.ind ⟨tn, fn, rssi, toa, soft⟩ ⟨u32 (fn + u32 adv) % 2715648, tn⟩) := by
  have hcap : trxdBufSize = 512 := by decide
  have hH : gsmTdmaHyperframe = 2715648 := by decide
  have hpl : pre.length = 8 := by rw [hpre]; rfl
  have hrd : ∀ i (hi : i < 8), rd (pre ++ soft.map softOctet ++ post) 512 i = .ok (pre[i]'(by omega)) := by
    intro i hi
    apply rd_ok _ (by omega)
    rw [List.append_assoc, List.getElem?_append_left (by omega)]
    exact List.getElem?_eq_getElem (by omega)
  have hl32 : load32be (pre ++ soft.map softOctet ++ post) 512 1 = .ok fn := by
    simp only [load32be, hrd 1 (by omega), hrd 2 (by omega), hrd 3 (by omega), hrd 4 (by omega), bind, Except.bind,
      pure, Except.pure]
    subst hpre
    simp only [List.getElem_cons_succ, List.getElem_cons_zero]
    rw [or4 _ _ _ _ (by omega) (by omega) (by omega) (by omega)]
    congr 1; omega
  have hconv := convLoop_append 512 (soft.map softOctet) pre post 0 (by omega) (by simp; omega)
  have hread := readBurst_append 512 ((soft.map softOctet).map sbitOctet) pre post 0 (by omega) (by simp; omega)
  simp only [List.length_map] at hconv hread
  simp only [cRxInd, hcap, hH, hl32, hrd 5 (by omega), hrd 6 (by omega), hrd 7 (by omega), hconv, hread, bind,
    Except.bind, pure, Except.pure]
  subst hpre
  simp only [List.getElem_cons_succ, List.getElem_cons_zero]
  rw [if_neg (by omega), toa_decode _ (by omega), rssi_decode _ hr.1 hr.2, s16_s16be _ ht.1 ht.2,
    soft_decode_list _ hb, and7, Nat.mod_eq_of_lt htn]

/-! ### decimal printing and scanning -/

theorem isDigit_iff (c : Nat) : isDigit c = true ↔ 48 ≤ c ∧ c ≤ 57 := by
  simp [isDigit]

theorem decFuel_digits : ∀ (f n : Nat), ∀ c ∈ decFuel f n, isDigit c = true := by
  intro f
  induction f with
  | zero => intro n c hc; simp [decFuel] at hc
  | succ f ih =>
    intro n c hc
    simp only [decFuel] at hc
    split at hc
    · simp only [List.mem_singleton] at hc; subst hc; rw [isDigit_iff]; omega
    · simp only [List.mem_append, List.mem_singleton] at hc
      rcases hc with hc | hc
      · exact ih _ c hc
      · subst hc; rw [isDigit_iff]; omega

theorem decFuel_ne_nil (f n : Nat) : decFuel (f + 1) n ≠ [] := by
  simp only [decFuel]; split <;> simp

/-- exact number of digits -/
theorem decFuel_length : ∀ (k f n : Nat), k ≤ f → 10 ^ k ≤ n → n < 10 ^ (k + 1) → (decFuel (f + 1) n).length = k + 1 := by
  intro k
  induction k with
  | zero => intro f n _ h1 h2; simp only [decFuel]; rw [if_pos (by omega)]; rfl
  | succ k ih =>
    intro f n hf h1 h2
    obtain ⟨f', rfl⟩ : ∃ f', f = f' + 1 := ⟨f - 1, by omega⟩
    have h10 : ¬ n < 10 := by
      have : 10 ^ (k + 1) ≥ 10 := by
        have := Nat.pow_le_pow_right (show 10 > 0 by omega) (show 1 ≤ k + 1 by omega)
        omega
      omega
    rw [decFuel, if_neg h10, List.length_append, List.length_singleton]
    have p1 : 10 ^ (k + 1) = 10 * 10 ^ k := by rw [Nat.pow_succ]; omega
    have p2 : 10 ^ (k + 1 + 1) = 10 * 10 ^ (k + 1) := by rw [Nat.pow_succ]; omega
    rw [ih f' (n / 10) (by omega) (by omega) (by omega)]

theorem decFuel_length_small (f n : Nat) (h : n < 10) : (decFuel (f + 1) n).length = 1 := by
  simp only [decFuel]; rw [if_pos h]; rfl

/-- at most `k` digits below `10^k` -/
theorem decFuel_length_le : ∀ (k f n : Nat), 1 ≤ k → k ≤ f → n < 10 ^ k → (decFuel f n).length ≤ k := by
  intro k
  induction k with
  | zero => intro f n h; omega
  | succ k ih =>
    intro f n _ hf h2
    obtain ⟨f', rfl⟩ : ∃ f', f = f' + 1 := ⟨f - 1, by omega⟩
    simp only [decFuel]
    split
    · simp
    · rename_i h10
      have p2 : 10 ^ (k + 1) = 10 * 10 ^ k := by rw [Nat.pow_succ]; omega
      have hk : 1 ≤ k := by
        rcases Nat.eq_zero_or_pos k with h | h
        · subst h; simp at h2; omega
        · exact h
      have := ih f' (n / 10) hk (by omega) (by omega)
      simp only [List.length_append, List.length_singleton]; omega

/-- scanning the printed digits of `n` continues behind them with the accumulated value -/
theorem scanDigits_decFuel : ∀ (f n : Nat) (rest : List Nat) (acc : Nat), n < 10 ^ f →
    scanDigits (decFuel f n ++ rest) acc = scanDigits rest (acc * 10 ^ (decFuel f n).length + n) := by
  intro f
  induction f with
  | zero => intro n rest acc h; simp at h; subst h; simp [decFuel]
  | succ f ih =>
    intro n rest acc h
    simp only [decFuel]
    split
    · rename_i h10
      have hd : isDigit (48 + n) = true := by rw [isDigit_iff]; omega
      simp only [List.singleton_append, scanDigits, hd, if_true, List.length_singleton]
      congr 1; omega
    · rename_i h10
      have p2 : 10 ^ (f + 1) = 10 * 10 ^ f := by rw [Nat.pow_succ]; omega
      rw [List.append_assoc, ih (n / 10) _ acc (by omega)]
      have hd : isDigit (48 + n % 10) = true := by rw [isDigit_iff]; omega
      simp only [List.singleton_append, scanDigits, hd, if_true, List.length_append, List.length_singleton]
      congr 1
      rw [Nat.pow_succ]
      have : 48 + n % 10 - 48 = n % 10 := by omega
      rw [this, Nat.mul_add, ← Nat.mul_assoc, Nat.mul_comm 10 acc]
      have e : 10 * (n / 10) + n % 10 = n := by omega
      rw [Nat.mul_assoc, Nat.mul_comm 10 (10 ^ _)]
      omega

/-- the text does not go on with a digit -/
def NoDigitHead (rest : List Nat) : Prop := ∀ c t, rest = c :: t → isDigit c = false

theorem noDigitHead_nil : NoDigitHead [] := by intro c t h; cases h
theorem noDigitHead_cons (c : Nat) (t : List Nat) (h : isDigit c = false) : NoDigitHead (c :: t) := by
  intro c' t' e; injection e with e1 _; subst e1; exact h

theorem scanDigits_stop (rest : List Nat) (acc : Nat) (h : NoDigitHead rest) : scanDigits rest acc = (acc, rest) := by
  cases rest with
  | nil => rfl
  | cons c t => simp only [scanDigits, h c t rfl]; rfl

theorem scanSign_digit (c : Nat) (t : List Nat) (h : isDigit c = true) : scanSign (c :: t) = (false, c :: t) := by
  rw [isDigit_iff] at h
  unfold scanSign
  split
  · rename_i e; injection e with e1 _; omega
  · rename_i e; injection e with e1 _; omega
  · rfl

theorem isSpace_digit (c : Nat) (h : isDigit c = true) : isSpace c = false := by
  rw [isDigit_iff] at h
  simp only [isSpace, Bool.or_eq_false_iff, beq_eq_false_iff_ne, Bool.and_eq_false_iff, decide_eq_false_iff_not]
  omega

/-- scanning printed digits (`f ≥ 1` places) -/
theorem scanNum_dec (f n : Nat) (rest : List Nat) (h : n < 10 ^ (f + 1)) (hr : NoDigitHead rest) :
    scanNum (decFuel (f + 1) n ++ rest) = some (false, n, rest) := by
  have hne := decFuel_ne_nil f n
  have hsd := scanDigits_decFuel (f + 1) n rest 0 h
  have hdig := decFuel_digits (f + 1) n
  cases hd : decFuel (f + 1) n with
  | nil => exact absurd hd hne
  | cons c cs =>
    rw [hd] at hsd hdig
    have hc : isDigit c = true := hdig c (by simp)
    simp only [List.cons_append] at hsd
    simp only [scanNum, List.cons_append, List.dropWhile_cons, isSpace_digit c hc, Bool.false_eq_true, if_false]
    rw [scanSign_digit c (cs ++ rest) hc]
    simp only [hc, if_true, hsd, Nat.zero_mul, Nat.zero_add, scanDigits_stop rest n hr]

theorem scanNum_neg (f n : Nat) (rest : List Nat) (h : n < 10 ^ (f + 1)) (hr : NoDigitHead rest) :
    scanNum (45 :: decFuel (f + 1) n ++ rest) = some (true, n, rest) := by
  have hne := decFuel_ne_nil f n
  have hsd := scanDigits_decFuel (f + 1) n rest 0 h
  have hdig := decFuel_digits (f + 1) n
  cases hd : decFuel (f + 1) n with
  | nil => exact absurd hd hne
  | cons c cs =>
    rw [hd] at hsd hdig
    have hc : isDigit c = true := hdig c (by simp)
    have hs45 : isSpace 45 = false := by decide
    simp only [List.cons_append] at hsd
    simp only [scanNum, List.cons_append, List.dropWhile_cons, hs45, Bool.false_eq_true, if_false, scanSign]
    simp only [hc, if_true, hsd, Nat.zero_mul, Nat.zero_add, scanDigits_stop rest n hr]

/-- white space in front is skipped -/
theorem scanNum_space (s : List Nat) : scanNum (32 :: s) = scanNum s := by
  have : isSpace 32 = true := by decide
  simp only [scanNum, List.dropWhile_cons, this, if_true]

theorem fmtD_first (x : Int) : ∃ c t, fmtD x = c :: t ∧ isSpace c = false := by
  simp only [fmtD]
  split
  · exact ⟨45, _, rfl, by decide⟩
  · have hne := decFuel_ne_nil 9 (s32i x).toNat
    have hdig := decFuel_digits 10 (s32i x).toNat
    cases hd : decFuel 10 (s32i x).toNat with
    | nil => exact absurd hd hne
    | cons c cs => rw [hd] at hdig; exact ⟨c, cs, rfl, isSpace_digit c (hdig c (by simp))⟩

theorem s32i_id (x : Int) (h1 : -2147483648 ≤ x) (h2 : x ≤ 2147483647) : s32i x = x := by
  simp only [s32i, s32]; split <;> omega

/-- `sscanf("%d")` of a printed `int` (`%d`) returns it -/
theorem sscanfD_fmtD (x : Int) (rest : List Nat) (h1 : -2147483648 ≤ x) (h2 : x ≤ 2147483647)
    (hr : NoDigitHead rest) : sscanfD (fmtD x ++ rest) = some x := by
  simp only [sscanfD, fmtD, s32i_id x h1 h2]
  by_cases hneg : x < 0
  · rw [if_pos hneg, scanNum_neg 9 x.natAbs rest (by omega) hr]
    simp only [valD, if_true]
    rw [if_neg (by omega)]
    rw [s32i_id _ (by omega) (by omega)]; congr 1; omega
  · rw [if_neg hneg, scanNum_dec 9 x.toNat rest (by omega) hr]
    simp only [valD, Bool.false_eq_true, if_false]
    rw [if_neg (by omega)]
    rw [s32i_id _ (by omega) (by omega)]; congr 1; omega

/-- `sscanf("%u %d")` of `"<%u> <%d>"` returns both -/
theorem sscanfUD_fmt (a : Nat) (b : Int) (rest : List Nat) (ha : a < 4294967296)
    (h1 : -2147483648 ≤ b) (h2 : b ≤ 2147483647) (hr : NoDigitHead rest) :
    sscanfUD (fmtU a ++ [32] ++ fmtD b ++ rest) = some (a, b) := by
  have hu : u32 a = a := by simp only [u32]; omega
  have hsp : NoDigitHead ([32] ++ fmtD b ++ rest) := by
    simp only [List.cons_append]; exact noDigitHead_cons 32 _ (by decide)
  have hD := sscanfD_fmtD b rest h1 h2 hr
  simp only [sscanfD] at hD
  simp only [sscanfUD, fmtU, hu, List.append_assoc]
  rw [scanNum_dec 9 a _ (by omega) (by simpa using hsp)]
  simp only [List.singleton_append, scanNum_space]
  cases hs : scanNum (fmtD b ++ rest) with
  | none => rw [hs] at hD; cases hD
  | some r =>
    obtain ⟨neg, m, rr⟩ := r
    rw [hs] at hD
    simp only [Option.some.injEq] at hD
    simp only [hD, valU]
    rw [if_neg (by omega)]
    simp only [Bool.false_eq_true, if_false, u32]
    congr 2

/-! ### ARFCN ↔ frequency -/

theorem and_two_pow' (x n : Nat) : x &&& 2 ^ n = if x / 2 ^ n % 2 = 1 then 2 ^ n else 0 := by
  apply Nat.eq_of_testBit_eq
  intro j
  rw [Nat.testBit_and, Nat.testBit_two_pow]
  by_cases h : n = j
  · subst h
    by_cases hx : x / 2 ^ n % 2 = 1
    · have : 2 ^ n / 2 ^ n = 1 := Nat.div_self (Nat.two_pow_pos n)
      simp [hx, Nat.testBit_eq_decide_div_mod_eq, this]
    · simp [hx, Nat.testBit_eq_decide_div_mod_eq]
  · by_cases hx : x / 2 ^ n % 2 = 1
    · simp [hx, h, Nat.testBit_two_pow_of_ne h]
    · simp [hx, h]

theorem and32768 (x : Nat) : x &&& 32768 = if x / 32768 % 2 = 1 then 32768 else 0 := and_two_pow' x 15

/-- what the band chain yields for a 12 bit ARFCN -/
theorem arfcnBand_some (pcs : Bool) (a ul off : Int) (h0 : 0 ≤ a) (h1 : a ≤ 4095)
    (h : arfcnBand pcs a = some (ul, off)) :
    4506 ≤ ul ∧ ul + off ≤ 26468 ∧ 100 ≤ off ∧ off ≤ 950 ∧
    ((ul < 10000 ∧ ul + off < 10000) ∨ (10000 ≤ ul)) := by
  unfold arfcnBand at h
  repeat' split at h
  all_goals (cases h; try omega)

/-- an ARFCN for which `gsm_arfcn2freq10` does not answer 0xffff -/
def ValidArfcn (a : Nat) : Prop := arfcn2freq10 a false ≠ 65535

instance (a : Nat) : Decidable (ValidArfcn a) := by unfold ValidArfcn; infer_instance

/-- both directions are defined together; both frequencies have the same number of digits -/
theorem arfcn2freq10_valid (a : Nat) (h : ValidArfcn a) :
    ∃ ul off : Nat, arfcn2freq10 a true = ul ∧ arfcn2freq10 a false = ul + off ∧ 4506 ≤ ul ∧ ul + off ≤ 26468 ∧
      100 ≤ off ∧ ((ul < 10000 ∧ ul + off < 10000) ∨ 10000 ≤ ul) := by
  unfold ValidArfcn at h
  simp only [arfcn2freq10] at h ⊢
  have hb : (0 : Int) ≤ ((u16 a &&& (65535 - arfcnFlagMask) : Nat) : Int) := by omega
  have hb2 : ((u16 a &&& (65535 - arfcnFlagMask) : Nat) : Int) ≤ 4095 := by
    have : 65535 - arfcnFlagMask = 4095 := by decide
    rw [this, and4095]; omega
  cases hband : arfcnBand ((u16 a &&& arfcnPCS) != 0) ((u16 a &&& (65535 - arfcnFlagMask) : Nat) : Int) with
  | none => simp [hband] at h
  | some r =>
    obtain ⟨ul, off⟩ := r
    obtain ⟨f1, f2, f3, f4, f5⟩ := arfcnBand_some _ _ ul off hb hb2 hband
    refine ⟨ul.toNat, off.toNat, ?_, ?_, ?_, ?_, ?_, ?_⟩
    · simp only [u16i, if_true]; omega
    · simp only [u16i, u16, Bool.false_eq_true, if_false]; omega
    · omega
    · omega
    · omega
    · omega


/-- ARFCNs in the bands of TS 45.005 as trxcon's scheduler names them: plain numbers, and
512..810 with the PCS flag for PCS 1900 -/
def CanonArfcn (a : Nat) : Prop :=
  a ≤ 124 ∨ (955 ≤ a ∧ a ≤ 1023) ∨ (128 ≤ a ∧ a ≤ 251) ∨ (512 ≤ a ∧ a ≤ 885) ∨ (259 ≤ a ∧ a ≤ 293) ∨
  (306 ≤ a ∧ a ≤ 340) ∨ (350 ≤ a ∧ a ≤ 425) ∨ (438 ≤ a ∧ a ≤ 511) ∨ (32768 + 512 ≤ a ∧ a ≤ 32768 + 810)

instance (a : Nat) : Decidable (CanonArfcn a) := by unfold CanonArfcn; infer_instance

/-- downlink frequency of a canonical ARFCN, in closed form -/
theorem arfcn2freq10_canon (a : Nat) (h : CanonArfcn a) :
    arfcn2freq10 a false =
      if a ≤ 124 then 9350 + 2 * a
      else if 955 ≤ a ∧ a ≤ 1023 then 9350 + 2 * a - 2048
      else if 128 ≤ a ∧ a ≤ 251 then 8692 + 2 * (a - 128)
      else if 512 ≤ a ∧ a ≤ 885 then 18052 + 2 * (a - 512)
      else if 259 ≤ a ∧ a ≤ 293 then 4606 + 2 * (a - 259)
      else if 306 ≤ a ∧ a ≤ 340 then 4890 + 2 * (a - 306)
      else if 350 ≤ a ∧ a ≤ 425 then 8510 + 2 * (a - 350)
      else if 438 ≤ a ∧ a ≤ 511 then 7772 + 2 * (a - 438)
      else 19302 + 2 * (a - 32768 - 512) := by
  have hu : u16 a = a := by unfold CanonArfcn at h; simp only [u16]; omega
  have hm : 65535 - arfcnFlagMask = 4095 := by decide
  simp only [arfcn2freq10, hu, hm, and4095, arfcnPCS, and32768]
  unfold CanonArfcn at h
  by_cases hp : a / 32768 % 2 = 1
  · have e : arfcnBand ((if a / 32768 % 2 = 1 then 32768 else 0) != 0) ((a % 4096 : Nat) : Int)
        = some (18502 + 2 * (((a % 4096 : Nat) : Int) - 512), 800) := by
      simp [arfcnBand, hp]
    rw [e]
    simp only [u16i, u16, Bool.false_eq_true, if_false]
    repeat' split
    all_goals omega
  · have e0 : ((if a / 32768 % 2 = 1 then 32768 else 0) != 0) = false := by simp [hp]
    rw [e0]
    have hmod : a % 4096 = a := by omega
    simp only [arfcnBand, Bool.false_eq_true, if_false, hmod]
    rcases h with h | h | h | h | h | h | h | h | h
    all_goals
      repeat (first | rw [if_pos (by omega)] | rw [if_neg (by omega)])
      simp only [u16i, u16]
      omega


/-- `gsm_freq102arfcn` inverts `gsm_arfcn2freq10` (downlink) on the canonical ARFCNs -/
theorem freq_roundtrip (a : Nat) (h : CanonArfcn a) : freq102arfcn (arfcn2freq10 a false) false = a := by
  have hc := arfcn2freq10_canon a h
  unfold CanonArfcn at h
  rcases h with h | h | h | h | h | h | h | h | h
  all_goals
    (repeat (first | rw [if_pos (by omega)] at hc | rw [if_neg (by omega)] at hc))
    rw [hc]
    simp only [freq102arfcn, freq102arfcn.go, gsmRanges, Bool.false_eq_true, if_false, u16,
      Nat.shiftRight_eq_div_pow, Nat.or_zero]
    (repeat (first | rw [if_pos (by omega)] | rw [if_neg (by omega)]))
  all_goals try omega
  -- PCS: the flag is or-ed in
  rw [Nat.or_two_pow_eq_add_of_lt (n := 15) (by omega)]
  omega

/-! ### FSM / queue plumbing -/

/-- the fields of `Trx` that `fsmChg` / `ctrlSend` leave alone -/
structure SameData (t t' : Trx) : Prop where
  queue : t'.queue = t.queue
  elog : t'.elog = t.elog
  rsp : t'.rsp = t.rsp

theorem fsmChg_ok (t : Trx) (new : Nat) (h : t.state < 4) (hn : new < 4) :
    ∃ t', fsmChg t new = .ok t' ∧ SameData t t' ∧ t'.sent = t.sent ∧ t'.poweredUp = t.poweredUp ∧ t'.state < 4 := by
  have hl : fsmOutMask.length = 4 := by decide
  have hg : fsmOutMask[t.state]? = some (fsmOutMask[t.state]'(by omega)) := List.getElem?_eq_getElem (by omega)
  simp only [fsmChg, hg]
  split
  · exact ⟨_, rfl, ⟨rfl, rfl, rfl⟩, rfl, rfl, hn⟩
  · exact ⟨_, rfl, ⟨rfl, rfl, rfl⟩, rfl, rfl, h⟩

theorem takeWhile_all {p : Nat → Bool} (l : List Nat) (h : ∀ c ∈ l, p c = true) : l.takeWhile p = l := by
  induction l with
  | nil => rfl
  | cons x xs ih =>
    simp only [List.takeWhile_cons, h x (by simp), if_true]
    rw [ih (fun c hc => h c (by simp [hc]))]

theorem cmdStrAt_zero (m : CtrlMsg) (h : ∀ c ∈ m.cmd, c ≠ 0) : cmdStrAt m 0 = m.cmd := by
  simp only [cmdStrAt, List.drop_zero]
  exact takeWhile_all _ (fun c hc => by simpa using h c hc)

theorem ctrlSend_ok (t : Trx) (h : t.state < 4) :
    ∃ t', ctrlSend t = .ok t' ∧ SameData t t' ∧ t'.state < 4 ∧ t'.poweredUp = t.poweredUp ∧
      (t.queue = [] → t'.sent = t.sent) ∧
      (∀ m rest, t.queue = m :: rest → t'.sent = t.sent ++ [cmdStrAt m 0 ++ [0]]) := by
  unfold ctrlSend
  split
  · rename_i hq
    exact ⟨t, rfl, ⟨rfl, rfl, rfl⟩, h, rfl, fun _ => rfl, fun m rest e => by rw [hq] at e; cases e⟩
  · rename_i m rest hq
    simp only [bind, Except.bind, pure, Except.pure]
    by_cases hs : t.state ≠ stRspWait
    · rw [if_pos (by simpa using hs)]
      obtain ⟨t1, h1, sd, hsent, hpu, hst⟩ := fsmChg_ok { t with sent := t.sent ++ [cmdStrAt m 0 ++ [0]], prevState := t.state }
        stRspWait h (by decide)
      rw [h1]
      refine ⟨_, rfl, ⟨sd.queue, sd.elog, sd.rsp⟩, hst, hpu, (fun e => by rw [hq] at e; cases e), ?_⟩
      intro m' rest' e
      rw [hq] at e; injection e with e1 e2; subst e1
      exact hsent
    · rw [if_neg (by simpa using hs)]
      refine ⟨_, rfl, ⟨rfl, rfl, rfl⟩, h, rfl, (fun e => by rw [hq] at e; cases e), ?_⟩
      intro m' rest' e
      rw [hq] at e; injection e with e1 e2; subst e1
      rfl


/-- the text `trx_ctrl_cmd` builds when nothing is cut off -/
def cmdText (verb : List Nat) (args : Option (List Nat)) : List Nat :=
  match args with
  | some a => str "CMD " ++ verb ++ [32] ++ a
  | none => str "CMD " ++ verb

theorem ctrlCmd_ok (t : Trx) (crit : Int) (verb : List Nat) (args : Option (List Nat)) (hst : t.state < 4)
    (hfit : (cmdText verb args).length + 2 ≤ cmdSize) :
    ∃ t', ctrlCmd t crit verb args = .ok (0, t') ∧
      t'.queue = t.queue ++ [⟨cmdText verb args, crit, verb.length⟩] ∧ t'.state < 4 ∧ t'.elog = t.elog ∧
      (t.queue = [] → t'.sent = t.sent ++ [cmdStrAt ⟨cmdText verb args, crit, verb.length⟩ 0 ++ [0]]) ∧
      (t.queue ≠ [] → t'.sent = t.sent) := by
  have htext : ctrlCmdText verb args = .ok (cmdText verb args) := by
    unfold ctrlCmdText
    cases args with
    | none =>
      simp only [cmdText] at hfit ⊢
      simp only [snprintfStored]
      rw [List.take_of_length_le (by omega)]
    | some a =>
      simp only [cmdText, List.length_append] at hfit
      simp only [cmdText, snprintfStored]
      rw [if_neg (by simp only [List.length_append]; omega)]
      rw [List.take_of_length_le (by simp only [List.length_append]; omega),
        List.take_of_length_le (by simp only [List.length_append]; omega)]
  unfold ctrlCmd
  simp only [htext, bind, Except.bind, pure, Except.pure]
  by_cases hq : t.queue = []
  · have hp : (!t.queue.isEmpty) = false := by simp [hq]
    simp only [hp, Bool.not_false, if_true]
    obtain ⟨t1, h1, sd, hs1, hpu, hnil, hcons⟩ := ctrlSend_ok
      { t with queue := t.queue ++ [⟨cmdText verb args, crit, verb.length⟩] } hst
    rw [h1]
    refine ⟨t1, rfl, sd.queue, hs1, sd.elog, ?_, fun h => absurd hq h⟩
    intro _
    have := hcons ⟨cmdText verb args, crit, verb.length⟩ [] (by simp [hq])
    exact this
  · have hp : (!t.queue.isEmpty) = true := by
      cases hq' : t.queue with
      | nil => exact absurd hq' hq
      | cons => rfl
    simp only [hp, Bool.not_true, Bool.false_eq_true, if_false]
    exact ⟨_, rfl, rfl, hst, rfl, fun h => absurd h hq, fun _ => rfl⟩

/-! ### SETFH: the mobile allocation text -/

/-- the pair text of an ARFCN -/
def pairOf (a : Nat) : List Nat := pairText (arfcn2freq10 a false) (arfcn2freq10 a true)

/-- `ma_buf` before the last blank is overwritten -/
def maText (ma : List Nat) : List Nat := ma.flatMap pairOf

theorem fmtU_khz_len (f : Nat) (h1 : 4506 ≤ f) (h2 : f ≤ 26468) :
    (fmtU (f * 100)).length = if f < 10000 then 6 else 7 := by
  have hu : u32 (f * 100) = f * 100 := by simp only [u32]; omega
  simp only [fmtU, hu]
  split
  · exact decFuel_length 5 9 _ (by omega) (by omega) (by omega)
  · exact decFuel_length 6 9 _ (by omega) (by omega) (by omega)

/-- characters a command is made of: no NUL -/
def okChar (c : Nat) : Bool := isDigit c || c == 32

theorem fmtU_chars (n : Nat) : ∀ c ∈ fmtU n, isDigit c = true := decFuel_digits 10 _

theorem pairOf_facts (a : Nat) (h : ValidArfcn a) :
    ((pairOf a).length = 14 ∨ (pairOf a).length = 16) ∧ (∀ c ∈ pairOf a, okChar c = true) ∧
    (∃ body, pairOf a = body ++ [32]) ∧ arfcn2freq10 a false ≠ 65535 ∧ arfcn2freq10 a true ≠ 65535 := by
  obtain ⟨ul, off, e1, e2, f1, f2, f3, f4⟩ := arfcn2freq10_valid a h
  refine ⟨?_, ?_, ⟨_, rfl⟩, by omega, by omega⟩
  · simp only [pairOf, pairText, List.length_append, List.length_singleton, e1, e2]
    rw [fmtU_khz_len _ (by omega) (by omega), fmtU_khz_len _ (by omega) (by omega)]
    rcases f4 with ⟨g1, g2⟩ | g
    · rw [if_pos g2, if_pos g1]; left; rfl
    · rw [if_neg (by omega), if_neg (by omega)]; right; rfl
  · intro c hc
    simp only [pairOf, pairText, List.mem_append, List.mem_singleton] at hc
    simp only [okChar, Bool.or_eq_true, beq_iff_eq]
    rcases hc with ((hc | hc) | hc) | hc
    · left; exact fmtU_chars _ c hc
    · right; exact hc
    · left; exact fmtU_chars _ c hc
    · right; exact hc

theorem maText_cons (a : Nat) (ma : List Nat) : maText (a :: ma) = pairOf a ++ maText ma := by
  simp [maText]

theorem maText_pos (ma : List Nat) (hv : ∀ a ∈ ma, ValidArfcn a) (hne : ma ≠ []) : 14 ≤ (maText ma).length := by
  cases ma with
  | nil => exact absurd rfl hne
  | cons a t =>
    rw [maText_cons, List.length_append]
    have := (pairOf_facts a (hv a (by simp))).1
    omega

/-- one step of the loop for a valid ARFCN -/
theorem setfhLoop_step (a : Nat) (rest : List Nat) (n : Nat) (mem : List Nat) (room : Nat) (h : ValidArfcn a) :
    setfhLoop (a :: rest) (n + 1) mem room =
      if (pairOf a).length > room then .ok (.error (-eNOSPC))
      else setfhLoop rest n (mem ++ (if (pairOf a).length < room then pairOf a
                                    else snprintfStored room (pairOf a) ++ [0])) (room - (pairOf a).length) := by
  obtain ⟨_, _, _, hrx, htx⟩ := pairOf_facts a h
  simp only [setfhLoop, pairOf]
  rw [if_neg (by omega)]
  rfl

/-- L1: everything fits with room to spare -/
theorem setfhLoop_fits : ∀ (ma : List Nat) (mem : List Nat) (room : Nat), (∀ a ∈ ma, ValidArfcn a) →
    (maText ma).length < room → setfhLoop ma ma.length mem room = .ok (.ok (mem ++ maText ma)) := by
  intro ma
  induction ma with
  | nil => intro mem room _ _; simp [setfhLoop, maText]
  | cons a t ih =>
    intro mem room hv hl
    rw [maText_cons, List.length_append] at hl
    rw [List.length_cons, setfhLoop_step a t _ mem room (hv a (by simp))]
    rw [if_neg (by omega), if_pos (by omega)]
    rw [ih _ _ (fun x hx => hv x (by simp [hx])) (by omega), maText_cons]
    simp

/-- L3: it does not fit -/
theorem setfhLoop_nospc : ∀ (ma : List Nat) (mem : List Nat) (room : Nat), (∀ a ∈ ma, ValidArfcn a) →
    (maText ma).length > room → setfhLoop ma ma.length mem room = .ok (.error (-eNOSPC)) := by
  intro ma
  induction ma with
  | nil => intro mem room _ h; simp [maText] at h
  | cons a t ih =>
    intro mem room hv hl
    rw [maText_cons, List.length_append] at hl
    rw [List.length_cons, setfhLoop_step a t _ mem room (hv a (by simp))]
    by_cases h1 : (pairOf a).length > room
    · rw [if_pos h1]
    · rw [if_neg h1]
      exact ih _ _ (fun x hx => hv x (by simp [hx])) (by omega)

/-- L2: it fits exactly — the last blank is cut off by `snprintf` and the NUL stands in its place -/
theorem setfhLoop_exact : ∀ (ma : List Nat) (mem : List Nat) (room : Nat), (∀ a ∈ ma, ValidArfcn a) → ma ≠ [] →
    (maText ma).length = room →
    setfhLoop ma ma.length mem room = .ok (.ok (mem ++ (maText ma).dropLast ++ [0])) := by
  intro ma
  induction ma with
  | nil => intro mem room _ h; exact absurd rfl h
  | cons a t ih =>
    intro mem room hv _ hl
    have hva := hv a (by simp)
    obtain ⟨hlen, _, ⟨body, hbody⟩, _, _⟩ := pairOf_facts a hva
    rw [maText_cons, List.length_append] at hl
    rw [List.length_cons, setfhLoop_step a t _ mem room hva]
    rw [if_neg (by omega)]
    by_cases ht : t = []
    · subst ht
      have hm : (maText ([] : List Nat)).length = 0 := rfl
      rw [hm] at hl
      rw [if_neg (by omega)]
      simp only [List.length_nil, setfhLoop, maText_cons, snprintfStored]
      have : maText ([] : List Nat) = [] := rfl
      rw [this, List.append_nil, ← hl, hbody]
      simp
    · have hpos := maText_pos t (fun x hx => hv x (by simp [hx])) ht
      rw [if_pos (by omega)]
      rw [ih _ _ (fun x hx => hv x (by simp [hx])) ht (by omega), maText_cons]
      have hne : maText t ≠ [] := by intro e; rw [e] at hpos; simp at hpos
      rw [List.dropLast_append_of_ne_nil hne]
      simp

theorem okChar_ne_zero (c : Nat) (h : okChar c = true) : c ≠ 0 := by
  simp only [okChar, Bool.or_eq_true, beq_iff_eq, isDigit_iff] at h; omega

theorem cstrAt_terminated (s : List Nat) (cap : Nat) (hc : 0 < cap) (h : ∀ c ∈ s, c ≠ 0) :
    cstrAt (s ++ [0]) cap 0 = .ok s := by
  simp only [cstrAt, List.drop_zero]
  rw [if_neg (by omega)]
  have h1 : (s ++ [0]).contains 0 = true := by simp
  simp only [h1, if_true]
  rw [List.takeWhile_append_of_pos (fun c hc => by simpa using h c hc)]
  simp

theorem maText_chars (ma : List Nat) (hv : ∀ a ∈ ma, ValidArfcn a) : ∀ c ∈ maText ma, okChar c = true := by
  induction ma with
  | nil => intro c hc; simp [maText] at hc
  | cons a t ih =>
    intro c hc
    rw [maText_cons, List.mem_append] at hc
    rcases hc with hc | hc
    · exact (pairOf_facts a (hv a (by simp))).2.1 c hc
    · exact ih (fun x hx => hv x (by simp [hx])) c hc

theorem maText_even (ma : List Nat) (hv : ∀ a ∈ ma, ValidArfcn a) : (maText ma).length % 2 = 0 := by
  induction ma with
  | nil => rfl
  | cons a t ih =>
    rw [maText_cons, List.length_append]
    have := (pairOf_facts a (hv a (by simp))).1
    have := ih (fun x hx => hv x (by simp [hx]))
    omega

theorem maText_le (ma : List Nat) (hv : ∀ a ∈ ma, ValidArfcn a) :
    14 * ma.length ≤ (maText ma).length ∧ (maText ma).length ≤ 16 * ma.length := by
  induction ma with
  | nil => exact ⟨Nat.le_refl _, Nat.le_refl _⟩
  | cons a t ih =>
    rw [maText_cons, List.length_append, List.length_cons]
    have := (pairOf_facts a (hv a (by simp))).1
    have := ih (fun x hx => hv x (by simp [hx]))
    omega

theorem mem_dropLast {l : List Nat} {c : Nat} (h : c ∈ l.dropLast) : c ∈ l := by
  by_cases hl : l = []
  · subst hl; simp at h
  · rw [← List.dropLast_concat_getLast hl]; exact List.mem_append_left _ h

/-- `trx_if_cmd_setfh` before `trx_ctrl_cmd`: the string in `ma_buf`, or `-ENOSPC` -/
theorem setfhMaBuf_eq (ma : List Nat) (hne : ma ≠ []) (hv : ∀ a ∈ ma, ValidArfcn a) (hlen : ma.length < 4294967296) :
    setfhMaBuf ma.length ma =
      if (maText ma).length ≤ trxcBufSize - 24 - 1 then .ok (.ok (maText ma).dropLast) else .ok (.error (-eNOSPC)) := by
  have hcap : trxcBufSize - 24 = 1000 := by decide
  have hu : u32 ma.length = ma.length := by simp only [u32]; omega
  have hl0 : ma.length ≠ 0 := by intro e; exact hne (List.eq_nil_of_length_eq_zero e)
  have hie : ma.isEmpty = false := by cases ma with | nil => exact absurd rfl hne | cons => rfl
  have hpos := maText_pos ma hv hne
  have hch : ∀ c ∈ (maText ma).dropLast, c ≠ 0 := fun c hc => okChar_ne_zero c (maText_chars ma hv c (mem_dropLast hc))
  simp only [setfhMaBuf, hcap, hu, bind, Except.bind, pure, Except.pure]
  rw [if_neg (by simp [hl0, hie])]
  by_cases h1 : (maText ma).length < 999
  · rw [setfhLoop_fits ma [] 999 hv h1, if_pos (by omega)]
    simp only [List.nil_append]
    have hne' : (maText ma).isEmpty = false := by
      cases hm : maText ma with
      | nil => rw [hm] at hpos; simp at hpos
      | cons => rfl
    simp only [hne', Bool.false_eq_true, if_false, throw, throwThe, MonadExceptOf.throw]
    rw [cstrAt_terminated _ 1000 (by omega) hch]
  · by_cases h2 : (maText ma).length = 999
    · rw [setfhLoop_exact ma [] 999 hv hne h2, if_pos (by omega)]
      simp only [List.nil_append]
      have hne' : ((maText ma).dropLast ++ [0]).isEmpty = false := by simp
      simp only [hne', Bool.false_eq_true, if_false, List.dropLast_concat]
      rw [cstrAt_terminated _ 1000 (by omega) hch]
    · rw [setfhLoop_nospc ma [] 999 hv (by omega), if_neg (by omega)]

/-! ### what `trx_if_handle_phyif_cmd` emits -/

/-- one emitted command: criticality, verb, argument tokens -/
structure Emitted where
  critical : Int
  verb : List Nat
  args : List (List Nat)

/-- `CMD <VERB>[ <arg>]*` -/
def Emitted.text (e : Emitted) : List Nat := str "CMD " ++ e.verb ++ e.args.flatMap (fun a => 32 :: a)
def Emitted.msg (e : Emitted) : CtrlMsg := ⟨e.text, e.critical, e.verb.length⟩

/-- the two frequency tokens of an ARFCN in `CMD SETFH` -/
def pairToks (a : Nat) : List (List Nat) := [fmtU (arfcn2freq10 a false * 100), fmtU (arfcn2freq10 a true * 100)]

/-- the commands `trx_if_handle_phyif_cmd` queues for a PHYIF command -/
def emitSpec : PhyCmd → List Emitted
  | .reset => [⟨1, str "POWEROFF", []⟩, ⟨1, str "ECHO", []⟩]
  | .poweron => [⟨1, str "POWERON", []⟩]
  | .poweroff => [⟨1, str "POWEROFF", []⟩]
  | .measure a => [⟨1, str "MEASURE", [fmtU (arfcn2freq10 a false * 100)]⟩]
  | .setfreqH0 a => [⟨1, str "RXTUNE", [fmtU (arfcn2freq10 a false * 100)]⟩,
                     ⟨1, str "TXTUNE", [fmtU (arfcn2freq10 a true * 100)]⟩]
  | .setfreqH1 hsn maio _ ma => [⟨1, str "SETFH", fmtU (u8 hsn) :: fmtU (u8 maio) :: ma.flatMap pairToks⟩]
  | .setslot tn pchan => match chanTypes[u8 pchan]? with
      | some ct => [⟨1, str "SETSLOT", [fmtU (u8 tn), fmtU ct]⟩]
      | none => []
  | .setta ta => [⟨0, str "SETTA", [fmtD (s8i ta)]⟩]
  | .raw _ => []

/-- the PHYIF commands trxcon's L1 side may issue: defined ARFCNs, a channel configuration of
`enum gsm_phys_chan_config`, a mobile allocation whose text fits `ma_buf` -/
def ValidCmd : PhyCmd → Prop
  | .measure a => ValidArfcn a
  | .setfreqH0 a => ValidArfcn a
  | .setfreqH1 _ _ n ma => n = ma.length ∧ ma ≠ [] ∧ (∀ a ∈ ma, ValidArfcn a) ∧ (maText ma).length ≤ 999
  | .setslot _ pchan => u8 pchan < chanTypes.length
  | .raw _ => False
  | _ => True

theorem fmtU_len_le (n : Nat) : (fmtU n).length ≤ 10 :=
  decFuel_length_le 10 10 _ (by omega) (by omega) (by simp only [u32]; omega)

theorem fmtU_u8_len_le (x : Nat) : (fmtU (u8 x)).length ≤ 3 :=
  decFuel_length_le 3 10 _ (by omega) (by omega) (by simp only [u32, u8]; omega)

theorem fmtD_len_le (x : Int) : (fmtD x).length ≤ 11 := by
  have hb : -2147483648 ≤ s32i x ∧ s32i x ≤ 2147483647 := by simp only [s32i, s32]; split <;> omega
  simp only [fmtD]
  split
  · have := decFuel_length_le 10 10 (s32i x).natAbs (by omega) (by omega) (by omega)
    simp only [List.length_cons]; omega
  · have := decFuel_length_le 10 10 (s32i x).toNat (by omega) (by omega) (by omega)
    omega

theorem fmtU_nz (n : Nat) : ∀ c ∈ fmtU n, c ≠ 0 := by
  intro c hc; have := fmtU_chars n c hc; rw [isDigit_iff] at this; omega

theorem fmtD_nz (x : Int) : ∀ c ∈ fmtD x, c ≠ 0 := by
  intro c hc
  simp only [fmtD] at hc
  split at hc
  · simp only [List.mem_cons] at hc
    rcases hc with hc | hc
    · omega
    · have := decFuel_digits 10 _ c hc; rw [isDigit_iff] at this; omega
  · have := decFuel_digits 10 _ c hc; rw [isDigit_iff] at this; omega

/-- `32 :: ma_buf` is the token list rendered with leading blanks -/
theorem maText_toks (ma : List Nat) (hne : ma ≠ []) :
    32 :: (maText ma).dropLast = (ma.flatMap pairToks).flatMap (fun a => 32 :: a) := by
  have key : ∀ ma : List Nat, 32 :: maText ma = (ma.flatMap pairToks).flatMap (fun a => 32 :: a) ++ [32] := by
    intro ma
    induction ma with
    | nil => rfl
    | cons a t ih =>
      rw [maText_cons, List.flatMap_cons, List.flatMap_append]
      simp only [pairOf, pairText, pairToks, List.flatMap_cons, List.flatMap_nil, List.append_nil]
      simp only [List.append_assoc, List.cons_append, List.nil_append]
      rw [ih]
  have hne' : maText ma ≠ [] := by
    cases ma with
    | nil => exact absurd rfl hne
    | cons a t => rw [maText_cons]; simp [pairOf, pairText]
  have h2 : 32 :: maText ma = (32 :: (maText ma).dropLast) ++ [(maText ma).getLast hne'] := by
    rw [List.cons_append, List.dropLast_concat_getLast]
  have h3 := key ma
  rw [h2] at h3
  exact (List.append_inj' h3 rfl).1


theorem str_nz (s : String) (h : (str s).all (· ≠ 0) = true) : ∀ c ∈ str s, c ≠ 0 := by
  intro c hc
  have := List.all_eq_true.mp h c hc
  simpa using this

/-- one `trx_ctrl_cmd` call in terms of `Emitted` -/
theorem ctrlCmd_emit (t : Trx) (e : Emitted) (args : Option (List Nat)) (hst : t.state < 4)
    (htext : cmdText e.verb args = e.text) (hfit : e.text.length + 2 ≤ cmdSize) (hnz : ∀ c ∈ e.text, c ≠ 0) :
    ∃ t', ctrlCmd t e.critical e.verb args = .ok (0, t') ∧ t'.queue = t.queue ++ [e.msg] ∧ t'.state < 4 ∧
      t'.elog = t.elog ∧ (t.queue = [] → t'.sent = t.sent ++ [e.text ++ [0]]) ∧ (t.queue ≠ [] → t'.sent = t.sent) := by
  obtain ⟨t', h1, h2, h3, h4, h5, h6⟩ := ctrlCmd_ok t e.critical e.verb args hst (by rw [htext]; exact hfit)
  rw [htext] at h2 h5
  refine ⟨t', h1, h2, h3, h4, ?_, h6⟩
  intro hq
  rw [h5 hq, cmdStrAt_zero _ hnz]

theorem emit_noargs (t : Trx) (crit : Int) (verb : String) (hst : t.state < 4)
    (hfit : (str "CMD " ++ str verb).length + 2 ≤ cmdSize) (hnz : (str verb).all (· ≠ 0) = true) :
    ∃ t', ctrlCmd t crit (str verb) none = .ok (0, t') ∧ t'.queue = t.queue ++ [(⟨crit, str verb, []⟩ : Emitted).msg] ∧
      t'.state < 4 ∧ t'.elog = t.elog ∧
      (t.queue = [] → t'.sent = t.sent ++ [(⟨crit, str verb, []⟩ : Emitted).text ++ [0]]) ∧ (t.queue ≠ [] → t'.sent = t.sent) := by
  apply ctrlCmd_emit t ⟨crit, str verb, []⟩ none hst
  · simp [cmdText, Emitted.text]
  · simpa [Emitted.text] using hfit
  · intro c hc
    simp only [Emitted.text, List.flatMap_nil, List.append_nil, List.mem_append] at hc
    rcases hc with hc | hc
    · exact str_nz "CMD " (by decide) c hc
    · exact str_nz verb hnz c hc


theorem cmd_nz : ∀ c ∈ str "CMD ", c ≠ 0 := str_nz "CMD " (by decide)

/-- a command with argument tokens: fits and has no NUL when the tokens are short and NUL-free -/
theorem emit_args (t : Trx) (crit : Int) (verb : String) (toks : List (List Nat)) (a : List Nat) (hst : t.state < 4)
    (ha : str "CMD " ++ str verb ++ [32] ++ a = str "CMD " ++ str verb ++ toks.flatMap (fun x => 32 :: x))
    (hfit : (str "CMD " ++ str verb ++ [32] ++ a).length + 2 ≤ cmdSize)
    (hnzv : (str verb).all (· ≠ 0) = true) (hnz : ∀ c ∈ a, c ≠ 0) :
    ∃ t', ctrlCmd t crit (str verb) (some a) = .ok (0, t') ∧
      t'.queue = t.queue ++ [(⟨crit, str verb, toks⟩ : Emitted).msg] ∧ t'.state < 4 ∧ t'.elog = t.elog ∧
      (t.queue = [] → t'.sent = t.sent ++ [(⟨crit, str verb, toks⟩ : Emitted).text ++ [0]]) ∧
      (t.queue ≠ [] → t'.sent = t.sent) := by
  apply ctrlCmd_emit t ⟨crit, str verb, toks⟩ (some a) hst
  · simp only [cmdText, Emitted.text]; exact ha
  · simp only [Emitted.text]; rw [← ha]; exact hfit
  · intro c hc
    simp only [Emitted.text] at hc
    rw [← ha] at hc
    simp only [List.mem_append, List.mem_singleton] at hc
    rcases hc with ((hc | hc) | hc) | hc
    · exact cmd_nz c hc
    · exact str_nz verb hnzv c hc
    · omega
    · exact hnz c hc

theorem cPhyCmd_emits (t : Trx) (c : PhyCmd) (hq : t.queue = []) (hst : t.state < 4) (hv : ValidCmd c) :
    ∃ t', cPhyCmd t c = .ok (0, t') ∧ t'.queue = (emitSpec c).map Emitted.msg ∧ t'.elog = t.elog ∧ t'.state < 4 ∧
      (∀ e rest, emitSpec c = e :: rest → t'.sent = t.sent ++ [e.text ++ [0]]) := by
  have hsz : cmdSize = 1024 := by decide
  cases c with
  | reset =>
    obtain ⟨t1, h1, q1, s1, e1, n1, _⟩ := emit_noargs t 1 "POWEROFF" hst (by decide) (by decide)
    obtain ⟨t2, h2, q2, s2, e2, _, m2⟩ := emit_noargs t1 1 "ECHO" s1 (by decide) (by decide)
    have hne : t1.queue ≠ [] := by rw [q1]; simp
    refine ⟨t2, ?_, ?_, ?_, s2, ?_⟩
    · simp only [cPhyCmd, h1, h2, bind, Except.bind, pure, Except.pure]; rfl
    · rw [q2, q1, hq]; rfl
    · rw [e2, e1]
    · intro e rest he
      simp only [emitSpec, List.cons.injEq] at he
      rw [m2 hne, n1 hq, ← he.1]
  | poweron =>
    obtain ⟨t1, h1, q1, s1, e1, n1, _⟩ := emit_noargs t 1 "POWERON" hst (by decide) (by decide)
    refine ⟨t1, h1, by rw [q1, hq]; rfl, e1, s1, ?_⟩
    intro e rest he
    simp only [emitSpec, List.cons.injEq] at he
    rw [n1 hq, ← he.1]
  | poweroff =>
    obtain ⟨t1, h1, q1, s1, e1, n1, _⟩ := emit_noargs t 1 "POWEROFF" hst (by decide) (by decide)
    refine ⟨t1, h1, by rw [q1, hq]; rfl, e1, s1, ?_⟩
    intro e rest he
    simp only [emitSpec, List.cons.injEq] at he
    rw [n1 hq, ← he.1]
  | measure a =>
    simp only [ValidCmd, ValidArfcn] at hv
    have hl := fmtU_len_le (arfcn2freq10 a false * 100)
    obtain ⟨t1, h1, q1, s1, e1, n1, _⟩ := emit_args t 1 "MEASURE" [fmtU (arfcn2freq10 a false * 100)]
      (fmtU (arfcn2freq10 a false * 100)) hst (by simp) (by
        simp only [List.length_append, List.length_singleton, hsz]
        have : (str "CMD ").length = 4 := by decide
        have : (str "MEASURE").length = 7 := by decide
        omega) (by decide) (fmtU_nz _)
    refine ⟨t1, ?_, by rw [q1, hq]; rfl, e1, s1, ?_⟩
    · simp only [cPhyCmd]; rw [if_neg hv]; exact h1
    · intro e rest he
      simp only [emitSpec, List.cons.injEq] at he
      rw [n1 hq, ← he.1]
  | setfreqH0 a =>
    simp only [ValidCmd] at hv
    obtain ⟨_, _, _, hrx, htx⟩ := pairOf_facts a hv
    have hl := fmtU_len_le (arfcn2freq10 a false * 100)
    have hl2 := fmtU_len_le (arfcn2freq10 a true * 100)
    obtain ⟨t1, h1, q1, s1, e1, n1, _⟩ := emit_args t 1 "RXTUNE" [fmtU (arfcn2freq10 a false * 100)]
      (fmtU (arfcn2freq10 a false * 100)) hst (by simp) (by
        simp only [List.length_append, List.length_singleton, hsz]
        have : (str "CMD ").length = 4 := by decide
        have : (str "RXTUNE").length = 6 := by decide
        omega) (by decide) (fmtU_nz _)
    obtain ⟨t2, h2, q2, s2, e2, _, m2⟩ := emit_args t1 1 "TXTUNE" [fmtU (arfcn2freq10 a true * 100)]
      (fmtU (arfcn2freq10 a true * 100)) s1 (by simp) (by
        simp only [List.length_append, List.length_singleton, hsz]
        have : (str "CMD ").length = 4 := by decide
        have : (str "TXTUNE").length = 6 := by decide
        omega) (by decide) (fmtU_nz _)
    have hne : t1.queue ≠ [] := by rw [q1]; simp
    refine ⟨t2, ?_, ?_, ?_, s2, ?_⟩
    · simp only [cPhyCmd, bind, Except.bind, pure, Except.pure]
      rw [if_neg hrx]
      simp only [h1]
      rw [if_neg (by decide), if_neg htx]
      exact h2
    · rw [q2, q1, hq]; rfl
    · rw [e2, e1]
    · intro e rest he
      simp only [emitSpec, List.cons.injEq] at he
      rw [m2 hne, n1 hq, ← he.1]
  | setfreqH1 hsn maio n ma =>
    simp only [ValidCmd] at hv
    obtain ⟨hn, hne, hval, hlen⟩ := hv
    subst hn
    have hbound := maText_le ma hval
    have hcap : trxcBufSize - 24 - 1 = 999 := by decide
    have hbuf := setfhMaBuf_eq ma hne hval (by omega)
    rw [hcap, if_pos hlen] at hbuf
    have hl1 := fmtU_u8_len_le hsn
    have hl2 := fmtU_u8_len_le maio
    have htoks := maText_toks ma hne
    obtain ⟨t1, h1, q1, s1, e1, n1, _⟩ := emit_args t 1 "SETFH" (fmtU (u8 hsn) :: fmtU (u8 maio) :: ma.flatMap pairToks)
      (fmtU (u8 hsn) ++ [32] ++ fmtU (u8 maio) ++ [32] ++ (maText ma).dropLast) hst (by
        simp only [List.flatMap_cons, ← htoks]; simp) (by
        simp only [List.length_append, List.length_singleton, List.length_dropLast, hsz]
        have : (str "CMD ").length = 4 := by decide
        have : (str "SETFH").length = 5 := by decide
        omega) (by decide) (by
        intro c hc
        simp only [List.mem_append, List.mem_singleton] at hc
        rcases hc with (((hc | hc) | hc) | hc) | hc
        · exact fmtU_nz _ c hc
        · omega
        · exact fmtU_nz _ c hc
        · omega
        · exact okChar_ne_zero c (maText_chars ma hval c (mem_dropLast hc)))
    refine ⟨t1, ?_, by rw [q1, hq]; rfl, e1, s1, ?_⟩
    · simp only [cPhyCmd, hbuf, bind, Except.bind]; exact h1
    · intro e rest he
      simp only [emitSpec, List.cons.injEq] at he
      rw [n1 hq, ← he.1]
  | setslot tn pchan =>
    simp only [ValidCmd] at hv
    have hg : chanTypes[u8 pchan]? = some (chanTypes[u8 pchan]'hv) := List.getElem?_eq_getElem hv
    have hl1 := fmtU_len_le (u8 tn)
    have hl2 := fmtU_len_le (chanTypes[u8 pchan]'hv)
    obtain ⟨t1, h1, q1, s1, e1, n1, _⟩ := emit_args t 1 "SETSLOT" [fmtU (u8 tn), fmtU (chanTypes[u8 pchan]'hv)]
      (fmtU (u8 tn) ++ [32] ++ fmtU (chanTypes[u8 pchan]'hv)) hst (by simp) (by
        simp only [List.length_append, List.length_singleton, hsz]
        have : (str "CMD ").length = 4 := by decide
        have : (str "SETSLOT").length = 7 := by decide
        omega) (by decide) (by
        intro c hc
        simp only [List.mem_append, List.mem_singleton] at hc
        rcases hc with (hc | hc) | hc
        · exact fmtU_nz _ c hc
        · omega
        · exact fmtU_nz _ c hc)
    refine ⟨t1, ?_, ?_, e1, s1, ?_⟩
    · simp only [cPhyCmd, hg]; exact h1
    · rw [q1, hq]; simp only [emitSpec, hg]; rfl
    · intro e rest he
      simp only [emitSpec, hg, List.cons.injEq] at he
      rw [n1 hq, ← he.1]
  | setta ta =>
    have hl := fmtD_len_le (s8i ta)
    obtain ⟨t1, h1, q1, s1, e1, n1, _⟩ := emit_args t 0 "SETTA" [fmtD (s8i ta)] (fmtD (s8i ta)) hst (by simp) (by
        simp only [List.length_append, List.length_singleton, hsz]
        have : (str "CMD ").length = 4 := by decide
        have : (str "SETTA").length = 5 := by decide
        omega) (by decide) (fmtD_nz _)
    refine ⟨t1, h1, by rw [q1, hq]; rfl, e1, s1, ?_⟩
    intro e rest he
    simp only [emitSpec, List.cons.injEq] at he
    rw [n1 hq, ← he.1]
  | raw ty => exact absurd hv (by simp [ValidCmd])

/-! ### `trx_ctrl_read_cb` -/

/-- the C string at the end of a NUL-free prefix `pre`: up to the first NUL -/
theorem cstrAt_mid (pre s post : List Nat) (cap : Nat) (hs : ∀ c ∈ s, c ≠ 0) (hc : pre.length < cap) :
    cstrAt (pre ++ s ++ 0 :: post) cap pre.length = .ok s := by
  simp only [cstrAt]
  rw [if_neg (by omega)]
  have hd : (pre ++ s ++ 0 :: post).drop pre.length = s ++ 0 :: post := by
    rw [List.append_assoc, List.drop_left]
  rw [hd]
  have h1 : (s ++ 0 :: post).contains 0 = true := by simp
  simp only [h1, if_true]
  rw [List.takeWhile_append_of_pos (fun c hc => by simpa using hs c hc)]
  simp

/-- a C string can be taken at every offset up to the terminator the callback wrote -/
theorem cstrAt_ok (data : List Nat) (cap off : Nat) (ho : off ≤ data.length) (hc : data.length < cap) :
    ∃ s, cstrAt (data ++ [0]) cap off = .ok s := by
  simp only [cstrAt]
  rw [if_neg (by omega)]
  have h1 : ((data ++ [0]).drop off).contains 0 = true := by
    rw [List.drop_append_of_le_length ho]
    simp
  simp only [h1, if_true]
  exact ⟨_, rfl⟩

/-- `fsmChg`/`ctrlSend`/dispatch never lower the error-log flag, keep the queue -/
theorem measureRspCb_data (t : Trx) (r : List Nat) :
    (measureRspCb t r).queue = t.queue ∧ (measureRspCb t r).state = t.state ∧
    (measureRspCb t r).prevState = t.prevState ∧ (t.elog = true → (measureRspCb t r).elog = true) := by
  simp only [measureRspCb]
  split
  · exact ⟨rfl, rfl, rfl, fun _ => rfl⟩
  · split
    · exact ⟨rfl, rfl, rfl, fun _ => rfl⟩
    · exact ⟨rfl, rfl, rfl, fun h => h⟩

theorem rspDispatch_ok (t : Trx) (c4 data : List Nat) (hst : t.state < 4) (hps : t.prevState < 4)
    (hlen : data.length < trxcBufSize) :
    ∃ t', rspDispatch t c4 (data ++ [0]) data.length = .ok t' ∧ t'.queue = t.queue ∧ t'.state < 4 ∧
      (t.elog = true → t'.elog = true) := by
  unfold rspDispatch
  split
  · obtain ⟨t', h, sd, _, _, hs⟩ := fsmChg_ok { t with poweredUp := true } stActive hst (by decide)
    exact ⟨t', h, sd.queue, hs, fun e => by rw [sd.elog]; exact e⟩
  · split
    · obtain ⟨t', h, sd, _, _, hs⟩ := fsmChg_ok { t with poweredUp := false } stIdle hst (by decide)
      exact ⟨t', h, sd.queue, hs, fun e => by rw [sd.elog]; exact e⟩
    · split
      · obtain ⟨r, hr⟩ := cstrAt_ok data trxcBufSize (min data.length 14) (Nat.min_le_left _ _) hlen
        simp only [hr, bind, Except.bind, pure, Except.pure]
        obtain ⟨m1, m2, m3, m4⟩ := measureRspCb_data t r
        exact ⟨_, rfl, m1, by rw [m2]; exact hst, m4⟩
      · split
        · obtain ⟨t', h, sd, _, _, hs⟩ := fsmChg_ok t stIdle hst (by decide)
          exact ⟨t', h, sd.queue, hs, fun e => by rw [sd.elog]; exact e⟩
        · obtain ⟨t', h, sd, _, _, hs⟩ := fsmChg_ok t t.prevState hst hps
          exact ⟨t', h, sd.queue, hs, fun e => by rw [sd.elog]; exact e⟩

/-- from the status check on, nothing can fault -/
theorem rspStatus_ok (t : Trx) (tcm : CtrlMsg) (rest : List CtrlMsg) (data s4 : List Nat) (p : Option Nat)
    (hst : t.state < 4) (hps : t.prevState < 4) (hlen : data.length < trxcBufSize) :
    ∃ r, rspStatus t tcm rest (data ++ [0]) s4 p data.length = .ok r := by
  cases p with
  | none => exact ⟨_, rfl⟩
  | some i =>
    simp only [rspStatus]
    cases hsc : sscanfD (s4.drop (i + 1)) with
    | none => exact ⟨_, rfl⟩
    | some resp =>
      simp only []
      by_cases hc : resp ≠ 0 ∧ tcm.critical ≠ 0
      · rw [if_pos hc]; exact ⟨_, rfl⟩
      · rw [if_neg hc]
        have hst' : (if resp ≠ 0 then { t with elog := true } else t).state < 4 := by split <;> exact hst
        have hps' : (if resp ≠ 0 then { t with elog := true } else t).prevState < 4 := by split <;> exact hps
        obtain ⟨t2, h2, _, hs2, _⟩ := rspDispatch_ok _ (cmdStrAt tcm 4) data hst' hps' hlen
        obtain ⟨t3, h3, _⟩ := ctrlSend_ok { t2 with queue := rest } hs2
        simp only [bind, Except.bind, pure, Except.pure]
        rw [h2]
        simp only []
        rw [h3]
        exact ⟨_, rfl⟩

theorem takeWhile_ne_zero_lt (l : List Nat) :
    ((l ++ [0]).takeWhile (fun x => decide (x ≠ 0))).length ≤ l.length := by
  induction l with
  | nil => simp
  | cons x xs ih =>
    simp only [List.cons_append, List.takeWhile_cons]
    split
    · simp only [List.length_cons]; omega
    · simp

/-- `trx_ctrl_read_cb` never faults: whatever the datagram and the pending commands are -/
theorem cReadCb_ok (t : Trx) (d : List Nat) (hst : t.state < 4) (hps : t.prevState < 4) :
    ∃ r, cReadCb t d = .ok r := by
  have hcap : trxcBufSize = 1024 := by decide
  generalize hdata : d.take (trxcBufSize - 1) = data
  have hlen : data.length < trxcBufSize := by
    rw [← hdata]; simp only [List.length_take, hcap]; omega
  unfold cReadCb
  simp only [bind, Except.bind, pure, Except.pure, hdata]
  by_cases hlen0 : data.length = 0
  · rw [if_pos hlen0]; exact ⟨_, rfl⟩
  · rw [if_neg hlen0]
    obtain ⟨s0, hs0⟩ := cstrAt_ok data trxcBufSize 0 (by omega) hlen
    rw [hs0]
    simp only []
    by_cases hrsp : (!strncmpEq s0 (str "RSP ") 4) = true
    · rw [if_pos hrsp]; exact ⟨_, rfl⟩
    · rw [if_neg hrsp]
      -- the signature matched, so at least four octets were read
      have h4 : 4 ≤ data.length := by
        have hs0' := hs0
        simp only [cstrAt, List.drop_zero] at hs0'
        rw [if_neg (by omega)] at hs0'
        have h1 : (data ++ [0]).contains 0 = true := by simp
        simp only [h1, if_true, Except.ok.injEq] at hs0'
        have hle : s0.length ≤ data.length := by rw [← hs0']; exact takeWhile_ne_zero_lt data
        have h4' : (s0.take 4).length = 4 := by
          have hh : strncmpEq s0 (str "RSP ") 4 = true := by simpa using hrsp
          simp only [strncmpEq, beq_iff_eq] at hh
          rw [hh]; decide
        simp only [List.length_take] at h4'
        omega
      obtain ⟨s4, hs4⟩ := cstrAt_ok data trxcBufSize 4 h4 hlen
      rw [hs4]
      simp only []
      cases hq : t.queue with
      | nil => exact ⟨_, rfl⟩
      | cons tcm rest =>
        simp only []
        by_cases hm : (!strncmpEq s4 (cmdStrAt tcm 4) (rspLenOf (strchrIdx s4 32) s0.length)) = true
        · rw [if_pos hm]; exact ⟨_, rfl⟩
        · rw [if_neg hm]; exact rspStatus_ok _ _ _ _ _ _ hst hps hlen

/-! ### replies of the form the transceiver produces -/

/-- `RSP <verb> <status><rest><results>\0` for the command `CMD <verb><rest>` -/
def replyTo (verb rest results : List Nat) (status : Int) : List Nat :=
  str "RSP " ++ verb ++ [32] ++ fmtD status ++ rest ++ results ++ [0]

structure ReplyHyp (verb rest results : List Nat) : Prop where
  hverb : ∀ c ∈ verb, c ≠ 32 ∧ c ≠ 0
  hrest : ∀ c ∈ rest, c ≠ 0
  hresults : ∀ c ∈ results, c ≠ 0
  hnodigit : NoDigitHead (rest ++ results)

theorem idxOf_verb (verb tail : List Nat) (h : ∀ c ∈ verb, c ≠ 32) : (verb ++ 32 :: tail).idxOf 32 = verb.length := by
  rw [List.idxOf_append]
  rw [if_neg (fun hm => h 32 hm rfl)]
  simp

/-- what is left of `trx_ctrl_read_cb` once the reply matched and the status `s` was read -/
def replyOutcome (t : Trx) (tcm : CtrlMsg) (q : List CtrlMsg) (c4 d : List Nat) (s : Int) : Except Fault (Int × Trx) :=
  let t1 := { t with ev := t.ev ++ [Event.timerDel] }
  let t2 := if s ≠ 0 then { t1 with elog := true } else t1
  if s ≠ 0 ∧ tcm.critical ≠ 0 then .ok (rspError t2)
  else do
    let t3 ← rspDispatch t2 c4 (d ++ [0]) d.length
    let t4 ← ctrlSend { t3 with queue := q }
    pure (0, t4)

/-- reading the reply: everything up to the status conversion -/
theorem cReadCb_reply (t : Trx) (tcm : CtrlMsg) (q : List CtrlMsg) (verb rest results : List Nat) (s : Int)
    (hq : t.queue = tcm :: q) (hcmd : tcm.cmd = str "CMD " ++ verb ++ rest)
    (hh : ReplyHyp verb rest results) (hs1 : -2147483648 ≤ s) (hs2 : s ≤ 2147483647)
    (hlen : (replyTo verb rest results s).length ≤ trxcBufSize - 1) :
    cReadCb t (replyTo verb rest results s) = replyOutcome t tcm q (verb ++ rest) (replyTo verb rest results s) s := by
  have hcap : trxcBufSize = 1024 := by decide
  -- the text between the signature and the NUL
  generalize hbody : verb ++ [32] ++ fmtD s ++ rest ++ results = body
  have hd : replyTo verb rest results s = str "RSP " ++ body ++ [0] := by
    rw [← hbody]; simp [replyTo]
  have hbnz : ∀ c ∈ body, c ≠ 0 := by
    intro c hc
    rw [← hbody] at hc
    simp only [List.mem_append, List.mem_singleton] at hc
    rcases hc with (((hc | hc) | hc) | hc) | hc
    · exact (hh.hverb c hc).2
    · omega
    · exact fmtD_nz s c hc
    · exact hh.hrest c hc
    · exact hh.hresults c hc
  have hrnz : ∀ c ∈ str "RSP " ++ body, c ≠ 0 := by
    intro c hc
    rw [List.mem_append] at hc
    rcases hc with hc | hc
    · exact str_nz "RSP " (by decide) c hc
    · exact hbnz c hc
  have htake : (replyTo verb rest results s).take (trxcBufSize - 1) = replyTo verb rest results s :=
    List.take_of_length_le hlen
  have hlen' : (replyTo verb rest results s).length < trxcBufSize := by omega
  have hl0 : (replyTo verb rest results s).length ≠ 0 := by rw [hd]; simp
  have hs0 : cstrAt (replyTo verb rest results s ++ [0]) trxcBufSize 0 = .ok (str "RSP " ++ body) := by
    have := cstrAt_mid [] (str "RSP " ++ body) [0] trxcBufSize hrnz (by rw [hcap]; decide)
    simpa [hd] using this
  have hs4 : cstrAt (replyTo verb rest results s ++ [0]) trxcBufSize 4 = .ok body := by
    have := cstrAt_mid (str "RSP ") body [0] trxcBufSize hbnz (by rw [hcap]; decide)
    have e : (str "RSP ").length = 4 := by decide
    rw [e] at this
    simpa [hd] using this
  have hsig : strncmpEq (str "RSP " ++ body) (str "RSP ") 4 = true := by
    simp only [strncmpEq, beq_iff_eq]
    rw [List.take_left' (by decide)]
    rfl
  have hidx : strchrIdx body 32 = some verb.length := by
    have hi : body.idxOf 32 = verb.length := by
      rw [← hbody]
      have : verb ++ [32] ++ fmtD s ++ rest ++ results = verb ++ 32 :: (fmtD s ++ rest ++ results) := by simp
      rw [this]
      exact idxOf_verb verb _ (fun c hc => (hh.hverb c hc).1)
    simp only [strchrIdx, hi]
    rw [if_pos (by rw [← hbody]; simp)]
  have hc4 : cmdStrAt tcm 4 = verb ++ rest := by
    simp only [cmdStrAt, hcmd]
    have : (str "CMD " ++ verb ++ rest).drop 4 = verb ++ rest := by
      rw [List.append_assoc, List.drop_left' (by decide)]
    rw [this]
    exact takeWhile_all _ (fun c hc => by
      rw [List.mem_append] at hc
      rcases hc with hc | hc
      · simpa using (hh.hverb c hc).2
      · simpa using hh.hrest c hc)
  have hmatch : strncmpEq body (verb ++ rest) verb.length = true := by
    simp only [strncmpEq, beq_iff_eq]
    rw [← hbody, List.take_left' rfl]
    simp only [List.append_assoc]
    rw [List.take_left' rfl]
  have hscan : sscanfD (body.drop (verb.length + 1)) = some s := by
    have : body.drop (verb.length + 1) = fmtD s ++ (rest ++ results) := by
      rw [← hbody]
      have e : verb ++ [32] ++ fmtD s ++ rest ++ results = (verb ++ [32]) ++ (fmtD s ++ (rest ++ results)) := by simp
      rw [e, List.drop_left' (by simp)]
    rw [this]
    exact sscanfD_fmtD s _ hs1 hs2 hh.hnodigit
  unfold cReadCb
  simp only [bind, Except.bind, pure, Except.pure, htake]
  rw [if_neg hl0, hs0]
  simp only [hsig, Bool.not_true, Bool.false_eq_true, if_false, hs4, hidx, rspLenOf, hq, hc4, hmatch, rspStatus, hscan,
    replyOutcome, bind, Except.bind, pure, Except.pure]


/-- the reply is accepted: the pending command leaves the queue (and the next one is sent) -/
theorem replyOutcome_accept (t : Trx) (tcm : CtrlMsg) (q : List CtrlMsg) (c4 d : List Nat) (s : Int)
    (hst : t.state < 4) (hps : t.prevState < 4) (hlen : d.length < trxcBufSize)
    (hacc : ¬ (s ≠ 0 ∧ tcm.critical ≠ 0)) :
    ∃ t', replyOutcome t tcm q c4 d s = .ok (0, t') ∧ t'.queue = q ∧ t'.state < 4 ∧ (s ≠ 0 → t'.elog = true) := by
  simp only [replyOutcome]
  rw [if_neg hacc]
  generalize ht2 : (if s ≠ 0 then { t with ev := t.ev ++ [Event.timerDel], elog := true }
    else { t with ev := t.ev ++ [Event.timerDel] } : Trx) = t2
  have hst2 : t2.state < 4 := by rw [← ht2]; split <;> exact hst
  have hps2 : t2.prevState < 4 := by rw [← ht2]; split <;> exact hps
  have hel2 : s ≠ 0 → t2.elog = true := by intro h; rw [← ht2, if_pos h]
  obtain ⟨t3, h3, _, hs3, he3⟩ := rspDispatch_ok t2 c4 d hst2 hps2 hlen
  obtain ⟨t4, h4, sd, hs4, _⟩ := ctrlSend_ok { t3 with queue := q } hs3
  simp only [bind, Except.bind, pure, Except.pure]
  rw [h3]
  simp only []
  rw [h4]
  exact ⟨t4, rfl, sd.queue, hs4, fun h => by rw [sd.elog]; exact he3 (hel2 h)⟩

/-- the reply carries an error status for a critical command: the interface is terminated -/
theorem replyOutcome_reject (t : Trx) (tcm : CtrlMsg) (q : List CtrlMsg) (c4 d : List Nat) (s : Int)
    (hrej : s ≠ 0 ∧ tcm.critical ≠ 0) :
    ∃ t', replyOutcome t tcm q c4 d s = .ok (-eIO, t') ∧ t'.queue = t.queue ∧ t'.elog = true ∧
      t'.ev = t.ev ++ [Event.timerDel, Event.term termError] := by
  simp only [replyOutcome]
  rw [if_pos hrej, if_pos hrej.1]
  exact ⟨_, rfl, rfl, rfl, by simp⟩


theorem str_measure : str "MEASURE" = [77, 69, 65, 83, 85, 82, 69] := by decide
theorem fmtD_zero : fmtD 0 = [48] := by decide
theorem str_poweron : str "POWERON" = [80, 79, 87, 69, 82, 79, 78] := by decide
theorem str_poweroff : str "POWEROFF" = [80, 79, 87, 69, 82, 79, 70, 70] := by decide

/-- the dispatch for a `CMD MEASURE <kHz>` answered `RSP MEASURE 0 <kHz> <dBm>`: the ARFCN and the
power level reach `trxcon_phyif_handle_rsp` -/
theorem rspDispatch_measure (t : Trx) (a : Nat) (dbm : Int) (ha : CanonArfcn a)
    (h1 : -2147483648 ≤ dbm) (h2 : dbm ≤ 2147483647) :
    let khz := fmtU (arfcn2freq10 a false * 100)
    let d := replyTo (str "MEASURE") (32 :: khz) (32 :: fmtD dbm) 0
    d.length < trxcBufSize ∧
    rspDispatch t (str "MEASURE" ++ 32 :: khz) (d ++ [0]) d.length = .ok { t with rsp := some (a, dbm) } := by
  intro khz d
  have hcap : trxcBufSize = 1024 := by decide
  have hkl : khz.length ≤ 10 := fmtU_len_le (arfcn2freq10 a false * 100)
  have hdl := fmtD_len_le dbm
  -- the datagram: 14 octets "RSP MEASURE 0 ", then "<kHz> <dBm>", then NUL
  have hd : d = (str "RSP MEASURE 0 ") ++ (khz ++ [32] ++ fmtD dbm) ++ 0 :: [] := by
    simp only [d, replyTo, fmtD_zero]
    have : str "RSP MEASURE 0 " = str "RSP " ++ str "MEASURE" ++ [32] ++ [48] ++ [32] := by decide
    rw [this]; simp
  have hlen : d.length < trxcBufSize := by
    rw [hd, hcap]
    simp only [List.length_append, List.length_cons, List.length_nil]
    have : (str "RSP MEASURE 0 ").length = 14 := by decide
    omega
  refine ⟨hlen, ?_⟩
  have hmin : min d.length 14 = 14 := by
    rw [hd]
    simp only [List.length_append, List.length_cons, List.length_nil]
    have : (str "RSP MEASURE 0 ").length = 14 := by decide
    omega
  have hr : cstrAt (d ++ [0]) trxcBufSize 14 = .ok (khz ++ [32] ++ fmtD dbm) := by
    have hnz : ∀ c ∈ khz ++ [32] ++ fmtD dbm, c ≠ 0 := by
      intro c hc
      simp only [List.mem_append, List.mem_singleton] at hc
      rcases hc with (hc | hc) | hc
      · exact fmtU_nz _ c hc
      · omega
      · exact fmtD_nz _ c hc
    have := cstrAt_mid (str "RSP MEASURE 0 ") (khz ++ [32] ++ fmtD dbm) [0] trxcBufSize hnz (by rw [hcap]; decide)
    have e : (str "RSP MEASURE 0 ").length = 14 := by decide
    rw [e] at this
    rw [hd]
    simpa using this
  have hscan : sscanfUD (khz ++ [32] ++ fmtD dbm) = some (arfcn2freq10 a false * 100, dbm) := by
    have hv := arfcn2freq10_canon a ha
    have hlt : arfcn2freq10 a false * 100 < 4294967296 := by
      unfold CanonArfcn at ha
      rw [hv]; repeat' split
      all_goals omega
    have := sscanfUD_fmt (arfcn2freq10 a false * 100) dbm [] hlt h1 h2 noDigitHead_nil
    simpa using this
  have hrt := freq_roundtrip a ha
  have hf16 : u16 (arfcn2freq10 a false * 100 / 100) = arfcn2freq10 a false := by
    have hv := arfcn2freq10_canon a ha
    have hlt : arfcn2freq10 a false < 65536 := by
      unfold CanonArfcn at ha
      rw [hv]; repeat' split
      all_goals omega
    simp only [u16]; omega
  have ha16 : a ≠ 65535 := by unfold CanonArfcn at ha; omega
  unfold rspDispatch
  have e1 : startsWith (str "MEASURE" ++ 32 :: khz) (str "POWERON") = false := by
    simp [startsWith, strncmpEq, str_measure, str_poweron]
  have e2 : startsWith (str "MEASURE" ++ 32 :: khz) (str "POWEROFF") = false := by
    simp [startsWith, strncmpEq, str_measure, str_poweroff]
  have e3 : startsWith (str "MEASURE" ++ 32 :: khz) (str "MEASURE") = true := by
    simp [startsWith, strncmpEq, str_measure]
  simp only [e1, e2, e3, Bool.false_eq_true, if_false, if_true, hmin, hr, bind, Except.bind, pure, Except.pure,
    measureRspCb, hscan, hf16, hrt]
  rw [if_neg ha16]

/-- length of the SETFH text: `CMD SETFH <hsn> <maio> ` and the mobile allocation text without its last blank -/
theorem setfh_text_len (hsn maio : Nat) (ma : List Nat) (hne : ma ≠ []) :
    (Emitted.text ⟨1, str "SETFH", fmtU (u8 hsn) :: fmtU (u8 maio) :: ma.flatMap pairToks⟩).length
      = 11 + (fmtU (u8 hsn)).length + (fmtU (u8 maio)).length + (maText ma).length := by
  have ht := maText_toks ma hne
  have hne' : maText ma ≠ [] := by
    cases ma with
    | nil => exact absurd rfl hne
    | cons a t => rw [maText_cons]; simp [pairOf, pairText]
  have hl : ((ma.flatMap pairToks).flatMap (fun a => 32 :: a)).length = (maText ma).length := by
    rw [← ht]
    simp only [List.length_cons, List.length_dropLast]
    have : 0 < (maText ma).length := List.length_pos_iff.mpr hne'
    omega
  simp only [Emitted.text, List.flatMap_cons, List.length_append, List.length_cons, hl]
  have : (str "CMD ").length = 4 := by decide
  have : (str "SETFH").length = 5 := by decide
  omega

theorem emitSpec_len (c : PhyCmd) (hv : ValidCmd c) : ∀ e ∈ emitSpec c, e.text.length ≤ 1015 := by
  intro e he
  have h4 : (str "CMD ").length = 4 := by decide
  cases c with
  | reset =>
    simp only [emitSpec, List.mem_cons, List.mem_nil_iff, or_false] at he
    rcases he with rfl | rfl <;> decide
  | poweron => simp only [emitSpec, List.mem_singleton] at he; subst he; decide
  | poweroff => simp only [emitSpec, List.mem_singleton] at he; subst he; decide
  | measure a =>
    simp only [emitSpec, List.mem_singleton] at he; subst he
    have := fmtU_len_le (arfcn2freq10 a false * 100)
    have : (str "MEASURE").length = 7 := by decide
    simp only [Emitted.text, List.flatMap_cons, List.flatMap_nil, List.length_append, List.length_cons, List.length_nil]
    omega
  | setfreqH0 a =>
    simp only [emitSpec, List.mem_cons, List.mem_nil_iff, or_false] at he
    have := fmtU_len_le (arfcn2freq10 a false * 100)
    have := fmtU_len_le (arfcn2freq10 a true * 100)
    have : (str "RXTUNE").length = 6 := by decide
    have : (str "TXTUNE").length = 6 := by decide
    rcases he with rfl | rfl
    all_goals
      simp only [Emitted.text, List.flatMap_cons, List.flatMap_nil, List.length_append, List.length_cons, List.length_nil]
      omega
  | setfreqH1 hsn maio n ma =>
    simp only [emitSpec, List.mem_singleton] at he; subst he
    simp only [ValidCmd] at hv
    obtain ⟨_, hne, hval, hlen⟩ := hv
    rw [setfh_text_len hsn maio ma hne]
    have := fmtU_u8_len_le hsn
    have := fmtU_u8_len_le maio
    have := maText_even ma hval
    omega
  | setslot tn pchan =>
    simp only [emitSpec] at he
    split at he
    · simp only [List.mem_singleton] at he; subst he
      rename_i ct _
      have := fmtU_len_le (u8 tn)
      have := fmtU_len_le ct
      have : (str "SETSLOT").length = 7 := by decide
      simp only [Emitted.text, List.flatMap_cons, List.flatMap_nil, List.length_append, List.length_cons, List.length_nil]
      omega
    · simp at he
  | setta ta =>
    simp only [emitSpec, List.mem_singleton] at he; subst he
    have := fmtD_len_le (s8i ta)
    have : (str "SETTA").length = 5 := by decide
    simp only [Emitted.text, List.flatMap_cons, List.flatMap_nil, List.length_append, List.length_cons, List.length_nil]
    omega
  | raw ty => simp [emitSpec] at he

/-- a reply `RSP <v> <tail>\0` whose verb is not a prefix of what follows `CMD ` in the pending
command is a mismatch: `rsp_error` -/
theorem cReadCb_mismatch (t : Trx) (tcm : CtrlMsg) (q : List CtrlMsg) (v tail : List Nat)
    (hq : t.queue = tcm :: q) (hv : ∀ c ∈ v, c ≠ 32 ∧ c ≠ 0) (htail : ∀ c ∈ tail, c ≠ 0)
    (hnp : v ≠ (cmdStrAt tcm 4).take v.length)
    (hlen : (str "RSP " ++ v ++ [32] ++ tail ++ [0]).length ≤ trxcBufSize - 1) :
    cReadCb t (str "RSP " ++ v ++ [32] ++ tail ++ [0]) =
      .ok (rspError { t with ev := t.ev ++ [Event.timerDel], elog := true }) := by
  have hcap : trxcBufSize = 1024 := by decide
  generalize hbody : v ++ [32] ++ tail = body
  generalize hdd : str "RSP " ++ v ++ [32] ++ tail ++ [0] = d at hlen ⊢
  have hd : d = str "RSP " ++ body ++ [0] := by rw [← hdd, ← hbody]; simp
  have hbnz : ∀ c ∈ body, c ≠ 0 := by
    intro c hc
    rw [← hbody] at hc
    simp only [List.mem_append, List.mem_singleton] at hc
    rcases hc with (hc | hc) | hc
    · exact (hv c hc).2
    · omega
    · exact htail c hc
  have hrnz : ∀ c ∈ str "RSP " ++ body, c ≠ 0 := by
    intro c hc
    rw [List.mem_append] at hc
    rcases hc with hc | hc
    · exact str_nz "RSP " (by decide) c hc
    · exact hbnz c hc
  have htake : d.take (trxcBufSize - 1) = d := List.take_of_length_le hlen
  have hl0 : d.length ≠ 0 := by rw [hd]; simp
  have hs0 : cstrAt (d ++ [0]) trxcBufSize 0 = .ok (str "RSP " ++ body) := by
    have := cstrAt_mid [] (str "RSP " ++ body) [0] trxcBufSize hrnz (by rw [hcap]; decide)
    simpa [hd] using this
  have hs4 : cstrAt (d ++ [0]) trxcBufSize 4 = .ok body := by
    have := cstrAt_mid (str "RSP ") body [0] trxcBufSize hbnz (by rw [hcap]; decide)
    have e : (str "RSP ").length = 4 := by decide
    rw [e] at this
    simpa [hd] using this
  have hsig : strncmpEq (str "RSP " ++ body) (str "RSP ") 4 = true := by
    simp only [strncmpEq, beq_iff_eq]
    rw [List.take_left' (by decide)]
    rfl
  have hidx : strchrIdx body 32 = some v.length := by
    have hi : body.idxOf 32 = v.length := by
      rw [← hbody]
      have : v ++ [32] ++ tail = v ++ 32 :: tail := by simp
      rw [this]
      exact idxOf_verb v _ (fun c hc => (hv c hc).1)
    simp only [strchrIdx, hi]
    rw [if_pos (by rw [← hbody]; simp)]
  have hmis : strncmpEq body (cmdStrAt tcm 4) v.length = false := by
    simp only [strncmpEq]
    rw [← hbody, List.append_assoc, List.take_left' rfl]
    simpa using hnp
  unfold cReadCb
  simp only [bind, Except.bind, pure, Except.pure, htake]
  rw [if_neg hl0, hs0]
  simp only [hsig, Bool.not_true, Bool.false_eq_true, if_false, hs4, hidx, rspLenOf, hq, hmis, Bool.not_false, if_true]

/-! ### well-formed command texts -/

/-- a decimal argument: digits, optionally with a minus sign -/
def IsDecTok (a : List Nat) : Prop :=
  (a ≠ [] ∧ ∀ c ∈ a, isDigit c = true) ∨ (∃ t, a = 45 :: t ∧ t ≠ [] ∧ ∀ c ∈ t, isDigit c = true)

/-- `CMD <VERB>[ <arg>]*`: upper-case verb, single blanks, decimal arguments -/
def WellFormedCmd (s : List Nat) : Prop :=
  ∃ (verb : List Nat) (args : List (List Nat)), s = str "CMD " ++ verb ++ args.flatMap (fun a => 32 :: a) ∧ verb ≠ [] ∧
    (∀ c ∈ verb, 65 ≤ c ∧ c ≤ 90) ∧ ∀ a ∈ args, IsDecTok a

theorem fmtU_tok (n : Nat) : IsDecTok (fmtU n) :=
  .inl ⟨decFuel_ne_nil 9 _, fmtU_chars n⟩

theorem fmtD_tok (x : Int) : IsDecTok (fmtD x) := by
  simp only [fmtD]
  split
  · exact .inr ⟨_, rfl, decFuel_ne_nil 9 _, decFuel_digits 10 _⟩
  · exact .inl ⟨decFuel_ne_nil 9 _, decFuel_digits 10 _⟩

theorem verb_ne (s : String) (h : (str s).length ≠ 0) : str s ≠ [] := by
  intro e; rw [e] at h; exact h rfl

theorem upper_of_all (s : String) (h : (str s).all (fun c => decide (65 ≤ c) && decide (c ≤ 90)) = true) :
    ∀ c ∈ str s, 65 ≤ c ∧ c ≤ 90 := by
  intro c hc
  have := List.all_eq_true.mp h c hc
  simpa using this

/-- the verbs and argument tokens of `emitSpec` are upper-case / decimal -/
theorem emitSpec_wf (c : PhyCmd) : ∀ e ∈ emitSpec c, e.verb ≠ [] ∧ (∀ c ∈ e.verb, 65 ≤ c ∧ c ≤ 90) ∧
    ∀ a ∈ e.args, IsDecTok a := by
  intro e he
  cases c with
  | reset =>
    simp only [emitSpec, List.mem_cons, List.mem_nil_iff, or_false] at he
    rcases he with rfl | rfl
    · exact ⟨verb_ne "POWEROFF" (by decide), upper_of_all "POWEROFF" (by decide), by simp⟩
    · exact ⟨verb_ne "ECHO" (by decide), upper_of_all "ECHO" (by decide), by simp⟩
  | poweron =>
    simp only [emitSpec, List.mem_singleton] at he; subst he
    exact ⟨verb_ne "POWERON" (by decide), upper_of_all "POWERON" (by decide), by simp⟩
  | poweroff =>
    simp only [emitSpec, List.mem_singleton] at he; subst he
    exact ⟨verb_ne "POWEROFF" (by decide), upper_of_all "POWEROFF" (by decide), by simp⟩
  | measure a =>
    simp only [emitSpec, List.mem_singleton] at he; subst he
    exact ⟨verb_ne "MEASURE" (by decide), upper_of_all "MEASURE" (by decide), by simp [fmtU_tok]⟩
  | setfreqH0 a =>
    simp only [emitSpec, List.mem_cons, List.mem_nil_iff, or_false] at he
    rcases he with rfl | rfl
    · exact ⟨verb_ne "RXTUNE" (by decide), upper_of_all "RXTUNE" (by decide), by simp [fmtU_tok]⟩
    · exact ⟨verb_ne "TXTUNE" (by decide), upper_of_all "TXTUNE" (by decide), by simp [fmtU_tok]⟩
  | setfreqH1 hsn maio n ma =>
    simp only [emitSpec, List.mem_singleton] at he; subst he
    refine ⟨verb_ne "SETFH" (by decide), upper_of_all "SETFH" (by decide), ?_⟩
    intro a ha
    simp only [List.mem_cons, List.mem_flatMap] at ha
    rcases ha with rfl | rfl | ⟨x, _, hx⟩
    · exact fmtU_tok _
    · exact fmtU_tok _
    · simp only [pairToks, List.mem_cons, List.mem_nil_iff, or_false] at hx
      rcases hx with rfl | rfl <;> exact fmtU_tok _
  | setslot tn pchan =>
    simp only [emitSpec] at he
    split at he
    · simp only [List.mem_singleton] at he; subst he
      exact ⟨verb_ne "SETSLOT" (by decide), upper_of_all "SETSLOT" (by decide), by simp [fmtU_tok]⟩
    · simp at he
  | setta ta =>
    simp only [emitSpec, List.mem_singleton] at he; subst he
    exact ⟨verb_ne "SETTA" (by decide), upper_of_all "SETTA" (by decide), by simp [fmtD_tok]⟩
  | raw ty => simp [emitSpec] at he



/-! ### helpers for concrete examples -/

def t0 : Trx := { state := stIdle, prevState := stOffline }
def tWait (q : List CtrlMsg) : Trx := { queue := q, state := stRspWait, prevState := stIdle }
/-- observations of a result: `none` = fault -/
def sentLens (r : Except Fault (Int × Trx)) : Option (Int × List Nat) :=
  match r with | .ok (rc, t) => some (rc, t.sent.map List.length) | .error _ => none
def outcome (r : Except Fault (Int × Trx)) : Option (Int × Nat × Bool × Option (Nat × Int)) :=
  match r with | .ok (rc, t) => some (rc, t.queue.length, t.elog, t.rsp) | .error _ => none
def texts (r : Except Fault (Int × Trx)) : Option (Int × List (List Nat) × List (List Nat)) :=
  match r with | .ok (rc, t) => some (rc, t.queue.map (·.cmd), t.sent) | .error _ => none
def isCrash (r : Except Fault (Int × Trx)) : Bool :=
  match r with | .error .crash => true | _ => false

instance : DecidablePred ValidCmd := fun c => by
  cases c <;> simp only [ValidCmd] <;> infer_instance


end OsmoVerif.TrxconIf
