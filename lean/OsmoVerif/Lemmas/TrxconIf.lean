/- Helper lemmas for `Model.TrxconIf` (C04 / C05 / C14, trxcon side).  Core Lean only. -/
import OsmoVerif.Model.TrxconIf
import OsmoVerif.Spec.TrxdLayout

namespace OsmoVerif.TrxconIf
open OsmoVerif.Gen.Trxcon OsmoVerif.Spec.TrxdLayout

/-! ### bit operations as arithmetic -/

theorem and255 (x : Nat) : x &&& 255 = x % 256 := Nat.and_two_pow_sub_one_eq_mod x 8
theorem and7 (x : Nat) : x &&& 7 = x % 8 := Nat.and_two_pow_sub_one_eq_mod x 3
theorem and4095 (x : Nat) : x &&& 4095 = x % 4096 := Nat.and_two_pow_sub_one_eq_mod x 12

theorem or_low (i a b : Nat) (h : b < 2 ^ i) : 2 ^ i * a ||| b = 2 ^ i * a + b :=
  (Nat.two_pow_add_eq_or_of_lt h a).symm

/-- `osmo_load32be` of four octets -/
theorem or4 (a b c d : Nat) (ha : a < 256) (hb : b < 256) (hc : c < 256) (hd : d < 256) :
    u32 (a * 16777216) ||| u32 (b * 65536) ||| u32 (c * 256) ||| d
      = 16777216 * a + 65536 * b + 256 * c + d := by
  have e1 : u32 (a * 16777216) = 2 ^ 24 * a := by simp only [u32]; omega
  have e2 : u32 (b * 65536) = 65536 * b := by simp only [u32]; omega
  have e3 : u32 (c * 256) = 256 * c := by simp only [u32]; omega
  rw [e1, e2, e3, or_low 24 a (65536 * b) (by omega)]
  have f1 : 2 ^ 24 * a + 65536 * b = 2 ^ 16 * (256 * a + b) := by omega
  rw [f1, or_low 16 _ (256 * c) (by omega)]
  have f2 : 2 ^ 16 * (256 * a + b) + 256 * c = 2 ^ 8 * (65536 * a + 256 * b + c) := by omega
  rw [f2, or_low 8 _ d (by omega)]

theorem store32be_eq (x : Nat) : store32be x = [x / 16777216 % 256, x / 65536 % 256, x / 256 % 256, x % 256] := by
  simp only [store32be, and255, Nat.shiftRight_eq_div_pow]

/-! ### checked buffer access -/

theorem rd_ok {mem : List Nat} {cap i b : Nat} (h : mem[i]? = some b) (hc : i < cap) : rd mem cap i = .ok b := by
  simp only [rd, h]
  split
  · omega
  · rfl

theorem rd_lt {mem : List Nat} {cap i : Nat} (h : i < mem.length) (hc : mem.length ≤ cap) :
    rd mem cap i = .ok mem[i] := by
  apply rd_ok _ (by omega)
  exact List.getElem?_eq_getElem h

/-- the ubit→sbit loop over `pre ++ xs ++ post`, started at the first octet of `xs` -/
theorem convLoop_append (cap : Nat) (xs : List Nat) : ∀ (pre post : List Nat) (i : Nat),
    pre.length = 8 + i → pre.length + xs.length ≤ cap →
    convLoop cap (pre ++ xs ++ post) i xs.length = .ok (pre ++ xs.map sbitOctet ++ post) := by
  induction xs with
  | nil => intro pre post i _ _; simp [convLoop]
  | cons x xs ih =>
    intro pre post i hp hc
    simp only [List.length_cons] at hc
    have hrd : rd (pre ++ x :: xs ++ post) cap (8 + i) = .ok x := by
      apply rd_ok _ (by omega)
      rw [List.append_assoc, List.getElem?_append_right (by omega)]
      simp [hp]
    have hwr : wr (pre ++ x :: xs ++ post) cap (8 + i) (sbitOctet x)
        = .ok ((pre ++ [sbitOctet x]) ++ xs ++ post) := by
      simp only [wr]
      rw [if_neg (by omega), if_pos (by simp; omega)]
      rw [List.append_assoc, List.set_append_right _ _ (by omega)]
      simp [hp]
    simp only [List.length_cons, convLoop, hrd, hwr, bind, Except.bind]
    have := ih (pre ++ [sbitOctet x]) post (i + 1) (by simp; omega) (by simp; omega)
    rw [this]
    simp

theorem readBurst_append (cap : Nat) (ys : List Nat) : ∀ (pre post : List Nat) (i : Nat),
    pre.length = 8 + i → pre.length + ys.length ≤ cap →
    readBurst cap (pre ++ ys ++ post) i ys.length = .ok (ys.map s8) := by
  induction ys with
  | nil => intro pre post i _ _; simp [readBurst]
  | cons y ys ih =>
    intro pre post i hp hc
    simp only [List.length_cons] at hc
    have hrd : rd (pre ++ y :: ys ++ post) cap (8 + i) = .ok y := by
      apply rd_ok _ (by omega)
      rw [List.append_assoc, List.getElem?_append_right (by omega)]
      simp [hp]
    have e : pre ++ y :: ys ++ post = (pre ++ [y]) ++ ys ++ post := by simp
    have := ih (pre ++ [y]) post (i + 1) (by simp; omega) (by simp; omega)
    simp only [List.length_cons, readBurst, hrd, bind, Except.bind]
    rw [e, this]
    simp [pure, Except.pure]

/-- any buffer with at least `8 + i + n` initialised octets splits as `pre ++ xs ++ post` -/
theorem split3 (mem : List Nat) (k n : Nat) (h : k + n ≤ mem.length) :
    mem = mem.take k ++ (mem.drop k).take n ++ mem.drop (k + n) ∧ (mem.take k).length = k ∧
      ((mem.drop k).take n).length = n := by
  refine ⟨?_, ?_, ?_⟩
  · rw [List.append_assoc, ← List.drop_drop, List.take_append_drop, List.take_append_drop]
  · simp; omega
  · simp; omega

/-! ### `trx_data_rx_cb` never faults -/

theorem load32be_ok (buf : List Nat) (cap off : Nat) (h : off + 3 < buf.length) (hc : buf.length ≤ cap) :
    ∃ v, load32be buf cap off = .ok v := by
  simp only [load32be, rd_lt (show off < buf.length by omega) hc, rd_lt (show off + 1 < buf.length by omega) hc,
    rd_lt (show off + 2 < buf.length by omega) hc, rd_lt h hc, bind, Except.bind, pure, Except.pure]
  exact ⟨_, rfl⟩

theorem convLoop_ok (cap : Nat) (mem : List Nat) (i n : Nat) (h : 8 + i + n ≤ mem.length) (hc : mem.length ≤ cap) :
    ∃ mem', convLoop cap mem i n = .ok mem' ∧ mem'.length = mem.length := by
  obtain ⟨e, l1, l2⟩ := split3 mem (8 + i) n (by omega)
  have := convLoop_append cap ((mem.drop (8 + i)).take n) (mem.take (8 + i)) (mem.drop (8 + i + n)) i l1 (by omega)
  rw [l2, ← e] at this
  refine ⟨_, this, ?_⟩
  simp; omega

theorem readBurst_ok (cap : Nat) (mem : List Nat) (i n : Nat) (h : 8 + i + n ≤ mem.length) (hc : mem.length ≤ cap) :
    ∃ b, readBurst cap mem i n = .ok b := by
  obtain ⟨e, l1, l2⟩ := split3 mem (8 + i) n (by omega)
  have := readBurst_append cap ((mem.drop (8 + i)).take n) (mem.take (8 + i)) (mem.drop (8 + i + n)) i l1 (by omega)
  rw [l2, ← e] at this
  exact ⟨_, this⟩

/-- what `trx_data_rx_cb` can come to: a return code without indication, or the two indications -/
def RxOut.noFault : RxOut → Prop
  | .fault _ => False
  | _ => True

theorem cRxInd_ok (buf : List Nat) (adv b0 n : Nat) (h : 8 + n ≤ buf.length) (hc : buf.length ≤ trxdBufSize) :
    ∃ o, cRxInd buf adv b0 n = .ok o ∧ o.noFault := by
  obtain ⟨fn, hfn⟩ := load32be_ok buf trxdBufSize 1 (by omega) hc
  obtain ⟨mem, hm, hl⟩ := convLoop_ok trxdBufSize buf 0 n (by omega) hc
  obtain ⟨b, hb⟩ := readBurst_ok trxdBufSize mem 0 n (by omega) (by omega)
  simp only [cRxInd, hfn, rd_lt (show 5 < buf.length by omega) hc, rd_lt (show 6 < buf.length by omega) hc,
    rd_lt (show 7 < buf.length by omega) hc, hm, hb, bind, Except.bind, pure, Except.pure]
  split
  · exact ⟨_, rfl, trivial⟩
  · exact ⟨_, rfl, trivial⟩

theorem burstLenSwitch_le (rl n : Nat) (h : burstLenSwitch rl = some n) : n ≤ rl := by
  simp only [burstLenSwitch] at h
  split at h
  · injection h; omega
  · split at h
    · injection h; omega
    · cases h

theorem cRxBody_ok (buf : List Nat) (adv : Nat) (h8 : trxdv0HdrLen ≤ buf.length) (hc : buf.length ≤ trxdBufSize) :
    ∃ o, cRxBody buf adv = .ok o ∧ o.noFault := by
  have hh : trxdv0HdrLen = 8 := by decide
  rw [hh] at h8
  simp only [cRxBody, rd_lt (show 0 < buf.length by omega) hc, bind, Except.bind, pure, Except.pure, hh]
  split
  · exact ⟨_, rfl, trivial⟩
  · split
    · exact ⟨_, rfl, trivial⟩
    · rename_i n hn
      exact cRxInd_ok buf adv _ n (by have := burstLenSwitch_le _ _ hn; omega) hc

theorem cRx_noFault (d : List Nat) (adv : Nat) : (cRx d adv).noFault := by
  simp only [cRx]
  split
  · trivial
  · split
    · trivial
    · rename_i h0 h8
      obtain ⟨o, ho, hn⟩ := cRxBody_ok (d.take trxdBufSize) adv (by omega) (by simp; omega)
      rw [ho]; exact hn
/-! ### field conversions of `trx_data_rx_cb` against the layout -/

/-- `.rssi = -(int8_t) buf[5]` recovers the RSSI from the octet −RSSI exactly for −128..0 -/
theorem rssi_decode (r : Int) (h1 : -128 ≤ r) (h2 : r ≤ 0) : s8i (-(s8 (-r).toNat)) = r := by
  simp only [s8i, s8]
  split <;> split <;> omega

/-- octets 129..255 decode to a positive value -/
theorem rssi_decode_out (b : Nat) (h1 : 129 ≤ b) (h2 : b ≤ 255) : s8i (-(s8 b)) = 256 - (b : Int) := by
  simp only [s8i, s8]
  split <;> split <;> omega

theorem toa_decode (u : Nat) (h : u < 65536) :
    s16i (orInt (s16 ((u / 256) <<< 8)) ((u % 256 : Nat) : Int)) = s16 u := by
  rw [Nat.shiftLeft_eq]
  by_cases hn : u / 256 < 128
  · have e1 : s16 (u / 256 * 2 ^ 8) = ((2 ^ 8 * (u / 256) : Nat) : Int) := by
      simp only [s16]; split <;> omega
    have e2 : u32i ((2 ^ 8 * (u / 256) : Nat) : Int) = 2 ^ 8 * (u / 256) := by simp only [u32i]; omega
    have e3 : u32i ((u % 256 : Nat) : Int) = u % 256 := by simp only [u32i]; omega
    rw [e1]; simp only [orInt]; rw [e2, e3, or_low 8 _ _ (by omega)]
    simp only [s16i, s32, s16]
    split <;> split <;> split <;> omega
  · have e1 : s16 (u / 256 * 2 ^ 8) = ((2 ^ 8 * (u / 256) : Nat) : Int) - 65536 := by
      simp only [s16]; split <;> omega
    have e2 : u32i (((2 ^ 8 * (u / 256) : Nat) : Int) - 65536) = 2 ^ 8 * (16776960 + u / 256) := by
      simp only [u32i]; omega
    have e3 : u32i ((u % 256 : Nat) : Int) = u % 256 := by simp only [u32i]; omega
    rw [e1]; simp only [orInt]; rw [e2, e3, or_low 8 _ _ (by omega)]
    simp only [s16i, s32, s16]
    split <;> split <;> split <;> omega

theorem s16_s16be (x : Int) (h1 : -32768 ≤ x) (h2 : x ≤ 32767) : s16 (x % 65536).toNat = x := by
  simp only [s16]; split <;> omega

theorem soft_decode (s : Int) (h1 : -127 ≤ s) (h2 : s ≤ 127) : s8 (sbitOctet (softOctet s)) = s := by
  have hne : (127 - s).toNat ≠ 255 := by omega
  simp only [softOctet, sbitOctet, s8, u8, hne, if_false]
  split <;> omega

theorem soft_decode_list (soft : List Int) (h : ∀ s ∈ soft, -127 ≤ s ∧ s ≤ 127) :
    ((soft.map softOctet).map sbitOctet).map s8 = soft := by
  induction soft with
  | nil => rfl
  | cons s t ih =>
    simp only [List.map_cons, List.cons.injEq]
    exact ⟨soft_decode s (h s (by simp)).1 (h s (by simp)).2, ih (fun x hx => h x (by simp [hx]))⟩

/-- the version-0 TRX→L1 layout is header (8 octets), soft bits, optional padding -/
theorem layoutRx_v0 (m : RxFields) (legacy : Bool) (soft : List Int) (hv : m.ver = 0) (hs : m.soft = some soft) :
    layoutRx m legacy =
      [m.tn, m.fn / 16777216 % 256, m.fn / 65536 % 256, m.fn / 256 % 256, m.fn % 256, (-m.rssi).toNat,
        (m.toa256 % 65536).toNat / 256, (m.toa256 % 65536).toNat % 256]
      ++ soft.map softOctet ++ (if legacy then [0, 0] else []) := by
  simp only [layoutRx, hdr, be32, s16be, pad, hv, hs]
  cases legacy <;> simp

theorem cRxInd_layout (pre : List Nat) (soft : List Int) (post : List Nat) (adv : Nat)
    (tn fn : Nat) (rssi toa : Int)
    (hpre : pre = [tn, fn / 16777216 % 256, fn / 65536 % 256, fn / 256 % 256, fn % 256, (-rssi).toNat,
        (toa % 65536).toNat / 256, (toa % 65536).toNat % 256])
    (htn : tn < 8) (hfn : fn < 2715648) (hr : -128 ≤ rssi ∧ rssi ≤ 0) (ht : -32768 ≤ toa ∧ toa ≤ 32767)
    (hb : ∀ s ∈ soft, -127 ≤ s ∧ s ≤ 127) (hlen : 8 + soft.length + post.length ≤ 512) :
    cRxInd (pre ++ soft.map softOctet ++ post) adv tn soft.length
      = .ok (.ind ⟨tn, fn, rssi, toa, soft⟩ ⟨u32 (fn + u32 adv) % 2715648, tn⟩) := by
  have hcap : trxdBufSize = 512 := by decide
  have hH : gsmTdmaHyperframe = 2715648 := by decide
  have hpl : pre.length = 8 := by rw [hpre]; rfl
  have hrd : ∀ i (hi : i < 8), rd (pre ++ soft.map softOctet ++ post) 512 i = .ok (pre[i]'(by omega)) := by
    intro i hi
    apply rd_ok _ (by omega)
    rw [List.append_assoc, List.getElem?_append_left (by omega)]
    exact List.getElem?_eq_getElem (by omega)
  have hl32 : load32be (pre ++ soft.map softOctet ++ post) 512 1 = .ok fn := by
    simp only [load32be, hrd 1 (by omega), hrd 2 (by omega), hrd 3 (by omega), hrd 4 (by omega), bind, Except.bind,
      pure, Except.pure]
    subst hpre
    simp only [List.getElem_cons_succ, List.getElem_cons_zero]
    rw [or4 _ _ _ _ (by omega) (by omega) (by omega) (by omega)]
    congr 1; omega
  have hconv := convLoop_append 512 (soft.map softOctet) pre post 0 (by omega) (by simp; omega)
  have hread := readBurst_append 512 ((soft.map softOctet).map sbitOctet) pre post 0 (by omega) (by simp; omega)
  simp only [List.length_map] at hconv hread
  simp only [cRxInd, hcap, hH, hl32, hrd 5 (by omega), hrd 6 (by omega), hrd 7 (by omega), hconv, hread, bind,
    Except.bind, pure, Except.pure]
  subst hpre
  simp only [List.getElem_cons_succ, List.getElem_cons_zero]
  rw [if_neg (by omega), toa_decode _ (by omega), rssi_decode _ hr.1 hr.2, s16_s16be _ ht.1 ht.2,
    soft_decode_list _ hb, and7, Nat.mod_eq_of_lt htn]

end OsmoVerif.TrxconIf
