/-
Helper lemmas about histories on one capture-file object (`OsmoVerif.Model.TrxdDumpHist`) for C15:
no read method ever raises (on ANY content and cursor), reads never change the content, a read's answer
does not depend on the cursor it starts from, `append_msg` / `append_all` add the records at the end of
the content wherever the cursor was; one step and a whole history against the content-only
specification.
-/
import OsmoVerif.Model.TrxdDumpHist
import OsmoVerif.Lemmas.TrxdDump
set_option linter.unusedSimpArgs false
namespace OsmoVerif.TrxdDump
open OsmoVerif OsmoVerif.Trxd

/-! ### the read methods: total, content preserving -/

theorem length_three {α} (l : List α) (h : l.length = 3) : ∃ a b c, l = [a, b, c] := by
  match l, h with
  | [a, b, c], _ => exact ⟨a, b, c, rfl⟩

/-- `parse_hdr` on three octets never raises -/
theorem parseHdr_three (hdr : Bytes) (h : hdr.length = 3) : ∃ o, parseHdr hdr = .ok o := by
  obtain ⟨a, b, c, rfl⟩ := length_three hdr h
  have hu : unpackBE16u (slice [a, b, c] 1 3) = .ok (b * 256 + c) := rfl
  simp only [parseHdr, hu, bind, Except.bind, pure, Except.pure]
  by_cases h1 : List.take 1 [a, b, c] = Gen.Trxd.dumpTagTx
  · exact ⟨some (.tx, b * 256 + c), by rw [if_pos h1]⟩
  · by_cases h2 : List.take 1 [a, b, c] = Gen.Trxd.dumpTagRx
    · exact ⟨some (.rx, b * 256 + c), by rw [if_neg h1, if_pos h2]⟩
    · exact ⟨none, by rw [if_neg h1, if_neg h2]⟩

/-- the loop of `_seek2msg` never raises and leaves the content alone -/
theorem seekLoop_total : ∀ (n : Nat) (f : File), ∃ rc f', seekLoop n f = .ok (rc, f') ∧ f'.data = f.data := by
  intro n
  induction n with
  | zero => intro f; exact ⟨true, f, rfl, rfl⟩
  | succ n ih =>
    intro f
    by_cases hl : ((f.data.drop f.pos).take 3).length = 3
    · obtain ⟨o, ho⟩ := parseHdr_three _ hl
      cases o with
      | none =>
        refine ⟨false, (f.read 3).2, ?_, rfl⟩
        simp only [seekLoop, File.read, hdrLength_eq, hl, ho, bind, Except.bind, pure, Except.pure, ne_eq,
          not_true_eq_false, if_false]
      | some kl =>
        obtain ⟨k, len⟩ := kl
        obtain ⟨rc, f', hf', hd⟩ := ih (((f.read 3).2).seekCur len)
        refine ⟨rc, f', ?_, by rw [hd]; rfl⟩
        simp only [seekLoop, File.read, hdrLength_eq, hl, ho, bind, Except.bind, pure, Except.pure, ne_eq,
          not_true_eq_false, if_false]
        simpa only [File.read, hl] using hf'
    · refine ⟨false, (f.read 3).2, ?_, rfl⟩
      simp only [seekLoop, File.read, hdrLength_eq, hl, bind, Except.bind, pure, Except.pure, ne_eq,
        not_false_eq_true, if_true]

/-- `_seek2msg(idx)` does not depend on the cursor it is called with -/
theorem seek2msg_cursor (d : Bytes) (p idx : Nat) : seek2msg ⟨d, p⟩ idx = seek2msg ⟨d, 0⟩ idx := rfl

theorem seek2msg_total (f : File) (idx : Nat) :
    ∃ rc f', seek2msg f idx = .ok (rc, f') ∧ f'.data = f.data := by
  obtain ⟨rc, f', h, hd⟩ := seekLoop_total idx f.seek0
  exact ⟨rc, f', h, hd⟩

/-- `_parse_msg()` never raises and leaves the content alone -/
theorem parseOne_total (f : File) : ∃ r f', parseOne f = .ok (r, f') ∧ f'.data = f.data := by
  by_cases hl : ((f.data.drop f.pos).take 3).length = 3
  · obtain ⟨o, ho⟩ := parseHdr_three _ hl
    cases o with
    | none =>
      refine ⟨.none, (f.read 3).2, ?_, rfl⟩
      simp only [parseOne, File.read, hdrLength_eq, hl, ho, bind, Except.bind, pure, Except.pure, ne_eq,
        not_true_eq_false, if_false]
    | some kl =>
      obtain ⟨k, len⟩ := kl
      by_cases hr : (((f.read 3).2.read len).1).length = len
      · refine ⟨parseRaw k ((f.read 3).2.read len).1, ((f.read 3).2.read len).2, ?_, rfl⟩
        simp only [File.read, hl] at hr
        simp only [parseOne, File.read, hdrLength_eq, hl, ho, hr, bind, Except.bind, pure, Except.pure, ne_eq,
          not_true_eq_false, if_false]
      · refine ⟨.none, ((f.read 3).2.read len).2, ?_, rfl⟩
        simp only [File.read, hl] at hr
        simp only [parseOne, File.read, hdrLength_eq, hl, ho, hr, bind, Except.bind, pure, Except.pure, ne_eq,
          not_true_eq_false, if_false, not_false_eq_true, if_true]
  · refine ⟨.none, (f.read 3).2, ?_, rfl⟩
    simp only [parseOne, File.read, hdrLength_eq, hl, bind, Except.bind, pure, Except.pure, ne_eq,
      not_false_eq_true, if_true]

/-- the `while True` loop of `parse_all` never raises and leaves the content alone -/
theorem parseLoop_total (count : Option Nat) :
    ∀ (n : Nat) (f : File) (acc : List Msg), f.data.length - f.pos ≤ n →
      ∃ res f', parseLoop count f acc = .ok (res, f') ∧ f'.data = f.data := by
  intro n
  induction n with
  | zero =>
    intro f acc hn
    obtain ⟨r, f', h1, hd⟩ := parseOne_total f
    cases r with
    | none => exact ⟨acc, f', by rw [parseLoop_eq, h1], hd⟩
    | false =>
      have := parseOne_progress f f' .false h1 (by intro h; cases h)
      omega
    | msg m =>
      have := parseOne_progress f f' (.msg m) h1 (by intro h; cases h)
      omega
  | succ n ih =>
    intro f acc hn
    obtain ⟨r, f', h1, hd⟩ := parseOne_total f
    cases r with
    | none => exact ⟨acc, f', by rw [parseLoop_eq, h1], hd⟩
    | false =>
      have hp := parseOne_progress f f' .false h1 (by intro h; cases h)
      obtain ⟨res, f'', h2, hd2⟩ := ih f' acc (by omega)
      exact ⟨res, f'', by rw [parseLoop_eq, h1]; exact h2, by rw [hd2, hd]⟩
    | msg m =>
      have hp := parseOne_progress f f' (.msg m) h1 (by intro h; cases h)
      by_cases hc : count = some (acc ++ [m]).length
      · exact ⟨acc ++ [m], f', by rw [parseLoop_eq, h1]; simp only [hc, if_true], hd⟩
      · obtain ⟨res, f'', h2, hd2⟩ := ih f' (acc ++ [m]) (by omega)
        exact ⟨res, f'', by rw [parseLoop_eq, h1]; simp only [hc, if_false]; exact h2, by rw [hd2, hd]⟩

/-- `parse_msg(idx)` never raises, whatever the content and the cursor, and leaves the content alone -/
theorem parseMsg_total (f : File) (idx : Nat) :
    ∃ r f', parseMsg f idx = .ok (r, f') ∧ f'.data = f.data := by
  obtain ⟨rc, f1, h1, hd1⟩ := seek2msg_total f idx
  cases rc with
  | false =>
    exact ⟨.none, f1, by simp only [parseMsg, h1, bind, Except.bind, pure, Except.pure, Bool.false_eq_true,
      not_false_eq_true, if_true], hd1⟩
  | true =>
    obtain ⟨r, f2, h2, hd2⟩ := parseOne_total f1
    refine ⟨r, f2, ?_, by rw [hd2, hd1]⟩
    simp only [parseMsg, h1, bind, Except.bind, pure, Except.pure, not_true_eq_false, if_false]
    exact h2

/-- `parse_all(skip, count)` never raises, whatever the content and the cursor, and leaves the content alone -/
theorem parseAll_total (f : File) (skip count : Option Nat) :
    ∃ r f', parseAll f skip count = .ok (r, f') ∧ f'.data = f.data := by
  cases skip with
  | none =>
    obtain ⟨res, f2, h2, hd2⟩ := parseLoop_total count _ f.seek0 [] (Nat.le_refl _)
    refine ⟨some res, f2, ?_, by rw [hd2]; rfl⟩
    simp only [parseAll, bind, Except.bind, pure, Except.pure, h2, not_true_eq_false, if_false]
  | some s =>
    obtain ⟨rc, f1, h1, hd1⟩ := seek2msg_total f s
    cases rc with
    | false =>
      exact ⟨none, f1, by simp only [parseAll, h1, bind, Except.bind, pure, Except.pure, Bool.false_eq_true,
        not_false_eq_true, if_true], hd1⟩
    | true =>
      obtain ⟨res, f2, h2, hd2⟩ := parseLoop_total count _ f1 [] (Nat.le_refl _)
      refine ⟨some res, f2, ?_, by rw [hd2, hd1]⟩
      simp only [parseAll, h1, bind, Except.bind, pure, Except.pure, h2, not_true_eq_false, if_false]

/-- the answer of `parse_msg(idx)` does not depend on the cursor it is called with -/
theorem parseMsg_cursor (d : Bytes) (p idx : Nat) : parseMsg ⟨d, p⟩ idx = parseMsg ⟨d, 0⟩ idx := rfl

/-- the answer of `parse_all(skip, count)` does not depend on the cursor it is called with -/
theorem parseAll_cursor (d : Bytes) (p : Nat) (skip count : Option Nat) :
    parseAll ⟨d, p⟩ skip count = parseAll ⟨d, 0⟩ skip count := by
  cases skip <;> rfl

/-! ### appending -/

theorem write_seekEnd (f : File) (b : Bytes) :
    f.seekEnd.write b = ⟨f.data ++ b, (f.data ++ b).length⟩ := write_at_end f.data b

/-- `append_msg`: wherever the cursor was, the record goes to the end of the content -/
theorem appendMsgSt_eq (f : File) (m : Msg) :
    appendMsgSt f m =
      (match dumpMsg m with
       | .ok raw => (none, ⟨f.data ++ raw, (f.data ++ raw).length⟩)
       | .error e => (some e, ⟨f.data, f.data.length⟩)) := by
  unfold appendMsgSt
  cases dumpMsg m with
  | error e => rfl
  | ok raw => simp only [write_seekEnd]

/-- the `Except` form of `append_msg` used by the stored/read theorems is the same method -/
theorem appendMsg_eq_St (f : File) (m : Msg) :
    appendMsg f m = (match appendMsgSt f m with
      | (none, f') => .ok f'
      | (some e, _) => .error e) := by
  unfold appendMsg appendMsgSt
  cases dumpMsg m with
  | error e => rfl
  | ok raw => rfl

theorem appendAllSt_eq : ∀ (ms : List Msg) (f : File),
    (appendAllSt f ms).1 = (dumpAll ms).1 ∧ (appendAllSt f ms).2.data = f.data ++ (dumpAll ms).2 := by
  intro ms
  induction ms with
  | nil => intro f; simp [appendAllSt, dumpAll]
  | cons m ms ih =>
    intro f
    cases hd : dumpMsg m with
    | error e => simp [appendAllSt, dumpAll, appendMsgSt_eq, hd]
    | ok raw =>
      obtain ⟨h1, h2⟩ := ih ⟨f.data ++ raw, (f.data ++ raw).length⟩
      simp only [appendAllSt, dumpAll, appendMsgSt_eq, hd, h1, h2, List.append_assoc, and_self]

/-- the `Except` form of `append_all` is the same method -/
theorem appendAll_eq_St : ∀ (ms : List Msg) (f : File),
    appendAll f ms = (match appendAllSt f ms with
      | (none, f') => .ok f'
      | (some e, _) => .error e) := by
  intro ms
  induction ms with
  | nil => intro f; rfl
  | cons m ms ih =>
    intro f
    cases hd : dumpMsg m with
    | error e => simp [appendAll, appendAllSt, appendMsg_eq_St, appendMsgSt_eq, hd, bind, Except.bind]
    | ok raw =>
      simp only [appendAll, appendAllSt, appendMsg_eq_St, appendMsgSt_eq, hd, bind, Except.bind]
      exact ih _

/-! ### one step, a whole history -/

/-- every operation leaves an object behind (no read raises), answers what the content alone determines
and turns the content into what the content alone determines -/
theorem step_spec (f : File) (op : Op) :
    ∃ f', step f op = ((specStep f.data op).1, some f') ∧ f'.data = (specStep f.data op).2 := by
  cases op with
  | appendMsg m =>
    cases hd : dumpMsg m with
    | error e => exact ⟨⟨f.data, f.data.length⟩, by simp only [step, specStep, appendMsgSt_eq, hd], by simp only [specStep, hd]⟩
    | ok raw =>
      exact ⟨⟨f.data ++ raw, (f.data ++ raw).length⟩, by simp only [step, specStep, appendMsgSt_eq, hd],
        by simp only [specStep, hd]⟩
  | appendAll ms =>
    obtain ⟨h1, h2⟩ := appendAllSt_eq ms f
    cases he : (dumpAll ms).1 with
    | none =>
      have hs : appendAllSt f ms = (none, (appendAllSt f ms).2) := by rw [← he, ← h1]
      have hq : dumpAll ms = (none, (dumpAll ms).2) := by rw [← he]
      refine ⟨(appendAllSt f ms).2, ?_, ?_⟩
      · rw [step, hs, specStep, hq]
      · rw [h2, specStep, hq]
    | some e =>
      have hs : appendAllSt f ms = (some e, (appendAllSt f ms).2) := by rw [← he, ← h1]
      have hq : dumpAll ms = (some e, (dumpAll ms).2) := by rw [← he]
      refine ⟨(appendAllSt f ms).2, ?_, ?_⟩
      · rw [step, hs, specStep, hq]
      · rw [h2, specStep, hq]
  | parseMsg idx =>
    obtain ⟨r, f', h, hd⟩ := parseMsg_total f idx
    have h0 : parseMsg ⟨f.data, 0⟩ idx = .ok (r, f') := by rw [← parseMsg_cursor f.data f.pos]; exact h
    exact ⟨f', by simp only [step, specStep, h, h0], by simp only [specStep, h0, hd]⟩
  | parseAll skip count =>
    obtain ⟨r, f', h, hd⟩ := parseAll_total f skip count
    have h0 : parseAll ⟨f.data, 0⟩ skip count = .ok (r, f') := by
      rw [← parseAll_cursor f.data f.pos]; exact h
    exact ⟨f', by simp only [step, specStep, h, h0], by simp only [specStep, h0, hd]⟩
  | truncate n => exact ⟨_, rfl, rfl⟩

theorem runHist_spec : ∀ (ops : List Op) (f : File),
    ∃ fe, runHist f ops = ((specHist f.data ops).1, some fe) ∧ fe.data = (specHist f.data ops).2 := by
  intro ops
  induction ops with
  | nil => intro f; exact ⟨f, rfl, rfl⟩
  | cons op ops ih =>
    intro f
    obtain ⟨f', hs, hd⟩ := step_spec f op
    obtain ⟨fe, hr, hde⟩ := ih f'
    refine ⟨fe, ?_, ?_⟩
    · simp only [runHist, hs, hr, specHist, hd]
    · simp only [specHist, ← hd, hde]

theorem specHist_append (d : Bytes) (a b : List Op) :
    specHist d (a ++ b) = ((specHist d a).1 ++ (specHist (specHist d a).2 b).1, (specHist (specHist d a).2 b).2) := by
  induction a generalizing d with
  | nil => simp [specHist]
  | cons op a ih => simp only [List.cons_append, specHist, ih, List.cons_append]

end OsmoVerif.TrxdDump
