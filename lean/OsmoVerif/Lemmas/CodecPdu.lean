/- Evaluation lemmas used for the TRXD PDU definitions (C17). -/
import OsmoVerif.Lemmas.CodecErr
import OsmoVerif.Spec.TrxdPduLayout
namespace OsmoVerif.Codec
open OsmoVerif.Spec.Trxd

theorem fdiv_one (x : Int) : Int.fdiv x 1 = x := by
  have := Int.mul_fdiv_cancel x (b := 1) (by decide)
  rwa [Int.mul_one] at this

theorem fdiv_neg_one (x : Int) : Int.fdiv x (-1) = -x := by
  have := Int.mul_fdiv_cancel (-x) (b := -1) (by decide)
  rwa [Int.neg_mul_neg, Int.mul_one] at this

/-- an unconditional integer field encodes its (scaled) value in `len` octets -/
theorem fieldTo_int_eval (name : String) (len : Nat) (bo : BO) (sg : Bool) (off mult : Int) (v : Vals) (x : Int)
    (hg : Vals.get v name = .ok (.int x)) (hm : mult ≠ 0)
    (hf : fitsInt len sg (Int.fdiv (x - off) mult) = true) :
    fieldTo (.int name .always len bo sg off mult) v
      = .ok (bytesOf len bo (Int.fdiv (x - off) mult % ((256 ^ len : Nat) : Int)).toNat) := by
  simp only [fieldTo, fieldToCore, getPres, intEnc, Vals.getInt, hg, hm, if_false]
  rw [intToBytes_of_fits _ _ _ _ hf]
  simp [bytesOf_length]

theorem fieldTo_buf_eval (name : String) (ld : LenD) (v : Vals) (b : List Nat)
    (hg : Vals.get v name = .ok (.bytes b)) (hl : ld.selfLen = 0) (pres : Pres) (hp : getPres pres v = .ok true) :
    fieldTo (.buf name pres ld) v = .ok b := by
  simp [fieldTo, fieldToCore, hp, Vals.getBytes, hg, hl]

theorem fieldTo_absent_eval (f : FDef) (v : Vals) (hp : getPres f.pres v = .ok false)
    (hb : ∀ p l t fs, f ≠ .bits p l t fs) : fieldTo f v = .ok [] := by
  cases f with
  | bits p l t fs => exact absurd rfl (hb p l t fs)
  | _ => simp only [FDef.pres] at hp; simp only [fieldTo]; exact fieldToCore_absent hp

/-- an unconditional BitFieldSet whose blob is known -/
theorem fieldTo_bits_eval (len : Nat) (little : Bool) (fs : List BitF) (v : Vals) (l : Nat)
    (offs : List (BitF × Nat)) (blob : Nat) (hd : bitsDerive len little fs = .ok (l, offs))
    (he : bitsEnc offs v 0 = .ok blob) (hfit : blob < 256 ^ l) :
    fieldTo (.bits .always len little fs) v = .ok (bytesOf l .big blob) := by
  have hf : fitsInt l false (blob : Int) = true := by
    rw [fitsInt_unsigned]; omega
  simp only [fieldTo, hd, fieldToCore, getPres, bitsEncBytes, he]
  rw [intToBytes_of_fits _ _ _ _ hf]
  have : ((blob : Int) % ((256 ^ l : Nat) : Int)).toNat = blob := by
    rw [Int.emod_eq_of_lt (by omega) (by omega), Int.toNat_natCast]
  rw [this]
  simp [bytesOf_length]

theorem bytesOf_1 (bo : BO) (x : Nat) : bytesOf 1 bo x = [x % 256] := by
  cases bo <;> simp [bytesOf, natToLE]

theorem bytesOf_2_big (x : Nat) : bytesOf 2 .big x = [x / 256 % 256, x % 256] := by
  simp [bytesOf, natToLE]

theorem bytesOf_4_big (x : Nat) : bytesOf 4 .big x = be32 x := by
  simp only [bytesOf, natToLE, be32, List.reverse_cons, List.reverse_nil, List.nil_append, List.cons_append,
    Nat.div_div_eq_div_mul]

/-- OR of disjoint header / MTS bit groups is the sum (finite check) -/
theorem hdr_or : ∀ ver < 16, ∀ tn < 8, ((0 ||| ver <<< 4) ||| 0) ||| tn <<< 0 = ver * 16 + tn := by decide

theorem mts_or : ∀ nope < 2, ∀ mod < 16, ∀ tsc < 8, ((0 ||| nope <<< 7) ||| mod <<< 3) ||| tsc <<< 0 = nope * 128 + mod * 8 + tsc := by
  decide

/-- position of a field inside an in-range value: what precedes it, what it stores, what follows -/
theorem inRangeFields_split : ∀ (fs1 : List FDef) (f : FDef) (fs2 : List FDef) (pre rst : Vals) (R L : Nat),
    inRangeFields (fs1 ++ f :: fs2) pre rst R = some L →
    ∃ (mid c r2 : Vals) (lr : Nat), rst = mid ++ c ++ r2 ∧
      inRangeFields fs2 (pre ++ mid ++ c) r2 R = some lr ∧
      ((getPres f.pres (pre ++ mid) = .ok false ∧ c = []) ∨
       (getPres f.pres (pre ++ mid) = .ok true ∧ ∃ l, inRangeField f (pre ++ mid) c (lr + R) = some l))
  | [], f, fs2, pre, rst, R, L, h => by
    simp only [List.nil_append, inRangeFields] at h
    cases hp : getPres f.pres pre with
    | error e => simp [hp] at h
    | ok b =>
      cases b with
      | false =>
        simp only [hp] at h
        exact ⟨[], [], rst, L, by simp, by simpa using h, .inl ⟨by simpa using hp, rfl⟩⟩
      | true =>
        simp only [hp] at h
        cases hr : inRangeFields fs2 (pre ++ List.take f.nStored rst) (List.drop f.nStored rst) R with
        | none => simp [hr] at h
        | some lr =>
          simp only [hr] at h
          cases hf : inRangeField f pre (List.take f.nStored rst) (lr + R) with
          | none => simp [hf] at h
          | some l =>
            exact ⟨[], rst.take f.nStored, rst.drop f.nStored, lr, by simp, by simpa using hr,
              .inr ⟨by simpa using hp, l, by simpa using hf⟩⟩
  | g :: fs1, f, fs2, pre, rst, R, L, h => by
    simp only [List.cons_append, inRangeFields] at h
    cases hp : getPres g.pres pre with
    | error e => simp [hp] at h
    | ok b =>
      cases b with
      | false =>
        simp only [hp] at h
        exact inRangeFields_split fs1 f fs2 pre rst R L h
      | true =>
        simp only [hp] at h
        cases hr : inRangeFields (fs1 ++ f :: fs2) (pre ++ List.take g.nStored rst) (List.drop g.nStored rst) R with
        | none => simp [hr] at h
        | some lr0 =>
          obtain ⟨mid, c, r2, lr, e1, e2, e3⟩ := inRangeFields_split fs1 f fs2 _ _ R lr0 hr
          refine ⟨rst.take g.nStored ++ mid, c, r2, lr, ?_, ?_, ?_⟩
          · rw [List.append_assoc, List.append_assoc, ← List.append_assoc mid, ← e1, List.take_append_drop]
          · simpa [List.append_assoc] using e2
          · simpa [List.append_assoc] using e3

theorem fromBytes_first_error (d : EnvDef) (f : FDef) (fsr : List FDef) (b : List Nat) (e : Err)
    (hd : d.fs = f :: fsr) (h : fieldFrom f [] b = .error e) : fromBytes d b = .error (wrapDec e) := by
  simp only [fromBytes, hd, envFrom, List.drop_zero, h, tailCheck]

theorem fieldFromCore_body_error {pres glen body pre data n e} (hp : getPres pres pre = .ok true)
    (hg : glen pre (List.length data) = .ok n) (hn : n ≤ data.length) (hb : body pre (data.take n) = .error e) :
    fieldFromCore pres glen body pre data = .error e := by
  simp only [fieldFromCore, hp, hg]
  rw [if_neg (by omega)]
  simp only [hb]

/-- two buffers that differ only in octets the first field reads, and on which the first field gives the
same result, decode identically -/
theorem fromBytes_first_congr (d : EnvDef) (f : FDef) (fsr : List FDef) (a a' rest : List Nat)
    (hd : d.fs = f :: fsr) (hl : a.length = a'.length)
    (hf : fieldFrom f [] (a ++ rest) = fieldFrom f [] (a' ++ rest))
    (hk : ∀ v k, fieldFrom f [] (a ++ rest) = .ok (v, k) → k = a.length) :
    fromBytes d (a ++ rest) = fromBytes d (a' ++ rest) := by
  simp only [fromBytes, hd, envFrom_cons, ← hf, List.length_append, hl]
  cases h : fieldFrom f [] (a ++ rest) with
  | error e => rfl
  | ok r =>
    obtain ⟨v, k⟩ := r
    have := hk v k h
    subst this
    simp only [List.drop_left]
    rw [hl, List.drop_left]

/-- v0/v1 header shape: VER(4) RES(1) TN(3) in one octet -/
def hdr1 (ver : Int) : FDef := .bits .always 1 false [⟨some "ver", 4, some ver⟩, ⟨none, 1, none⟩, ⟨some "tn", 3, none⟩]

theorem hdr1_derive (ver : Int) : bitsDerive 1 false [⟨some "ver", 4, some ver⟩, ⟨none, 1, none⟩, ⟨some "tn", 3, none⟩]
    = .ok (1, [(⟨some "ver", 4, some ver⟩, 4), (⟨none, 1, none⟩, 3), (⟨some "tn", 3, none⟩, 0)]) := rfl

/-- v2 header: VER(4) RES(1) TN(3) | BATCH(1) RES(1) TRXN(6) -/
def hdr2 : FDef := .bits .always 2 false [⟨some "ver", 4, some 2⟩, ⟨none, 1, none⟩, ⟨some "tn", 3, none⟩,
  ⟨some "batch", 1, none⟩, ⟨none, 1, none⟩, ⟨some "trxn", 6, none⟩]

theorem hdr2_derive : bitsDerive 2 false [⟨some "ver", 4, some 2⟩, ⟨none, 1, none⟩, ⟨some "tn", 3, none⟩,
      ⟨some "batch", 1, none⟩, ⟨none, 1, none⟩, ⟨some "trxn", 6, none⟩] = .ok (2, [(⟨some "ver", 4, some 2⟩, 12),
      (⟨none, 1, none⟩, 11), (⟨some "tn", 3, none⟩, 8), (⟨some "batch", 1, none⟩, 7), (⟨none, 1, none⟩, 6),
      (⟨some "trxn", 6, none⟩, 0)]) := rfl

theorem natcast_mod_toNat (x B : Nat) (h : x < B) : ((x : Int) % ((B : Nat) : Int)).toNat = x := by
  rw [Int.emod_eq_of_lt (by omega) (by omega), Int.toNat_natCast]

/-- the v0/v1 header octet -/
theorem hdr1_enc (veri : Int) (ver tn : Nat) (v : Vals) (hvi : veri = (ver : Int)) (hver : ver < 16) (htn : tn < 8)
    (hg : v.get "tn" = .ok (.int tn)) :
    fieldTo (hdr1 veri) v = .ok [hdrOctet ver tn] := by
  subst hvi
  have he : bitsEnc [(⟨some "ver", 4, some (ver : Int)⟩, 4), (⟨none, 1, none⟩, 3), (⟨some "tn", 3, none⟩, 0)] v 0
      = .ok (ver * 16 + tn) := by
    simp only [bitsEnc, bitEnc, hg, natcast_mod_toNat ver (2 ^ 4) hver, natcast_mod_toNat tn (2 ^ 3) htn]
    rw [hdr_or ver hver tn htn]
  have := fieldTo_bits_eval 1 false _ v 1 _ (ver * 16 + tn) (hdr1_derive ver) he (by omega)
  simp only [hdr1, this, bytesOf_1, hdrOctet]
  congr 2; omega

/-- the MTS set: NOPE(1) MOD(4) TSC(3) -/
def mtsSet : FDef := .bits .always 1 false [⟨some "nope", 1, none⟩, ⟨some "mod", 4, none⟩, ⟨some "tsc", 3, none⟩]

theorem mts_derive : bitsDerive 1 false [⟨some "nope", 1, none⟩, ⟨some "mod", 4, none⟩, ⟨some "tsc", 3, none⟩]
    = .ok (1, [(⟨some "nope", 1, none⟩, 7), (⟨some "mod", 4, none⟩, 3), (⟨some "tsc", 3, none⟩, 0)]) := rfl

theorem mts_enc (nope mod tsc : Nat) (v : Vals) (h1 : nope < 2) (h2 : mod < 16) (h3 : tsc < 8)
    (g1 : v.get "nope" = .ok (.int nope)) (g2 : v.get "mod" = .ok (.int mod)) (g3 : v.get "tsc" = .ok (.int tsc)) :
    fieldTo mtsSet v = .ok [mtsOctet nope mod tsc] := by
  have he : bitsEnc [(⟨some "nope", 1, none⟩, 7), (⟨some "mod", 4, none⟩, 3), (⟨some "tsc", 3, none⟩, 0)] v 0
      = .ok (nope * 128 + mod * 8 + tsc) := by
    simp only [bitsEnc, bitEnc, g1, g2, g3, natcast_mod_toNat nope (2 ^ 1) h1, natcast_mod_toNat mod (2 ^ 4) h2,
      natcast_mod_toNat tsc (2 ^ 3) h3]
    rw [mts_or nope h1 mod h2 tsc h3]
  have := fieldTo_bits_eval 1 false _ v 1 _ (nope * 128 + mod * 8 + tsc) mts_derive he (by omega)
  simp only [mtsSet, this, bytesOf_1, mtsOctet]
  congr 2; omega

/-- an unsigned one-octet field with `mult = -1` (RSSI sent as `-RSSI`) -/
theorem neg_u8_enc (name : String) (v : Vals) (x : Int) (hg : v.get name = .ok (.int x)) (h1 : -255 ≤ x) (h2 : x ≤ 0) :
    fieldTo (.int name .always 1 .big false 0 (-1)) v = .ok [(-x).toNat] := by
  have := fieldTo_int_eval name 1 .big false 0 (-1) v x hg (by decide)
    (by rw [fitsInt_unsigned, Int.sub_zero, fdiv_neg_one]; omega)
  rw [this, Int.sub_zero, fdiv_neg_one, bytesOf_1]
  have e : (-x % ((256 ^ 1 : Nat) : Int)) = -x := Int.emod_eq_of_lt (by omega) (by omega)
  rw [e]
  congr 2; omega

/-- a signed 16-bit big-endian field -/
theorem i16_enc (name : String) (v : Vals) (x : Int) (hg : v.get name = .ok (.int x)) (h1 : -32768 ≤ x) (h2 : x ≤ 32767) :
    fieldTo (.int name .always 2 .big true 0 1) v = .ok (be16s x) := by
  have := fieldTo_int_eval name 2 .big true 0 1 v x hg (by decide)
    (by rw [fitsInt_signed _ _ (by decide), Int.sub_zero, fdiv_one]; omega)
  rw [this, Int.sub_zero, fdiv_one, bytesOf_2_big, be16s]
  have : ((256 ^ 2 : Nat) : Int) = 65536 := by decide
  rw [this]
  congr 2; omega

theorem u8_enc (name : String) (v : Vals) (x : Nat) (hg : v.get name = .ok (.int x)) (h : x < 256) :
    fieldTo (.int name .always 1 .big false 0 1) v = .ok [x] := by
  have := fieldTo_int_eval name 1 .big false 0 1 v x hg (by decide)
    (by rw [fitsInt_unsigned, Int.sub_zero, fdiv_one]; omega)
  rw [this, Int.sub_zero, fdiv_one, natcast_mod_toNat x _ (by omega), bytesOf_1]
  congr 2; omega

theorem u32_enc (name : String) (v : Vals) (x : Nat) (hg : v.get name = .ok (.int x)) (h : x < 4294967296) :
    fieldTo (.int name .always 4 .big false 0 1) v = .ok (be32 x) := by
  have := fieldTo_int_eval name 4 .big false 0 1 v x hg (by decide)
    (by rw [fitsInt_unsigned, Int.sub_zero, fdiv_one]; omega)
  rw [this, Int.sub_zero, fdiv_one, natcast_mod_toNat x _ (by omega), bytesOf_4_big]

/-! ## version 2 pieces -/

set_option maxRecDepth 100000 in
theorem hdr2_or : ∀ tn < 8, ∀ batch < 2, ∀ trxn < 64,
    (((((0 ||| 2 <<< 12) ||| 0) ||| tn <<< 8) ||| batch <<< 7) ||| 0) ||| trxn <<< 0 = 8192 + tn * 256 + batch * 128 + trxn := by
  decide +kernel

set_option maxRecDepth 100000 in
theorem hdr2b_or : ∀ tn < 8, ∀ batch < 2, ∀ shadow < 2, ∀ trxn < 64,
    (((((0 ||| 0) ||| 0) ||| tn <<< 8) ||| batch <<< 7) ||| shadow <<< 6) ||| trxn <<< 0
      = tn * 256 + batch * 128 + shadow * 64 + trxn := by
  decide +kernel

theorem hdr2_enc (tn batch trxn : Nat) (v : Vals) (h1 : tn < 8) (h2 : batch < 2) (h3 : trxn < 64)
    (g1 : v.get "tn" = .ok (.int tn)) (g2 : v.get "batch" = .ok (.int batch)) (g3 : v.get "trxn" = .ok (.int trxn)) :
    fieldTo hdr2 v = .ok (hdr2Primary tn batch trxn) := by
  have he : bitsEnc [(⟨some "ver", 4, some 2⟩, 12), (⟨none, 1, none⟩, 11), (⟨some "tn", 3, none⟩, 8),
      (⟨some "batch", 1, none⟩, 7), (⟨none, 1, none⟩, 6), (⟨some "trxn", 6, none⟩, 0)] v 0
      = .ok (8192 + tn * 256 + batch * 128 + trxn) := by
    have e2 : ((2 : Int) % ((2 ^ 4 : Nat) : Int)).toNat = 2 := by decide
    simp only [bitsEnc, bitEnc, g1, g2, g3, e2, natcast_mod_toNat tn (2 ^ 3) h1, natcast_mod_toNat batch (2 ^ 1) h2,
      natcast_mod_toNat trxn (2 ^ 6) h3]
    rw [hdr2_or tn h1 batch h2 trxn h3]
  have := fieldTo_bits_eval 2 false _ v 2 _ _ hdr2_derive he (by omega)
  simp only [hdr2, this, bytesOf_2_big, hdr2Primary]
  congr 2
  · congr 1; omega
  · congr 1; omega

/-- the header of a batched sub-PDU -/
def hdr2b : FDef := .bits .always 2 false [⟨none, 4, none⟩, ⟨none, 1, none⟩, ⟨some "tn", 3, none⟩,
  ⟨some "batch", 1, none⟩, ⟨some "shadow", 1, none⟩, ⟨some "trxn", 6, none⟩]

theorem hdr2b_derive : bitsDerive 2 false [⟨none, 4, none⟩, ⟨none, 1, none⟩, ⟨some "tn", 3, none⟩,
      ⟨some "batch", 1, none⟩, ⟨some "shadow", 1, none⟩, ⟨some "trxn", 6, none⟩] = .ok (2, [(⟨none, 4, none⟩, 12),
      (⟨none, 1, none⟩, 11), (⟨some "tn", 3, none⟩, 8), (⟨some "batch", 1, none⟩, 7), (⟨some "shadow", 1, none⟩, 6),
      (⟨some "trxn", 6, none⟩, 0)]) := rfl

theorem hdr2b_enc (tn batch shadow trxn : Nat) (v : Vals) (h1 : tn < 8) (h2 : batch < 2) (h4 : shadow < 2) (h3 : trxn < 64)
    (g1 : v.get "tn" = .ok (.int tn)) (g2 : v.get "batch" = .ok (.int batch)) (g4 : v.get "shadow" = .ok (.int shadow))
    (g3 : v.get "trxn" = .ok (.int trxn)) :
    fieldTo hdr2b v = .ok (hdr2Batched tn batch shadow trxn) := by
  have he : bitsEnc [(⟨none, 4, none⟩, 12), (⟨none, 1, none⟩, 11), (⟨some "tn", 3, none⟩, 8),
      (⟨some "batch", 1, none⟩, 7), (⟨some "shadow", 1, none⟩, 6), (⟨some "trxn", 6, none⟩, 0)] v 0
      = .ok (tn * 256 + batch * 128 + shadow * 64 + trxn) := by
    simp only [bitsEnc, bitEnc, g1, g2, g3, g4, natcast_mod_toNat tn (2 ^ 3) h1, natcast_mod_toNat batch (2 ^ 1) h2,
      natcast_mod_toNat shadow (2 ^ 1) h4, natcast_mod_toNat trxn (2 ^ 6) h3]
    rw [hdr2b_or tn h1 batch h2 shadow h4 trxn h3]
  have := fieldTo_bits_eval 2 false _ v 2 _ _ hdr2b_derive he (by omega)
  simp only [hdr2b, this, bytesOf_2_big, hdr2Batched]
  congr 2
  · congr 1; omega
  · congr 1; omega

/-- a signed one-octet field -/
theorem i8_enc (name : String) (v : Vals) (x : Int) (hg : v.get name = .ok (.int x)) (h1 : -128 ≤ x) (h2 : x ≤ 127) :
    fieldTo (.int name .always 1 .big true 0 1) v = .ok [i8 x] := by
  have := fieldTo_int_eval name 1 .big true 0 1 v x hg (by decide)
    (by rw [fitsInt_signed _ _ (by decide), Int.sub_zero, fdiv_one]; omega)
  rw [this, Int.sub_zero, fdiv_one, bytesOf_1, i8]
  have : ((256 ^ 1 : Nat) : Int) = 256 := by decide
  rw [this]
  congr 2; omega

/-- `Spare('spare', len=3)` with the default filler -/
theorem spare3_enc (v : Vals) : fieldTo (.spare "spare" .always (.fixed 3) [0]) v = .ok [0, 0, 0] := by
  simp [fieldTo, fieldToCore, getPres, getLen, fillerBytes, LenD.selfLen]

/-- a sequence of items each of which encodes to a known layout -/
theorem seqEnc_flat {α : Type} (enc : Vals → Except Err (List Nat)) (f : α → Vals) (lay : α → List Nat) :
    ∀ (items : List α), (∀ a ∈ items, enc (f a) = .ok (lay a)) →
      seqEnc enc (items.map (fun a => Val.dict (f a))) = .ok (items.flatMap lay)
  | [], _ => rfl
  | a :: rest, h => by
    simp only [List.map_cons, seqEnc, h a (List.mem_cons_self ..),
      seqEnc_flat enc f lay rest (fun b hb => h b (List.mem_cons_of_mem _ hb)), List.flatMap_cons]

theorem fieldTo_seq_eval (name : String) (item : List FDef) (v : Vals) (items : List Val) (out : List Nat)
    (hg : Vals.get v name = .ok (.list items)) (he : seqEnc (fun x => envTo item x) items = .ok out) :
    fieldTo (.seq name .always .rest item) v = .ok out := by
  simp [fieldTo, fieldToCore, getPres, Vals.getList, hg, he, LenD.selfLen]

end OsmoVerif.Codec
