/-
Helper lemmas for the Synchronisation-Burst decoders (C19, part "sch").

Bit-vector facts are proved for ALL naturals by "reduced domain + lifting": `x &&& m` only depends on `x % 2^n` when
`m < 2^n` (`and_lift`, from core's `Nat.and_mod_two_pow`), and the finitely many residues are evaluated by the kernel
(`decide +kernel`, no axiom).  After that every field is a div/mod expression and `omega` finishes.
-/
import OsmoVerif.Model.SchDecode
import OsmoVerif.Spec.SchCoding
import OsmoVerif.Lemmas.GsmTime

namespace OsmoVerif.SchDecode
open OsmoVerif.GsmTime

/-! ### masks and shifts -/

theorem and_lift (x m n : Nat) (hm : m < 2 ^ n) : x &&& m = (x % 2 ^ n) &&& m := by
  have h1 : (x &&& m) % 2 ^ n = (x % 2 ^ n) &&& (m % 2 ^ n) := Nat.and_mod_two_pow
  rw [Nat.mod_eq_of_lt hm, Nat.mod_eq_of_lt (Nat.and_lt_two_pow x hm)] at h1
  exact h1

theorem and_1fe_core : ∀ r < 512, r &&& 0x1fe = 2 * (r / 2 % 256) := by decide +kernel
theorem and_1fe (x : Nat) : x &&& 0x1fe = 2 * (x / 2 % 256) := by
  rw [and_lift x 0x1fe 9 (by decide), and_1fe_core _ (Nat.mod_lt _ (by decide))]
  omega
theorem and_600_core : ∀ r < 2048, r &&& 0x600 = 512 * (r / 512 % 4) := by decide +kernel
theorem and_600 (x : Nat) : x &&& 0x600 = 512 * (x / 512 % 4) := by
  rw [and_lift x 0x600 11 (by decide), and_600_core _ (Nat.mod_lt _ (by decide))]
  omega
theorem and_6_core : ∀ r < 8, r &&& 6 = 2 * (r / 2 % 4) := by decide +kernel
theorem and_6 (x : Nat) : x &&& 6 = 2 * (x / 2 % 4) := by
  rw [and_lift x 6 3 (by decide), and_6_core _ (Nat.mod_lt _ (by decide))]
  omega
theorem and_1 (x : Nat) : x &&& 1 = x % 2 := Nat.and_two_pow_sub_one_eq_mod x 1
theorem and_1f (x : Nat) : x &&& 0x1f = x % 32 := Nat.and_two_pow_sub_one_eq_mod x 5
theorem and_3f (x : Nat) : x &&& 0x3f = x % 64 := Nat.and_two_pow_sub_one_eq_mod x 6

/-- disjoint bit ranges: `|` is `+` (T1 = low bit | middle << 1 | high << 9) -/
theorem or3_core : ∀ a < 2, ∀ b < 256, ∀ c < 4, a ||| 2 * b ||| 512 * c = a + 2 * b + 512 * c := by
  decide +kernel
/-- T3' = low bit | high << 1 -/
theorem or2_core : ∀ a < 2, ∀ b < 4, a ||| 2 * b = a + 2 * b := by decide +kernel

/-! ### the fields as div/mod expressions of the word -/

def fBsic (sb : Nat) : Nat := sb / 4 % 64
def fT1 (sb : Nat) : Nat := sb / 8388608 % 2 + 2 * (sb / 256 % 256) + 512 * (sb % 4)
def fT2 (sb : Nat) : Nat := sb / 262144 % 32
def fT3p (sb : Nat) : Nat := sb / 16777216 % 2 + 2 * (sb / 65536 % 4)

theorem fBsic_lt (sb : Nat) : fBsic sb < 64 := by simp only [fBsic]; omega
theorem fT1_lt (sb : Nat) : fT1 sb < 2048 := by simp only [fT1]; omega
theorem fT2_lt (sb : Nat) : fT2 sb < 32 := by simp only [fT2]; omega
theorem fT3p_lt (sb : Nat) : fT3p sb < 8 := by simp only [fT3p]; omega

theorem bsic_nf (sb : Nat) : (sb >>> 2) &&& 0x3f = fBsic sb := by
  rw [and_3f, Nat.shiftRight_eq_div_pow]; rfl
theorem t2_nf (sb : Nat) : (sb >>> 18) &&& 0x1f = fT2 sb := by
  rw [and_1f, Nat.shiftRight_eq_div_pow]; rfl
theorem t3p_nf (sb : Nat) : ((sb >>> 24) &&& 1) ||| ((sb >>> 15) &&& 6) = fT3p sb := by
  rw [and_1, and_6, Nat.shiftRight_eq_div_pow, Nat.shiftRight_eq_div_pow,
    or2_core _ (Nat.mod_lt _ (by decide)) _ (Nat.mod_lt _ (by decide))]
  simp only [fT3p]; omega
/-- incl. the `uint32_t` wrap of `sb << 9`: the two bits kept by `& 0x600` are below bit 32 -/
theorem t1_nf (sb : Nat) :
    ((sb >>> 23) &&& 1) ||| ((sb >>> 7) &&& 0x1fe) ||| ((shlU32 sb 9) &&& 0x600) = fT1 sb := by
  rw [and_1, and_1fe, and_600, Nat.shiftRight_eq_div_pow, Nat.shiftRight_eq_div_pow,
    or3_core _ (Nat.mod_lt _ (by decide)) _ (Nat.mod_lt _ (by decide)) _ (Nat.mod_lt _ (by decide))]
  simp only [fT1, shlU32, u32, Nat.shiftLeft_eq]; omega

/-- bits 25..31 of the word take no part -/
theorem fields_mod (sb : Nat) :
    fBsic (sb % 33554432) = fBsic sb ∧ fT1 (sb % 33554432) = fT1 sb ∧ fT2 (sb % 33554432) = fT2 sb
      ∧ fT3p (sb % 33554432) = fT3p sb := by
  simp only [fBsic, fT1, fT2, fT3p]; omega
theorem fields_mod32 (sb : Nat) :
    fBsic (sb % 4294967296) = fBsic sb ∧ fT1 (sb % 4294967296) = fT1 sb ∧ fT2 (sb % 4294967296) = fT2 sb
      ∧ fT3p (sb % 4294967296) = fT3p sb := by
  simp only [fBsic, fT1, fT2, fT3p]; omega

/-! ### gsm_gsmtime2fn on the decoded fields -/

/-- `gsm_gsmtime2fn` reads `t1`, `t2`, `t3` only -/
def fnOf (t1 t2 t3 : Nat) : Nat := cGsmTime2Fn ⟨0, t1, t2, t3, 0⟩
theorem cGsmTime2Fn_eq (t : GsmTime) : cGsmTime2Fn t = fnOf t.t1 t.t2 t.t3 := rfl

/-- the value of `51 * ((t3 - t2 + 26) % 26) + t3 + 26 * 51 * t1` in `int`, before the conversion to `uint32_t` -/
def recompInt (t1 t2 t3 : Nat) : Int :=
  51 * (Int.ofNat t3 - Int.ofNat t2 + 26).tmod 26 + Int.ofNat t3 + 26 * 51 * Int.ofNat t1
theorem fnOf_eq (t1 t2 t3 : Nat) : fnOf t1 t2 t3 = (recompInt t1 t2 t3 % 4294967296).toNat := rfl

theorem recompInt_nonneg (t1 t2 t3 : Nat) (h : t2 ≤ t3 + 26) :
    recompInt t1 t2 t3 = ((51 * ((t3 + 26 - t2) % 26) + t3 + 1326 * t1 : Nat) : Int) := by
  simp only [recompInt]
  rw [tmod_nat _ _ h]
  simp only [Int.ofNat_eq_natCast]
  omega

theorem recompInt_neg (t1 t2 t3 : Nat) (h : t3 + 26 < t2) (h2 : t2 < t3 + 52) :
    recompInt t1 t2 t3 = (1326 * t1 + t3 : Nat) - ((51 * (t2 - t3 - 26) : Nat) : Int) := by
  simp only [recompInt]
  have e : (Int.ofNat t3 - Int.ofNat t2 + 26) = - ((t2 - t3 - 26 : Nat) : Int) := by
    simp only [Int.ofNat_eq_natCast]; omega
  rw [e, Int.neg_tmod, Int.tmod_eq_emod_of_nonneg (by omega)]
  simp only [Int.ofNat_eq_natCast]
  omega

theorem fnOf_nonneg (t1 t2 t3 : Nat) (h : t2 ≤ t3 + 26) (hb : t1 < 2048) (h3 : t3 < 256) :
    fnOf t1 t2 t3 = 51 * ((t3 + 26 - t2) % 26) + t3 + 1326 * t1 := by
  rw [fnOf_eq, recompInt_nonneg _ _ _ h]
  omega

/-- reverse CRT: every (T2, T3) pair below (26, 51) is the pair of exactly the residue the recomposition computes -/
theorem crt_rev_core : ∀ t2 < 26, ∀ t3 < 51,
    (51 * ((t3 + 26 - t2) % 26) + t3) % 26 = t2 ∧ (51 * ((t3 + 26 - t2) % 26) + t3) % 51 = t3
      ∧ 51 * ((t3 + 26 - t2) % 26) + t3 < 1326 := by decide +kernel

/-! ### normal forms of the two decoders -/

/-- what both decoders compute from a word `s < 2^32`, stores without wrap -/
def nfTime (s : Nat) : GsmTime :=
  let t3 := 10 * fT3p s + 1
  let fn := fnOf (fT1 s) (fT2 s) t3
  ⟨fn, fT1 s, fT2 s, t3, fn / 51 % 8⟩

theorem fw_nf (sb : Nat) :
    fwDecodeSb sb = ⟨fBsic (sb % 4294967296), nfTime (sb % 4294967296)⟩ := by
  have b0 := fBsic_lt (sb % 4294967296)
  have b1 := fT1_lt (sb % 4294967296)
  have b2 := fT2_lt (sb % 4294967296)
  have b3 := fT3p_lt (sb % 4294967296)
  simp only [fwDecodeSb, nfTime, zeroTime, bsic_nf, t1_nf, t2_nf, t3p_nf, cGsmTime2Fn_eq]
  simp only [u8, u16, u32]
  have e0 : fBsic (sb % 4294967296) % 256 = fBsic (sb % 4294967296) := by omega
  have e1 : fT1 (sb % 4294967296) % 65536 = fT1 (sb % 4294967296) := by omega
  have e2 : fT2 (sb % 4294967296) % 256 = fT2 (sb % 4294967296) := by omega
  have e3 : fT3p (sb % 4294967296) % 256 = fT3p (sb % 4294967296) := by omega
  have e4 : (fT3p (sb % 4294967296) * 10 + 1) % 256 = 10 * fT3p (sb % 4294967296) + 1 := by omega
  rw [e0, e1, e2, e3, e4]
  have e5 : ∀ x : Nat, x / 51 % 8 % 256 = x / 51 % 8 := by intro x; omega
  rw [e5]

theorem or_eq_add (a b i : Nat) (hb : b < 2 ^ i) : (a * 2 ^ i) ||| b = a * 2 ^ i + b := by
  rw [← Nat.shiftLeft_eq, Nat.shiftLeft_add_eq_or_of_lt hb]

/-- the assembly of the word from the four octets: no `int` shift overflows, `|` is `+` -/
theorem trxAssemble_eq (o0 o1 o2 o3 : Nat) (h0 : o0 < 256) (h1 : o1 < 256) (h2 : o2 < 256) (h3 : o3 < 256) :
    trxAssemble o0 o1 o2 o3 = .ok (o0 + 256 * o1 + 65536 * o2 + 16777216 * o3) := by
  have s1 : o1 <<< 8 = 256 * o1 := by rw [Nat.shiftLeft_eq]; omega
  have s2 : o2 <<< 16 = 65536 * o2 := by rw [Nat.shiftLeft_eq]; omega
  have s3 : o3 <<< 24 = 16777216 * o3 := by rw [Nat.shiftLeft_eq]; omega
  have c1 : 256 * o1 < 2147483648 := by omega
  have c2 : 65536 * o2 < 2147483648 := by omega
  have m3 : u32 o3 = o3 := by simp only [u32]; omega
  have m3' : u32 (16777216 * o3) = 16777216 * o3 := by simp only [u32]; omega
  have m2 : u32 (65536 * o2) = 65536 * o2 := by simp only [u32]; omega
  have m1 : u32 (256 * o1) = 256 * o1 := by simp only [u32]; omega
  have m0 : u32 o0 = o0 := by simp only [u32]; omega
  -- ((o3<<24 | o2<<16) | o1<<8) | o0, innermost first
  have a1 : 16777216 * o3 ||| 65536 * o2 = 16777216 * o3 + 65536 * o2 := by
    have := or_eq_add o3 (65536 * o2) 24 (by omega)
    rw [show o3 * 2 ^ 24 = 16777216 * o3 by omega] at this; exact this
  have a2 : (16777216 * o3 + 65536 * o2) ||| 256 * o1 = 16777216 * o3 + 65536 * o2 + 256 * o1 := by
    have := or_eq_add (256 * o3 + o2) (256 * o1) 16 (by omega)
    rw [show (256 * o3 + o2) * 2 ^ 16 = 16777216 * o3 + 65536 * o2 by omega] at this; exact this
  have a3 : (16777216 * o3 + 65536 * o2 + 256 * o1) ||| o0 = 16777216 * o3 + 65536 * o2 + 256 * o1 + o0 := by
    have := or_eq_add (65536 * o3 + 256 * o2 + o1) o0 8 (by omega)
    rw [show (65536 * o3 + 256 * o2 + o1) * 2 ^ 8 = 16777216 * o3 + 65536 * o2 + 256 * o1 by omega] at this
    exact this
  have m4 : u32 (16777216 * o3 + 65536 * o2 + 256 * o1 + o0) = o0 + 256 * o1 + 65536 * o2 + 16777216 * o3 := by
    simp only [u32]; omega
  simp only [trxAssemble, shlInt, shlU32, s1, s2, s3, c1, c2, if_true, m3, m3', m2, m1, m0, bind, Except.bind,
    pure, Except.pure, a1, a2, a3, m4]

theorem trx_nf (t : GsmTime) (o0 o1 o2 o3 : Nat) (h0 : o0 < 256) (h1 : o1 < 256) (h2 : o2 < 256) (h3 : o3 < 256) :
    trxDecodeSb t o0 o1 o2 o3 =
      .ok ⟨fBsic (o0 + 256 * o1 + 65536 * o2 + 16777216 * o3),
           { nfTime (o0 + 256 * o1 + 65536 * o2 + 16777216 * o3) with tc := t.tc }⟩ := by
  have b0 := fBsic_lt (o0 + 256 * o1 + 65536 * o2 + 16777216 * o3)
  have b1 := fT1_lt (o0 + 256 * o1 + 65536 * o2 + 16777216 * o3)
  have b2 := fT2_lt (o0 + 256 * o1 + 65536 * o2 + 16777216 * o3)
  have b3 := fT3p_lt (o0 + 256 * o1 + 65536 * o2 + 16777216 * o3)
  simp only [trxDecodeSb, trxAssemble_eq o0 o1 o2 o3 h0 h1 h2 h3, bind, Except.bind, pure, Except.pure,
    nfTime, bsic_nf, t1_nf, t2_nf, t3p_nf, cGsmTime2Fn_eq]
  simp only [u8, u16]
  have e0 : fBsic (o0 + 256 * o1 + 65536 * o2 + 16777216 * o3) % 256
      = fBsic (o0 + 256 * o1 + 65536 * o2 + 16777216 * o3) := by omega
  have e1 : fT1 (o0 + 256 * o1 + 65536 * o2 + 16777216 * o3) % 65536
      = fT1 (o0 + 256 * o1 + 65536 * o2 + 16777216 * o3) := by omega
  have e2 : fT2 (o0 + 256 * o1 + 65536 * o2 + 16777216 * o3) % 256
      = fT2 (o0 + 256 * o1 + 65536 * o2 + 16777216 * o3) := by omega
  have e3 : fT3p (o0 + 256 * o1 + 65536 * o2 + 16777216 * o3) % 256
      = fT3p (o0 + 256 * o1 + 65536 * o2 + 16777216 * o3) := by omega
  have e4 : (fT3p (o0 + 256 * o1 + 65536 * o2 + 16777216 * o3) * 10 + 1) % 256
      = 10 * fT3p (o0 + 256 * o1 + 65536 * o2 + 16777216 * o3) + 1 := by omega
  rw [e0, e1, e2, e3, e4]

/-! ### the word built from the parts of the fields -/

/-- Octet arithmetic of figure 9.1.30.1 with the parts of T1 and T3' named, any garbage `g` above bit 24: every part is
read back by the div/mod expression of its position. -/
theorem word_parts (b a m l t2 ph pl g : Nat) (hb : b < 64) (ha : a < 4) (hm : m < 256) (hl : l < 2) (h2 : t2 < 32)
    (hph : ph < 4) (hpl : pl < 2) :
    let w := b * 4 + a + 256 * m + 65536 * (l * 128 + t2 * 4 + ph) + 16777216 * pl + 33554432 * g
    w / 4 % 64 = b ∧ w % 4 = a ∧ w / 256 % 256 = m ∧ w / 8388608 % 2 = l ∧ w / 262144 % 32 = t2
      ∧ w / 65536 % 4 = ph ∧ w / 16777216 % 2 = pl := by
  intro w
  refine ⟨?_, ?_, ?_, ?_, ?_, ?_, ?_⟩ <;> omega

/-- the fields of the word of `Spec.SchCoding.octets f` (+ any garbage above bit 24) are `f` -/
theorem encodeFields_flat (f : Spec.SchCoding.Fields) : Spec.SchCoding.encodeFields f = f.bsic * 4 + f.t1 / 512 + 256 * (f.t1 / 2 % 256)
      + 65536 * (f.t1 % 2 * 128 + f.t2 * 4 + f.t3p / 2) + 16777216 * (f.t3p % 2) := by
  simp only [Spec.SchCoding.encodeFields, Spec.SchCoding.octets, Spec.SchCoding.wordOfOctets, Nat.mul_zero, Nat.add_zero, Nat.mul_add, ← Nat.mul_assoc, Nat.reduceMul]
  simp only [Nat.add_assoc]

theorem t1_parts (t1 : Nat) : t1 % 2 + 2 * (t1 / 2 % 256) + 512 * (t1 / 512) = t1 := by omega
theorem t3p_parts (x : Nat) : x % 2 + 2 * (x / 2) = x := by omega

theorem fields_of_encode (f : Spec.SchCoding.Fields) (h : f.InWidth) (g : Nat) :
    fBsic (Spec.SchCoding.encodeFields f + 33554432 * g) = f.bsic ∧ fT1 (Spec.SchCoding.encodeFields f + 33554432 * g) = f.t1
      ∧ fT2 (Spec.SchCoding.encodeFields f + 33554432 * g) = f.t2 ∧ fT3p (Spec.SchCoding.encodeFields f + 33554432 * g) = f.t3p := by
  obtain ⟨h0, h1, h2, h3⟩ := h
  have ha : f.t1 / 512 < 4 := by omega
  have hm : f.t1 / 2 % 256 < 256 := by omega
  have hl : f.t1 % 2 < 2 := by omega
  have hph : f.t3p / 2 < 4 := by omega
  have hpl : f.t3p % 2 < 2 := by omega
  obtain ⟨p0, p1, p2, p3, p4, p5, p6⟩ :=
    word_parts f.bsic (f.t1 / 512) (f.t1 / 2 % 256) (f.t1 % 2) f.t2 (f.t3p / 2) (f.t3p % 2) g h0 ha hm hl h2 hph hpl
  rw [encodeFields_flat]
  simp only [fBsic, fT1, fT2, fT3p, p0, p1, p2, p3, p4, p5, p6, t1_parts, t3p_parts, and_self]

theorem encodeFields_lt (f : Spec.SchCoding.Fields) (h : f.InWidth) : Spec.SchCoding.encodeFields f < 33554432 := by
  obtain ⟨h0, h1, h2, h3⟩ := h
  rw [encodeFields_flat]; omega

theorem t1_split (l m a : Nat) (hl : l < 2) (hm : m < 256) :
    (l + 2 * m + 512 * a) / 512 = a ∧ (l + 2 * m + 512 * a) / 2 % 256 = m ∧ (l + 2 * m + 512 * a) % 2 = l := by
  refine ⟨?_, ?_, ?_⟩ <;> omega
theorem t3p_split (l h : Nat) (hl : l < 2) : (l + 2 * h) / 2 = h ∧ (l + 2 * h) % 2 = l := by
  refine ⟨?_, ?_⟩ <;> omega
theorem word_split (sb : Nat) (h : sb < 33554432) :
    sb / 4 % 64 * 4 + sb % 4 + 256 * (sb / 256 % 256)
      + 65536 * (sb / 8388608 % 2 * 128 + sb / 262144 % 32 * 4 + sb / 65536 % 4) + 16777216 * (sb / 16777216 % 2) = sb := by
  omega

/-- a 25-bit word is the encoding of the fields read from it -/
theorem encode_of_fields (sb : Nat) (h : sb < 33554432) :
    Spec.SchCoding.encodeFields ⟨fBsic sb, fT1 sb, fT2 sb, fT3p sb⟩ = sb := by
  rw [encodeFields_flat]
  simp only [fBsic, fT1, fT2, fT3p]
  obtain ⟨a1, a2, a3⟩ := t1_split (sb / 8388608 % 2) (sb / 256 % 256) (sb % 4) (by omega) (by omega)
  obtain ⟨c1, c2⟩ := t3p_split (sb / 16777216 % 2) (sb / 65536 % 4) (by omega)
  rw [a1, a2, a3, c1, c2]
  exact word_split sb h

/-- position of a residue `r < 1326` in superframe `t1` -/
theorem crt_parts (r t1 : Nat) (hr : r < 1326) :
    (r + 1326 * t1) / 1326 = t1 ∧ (r + 1326 * t1) % 26 = r % 26 ∧ (r + 1326 * t1) % 51 = r % 51 := by
  refine ⟨?_, ?_, ?_⟩ <;> omega
theorem mod26_u8 (x : Nat) : x % 26 % 256 < 26 := by omega
theorem mod51_u8 (x : Nat) : x % 51 % 256 < 51 := by omega

/-! ### the spec's table and frame predicate -/

/-- Reading the table backwards (for every word: only its bits 0..24 are read) gives these div/mod expressions. -/
theorem decodeByLayout_eq (w : Nat) :
    Spec.SchCoding.decodeByLayout w = ⟨w / 4 % 64, w / 8388608 % 2 + 2 * (w / 256 % 256) + 512 * (w % 4), w / 262144 % 32,
      w / 16777216 % 2 + 2 * (w / 65536 % 4)⟩ := by
  simp only [Spec.SchCoding.decodeByLayout, Spec.SchCoding.decodeByLayout.go, Spec.SchCoding.layout, Spec.SchCoding.Fields.mk.injEq, Nat.reduceAdd, Nat.reducePow]
  omega

theorem isSchFrame_iff (fn : Nat) :
    Spec.SchCoding.isSchFrame fn = true ↔ (fn % 51 = 1 ∨ fn % 51 = 11 ∨ fn % 51 = 21 ∨ fn % 51 = 31 ∨ fn % 51 = 41) := by
  simp only [Spec.SchCoding.isSchFrame, Bool.or_eq_true, beq_iff_eq, or_assoc]

end OsmoVerif.SchDecode
