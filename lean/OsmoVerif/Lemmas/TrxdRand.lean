import OsmoVerif.Model.TrxdRand
import OsmoVerif.Props.C13
import OsmoVerif.Props.C01
