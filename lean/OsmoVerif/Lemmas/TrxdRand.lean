/-
Lemmas about `OsmoVerif.Model.TrxdRand` (the message generators of data_msg.py): how each generator consumes the
random source (run equations with the LITERAL sizes of the sets asked for, so a changed bound in the tree breaks a
proof here), and the inversions "ended normally -> the stream had this shape".  Used by `Props/C13Rand.lean`.
-/
import OsmoVerif.Model.TrxdRand
import OsmoVerif.Lemmas.Trxd

namespace OsmoVerif.TrxdRand
open OsmoVerif OsmoVerif.Trxd OsmoVerif.Spec.TrxdRanges

/-! ### the monad -/

@[simp] theorem pure_run {α : Type} (a : α) (s : Src) : (pure a : Rand α) s = (.ok a, s) := rfl

theorem bind_run {α β : Type} (x : Rand α) (f : α → Rand β) (s : Src) :
    (x >>= f) s = match x s with
      | (.ok a, s') => f a s'
      | (.fail e, s') => (.fail e, s') := rfl

@[simp] theorem raise_run {α : Type} (e : Fail) (s : Src) : (raise e : Rand α) s = (.fail e, s) := rfl

/-- a sequence ended normally: so did its first part, and the rest ran on what it left -/
theorem bind_ok_inv {α β : Type} (x : Rand α) (f : α → Rand β) (s s' : Src) (b : β)
    (h : (x >>= f) s = (.ok b, s')) : ∃ a s1, x s = (.ok a, s1) ∧ f a s1 = (.ok b, s') := by
  rw [bind_run] at h
  rcases hx : x s with ⟨r, s1⟩
  rw [hx] at h
  cases r with
  | ok a => exact ⟨a, s1, rfl, h⟩
  | fail e => simp only [Prod.mk.injEq, reduceCtorEq, false_and] at h

@[simp] theorem below_cons (n k : Nat) (rest : List Nat) (log : List Draw) :
    below n ⟨k :: rest, log⟩ = (.ok k, ⟨rest, log ++ [⟨n, k⟩]⟩) := rfl

@[simp] theorem below_nil (n : Nat) (log : List Draw) : below n ⟨[], log⟩ = (.fail .dry, ⟨[], log⟩) := rfl

theorem conforms_append (st : List Nat) (l1 l2 : List Draw) :
    (⟨st, l1 ++ l2⟩ : Src).Conforms ↔ (∀ d ∈ l1, d.Ok) ∧ (∀ d ∈ l2, d.Ok) := by
  simp only [Src.Conforms, List.mem_append]
  exact ⟨fun h => ⟨fun d hd => h d (Or.inl hd), fun d hd => h d (Or.inr hd)⟩,
         fun h d hd => hd.elim (h.1 d) (h.2 d)⟩

theorem conforms_nil (st : List Nat) : (⟨st, []⟩ : Src).Conforms := by
  intro d hd; cases hd

/-! ### randint / choice -/

theorem randint_cons (a b : Int) (h : a ≤ b) (k : Nat) (rest : List Nat) (log : List Draw) :
    randint a b ⟨k :: rest, log⟩ = (.ok (a + k), ⟨rest, log ++ [⟨(b - a + 1).toNat, k⟩]⟩) := by
  have : ¬ b < a := by omega
  simp only [randint, this, if_false, bind_run, below_cons, pure_run]

theorem randint_nil (a b : Int) (h : a ≤ b) (log : List Draw) :
    randint a b ⟨[], log⟩ = (.fail .dry, ⟨[], log⟩) := by
  have : ¬ b < a := by omega
  simp only [randint, this, if_false, bind_run, below_nil]

/-- `randint(a, b)` with `b < a`: ValueError, nothing is drawn -/
theorem randint_empty (a b : Int) (h : b < a) (s : Src) : randint a b s = (.fail .valueError, s) := by
  simp only [randint, h, if_true, raise_run]

theorem finRange_get? (n k : Nat) : (List.finRange n)[k]? = if h : k < n then some ⟨k, h⟩ else none := by
  by_cases h : k < n
  · rw [List.getElem?_eq_getElem (by simpa using h)]
    simp [h]
  · rw [List.getElem?_eq_none (by simpa using h)]
    simp [h]

theorem mods_get (k : Nat) : Modulation.all[k]? = Modulation.ofIdx? k := finRange_get? _ k
theorem mods_length : Modulation.all.length = 6 := by decide
theorem mods_nonempty : Modulation.all.isEmpty = false := by decide
theorem tsc_length : Gen.Trxd.tscRange.length = 8 := by decide
theorem tsc_nonempty : Gen.Trxd.tscRange.isEmpty = false := by decide
theorem tsc_get_fin : ∀ k : Fin 8, Gen.Trxd.tscRange[k.val]? = some (k.val : Int) := by decide
theorem tsc_get (k : Nat) (h : k < 8) : Gen.Trxd.tscRange[k]? = some (k : Int) := tsc_get_fin ⟨k, h⟩
theorem tsc_none (k : Nat) (h : 8 ≤ k) : Gen.Trxd.tscRange[k]? = none := by
  apply List.getElem?_eq_none; show 8 ≤ k; exact h

/-- `random.choice(list(Modulation))`: member number `k` of the enum -/
theorem choice_mods_cons (k : Nat) (h : k < 6) (rest : List Nat) (log : List Draw) :
    choice Modulation.all ⟨k :: rest, log⟩ = (.ok ⟨k, h⟩, ⟨rest, log ++ [⟨6, k⟩]⟩) := by
  have hh : k < Gen.Trxd.modulations.length := h
  simp only [choice, mods_nonempty, Bool.false_eq_true, if_false, bind_run, mods_length, below_cons, mods_get,
    Modulation.ofIdx?, hh, dite_true, pure_run]

/-- an answer outside the enum: `seq[k]` raises IndexError -/
theorem choice_mods_bad (k : Nat) (h : 6 ≤ k) (rest : List Nat) (log : List Draw) :
    choice Modulation.all ⟨k :: rest, log⟩ = (.fail .indexError, ⟨rest, log ++ [⟨6, k⟩]⟩) := by
  have hh : ¬ k < Gen.Trxd.modulations.length := by show ¬ k < 6; omega
  simp only [choice, mods_nonempty, Bool.false_eq_true, if_false, bind_run, mods_length, below_cons, mods_get,
    Modulation.ofIdx?, hh, dite_false, raise_run]

theorem choice_mods_nil (log : List Draw) :
    choice Modulation.all ⟨[], log⟩ = (.fail .dry, ⟨[], log⟩) := by
  simp only [choice, mods_nonempty, Bool.false_eq_true, if_false, bind_run, below_nil]

/-- `random.choice(self.TSC_RANGE)`: the value `k` -/
theorem choice_tsc_cons (k : Nat) (h : k < 8) (rest : List Nat) (log : List Draw) :
    choice Gen.Trxd.tscRange ⟨k :: rest, log⟩ = (.ok (k : Int), ⟨rest, log ++ [⟨8, k⟩]⟩) := by
  simp only [choice, tsc_nonempty, Bool.false_eq_true, if_false, bind_run, tsc_length, below_cons, tsc_get k h,
    pure_run]

theorem choice_tsc_bad (k : Nat) (h : 8 ≤ k) (rest : List Nat) (log : List Draw) :
    choice Gen.Trxd.tscRange ⟨k :: rest, log⟩ = (.fail .indexError, ⟨rest, log ++ [⟨8, k⟩]⟩) := by
  simp only [choice, tsc_nonempty, Bool.false_eq_true, if_false, bind_run, tsc_length, below_cons, tsc_none k h,
    raise_run]

theorem choice_tsc_nil (log : List Draw) :
    choice Gen.Trxd.tscRange ⟨[], log⟩ = (.fail .dry, ⟨[], log⟩) := by
  simp only [choice, tsc_nonempty, Bool.false_eq_true, if_false, bind_run, below_nil]

/-! ### the value generators, with the literal sizes of the sets they ask for -/

theorem argOr_none (d : Int) : argOr none d = d := rfl
theorem argOr_some (v d : Int) : argOr (some v) d = v := rfl

theorem randFn_cons (k : Nat) (rest : List Nat) (log : List Draw) :
    randFn ⟨k :: rest, log⟩ = (.ok (k : Int), ⟨rest, log ++ [⟨2715648, k⟩]⟩) := by
  unfold randFn
  rw [randint_cons _ _ (by decide)]
  simp only [Int.zero_add]
  rfl

theorem randFn_nil (log : List Draw) : randFn ⟨[], log⟩ = (.fail .dry, ⟨[], log⟩) :=
  randint_nil _ _ (by decide) log

theorem randTn_cons (k : Nat) (rest : List Nat) (log : List Draw) :
    randTn ⟨k :: rest, log⟩ = (.ok (k : Int), ⟨rest, log ++ [⟨8, k⟩]⟩) := by
  unfold randTn
  rw [randint_cons _ _ (by decide)]
  simp only [Int.zero_add]
  rfl

theorem randTn_nil (log : List Draw) : randTn ⟨[], log⟩ = (.fail .dry, ⟨[], log⟩) :=
  randint_nil _ _ (by decide) log

theorem randPwr_cons (k : Nat) (rest : List Nat) (log : List Draw) :
    randPwr none none ⟨k :: rest, log⟩ = (.ok (k : Int), ⟨rest, log ++ [⟨256, k⟩]⟩) := by
  unfold randPwr
  rw [argOr_none, argOr_none, randint_cons _ _ (by decide)]
  simp only [pwrMin_eq, Int.zero_add]
  rfl

theorem randPwr_nil (log : List Draw) : randPwr none none ⟨[], log⟩ = (.fail .dry, ⟨[], log⟩) :=
  randint_nil _ _ (by decide) log

theorem randRssi_cons (k : Nat) (rest : List Nat) (log : List Draw) :
    randRssi none none ⟨k :: rest, log⟩ = (.ok (-120 + (k : Int)), ⟨rest, log ++ [⟨74, k⟩]⟩) := by
  unfold randRssi
  rw [argOr_none, argOr_none, randint_cons _ _ (by decide)]
  rfl

theorem randRssi_nil (log : List Draw) : randRssi none none ⟨[], log⟩ = (.fail .dry, ⟨[], log⟩) :=
  randint_nil _ _ (by decide) log

theorem randToa256_cons (k : Nat) (rest : List Nat) (log : List Draw) :
    randToa256 none none ⟨k :: rest, log⟩ = (.ok (-32768 + (k : Int)), ⟨rest, log ++ [⟨65536, k⟩]⟩) := by
  unfold randToa256
  rw [argOr_none, argOr_none, randint_cons _ _ (by decide)]
  rfl

theorem randToa256_nil (log : List Draw) : randToa256 none none ⟨[], log⟩ = (.fail .dry, ⟨[], log⟩) :=
  randint_nil _ _ (by decide) log

theorem randCi_cons (k : Nat) (rest : List Nat) (log : List Draw) :
    randint Gen.Trxd.ciMin Gen.Trxd.ciMax ⟨k :: rest, log⟩
      = (.ok (-1280 + (k : Int)), ⟨rest, log ++ [⟨2561, k⟩]⟩) := by
  rw [randint_cons _ _ (by decide)]
  rfl

theorem randCi_nil (log : List Draw) :
    randint Gen.Trxd.ciMin Gen.Trxd.ciMax ⟨[], log⟩ = (.fail .dry, ⟨[], log⟩) :=
  randint_nil _ _ (by decide) log

/-- `randint(0, 3)` for GMSK, `randint(0, 1)` otherwise -/
theorem randSet_cons (mod : Modulation) (k : Nat) (rest : List Nat) (log : List Draw) :
    (if mod = Modulation.gmsk then randint 0 3 else randint 0 1) ⟨k :: rest, log⟩
      = (.ok (k : Int), ⟨rest, log ++ [⟨if mod = Modulation.gmsk then 4 else 2, k⟩]⟩) := by
  split <;> (rw [randint_cons _ _ (by decide)]; simp only [Int.zero_add]; rfl)

theorem randSet_nil (mod : Modulation) (log : List Draw) :
    (if mod = Modulation.gmsk then randint 0 3 else randint 0 1) ⟨[], log⟩ = (.fail .dry, ⟨[], log⟩) := by
  split <;> exact randint_nil _ _ (by decide) log

/-! ### `[random.randint(a, b) for _ in range(n)]` -/

theorem randints_run (a b : Int) (h : a ≤ b) : ∀ (n : Nat) (ks rest : List Nat) (log : List Draw), ks.length = n →
    randints a b n ⟨ks ++ rest, log⟩
      = (.ok (ks.map fun (k : Nat) => a + (k : Int)), ⟨rest, log ++ ks.map fun k => ⟨(b - a + 1).toNat, k⟩⟩)
  | 0, ks, rest, log, hl => by
    have : ks = [] := List.eq_nil_of_length_eq_zero hl
    subst this
    simp only [randints, pure_run, List.nil_append, List.map_nil, List.append_nil]
  | n + 1, ks, rest, log, hl => by
    match ks, hl with
    | k :: ks', hl =>
      have hl' : ks'.length = n := by simpa using hl
      simp only [randints, bind_run, List.cons_append, randint_cons a b h, randints_run a b h n ks' rest _ hl',
        pure_run, List.map_cons, List.append_assoc, List.nil_append]

/-- fewer answers than elements: the stream runs dry -/
theorem randints_short (a b : Int) (h : a ≤ b) : ∀ (n : Nat) (st : List Nat) (log : List Draw), st.length < n →
    (randints a b n ⟨st, log⟩).1 = .fail .dry
  | 0, st, log, hl => by omega
  | n + 1, [], log, _ => by
    simp only [randints, bind_run, randint_nil a b h]
  | n + 1, k :: st, log, hl => by
    have hl' : st.length < n := by simpa using hl
    have := randints_short a b h n st (log ++ [⟨(b - a + 1).toNat, k⟩]) hl'
    simp only [randints, bind_run, randint_cons a b h]
    rcases hr : randints a b n ⟨st, log ++ [⟨(b - a + 1).toNat, k⟩]⟩ with ⟨r, s1⟩
    rw [hr] at this
    simp only at this
    subst this
    rw [hr]

theorem randints_inv (a b : Int) (h : a ≤ b) (n : Nat) (s s' : Src) (l : List Int)
    (hr : randints a b n s = (.ok l, s')) :
    ∃ ks : List Nat, ks.length = n ∧ s.stream = ks ++ s'.stream ∧ l = ks.map (fun (k : Nat) => a + (k : Int)) ∧
      s'.log = s.log ++ ks.map fun k => ⟨(b - a + 1).toNat, k⟩ := by
  rcases s with ⟨st, log⟩
  by_cases hs : st.length < n
  · have := randints_short a b h n st log hs
    rw [hr] at this
    cases this
  · have hsplit : st = st.take n ++ st.drop n := (List.take_append_drop n st).symm
    have hlen : (st.take n).length = n := by rw [List.length_take]; omega
    have hrun := randints_run a b h n (st.take n) (st.drop n) log hlen
    rw [← hsplit, hr] at hrun
    simp only [Prod.mk.injEq, Res.ok.injEq] at hrun
    obtain ⟨hl, hs'⟩ := hrun
    subst hs'
    exact ⟨st.take n, hlen, hsplit, hl, rfl⟩

/-! ### TxMsg -/

theorem TxMsg.randHdr_run (m : TxMsg) (k1 k2 k3 : Nat) (rest : List Nat) (log : List Draw) :
    m.randHdr ⟨k1 :: k2 :: k3 :: rest, log⟩
      = (.ok { m with fn := some (k1 : Int), tn := some (k2 : Int), pwr := some (k3 : Int) },
         ⟨rest, log ++ [⟨2715648, k1⟩, ⟨8, k2⟩, ⟨256, k3⟩]⟩) := by
  simp only [TxMsg.randHdr, bind_run, randFn_cons, randTn_cons, randPwr_cons, pure_run, List.append_assoc,
    List.cons_append, List.nil_append]

theorem TxMsg.randHdr_inv (m m' : TxMsg) (s s' : Src) (h : m.randHdr s = (.ok m', s')) :
    ∃ k1 k2 k3 : Nat, s.stream = k1 :: k2 :: k3 :: s'.stream ∧
      m' = { m with fn := some (k1 : Int), tn := some (k2 : Int), pwr := some (k3 : Int) } ∧
      s'.log = s.log ++ [⟨2715648, k1⟩, ⟨8, k2⟩, ⟨256, k3⟩] := by
  rcases s with ⟨st, log⟩
  match st with
  | [] => simp only [TxMsg.randHdr, bind_run, randFn_nil, Prod.mk.injEq, reduceCtorEq, false_and] at h
  | [_] => simp only [TxMsg.randHdr, bind_run, randFn_cons, randTn_nil, Prod.mk.injEq, reduceCtorEq, false_and] at h
  | [_, _] =>
    simp only [TxMsg.randHdr, bind_run, randFn_cons, randTn_cons, randPwr_nil, Prod.mk.injEq, reduceCtorEq,
      false_and] at h
  | k1 :: k2 :: k3 :: rest =>
    rw [TxMsg.randHdr_run] at h
    simp only [Prod.mk.injEq, Res.ok.injEq] at h
    obtain ⟨hm, hs⟩ := h
    subst hs
    exact ⟨k1, k2, k3, rfl, hm.symm, rfl⟩

theorem toNat_natCast_add (k : Nat) : ((0 : Int) + (k : Int)).toNat = k := by omega

theorem map_toNat_cast (ks : List Nat) : (ks.map fun (k : Nat) => (0 : Int) + (k : Int)).map Int.toNat = ks := by
  induction ks with
  | nil => rfl
  | cons k ks ih => simp only [List.map_cons, ih, toNat_natCast_add]

theorem all_byte_iff (ks : List Nat) :
    ((ks.map fun (k : Nat) => (0 : Int) + (k : Int)).all fun v => decide (0 ≤ v ∧ v < 256)) = true ↔ ∀ k ∈ ks, k < 256 := by
  simp only [List.all_eq_true, List.mem_map, decide_eq_true_eq, forall_exists_index, and_imp,
    forall_apply_eq_imp_iff₂]
  exact ⟨fun h k hk => by have := h k hk; omega, fun h k hk => by have := h k hk; omega⟩

theorem TxMsg.randBurst_inv (m m' : TxMsg) (length : Int) (s s' : Src) (h : m.randBurst length s = (.ok m', s')) :
    ∃ ks : List Nat, ks.length = length.toNat ∧ s.stream = ks ++ s'.stream ∧ (∀ k ∈ ks, k < 256) ∧
      m' = { m with burst := some ks } ∧ s'.log = s.log ++ ks.map fun k => ⟨2, k⟩ := by
  unfold TxMsg.randBurst at h
  rw [bind_run] at h
  rcases hr : randints 0 1 length.toNat s with ⟨r, s1⟩
  rw [hr] at h
  cases r with
  | fail e => simp only [Prod.mk.injEq, reduceCtorEq, false_and] at h
  | ok l =>
    obtain ⟨ks, hlen, hst, hl, hlog⟩ := randints_inv 0 1 (by decide) _ s s1 l hr
    subst hl
    simp only at h
    split at h
    · rename_i hall
      simp only [pure_run, Prod.mk.injEq, Res.ok.injEq] at h
      obtain ⟨hm, hs⟩ := h
      subst hs
      rw [map_toNat_cast] at hm
      exact ⟨ks, hlen, hst, (all_byte_iff ks).mp hall, hm.symm, hlog⟩
    · simp only [raise_run, Prod.mk.injEq, reduceCtorEq, false_and] at h

theorem TxMsg.randBurst_run (m : TxMsg) (length : Int) (ks rest : List Nat) (log : List Draw)
    (hl : ks.length = length.toNat) (hb : ∀ k ∈ ks, k < 256) :
    m.randBurst length ⟨ks ++ rest, log⟩
      = (.ok { m with burst := some ks }, ⟨rest, log ++ ks.map fun k => ⟨2, k⟩⟩) := by
  unfold TxMsg.randBurst
  rw [bind_run, randints_run 0 1 (by decide) _ ks rest log hl]
  simp only [(all_byte_iff ks).mpr hb, if_true, pure_run, map_toNat_cast]
  rfl

/-! ### RxMsg -/

theorem RxMsg.randHdr_run_v0 (m : RxMsg) (hv : ¬ m.ver ≥ 1) (k1 k2 k3 k4 : Nat) (rest : List Nat) (log : List Draw) :
    m.randHdr ⟨k1 :: k2 :: k3 :: k4 :: rest, log⟩
      = (.ok { m with fn := some (k1 : Int), tn := some (k2 : Int), rssi := some (-120 + (k3 : Int)),
                      toa256 := some (-32768 + (k4 : Int)) },
         ⟨rest, log ++ [⟨2715648, k1⟩, ⟨8, k2⟩, ⟨74, k3⟩, ⟨65536, k4⟩]⟩) := by
  simp only [RxMsg.randHdr, bind_run, randFn_cons, randTn_cons, randRssi_cons, randToa256_cons, hv, if_false,
    pure_run, List.append_assoc, List.cons_append, List.nil_append]

theorem RxMsg.randHdr_run_v1 (m : RxMsg) (hv : m.ver ≥ 1) (k1 k2 k3 k4 k5 k6 k7 k8 : Nat) (h5 : k5 < 6) (h7 : k7 < 8)
    (rest : List Nat) (log : List Draw) :
    m.randHdr ⟨k1 :: k2 :: k3 :: k4 :: k5 :: k6 :: k7 :: k8 :: rest, log⟩
      = (.ok { m with fn := some (k1 : Int), tn := some (k2 : Int), rssi := some (-120 + (k3 : Int)),
                      toa256 := some (-32768 + (k4 : Int)), modType := some ⟨k5, h5⟩, tscSet := some (k6 : Int),
                      tsc := some (k7 : Int), ci := some (-1280 + (k8 : Int)) },
         ⟨rest, log ++ [⟨2715648, k1⟩, ⟨8, k2⟩, ⟨74, k3⟩, ⟨65536, k4⟩, ⟨6, k5⟩,
                        ⟨if (⟨k5, h5⟩ : Modulation) = Modulation.gmsk then 4 else 2, k6⟩, ⟨8, k7⟩, ⟨2561, k8⟩]⟩) := by
  simp only [RxMsg.randHdr, bind_run, randFn_cons, randTn_cons, randRssi_cons, randToa256_cons, hv, if_true,
    choice_mods_cons k5 h5, randSet_cons, choice_tsc_cons k7 h7, randCi_cons, pure_run, List.append_assoc,
    List.cons_append, List.nil_append]

theorem RxMsg.randHdr_inv_v0 (m m' : RxMsg) (hv : ¬ m.ver ≥ 1) (s s' : Src) (h : m.randHdr s = (.ok m', s')) :
    ∃ k1 k2 k3 k4 : Nat, s.stream = k1 :: k2 :: k3 :: k4 :: s'.stream ∧
      m' = { m with fn := some (k1 : Int), tn := some (k2 : Int), rssi := some (-120 + (k3 : Int)),
                    toa256 := some (-32768 + (k4 : Int)) } ∧
      s'.log = s.log ++ [⟨2715648, k1⟩, ⟨8, k2⟩, ⟨74, k3⟩, ⟨65536, k4⟩] := by
  rcases s with ⟨st, log⟩
  match st with
  | [] => simp only [RxMsg.randHdr, bind_run, randFn_nil, Prod.mk.injEq, reduceCtorEq, false_and] at h
  | [_] => simp only [RxMsg.randHdr, bind_run, randFn_cons, randTn_nil, Prod.mk.injEq, reduceCtorEq, false_and] at h
  | [_, _] =>
    simp only [RxMsg.randHdr, bind_run, randFn_cons, randTn_cons, randRssi_nil, Prod.mk.injEq, reduceCtorEq,
      false_and] at h
  | [_, _, _] =>
    simp only [RxMsg.randHdr, bind_run, randFn_cons, randTn_cons, randRssi_cons, randToa256_nil, Prod.mk.injEq,
      reduceCtorEq, false_and] at h
  | k1 :: k2 :: k3 :: k4 :: rest =>
    rw [RxMsg.randHdr_run_v0 m hv] at h
    simp only [Prod.mk.injEq, Res.ok.injEq] at h
    obtain ⟨hm, hs⟩ := h
    subst hs
    exact ⟨k1, k2, k3, k4, rfl, hm.symm, rfl⟩

theorem RxMsg.randHdr_inv_v1 (m m' : RxMsg) (hv : m.ver ≥ 1) (s s' : Src) (h : m.randHdr s = (.ok m', s')) :
    ∃ (k1 k2 k3 k4 k5 k6 k7 k8 : Nat) (h5 : k5 < 6), k7 < 8 ∧
      s.stream = k1 :: k2 :: k3 :: k4 :: k5 :: k6 :: k7 :: k8 :: s'.stream ∧
      m' = { m with fn := some (k1 : Int), tn := some (k2 : Int), rssi := some (-120 + (k3 : Int)),
                    toa256 := some (-32768 + (k4 : Int)), modType := some ⟨k5, h5⟩, tscSet := some (k6 : Int),
                    tsc := some (k7 : Int), ci := some (-1280 + (k8 : Int)) } ∧
      s'.log = s.log ++ [⟨2715648, k1⟩, ⟨8, k2⟩, ⟨74, k3⟩, ⟨65536, k4⟩, ⟨6, k5⟩,
                         ⟨if (⟨k5, h5⟩ : Modulation) = Modulation.gmsk then 4 else 2, k6⟩, ⟨8, k7⟩, ⟨2561, k8⟩] := by
  rcases s with ⟨st, log⟩
  match st with
  | [] => simp only [RxMsg.randHdr, bind_run, randFn_nil, Prod.mk.injEq, reduceCtorEq, false_and] at h
  | [_] => simp only [RxMsg.randHdr, bind_run, randFn_cons, randTn_nil, Prod.mk.injEq, reduceCtorEq, false_and] at h
  | [_, _] =>
    simp only [RxMsg.randHdr, bind_run, randFn_cons, randTn_cons, randRssi_nil, Prod.mk.injEq, reduceCtorEq,
      false_and] at h
  | [_, _, _] =>
    simp only [RxMsg.randHdr, bind_run, randFn_cons, randTn_cons, randRssi_cons, randToa256_nil, Prod.mk.injEq,
      reduceCtorEq, false_and] at h
  | [_, _, _, _] =>
    simp only [RxMsg.randHdr, bind_run, randFn_cons, randTn_cons, randRssi_cons, randToa256_cons, hv, if_true,
      choice_mods_nil, Prod.mk.injEq, reduceCtorEq, false_and] at h
  | k1 :: k2 :: k3 :: k4 :: k5 :: rest =>
    by_cases h5 : k5 < 6
    · match rest with
      | [] =>
        simp only [RxMsg.randHdr, bind_run, randFn_cons, randTn_cons, randRssi_cons, randToa256_cons, hv, if_true,
          choice_mods_cons k5 h5, randSet_nil, Prod.mk.injEq, reduceCtorEq, false_and] at h
      | [_] =>
        simp only [RxMsg.randHdr, bind_run, randFn_cons, randTn_cons, randRssi_cons, randToa256_cons, hv, if_true,
          choice_mods_cons k5 h5, randSet_cons, choice_tsc_nil, Prod.mk.injEq, reduceCtorEq, false_and] at h
      | k6 :: k7 :: rest' =>
        by_cases h7 : k7 < 8
        · match rest' with
          | [] =>
            simp only [RxMsg.randHdr, bind_run, randFn_cons, randTn_cons, randRssi_cons, randToa256_cons, hv, if_true,
              choice_mods_cons k5 h5, randSet_cons, choice_tsc_cons k7 h7, randCi_nil, Prod.mk.injEq, reduceCtorEq,
              false_and] at h
          | k8 :: rest'' =>
            rw [RxMsg.randHdr_run_v1 m hv k1 k2 k3 k4 k5 k6 k7 k8 h5 h7] at h
            simp only [Prod.mk.injEq, Res.ok.injEq] at h
            obtain ⟨hm, hs⟩ := h
            subst hs
            exact ⟨k1, k2, k3, k4, k5, k6, k7, k8, h5, h7, rfl, hm.symm, rfl⟩
        · simp only [RxMsg.randHdr, bind_run, randFn_cons, randTn_cons, randRssi_cons, randToa256_cons, hv, if_true,
            choice_mods_cons k5 h5, randSet_cons, choice_tsc_bad k7 (by omega), Prod.mk.injEq, reduceCtorEq,
            false_and] at h
    · simp only [RxMsg.randHdr, bind_run, randFn_cons, randTn_cons, randRssi_cons, randToa256_cons, hv, if_true,
        choice_mods_bad k5 (by omega), Prod.mk.injEq, reduceCtorEq, false_and] at h

/-- the length `rand_burst(length)` works with: the argument, or the length of the modulation left in the object -/
def rxLen (m : RxMsg) : Option Int → Option Int
  | some l => some l
  | none => m.modType.map fun mod => (mod.bl : Int)

theorem all_soft_iff (ks : List Nat) :
    ((ks.map fun (k : Nat) => (-127 : Int) + (k : Int)).all fun v => decide (-128 ≤ v ∧ v ≤ 127)) = true
      ↔ ∀ k ∈ ks, k < 255 := by
  simp only [List.all_eq_true, List.mem_map, decide_eq_true_eq, forall_exists_index, and_imp,
    forall_apply_eq_imp_iff₂]
  exact ⟨fun h k hk => by have := h k hk; omega, fun h k hk => by have := h k hk; omega⟩

theorem RxMsg.burstLength_run (m : RxMsg) (length : Option Int) (s : Src) :
    m.burstLength length s = match rxLen m length with
      | some L => (.ok L, s)
      | none => (.fail .attributeError, s) := by
  cases length with
  | some l => rfl
  | none =>
    cases hm : m.modType with
    | some mod => simp only [RxMsg.burstLength, rxLen, hm, Option.map_some, pure_run]
    | none => simp only [RxMsg.burstLength, rxLen, hm, Option.map_none, raise_run]

theorem RxMsg.randBurst_inv (m m' : RxMsg) (length : Option Int) (s s' : Src)
    (h : m.randBurst length s = (.ok m', s')) :
    ∃ (L : Int) (ks : List Nat), rxLen m length = some L ∧ ks.length = L.toNat ∧ s.stream = ks ++ s'.stream ∧
      (∀ k ∈ ks, k < 255) ∧ m' = { m with burst := some (ks.map fun (k : Nat) => (-127 : Int) + (k : Int)) } ∧
      s'.log = s.log ++ ks.map fun k => ⟨255, k⟩ := by
  unfold RxMsg.randBurst at h
  rw [bind_run, RxMsg.burstLength_run] at h
  cases hL : rxLen m length with
  | none => rw [hL] at h; simp only [Prod.mk.injEq, reduceCtorEq, false_and] at h
  | some L =>
    rw [hL] at h
    simp only at h
    rw [bind_run] at h
    rcases hr : randints (-127) 127 L.toNat s with ⟨r, s1⟩
    rw [hr] at h
    cases r with
    | fail e => simp only [Prod.mk.injEq, reduceCtorEq, false_and] at h
    | ok l =>
      obtain ⟨ks, hkl, hst, hl, hlog⟩ := randints_inv (-127) 127 (by decide) _ s s1 l hr
      subst hl
      simp only at h
      split at h
      · rename_i hall
        simp only [pure_run, Prod.mk.injEq, Res.ok.injEq] at h
        obtain ⟨hm, hs⟩ := h
        subst hs
        exact ⟨L, ks, rfl, hkl, hst, (all_soft_iff ks).mp hall, hm.symm, hlog⟩
      · simp only [raise_run, Prod.mk.injEq, reduceCtorEq, false_and] at h

theorem RxMsg.randBurst_run (m : RxMsg) (length : Option Int) (L : Int) (ks rest : List Nat) (log : List Draw)
    (hL : rxLen m length = some L) (hl : ks.length = L.toNat) (hb : ∀ k ∈ ks, k < 255) :
    m.randBurst length ⟨ks ++ rest, log⟩
      = (.ok { m with burst := some (ks.map fun (k : Nat) => (-127 : Int) + (k : Int)) },
         ⟨rest, log ++ ks.map fun k => ⟨255, k⟩⟩) := by
  unfold RxMsg.randBurst
  rw [bind_run, RxMsg.burstLength_run, hL]
  simp only
  rw [bind_run, randints_run (-127) 127 (by decide) _ ks rest log hl]
  simp only [(all_soft_iff ks).mpr hb, if_true, pure_run]
  rfl

/-- `rand_burst()` without a length on an object whose `mod_type` is None: AttributeError, nothing is drawn -/
theorem RxMsg.randBurst_attr (m : RxMsg) (hm : m.modType = none) (s : Src) :
    m.randBurst none s = (.fail .attributeError, s) := by
  unfold RxMsg.randBurst
  rw [bind_run, RxMsg.burstLength_run]
  simp only [rxLen, hm, Option.map_none]

end OsmoVerif.TrxdRand

namespace OsmoVerif.TrxdRand
open OsmoVerif OsmoVerif.Trxd OsmoVerif.Spec.TrxdRanges

/-! ### runs from a fresh source with conforming answers (`Yields`) -/

theorem ok_of_mem_map {ks : List Nat} {n : Nat} (h : ∀ d ∈ ks.map (fun k => (⟨n, k⟩ : Draw)), d.Ok) :
    ∀ k ∈ ks, k < n := fun k hk => h ⟨n, k⟩ (List.mem_map.mpr ⟨k, hk, rfl⟩)

theorem mem_map_ok {ks : List Nat} {n : Nat} (h : ∀ k ∈ ks, k < n) :
    ∀ d ∈ ks.map (fun k => (⟨n, k⟩ : Draw)), d.Ok := by
  intro d hd
  obtain ⟨k, hk, rfl⟩ := List.mem_map.mp hd
  exact h k hk

/-- `msg.rand_hdr(); msg.rand_burst(length)` on a Tx message ended normally on conforming answers: the shape of the
stream and the message -/
theorem TxMsg.yields_randMsg (m m' : TxMsg) (len : Int) (stream : List Nat) (h : Yields (m.randMsg len) stream m') :
    ∃ (k1 k2 k3 : Nat) (ks rest : List Nat), stream = k1 :: k2 :: k3 :: (ks ++ rest) ∧ ks.length = len.toNat ∧
      k1 < 2715648 ∧ k2 < 8 ∧ k3 < 256 ∧ (∀ k ∈ ks, k < 2) ∧
      m' = { m with fn := some (k1 : Int), tn := some (k2 : Int), pwr := some (k3 : Int), burst := some ks } := by
  obtain ⟨s', hr, hc⟩ := h
  obtain ⟨m1, s1, h1, h2⟩ := bind_ok_inv _ _ _ _ _ hr
  obtain ⟨k1, k2, k3, hst, hm1, hlog1⟩ := TxMsg.randHdr_inv m m1 _ s1 h1
  obtain ⟨ks, hlen, hst2, _, hm', hlog2⟩ := TxMsg.randBurst_inv m1 m' len s1 s' h2
  have hc' : ∀ d ∈ s'.log, d.Ok := hc
  rw [hlog2, hlog1] at hc'
  simp only [Src.start, List.nil_append] at hc' hst
  have hk1 : k1 < 2715648 := hc' ⟨2715648, k1⟩ (by simp)
  have hk2 : k2 < 8 := hc' ⟨8, k2⟩ (by simp)
  have hk3 : k3 < 256 := hc' ⟨256, k3⟩ (by simp)
  have hks : ∀ k ∈ ks, k < 2 := ok_of_mem_map fun d hd => hc' d (List.mem_append.mpr (Or.inr hd))
  refine ⟨k1, k2, k3, ks, s'.stream, ?_, hlen, hk1, hk2, hk3, hks, ?_⟩
  · rw [hst, hst2]
  · rw [hm', hm1]

/-- ... and every such stream makes the run end normally (no exception, not dry) -/
theorem TxMsg.randMsg_yields (m : TxMsg) (len : Int) (k1 k2 k3 : Nat) (ks rest : List Nat)
    (hlen : ks.length = len.toNat) (hk1 : k1 < 2715648) (hk2 : k2 < 8) (hk3 : k3 < 256) (hks : ∀ k ∈ ks, k < 2) :
    Yields (m.randMsg len) (k1 :: k2 :: k3 :: (ks ++ rest))
      { m with fn := some (k1 : Int), tn := some (k2 : Int), pwr := some (k3 : Int), burst := some ks } := by
  refine ⟨⟨rest, [⟨2715648, k1⟩, ⟨8, k2⟩, ⟨256, k3⟩] ++ ks.map fun k => ⟨2, k⟩⟩, ?_, ?_⟩
  · unfold TxMsg.randMsg
    rw [bind_run, Src.start, TxMsg.randHdr_run]
    simp only [List.nil_append]
    rw [TxMsg.randBurst_run _ len ks rest _ hlen (fun k hk => by have := hks k hk; omega)]
  · rw [conforms_append]
    refine ⟨?_, mem_map_ok hks⟩
    intro d hd
    simp only [List.mem_cons, List.not_mem_nil, or_false] at hd
    rcases hd with rfl | rfl | rfl <;> assumption

end OsmoVerif.TrxdRand

namespace OsmoVerif.TrxdRand
open OsmoVerif OsmoVerif.Trxd OsmoVerif.Spec.TrxdRanges

/-- `rand_hdr()` on a Tx message ended normally on conforming answers -/
theorem TxMsg.yields_randHdr (m m' : TxMsg) (stream : List Nat) (h : Yields m.randHdr stream m') :
    ∃ (k1 k2 k3 : Nat) (rest : List Nat), stream = k1 :: k2 :: k3 :: rest ∧ k1 < 2715648 ∧ k2 < 8 ∧ k3 < 256 ∧
      m' = { m with fn := some (k1 : Int), tn := some (k2 : Int), pwr := some (k3 : Int) } := by
  obtain ⟨s', hr, hc⟩ := h
  obtain ⟨k1, k2, k3, hst, hm1, hlog1⟩ := TxMsg.randHdr_inv m m' _ s' hr
  have hc' : ∀ d ∈ s'.log, d.Ok := hc
  rw [hlog1] at hc'
  simp only [Src.start, List.nil_append] at hc' hst
  exact ⟨k1, k2, k3, s'.stream, hst, hc' ⟨2715648, k1⟩ (by simp), hc' ⟨8, k2⟩ (by simp), hc' ⟨256, k3⟩ (by simp), hm1⟩

/-- `rand_hdr()` on an Rx message below version 1 ended normally on conforming answers -/
theorem RxMsg.yields_randHdr_v0 (m m' : RxMsg) (hv : ¬ m.ver ≥ 1) (stream : List Nat) (h : Yields m.randHdr stream m') :
    ∃ (k1 k2 k3 k4 : Nat) (rest : List Nat), stream = k1 :: k2 :: k3 :: k4 :: rest ∧
      k1 < 2715648 ∧ k2 < 8 ∧ k3 < 74 ∧ k4 < 65536 ∧
      m' = { m with fn := some (k1 : Int), tn := some (k2 : Int), rssi := some (-120 + (k3 : Int)),
                    toa256 := some (-32768 + (k4 : Int)) } := by
  obtain ⟨s', hr, hc⟩ := h
  obtain ⟨k1, k2, k3, k4, hst, hm1, hlog1⟩ := RxMsg.randHdr_inv_v0 m m' hv _ s' hr
  have hc' : ∀ d ∈ s'.log, d.Ok := hc
  rw [hlog1] at hc'
  simp only [Src.start, List.nil_append] at hc' hst
  exact ⟨k1, k2, k3, k4, s'.stream, hst, hc' ⟨2715648, k1⟩ (by simp), hc' ⟨8, k2⟩ (by simp), hc' ⟨74, k3⟩ (by simp),
    hc' ⟨65536, k4⟩ (by simp), hm1⟩

/-- `rand_hdr()` on an Rx message from version 1 on ended normally on conforming answers -/
theorem RxMsg.yields_randHdr_v1 (m m' : RxMsg) (hv : m.ver ≥ 1) (stream : List Nat) (h : Yields m.randHdr stream m') :
    ∃ (k1 k2 k3 k4 k5 k6 k7 k8 : Nat) (h5 : k5 < 6) (rest : List Nat),
      stream = k1 :: k2 :: k3 :: k4 :: k5 :: k6 :: k7 :: k8 :: rest ∧
      k1 < 2715648 ∧ k2 < 8 ∧ k3 < 74 ∧ k4 < 65536 ∧
      k6 < (if (⟨k5, h5⟩ : Modulation) = Modulation.gmsk then 4 else 2) ∧ k7 < 8 ∧ k8 < 2561 ∧
      m' = { m with fn := some (k1 : Int), tn := some (k2 : Int), rssi := some (-120 + (k3 : Int)),
                    toa256 := some (-32768 + (k4 : Int)), modType := some ⟨k5, h5⟩, tscSet := some (k6 : Int),
                    tsc := some (k7 : Int), ci := some (-1280 + (k8 : Int)) } := by
  obtain ⟨s', hr, hc⟩ := h
  obtain ⟨k1, k2, k3, k4, k5, k6, k7, k8, h5, h7, hst, hm1, hlog1⟩ := RxMsg.randHdr_inv_v1 m m' hv _ s' hr
  have hc' : ∀ d ∈ s'.log, d.Ok := hc
  rw [hlog1] at hc'
  simp only [Src.start, List.nil_append] at hc' hst
  exact ⟨k1, k2, k3, k4, k5, k6, k7, k8, h5, s'.stream, hst, hc' ⟨2715648, k1⟩ (by simp), hc' ⟨8, k2⟩ (by simp),
    hc' ⟨74, k3⟩ (by simp), hc' ⟨65536, k4⟩ (by simp), hc' ⟨if (⟨k5, h5⟩ : Modulation) = Modulation.gmsk then 4 else 2, k6⟩ (by simp only [List.mem_cons, true_or, or_true]), h7, hc' ⟨2561, k8⟩ (by simp), hm1⟩

/-- `msg.rand_hdr(); msg.rand_burst(length)` on an Rx message below version 1 ended normally on conforming answers -/
theorem RxMsg.yields_randMsg_v0 (m m' : RxMsg) (hv : ¬ m.ver ≥ 1) (length : Option Int) (stream : List Nat)
    (h : Yields (m.randMsg length) stream m') :
    ∃ (k1 k2 k3 k4 : Nat) (L : Int) (ks rest : List Nat), stream = k1 :: k2 :: k3 :: k4 :: (ks ++ rest) ∧
      rxLen m length = some L ∧ ks.length = L.toNat ∧
      k1 < 2715648 ∧ k2 < 8 ∧ k3 < 74 ∧ k4 < 65536 ∧ (∀ k ∈ ks, k < 255) ∧
      m' = { m with fn := some (k1 : Int), tn := some (k2 : Int), rssi := some (-120 + (k3 : Int)),
                    toa256 := some (-32768 + (k4 : Int)),
                    burst := some (ks.map fun (k : Nat) => (-127 : Int) + (k : Int)) } := by
  obtain ⟨s', hr, hc⟩ := h
  obtain ⟨m1, s1, h1, h2⟩ := bind_ok_inv _ _ _ _ _ hr
  obtain ⟨k1, k2, k3, k4, hst, hm1, hlog1⟩ := RxMsg.randHdr_inv_v0 m m1 hv _ s1 h1
  obtain ⟨L, ks, hL, hlen, hst2, _, hm', hlog2⟩ := RxMsg.randBurst_inv m1 m' length s1 s' h2
  have hc' : ∀ d ∈ s'.log, d.Ok := hc
  rw [hlog2, hlog1] at hc'
  simp only [Src.start, List.nil_append] at hc' hst
  have hks : ∀ k ∈ ks, k < 255 := ok_of_mem_map fun d hd => hc' d (List.mem_append.mpr (Or.inr hd))
  have hL' : rxLen m length = some L := by rw [← hL, hm1]; cases length <;> rfl
  refine ⟨k1, k2, k3, k4, L, ks, s'.stream, ?_, hL', hlen, hc' ⟨2715648, k1⟩ (by simp), hc' ⟨8, k2⟩ (by simp),
    hc' ⟨74, k3⟩ (by simp), hc' ⟨65536, k4⟩ (by simp), hks, ?_⟩
  · rw [hst, hst2]
  · rw [hm', hm1]

/-- the length `rand_burst(length)` works with after `rand_hdr()` drew modulation `mod` -/
def lenAfter (mod : Modulation) : Option Int → Int
  | some l => l
  | none => (mod.bl : Int)

/-- `msg.rand_hdr(); msg.rand_burst(length)` on an Rx message from version 1 on ended normally on conforming answers -/
theorem RxMsg.yields_randMsg_v1 (m m' : RxMsg) (hv : m.ver ≥ 1) (length : Option Int) (stream : List Nat)
    (h : Yields (m.randMsg length) stream m') :
    ∃ (k1 k2 k3 k4 k5 k6 k7 k8 : Nat) (h5 : k5 < 6) (ks rest : List Nat),
      stream = k1 :: k2 :: k3 :: k4 :: k5 :: k6 :: k7 :: k8 :: (ks ++ rest) ∧
      ks.length = (lenAfter ⟨k5, h5⟩ length).toNat ∧
      k1 < 2715648 ∧ k2 < 8 ∧ k3 < 74 ∧ k4 < 65536 ∧
      k6 < (if (⟨k5, h5⟩ : Modulation) = Modulation.gmsk then 4 else 2) ∧ k7 < 8 ∧ k8 < 2561 ∧ (∀ k ∈ ks, k < 255) ∧
      m' = { m with fn := some (k1 : Int), tn := some (k2 : Int), rssi := some (-120 + (k3 : Int)),
                    toa256 := some (-32768 + (k4 : Int)), modType := some ⟨k5, h5⟩, tscSet := some (k6 : Int),
                    tsc := some (k7 : Int), ci := some (-1280 + (k8 : Int)),
                    burst := some (ks.map fun (k : Nat) => (-127 : Int) + (k : Int)) } := by
  obtain ⟨s', hr, hc⟩ := h
  obtain ⟨m1, s1, h1, h2⟩ := bind_ok_inv _ _ _ _ _ hr
  obtain ⟨k1, k2, k3, k4, k5, k6, k7, k8, h5, h7, hst, hm1, hlog1⟩ := RxMsg.randHdr_inv_v1 m m1 hv _ s1 h1
  obtain ⟨L, ks, hL, hlen, hst2, _, hm', hlog2⟩ := RxMsg.randBurst_inv m1 m' length s1 s' h2
  have hc' : ∀ d ∈ s'.log, d.Ok := hc
  rw [hlog2, hlog1] at hc'
  simp only [Src.start, List.nil_append] at hc' hst
  have hks : ∀ k ∈ ks, k < 255 := ok_of_mem_map fun d hd => hc' d (List.mem_append.mpr (Or.inr hd))
  have hL' : L = lenAfter ⟨k5, h5⟩ length := by
    rw [hm1] at hL
    cases length with
    | some l => simp only [rxLen, Option.some.injEq] at hL; exact hL.symm
    | none => simp only [rxLen, Option.map_some, Option.some.injEq] at hL; exact hL.symm
  refine ⟨k1, k2, k3, k4, k5, k6, k7, k8, h5, ks, s'.stream, ?_, by rw [← hL']; exact hlen,
    hc' ⟨2715648, k1⟩ (by simp), hc' ⟨8, k2⟩ (by simp), hc' ⟨74, k3⟩ (by simp), hc' ⟨65536, k4⟩ (by simp),
    hc' ⟨if (⟨k5, h5⟩ : Modulation) = Modulation.gmsk then 4 else 2, k6⟩
      (List.mem_append_left _ (by simp only [List.mem_cons, true_or, or_true])), h7, hc' ⟨2561, k8⟩ (by simp), hks, ?_⟩
  · rw [hst, hst2]
  · rw [hm', hm1]

/-- every such stream makes the run end normally: below version 1 -/
theorem RxMsg.randMsg_yields_v0 (m : RxMsg) (hv : ¬ m.ver ≥ 1) (length : Option Int) (L : Int) (k1 k2 k3 k4 : Nat)
    (ks rest : List Nat) (hL : rxLen m length = some L) (hlen : ks.length = L.toNat)
    (hk1 : k1 < 2715648) (hk2 : k2 < 8) (hk3 : k3 < 74) (hk4 : k4 < 65536) (hks : ∀ k ∈ ks, k < 255) :
    Yields (m.randMsg length) (k1 :: k2 :: k3 :: k4 :: (ks ++ rest))
      { m with fn := some (k1 : Int), tn := some (k2 : Int), rssi := some (-120 + (k3 : Int)),
               toa256 := some (-32768 + (k4 : Int)),
               burst := some (ks.map fun (k : Nat) => (-127 : Int) + (k : Int)) } := by
  refine ⟨⟨rest, [⟨2715648, k1⟩, ⟨8, k2⟩, ⟨74, k3⟩, ⟨65536, k4⟩] ++ ks.map fun k => ⟨255, k⟩⟩, ?_, ?_⟩
  · unfold RxMsg.randMsg
    rw [bind_run, Src.start, RxMsg.randHdr_run_v0 m hv]
    simp only [List.nil_append]
    rw [RxMsg.randBurst_run _ length L ks rest _ (by rw [← hL]; cases length <;> rfl) hlen hks]
  · rw [conforms_append]
    refine ⟨?_, mem_map_ok hks⟩
    intro d hd
    simp only [List.mem_cons, List.not_mem_nil, or_false] at hd
    rcases hd with rfl | rfl | rfl | rfl <;> assumption

/-- every such stream makes the run end normally: from version 1 on -/
theorem RxMsg.randMsg_yields_v1 (m : RxMsg) (hv : m.ver ≥ 1) (length : Option Int) (k1 k2 k3 k4 k5 k6 k7 k8 : Nat)
    (h5 : k5 < 6) (ks rest : List Nat) (hlen : ks.length = (lenAfter ⟨k5, h5⟩ length).toNat)
    (hk1 : k1 < 2715648) (hk2 : k2 < 8) (hk3 : k3 < 74) (hk4 : k4 < 65536)
    (hk6 : k6 < (if (⟨k5, h5⟩ : Modulation) = Modulation.gmsk then 4 else 2)) (hk7 : k7 < 8) (hk8 : k8 < 2561)
    (hks : ∀ k ∈ ks, k < 255) :
    Yields (m.randMsg length) (k1 :: k2 :: k3 :: k4 :: k5 :: k6 :: k7 :: k8 :: (ks ++ rest))
      { m with fn := some (k1 : Int), tn := some (k2 : Int), rssi := some (-120 + (k3 : Int)),
               toa256 := some (-32768 + (k4 : Int)), modType := some ⟨k5, h5⟩, tscSet := some (k6 : Int),
               tsc := some (k7 : Int), ci := some (-1280 + (k8 : Int)),
               burst := some (ks.map fun (k : Nat) => (-127 : Int) + (k : Int)) } := by
  refine ⟨⟨rest, [⟨2715648, k1⟩, ⟨8, k2⟩, ⟨74, k3⟩, ⟨65536, k4⟩, ⟨6, k5⟩,
      ⟨if (⟨k5, h5⟩ : Modulation) = Modulation.gmsk then 4 else 2, k6⟩, ⟨8, k7⟩, ⟨2561, k8⟩]
      ++ ks.map fun k => ⟨255, k⟩⟩, ?_, ?_⟩
  · unfold RxMsg.randMsg
    rw [bind_run, Src.start, RxMsg.randHdr_run_v1 m hv k1 k2 k3 k4 k5 k6 k7 k8 h5 hk7]
    simp only [List.nil_append]
    rw [RxMsg.randBurst_run _ length (lenAfter ⟨k5, h5⟩ length) ks rest _ (by cases length <;> rfl) hlen hks]
  · rw [conforms_append]
    refine ⟨?_, mem_map_ok hks⟩
    intro d hd
    simp only [List.mem_cons, List.not_mem_nil, or_false] at hd
    rcases hd with rfl | rfl | rfl | rfl | rfl | rfl | rfl | rfl <;> first | assumption | exact h5

end OsmoVerif.TrxdRand

namespace OsmoVerif.TrxdRand
open OsmoVerif OsmoVerif.Trxd OsmoVerif.Spec.TrxdRanges

/-! ### the order of test_data_msg.test_rand_hdr_burst: `msg.rand_burst(); msg.rand_hdr()` -/

theorem TxMsg.yields_burst_hdr (m m' : TxMsg) (stream : List Nat)
    (h : Yields (m.randOps [.burst none, .hdr]) stream m') :
    ∃ (ks : List Nat) (k1 k2 k3 : Nat) (rest : List Nat), stream = ks ++ k1 :: k2 :: k3 :: rest ∧ ks.length = 148 ∧
      (∀ k ∈ ks, k < 2) ∧ k1 < 2715648 ∧ k2 < 8 ∧ k3 < 256 ∧
      m' = { m with fn := some (k1 : Int), tn := some (k2 : Int), pwr := some (k3 : Int), burst := some ks } := by
  obtain ⟨s', hr, hc⟩ := h
  obtain ⟨m1, s1, h1, h2⟩ := bind_ok_inv _ _ _ _ _ hr
  obtain ⟨m2, s2, h3, h4⟩ := bind_ok_inv _ _ _ _ _ h2
  simp only [TxMsg.randOps, pure_run, Prod.mk.injEq, Res.ok.injEq] at h4
  obtain ⟨rfl, rfl⟩ := h4
  obtain ⟨ks, hlen, hst, _, hm1, hlog1⟩ := TxMsg.randBurst_inv m m1 _ _ s1 h1
  obtain ⟨k1, k2, k3, hst2, hm2, hlog2⟩ := TxMsg.randHdr_inv m1 m2 s1 s2 h3
  have hc' : ∀ d ∈ s2.log, d.Ok := hc
  rw [hlog2, hlog1] at hc'
  simp only [Src.start, List.nil_append] at hc' hst
  have hks : ∀ k ∈ ks, k < 2 :=
    ok_of_mem_map fun d hd => hc' d (List.mem_append.mpr (Or.inl hd))
  refine ⟨ks, k1, k2, k3, s2.stream, by rw [hst, hst2], hlen, hks,
    hc' ⟨2715648, k1⟩ (by simp), hc' ⟨8, k2⟩ (by simp), hc' ⟨256, k3⟩ (by simp), ?_⟩
  rw [hm2, hm1]

/-- Rx, below version 1: the burst has the length of the modulation left in the object -/
theorem RxMsg.yields_burst_hdr_v0 (m m' : RxMsg) (hv : ¬ m.ver ≥ 1) (stream : List Nat)
    (h : Yields (m.randOps [.burst none, .hdr]) stream m') :
    ∃ (mod0 : Modulation) (ks : List Nat) (k1 k2 k3 k4 : Nat) (rest : List Nat),
      m.modType = some mod0 ∧ stream = ks ++ k1 :: k2 :: k3 :: k4 :: rest ∧ ks.length = mod0.bl ∧
      (∀ k ∈ ks, k < 255) ∧ k1 < 2715648 ∧ k2 < 8 ∧ k3 < 74 ∧ k4 < 65536 ∧
      m' = { m with fn := some (k1 : Int), tn := some (k2 : Int), rssi := some (-120 + (k3 : Int)),
                    toa256 := some (-32768 + (k4 : Int)),
                    burst := some (ks.map fun (k : Nat) => (-127 : Int) + (k : Int)) } := by
  obtain ⟨s', hr, hc⟩ := h
  obtain ⟨m1, s1, h1, h2⟩ := bind_ok_inv _ _ _ _ _ hr
  obtain ⟨m2, s2, h3, h4⟩ := bind_ok_inv _ _ _ _ _ h2
  simp only [RxMsg.randOps, pure_run, Prod.mk.injEq, Res.ok.injEq] at h4
  obtain ⟨rfl, rfl⟩ := h4
  obtain ⟨L, ks, hL, hlen, hst, _, hm1, hlog1⟩ := RxMsg.randBurst_inv m m1 none _ s1 h1
  have hv1 : ¬ m1.ver ≥ 1 := by rw [hm1]; exact hv
  obtain ⟨k1, k2, k3, k4, hst2, hm2, hlog2⟩ := RxMsg.randHdr_inv_v0 m1 m2 hv1 s1 s2 h3
  have hc' : ∀ d ∈ s2.log, d.Ok := hc
  rw [hlog2, hlog1] at hc'
  simp only [Src.start, List.nil_append] at hc' hst
  have hks : ∀ k ∈ ks, k < 255 :=
    ok_of_mem_map fun d hd => hc' d (List.mem_append.mpr (Or.inl hd))
  cases hmod : m.modType with
  | none => simp only [rxLen, hmod, Option.map_none, reduceCtorEq] at hL
  | some mod0 =>
    simp only [rxLen, hmod, Option.map_some, Option.some.injEq] at hL
    subst hL
    refine ⟨mod0, ks, k1, k2, k3, k4, s2.stream, rfl, by rw [hst, hst2], by simpa using hlen, hks,
      hc' ⟨2715648, k1⟩ (by simp), hc' ⟨8, k2⟩ (by simp), hc' ⟨74, k3⟩ (by simp), hc' ⟨65536, k4⟩ (by simp), ?_⟩
    rw [hm2, hm1]
    simp only [hmod]

/-- Rx, from version 1 on: the burst has the length of the modulation left in the object, the header draws a new one -/
theorem RxMsg.yields_burst_hdr_v1 (m m' : RxMsg) (hv : m.ver ≥ 1) (stream : List Nat)
    (h : Yields (m.randOps [.burst none, .hdr]) stream m') :
    ∃ (mod0 : Modulation) (ks : List Nat) (k1 k2 k3 k4 k5 k6 k7 k8 : Nat) (h5 : k5 < 6) (rest : List Nat),
      m.modType = some mod0 ∧ stream = ks ++ k1 :: k2 :: k3 :: k4 :: k5 :: k6 :: k7 :: k8 :: rest ∧
      ks.length = mod0.bl ∧ (∀ k ∈ ks, k < 255) ∧ k1 < 2715648 ∧ k2 < 8 ∧ k3 < 74 ∧ k4 < 65536 ∧
      k6 < (if (⟨k5, h5⟩ : Modulation) = Modulation.gmsk then 4 else 2) ∧ k7 < 8 ∧ k8 < 2561 ∧
      m' = { m with fn := some (k1 : Int), tn := some (k2 : Int), rssi := some (-120 + (k3 : Int)),
                    toa256 := some (-32768 + (k4 : Int)), modType := some ⟨k5, h5⟩, tscSet := some (k6 : Int),
                    tsc := some (k7 : Int), ci := some (-1280 + (k8 : Int)),
                    burst := some (ks.map fun (k : Nat) => (-127 : Int) + (k : Int)) } := by
  obtain ⟨s', hr, hc⟩ := h
  obtain ⟨m1, s1, h1, h2⟩ := bind_ok_inv _ _ _ _ _ hr
  obtain ⟨m2, s2, h3, h4⟩ := bind_ok_inv _ _ _ _ _ h2
  simp only [RxMsg.randOps, pure_run, Prod.mk.injEq, Res.ok.injEq] at h4
  obtain ⟨rfl, rfl⟩ := h4
  obtain ⟨L, ks, hL, hlen, hst, _, hm1, hlog1⟩ := RxMsg.randBurst_inv m m1 none _ s1 h1
  have hv1 : m1.ver ≥ 1 := by rw [hm1]; exact hv
  obtain ⟨k1, k2, k3, k4, k5, k6, k7, k8, h5, h7, hst2, hm2, hlog2⟩ := RxMsg.randHdr_inv_v1 m1 m2 hv1 s1 s2 h3
  have hc' : ∀ d ∈ s2.log, d.Ok := hc
  rw [hlog2, hlog1] at hc'
  simp only [Src.start, List.nil_append] at hc' hst
  have hks : ∀ k ∈ ks, k < 255 :=
    ok_of_mem_map fun d hd => hc' d (List.mem_append.mpr (Or.inl hd))
  cases hmod : m.modType with
  | none => simp only [rxLen, hmod, Option.map_none, reduceCtorEq] at hL
  | some mod0 =>
    simp only [rxLen, hmod, Option.map_some, Option.some.injEq] at hL
    subst hL
    refine ⟨mod0, ks, k1, k2, k3, k4, k5, k6, k7, k8, h5, s2.stream, rfl, by rw [hst, hst2], by simpa using hlen, hks,
      hc' ⟨2715648, k1⟩ (by simp), hc' ⟨8, k2⟩ (by simp), hc' ⟨74, k3⟩ (by simp), hc' ⟨65536, k4⟩ (by simp),
      hc' ⟨if (⟨k5, h5⟩ : Modulation) = Modulation.gmsk then 4 else 2, k6⟩
        (List.mem_append_right _ (by simp only [List.mem_cons, true_or, or_true])),
      h7, hc' ⟨2561, k8⟩ (by simp), ?_⟩
    rw [hm2, hm1]

end OsmoVerif.TrxdRand

namespace OsmoVerif.TrxdRand
open OsmoVerif OsmoVerif.Trxd OsmoVerif.Spec.TrxdRanges

/-! ### single values -/

/-- `random.randint(a, b)` on conforming answers: some value of `a..b`, and every one of them for some answer -/
theorem yields_randint_iff (a b v : Int) (stream : List Nat) :
    Yields (randint a b) stream v ↔ ∃ (k : Nat) (rest : List Nat), stream = k :: rest ∧ a + (k : Int) ≤ b ∧ v = a + k := by
  constructor
  · rintro ⟨s', hr, hc⟩
    by_cases hab : b < a
    · rw [randint_empty a b hab] at hr
      simp only [Prod.mk.injEq, reduceCtorEq, false_and] at hr
    · have hab' : a ≤ b := by omega
      match stream, hr with
      | [], hr =>
        rw [Src.start, randint_nil a b hab'] at hr
        simp only [Prod.mk.injEq, reduceCtorEq, false_and] at hr
      | k :: rest, hr =>
        rw [Src.start, randint_cons a b hab'] at hr
        simp only [Prod.mk.injEq, Res.ok.injEq] at hr
        obtain ⟨hv, hs⟩ := hr
        subst hs
        have : k < (b - a + 1).toNat := hc ⟨(b - a + 1).toNat, k⟩ (List.mem_append_right _ (List.mem_singleton.mpr rfl))
        exact ⟨k, rest, rfl, by omega, hv.symm⟩
  · rintro ⟨k, rest, rfl, hk, rfl⟩
    have hab' : a ≤ b := by omega
    refine ⟨⟨rest, [] ++ [⟨(b - a + 1).toNat, k⟩]⟩, by rw [Src.start, randint_cons a b hab'], ?_⟩
    intro d hd
    simp only [List.nil_append, List.mem_cons, List.not_mem_nil, or_false] at hd
    subst hd
    show k < (b - a + 1).toNat
    omega

/-- the values `randint(a, b)` can return on conforming answers are exactly `a..b` -/
theorem randint_values (a b v : Int) : (∃ stream, Yields (randint a b) stream v) ↔ a ≤ v ∧ v ≤ b := by
  constructor
  · rintro ⟨stream, h⟩
    obtain ⟨k, rest, _, hk, rfl⟩ := (yields_randint_iff a b v stream).mp h
    omega
  · rintro ⟨h1, h2⟩
    exact ⟨[(v - a).toNat], (yields_randint_iff a b v _).mpr ⟨(v - a).toNat, [], rfl, by omega, by omega⟩⟩

/-- `TxMsg.rand_burst(length)` alone -/
theorem TxMsg.yields_randBurst (m m' : TxMsg) (len : Int) (stream : List Nat) (h : Yields (m.randBurst len) stream m') :
    ∃ ks rest : List Nat, stream = ks ++ rest ∧ ks.length = len.toNat ∧ (∀ k ∈ ks, k < 2) ∧
      m' = { m with burst := some ks } := by
  obtain ⟨s', hr, hc⟩ := h
  obtain ⟨ks, hlen, hst, _, hm', hlog⟩ := TxMsg.randBurst_inv m m' len _ s' hr
  have hc' : ∀ d ∈ s'.log, d.Ok := hc
  rw [hlog] at hc'
  simp only [Src.start, List.nil_append] at hc' hst
  exact ⟨ks, s'.stream, hst, hlen, ok_of_mem_map hc', hm'⟩

/-- `RxMsg.rand_burst(length)` alone -/
theorem RxMsg.yields_randBurst (m m' : RxMsg) (length : Option Int) (stream : List Nat)
    (h : Yields (m.randBurst length) stream m') :
    ∃ (L : Int) (ks rest : List Nat), rxLen m length = some L ∧ stream = ks ++ rest ∧ ks.length = L.toNat ∧
      (∀ k ∈ ks, k < 255) ∧ m' = { m with burst := some (ks.map fun (k : Nat) => (-127 : Int) + (k : Int)) } := by
  obtain ⟨s', hr, hc⟩ := h
  obtain ⟨L, ks, hL, hlen, hst, _, hm', hlog⟩ := RxMsg.randBurst_inv m m' length _ s' hr
  have hc' : ∀ d ∈ s'.log, d.Ok := hc
  rw [hlog] at hc'
  simp only [Src.start, List.nil_append] at hc' hst
  exact ⟨L, ks, s'.stream, hL, hst, hlen, ok_of_mem_map hc', hm'⟩

theorem tscset_ok (mod : Modulation) (k6 : Nat) (h6 : k6 < (if mod = Modulation.gmsk then 4 else 2)) :
    (if mod.coding = 0 then 0 ≤ (k6 : Int) ∧ (k6 : Int) ≤ 3 else 0 ≤ (k6 : Int) ∧ (k6 : Int) ≤ 1) := by
  by_cases hg : mod = Modulation.gmsk
  · rw [if_pos hg] at h6; rw [if_pos ((gmsk_iff_coding _).mp hg)]; omega
  · rw [if_neg hg] at h6; rw [if_neg (fun hc => hg ((gmsk_iff_coding _).mpr hc))]; omega

theorem bl_pos : ∀ x : Modulation, 0 < x.bl := by decide

end OsmoVerif.TrxdRand
