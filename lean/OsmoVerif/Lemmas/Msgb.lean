/-
Lemmas about `Model/Msgb.lean`: what each operation does when it returns normally, the buffer
invariant, the room conditions, the octets between `data` and `tail`.
-/
import OsmoVerif.Model.Msgb

namespace OsmoVerif.Msgb

/-- The buffer invariant: `head = _data`, `head ≤ data ≤ tail ≤ head + data_len`, `len = tail − data`,
`_data` has `data_len` octets, `data_len` is a `uint16_t`. -/
structure Inv (m : Msgb) : Prop where
  head : m.head = 0
  dt : m.data ≤ m.tail
  te : m.tail ≤ m.dataLen
  len : m.len = m.tail - m.data
  mem : m.mem.length = m.dataLen
  dl : m.dataLen < 65536

instance (m : Msgb) : Decidable (Inv m) :=
  if h : m.head = 0 ∧ m.data ≤ m.tail ∧ m.tail ≤ m.dataLen ∧ m.len = m.tail - m.data ∧
      m.mem.length = m.dataLen ∧ m.dataLen < 65536 then
    isTrue ⟨h.1, h.2.1, h.2.2.1, h.2.2.2.1, h.2.2.2.2.1, h.2.2.2.2.2⟩
  else isFalse (fun i => h ⟨i.head, i.dt, i.te, i.len, i.mem, i.dl⟩)

theorem toI32_small {n : Nat} (h : n < 2147483648) : toI32 n = n := by simp [toI32, h]
theorem toI32_big {n : Nat} (h : ¬ n < 2147483648) : toI32 n = (n : Int) - 4294967296 := by simp [toI32, h]

theorem tailroom_eq {m : Msgb} (i : Inv m) : tailroom m = ((m.dataLen - m.tail : Nat) : Int) := by
  have := i.te
  simp only [tailroom, i.head]
  omega

theorem headroom_eq {m : Msgb} (i : Inv m) : headroom m = (m.data : Int) := by
  simp [headroom, i.head]

/-! ### what a normal return means -/

theorem put_ok {m m' : Msgb} {n p : Nat} (h : put m n = .ok (m', p)) :
    ¬ tailroom m < toI32 n ∧ m.tail + n ≤ m.dataLen ∧
      m' = { m with tail := m.tail + n, len := u16 (m.len + n) } ∧ p = m.tail := by
  unfold put at h
  split at h
  · cases h
  · split at h
    · cases h
    · rename_i h1 h2
      simp only [Except.ok.injEq, Prod.mk.injEq] at h
      exact ⟨h1, by omega, h.1.symm, h.2.symm⟩

theorem push_ok {m m' : Msgb} {n p : Nat} (h : push m n = .ok (m', p)) :
    ¬ headroom m < toI32 n ∧ n ≤ m.data ∧
      m' = { m with data := m.data - n, len := u16 (m.len + n) } ∧ p = m.data - n := by
  unfold push at h
  split at h
  · cases h
  · split at h
    · cases h
    · rename_i h1 h2
      simp only [Except.ok.injEq, Prod.mk.injEq] at h
      exact ⟨h1, by omega, h.1.symm, h.2.symm⟩

theorem get_ok {m m' : Msgb} {n p : Nat} (h : get m n = .ok (m', p)) :
    n ≤ m.data ∧ n ≤ m.len ∧ n ≤ m.tail ∧
      m' = { m with tail := m.tail - n, len := u16 (m.len + 4294967296 - n) } ∧ p = m.data - n := by
  unfold get at h
  split at h
  · cases h
  · split at h
    · cases h
    · split at h
      · cases h
      · simp only [Except.ok.injEq, Prod.mk.injEq] at h
        exact ⟨by omega, by omega, by omega, h.1.symm, h.2.symm⟩

theorem pull_ok {m m' : Msgb} {n p : Nat} (h : pull m n = .ok (m', p)) :
    m.data + n ≤ m.dataLen ∧
      m' = { m with data := m.data + n, len := u16 (m.len + 4294967296 - n) } ∧ p = m.data + n := by
  unfold pull at h
  split at h
  · cases h
  · simp only [Except.ok.injEq, Prod.mk.injEq] at h
    exact ⟨by omega, h.1.symm, h.2.symm⟩

theorem reserve_ok {m m' : Msgb} {n : Int} (h : reserve m n = .ok m') :
    0 ≤ (m.data : Int) + n ∧ (m.tail : Int) + n ≤ m.dataLen ∧ 0 ≤ (m.tail : Int) + n ∧
      (m.data : Int) + n ≤ m.dataLen ∧
      m' = { m with data := ((m.data : Int) + n).toNat, tail := ((m.tail : Int) + n).toNat } := by
  unfold reserve at h
  simp only at h
  split at h
  · cases h
  · rename_i h1
    simp only [Except.ok.injEq] at h
    exact ⟨by omega, by omega, by omega, by omega, h.symm⟩

theorem trim_ok {m m' : Msgb} {n r : Int} (h : trim m n = .ok (m', r)) :
    (n > m.dataLen ∧ m' = m ∧ r = -1) ∨
    (n ≤ m.dataLen ∧ 0 ≤ (m.data : Int) + n ∧ (m.data : Int) + n ≤ m.dataLen ∧
      m' = { m with len := u16i n, tail := ((m.data : Int) + n).toNat } ∧ r = 0) := by
  unfold trim at h
  split at h
  · simp only [Except.ok.injEq, Prod.mk.injEq] at h
    rename_i h1
    exact .inl ⟨h1, h.1.symm, h.2.symm⟩
  · simp only at h
    split at h
    · cases h
    · simp only [Except.ok.injEq, Prod.mk.injEq] at h
      exact .inr ⟨by omega, by omega, by omega, h.1.symm, h.2.symm⟩

theorem writeAt_ok {m m' : Msgb} {off v : Nat} (h : writeAt m off v = .ok m') :
    off < m.mem.length ∧ m' = { m with mem := m.mem.set off v } := by
  unfold writeAt at h
  split at h
  · simp only [Except.ok.injEq] at h
    exact ⟨by assumption, h.symm⟩
  · cases h

theorem readAt_ok {m : Msgb} {off v : Nat} (h : readAt m off = .ok v) : m.mem[off]? = some v := by
  unfold readAt at h
  split at h
  · simp only [Except.ok.injEq] at h
    subst h
    assumption
  · cases h

/-! ### `memcpy` into the array -/

theorem take_set_succ (l : List Nat) (i b : Nat) (h : i < l.length) :
    (l.set i b).take (i + 1) = l.take i ++ [b] := by
  induction l generalizing i with
  | nil => simp at h
  | cons a l ih =>
    cases i with
    | zero => simp
    | succ i =>
      simp only [List.length_cons, Nat.add_lt_add_iff_right] at h
      simp [ih i h]

theorem drop_set_gt (l : List Nat) (i j b : Nat) (h : i < j) :
    (l.set i b).drop j = l.drop j := by
  rw [List.drop_set]
  simp [h]

/-- `mem` with `bs` written at `off` -/
def splice (mem : List Nat) (off : Nat) (bs : List Nat) : List Nat :=
  mem.take off ++ bs ++ mem.drop (off + bs.length)

theorem splice_nil (mem : List Nat) (off : Nat) : splice mem off [] = mem := by
  simp [splice]

theorem splice_cons (mem : List Nat) (off b : Nat) (bs : List Nat) (h : off < mem.length) :
    splice (mem.set off b) (off + 1) bs = splice mem off (b :: bs) := by
  simp only [splice, take_set_succ mem off b h, List.length_cons]
  rw [drop_set_gt mem off _ b (by omega)]
  simp [Nat.add_assoc, Nat.add_comm 1]

theorem splice_length (mem : List Nat) (off : Nat) (bs : List Nat) (h : off + bs.length ≤ mem.length) :
    (splice mem off bs).length = mem.length := by
  simp [splice]; omega

/-- inside the array `memcpy` succeeds and the octets land at `off …`, everything else stays -/
theorem writeBytes_fits : ∀ (bs : List Nat) (m : Msgb) (off : Nat), off + bs.length ≤ m.mem.length →
    writeBytes m off bs = .ok { m with mem := splice m.mem off bs }
  | [], m, off, _ => by simp [writeBytes, splice_nil]
  | b :: bs, m, off, h => by
    simp only [List.length_cons] at h
    have hlt : off < m.mem.length := by omega
    simp only [writeBytes, writeAt, hlt, ↓reduceIte, bind, Except.bind]
    rw [writeBytes_fits bs _ (off + 1) (by simp; omega)]
    simp [splice_cons m.mem off b bs hlt]

/-- a `memcpy` of at least one octet that returns normally was inside the array -/
theorem writeBytes_ok : ∀ (bs : List Nat) {m m' : Msgb} {off : Nat}, writeBytes m off bs = .ok m' →
    bs ≠ [] → off + bs.length ≤ m.mem.length
  | [], _, _, _, _, hne => absurd rfl hne
  | b :: bs, m, m', off, h, _ => by
    simp only [writeBytes, bind, Except.bind] at h
    split at h
    · cases h
    · rename_i m1 h1
      obtain ⟨hlt, rfl⟩ := writeAt_ok h1
      by_cases hbs : bs = []
      · subst hbs; simp; omega
      · have := writeBytes_ok bs h hbs
        simp only [List.length_set] at this
        simp only [List.length_cons]; omega

/-! ### the invariant is kept -/

def isOk {ε α : Type} : Except ε α → Bool
  | .ok _ => true
  | .error _ => false

theorem alloc_inv (size : Nat) : Inv (alloc size) := by
  refine ⟨rfl, Nat.le_refl _, Nat.zero_le _, rfl, by simp [alloc], ?_⟩
  simp only [alloc, u16]; omega

theorem reset_inv {m : Msgb} (i : Inv m) : Inv (reset m) :=
  ⟨rfl, Nat.le_refl _, Nat.zero_le _, rfl, i.mem, i.dl⟩

theorem put_inv {m m' : Msgb} {n p : Nat} (i : Inv m) (h : put m n = .ok (m', p)) : Inv m' := by
  obtain ⟨_, h2, rfl, _⟩ := put_ok h
  have := i.dt; have := i.te; have := i.len; have := i.dl
  exact ⟨i.head, by simp; omega, by simpa using h2, by simp only [u16]; omega, i.mem, i.dl⟩

theorem push_inv {m m' : Msgb} {n p : Nat} (i : Inv m) (h : push m n = .ok (m', p)) : Inv m' := by
  obtain ⟨_, h2, rfl, _⟩ := push_ok h
  have := i.dt; have := i.te; have := i.len; have := i.dl
  exact ⟨i.head, by simp; omega, i.te, by simp only [u16]; omega, i.mem, i.dl⟩

theorem get_inv {m m' : Msgb} {n p : Nat} (i : Inv m) (h : get m n = .ok (m', p)) : Inv m' := by
  obtain ⟨_, h2, _, rfl, _⟩ := get_ok h
  have := i.dt; have := i.te; have := i.len; have := i.dl
  exact ⟨i.head, by simp; omega, by simp; omega, by simp only [u16]; omega, i.mem, i.dl⟩

/-- `msgb_pull` has no check: it keeps the invariant exactly when at most `len` octets are pulled -/
theorem pull_inv_iff {m m' : Msgb} {n p : Nat} (i : Inv m) (h : pull m n = .ok (m', p)) :
    Inv m' ↔ n ≤ m.len := by
  obtain ⟨h1, rfl, _⟩ := pull_ok h
  have := i.dt; have := i.te; have := i.len; have := i.dl
  constructor
  · intro i'
    have := i'.dt
    simp at this
    omega
  · intro hn
    exact ⟨i.head, by simp; omega, i.te, by simp only [u16]; omega, i.mem, i.dl⟩

theorem reserve_inv {m m' : Msgb} {n : Int} (i : Inv m) (h : reserve m n = .ok m') : Inv m' := by
  obtain ⟨h1, h2, h3, h4, rfl⟩ := reserve_ok h
  have := i.dt; have := i.te; have := i.len; have := i.dl
  exact ⟨i.head, by simp; omega, by simp; omega, by simp; omega, i.mem, i.dl⟩

/-- `msgb_trim` checks `len > data_len` only: it keeps the invariant exactly when `len ≥ 0` -/
theorem trim_inv_iff {m m' : Msgb} {n r : Int} (i : Inv m) (h : trim m n = .ok (m', r)) :
    Inv m' ↔ (0 ≤ n ∨ n > m.dataLen) := by
  have := i.dt; have := i.te; have := i.len; have := i.dl
  rcases trim_ok h with ⟨h1, rfl, _⟩ | ⟨h1, h2, h3, rfl, _⟩
  · exact ⟨fun _ => .inr h1, fun _ => i⟩
  · constructor
    · intro i'
      have := i'.dt
      simp at this
      omega
    · intro hn
      have hn : 0 ≤ n := by omega
      refine ⟨i.head, by simp; omega, by simp; omega, ?_, i.mem, i.dl⟩
      simp only [u16i]
      omega

theorem writeAt_inv {m m' : Msgb} {off v : Nat} (i : Inv m) (h : writeAt m off v = .ok m') : Inv m' := by
  obtain ⟨_, rfl⟩ := writeAt_ok h
  exact ⟨i.head, i.dt, i.te, i.len, by simpa using i.mem, i.dl⟩

theorem writeBytes_inv : ∀ (bs : List Nat) {m m' : Msgb} {off : Nat}, Inv m → writeBytes m off bs = .ok m' → Inv m'
  | [], m, m', off, i, h => by
    simp only [writeBytes, Except.ok.injEq] at h
    exact h ▸ i
  | b :: bs, m, m', off, i, h => by
    simp only [writeBytes, bind, Except.bind] at h
    split at h
    · cases h
    · rename_i m1 h1
      exact writeBytes_inv bs (writeAt_inv i h1) h

/-! ### the room conditions: an operation fails exactly when its room check fails -/

theorem room_sum {m : Msgb} (i : Inv m) : tailroom m + m.len + headroom m = m.dataLen := by
  have := i.dt; have := i.te; have := i.len
  rw [tailroom_eq i, headroom_eq i]
  omega

theorem put_room {m : Msgb} (i : Inv m) {n : Nat} (hn : n < 4294967296) :
    isOk (put m n) = decide ((n : Int) ≤ tailroom m) := by
  have := i.te; have := i.dl
  rw [tailroom_eq i]
  unfold put
  rw [tailroom_eq i]
  by_cases hs : n < 2147483648
  · rw [toI32_small hs]
    split
    · simp only [isOk]; symm; rw [decide_eq_false_iff_not]; omega
    · split
      · omega
      · simp only [isOk]; symm; rw [decide_eq_true_iff]; omega
  · rw [toI32_big hs]
    split
    · omega
    · split
      · simp only [isOk]; symm; rw [decide_eq_false_iff_not]; omega
      · omega

/-- with a length below 2^31 the failure is the `MSGB_ABORT` of the header -/
theorem put_abort {m : Msgb} {n : Nat} (hn : n < 2147483648) (h : ¬ (n : Int) ≤ tailroom m) :
    put m n = .error .abort := by
  unfold put
  rw [toI32_small hn]
  simp only [ite_eq_left_iff]
  intro h'; omega

/-- … from 2^31 on `(int) len` is negative, the check passes, the pointer leaves the array -/
theorem put_huge {m : Msgb} (i : Inv m) {n : Nat} (hn : ¬ n < 2147483648) (hn' : n < 4294967296) :
    put m n = .error .oob := by
  have := i.te; have := i.dl
  unfold put
  rw [toI32_big hn, tailroom_eq i]
  split
  · omega
  · split
    · rfl
    · omega

theorem push_room {m : Msgb} (i : Inv m) {n : Nat} (hn : n < 4294967296) :
    isOk (push m n) = decide ((n : Int) ≤ headroom m) := by
  have := i.te; have := i.dl; have := i.dt
  unfold push
  rw [headroom_eq i]
  by_cases hs : n < 2147483648
  · rw [toI32_small hs]
    split
    · simp only [isOk]; symm; rw [decide_eq_false_iff_not]; omega
    · split
      · omega
      · simp only [isOk]; symm; rw [decide_eq_true_iff]; omega
  · rw [toI32_big hs]
    split
    · omega
    · split
      · simp only [isOk]; symm; rw [decide_eq_false_iff_not]; omega
      · omega

theorem push_abort {m : Msgb} {n : Nat} (hn : n < 2147483648) (h : ¬ (n : Int) ≤ headroom m) :
    push m n = .error .abort := by
  unfold push
  rw [toI32_small hn]
  simp only [ite_eq_left_iff]
  intro h'; omega

/-- `msgb_get` returns normally exactly when the message has `n` octets and there are `n` octets of
headroom for the pointer it computes (`data − n`) -/
theorem get_room {m : Msgb} (i : Inv m) (n : Nat) :
    isOk (get m n) = decide (n ≤ m.len ∧ n ≤ m.data) := by
  have := i.te; have := i.dl; have := i.dt; have := i.len
  unfold get
  split
  · simp only [isOk]; symm; rw [decide_eq_false_iff_not]; omega
  · split
    · simp only [isOk]; symm; rw [decide_eq_false_iff_not]; omega
    · split
      · omega
      · simp only [isOk]; symm; rw [decide_eq_true_iff]; omega

theorem get_abort {m : Msgb} {n : Nat} (h1 : n ≤ m.data) (h2 : m.len < n) : get m n = .error .abort := by
  unfold get
  simp [show ¬ m.data < n by omega, h2]

/-- `msgb_pull`: no check, so "fails" means the pointer leaves the array -/
theorem pull_room {m : Msgb} (n : Nat) : isOk (pull m n) = decide (m.data + n ≤ m.dataLen) := by
  unfold pull
  split
  · simp only [isOk]; symm; rw [decide_eq_false_iff_not]; omega
  · simp only [isOk]; symm; rw [decide_eq_true_iff]; omega

/-! ### the octets between `data` and `tail` -/

theorem body_splice_tail (mem bs : List Nat) (d t : Nat) (hdt : d ≤ t) (ht : t + bs.length ≤ mem.length) :
    ((splice mem t bs).drop d).take (t + bs.length - d) = (mem.drop d).take (t - d) ++ bs := by
  simp only [splice]
  have h1 : (mem.take t).length = t := by simp; omega
  rw [List.append_assoc, List.drop_append_of_le_length (by omega)]
  rw [List.take_append]
  have h2 : ((mem.take t).drop d).length = t - d := by simp; omega
  rw [h2, List.take_of_length_le (by omega), List.take_append]
  have h3 : t + bs.length - d - (t - d) = bs.length := by omega
  rw [h3, List.take_length]
  simp [List.drop_take]

theorem body_splice_head (mem bs : List Nat) (d t : Nat) (hdt : d ≤ t) (hb : bs.length ≤ d) (ht : t ≤ mem.length) :
    ((splice mem (d - bs.length) bs).drop (d - bs.length)).take (t - (d - bs.length)) = bs ++ (mem.drop d).take (t - d) := by
  simp only [splice]
  have h1 : (mem.take (d - bs.length)).length = d - bs.length := by simp; omega
  rw [List.append_assoc, List.drop_append_of_le_length (by omega)]
  rw [List.drop_of_length_le (by omega), List.nil_append, List.take_append]
  have h3 : d - bs.length + bs.length = d := by omega
  have h4 : t - (d - bs.length) - bs.length = t - d := by omega
  rw [h3, h4, List.take_of_length_le (by omega)]

theorem body_length {m : Msgb} (i : Inv m) : (body m).length = m.len := by
  have := i.dt; have := i.te; have := i.len; have := i.mem
  simp [body]; omega

/-- `memcpy(msgb_put(msg, n), bytes, n)` appends the octets -/
theorem putBytes_ok {m m' : Msgb} {bs : List Nat} (i : Inv m) (h : putBytes m bs = .ok m') :
    Inv m' ∧ body m' = body m ++ bs ∧ m'.data = m.data ∧ m'.tail = m.tail + bs.length ∧
      m'.dataLen = m.dataLen ∧ (bs.length : Int) ≤ tailroom m := by
  simp only [putBytes, bind, Except.bind] at h
  split at h
  · cases h
  · rename_i r h1
    obtain ⟨m1, p⟩ := r
    have i1 := put_inv i h1
    obtain ⟨hc, h2, rfl, rfl⟩ := put_ok h1
    have hfit : m.tail + bs.length ≤ m.mem.length := by rw [i.mem]; exact h2
    rw [writeBytes_fits bs _ m.tail (by simpa using hfit)] at h
    simp only [Except.ok.injEq] at h
    subst h
    have hroom : (bs.length : Int) ≤ tailroom m := by
      rw [tailroom_eq i]; have := i.te; omega
    refine ⟨writeBytes_inv bs i1 (writeBytes_fits bs _ m.tail (by simpa using hfit)), ?_, rfl, rfl, rfl, hroom⟩
    simp only [body]
    exact body_splice_tail m.mem bs m.data m.tail i.dt hfit

theorem pushBytes_ok {m m' : Msgb} {bs : List Nat} (i : Inv m) (h : pushBytes m bs = .ok m') :
    Inv m' ∧ body m' = bs ++ body m ∧ m'.data = m.data - bs.length ∧ m'.tail = m.tail ∧
      m'.dataLen = m.dataLen ∧ (bs.length : Int) ≤ headroom m := by
  simp only [pushBytes, bind, Except.bind] at h
  split at h
  · cases h
  · rename_i r h1
    obtain ⟨m1, p⟩ := r
    have i1 := push_inv i h1
    obtain ⟨hc, h2, rfl, rfl⟩ := push_ok h1
    have := i.dt; have := i.te
    have hfit : m.data - bs.length + bs.length ≤ m.mem.length := by rw [i.mem]; omega
    rw [writeBytes_fits bs _ (m.data - bs.length) (by simpa using hfit)] at h
    simp only [Except.ok.injEq] at h
    subst h
    have hroom : (bs.length : Int) ≤ headroom m := by rw [headroom_eq i]; omega
    refine ⟨writeBytes_inv bs i1 (writeBytes_fits bs _ _ (by simpa using hfit)), ?_, rfl, rfl, rfl, hroom⟩
    simp only [body]
    exact body_splice_head m.mem bs m.data m.tail i.dt h2 (by rw [i.mem]; exact i.te)

theorem pull_body {m m' : Msgb} {n p : Nat} (h : pull m n = .ok (m', p)) :
    body m' = (body m).drop n := by
  obtain ⟨_, rfl, _⟩ := pull_ok h
  simp only [body, List.drop_take, List.drop_drop]
  congr 1
  omega

theorem get_body {m m' : Msgb} {n p : Nat} (i : Inv m) (h : get m n = .ok (m', p)) :
    body m' = (body m).take (m.len - n) := by
  obtain ⟨_, h2, _, rfl, _⟩ := get_ok h
  have := i.dt; have := i.len
  simp only [body, List.take_take]
  congr 1
  omega

theorem putBytes_succeeds {m : Msgb} (i : Inv m) {bs : List Nat} (h : m.tail + bs.length ≤ m.dataLen) :
    ∃ m', putBytes m bs = .ok m' := by
  have := i.dl; have := i.te
  have hp : put m bs.length = .ok ({ m with tail := m.tail + bs.length, len := u16 (m.len + bs.length) }, m.tail) := by
    unfold put
    rw [toI32_small (by omega), tailroom_eq i]
    rw [if_neg (by omega), if_neg (by omega)]
  simp only [putBytes, bind, Except.bind, hp]
  rw [writeBytes_fits bs _ m.tail (by simp only; rw [i.mem]; exact h)]
  exact ⟨_, rfl⟩

theorem pushBytes_succeeds {m : Msgb} (i : Inv m) {bs : List Nat} (h : bs.length ≤ m.data) :
    ∃ m', pushBytes m bs = .ok m' := by
  have := i.dl; have := i.te; have := i.dt
  have hp : push m bs.length = .ok ({ m with data := m.data - bs.length, len := u16 (m.len + bs.length) }, m.data - bs.length) := by
    unfold push
    rw [toI32_small (by omega), headroom_eq i]
    rw [if_neg (by omega), if_neg (by omega)]
  simp only [pushBytes, bind, Except.bind, hp]
  rw [writeBytes_fits bs _ (m.data - bs.length) (by simp only; rw [i.mem]; omega)]
  exact ⟨_, rfl⟩

/-! ### inverse pairs -/

/-- `msgb_put` then `msgb_get` of the same amount gives the buffer back (when `msgb_get` can form its
pointer, i.e. `n ≤ headroom`); the pointer it returns is `data − n`, NOT the start of the removed octets -/
theorem put_get_restores {m m1 m2 : Msgb} {n p q : Nat} (i : Inv m)
    (h1 : put m n = .ok (m1, p)) (h2 : get m1 n = .ok (m2, q)) : m2 = m ∧ q = m.data - n := by
  obtain ⟨_, hb, rfl, rfl⟩ := put_ok h1
  obtain ⟨_, _, _, rfl, rfl⟩ := get_ok h2
  have := i.dt; have := i.te; have := i.len; have := i.dl
  refine ⟨?_, rfl⟩
  cases m
  simp only [Msgb.mk.injEq, u16, true_and, and_true] at *
  omega

theorem push_pull_restores {m m1 m2 : Msgb} {n p q : Nat} (i : Inv m)
    (h1 : push m n = .ok (m1, p)) (h2 : pull m1 n = .ok (m2, q)) : m2 = m ∧ q = m.data := by
  obtain ⟨_, hb, rfl, rfl⟩ := push_ok h1
  obtain ⟨_, rfl, rfl⟩ := pull_ok h2
  have := i.dt; have := i.te; have := i.len; have := i.dl
  cases m
  simp only [Msgb.mk.injEq, u16, true_and, and_true] at *
  omega

theorem pull_push_restores {m m1 m2 : Msgb} {n p q : Nat} (i : Inv m) (hn : n ≤ m.len)
    (h1 : pull m n = .ok (m1, p)) (h2 : push m1 n = .ok (m2, q)) : m2 = m ∧ q = m.data := by
  obtain ⟨_, rfl, rfl⟩ := pull_ok h1
  obtain ⟨_, hb, rfl, rfl⟩ := push_ok h2
  have := i.dt; have := i.te; have := i.len; have := i.dl
  cases m
  simp only [Msgb.mk.injEq, u16, true_and, and_true] at *
  omega

/-! ### the typed accessors -/


theorem bind_ok {ε α : Type} (x : Except ε α) : (x >>= fun a => Except.ok a) = x := by
  cases x <;> rfl

theorem putU8_eq (m : Msgb) (w : Nat) : putU8 m w = putBytes m [w % 256] := by
  simp only [putU8, putBytes, writeBytes, bind, Except.bind, List.length_cons, List.length_nil]
  cases put m (0 + 1) with
  | error e => rfl
  | ok r =>
    simp only
    cases writeAt r.1 r.2 (w % 256) <;> rfl

theorem putU16_eq (m : Msgb) (w : Nat) :
    putU16 m w = putBytes m [w % 65536 / 256 % 256, w % 65536 % 256] := by
  simp only [putU16, putBytes, writeBytes, bind, Except.bind, List.length_cons, List.length_nil]
  cases put m (0 + 1 + 1) with
  | error e => rfl
  | ok r =>
    simp only
    cases writeAt r.1 r.2 (w % 65536 / 256 % 256) with
    | error e => rfl
    | ok m1 =>
      simp only
      cases writeAt m1 (r.2 + 1) (w % 65536 % 256) <;> rfl

theorem putU32_eq (m : Msgb) (w : Nat) :
    putU32 m w = putBytes m [w % 4294967296 / 16777216 % 256, w % 4294967296 / 65536 % 256,
      w % 4294967296 / 256 % 256, w % 4294967296 % 256] := by
  simp only [putU32, putBytes, writeBytes, bind, Except.bind, List.length_cons, List.length_nil]
  cases put m (0 + 1 + 1 + 1 + 1) with
  | error e => rfl
  | ok r =>
    simp only
    cases writeAt r.1 r.2 (w % 4294967296 / 16777216 % 256) with
    | error e => rfl
    | ok m1 =>
      simp only
      cases writeAt m1 (r.2 + 1) (w % 4294967296 / 65536 % 256) with
      | error e => rfl
      | ok m2 =>
        simp only
        cases writeAt m2 (r.2 + 1 + 1) (w % 4294967296 / 256 % 256) with
        | error e => rfl
        | ok m3 =>
          simp only
          cases writeAt m3 (r.2 + 1 + 1 + 1) (w % 4294967296 % 256) <;> rfl



theorem bind_eq_ok {ε α β : Type} {x : Except ε α} {f : α → Except ε β} {b : β}
    (h : (x >>= f) = .ok b) : ∃ a, x = .ok a ∧ f a = .ok b := by
  cases x with
  | error e => cases h
  | ok a => exact ⟨a, rfl, h⟩

theorem body_cons {m : Msgb} {v : Nat} (hlt : m.data < m.tail) (hv : m.mem[m.data]? = some v) :
    body m = v :: body { m with data := m.data + 1 } := by
  simp only [body]
  have hl : m.data < m.mem.length := by
    rcases List.getElem?_eq_some_iff.1 hv with ⟨h, _⟩; exact h
  have hv' : m.mem[m.data] = v := by
    rcases List.getElem?_eq_some_iff.1 hv with ⟨_, h⟩; exact h
  rw [List.drop_eq_getElem_cons hl, hv']
  have : m.tail - m.data = (m.tail - (m.data + 1)) + 1 := by omega
  rw [this, List.take_succ_cons]

/-- the octets of the message, one by one -/
theorem body_eq_of_reads {m : Msgb} (d t : Nat) (mem : List Nat) (hm : m.mem = mem) (hd : m.data = d) (ht : m.tail = t) :
    body m = (mem.drop d).take (t - d) := by
  simp [body, hm, hd, ht]

theorem bodyFrom_cons (mem : List Nat) (d t v : Nat) (hlt : d < t) (hv : mem[d]? = some v) :
    (mem.drop d).take (t - d) = v :: (mem.drop (d + 1)).take (t - (d + 1)) := by
  have hl : d < mem.length := by
    rcases List.getElem?_eq_some_iff.1 hv with ⟨h, _⟩; exact h
  have hv' : mem[d] = v := by
    rcases List.getElem?_eq_some_iff.1 hv with ⟨_, h⟩; exact h
  rw [List.drop_eq_getElem_cons hl, hv']
  have : t - d = (t - (d + 1)) + 1 := by omega
  rw [this, List.take_succ_cons]

/-- `msgb_pull_u8` returns the first octet of the message and removes it -/
theorem pullU8_ok {m m' : Msgb} {v : Nat} (i : Inv m) (hn : 1 ≤ m.len) (h : pullU8 m = .ok (m', v)) :
    body m = v :: body m' ∧ Inv m' := by
  unfold pullU8 at h
  obtain ⟨⟨m1, p⟩, h1, h⟩ := bind_eq_ok h
  obtain ⟨a, ha, h⟩ := bind_eq_ok h
  simp only [Except.ok.injEq, Prod.mk.injEq] at h
  obtain ⟨rfl, rfl⟩ := h
  have i1 := (pull_inv_iff i h1).2 hn
  obtain ⟨_, hm1, hp⟩ := pull_ok h1
  have ha := readAt_ok ha
  have e1 : m1.mem = m.mem := by rw [hm1]
  have e2 : m1.data = m.data + 1 := by rw [hm1]
  have e3 : m1.tail = m.tail := by rw [hm1]
  have := i.len
  rw [e1, hp, show m.data + 1 - 1 = m.data by omega] at ha
  refine ⟨?_, i1⟩
  rw [body_eq_of_reads (m.data + 1) m.tail m.mem e1 e2 e3, body_eq_of_reads m.data m.tail m.mem rfl rfl rfl]
  exact bodyFrom_cons _ _ _ _ (by omega) ha

/-- `msgb_pull_u16` returns the first two octets, big endian -/
theorem pullU16_ok {m m' : Msgb} {v : Nat} (i : Inv m) (hn : 2 ≤ m.len) (h : pullU16 m = .ok (m', v)) :
    ∃ a b, body m = a :: b :: body m' ∧ v = a * 256 + b ∧ Inv m' := by
  unfold pullU16 at h
  obtain ⟨⟨m1, p⟩, h1, h⟩ := bind_eq_ok h
  obtain ⟨a, ha, h⟩ := bind_eq_ok h
  obtain ⟨b, hb, h⟩ := bind_eq_ok h
  simp only [Except.ok.injEq, Prod.mk.injEq] at h
  obtain ⟨rfl, rfl⟩ := h
  have i1 := (pull_inv_iff i h1).2 hn
  obtain ⟨_, hm1, hp⟩ := pull_ok h1
  have ha := readAt_ok ha
  have hb := readAt_ok hb
  have e1 : m1.mem = m.mem := by rw [hm1]
  have e2 : m1.data = m.data + 2 := by rw [hm1]
  have e3 : m1.tail = m.tail := by rw [hm1]
  have := i.len
  rw [e1, hp, show m.data + 2 - 2 = m.data by omega] at ha
  rw [e1, hp, show m.data + 2 - 1 = m.data + 1 by omega] at hb
  refine ⟨a, b, ?_, rfl, i1⟩
  rw [body_eq_of_reads (m.data + 2) m.tail m.mem e1 e2 e3, body_eq_of_reads m.data m.tail m.mem rfl rfl rfl]
  rw [bodyFrom_cons _ _ _ _ (by omega) ha, bodyFrom_cons _ _ _ _ (by omega) hb]

/-- `msgb_pull_u32`: four octets big endian — when the first is below 0x80; from 0x80 on the `int`
shift `space[0] << 24` is not representable -/
theorem pullU32_ok {m m' : Msgb} {v : Nat} (i : Inv m) (hn : 4 ≤ m.len) (h : pullU32 m = .ok (m', v)) :
    ∃ a b c d, body m = a :: b :: c :: d :: body m' ∧ a < 128 ∧
      v = a * 16777216 + b * 65536 + c * 256 + d ∧ Inv m' := by
  unfold pullU32 at h
  obtain ⟨⟨m1, p⟩, h1, h⟩ := bind_eq_ok h
  obtain ⟨a, ha, h⟩ := bind_eq_ok h
  obtain ⟨b, hb, h⟩ := bind_eq_ok h
  obtain ⟨c, hc, h⟩ := bind_eq_ok h
  obtain ⟨d, hd, h⟩ := bind_eq_ok h
  obtain ⟨v', hv, h⟩ := bind_eq_ok h
  simp only [Except.ok.injEq, Prod.mk.injEq] at h
  obtain ⟨rfl, rfl⟩ := h
  have i1 := (pull_inv_iff i h1).2 hn
  obtain ⟨_, hm1, hp⟩ := pull_ok h1
  have ha := readAt_ok ha
  have hb := readAt_ok hb
  have hc := readAt_ok hc
  have hd := readAt_ok hd
  have e1 : m1.mem = m.mem := by rw [hm1]
  have e2 : m1.data = m.data + 4 := by rw [hm1]
  have e3 : m1.tail = m.tail := by rw [hm1]
  have := i.len
  rw [e1, hp, show m.data + 4 - 4 = m.data by omega] at ha
  rw [e1, hp, show m.data + 4 - 3 = m.data + 1 by omega] at hb
  rw [e1, hp, show m.data + 4 - 2 = m.data + 2 by omega] at hc
  rw [e1, hp, show m.data + 4 - 1 = m.data + 3 by omega] at hd
  unfold be32 at hv
  split at hv
  · cases hv
  · simp only [Except.ok.injEq] at hv
    refine ⟨a, b, c, d, ?_, by omega, hv.symm, i1⟩
    rw [body_eq_of_reads (m.data + 4) m.tail m.mem e1 e2 e3, body_eq_of_reads m.data m.tail m.mem rfl rfl rfl]
    rw [bodyFrom_cons _ _ _ _ (by omega) ha, bodyFrom_cons _ _ _ _ (by omega) hb,
      bodyFrom_cons _ _ _ _ (by omega) hc, bodyFrom_cons _ _ _ _ (by omega) hd]

/-- `msgb_get_u8` does not return the octet it removes: it reads the octet in front of `data` -/
theorem getU8_ok {m m' : Msgb} {v : Nat} (h : getU8 m = .ok (m', v)) :
    1 ≤ m.data ∧ m.mem[m.data - 1]? = some v := by
  unfold getU8 at h
  obtain ⟨⟨m1, p⟩, h1, h⟩ := bind_eq_ok h
  obtain ⟨a, ha, h⟩ := bind_eq_ok h
  simp only [Except.ok.injEq, Prod.mk.injEq] at h
  obtain ⟨rfl, rfl⟩ := h
  obtain ⟨hd, _, _, hm1, hp⟩ := get_ok h1
  have ha := readAt_ok ha
  have e1 : m1.mem = m.mem := by rw [hm1]
  rw [e1, hp] at ha
  exact ⟨hd, ha⟩

/-! ### every operation of a script -/


/-- the condition under which an operation WITHOUT a check in msgb.h keeps the invariant
(`True` for the operations that have one, and for `msgb_reserve`, whose pointers the model confines
to the array) -/
def Op.roomOk (m : Msgb) : Op → Prop
  | .pull n => n ≤ m.len
  | .pullU8 => 1 ≤ m.len
  | .pullU16 => 2 ≤ m.len
  | .pullU32 => 4 ≤ m.len
  | .trim n => 0 ≤ n ∨ n > m.dataLen
  | _ => True

theorem getU_inv {m m1 : Msgb} {n p : Nat} (i : Inv m) (h : get m n = .ok (m1, p)) : Inv m1 := get_inv i h

/-- every operation that returns normally keeps the buffer invariant — for the operations without a
check exactly when their room condition holds -/
theorem step_inv {m m' : Msgb} {op : Op} {r : Ret} (i : Inv m) (h : step m op = .ok (m', r)) :
    Inv m' ↔ op.roomOk m := by
  cases op with
  | reset =>
    simp only [step, Except.ok.injEq, Prod.mk.injEq] at h
    simp only [Op.roomOk, iff_true]; exact h.1 ▸ reset_inv i
  | put n =>
    unfold step at h
    obtain ⟨⟨m1, p⟩, h1, h⟩ := bind_eq_ok h
    simp only [Except.ok.injEq, Prod.mk.injEq] at h
    simp only [Op.roomOk, iff_true]; exact h.1 ▸ put_inv i h1
  | putBytes b =>
    unfold step at h
    obtain ⟨m1, h1, h⟩ := bind_eq_ok h
    simp only [Except.ok.injEq, Prod.mk.injEq] at h
    simp only [Op.roomOk, iff_true]; exact h.1 ▸ (putBytes_ok i h1).1
  | putU8 w =>
    unfold step at h
    obtain ⟨m1, h1, h⟩ := bind_eq_ok h
    simp only [Except.ok.injEq, Prod.mk.injEq] at h
    rw [putU8_eq] at h1
    simp only [Op.roomOk, iff_true]; exact h.1 ▸ (putBytes_ok i h1).1
  | putU16 w =>
    unfold step at h
    obtain ⟨m1, h1, h⟩ := bind_eq_ok h
    simp only [Except.ok.injEq, Prod.mk.injEq] at h
    rw [putU16_eq] at h1
    simp only [Op.roomOk, iff_true]; exact h.1 ▸ (putBytes_ok i h1).1
  | putU32 w =>
    unfold step at h
    obtain ⟨m1, h1, h⟩ := bind_eq_ok h
    simp only [Except.ok.injEq, Prod.mk.injEq] at h
    rw [putU32_eq] at h1
    simp only [Op.roomOk, iff_true]; exact h.1 ▸ (putBytes_ok i h1).1
  | get n =>
    unfold step at h
    obtain ⟨⟨m1, p⟩, h1, h⟩ := bind_eq_ok h
    simp only [Except.ok.injEq, Prod.mk.injEq] at h
    simp only [Op.roomOk, iff_true]; exact h.1 ▸ get_inv i h1
  | getU8 =>
    unfold step at h
    obtain ⟨⟨m1, v⟩, h1, h⟩ := bind_eq_ok h
    simp only [Except.ok.injEq, Prod.mk.injEq] at h
    unfold getU8 at h1
    obtain ⟨⟨m2, p⟩, h2, h1⟩ := bind_eq_ok h1
    obtain ⟨a, _, h1⟩ := bind_eq_ok h1
    simp only [Except.ok.injEq, Prod.mk.injEq] at h1
    simp only [Op.roomOk, iff_true]; exact h.1 ▸ h1.1 ▸ get_inv i h2
  | getU16 =>
    unfold step at h
    obtain ⟨⟨m1, v⟩, h1, h⟩ := bind_eq_ok h
    simp only [Except.ok.injEq, Prod.mk.injEq] at h
    unfold getU16 at h1
    obtain ⟨⟨m2, p⟩, h2, h1⟩ := bind_eq_ok h1
    obtain ⟨a, _, h1⟩ := bind_eq_ok h1
    obtain ⟨b, _, h1⟩ := bind_eq_ok h1
    simp only [Except.ok.injEq, Prod.mk.injEq] at h1
    simp only [Op.roomOk, iff_true]; exact h.1 ▸ h1.1 ▸ get_inv i h2
  | getU32 =>
    unfold step at h
    obtain ⟨⟨m1, v⟩, h1, h⟩ := bind_eq_ok h
    simp only [Except.ok.injEq, Prod.mk.injEq] at h
    unfold getU32 at h1
    obtain ⟨⟨m2, p⟩, h2, h1⟩ := bind_eq_ok h1
    obtain ⟨a, _, h1⟩ := bind_eq_ok h1
    obtain ⟨b, _, h1⟩ := bind_eq_ok h1
    obtain ⟨c, _, h1⟩ := bind_eq_ok h1
    obtain ⟨d, _, h1⟩ := bind_eq_ok h1
    obtain ⟨e, _, h1⟩ := bind_eq_ok h1
    simp only [Except.ok.injEq, Prod.mk.injEq] at h1
    simp only [Op.roomOk, iff_true]; exact h.1 ▸ h1.1 ▸ get_inv i h2
  | push n =>
    unfold step at h
    obtain ⟨⟨m1, p⟩, h1, h⟩ := bind_eq_ok h
    simp only [Except.ok.injEq, Prod.mk.injEq] at h
    simp only [Op.roomOk, iff_true]; exact h.1 ▸ push_inv i h1
  | pushBytes b =>
    unfold step at h
    obtain ⟨m1, h1, h⟩ := bind_eq_ok h
    simp only [Except.ok.injEq, Prod.mk.injEq] at h
    simp only [Op.roomOk, iff_true]; exact h.1 ▸ (pushBytes_ok i h1).1
  | pull n =>
    unfold step at h
    obtain ⟨⟨m1, p⟩, h1, h⟩ := bind_eq_ok h
    simp only [Except.ok.injEq, Prod.mk.injEq] at h
    simp only [Op.roomOk]; exact h.1 ▸ pull_inv_iff i h1
  | pullU8 =>
    unfold step at h
    obtain ⟨⟨m1, v⟩, h1, h⟩ := bind_eq_ok h
    simp only [Except.ok.injEq, Prod.mk.injEq] at h
    unfold pullU8 at h1
    obtain ⟨⟨m2, p⟩, h2, h1⟩ := bind_eq_ok h1
    obtain ⟨a, _, h1⟩ := bind_eq_ok h1
    simp only [Except.ok.injEq, Prod.mk.injEq] at h1
    simp only [Op.roomOk]; exact h.1 ▸ h1.1 ▸ pull_inv_iff i h2
  | pullU16 =>
    unfold step at h
    obtain ⟨⟨m1, v⟩, h1, h⟩ := bind_eq_ok h
    simp only [Except.ok.injEq, Prod.mk.injEq] at h
    unfold pullU16 at h1
    obtain ⟨⟨m2, p⟩, h2, h1⟩ := bind_eq_ok h1
    obtain ⟨a, _, h1⟩ := bind_eq_ok h1
    obtain ⟨b, _, h1⟩ := bind_eq_ok h1
    simp only [Except.ok.injEq, Prod.mk.injEq] at h1
    simp only [Op.roomOk]; exact h.1 ▸ h1.1 ▸ pull_inv_iff i h2
  | pullU32 =>
    unfold step at h
    obtain ⟨⟨m1, v⟩, h1, h⟩ := bind_eq_ok h
    simp only [Except.ok.injEq, Prod.mk.injEq] at h
    unfold pullU32 at h1
    obtain ⟨⟨m2, p⟩, h2, h1⟩ := bind_eq_ok h1
    obtain ⟨a, _, h1⟩ := bind_eq_ok h1
    obtain ⟨b, _, h1⟩ := bind_eq_ok h1
    obtain ⟨c, _, h1⟩ := bind_eq_ok h1
    obtain ⟨d, _, h1⟩ := bind_eq_ok h1
    obtain ⟨e, _, h1⟩ := bind_eq_ok h1
    simp only [Except.ok.injEq, Prod.mk.injEq] at h1
    simp only [Op.roomOk]; exact h.1 ▸ h1.1 ▸ pull_inv_iff i h2
  | reserve n =>
    unfold step at h
    obtain ⟨m1, h1, h⟩ := bind_eq_ok h
    simp only [Except.ok.injEq, Prod.mk.injEq] at h
    simp only [Op.roomOk, iff_true]; exact h.1 ▸ reserve_inv i h1
  | trim n =>
    unfold step at h
    obtain ⟨⟨m1, v⟩, h1, h⟩ := bind_eq_ok h
    simp only [Except.ok.injEq, Prod.mk.injEq] at h
    simp only [Op.roomOk]; exact h.1 ▸ trim_inv_iff i h1
  | tailroom =>
    simp only [step, Except.ok.injEq, Prod.mk.injEq] at h
    simp only [Op.roomOk, iff_true]; exact h.1 ▸ i
  | headroom =>
    simp only [step, Except.ok.injEq, Prod.mk.injEq] at h
    simp only [Op.roomOk, iff_true]; exact h.1 ▸ i
  | headlen =>
    simp only [step, Except.ok.injEq, Prod.mk.injEq] at h
    simp only [Op.roomOk, iff_true]; exact h.1 ▸ i
  | length =>
    simp only [step, Except.ok.injEq, Prod.mk.injEq] at h
    simp only [Op.roomOk, iff_true]; exact h.1 ▸ i

/-! ### `sercomm_alloc_msgb` -/


/-- the buffer `sercomm_alloc_msgb(n)` hands out for `1 ≤ n ≤ 65531` -/
def scBuf (n : Nat) : Msgb :=
  { dataLen := n + 4, len := 0, head := 0, data := 4, tail := 4, mem := List.replicate (n + 4) 0 }

theorem sercommAlloc_small {n : Nat} (h1 : 1 ≤ n) (h2 : n ≤ 65531) : sercommAlloc n = .ok (scBuf n) := by
  have e1 : (n + 4) % 4294967296 = n + 4 := by omega
  have e2 : toI32 (n + 4) = ((n + 4 : Nat) : Int) := toI32_small (by omega)
  have e3 : u16i ((n + 4 : Nat) : Int) = n + 4 := by simp only [u16i]; omega
  have e4 : u16 (n + 4) = n + 4 := by simp only [u16]; omega
  simp only [sercommAlloc, allocHeadroom, e1, e2, e3]
  rw [if_neg (by omega)]
  simp only [reserve, alloc, e4, scBuf]
  rw [if_neg (by omega)]
  simp

theorem scBuf_inv {n : Nat} (h2 : n ≤ 65531) : Inv (scBuf n) :=
  ⟨rfl, Nat.le_refl _, by simp [scBuf], rfl, by simp [scBuf], by simp [scBuf]; omega⟩

theorem scBuf_rooms (n : Nat) : tailroom (scBuf n) = n ∧ headroom (scBuf n) = 4 := by
  simp [tailroom, headroom, scBuf]

/-- `sercomm_alloc_msgb(0)`: `size > headroom` is `4 > 4` -/
theorem sercommAlloc_zero : sercommAlloc 0 = .error .vla := by
  simp [sercommAlloc, allocHeadroom, toI32]

/-- beyond the `uint16_t` of `msgb_alloc`: the size wraps -/
theorem sercommAlloc_wrap {n : Nat} (h1 : 65532 ≤ n) (h2 : n < 65536) : sercommAlloc n = .error .oob := by
  have e1 : (n + 4) % 4294967296 = n + 4 := by omega
  have e2 : toI32 (n + 4) = ((n + 4 : Nat) : Int) := toI32_small (by omega)
  have e3 : u16i ((n + 4 : Nat) : Int) = n + 4 - 65536 := by simp only [u16i]; omega
  have e4 : u16 (n + 4 - 65536) = n + 4 - 65536 := by simp only [u16]; omega
  simp only [sercommAlloc, allocHeadroom, e1, e2, e3]
  rw [if_neg (by omega)]
  simp only [reserve, alloc, e4]
  rw [if_pos (by omega)]

/-! ### `msgb_enqueue` / `msgb_dequeue`: the linked cells are a first-in-first-out list -/


/-- from cell `a` the cells of `l` are linked forwards up to `b`, and backwards from `b` to `a` -/
def Seg (h : Heap) : Nat → List Nat → Nat → Prop
  | a, [], b => (h a).next = b ∧ (h b).prev = a
  | a, x :: l, b => (h a).next = x ∧ (h x).prev = a ∧ Seg h x l b

/-- the circular list with head cell `q` holds exactly the cells `l`, in this order -/
def IsQueue (h : Heap) (q : Nat) (l : List Nat) : Prop := Seg h q l q ∧ (q :: l).Nodup

theorem seg_frame {h h' : Heap} : ∀ {a : Nat} {l : List Nat} {b : Nat}, Seg h a l b →
    (∀ c ∈ a :: l, (h' c).next = (h c).next) → (∀ c ∈ l ++ [b], (h' c).prev = (h c).prev) → Seg h' a l b
  | a, [], b, hs, hn, hp => by
    simp only [Seg] at hs ⊢
    rw [hn a (by simp), hp b (by simp)]
    exact hs
  | a, x :: l, b, hs, hn, hp => by
    simp only [Seg] at hs ⊢
    refine ⟨by rw [hn a (by simp)]; exact hs.1, by rw [hp x (by simp)]; exact hs.2.1, ?_⟩
    exact seg_frame hs.2.2 (fun c hc => hn c (List.mem_cons_of_mem _ hc))
      (fun c hc => hp c (by simp only [List.cons_append, List.mem_cons]; exact .inr hc))

@[simp] theorem setNext_next (h : Heap) (a v x : Nat) : ((h.setNext a v) x).next = if x = a then v else (h x).next := by
  simp only [Heap.setNext]; split <;> rfl
@[simp] theorem setNext_prev (h : Heap) (a v x : Nat) : ((h.setNext a v) x).prev = (h x).prev := by
  simp only [Heap.setNext]; split <;> rfl
@[simp] theorem setPrev_prev (h : Heap) (a v x : Nat) : ((h.setPrev a v) x).prev = if x = a then v else (h x).prev := by
  simp only [Heap.setPrev]; split <;> rfl
@[simp] theorem setPrev_next (h : Heap) (a v x : Nat) : ((h.setPrev a v) x).next = (h x).next := by
  simp only [Heap.setPrev]; split <;> rfl

theorem seg_prev {h : Heap} : ∀ {a : Nat} {l : List Nat} {b : Nat}, Seg h a l b →
    (h b).prev = (a :: l).getLast (by simp)
  | a, [], b, hs => by simpa using hs.2
  | a, x :: l, b, hs => by
    have := seg_prev hs.2.2
    simpa using this

theorem seg_add_tail {h : Heap} {new : Nat} : ∀ {a : Nat} {l : List Nat} {b : Nat}, Seg h a l b →
    (a :: l).Nodup → b ∉ l → new ∉ a :: l → new ≠ b →
    Seg (llistAdd' h new ((a :: l).getLast (by simp)) b) a (l ++ [new]) b
  | a, [], b, hs, _, _, hnew, hnb => by
    simp only [List.mem_cons, List.not_mem_nil, or_false] at hnew
    simp only [List.getLast_singleton, List.nil_append, Seg, llistAdd', setNext_next, setNext_prev,
      setPrev_prev, setPrev_next, if_true]
    simp [hnew, Ne.symm hnb]
  | a, x :: l, b, hs, hnd, hb, hnew, hnb => by
    simp only [Seg] at hs
    have hnd' : (x :: l).Nodup := (List.nodup_cons.1 hnd).2
    have hb' : b ∉ l := fun hm => hb (List.mem_cons_of_mem _ hm)
    have hnew' : new ∉ x :: l := fun hm => hnew (List.mem_cons_of_mem _ hm)
    have ih := seg_add_tail hs.2.2 hnd' hb' hnew' hnb
    have hz : (a :: x :: l).getLast (by simp) = (x :: l).getLast (by simp) := by simp
    rw [hz]
    have hzmem : (x :: l).getLast (by simp) ∈ x :: l := List.getLast_mem _
    have haz : a ≠ (x :: l).getLast (by simp) := fun e => (List.nodup_cons.1 hnd).1 (e ▸ hzmem)
    have han : a ≠ new := fun e => hnew (by simp [e])
    have hxn : x ≠ new := fun e => hnew (by simp [e])
    have hxb : x ≠ b := fun e => hb (by simp [e])
    simp only [List.cons_append, Seg]
    refine ⟨?_, ?_, ih⟩
    · simp only [llistAdd', setNext_next, setPrev_next, if_neg haz, if_neg han]
      exact hs.1
    · simp only [llistAdd', setNext_prev, setPrev_prev, if_neg hxn, if_neg hxb]
      exact hs.2.1

theorem initHead_queue (h : Heap) (q : Nat) : IsQueue (initHead h q) q [] := by
  refine ⟨?_, by simp⟩
  simp [Seg, initHead]

/-- `msgb_enqueue` appends at the end -/
theorem enqueue_refines {h : Heap} {q new : Nat} {l : List Nat} (hq : IsQueue h q l) (hnew : new ∉ q :: l) :
    IsQueue (enqueue h q new) q (l ++ [new]) := by
  obtain ⟨hs, hnd⟩ := hq
  have hql : q ∉ l := (List.nodup_cons.1 hnd).1
  have hnq : new ≠ q := fun e => hnew (by simp [e])
  refine ⟨?_, ?_⟩
  · simp only [enqueue, llistAddTail]
    rw [seg_prev hs]
    exact seg_add_tail hs hnd hql hnew hnq
  · rw [← List.cons_append]
    rw [List.nodup_append]
    refine ⟨hnd, by simp, ?_⟩
    intro x hx y hy
    simp only [List.mem_singleton] at hy
    subst hy
    exact fun e => hnew (e ▸ hx)

/-- `msgb_dequeue` takes the first one; `NULL` exactly on the empty queue -/
theorem dequeue_refines {h : Heap} {q : Nat} {l : List Nat} (hq : IsQueue h q l) :
    match l with
    | [] => dequeue h q = (h, none)
    | x :: l' => (dequeue h q).2 = some x ∧ IsQueue (dequeue h q).1 q l' := by
  obtain ⟨hs, hnd⟩ := hq
  cases l with
  | nil =>
    simp only [Seg] at hs
    simp [dequeue, llistEmpty, hs.1]
  | cons x l' =>
    simp only [Seg] at hs
    have hqx : q ≠ x := fun e => (List.nodup_cons.1 hnd).1 (by simp [e])
    have hne : llistEmpty h q = false := by simp [llistEmpty, hs.1, Ne.symm hqx]
    have hnd' : (x :: l').Nodup := (List.nodup_cons.1 hnd).2
    have hql : q ∉ l' := fun hm => (List.nodup_cons.1 hnd).1 (List.mem_cons_of_mem _ hm)
    have hxl : x ∉ l' := (List.nodup_cons.1 hnd').1
    have hndq : (q :: l').Nodup := List.nodup_cons.2 ⟨hql, (List.nodup_cons.1 hnd').2⟩
    simp only [dequeue, hne, hs.1, Bool.false_eq_true, if_false]
    refine ⟨trivial, ?_, hndq⟩
    simp only [llistDel, llistDel', hs.2.1]
    cases l' with
    | nil =>
      simp only [Seg] at hs ⊢
      simp only [setNext_next, setPrev_next, setPrev_prev, setNext_prev, hs.2.2.1]
      simp [hqx]
    | cons y l'' =>
      simp only [Seg] at hs ⊢
      have hqy : q ≠ y := fun e => hql (by simp [e])
      have hyx : y ≠ x := fun e => hxl (by simp [e])
      simp only [setNext_next, setPrev_next, setPrev_prev, setNext_prev, hs.2.2.1]
      refine ⟨by simp [hqx], by simp [hyx], ?_⟩
      apply seg_frame hs.2.2.2.2
      · intro c hc
        have hcx : c ≠ x := fun e => hxl (e ▸ hc)
        have hcq : c ≠ q := fun e => hql (e ▸ hc)
        simp [hcx, hcq]
      · intro c hc
        simp only [List.mem_append, List.mem_singleton] at hc
        have hcx : c ≠ x := by
          rcases hc with hc | rfl
          · exact fun e => hxl (e ▸ List.mem_cons_of_mem _ hc)
          · exact hqx
        have hcy : c ≠ y := by
          rcases hc with hc | rfl
          · exact fun e => (List.nodup_cons.1 (List.nodup_cons.1 hnd').2).1 (e ▸ hc)
          · exact hqy
        simp [hcx, hcy]


/-- queue operations of a history -/
inductive QOp where
  | enq (msg : Nat)
  | deq
deriving DecidableEq, Repr

/-- the first-in-first-out queue the property speaks of -/
def qSpec : List Nat → QOp → List Nat × Option Nat
  | l, .enq a => (l ++ [a], none)
  | [], .deq => ([], none)
  | x :: l, .deq => (l, some x)

/-- `msgb_enqueue` / `msgb_dequeue` on the heap -/
def qImpl (q : Nat) (h : Heap) : QOp → Heap × Option Nat
  | .enq a => (enqueue h q a, none)
  | .deq => dequeue h q

def qSpecRun : List Nat → List QOp → List Nat × List (Option Nat)
  | l, [] => (l, [])
  | l, op :: ops =>
    let (l', r) := qSpec l op
    let (l'', rs) := qSpecRun l' ops
    (l'', r :: rs)

def qImplRun (q : Nat) : Heap → List QOp → Heap × List (Option Nat)
  | h, [] => (h, [])
  | h, op :: ops =>
    let (h', r) := qImpl q h op
    let (h'', rs) := qImplRun q h' ops
    (h'', r :: rs)

/-- a buffer is enqueued only while it is in no queue (and is not the head cell itself) -/
def qLegal (q : Nat) : List Nat → List QOp → Prop
  | _, [] => True
  | l, op :: ops => (match op with | .enq a => a ∉ q :: l | .deq => True) ∧ qLegal q (qSpec l op).1 ops

theorem queue_refines (q : Nat) : ∀ (ops : List QOp) (h : Heap) (l : List Nat), IsQueue h q l → qLegal q l ops →
    (qImplRun q h ops).2 = (qSpecRun l ops).2 ∧ IsQueue (qImplRun q h ops).1 q (qSpecRun l ops).1
  | [], h, l, hq, _ => ⟨rfl, hq⟩
  | .enq a :: ops, h, l, hq, hl => by
    have ih := queue_refines q ops (enqueue h q a) (l ++ [a]) (enqueue_refines hq hl.1) hl.2
    simp only [qImplRun, qImpl, qSpecRun, qSpec]
    exact ⟨by rw [ih.1], ih.2⟩
  | .deq :: ops, h, l, hq, hl => by
    have hd := dequeue_refines hq
    cases l with
    | nil =>
      simp only at hd
      have ih := queue_refines q ops h [] hq hl.2
      simp only [qImplRun, qImpl, qSpecRun, qSpec, hd]
      exact ⟨by rw [ih.1], ih.2⟩
    | cons x l' =>
      simp only at hd
      have ih := queue_refines q ops (dequeue h q).1 l' hd.2 hl.2
      simp only [qImplRun, qImpl, qSpecRun, qSpec]
      refine ⟨?_, ih.2⟩
      rw [ih.1, hd.1]

end OsmoVerif.Msgb
