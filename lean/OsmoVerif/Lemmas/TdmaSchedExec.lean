/- `tdma_sched_execute` with callbacks that re-enter the scheduler (scripts), on a well-formed state,
against the abstract `ExecOnTheFly` of `Spec/TdmaSched.lean`; then every operation and whole histories
(C08). -/
import OsmoVerif.Lemmas.TdmaSchedOps
import OsmoVerif.Lemmas.TdmaSchedFly

set_option linter.unusedVariables false

namespace OsmoVerif.TdmaSched
open OsmoVerif.Spec.TdmaSched (AItem Due)

/-! ### scripts -/

/-- a call made from inside a callback, as the same call made from outside -/
def Call.toOp : Call → Op
  | .schedule off cb p1 p2 p3 prio => .schedule off cb p1 p2 p3 prio
  | .scheduleSet off set p3 => .scheduleSet off set p3

/-- the call as the property sees it -/
def absCall (c : Call) : Spec.TdmaSched.Op Cb := absOp c.toOp

/-- admissible environment: every call of every script is an admissible operation (arguments
within the C parameter types, the scheduled callbacks report success, sets terminated) -/
def EnvOk (env : Env) : Prop := ∀ e ∈ env.scripts, ∀ c ∈ e.2, OpOk env c.toOp

instance (env : Env) : Decidable (EnvOk env) := by unfold EnvOk; infer_instance

/-- callbacks that never re-enter the scheduler (the special case of the first version of the model) -/
def NoReentry (env : Env) : Prop := ∀ e ∈ env.scripts, e.2 = []

instance (env : Env) : Decidable (NoReentry env) := by unfold NoReentry; infer_instance

/-- the calls the callback of an item makes, as the property sees them -/
def absScr (env : Env) (x : AItem Cb) : List (Spec.TdmaSched.Op Cb) :=
  match x.cb with
  | .fn id => (scriptOf env id).map absCall
  | _ => []

theorem lookup_mem {α β : Type} [BEq α] (a : α) (b : β) : ∀ (l : List (α × β)),
    l.lookup a = some b → ∃ e ∈ l, e.2 = b
  | [], h => by simp [List.lookup] at h
  | (k, v) :: l, h => by
    simp only [List.lookup] at h
    split at h
    · simp only [Option.some.injEq] at h
      exact ⟨(k, v), List.mem_cons_self .., h⟩
    · obtain ⟨e, he, hb⟩ := lookup_mem a b l h
      exact ⟨e, List.mem_cons_of_mem _ he, hb⟩

theorem scriptOf_mem (env : Env) (id : Nat) (c : Call) (h : c ∈ scriptOf env id) :
    ∃ e ∈ env.scripts, c ∈ e.2 := by
  simp only [scriptOf] at h
  split at h
  · rename_i calls hl
    obtain ⟨e, he, hb⟩ := lookup_mem id calls env.scripts hl
    exact ⟨e, he, by rw [hb]; exact h⟩
  · simp at h

theorem scriptOf_ok (env : Env) (henv : EnvOk env) (id : Nat) : ∀ c ∈ scriptOf env id, OpOk env c.toOp := by
  intro c hc
  obtain ⟨e, he, hce⟩ := scriptOf_mem env id c hc
  exact henv e he c hce

theorem scriptOf_noReentry (env : Env) (h : NoReentry env) (id : Nat) : scriptOf env id = [] := by
  simp only [scriptOf]
  split
  · rename_i calls hl
    obtain ⟨e, he, hb⟩ := lookup_mem id calls env.scripts hl
    rw [← hb]; exact h e he
  · rfl

theorem absScr_noReentry (env : Env) (h : NoReentry env) (x : AItem Cb) : absScr env x = [] := by
  simp only [absScr]
  split
  · simp [scriptOf_noReentry env h]
  · rfl

theorem noReentry_envOk (env : Env) (h : NoReentry env) : EnvOk env := by
  intro e he c hc
  rw [h e he] at hc
  simp at hc

theorem isCall_absCall (c : Call) : Spec.TdmaSched.isCall (absCall c) = true := by
  cases c <;> rfl

theorem absScr_isCall (env : Env) (y : AItem Cb) : ∀ op ∈ absScr env y, Spec.TdmaSched.isCall op = true := by
  intro op hop
  simp only [absScr] at hop
  split at hop
  · obtain ⟨c, _, rfl⟩ := List.mem_map.mp hop
    exact isCall_absCall c
  · simp at hop

/-! ### one call, one script -/

theorem runCall_refines (env : Env) (s : Sched) (c : Call) (hinv : Inv env s) (hok : OpOk env c.toOp) :
    ∃ s' rc, runCall s c = .ok (s', rc) ∧ Inv env s' ∧ s'.cur = s.cur ∧ Ext s s' ∧
      abs s' = (Spec.TdmaSched.step (abs s) (absCall c)).1 ∧
      rc = (Spec.TdmaSched.step (abs s) (absCall c)).2.rc := by
  cases c with
  | schedule off cb p1 p2 p3 prio =>
    obtain ⟨ho, h1, h2, h3, hp1, hp2, hk⟩ := hok
    obtain ⟨s', rc, he, hi, hc, ha, _, hx⟩ := schedule_spec env s off cb p1 p2 p3 prio hinv ho h1 h2 h3 ⟨hp1, hp2⟩ hk
    refine ⟨s', rc, he, hi, hc, hx, ?_, ?_⟩
    · simp only [absCall, Call.toOp, absOp, Spec.TdmaSched.step, ← ha]
    · simp only [absCall, Call.toOp, absOp, Spec.TdmaSched.step, ← ha]
  | scheduleSet off set p3 =>
    obtain ⟨he, hm, h3, hk⟩ := hok
    obtain ⟨s', rc, hee, hi, hc, ha, hx⟩ := scheduleSet_spec env s off set p3 hinv he hm h3 hk
    refine ⟨s', rc, hee, hi, hc, hx, ?_, ?_⟩
    · simp only [absCall, Call.toOp, absOp, Spec.TdmaSched.step, ← ha]
    · simp only [absCall, Call.toOp, absOp, Spec.TdmaSched.step, ← ha]

theorem runScript_refines (env : Env) : ∀ (cs : List Call) (s : Sched), Inv env s →
    (∀ c ∈ cs, OpOk env c.toOp) →
    ∃ s' rets, runScript s cs = .ok (s', rets) ∧ Inv env s' ∧ s'.cur = s.cur ∧ Ext s s' ∧
      abs s' = (Spec.TdmaSched.run (abs s) (cs.map absCall)).1 ∧
      rets = (Spec.TdmaSched.run (abs s) (cs.map absCall)).2.map (·.rc)
  | [], s, hinv, _ => ⟨s, [], rfl, hinv, rfl, Ext.refl s, rfl, rfl⟩
  | c :: cs, s, hinv, hok => by
    obtain ⟨s1, rc, h1, hi1, hc1, hx1, ha1, hr1⟩ := runCall_refines env s c hinv (hok c (List.mem_cons_self ..))
    obtain ⟨s2, rets, h2, hi2, hc2, hx2, ha2, hr2⟩ := runScript_refines env cs s1 hi1
      (fun x hx => hok x (List.mem_cons_of_mem _ hx))
    refine ⟨s2, rc :: rets, ?_, hi2, by rw [hc2, hc1], hx1.trans hx2, ?_, ?_⟩
    · simp only [runScript, bind, Except.bind, h1, h2]; rfl
    · simp only [List.map_cons, Spec.TdmaSched.run, ← ha1, ha2]
    · simp only [List.map_cons, Spec.TdmaSched.run, ← ha1, hr2, hr1]

/-- a callback of a live item on a well-formed state: its scheduler calls succeed or are refused,
never fault; it reports success -/
theorem callCb_ok (env : Env) (s : Sched) (it : Item) (hinv : Inv env s) (henv : EnvOk env)
    (hit : itemOk env it) :
    ∃ s' rc r, callCb env s it = .ok (s', rc, r) ∧ ¬ rc < 0 ∧ Inv env s' ∧ s'.cur = s.cur ∧ Ext s s' ∧
      abs s' = (Spec.TdmaSched.run (abs s) (absScr env (absItem it))).1 ∧
      r = (Spec.TdmaSched.run (abs s) (absScr env (absItem it))).2.map (·.rc) := by
  unfold itemOk at hit
  unfold callCb
  cases hcb : it.cb with
  | null => simp [hcb] at hit
  | endSet =>
    exact ⟨s, 0, [], rfl, by omega, hinv, rfl, Ext.refl s, by simp [absScr, absItem, hcb, Spec.TdmaSched.run],
      by simp [absScr, absItem, hcb, Spec.TdmaSched.run]⟩
  | fn id =>
    simp only [hcb] at hit
    obtain ⟨s', rets, h1, hi, hc, hx, ha, hr⟩ := runScript_refines env (scriptOf env id) s hinv
      (scriptOf_ok env henv id)
    refine ⟨s', env.ret id it.p1 it.p2 it.p3, rets, ?_, by omega, hi, hc, hx, ?_, ?_⟩
    · simp only [bind, Except.bind, h1]; rfl
    · simp only [absScr, absItem, hcb]; exact ha
    · simp only [absScr, absItem, hcb]; exact hr

/-- the callbacks of `items` invoked one after the other on the live scheduler (return values of
the callbacks ignored): the state they leave and what their scheduler calls returned -/
def foldCb (env : Env) : Sched → List Item → Except Fault (Sched × List (List Int))
  | s, [] => .ok (s, [])
  | s, it :: its => do
    let (s, _, r) ← callCb env s it
    let (s, rs) ← foldCb env s its
    return (s, r :: rs)

theorem foldCb_refines (env : Env) (henv : EnvOk env) : ∀ (items : List Item) (s sf : Sched)
    (rets : List (List Int)), Inv env s → (∀ it ∈ items, itemOk env it) →
    foldCb env s items = .ok (sf, rets) →
    abs sf = (Spec.TdmaSched.run (abs s) ((items.map absItem).flatMap (absScr env))).1 ∧
    rets.flatten = (Spec.TdmaSched.run (abs s) ((items.map absItem).flatMap (absScr env))).2.map (·.rc) ∧
    rets.length = items.length
  | [], s, sf, rets, _, _, h => by
    simp only [foldCb, Except.ok.injEq, Prod.mk.injEq] at h
    obtain ⟨h1, h2⟩ := h
    subst h1; subst h2
    exact ⟨rfl, rfl, rfl⟩
  | it :: items, s, sf, rets, hinv, hok, h => by
    obtain ⟨s1, rc, r, h1, _, hi1, _, _, ha1, hr1⟩ := callCb_ok env s it hinv henv (hok it (List.mem_cons_self ..))
    simp only [foldCb, bind, Except.bind, h1] at h
    cases h2 : foldCb env s1 items with
    | error f => simp [h2] at h
    | ok res =>
      obtain ⟨s2, rs⟩ := res
      simp only [h2, pure, Except.pure, Except.ok.injEq, Prod.mk.injEq] at h
      obtain ⟨e1, e2⟩ := h
      subst e1; subst e2
      obtain ⟨ha2, hr2, hl2⟩ := foldCb_refines env henv items s1 s2 rs hi1
        (fun x hx => hok x (List.mem_cons_of_mem _ hx)) h2
      simp only [List.map_cons, List.flatMap_cons, Spec.TdmaSched.run_append, List.flatten_cons,
        List.map_append, List.length_cons]
      rw [← ha1, ← hr1, ← ha2, ← hr2, hl2]
      exact ⟨rfl, rfl, rfl⟩

theorem foldCb_noReentry (env : Env) (h : NoReentry env) : ∀ (items : List Item) (s sf : Sched)
    (rets : List (List Int)), foldCb env s items = .ok (sf, rets) → sf = s
  | [], s, sf, rets, hf => by
    simp only [foldCb, Except.ok.injEq, Prod.mk.injEq] at hf
    exact hf.1.symm
  | it :: items, s, sf, rets, hf => by
    simp only [foldCb, bind, Except.bind] at hf
    cases h1 : callCb env s it with
    | error f => simp [h1] at hf
    | ok res =>
      obtain ⟨s1, rc, r⟩ := res
      have hs1 : s1 = s := by
        unfold callCb at h1
        cases hcb : it.cb with
        | null => simp [hcb] at h1
        | endSet =>
          simp only [hcb, Except.ok.injEq, Prod.mk.injEq] at h1
          exact h1.1.symm
        | fn id =>
          simp only [hcb, scriptOf_noReentry env h, runScript, bind, Except.bind, pure, Except.pure,
            Except.ok.injEq, Prod.mk.injEq] at h1
          exact h1.1.symm
      simp only [h1] at hf
      cases h2 : foldCb env s1 items with
      | error f => simp [h2] at hf
      | ok res2 =>
        obtain ⟨s2, rs⟩ := res2
        simp only [h2, pure, Except.pure, Except.ok.injEq, Prod.mk.injEq] at hf
        rw [← hf.1, foldCb_noReentry env h items s1 s2 rs h2, hs1]

/-! ### the loop of `tdma_sched_execute` -/

theorem live_length (b : Bucket) (hb : BucketWF b) : (live b).length = b.numItems := by
  simp only [live, List.length_take, hb.1]
  have := hb.2
  omega

theorem live_getD (b : Bucket) (j : Nat) (hj : j < b.numItems) :
    (live b).getD j zeroItem = b.item.getD j zeroItem := by
  simp only [live, List.getD_eq_getElem?_getD, List.getElem?_take, hj, if_true]

theorem prefix_getD {α : Type} (l1 l2 : List α) (d : α) (h : l1 <+: l2) (j : Nat) (hj : j < l1.length) :
    l2.getD j d = l1.getD j d := by
  obtain ⟨t, ht⟩ := h
  rw [← ht]
  simp only [List.getD_eq_getElem?_getD, List.getElem?_append_left hj]

theorem invBucketWF (env : Env) (s : Sched) (hinv : Inv env s) (j : Nat) (b : Bucket)
    (hb : s.bucket[j]? = some b) : BucketWF b :=
  hinv.1.2.2 b (List.mem_of_getElem? hb)

/-- The loop from iteration `i` on, started on a well-formed state whose current bucket holds at
least `i` and at least `n0` (= `num_items` when `seq[]` was computed) items.  `seq[]`: below `n0` a
permutation of the slots below `n0`, the identity from `n0` on.  The loop runs to the end: it invokes
the items `item[seq[k]]`, `k = i .. num_items-1`, where `num_items` is the FINAL number of items of the
bucket (`bf`), and leaves the state `sf` that the callbacks made (`foldCb`). -/
theorem execLoop_spec (env : Env) (henv : EnvOk env) (cur : Nat) (seq : List Nat) (hl : seq.length = 8)
    (n0 : Nat) (hn0 : n0 ≤ 8) (hsA : ∀ k, k < n0 → seq.getD k 0 < n0)
    (hsB : ∀ k, n0 ≤ k → k < 8 → seq.getD k 0 = k) :
    ∀ (rest : List Nat) (i : Nat) (s : Sched) (ne : Int) (ran : List Item) (rets : List (List Int))
      (b : Bucket), rest = seq.drop i → Inv env s → s.cur = cur → s.bucket[cur]? = some b →
      i ≤ b.numItems → n0 ≤ b.numItems →
      ∃ sf bf ran' rets', execLoop env cur rest i s ne ran rets =
          .ok (sf, .done (ne + (ran'.length : Int)), ran ++ ran', rets ++ rets') ∧
        Inv env sf ∧ sf.cur = cur ∧ sf.bucket[cur]? = some bf ∧ Ext s sf ∧
        i + ran'.length = bf.numItems ∧
        ran' = (List.range' i ran'.length).map (fun k => (live bf).getD (seq.getD k 0) zeroItem) ∧
        foldCb env s ran' = .ok (sf, rets') := by
  intro rest
  induction rest with
  | nil =>
    intro i s ne ran rets b hrest hinv hcur hb hib hnb
    have hbwf := invBucketWF env s hinv cur b hb
    have hi8 : 8 ≤ i := by
      have := congrArg List.length hrest
      simp only [List.length_nil, List.length_drop, hl] at this
      omega
    have hnot : ¬ i < b.numItems := by have := hbwf.2; omega
    refine ⟨s, b, [], [], ?_, hinv, hcur, hb, Ext.refl s, by have := hbwf.2; simp; omega, by simp, rfl⟩
    simp only [execLoop, bind, Except.bind, idx_of_get? _ _ _ hb, hnot, if_false, pure, Except.pure,
      List.length_nil, List.append_nil]
    simp
  | cons si rest ih =>
    intro i s ne ran rets b hrest hinv hcur hb hib hnb
    have hbwf := invBucketWF env s hinv cur b hb
    have hi8 : i < 8 := by
      have := congrArg List.length hrest
      simp only [List.length_cons, List.length_drop, hl] at this
      omega
    have hdrop : seq.drop i = seq[i] :: seq.drop (i + 1) := List.drop_eq_getElem_cons (by omega)
    rw [hdrop] at hrest
    simp only [List.cons.injEq] at hrest
    obtain ⟨hsi, hrest'⟩ := hrest
    have hsi' : si = seq.getD i 0 := by rw [hsi, getD_eq_getElem' seq i 0 (by omega)]
    by_cases hlt : i < b.numItems
    · -- one more callback
      have hsin : si < b.numItems := by
        by_cases c : i < n0
        · have := hsA i c; omega
        · have := hsB i (by omega) hi8; omega
      have hsi8 : si < b.item.length := by rw [hbwf.1]; have := hbwf.2; omega
      have hitem : itemOk env (b.item.getD si zeroItem) := by
        apply hinv.2 b (List.mem_of_getElem? hb)
        simp only [live]
        rw [getD_eq_getElem' b.item si zeroItem hsi8]
        exact List.mem_take_iff_getElem.mpr ⟨si, by omega, rfl⟩
      obtain ⟨s1, rc, r, h1, hrc, hi1, hc1, hx1, _, _⟩ := callCb_ok env s _ hinv henv hitem
      obtain ⟨b1, hb1, hp1⟩ := hx1 cur b hb
      have hb1wf := invBucketWF env s1 hi1 cur b1 hb1
      have hle1 : b.numItems ≤ b1.numItems := by
        have := hp1.length_le
        rw [live_length b hbwf, live_length b1 hb1wf] at this
        exact this
      obtain ⟨sf, bf, ran'', rets'', h2, hif, hcf, hbf, hxf, hcnt, hran, hfold⟩ :=
        ih (i + 1) s1 (ne + 1) (ran ++ [b.item.getD si zeroItem]) (rets ++ [r]) b1 hrest' hi1
          (by rw [hc1, hcur]) hb1 (by omega) (by omega)
      obtain ⟨bf', hbf', hpf⟩ := hxf cur b1 hb1
      rw [hbf] at hbf'
      simp only [Option.some.injEq] at hbf'
      subst hbf'
      refine ⟨sf, bf, b.item.getD si zeroItem :: ran'', r :: rets'', ?_, hif, hcf, hbf, hx1.trans hxf,
        by simp only [List.length_cons]; omega, ?_, ?_⟩
      · simp only [execLoop, bind, Except.bind, idx_of_get? _ _ _ hb, hlt, if_true,
          idx_ok_getD b.item si zeroItem hsi8, h1, hrc, if_false]
        rw [h2]
        simp only [List.append_assoc, List.singleton_append, List.length_cons]
        congr 4
        push_cast
        omega
      · simp only [List.length_cons, List.range'_succ, List.map_cons, List.cons.injEq]
        refine ⟨?_, hran⟩
        rw [← hsi', prefix_getD (live b1) (live bf) zeroItem hpf si (by rw [live_length b1 hb1wf]; omega),
          prefix_getD (live b) (live b1) zeroItem hp1 si (by rw [live_length b hbwf]; omega),
          live_getD b si hsin]
      · simp only [foldCb, bind, Except.bind, h1, hfold]; rfl
    · -- i = num_items: the loop ends
      refine ⟨s, b, [], [], ?_, hinv, hcur, hb, Ext.refl s, by simp; omega, by simp, rfl⟩
      simp only [execLoop, bind, Except.bind, idx_of_get? _ _ _ hb, hlt, if_false, pure, Except.pure,
        List.length_nil, List.append_nil]
      simp

/-! ### `tdma_sched_execute` -/

theorem range'_split (n0 m : Nat) (h : n0 ≤ m) :
    List.range' 0 m = List.range n0 ++ List.range' n0 (m - n0) := by
  have e : m = n0 + (m - n0) := by omega
  conv => lhs; rw [e]
  rw [← List.range'_append_1, List.range_eq_range']
  simp

theorem map_range'_getD {α : Type} (l : List α) (d : α) (n0 : Nat) (h : n0 ≤ l.length) :
    (List.range' n0 (l.length - n0)).map (fun k => l.getD k d) = l.drop n0 := by
  apply List.ext_getElem
  · simp
  · intro j h1 h2
    simp only [List.getElem_map, List.getElem_range', List.getElem_drop, Nat.one_mul]
    simp only [List.length_map, List.length_range'] at h1
    rw [getD_eq_getElem' l (n0 + j) d (by omega)]

/-- the bucket of the current frame cleared: `bucket->num_items = 0` -/
def clearCur (s : Sched) (b : Bucket) : Sched :=
  { s with bucket := s.bucket.set s.cur { b with numItems := 0 } }

theorem clearCur_spec (env : Env) (s : Sched) (b : Bucket) (hinv : Inv env s)
    (hb : s.bucket[s.cur]? = some b) :
    Inv env (clearCur s b) ∧ abs (clearCur s b) = (Spec.TdmaSched.execute (abs s)).1 := by
  obtain ⟨⟨hl, hc, hbw⟩, hal⟩ := hinv
  have hbm : b ∈ s.bucket := List.mem_of_getElem? hb
  have hbwf := hbw b hbm
  refine ⟨⟨⟨by simpa [clearCur] using hl, hc, ?_⟩, ?_⟩, ?_⟩
  · intro b' hb'
    rcases List.mem_or_eq_of_mem_set hb' with h | h
    · exact hbw b' h
    · rw [h]; exact ⟨hbwf.1, by simp⟩
  · intro b' hb' it hit
    rcases List.mem_or_eq_of_mem_set hb' with h | h
    · exact hal b' h it hit
    · rw [h] at hit; simp [live] at hit
  · funext d
    simp only [Spec.TdmaSched.execute, abs, clearCur]
    by_cases hd : d < 25
    · by_cases hd0 : d = 0
      · subst hd0
        have : (s.cur + 0) % 25 = s.cur := by omega
        simp only [this, (by decide : (0:Nat) < 25), if_true, List.getElem?_set_self (lt_of_get? _ _ _ hb)]
        simp [absBucket, live]
      · have : s.cur ≠ (s.cur + d) % 25 := by omega
        simp only [hd, hd0, if_true, if_false, List.getElem?_set_ne this]
    · have : d ≠ 0 := by omega
      simp only [hd, this, if_false]

/-- `tdma_sched_execute` on a well-formed state in an admissible environment: the callbacks invoked are
first the items of the bucket as it was at the start — each exactly once, ascending priorities — and
then the items appended to the bucket during the execution, in the order appended; the state is what
the callbacks made of it, with the current bucket cleared; the result is the number of callbacks. -/
theorem execute_spec (env : Env) (s : Sched) (hinv : Inv env s) (henv : EnvOk env) :
    ∃ b0 sf bf ran rets pre, s.bucket[s.cur]? = some b0 ∧
      execute env s = .ok (clearCur sf bf, (ran.length : Int), ran, rets) ∧
      Inv env sf ∧ sf.cur = s.cur ∧ sf.bucket[s.cur]? = some bf ∧ Ext s sf ∧
      foldCb env s ran = .ok (sf, rets) ∧ ran.length = bf.numItems ∧
      ran = pre ++ (live bf).drop b0.numItems ∧
      pre.Perm (live b0) ∧ pre.Pairwise (fun x y => x.prio ≤ y.prio) := by
  have hw := hinv.1
  obtain ⟨hl, hc, hbw⟩ := hw
  obtain ⟨b, hb, hbm, hbwf⟩ := bucket_get s hinv.1 s.cur hc
  obtain ⟨seq, hs1, hp, hpt, hsorted, hid⟩ := bucketSort_spec b hbwf
  have hl8 : seq.length = 8 := by simpa using hp.length_eq
  have hn := hbwf.2
  have hsA : ∀ k, k < b.numItems → seq.getD k 0 < b.numItems := by
    intro k hk
    have h1 : seq.getD k 0 ∈ seq.take b.numItems := by
      rw [getD_eq_getElem' seq k 0 (by omega)]
      exact List.mem_take_iff_getElem.mpr ⟨k, by omega, rfl⟩
    have := hpt.mem_iff.mp h1
    simpa using this
  obtain ⟨sf, bf, ran, rets, hloop, hif, hcf, hbf, hxf, hcnt, hran, hfold⟩ :=
    execLoop_spec env henv s.cur seq hl8 b.numItems hn hsA hid seq 0 s 0 [] [] b (by simp) hinv rfl hb
      (Nat.zero_le _) (Nat.le_refl _)
  obtain ⟨bf', hbf', hpf⟩ := hxf s.cur b hb
  rw [hbf] at hbf'
  simp only [Option.some.injEq] at hbf'
  subst hbf'
  have hbfwf := invBucketWF env sf hif s.cur bf hbf
  have hle : b.numItems ≤ bf.numItems := by
    have := hpf.length_le
    rw [live_length b hbwf, live_length bf hbfwf] at this
    exact this
  have hm : ran.length = bf.numItems := by omega
  have hlb : (live bf).length = bf.numItems := live_length bf hbfwf
  refine ⟨b, sf, bf, ran, rets, (List.range b.numItems).map (fun k => itemAt b.item seq k), hb, ?_, hif, hcf,
    hbf, hxf, hfold, hm, ?_, ?_, ?_⟩
  · simp only [execute, bind, Except.bind, idx_of_get? _ _ _ hb, hs1, hloop, idx_of_get? _ _ _ hbf]
    rw [setIdx_ok _ _ _ (lt_of_get? _ _ _ hbf)]
    simp only [Int.zero_add, List.nil_append, pure, Except.pure, clearCur, hcf]
  · -- the invoked items: the sorted old ones, then the appended ones
    conv => lhs; rw [hran]
    rw [hm, range'_split b.numItems bf.numItems hle, List.map_append]
    congr 1
    · apply List.map_congr_left
      intro k hk
      have hk' : k < b.numItems := by simpa using hk
      have h2 := hsA k hk'
      rw [prefix_getD (live b) (live bf) zeroItem hpf _ (by rw [live_length b hbwf]; exact h2),
        live_getD b _ h2]
      rfl
    · rw [← map_range'_getD (live bf) zeroItem b.numItems (by rw [hlb]; exact hle), hlb]
      apply List.map_congr_left
      intro k hk
      simp only [List.mem_range'_1] at hk
      have := hbfwf.2
      rw [hid k hk.1 (by omega)]
  · have e1 : (List.range b.numItems).map (fun k => itemAt b.item seq k) =
        (seq.take b.numItems).map (fun x => b.item.getD x zeroItem) := by
      rw [← map_range_getD seq 0 b.numItems (by omega), List.map_map]
      rfl
    rw [e1]
    have := hpt.map (fun x => b.item.getD x zeroItem)
    rw [map_range_getD b.item zeroItem b.numItems (by rw [hbwf.1]; exact hn)] at this
    exact this
  · rw [List.pairwise_map]
    exact List.Pairwise.imp_of_mem (fun {a c} ha hc' hac => by
      have hc2 : c < b.numItems := by simpa using hc'
      exact hsorted a c hac hc2) List.pairwise_lt_range

/-- `tdma_sched_execute` against the abstract on-the-fly execute -/
theorem execute_refines (env : Env) (s : Sched) (hinv : Inv env s) (henv : EnvOk env) :
    ∃ s' ran rets, execute env s = .ok (s', (ran.length : Int), ran, rets) ∧ Inv env s' ∧ s'.cur = s.cur ∧
      rets.length = ran.length ∧
      Spec.TdmaSched.ExecOnTheFly (absScr env) (abs s) (ran.map absItem) (abs s') rets.flatten := by
  obtain ⟨b0, sf, bf, ran, rets, pre, hb, he, hif, hcf, hbf, hxf, hfold, hm, hran, hperm, hpw⟩ :=
    execute_spec env s hinv henv
  have hbf' : sf.bucket[sf.cur]? = some bf := by rw [hcf]; exact hbf
  obtain ⟨hic, hac⟩ := clearCur_spec env sf bf hif hbf'
  have hb0wf := invBucketWF env s hinv s.cur b0 hb
  have hitems : ∀ it ∈ ran, itemOk env it := by
    intro it hit
    rw [hran] at hit
    rcases List.mem_append.mp hit with h | h
    · exact hinv.2 b0 (List.mem_of_getElem? hb) it (hperm.mem_iff.mp h)
    · exact hif.2 bf (List.mem_of_getElem? hbf) it (List.mem_of_mem_drop h)
  obtain ⟨ha, hr, hlen⟩ := foldCb_refines env henv ran s sf rets hinv hitems hfold
  have hc25 := hinv.1.2.1
  have hcf25 := hif.1.2.1
  have h0 : abs s 0 = absBucket b0 := abs_get s 0 b0 (by decide) (by
    have : (s.cur + 0) % 25 = s.cur := by omega
    rw [this]; exact hb)
  have hf0 : abs sf 0 = absBucket bf := abs_get sf 0 bf (by decide) (by
    have : (sf.cur + 0) % 25 = sf.cur := by omega
    rw [this]; exact hbf')
  refine ⟨clearCur sf bf, ran, rets, he, hic, by simp only [clearCur]; exact hcf, hlen, ?_⟩
  refine ⟨pre.map absItem, ((live bf).drop b0.numItems).map absItem, ?_, ⟨?_, ?_⟩, ?_, ?_, ?_⟩
  · rw [hran, List.map_append]
  · rw [h0]; exact hperm.map absItem
  · rw [List.pairwise_map]; exact hpw
  · rw [← ha, hf0, h0, absBucket_length b0 hb0wf]
    simp only [absBucket, List.map_drop]
  · rw [hac, ha]
  · exact hr

/-- whatever way the loop of `tdma_sched_execute` ends (no hypothesis on the state): the state it
leaves is what the invoked callbacks made of it; ending with an error means `rc < 0` -/
theorem execLoop_fold (env : Env) (cur : Nat) : ∀ (rest : List Nat) (i : Nat) (s : Sched) (ne : Int)
    (ran : List Item) (rets : List (List Int)) (sf : Sched) (e : ExecEnd) (R : List Item) (T : List (List Int)),
    execLoop env cur rest i s ne ran rets = .ok (sf, e, R, T) → 0 ≤ ne →
    ∃ ran' rets', R = ran ++ ran' ∧ T = rets ++ rets' ∧ foldCb env s ran' = .ok (sf, rets') ∧
      match e with
      | .done k => 0 ≤ k
      | .err rc => rc < 0 := by
  intro rest
  induction rest with
  | nil =>
    intro i s ne ran rets sf e R T h hne
    simp only [execLoop, bind, Except.bind] at h
    cases h1 : idx s.bucket cur with
    | error f => simp [h1] at h
    | ok b =>
      simp only [h1] at h
      split at h
      · simp at h
      · simp only [pure, Except.pure, Except.ok.injEq, Prod.mk.injEq] at h
        obtain ⟨a1, a2, a3, a4⟩ := h
        subst a1; subst a2; subst a3; subst a4
        exact ⟨[], [], by simp, by simp, rfl, hne⟩
  | cons si rest ih =>
    intro i s ne ran rets sf e R T h hne
    simp only [execLoop, bind, Except.bind] at h
    cases h1 : idx s.bucket cur with
    | error f => simp [h1] at h
    | ok b =>
      simp only [h1] at h
      split at h
      · cases h2 : idx b.item si with
        | error f => simp [h2] at h
        | ok item =>
          simp only [h2] at h
          cases h3 : callCb env s item with
          | error f => simp [h3] at h
          | ok res =>
            obtain ⟨s1, rc, r⟩ := res
            simp only [h3] at h
            by_cases hneg : rc < 0
            · simp only [hneg, if_true, pure, Except.pure, Except.ok.injEq, Prod.mk.injEq] at h
              obtain ⟨a1, a2, a3, a4⟩ := h
              subst a1; subst a2; subst a3; subst a4
              refine ⟨[item], [r], rfl, rfl, ?_, hneg⟩
              simp only [foldCb, bind, Except.bind, h3]; rfl
            · simp only [hneg, if_false] at h
              obtain ⟨ran', rets', b1, b2, b3, b4⟩ := ih (i + 1) s1 (ne + 1) _ _ sf e R T h (by omega)
              refine ⟨item :: ran', r :: rets', by rw [b1]; simp, by rw [b2]; simp, ?_, b4⟩
              simp only [foldCb, bind, Except.bind, h3, b3]; rfl
      · simp only [pure, Except.pure, Except.ok.injEq, Prod.mk.injEq] at h
        obtain ⟨a1, a2, a3, a4⟩ := h
        subst a1; subst a2; subst a3; subst a4
        exact ⟨[], [], by simp, by simp, rfl, hne⟩

/-- error path of `tdma_sched_execute` (no hypothesis on the state): a negative return value means a
callback failed; the bucket is not cleared, and the scheduler state is what the callbacks that ran
(including the failing one) made of it by their own scheduler calls — nothing else -/
theorem execute_error_state (env : Env) (s s' : Sched) (rc : Int) (ran : List Item) (rets : List (List Int))
    (h : execute env s = .ok (s', rc, ran, rets)) (hrc : rc < 0) : foldCb env s ran = .ok (s', rets) := by
  simp only [execute, bind, Except.bind] at h
  cases h1 : idx s.bucket s.cur with
  | error f => simp [h1] at h
  | ok b =>
    simp only [h1] at h
    cases h2 : bucketSort b with
    | error f => simp [h2] at h
    | ok seq =>
      simp only [h2] at h
      cases h3 : execLoop env s.cur seq 0 s 0 [] [] with
      | error f => simp [h3] at h
      | ok res =>
        obtain ⟨sf, e, R, T⟩ := res
        simp only [h3] at h
        obtain ⟨ran', rets', b1, b2, b3, b4⟩ := execLoop_fold env s.cur seq 0 s 0 [] [] sf e R T h3 (by omega)
        cases e with
        | err rc' =>
          simp only [pure, Except.pure, Except.ok.injEq, Prod.mk.injEq] at h
          obtain ⟨a1, a2, a3, a4⟩ := h
          subst a1; subst a3; subst a4
          simp only [List.nil_append] at b1 b2
          rw [b1, b2]; exact b3
        | done k =>
          simp only [] at h b4
          cases h4 : idx sf.bucket s.cur with
          | error f => simp [h4] at h
          | ok bf =>
            simp only [h4] at h
            cases h5 : setIdx sf.bucket s.cur { bf with numItems := 0 } with
            | error f => simp [h5] at h
            | ok bs =>
              simp only [h5, pure, Except.pure, Except.ok.injEq, Prod.mk.injEq] at h
              omega

/-! ### operations and histories -/

/-- `tdma_sched_execute` with callbacks that do not re-enter the scheduler: the plain abstract execute -/
theorem execute_abs (env : Env) (s : Sched) (hinv : Inv env s) (hne : NoReentry env) :
    ∃ s' rc ran rets, execute env s = .ok (s', rc, ran, rets) ∧ Inv env s' ∧ s'.cur = s.cur ∧
      abs s' = (Spec.TdmaSched.execute (abs s)).1 ∧
      rc = ((Spec.TdmaSched.execute (abs s)).2.length : Int) ∧
      Spec.TdmaSched.ValidRun (Spec.TdmaSched.execute (abs s)).2 (ran.map absItem) := by
  obtain ⟨s', ran, rets, he, hi, hc, _, pre, fly, hran, hv, hfly, hdue, _⟩ :=
    execute_refines env s hinv (noReentry_envOk env hne)
  have hnil : (ran.map absItem).flatMap (absScr env) = [] := by
    apply List.flatMap_eq_nil_iff.mpr
    intro x _
    exact absScr_noReentry env hne x
  rw [hnil] at hfly hdue
  simp only [Spec.TdmaSched.run, List.drop_length] at hfly hdue
  subst hfly
  simp only [List.append_nil] at hran
  refine ⟨s', _, ran, rets, he, hi, hc, hdue, ?_, ?_⟩
  · simp only [Spec.TdmaSched.execute]
    have := hv.1.length_eq
    rw [← hran] at this
    simp only [List.length_map] at this
    rw [this]
  · simp only [Spec.TdmaSched.execute]
    rw [hran]; exact hv

/-- every operation against the abstract machine; for `execute` the plain abstract execute is the
specification only when callbacks do not re-enter (`execute_refines` is the general statement) -/
theorem step_refines (env : Env) (s : Sched) (op : Op) (hinv : Inv env s) (hop : OpOk env op)
    (hne : op = .execute → NoReentry env) :
    ∃ s' out, step env s op = .ok (s', out) ∧ Inv env s' ∧
      abs s' = (Spec.TdmaSched.step (abs s) (absOp op)).1 ∧
      OutMatch out (Spec.TdmaSched.step (abs s) (absOp op)).2 ∧ (op ≠ .execute → out.ran = []) := by
  cases op with
  | schedule off cb p1 p2 p3 prio =>
    obtain ⟨ho, h1, h2, h3, hp1, hp2, hok⟩ := hop
    obtain ⟨s', rc, he, hi, _, ha, _⟩ := schedule_spec env s off cb p1 p2 p3 prio hinv ho h1 h2 h3 ⟨hp1, hp2⟩ hok
    refine ⟨s', ⟨rc, [], []⟩, ?_, hi, ?_, ⟨?_, ?_⟩, fun _ => rfl⟩
    · simp only [step, bind, Except.bind, he]; rfl
    · simp only [absOp, Spec.TdmaSched.step, ← ha]
    · simp only [absOp, Spec.TdmaSched.step, ← ha]
    · exact validRun_nil
  | scheduleSet off set p3 =>
    obtain ⟨he, hm, h3, hok⟩ := hop
    obtain ⟨s', rc, hee, hi, _, ha, _⟩ := scheduleSet_spec env s off set p3 hinv he hm h3 hok
    refine ⟨s', ⟨rc, [], []⟩, ?_, hi, ?_, ⟨?_, ?_⟩, fun _ => rfl⟩
    · simp only [step, bind, Except.bind, hee]; rfl
    · simp only [absOp, Spec.TdmaSched.step, ← ha]
    · simp only [absOp, Spec.TdmaSched.step, ← ha]
    · exact validRun_nil
  | advance =>
    obtain ⟨he, hi, ha⟩ := advance_spec env s hinv
    refine ⟨_, ⟨0, [], []⟩, ?_, hi, ?_, ⟨?_, ?_⟩, fun _ => rfl⟩
    · simp only [step, bind, Except.bind, he]; rfl
    · simp only [absOp, Spec.TdmaSched.step, ha]
    · rfl
    · exact validRun_nil
  | execute =>
    obtain ⟨s', rc, ran, rets, he, hi, _, ha, hrc, hv⟩ := execute_abs env s hinv (hne rfl)
    refine ⟨s', ⟨rc, ran, rets⟩, ?_, hi, ?_, ⟨?_, ?_⟩, fun h => absurd rfl h⟩
    · simp only [step, bind, Except.bind, he]; rfl
    · simp only [absOp, Spec.TdmaSched.step, ha]
    · simp only [absOp, Spec.TdmaSched.step, hrc]
    · exact hv
  | reset =>
    obtain ⟨s', he, hi, _, ha⟩ := reset_spec env s hinv
    refine ⟨s', ⟨0, [], []⟩, ?_, hi, ?_, ⟨?_, ?_⟩, fun _ => rfl⟩
    · simp only [step, bind, Except.bind, he]; rfl
    · simp only [absOp, Spec.TdmaSched.step, ha]
    · rfl
    · exact validRun_nil

theorem run_refines (env : Env) (hne : NoReentry env) : ∀ (ops : List Op) (s : Sched), Inv env s →
    (∀ op ∈ ops, OpOk env op) →
    ∃ s' outs, run env s ops = .ok (s', outs) ∧ Inv env s' ∧
      abs s' = (Spec.TdmaSched.run (abs s) (ops.map absOp)).1 ∧
      OutsMatch outs (Spec.TdmaSched.run (abs s) (ops.map absOp)).2
  | [], s, hinv, _ => ⟨s, [], rfl, hinv, rfl, trivial⟩
  | op :: ops, s, hinv, hops => by
    obtain ⟨s1, o, h1, hi1, ha1, hm1, _⟩ := step_refines env s op hinv (hops op (List.mem_cons_self ..))
      (fun _ => hne)
    obtain ⟨s', outs, h2, hi2, ha2, hm2⟩ := run_refines env hne ops s1 hi1
      (fun x hx => hops x (List.mem_cons_of_mem _ hx))
    refine ⟨s', o :: outs, ?_, hi2, ?_, ?_⟩
    · simp only [run, bind, Except.bind, h1, h2]; rfl
    · simp only [List.map_cons, Spec.TdmaSched.run, ← ha1, ha2]
    · simp only [List.map_cons, Spec.TdmaSched.run, ← ha1]
      exact ⟨hm1, hm2⟩

/-- the scheduler calls made from inside by the callbacks an operation ran, in order, as the property
sees them -/
def flyOps (env : Env) (o : Out) : List (Spec.TdmaSched.Op Cb) :=
  (o.ran.map absItem).flatMap (absScr env)

/-- every admissible operation in an admissible environment (scripted callbacks included): no fault,
invariant preserved; what `execute` does is an admissible on-the-fly execution; every other operation
does what the abstract machine does -/
theorem step_spec (env : Env) (s : Sched) (op : Op) (hinv : Inv env s) (henv : EnvOk env)
    (hop : OpOk env op) :
    ∃ s' out, step env s op = .ok (s', out) ∧ Inv env s' ∧
      (op = .execute → out.rc = (out.ran.length : Int) ∧ out.rets.length = out.ran.length ∧
        Spec.TdmaSched.ExecOnTheFly (absScr env) (abs s) (out.ran.map absItem) (abs s') out.rets.flatten) ∧
      (op ≠ .execute → out.ran = [] ∧ out.rets = [] ∧
        abs s' = (Spec.TdmaSched.step (abs s) (absOp op)).1 ∧
        out.rc = (Spec.TdmaSched.step (abs s) (absOp op)).2.rc) := by
  by_cases hex : op = .execute
  · subst hex
    obtain ⟨s', ran, rets, he, hi, _, hl, hx⟩ := execute_refines env s hinv henv
    refine ⟨s', ⟨ran.length, ran, rets⟩, ?_, hi, fun _ => ⟨rfl, hl, hx⟩, fun h => absurd rfl h⟩
    simp only [step, bind, Except.bind, he]; rfl
  · obtain ⟨s', out, h1, hi, ha, hm, hr⟩ := step_refines env s op hinv hop (fun h => absurd h hex)
    refine ⟨s', out, h1, hi, fun h => absurd h hex, fun _ => ⟨hr hex, ?_, ha, hm.1⟩⟩
    cases op with
    | execute => exact absurd rfl hex
    | schedule off cb p1 p2 p3 prio =>
      simp only [step, bind, Except.bind] at h1
      cases h2 : schedule s off cb p1 p2 p3 prio with
      | error f => simp [h2] at h1
      | ok r => simp only [h2, pure, Except.pure, Except.ok.injEq, Prod.mk.injEq] at h1; rw [← h1.2]
    | scheduleSet off set p3 =>
      simp only [step, bind, Except.bind] at h1
      cases h2 : scheduleSet s off set p3 with
      | error f => simp [h2] at h1
      | ok r => simp only [h2, pure, Except.pure, Except.ok.injEq, Prod.mk.injEq] at h1; rw [← h1.2]
    | advance =>
      simp only [step, bind, Except.bind] at h1
      cases h2 : advance s with
      | error f => simp [h2] at h1
      | ok r => simp only [h2, pure, Except.pure, Except.ok.injEq, Prod.mk.injEq] at h1; rw [← h1.2]
    | reset =>
      simp only [step, bind, Except.bind] at h1
      cases h2 : reset s with
      | error f => simp [h2] at h1
      | ok r => simp only [h2, pure, Except.pure, Except.ok.injEq, Prod.mk.injEq] at h1; rw [← h1.2]

theorem run_safe (env : Env) (henv : EnvOk env) : ∀ (ops : List Op) (s : Sched), Inv env s →
    (∀ op ∈ ops, OpOk env op) → ∃ s' outs, run env s ops = .ok (s', outs) ∧ Inv env s'
  | [], s, hinv, _ => ⟨s, [], rfl, hinv⟩
  | op :: ops, s, hinv, hops => by
    obtain ⟨s1, o, h1, hi1, _, _⟩ := step_spec env s op hinv henv (hops op (List.mem_cons_self ..))
    obtain ⟨s', outs, h2, hi2⟩ := run_safe env henv ops s1 hi1 (fun x hx => hops x (List.mem_cons_of_mem _ hx))
    exact ⟨s', o :: outs, by simp only [run, bind, Except.bind, h1, h2]; rfl, hi2⟩

/-- what an operation does to `cur_bucket`: only `tdma_sched_advance()` moves it, one step round the ring -/
theorem step_cur (env : Env) (s : Sched) (op : Op) (hinv : Inv env s) (henv : EnvOk env) (hop : OpOk env op)
    (s' : Sched) (out : Out) (h : step env s op = .ok (s', out)) :
    s'.cur = if op = .advance then (s.cur + 1) % 25 else s.cur := by
  cases op with
  | schedule off cb p1 p2 p3 prio =>
    obtain ⟨ho, h1, h2, h3, hp1, hp2, hok⟩ := hop
    obtain ⟨s1, rc, he, _, hc, _⟩ := schedule_spec env s off cb p1 p2 p3 prio hinv ho h1 h2 h3 ⟨hp1, hp2⟩ hok
    simp only [step, bind, Except.bind, he, pure, Except.pure, Except.ok.injEq, Prod.mk.injEq] at h
    rw [← h.1, hc]; simp
  | scheduleSet off set p3 =>
    obtain ⟨he, hm, h3, hok⟩ := hop
    obtain ⟨s1, rc, hee, _, hc, _⟩ := scheduleSet_spec env s off set p3 hinv he hm h3 hok
    simp only [step, bind, Except.bind, hee, pure, Except.pure, Except.ok.injEq, Prod.mk.injEq] at h
    rw [← h.1, hc]; simp
  | advance =>
    obtain ⟨he, _, _⟩ := advance_spec env s hinv
    simp only [step, bind, Except.bind, he, pure, Except.pure, Except.ok.injEq, Prod.mk.injEq] at h
    rw [← h.1]; simp
  | execute =>
    obtain ⟨s1, ran, rets, he, _, hc, _⟩ := execute_refines env s hinv henv
    simp only [step, bind, Except.bind, he, pure, Except.pure, Except.ok.injEq, Prod.mk.injEq] at h
    rw [← h.1, hc]; simp
  | reset =>
    obtain ⟨s1, he, _, hc, _⟩ := reset_spec env s hinv
    simp only [step, bind, Except.bind, he, pure, Except.pure, Except.ok.injEq, Prod.mk.injEq] at h
    rw [← h.1, hc]; simp

end OsmoVerif.TdmaSched
