/- Helper lemmas for the TDMA scheduler model (C08): array access, well-formedness, constants. -/
import OsmoVerif.Model.TdmaSched

set_option linter.unusedVariables false

namespace OsmoVerif.TdmaSched

theorem nf : Gen.tdmaNumFrames = 25 := by decide
theorem nc : Gen.tdmaNumCb = 8 := by decide

/-! ### checked array access -/

theorem idx_ok {α : Type} (l : List α) (i : Nat) (h : i < l.length) : idx l i = .ok l[i] := by
  simp [idx, h]

theorem idx_ok_getD {α : Type} (l : List α) (i : Nat) (d : α) (h : i < l.length) :
    idx l i = .ok (l.getD i d) := by
  simp [idx, h]

theorem setIdx_ok {α : Type} (l : List α) (i : Nat) (v : α) (h : i < l.length) :
    setIdx l i v = .ok (l.set i v) := by
  simp [setIdx, h]

theorem getD_set_eq {α : Type} (l : List α) (i : Nat) (a d : α) (h : i < l.length) :
    (l.set i a).getD i d = a := by
  simp [List.getD_eq_getElem?_getD, h]

theorem getD_set_ne {α : Type} (l : List α) (i k : Nat) (a d : α) (h : i ≠ k) :
    (l.set i a).getD k d = l.getD k d := by
  simp [List.getD_eq_getElem?_getD, List.getElem?_set_ne h]

theorem getD_eq_getElem' {α : Type} (l : List α) (i : Nat) (d : α) (h : i < l.length) :
    l.getD i d = l[i] := by
  simp [List.getD_eq_getElem?_getD, h]

theorem getD_mem {α : Type} (l : List α) (i : Nat) (d : α) (h : i < l.length) : l.getD i d ∈ l := by
  rw [getD_eq_getElem' l i d h]; exact List.getElem_mem h

/-- `t[j] :: t.set j x` is a permutation of `x :: t` -/
theorem set_perm_cons {α : Type} (x d : α) : ∀ (t : List α) (j : Nat), j < t.length →
    (t.getD j d :: t.set j x).Perm (x :: t)
  | [], _, h => by simp at h
  | y :: t, 0, _ => by
    simp only [List.getD_cons_zero, List.set_cons_zero]
    exact List.Perm.swap _ _ _
  | y :: t, j + 1, h => by
    simp only [List.getD_cons_succ, List.set_cons_succ]
    have ih := set_perm_cons x d t j (by simpa using h)
    exact (List.Perm.swap _ _ _).trans ((ih.cons y).trans (List.Perm.swap _ _ _))

/-- exchanging two entries of a list is a permutation -/
theorem swap_perm {α : Type} (d : α) : ∀ (l : List α) (i j : Nat), i < l.length → j < l.length →
    ((l.set i (l.getD j d)).set j (l.getD i d)).Perm l
  | [], _, _, h, _ => by simp at h
  | x :: t, 0, 0, _, _ => by simp
  | x :: t, 0, j + 1, _, hj => by
    simp only [List.getD_cons_succ, List.getD_cons_zero, List.set_cons_zero, List.set_cons_succ]
    exact set_perm_cons x d t j (by simpa using hj)
  | x :: t, i + 1, 0, hi, _ => by
    simp only [List.getD_cons_succ, List.getD_cons_zero, List.set_cons_zero, List.set_cons_succ]
    exact set_perm_cons x d t i (by simpa using hi)
  | x :: t, i + 1, j + 1, hi, hj => by
    simp only [List.getD_cons_succ, List.set_cons_succ]
    exact (swap_perm d t i j (by simpa using hi) (by simpa using hj)).cons x

/-- `(range n).map (l[·])` is the prefix of length `n` -/
theorem map_range_getD {α : Type} (l : List α) (d : α) : ∀ n, n ≤ l.length →
    (List.range n).map (fun k => l.getD k d) = l.take n
  | 0, _ => by simp
  | n + 1, h => by
    rw [List.range_succ, List.map_append, map_range_getD l d n (by omega)]
    simp only [List.map_cons, List.map_nil]
    rw [getD_eq_getElem' l n d (by omega)]
    exact (List.take_succ_eq_append_getElem (by omega)).symm

theorem take_set_succ {α : Type} (l : List α) (n : Nat) (v : α) (h : n < l.length) :
    (l.set n v).take (n + 1) = l.take n ++ [v] := by
  rw [List.take_succ_eq_append_getElem (by simpa using h)]
  simp [List.take_set_of_le]

/-! ### well-formed scheduler states -/

/-- the `item[]` array has its declared size and `num_items` does not exceed it -/
def BucketWF (b : Bucket) : Prop := b.item.length = 8 ∧ b.numItems ≤ 8

instance (b : Bucket) : Decidable (BucketWF b) := by unfold BucketWF; infer_instance

/-- the memory layout of `struct tdma_scheduler` and the two counters in range -/
def WF (s : Sched) : Prop := s.bucket.length = 25 ∧ s.cur < 25 ∧ ∀ b ∈ s.bucket, BucketWF b

instance (s : Sched) : Decidable (WF s) := by unfold WF; infer_instance

/-- the live items of a bucket: `item[0 .. num_items)` -/
def live (b : Bucket) : List Item := b.item.take b.numItems

/-- every live item of the scheduler satisfies `P` -/
def AllLive (P : Item → Prop) (s : Sched) : Prop := ∀ b ∈ s.bucket, ∀ it ∈ live b, P it

instance (P : Item → Prop) [DecidablePred P] (s : Sched) : Decidable (AllLive P s) := by
  unfold AllLive; infer_instance

theorem wrapBucket_ok (s : Sched) (off : Nat) (h : s.cur < 25) (ho : off < 256) :
    wrapBucket s off = .ok ((s.cur + off) % 25) := by
  simp only [wrapBucket, nf, u8, u16]
  have : (s.cur + off) % 25 % 65536 % 256 = (s.cur + off) % 25 := by omega
  simp [this]

theorem init_wf (cur : Nat) (h : cur < 25) : WF (init cur) := by
  refine ⟨by simp [init, nf], h, ?_⟩
  intro b hb
  simp only [init, List.mem_replicate] at hb
  rw [hb.2]
  simp [BucketWF, zeroBucket, nc]

theorem init_allLive (P : Item → Prop) (cur : Nat) : AllLive P (init cur) := by
  intro b hb it hit
  simp only [init, List.mem_replicate] at hb
  rw [hb.2] at hit
  simp [live, zeroBucket] at hit

end OsmoVerif.TdmaSched
