/- C16: decoding the encoding of an in-range value returns the value (all field kinds, any nesting). -/
import OsmoVerif.Lemmas.CodecInt
import OsmoVerif.Lemmas.CodecBits
namespace OsmoVerif.Codec

/-! ## base-class protocol -/

theorem fieldToCore_present {pres : Pres} {selfLen : Nat} {body : Vals → Except Err (List Nat)} {v : Vals}
    {data : List Nat} (hp : getPres pres v = .ok true) (hb : body v = .ok data)
    (hl : selfLen > 0 → data.length = selfLen) : fieldToCore pres selfLen body v = .ok data := by
  simp only [fieldToCore, hp, hb]
  rw [if_neg]; intro ⟨h1, h2⟩; exact h2 (hl h1)

theorem fieldToCore_absent {pres : Pres} {selfLen : Nat} {body : Vals → Except Err (List Nat)} {v : Vals}
    (hp : getPres pres v = .ok false) : fieldToCore pres selfLen body v = .ok [] := by
  simp only [fieldToCore, hp]

theorem fieldFromCore_present {pres : Pres} {glen : Vals → Nat → Except Err Nat}
    {body : Vals → List Nat → Except Err Vals} {pre v' : Vals} {data : List Nat} {n : Nat}
    (hp : getPres pres pre = .ok true) (hg : glen pre data.length = .ok n) (hn : n ≤ data.length)
    (hb : body pre (data.take n) = .ok v') : fieldFromCore pres glen body pre data = .ok (v', n) := by
  simp only [fieldFromCore, hp, hg]
  rw [if_neg (by omega)]
  simp only [hb]

theorem fieldFromCore_absent {pres : Pres} {glen : Vals → Nat → Except Err Nat}
    {body : Vals → List Nat → Except Err Vals} {pre : Vals} {data : List Nat}
    (hp : getPres pres pre = .ok false) : fieldFromCore pres glen body pre data = .ok (pre, 0) := by
  simp only [fieldFromCore, hp]

theorem wfField_bits_derive {pres len little fs} (h : wfField (.bits pres len little fs) = true) :
    ∃ l offs, bitsDerive len little fs = .ok (l, offs) := by
  simp only [wfField, Bool.and_eq_true] at h
  cases hd : bitsDerive len little fs with
  | error e => simp [hd] at h
  | ok r => exact ⟨r.1, r.2, rfl⟩

/-- an absent field encodes to nothing and decodes nothing -/
theorem field_absent (f : FDef) (hw : wfField f = true) (pre : Vals) (v : Vals) (data : List Nat)
    (hp : getPres f.pres pre = .ok false) (hv : getPres f.pres v = .ok false) :
    fieldTo f v = .ok [] ∧ fieldFrom f pre data = .ok (pre, 0) := by
  cases f with
  | bits pres len little fs =>
    obtain ⟨l, offs, hd⟩ := wfField_bits_derive hw
    simp only [fieldTo, fieldFrom, hd]
    exact ⟨fieldToCore_absent hv, fieldFromCore_absent hp⟩
  | _ =>
    simp only [FDef.pres] at hp hv
    simp only [fieldTo, fieldFrom]
    exact ⟨fieldToCore_absent hv, fieldFromCore_absent hp⟩

/-! ## the envelope loop -/

theorem envFrom_shift : ∀ (fs : List FDef) (vals : Vals) (data : List Nat) (off : Nat),
    envFrom fs vals data off =
      match envFrom fs vals (data.drop off) 0 with
      | .error e => .error e
      | .ok (v, k) => .ok (v, off + k)
  | [], vals, data, off => by simp [envFrom]
  | f :: fs, vals, data, off => by
    simp only [envFrom, List.drop_zero]
    cases hf : fieldFrom f vals (List.drop off data) with
    | error e => simp
    | ok r =>
      obtain ⟨v', k⟩ := r
      simp only
      rw [envFrom_shift fs v' data (off + k), envFrom_shift fs v' (List.drop off data) (0 + k)]
      simp only [List.drop_drop, Nat.zero_add]
      cases envFrom fs v' (List.drop (off + k) data) 0 with
      | error e => simp
      | ok r => simp [Nat.add_assoc]

theorem envFrom_cons (f : FDef) (fs : List FDef) (vals : Vals) (data : List Nat) :
    envFrom (f :: fs) vals data 0 =
      match fieldFrom f vals data with
      | .error e => .error (wrapDec e)
      | .ok (v', k) =>
        match envFrom fs v' (data.drop k) 0 with
        | .error e => .error e
        | .ok (v'', k') => .ok (v'', k + k') := by
  simp only [envFrom, List.drop_zero]
  cases hf : fieldFrom f vals data with
  | error e => rfl
  | ok r =>
    obtain ⟨v', k⟩ := r
    simp only
    rw [envFrom_shift fs v' data (0 + k)]
    simp [Nat.zero_add]

/-! ## round-trip statements -/

/-- round trip of one present field inside an envelope whose dict is `pre ++ c ++ post` -/
def FieldRT (f : FDef) : Prop :=
  ∀ (pre c post : Vals) (rest L : Nat) (tail : List Nat),
    wfField f = true → getPres f.pres pre = .ok true → inRangeField f pre c rest = some L →
    tail.length = rest →
    ∃ bytes, fieldTo f (pre ++ c ++ post) = .ok bytes ∧ bytes.length = L
      ∧ fieldFrom f pre (bytes ++ tail) = .ok (pre ++ c, L)

/-- round trip of a field list -/
def EnvRT (fs : List FDef) : Prop :=
  ∀ (pre rst post : Vals) (R L : Nat) (tail : List Nat),
    wfFields fs = true → inRangeFields fs pre rst R = some L → tail.length = R →
    ∃ bytes, envTo fs (pre ++ rst ++ post) = .ok bytes ∧ bytes.length = L
      ∧ envFrom fs pre (bytes ++ tail) 0 = .ok (pre ++ rst, L)

theorem envRT_of_fields : ∀ (fs : List FDef), (∀ f ∈ fs, FieldRT f) → EnvRT fs
  | [], _ => by
    intro pre rst post R L tail _ hr _
    simp only [inRangeFields] at hr
    split at hr
    · rename_i he
      simp only [List.isEmpty_iff] at he
      subst he
      cases hr
      exact ⟨[], by simp [envTo], rfl, by simp [envFrom]⟩
    · cases hr
  | f :: fs, hall => by
    intro pre rst post R L tail hw hr htl
    have ih := envRT_of_fields fs (fun g hg => hall g (List.mem_cons_of_mem _ hg))
    simp only [wfFields, Bool.and_eq_true] at hw
    simp only [inRangeFields] at hr
    cases hp : getPres f.pres pre with
    | error e => simp [hp] at hr
    | ok b =>
      cases b with
      | false =>
        simp only [hp] at hr
        obtain ⟨bytes, he, hl, hd⟩ := ih pre rst post R L tail hw.2 hr htl
        have hv : getPres f.pres (pre ++ rst ++ post) = .ok false := by
          rw [List.append_assoc]; exact getPres_append _ _ _ _ hp
        obtain ⟨a1, a2⟩ := field_absent f hw.1 pre (pre ++ rst ++ post) (bytes ++ tail) hp hv
        refine ⟨bytes, ?_, hl, ?_⟩
        · simp only [envTo, a1, he, List.nil_append]
        · rw [envFrom_cons, a2]
          simp only [List.drop_zero, hd, Nat.zero_add]
      | true =>
        simp only [hp] at hr
        cases hrs : inRangeFields fs (pre ++ List.take f.nStored rst) (List.drop f.nStored rst) R with
        | none => simp [hrs] at hr
        | some lr =>
          simp only [hrs] at hr
          cases hrf : inRangeField f pre (List.take f.nStored rst) (lr + R) with
          | none => simp [hrf] at hr
          | some l =>
            simp only [hrf, Option.some.injEq] at hr
            subst hr
            obtain ⟨br, he, hl, hd⟩ := ih (pre ++ rst.take f.nStored) (rst.drop f.nStored) post R lr tail hw.2 hrs htl
            obtain ⟨bf, hfe, hfl, hfd⟩ := hall f (List.mem_cons_self ..) pre (rst.take f.nStored)
              (rst.drop f.nStored ++ post) (lr + R) l (br ++ tail) hw.1 hp hrf (by simp [hl, htl])
            have hsplit : pre ++ rst ++ post = pre ++ List.take f.nStored rst ++ (List.drop f.nStored rst ++ post) := by
              simp only [List.append_assoc]
              rw [← List.append_assoc (List.take _ rst), List.take_append_drop]
            have hsplit2 : pre ++ rst ++ post = pre ++ List.take f.nStored rst ++ List.drop f.nStored rst ++ post := by
              simp only [List.append_assoc]
              rw [← List.append_assoc (List.take _ rst), List.take_append_drop]
            have hsplit3 : pre ++ rst = pre ++ List.take f.nStored rst ++ List.drop f.nStored rst := by
              simp only [List.append_assoc, List.take_append_drop]
            refine ⟨bf ++ br, ?_, by simp [hfl, hl], ?_⟩
            · simp only [envTo]
              rw [hsplit, hfe]
              rw [← hsplit, hsplit2, he]
            · rw [envFrom_cons, List.append_assoc, hfd]
              simp only
              rw [← hfl, List.drop_left, hd, hsplit3]

/-! ## sequences -/

/-- with enough fuel the result of the sequence loop does not depend on the fuel -/
theorem seqRT (proc : List Nat → Except Err (Vals × Nat)) (enc : Vals → Except Err (List Nat))
    (chk : Vals → Nat → Option Nat)
    (H : ∀ (iv : Vals) (r l : Nat) (tail : List Nat), chk iv r = some l → tail.length = r →
        ∃ b, enc iv = .ok b ∧ b.length = l ∧ proc (b ++ tail) = .ok (iv, l)) :
    ∀ (items : List Val) (L : Nat), inRangeItems chk items = some L →
      ∃ bytes, seqEnc enc items = .ok bytes ∧ bytes.length = L ∧
        ∀ (p : List Nat) (acc : List Val) (fuel : Nat), fuel ≥ L →
          seqLoop proc fuel (p ++ bytes) p.length acc = .ok (acc ++ items)
  | [], L, h => by
    simp only [inRangeItems, Option.some.injEq] at h
    subst h
    refine ⟨[], rfl, rfl, ?_⟩
    intro p acc fuel _
    unfold seqLoop
    simp
  | .dict iv :: rest, L, h => by
    simp only [inRangeItems] at h
    cases hr : inRangeItems chk rest with
    | none => simp [hr] at h
    | some lr =>
      simp only [hr] at h
      cases hc : chk iv lr with
      | none => simp [hc] at h
      | some l =>
        simp only [hc] at h
        split at h
        · rename_i hl1
          cases h
          obtain ⟨br, her, hlr, hloop⟩ := seqRT proc enc chk H rest lr hr
          obtain ⟨b, hb, hbl, hproc⟩ := H iv lr l br hc hlr
          refine ⟨b ++ br, by simp [seqEnc, hb, her], by simp [hbl, hlr], ?_⟩
          intro p acc fuel hfuel
          unfold seqLoop
          have hlt : p.length < (p ++ (b ++ br)).length := by simp; omega
          rw [if_pos hlt]
          match fuel, hfuel with
          | 0, hfuel => omega
          | fuel + 1, hfuel =>
            simp only [List.drop_left, hproc]
            rw [if_neg (by omega)]
            have := hloop (p ++ b) (acc ++ [.dict iv]) fuel (by omega)
            simp only [List.length_append, List.append_assoc, hbl] at this
            simp only [List.append_assoc, List.cons_append, List.nil_append] at this ⊢
            exact this
        · cases h
  | .int _ :: _, _, h => by simp [inRangeItems] at h
  | .bytes _ :: _, _, h => by simp [inRangeItems] at h
  | .list _ :: _, _, h => by simp [inRangeItems] at h

/-! ## inversion of `inRangeField` -/

theorem inRange_int_inv {name pres len bo sg off mult} {pre c : Vals} {rest L : Nat}
    (h : inRangeField (.int name pres len bo sg off mult) pre c rest = some L) :
    ∃ x, c = [(name, .int x)] ∧ name ∉ pre.keys ∧ Int.fdiv (x - off) mult * mult + off = x
      ∧ fitsInt len sg (Int.fdiv (x - off) mult) = true ∧ L = len := by
  simp only [inRangeField] at h
  split at h
  · split at h
    · rename_i k x hc
      obtain ⟨rfl, h2, h3, h4⟩ := hc
      cases h
      exact ⟨x, rfl, h2, h3, h4, rfl⟩
    · cases h
  · cases h

theorem inRange_buf_inv {name pres ld} {pre c : Vals} {rest L : Nat}
    (h : inRangeField (.buf name pres ld) pre c rest = some L) :
    ∃ b, c = [(name, .bytes b)] ∧ name ∉ pre.keys ∧ isBytes b = true
      ∧ getLen ld pre (b.length + rest) = .ok b.length ∧ L = b.length := by
  simp only [inRangeField] at h
  split at h
  · split at h
    · rename_i k b hc
      obtain ⟨rfl, h2, h3, h4⟩ := hc
      cases h
      exact ⟨b, rfl, h2, h3, (lenOK_iff _ _ _ _).1 h4, rfl⟩
    · cases h
  · cases h

theorem inRange_spare_inv {name pres ld filler} {pre c : Vals} {rest L : Nat}
    (h : inRangeField (.spare name pres ld filler) pre c rest = some L) :
    c = [] ∧ getLen ld pre 0 = .ok L ∧ getLen ld pre (L + rest) = .ok L := by
  simp only [inRangeField] at h
  split at h
  · rename_i l hg
    split at h
    · rename_i hc
      cases h
      exact ⟨rfl, hg, (lenOK_iff _ _ _ _).1 hc⟩
    · cases h
  · cases h

theorem inRange_bits_inv {pres len little fs} {pre c : Vals} {rest L : Nat}
    (h : inRangeField (.bits pres len little fs) pre c rest = some L) :
    ∃ offs, bitsDerive len little fs = .ok (L, offs) ∧ inRangeBits offs pre c = true := by
  simp only [inRangeField] at h
  split at h
  · rename_i l offs hd
    split at h
    · cases h; exact ⟨offs, hd, ‹_›⟩
    · cases h
  · cases h

theorem inRange_env_inv {name pres ld cl fs} {pre c : Vals} {rest L : Nat}
    (h : inRangeField (.env name pres ld cl fs) pre c rest = some L) :
    ∃ inner, c = [(name, .dict inner)] ∧ name ∉ pre.keys ∧ inRangeFields fs [] inner 0 = some L
      ∧ getLen ld pre (L + rest) = .ok L := by
  simp only [inRangeField] at h
  split at h
  · rename_i k inner
    split at h
    · rename_i l hi
      split at h
      · rename_i hc
        obtain ⟨rfl, h2, h3⟩ := hc
        cases h
        exact ⟨inner, rfl, h2, hi, (lenOK_iff _ _ _ _).1 h3⟩
      · cases h
    · cases h
  · cases h

theorem inRange_seq_inv {name pres ld item} {pre c : Vals} {rest L : Nat}
    (h : inRangeField (.seq name pres ld item) pre c rest = some L) :
    ∃ items, c = [(name, .list items)] ∧ name ∉ pre.keys
      ∧ inRangeItems (fun iv r => inRangeFields item [] iv r) items = some L
      ∧ getLen ld pre (L + rest) = .ok L := by
  simp only [inRangeField] at h
  split at h
  · rename_i k items
    split at h
    · rename_i l hi
      split at h
      · rename_i hc
        obtain ⟨rfl, h2, h3⟩ := hc
        cases h
        exact ⟨items, rfl, h2, hi, (lenOK_iff _ _ _ _).1 h3⟩
      · cases h
    · cases h
  · cases h

theorem get_mid (pre post : Vals) (n : String) (x : Val) (h : n ∉ pre.keys) :
    Vals.get (pre ++ [(n, x)] ++ post) n = .ok x := by
  rw [List.append_assoc, Vals.get_append_of_not_mem _ _ _ h]; simp [Vals.get]

theorem selfLen_of_getLen {ld : LenD} {pre : Vals} {dlen L : Nat} (h : getLen ld pre dlen = .ok L)
    (hs : ld.selfLen > 0) : L = ld.selfLen := by
  cases ld with
  | fixed n =>
    simp only [LenD.selfLen] at hs
    have : n ≠ 0 := by omega
    simp only [getLen, this, if_false, Except.ok.injEq] at h
    simp [LenD.selfLen, h]
  | _ => simp [LenD.selfLen] at hs

/-! ## the flat field kinds -/

theorem take_append_len {α : Type} {a b : List α} {n : Nat} (h : a.length = n) : (a ++ b).take n = a := by
  subst h; exact List.take_left

theorem fieldRT_int (name pres len bo sg off mult) : FieldRT (.int name pres len bo sg off mult) := by
  intro pre c post rest L tail hw hp hr htl
  obtain ⟨x, rfl, hnm, hex, hfit, hL⟩ := inRange_int_inv hr
  have hL2 : len = L := hL.symm
  subst hL2
  simp only [wfField, Bool.and_eq_true, decide_eq_true_eq] at hw
  obtain ⟨hlen, hmult⟩ := hw
  simp only [FDef.pres] at hp
  have hv : getPres pres (pre ++ [(name, Val.int x)] ++ post) = .ok true := by
    rw [List.append_assoc]; exact getPres_append _ _ _ _ hp
  have hbs := intToBytes_of_fits len bo sg _ hfit
  obtain ⟨hdec, hbl, _⟩ := intFromBytes_intToBytes _ _ _ _ _ hbs (fun _ => by omega)
  generalize bytesOf len bo _ = bs at hbs hdec hbl
  refine ⟨bs, ?_, hbl, ?_⟩
  · simp only [fieldTo]
    apply fieldToCore_present hv
    · simp only [intEnc, Vals.getInt, get_mid pre post name _ hnm, hmult, if_false]
      exact hbs
    · intro _; exact hbl
  · simp only [fieldFrom]
    apply fieldFromCore_present hp (n := len)
    · have : len ≠ 0 := by omega
      simp [this]
    · rw [List.length_append, hbl]; omega
    · rw [take_append_len hbl]
      simp only [intDec, hdec, hex, Vals.set_of_not_mem _ _ _ hnm]

theorem fieldRT_buf (name pres ld) : FieldRT (.buf name pres ld) := by
  intro pre c post rest L tail _ hp hr htl
  obtain ⟨b, rfl, hnm, _, hgl, rfl⟩ := inRange_buf_inv hr
  simp only [FDef.pres] at hp
  have hv : getPres pres (pre ++ [(name, Val.bytes b)] ++ post) = .ok true := by
    rw [List.append_assoc]; exact getPres_append _ _ _ _ hp
  refine ⟨b, ?_, rfl, ?_⟩
  · simp only [fieldTo]
    apply fieldToCore_present hv
    · simp only [Vals.getBytes, get_mid pre post name _ hnm]
    · intro hs; exact selfLen_of_getLen hgl hs
  · simp only [fieldFrom]
    apply fieldFromCore_present hp (n := b.length)
    · simpa [htl] using hgl
    · simp
    · rw [List.take_left]
      simp only [Vals.set_of_not_mem _ _ _ hnm]

theorem fieldRT_spare (name pres ld filler) : FieldRT (.spare name pres ld filler) := by
  intro pre c post rest L tail hw hp hr htl
  obtain ⟨rfl, hg0, hgl⟩ := inRange_spare_inv hr
  simp only [wfField, Bool.and_eq_true, decide_eq_true_eq] at hw
  obtain ⟨hfl, hsl⟩ := hw
  simp only [FDef.pres] at hp
  have hv : getPres pres (pre ++ [] ++ post) = .ok true := by
    rw [List.append_assoc]; exact getPres_append _ _ _ _ hp
  have hflen : (fillerBytes filler L).length = L := by rw [fillerBytes_length, hfl, Nat.mul_one]
  refine ⟨fillerBytes filler L, ?_, hflen, ?_⟩
  · simp only [fieldTo]
    apply fieldToCore_present hv
    · have := getLen_append ld pre ([] ++ post) 0 L hg0
      rw [← List.append_assoc] at this
      simp only [this]
    · intro hs; rw [hflen]; exact selfLen_of_getLen hg0 hs
  · simp only [fieldFrom]
    apply fieldFromCore_present hp (n := L)
    · simpa [htl, hflen] using hgl
    · simp [hflen]
    · simp

theorem fieldRT_bits (pres len little fs) : FieldRT (.bits pres len little fs) := by
  intro pre c post rest L tail hw hp hr htl
  obtain ⟨offs, hd, hir⟩ := inRange_bits_inv hr
  simp only [FDef.pres] at hp
  have hv : getPres pres (pre ++ c ++ post) = .ok true := by
    rw [List.append_assoc]; exact getPres_append _ _ _ _ hp
  -- the derived offsets form a chain starting at 8 * L
  have hchain : Chain (L * 8) offs := by
    simp only [bitsDerive] at hd
    cases ho : bitsOffsets (bitsLen len (bitsOrdered little fs) * 8) (bitsOrdered little fs) with
    | error e => simp [ho] at hd
    | ok o =>
      simp only [ho, Except.ok.injEq, Prod.mk.injEq] at hd
      obtain ⟨rfl, rfl⟩ := hd
      exact (bitsOffsets_chain _ _ _ ho).1
  obtain ⟨e1, e2, e3⟩ := bits_roundtrip offs (L * 8) pre c post 0 hchain hir
  have hfit := packVals_fits L _ e2
  have hbs := intToBytes_of_fits L .big false _ hfit
  obtain ⟨hdec, hbl, hib⟩ := intFromBytes_intToBytes _ _ _ _ _ hbs (fun h => by cases h)
  generalize bytesOf L .big _ = bs at hbs hdec hbl hib
  refine ⟨bs, ?_, hbl, ?_⟩
  · simp only [fieldTo, hd]
    apply fieldToCore_present hv
    · simp only [bitsEncBytes, e1, Nat.zero_or]
      exact hbs
    · intro _; exact hbl
  · simp only [fieldFrom, hd]
    apply fieldFromCore_present hp (n := L)
    · rfl
    · rw [List.length_append, hbl]; omega
    · rw [take_append_len hbl]
      -- int.from_bytes(data, 'big') of the encoded blob is the blob
      have hu : leToNat bs.reverse = packVals offs c := by
        rw [intFromBytes_eq] at hdec
        simp only [Bool.false_eq_true, false_and, if_false, uOf] at hdec
        exact Int.ofNat_inj.mp hdec
      rw [hu]
      have := e3 0
      simpa using this

/-! ## nested envelopes and sequences, given the round trip of their members -/

theorem fieldRT_env (name pres ld cl fs) (hfs : EnvRT fs) : FieldRT (.env name pres ld cl fs) := by
  intro pre c post rest L tail hw hp hr htl
  obtain ⟨inner, rfl, hnm, hin, hgl⟩ := inRange_env_inv hr
  simp only [wfField, Bool.and_eq_true, decide_eq_true_eq] at hw
  obtain ⟨⟨_, hwf⟩, _⟩ := hw
  simp only [FDef.pres] at hp
  have hv : getPres pres (pre ++ [(name, Val.dict inner)] ++ post) = .ok true := by
    rw [List.append_assoc]; exact getPres_append _ _ _ _ hp
  obtain ⟨bytes, he, hl, hd⟩ := hfs [] inner [] 0 L [] hwf hin rfl
  simp only [List.nil_append, List.append_nil] at he hd
  refine ⟨bytes, ?_, hl, ?_⟩
  · simp only [fieldTo]
    apply fieldToCore_present hv
    · simp only [Vals.getDict, get_mid pre post name _ hnm, he]
    · intro hs; rw [hl]; exact selfLen_of_getLen hgl hs
  · simp only [fieldFrom]
    apply fieldFromCore_present hp (n := L)
    · simpa [htl, hl] using hgl
    · simp [hl]
    · rw [← hl, List.take_left]
      simp only [hd, tailCheck, hl, ne_eq, not_true_eq_false, and_false, if_false,
        Vals.set_of_not_mem _ _ _ hnm]

theorem fieldRT_seq (name pres ld item) (hitem : EnvRT item) : FieldRT (.seq name pres ld item) := by
  intro pre c post rest L tail hw hp hr htl
  obtain ⟨items, rfl, hnm, hin, hgl⟩ := inRange_seq_inv hr
  simp only [wfField, Bool.and_eq_true, decide_eq_true_eq] at hw
  obtain ⟨⟨hwf, _⟩, _⟩ := hw
  simp only [FDef.pres] at hp
  have hv : getPres pres (pre ++ [(name, Val.list items)] ++ post) = .ok true := by
    rw [List.append_assoc]; exact getPres_append _ _ _ _ hp
  obtain ⟨bytes, he, hl, hloop⟩ := seqRT (fun x => envFrom item [] x 0) (fun v => envTo item v)
    (fun iv r => inRangeFields item [] iv r)
    (by
      intro iv r l tl h1 h2
      obtain ⟨b, e1, e2, e3⟩ := hitem [] iv [] r l tl hwf h1 h2
      simp only [List.nil_append, List.append_nil] at e1 e3
      exact ⟨b, e1, e2, e3⟩) items L hin
  refine ⟨bytes, ?_, hl, ?_⟩
  · simp only [fieldTo]
    apply fieldToCore_present hv
    · simp only [Vals.getList, get_mid pre post name _ hnm, he]
    · intro hs; rw [hl]; exact selfLen_of_getLen hgl hs
  · simp only [fieldFrom]
    apply fieldFromCore_present hp (n := L)
    · simpa [htl, hl] using hgl
    · simp [hl]
    · rw [← hl, List.take_left]
      have := hloop [] [] bytes.length (by omega)
      simp only [List.nil_append, List.length_nil] at this
      simp only [this, Vals.set_of_not_mem _ _ _ hnm]

/-! ## every definition, any nesting depth -/

theorem fieldRT : ∀ (f : FDef), FieldRT f
  | .int a b c d e f g => fieldRT_int a b c d e f g
  | .buf a b c => fieldRT_buf a b c
  | .spare a b c d => fieldRT_spare a b c d
  | .bits a b c d => fieldRT_bits a b c d
  | .env name pres ld cl fs =>
    fieldRT_env name pres ld cl fs (envRT_of_fields fs (fun g _ => fieldRT g))
  | .seq name pres ld item =>
    fieldRT_seq name pres ld item (envRT_of_fields item (fun g _ => fieldRT g))
termination_by f => sizeOf f
decreasing_by
  all_goals simp_wf
  all_goals (have := List.sizeOf_lt_of_mem ‹_›; omega)

theorem envRT (fs : List FDef) : EnvRT fs := envRT_of_fields fs (fun g _ => fieldRT g)

end OsmoVerif.Codec
