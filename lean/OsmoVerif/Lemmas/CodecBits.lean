/- Lemmas on BitFieldSet packing/unpacking (C16). -/
import OsmoVerif.Lemmas.CodecVals
namespace OsmoVerif.Codec

/-- the derived offsets form a chain: every field sits directly below its predecessor -/
def Chain : Nat → List (BitF × Nat) → Prop
  | _, [] => True
  | off, (f, o) :: rest => o + f.bl = off ∧ Chain o rest

theorem bitsOffsets_chain : ∀ (fs : List BitF) (off : Nat) (offs : List (BitF × Nat)),
    bitsOffsets off fs = .ok offs → Chain off offs ∧ offs.map (·.1) = fs
  | [], _, offs, h => by
    simp only [bitsOffsets, Except.ok.injEq] at h; subst h; exact ⟨trivial, rfl⟩
  | f :: fs, off, offs, h => by
    simp only [bitsOffsets] at h
    split at h
    · cases h
    · split at h
      · cases h
      · rename_i h1 h2
        cases hr : bitsOffsets (off - f.bl) fs with
        | error e => simp [hr] at h
        | ok rest =>
          simp only [hr, Except.ok.injEq] at h
          subst h
          obtain ⟨hc, hm⟩ := bitsOffsets_chain fs _ rest hr
          refine ⟨⟨by omega, hc⟩, by simp [hm]⟩

/-- the integer a list of stored bit-field values packs to -/
def packVals : List (BitF × Nat) → Vals → Nat
  | [], _ => 0
  | (f, o) :: rest, c =>
    match f.name with
    | none => packVals rest c
    | some _ =>
      match c with
      | (_, .int x) :: c' => x.toNat * 2 ^ o + packVals rest c'
      | _ => 0

theorem inRangeBits_cons_named {f : BitF} {o : Nat} {rest : List (BitF × Nat)} {pre c : Vals} {n : String}
    (hn : f.name = some n) (h : inRangeBits ((f, o) :: rest) pre c = true) :
    ∃ x c', c = (n, .int x) :: c' ∧ n ∉ pre.keys ∧ 0 ≤ x ∧ x < ((2 ^ f.bl : Nat) : Int)
      ∧ (∀ cst, f.val = some cst → x = cst) ∧ inRangeBits rest (pre ++ [(n, .int x)]) c' = true := by
  simp only [inRangeBits, hn] at h
  match c, h with
  | (k, .int x) :: c', h =>
    simp only [Bool.and_eq_true, decide_eq_true_eq] at h
    obtain ⟨⟨⟨⟨⟨hk, hnm⟩, h0⟩, hlt⟩, hv⟩, hr⟩ := h
    subst hk
    refine ⟨x, c', rfl, hnm, h0, hlt, ?_, hr⟩
    intro cst hc
    simpa [hc] using hv

theorem toNat_emod_of_range (x : Int) (B : Nat) (h0 : 0 ≤ x) (h1 : x < (B : Int)) :
    (x % (B : Int)).toNat = x.toNat := by
  rw [Int.emod_eq_of_lt h0 h1]

private theorem extract (hi o bl xn P : Nat) (hx : xn < 2 ^ bl) (hP : P < 2 ^ o) :
    ((hi * 2 ^ (o + bl) + (xn * 2 ^ o + P)) >>> o) % 2 ^ bl = xn := by
  have e : hi * 2 ^ (o + bl) + (xn * 2 ^ o + P) = 2 ^ o * (hi * 2 ^ bl + xn) + P := by
    rw [Nat.pow_add]; grind
  rw [e, Nat.shiftRight_eq_div_pow, Nat.mul_add_div (Nat.pow_pos (by decide)), Nat.div_eq_of_lt hP,
    Nat.add_zero, Nat.mul_add_mod_self_right, Nat.mod_eq_of_lt hx]

private theorem regroup (hi o bl xn P : Nat) :
    hi * 2 ^ (o + bl) + (xn * 2 ^ o + P) = (hi * 2 ^ bl + xn) * 2 ^ o + P := by
  rw [Nat.pow_add]; grind

private theorem pack_bound (o bl xn P : Nat) (hx : xn < 2 ^ bl) (hP : P < 2 ^ o) :
    xn * 2 ^ o + P < 2 ^ (o + bl) := by
  rw [Nat.pow_add]
  have h1 : xn + 1 ≤ 2 ^ bl := hx
  have h2 : (xn + 1) * 2 ^ o ≤ 2 ^ bl * 2 ^ o := Nat.mul_le_mul_right _ h1
  have h3 : 2 ^ bl * 2 ^ o = 2 ^ o * 2 ^ bl := Nat.mul_comm _ _
  have h4 : (xn + 1) * 2 ^ o = xn * 2 ^ o + 2 ^ o := by grind
  omega

/-- Encoding in-range bit-field values and decoding the packed integer returns them, whatever the
higher-order bits `hi` are; the packed integer fits below `2^off`. -/
theorem bits_roundtrip : ∀ (offs : List (BitF × Nat)) (off : Nat) (pre c post : Vals) (acc : Nat),
    Chain off offs → inRangeBits offs pre c = true →
    bitsEnc offs (pre ++ c ++ post) acc = .ok (acc ||| packVals offs c)
      ∧ packVals offs c < 2 ^ off
      ∧ ∀ hi, bitsDec offs pre (hi * 2 ^ off + packVals offs c) = .ok (pre ++ c)
  | [], off, pre, c, post, acc, _, hr => by
    simp only [inRangeBits, List.isEmpty_iff] at hr
    subst hr
    simp [bitsEnc, packVals, bitsDec, Nat.pow_pos]
  | (f, o) :: rest, off, pre, c, post, acc, hc, hr => by
    obtain ⟨hoff, hch⟩ := hc
    cases hn : f.name with
    | none =>
      have hr' : inRangeBits rest pre c = true := by simpa [inRangeBits, hn] using hr
      obtain ⟨e1, e2, e3⟩ := bits_roundtrip rest o pre c post acc hch hr'
      refine ⟨?_, ?_, ?_⟩
      · simp only [bitsEnc, bitEnc, hn, packVals, Nat.or_zero]; exact e1
      · simp only [packVals, hn]
        exact Nat.lt_of_lt_of_le e2 (Nat.pow_le_pow_right (by decide) (by omega))
      · intro hi
        simp only [bitsDec, hn, packVals]
        have : hi * 2 ^ off = (hi * 2 ^ f.bl) * 2 ^ o := by rw [← hoff, Nat.pow_add]; grind
        rw [this]; exact e3 _
    | some n =>
      obtain ⟨x, c', rfl, hnm, h0, hlt, hv, hr'⟩ := inRangeBits_cons_named hn hr
      have hpc : pre ++ (n, Val.int x) :: c' ++ post = (pre ++ [(n, Val.int x)]) ++ c' ++ post := by simp
      obtain ⟨e1, e2, e3⟩ := bits_roundtrip rest o (pre ++ [(n, .int x)]) c' post
        (acc ||| (x.toNat <<< o)) hch hr'
      have hxn : x.toNat < 2 ^ f.bl := by omega
      have hget : Vals.get (pre ++ (n, Val.int x) :: c' ++ post) n = .ok (.int x) := by
        rw [List.append_assoc, Vals.get_append_of_not_mem _ _ _ hnm]; simp [Vals.get]
      have henc : bitEnc f o (pre ++ (n, Val.int x) :: c' ++ post) = .ok (x.toNat <<< o) := by
        simp only [bitEnc, hn]
        cases hval : f.val with
        | none => simp only [hget]; rw [toNat_emod_of_range x _ h0 hlt]
        | some cst => rw [← hv cst hval]; simp only; rw [toNat_emod_of_range x _ h0 hlt]
      have hor : x.toNat <<< o ||| packVals rest c' = x.toNat * 2 ^ o + packVals rest c' := by
        rw [← Nat.shiftLeft_add_eq_or_of_lt e2, Nat.shiftLeft_eq]
      refine ⟨?_, ?_, ?_⟩
      · simp only [bitsEnc, henc]
        rw [hpc, e1, Nat.or_assoc, hor]
        simp [packVals, hn]
      · simp only [packVals, hn]
        rw [← hoff]; exact pack_bound o f.bl x.toNat _ hxn e2
      · intro hi
        simp only [bitsDec, hn, packVals]
        rw [← hoff, extract hi o f.bl x.toNat _ hxn e2]
        have hxx : ((x.toNat : Nat) : Int) = x := Int.toNat_of_nonneg h0
        rw [hxx, Vals.set_of_not_mem _ _ _ hnm]
        have hcont := e3 (hi * 2 ^ f.bl + x.toNat)
        rw [← regroup] at hcont
        cases hval : f.val with
        | none => simp only; rw [hcont]; simp
        | some cst =>
          have := hv cst hval
          simp only [this, ne_eq, not_true_eq_false, if_false]
          rw [← this, hcont]; simp

/-- the blob of a derived set fits the set's length (`blob.to_bytes(self.len, 'big')` cannot overflow) -/
theorem packVals_fits (l : Nat) (P : Nat) (h : P < 2 ^ (l * 8)) : fitsInt l false (P : Int) = true := by
  simp only [fitsInt, Bool.false_eq_true, if_false, decide_eq_true_eq]
  have : 256 ^ l = 2 ^ (l * 8) := by
    rw [Nat.mul_comm, Nat.pow_mul]
  omega

end OsmoVerif.Codec
