/-
Helper lemmas about the burst generators of `Model/RandBurst.lean` (inversion of the do-blocks).
-/
import OsmoVerif.Model.RandBurst
import OsmoVerif.Spec.WorldRouting

namespace OsmoVerif.RandBurst
open OsmoVerif

theorem randBits_some {n : Nat} {s d r : List Nat} (h : randBits n s = some (d, r)) :
    d = s.take n ∧ r = s.drop n ∧ n ≤ s.length ∧ d.length = n := by
  unfold randBits at h
  split at h
  · cases h
  · rename_i hn
    simp only [Option.some.injEq, Prod.mk.injEq] at h
    refine ⟨h.1.symm, h.2.symm, by omega, ?_⟩
    rw [← h.1, List.length_take]; omega

theorem randBits_ok {n : Nat} {s : List Nat} (h : n ≤ s.length) : randBits n s = some (s.take n, s.drop n) := by
  unfold randBits
  rw [if_neg (by omega)]

theorem one_elem {d : List Nat} (h : d.length = 1) : ∃ x, d = [x] := by
  match d, h with
  | [x], _ => exact ⟨x, rfl⟩

theorem choice_mem {α : Type} {l : List α} {s r : List Nat} {x : α} (h : choice l s = some (x, r)) : x ∈ l := by
  unfold choice at h
  split at h
  · cases h
  · split at h
    · cases h
    · simp only [Option.map_eq_some_iff, Prod.mk.injEq] at h
      obtain ⟨y, hy, rfl, _⟩ := h
      exact List.mem_of_getElem? hy

theorem choice_rest {α : Type} {l : List α} {s r : List Nat} {x : α} (h : choice l s = some (x, r)) :
    ∀ y ∈ r, y ∈ s := by
  cases s with
  | nil => simp [choice] at h
  | cons k s' =>
    simp only [choice] at h
    split at h
    · cases h
    · simp only [Option.map_eq_some_iff, Prod.mk.injEq] at h
      obtain ⟨_, _, _, rfl⟩ := h
      intro y hy; exact List.mem_cons_of_mem _ hy

theorem tscOr_rest {tsc : Option TsEntry} {bt : String} {s r : List Nat} {e : TsEntry}
    (h : tscOr tsc bt s = some (e, r)) : ∀ y ∈ r, y ∈ s := by
  unfold tscOr at h
  split at h
  · simp only [Option.some.injEq, Prod.mk.injEq] at h; intro y hy; rw [← h.2] at hy; exact hy
  · exact choice_rest h

theorem tscOr_cases {tsc : Option TsEntry} {bt : String} {s r : List Nat} {e : TsEntry}
    (h : tscOr tsc bt s = some (e, r)) : tsc = some e ∨ (tsc = none ∧ e ∈ seqsOf bt) := by
  unfold tscOr at h
  split at h
  · simp only [Option.some.injEq, Prod.mk.injEq] at h; exact .inl (by rw [h.1])
  · exact .inr ⟨rfl, choice_mem h⟩

theorem mem_seqsOf {e : TsEntry} {bt : String} (h : e ∈ seqsOf bt) : e ∈ Gen.World.trainSeqs ∧ e.2.2.1 = bt := by
  unfold seqsOf at h
  rw [List.mem_filter] at h
  exact ⟨h.1, by simpa using h.2⟩

theorem gen_nb_inv (tsc : Option TsEntry) (s b rest : List Nat) (h : genNb tsc s = some (b, rest)) :
    ∃ e d1 s1 s2 d2, (tsc = some e ∨ (tsc = none ∧ e ∈ seqsOf "NORMAL")) ∧ d1.length = 57 ∧ d2.length = 57 ∧
      b = Spec.nbLayout d1 s1 e.seq s2 d2 ∧ (∀ x ∈ d1 ++ [s1, s2] ++ d2, x ∈ s) := by
  simp only [genNb, bind, Option.bind] at h
  split at h
  · cases h
  rename_i _ _ r1 h1
  simp only at h
  split at h
  · cases h
  rename_i _ _ r2 h2
  simp only at h
  split at h
  · cases h
  rename_i _ _ r3 h3
  simp only at h
  split at h
  · cases h
  rename_i _ _ r4 h4
  simp only at h
  split at h
  · cases h
  rename_i _ _ r5 h5
  simp only [pure, Option.some.injEq, Prod.mk.injEq] at h
  obtain ⟨d1, q1⟩ := r1; obtain ⟨f1, q2⟩ := r2; obtain ⟨e, q3⟩ := r3; obtain ⟨f2, q4⟩ := r4; obtain ⟨d2, q5⟩ := r5
  obtain ⟨x1, rfl⟩ := one_elem (randBits_some h2).2.2.2
  obtain ⟨x2, rfl⟩ := one_elem (randBits_some h4).2.2.2
  refine ⟨e, d1, x1, x2, d2, tscOr_cases h3, (randBits_some h1).2.2.2, (randBits_some h5).2.2.2, ?_, ?_⟩
  · rw [← h.1]
    simp only [Spec.nbLayout, TsEntry.seq, List.replicate, List.append_assoc]
  · -- every drawn bit comes from the stream
    have e1 := (randBits_some h1); have e2 := (randBits_some h2); have e4 := (randBits_some h4); have e5 := (randBits_some h5)
    have hq3 : ∀ x ∈ q3, x ∈ q2 := tscOr_rest h3
    have m1 : ∀ x ∈ q1, x ∈ s := fun x hx => by rw [e1.2.1] at hx; exact List.mem_of_mem_drop hx
    have m2 : ∀ x ∈ q2, x ∈ s := fun x hx => m1 x (by rw [e2.2.1] at hx; exact List.mem_of_mem_drop hx)
    have m3 : ∀ x ∈ q3, x ∈ s := fun x hx => m2 x (hq3 x hx)
    have m4 : ∀ x ∈ q4, x ∈ s := fun x hx => m3 x (by rw [e4.2.1] at hx; exact List.mem_of_mem_drop hx)
    intro x hx
    simp only [List.mem_append, List.mem_cons, List.not_mem_nil, or_false] at hx
    rcases hx with (hx | hx | hx) | hx
    · rw [e1.1] at hx; exact List.mem_of_mem_take hx
    · have : x ∈ [x1] := by simp [hx]
      rw [e2.1] at this; exact m1 x (List.mem_of_mem_take this)
    · have : x ∈ [x2] := by simp [hx]
      rw [e4.1] at this; exact m3 x (List.mem_of_mem_take this)
    · rw [e5.1] at hx; exact m4 x (List.mem_of_mem_take hx)

theorem gen_sb_inv (tsc : Option TsEntry) (s b rest : List Nat) (h : genSb tsc s = some (b, rest)) :
    ∃ e d1 d2, (tsc = some e ∨ (tsc = none ∧ e ∈ seqsOf "SYNC")) ∧ d1.length = 39 ∧ d2.length = 39 ∧
      b = Spec.sbLayout d1 e.seq d2 ∧ (∀ x ∈ d1 ++ d2, x ∈ s) := by
  simp only [genSb, bind, Option.bind] at h
  split at h
  · cases h
  rename_i _ _ r1 h1
  simp only at h
  split at h
  · cases h
  rename_i _ _ r2 h2
  simp only at h
  split at h
  · cases h
  rename_i _ _ r3 h3
  simp only [pure, Option.some.injEq, Prod.mk.injEq] at h
  obtain ⟨d1, q1⟩ := r1; obtain ⟨e, q2⟩ := r2; obtain ⟨d2, q3⟩ := r3
  refine ⟨e, d1, d2, tscOr_cases h2, (randBits_some h1).2.2.2, (randBits_some h3).2.2.2, ?_, ?_⟩
  · rw [← h.1]
    simp only [Spec.sbLayout, TsEntry.seq, List.replicate, List.append_assoc]
  · have e1 := randBits_some h1; have e3 := randBits_some h3
    have m1 : ∀ x ∈ q1, x ∈ s := fun x hx => by rw [e1.2.1] at hx; exact List.mem_of_mem_drop hx
    have m2 : ∀ x ∈ q2, x ∈ s := fun x hx => m1 x (tscOr_rest h2 x hx)
    intro x hx
    rcases List.mem_append.mp hx with hx | hx
    · rw [e1.1] at hx; exact List.mem_of_mem_take hx
    · rw [e3.1] at hx; exact m2 x (List.mem_of_mem_take hx)

theorem gen_ab_inv (tsc : Option TsEntry) (s b rest : List Nat) (h : genAb tsc s = some (b, rest)) :
    ∃ e d, (tsc = some e ∨ (tsc = none ∧ e ∈ seqsOf "ACCESS")) ∧ d.length = 36 ∧
      b = Spec.abLayout e.seq d ∧ (∀ x ∈ d, x ∈ s) := by
  simp only [genAb, bind, Option.bind] at h
  split at h
  · cases h
  rename_i _ _ r1 h1
  simp only at h
  split at h
  · cases h
  rename_i _ _ r2 h2
  simp only [pure, Option.some.injEq, Prod.mk.injEq] at h
  obtain ⟨e, q1⟩ := r1; obtain ⟨d, q2⟩ := r2
  refine ⟨e, d, tscOr_cases h1, (randBits_some h2).2.2.2, ?_, ?_⟩
  · rw [← h.1]
    simp only [Spec.abLayout, TsEntry.seq, List.append_assoc]
    rfl
  · have e2 := randBits_some h2
    intro x hx
    rw [e2.1] at hx
    exact tscOr_rest h1 x (List.mem_of_mem_take hx)

end OsmoVerif.RandBurst
