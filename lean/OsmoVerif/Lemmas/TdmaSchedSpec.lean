/- Consequences of the abstract scheduler machine (`Spec/TdmaSched.lean`): where one particular
item is, and at which `execute` it runs (C08). -/
import OsmoVerif.Spec.TdmaSched

set_option linter.unusedVariables false

namespace OsmoVerif.Spec.TdmaSched

variable {κ : Type} [DecidableEq κ]

def isExec : Op κ → Bool
  | .execute => true
  | _ => false

def isAdv : Op κ → Bool
  | .advance => true
  | _ => false

def isReset : Op κ → Bool
  | .reset => true
  | _ => false

/-! ### placing items that are not `x` does not change where `x` is -/

theorem count_put (x it : AItem κ) (due : Due κ) (d e : Nat) (h : it ≠ x) :
    (put due d it e).count x = (due e).count x := by
  simp only [put]
  split
  · rename_i he
    rw [he, List.count_append, List.count_singleton]
    have : (it == x) = false := by simpa using h
    simp [this]
  · rfl

theorem count_putFrame (x : AItem κ) (d : Nat) : ∀ (f : List (AItem κ)) (due : Due κ) (e : Nat),
    (∀ it ∈ f, it ≠ x) → ((putFrame due d f).1 e).count x = (due e).count x
  | [], due, e, _ => rfl
  | it :: rest, due, e, h => by
    simp only [putFrame]
    split
    · rfl
    · rw [count_putFrame x d rest _ e (fun y hy => h y (List.mem_cons_of_mem _ hy))]
      exact count_put x it due d e (h it (List.mem_cons_self ..))

theorem count_putFrames (x : AItem κ) : ∀ (fs : List (List (AItem κ))) (due : Due κ) (off e : Nat),
    (∀ it ∈ fs.flatten, it ≠ x) → ((putFrames due off fs).1 e).count x = (due e).count x
  | [], due, off, e, _ => rfl
  | f :: fs, due, off, e, h => by
    have hf : ∀ it ∈ f, it ≠ x := fun y hy => h y (by simp [hy])
    have hfs : ∀ it ∈ fs.flatten, it ≠ x := fun y hy => h y (by
      simp only [List.flatten_cons, List.mem_append]; exact Or.inr hy)
    simp only [putFrames]
    have h1 := count_putFrame x (slot off) f due e hf
    cases hpf : putFrame due (slot off) f with
    | mk due' ok =>
      rw [hpf] at h1
      cases ok
      · exact h1
      · simp only []
        rw [count_putFrames x fs due' (off + 1) e hfs]
        exact h1

/-! ### following one item through a history -/

/-- where the item is (`some d` = due in `d` frames, `none` = nowhere) after one operation, and how
many times the operation runs it -/
def trackStep (pos : Option Nat) (op : Op κ) : Option Nat × Nat :=
  match op with
  | .advance => (pos.map (fun d => (d + 24) % 25), 0)
  | .execute => if pos = some 0 then (none, 1) else (pos, 0)
  | .reset => (if pos = some 0 then pos else none, 0)
  | _ => (pos, 0)

def track (pos : Option Nat) : List (Op κ) → List Nat
  | [] => []
  | op :: ops => (trackStep pos op).2 :: track (trackStep pos op).1 ops

/-- `x` is pending exactly once, in the frame due in `d` (`pos = some d`), or nowhere (`none`) -/
def At (x : AItem κ) (due : Due κ) (pos : Option Nat) : Prop :=
  (∀ d, pos = some d → d < 25) ∧ ∀ e, e < 25 → (due e).count x = if pos = some e then 1 else 0

theorem step_track (x : AItem κ) (due : Due κ) (pos : Option Nat) (op : Op κ)
    (hat : At x due pos) (hx : ∀ it ∈ placed op, it ≠ x) :
    At x (step due op).1 (trackStep pos op).1 ∧ (step due op).2.toRun.count x = (trackStep pos op).2 := by
  obtain ⟨hlt, hc⟩ := hat
  cases op with
  | schedule off it =>
    have hne : it ≠ x := hx it (by simp [placed])
    refine ⟨⟨hlt, ?_⟩, rfl⟩
    intro e he
    simp only [step, schedule, trackStep]
    split
    · exact hc e he
    · rw [count_put x it due _ e hne]; exact hc e he
  | scheduleSet off fs =>
    refine ⟨⟨hlt, ?_⟩, rfl⟩
    intro e he
    simp only [step, scheduleSet, trackStep]
    have := count_putFrames x fs due off e (by simpa [placed] using hx)
    cases hpf : putFrames due off fs with
    | mk due' ok =>
      rw [hpf] at this
      cases ok <;> simp only [] <;> rw [this] <;> exact hc e he
  | advance =>
    refine ⟨⟨?_, ?_⟩, rfl⟩
    · intro d hd
      simp only [trackStep] at hd
      cases pos with
      | none => simp at hd
      | some d0 =>
        simp only [Option.map_some, Option.some.injEq] at hd
        omega
    · intro e he
      simp only [step, advance, depth, he, if_true, trackStep]
      rw [hc _ (Nat.mod_lt _ (by decide))]
      cases pos with
      | none => simp
      | some d0 =>
        have := hlt d0 rfl
        simp only [Option.map_some, Option.some.injEq]
        have : (d0 = (e + 1) % 25) ↔ ((d0 + 24) % 25 = e) := by omega
        simp only [this]
  | execute =>
    by_cases h0 : pos = some 0
    · refine ⟨⟨by simp [trackStep, h0], ?_⟩, ?_⟩
      · intro e he
        simp only [step, execute, trackStep, h0, if_true]
        split
        · simp
        · rename_i hne
          rw [hc e he, h0]
          have : ¬ (some 0 = some e) := by simp only [Option.some.injEq]; omega
          simp [this]
      · simp only [step, execute, trackStep, h0, if_true]
        rw [hc 0 (by decide), h0]; simp
    · refine ⟨⟨by simpa [trackStep, h0] using hlt, ?_⟩, ?_⟩
      · intro e he
        simp only [step, execute, trackStep, h0, if_false]
        split
        · rename_i he0
          subst he0
          simp [h0]
        · exact hc e he
      · simp only [step, execute, trackStep, h0, if_false]
        rw [hc 0 (by decide)]; simp [h0]
  | reset =>
    by_cases h0 : pos = some 0
    · refine ⟨⟨by simpa [trackStep, h0] using hlt, ?_⟩, rfl⟩
      intro e he
      simp only [step, reset, trackStep, h0, if_true]
      split
      · rename_i he0; subst he0; rw [hc 0 (by decide), h0]
      · rename_i hne
        have : ¬ (some 0 = some e) := by simp only [Option.some.injEq]; omega
        simp [this]
    · refine ⟨⟨by simp [trackStep, h0], ?_⟩, rfl⟩
      intro e he
      simp only [step, reset, trackStep, h0, if_false]
      split
      · rename_i he0; subst he0; rw [hc 0 (by decide)]; simp [h0]
      · simp

/-- the number of times each operation of a history runs `x` -/
theorem run_track (x : AItem κ) : ∀ (ops : List (Op κ)) (due : Due κ) (pos : Option Nat),
    At x due pos → (∀ op ∈ ops, ∀ it ∈ placed op, it ≠ x) →
    (run due ops).2.map (fun o => o.toRun.count x) = track pos ops
  | [], _, _, _, _ => rfl
  | op :: ops, due, pos, hat, hx => by
    obtain ⟨h1, h2⟩ := step_track x due pos op hat (hx op (List.mem_cons_self ..))
    simp only [run, List.map_cons, track, h2]
    rw [run_track x ops _ _ h1 (fun o ho => hx o (List.mem_cons_of_mem _ ho))]

/-! ### closed forms -/

/-- number of `advance` operations among the first `i` -/
def advBefore (ops : List (Op κ)) (i : Nat) : Nat := (ops.take i).countP isAdv

theorem advBefore_zero (ops : List (Op κ)) : advBefore ops 0 = 0 := by simp [advBefore]

theorem advBefore_cons (op : Op κ) (ops : List (Op κ)) (i : Nat) :
    advBefore (op :: ops) (i + 1) = advBefore ops i + (if isAdv op then 1 else 0) := by
  simp only [advBefore, List.take_succ_cons, List.countP_cons]

theorem track_none : ∀ (ops : List (Op κ)) (i : Nat), (track none ops).getD i 0 = 0
  | [], i => by simp [track]
  | op :: ops, i => by
    have h1 : (trackStep none op).1 = none := by cases op <;> simp [trackStep]
    have h2 : (trackStep none op).2 = 0 := by cases op <;> simp [trackStep]
    cases i with
    | zero => simp [track, h2]
    | succ i => simp only [track, h1, List.getD_cons_succ]; exact track_none ops i

theorem track_length : ∀ (pos : Option Nat) (ops : List (Op κ)), (track pos ops).length = ops.length
  | _, [] => rfl
  | pos, op :: ops => by simp [track, track_length _ ops]

/-- operation `i` is an `execute` of the frame in which an item due in `d` frames is due
(ring form: the number of advances so far is `d` modulo the depth) -/
def hit (d : Nat) (ops : List (Op κ)) (i : Nat) : Prop :=
  (ops[i]?).map isExec = some true ∧ advBefore ops i % 25 = d

instance (d : Nat) (ops : List (Op κ)) (i : Nat) : Decidable (hit d ops i) := by
  unfold hit; infer_instance

theorem ite_iff {p q : Prop} [Decidable p] [Decidable q] (h : p ↔ q) :
    (if p then 1 else 0 : Nat) = if q then 1 else 0 := by
  by_cases hq : q
  · simp [hq, h.mpr hq]
  · have hp : ¬ p := fun hp => hq (h.mp hp)
    simp [hq, hp]

/-- ring statement: without `reset`, an item due in `d` frames runs exactly once — at the first
`execute` that happens when the number of advances is `d` modulo 25 — and at no other operation -/
theorem track_ring : ∀ (ops : List (Op κ)) (d i : Nat), d < 25 → (∀ op ∈ ops, isReset op = false) →
    i < ops.length →
    (track (some d) ops).getD i 0 = if hit d ops i ∧ ∀ j, j < i → ¬ hit d ops j then 1 else 0
  | [], _, _, _, _, hi => by simp at hi
  | op :: ops, d, i, hd, hr, hi => by
    have hr' : ∀ o ∈ ops, isReset o = false := fun o ho => hr o (List.mem_cons_of_mem _ ho)
    have hrop := hr op (List.mem_cons_self ..)
    -- how `hit` moves under a cons
    have hit_succ : ∀ d' j, hit d' (op :: ops) (j + 1) ↔
        ((ops[j]?).map isExec = some true ∧ (advBefore ops j + (if isAdv op then 1 else 0)) % 25 = d') := by
      intro d' j
      simp only [hit, List.getElem?_cons_succ, advBefore_cons]
    have hit_zero : ∀ d', hit d' (op :: ops) 0 ↔ (isExec op = true ∧ d' = 0) := by
      intro d'
      simp only [hit, List.getElem?_cons_zero, Option.map_some, Option.some.injEq, advBefore_zero]
      constructor
      · intro ⟨a, b⟩; exact ⟨a, by omega⟩
      · intro ⟨a, b⟩; exact ⟨a, by omega⟩
    cases i with
    | zero =>
      simp only [track, List.getD_cons_zero]
      have : (∀ j, j < 0 → ¬ hit d (op :: ops) j) := fun j hj => by omega
      simp only [this, and_true, hit_zero]
      cases op with
      | execute => by_cases hd0 : d = 0 <;> simp [trackStep, isExec, hd0]
      | reset => simp [isReset] at hrop
      | advance => simp [trackStep, isExec]
      | schedule off it => simp [trackStep, isExec]
      | scheduleSet off fs => simp [trackStep, isExec]
    | succ i =>
      have hi' : i < ops.length := by simpa using hi
      simp only [track, List.getD_cons_succ]
      -- split "no earlier hit" into position 0 and the rest
      have hall : (∀ j, j < i + 1 → ¬ hit d (op :: ops) j) ↔
          (¬ hit d (op :: ops) 0 ∧ ∀ j, j < i → ¬ hit d (op :: ops) (j + 1)) := by
        constructor
        · intro h; exact ⟨h 0 (by omega), fun j hj => h (j + 1) (by omega)⟩
        · intro ⟨h0, hs⟩ j hj
          cases j with
          | zero => exact h0
          | succ j => exact hs j (by omega)
      simp only [hall]
      cases op with
      | reset => simp [isReset] at hrop
      | advance =>
        have e1 : (trackStep (some d) (Op.advance : Op κ)).1 = some ((d + 24) % 25) := rfl
        rw [e1, track_ring ops ((d + 24) % 25) i (Nat.mod_lt _ (by decide)) hr' hi']
        have hm : ∀ a : Nat, ((a + 1) % 25 = d) ↔ (a % 25 = (d + 24) % 25) := by intro a; omega
        have h0 : ¬ hit d (Op.advance :: ops) 0 := by rw [hit_zero]; simp [isExec]
        apply ite_iff
        simp only [hit_succ, isAdv, if_true, hm, h0, not_false_eq_true, true_and]
        simp only [hit]
      | execute =>
        by_cases hd0 : d = 0
        · subst hd0
          have e1 : (trackStep (some 0) (Op.execute : Op κ)).1 = none := rfl
          rw [e1, track_none]
          have h0 : hit 0 (Op.execute :: ops) 0 := by rw [hit_zero]; simp [isExec]
          simp [h0]
        · have e1 : (trackStep (some d) (Op.execute : Op κ)).1 = some d := by
            simp only [trackStep, Option.some.injEq, hd0, if_false]
          rw [e1, track_ring ops d i hd hr' hi']
          have h0 : ¬ hit d (Op.execute :: ops) 0 := by rw [hit_zero]; simp [hd0]
          apply ite_iff
          simp only [hit_succ, isAdv, Bool.false_eq_true, if_false, Nat.add_zero, h0, not_false_eq_true,
            true_and]
          simp only [hit]
      | schedule off it =>
        have e1 : (trackStep (some d) (Op.schedule off it : Op κ)).1 = some d := rfl
        rw [e1, track_ring ops d i hd hr' hi']
        have h0 : ¬ hit d (Op.schedule off it :: ops) 0 := by rw [hit_zero]; simp [isExec]
        apply ite_iff
        simp only [hit_succ, isAdv, Bool.false_eq_true, if_false, Nat.add_zero, h0, not_false_eq_true,
          true_and]
        simp only [hit]
      | scheduleSet off fs =>
        have e1 : (trackStep (some d) (Op.scheduleSet off fs : Op κ)).1 = some d := rfl
        rw [e1, track_ring ops d i hd hr' hi']
        have h0 : ¬ hit d (Op.scheduleSet off fs :: ops) 0 := by rw [hit_zero]; simp [isExec]
        apply ite_iff
        simp only [hit_succ, isAdv, Bool.false_eq_true, if_false, Nat.add_zero, h0, not_false_eq_true,
          true_and]
        simp only [hit]

/-! ### the firmware discipline: `execute`, then `advance`, once per frame -/

/-- `disciplined e ops`: in `ops` every frame is executed exactly once before the scheduler advances
(`e` = the current frame has already been executed); scheduling may happen anywhere -/
def disciplined : Bool → List (Op κ) → Bool
  | _, [] => true
  | e, op :: ops =>
    if isExec op then (!e && disciplined true ops)
    else if isAdv op then (e && disciplined false ops)
    else disciplined e ops

theorem disciplined_exec_after : ∀ (ops : List (Op κ)), disciplined true ops = true →
    ∀ i, (ops[i]?).map isExec = some true → 1 ≤ advBefore ops i
  | [], _, i, h => by simp at h
  | op :: ops, hd, i, h => by
    simp only [disciplined] at hd
    by_cases c1 : isExec op = true
    · simp [c1] at hd
    · cases i with
      | zero => simp [c1] at h
      | succ i =>
        simp only [List.getElem?_cons_succ] at h
        rw [advBefore_cons]
        by_cases c2 : isAdv op = true
        · simp [c2]
        · simp only [c1, c2, Bool.false_eq_true, if_false] at hd
          have := disciplined_exec_after ops hd i h
          omega

/-- discipline statement: an item due in `d < 25` frames runs exactly once, at the `execute` that
happens after exactly `d` advances, and at no other operation.  (`e ∧ d = 0` — scheduling for the
current frame after it has been executed — is excluded: such an item waits a full turn of the ring.) -/
theorem track_disciplined : ∀ (ops : List (Op κ)) (e : Bool) (d i : Nat), d < 25 →
    disciplined e ops = true → (∀ op ∈ ops, isReset op = false) → ¬ (e = true ∧ d = 0) → i < ops.length →
    (track (some d) ops).getD i 0 =
      if (ops[i]?).map isExec = some true ∧ advBefore ops i = d then 1 else 0
  | [], _, _, _, _, _, _, _, hi => by simp at hi
  | op :: ops, e, d, i, hd, hdis, hr, hed, hi => by
    have hr' : ∀ o ∈ ops, isReset o = false := fun o ho => hr o (List.mem_cons_of_mem _ ho)
    have hrop := hr op (List.mem_cons_self ..)
    simp only [disciplined] at hdis
    cases i with
    | zero =>
      simp only [track, List.getD_cons_zero, List.getElem?_cons_zero, Option.map_some, Option.some.injEq,
        advBefore_zero]
      cases op with
      | execute => by_cases hd0 : d = 0 <;> simp [trackStep, isExec, hd0] <;> omega
      | reset => simp [isReset] at hrop
      | advance => simp [trackStep, isExec]
      | schedule off it => simp [trackStep, isExec]
      | scheduleSet off fs => simp [trackStep, isExec]
    | succ i =>
      have hi' : i < ops.length := by simpa using hi
      simp only [track, List.getD_cons_succ, List.getElem?_cons_succ, advBefore_cons]
      cases op with
      | reset => simp [isReset] at hrop
      | execute =>
        simp only [isExec, if_true, Bool.and_eq_true, Bool.not_eq_eq_eq_not, Bool.not_true] at hdis
        obtain ⟨he, hdis'⟩ := hdis
        by_cases hd0 : d = 0
        · subst hd0
          have e1 : (trackStep (some 0) (Op.execute : Op κ)).1 = none := rfl
          rw [e1, track_none]
          have : ¬ ((ops[i]?).map isExec = some true ∧ advBefore ops i + (if isAdv (Op.execute : Op κ) = true then 1 else 0) = 0) := by
            intro ⟨h1, h2⟩
            have := disciplined_exec_after ops hdis' i h1
            simp only [isAdv, Bool.false_eq_true, if_false] at h2
            omega
          simp only [this, if_false]
        · have e1 : (trackStep (some d) (Op.execute : Op κ)).1 = some d := by
            simp only [trackStep, Option.some.injEq, hd0, if_false]
          rw [e1, track_disciplined ops true d i hd hdis' hr' (by simp [hd0]) hi']
          simp only [isAdv, Bool.false_eq_true, if_false, Nat.add_zero]
      | advance =>
        simp only [isExec, isAdv, Bool.false_eq_true, if_false, if_true, Bool.and_eq_true] at hdis
        obtain ⟨he, hdis'⟩ := hdis
        have hd0 : d ≠ 0 := fun h => hed ⟨he, h⟩
        have e1 : (trackStep (some d) (Op.advance : Op κ)).1 = some ((d + 24) % 25) := rfl
        rw [e1, track_disciplined ops false ((d + 24) % 25) i (Nat.mod_lt _ (by decide)) hdis' hr'
          (by simp) hi']
        apply ite_iff
        simp only [isAdv, if_true]
        have : ∀ a : Nat, (a = (d + 24) % 25) ↔ (a + 1 = d) := by intro a; omega
        simp only [this]
      | schedule off it =>
        simp only [isExec, isAdv, Bool.false_eq_true, if_false] at hdis
        have e1 : (trackStep (some d) (Op.schedule off it : Op κ)).1 = some d := rfl
        rw [e1, track_disciplined ops e d i hd hdis hr' hed hi']
        simp only [isAdv, Bool.false_eq_true, if_false, Nat.add_zero]
      | scheduleSet off fs =>
        simp only [isExec, isAdv, Bool.false_eq_true, if_false] at hdis
        have e1 : (trackStep (some d) (Op.scheduleSet off fs : Op κ)).1 = some d := rfl
        rw [e1, track_disciplined ops e d i hd hdis hr' hed hi']
        simp only [isAdv, Bool.false_eq_true, if_false, Nat.add_zero]

/-! ### where the frames of a set go; nothing is overwritten -/

theorem putFrame_ok (d : Nat) : ∀ (f : List (AItem κ)) (due due' : Due κ),
    putFrame due d f = (due', true) → ∀ e, due' e = if e = d then due d ++ f else due e
  | [], due, due', h, e => by
    simp only [putFrame, Prod.mk.injEq, and_true] at h
    subst h; split
    · rename_i he; rw [he]; simp
    · rfl
  | it :: rest, due, due', h, e => by
    simp only [putFrame] at h
    split at h
    · simp at h
    · rw [putFrame_ok d rest _ _ h e]
      simp only [put, if_true]
      split
      · simp
      · rfl

theorem putFrames_ok : ∀ (fs : List (List (AItem κ))) (due due' : Due κ) (off : Nat),
    off + fs.length ≤ 25 → putFrames due off fs = (due', true) →
    (∀ k f, fs[k]? = some f → due' (off + k) = due (off + k) ++ f) ∧
    (∀ e, e < off ∨ off + fs.length ≤ e → due' e = due e)
  | [], due, due', off, _, h => by
    simp only [putFrames, Prod.mk.injEq, and_true] at h
    subst h
    exact ⟨fun k f hk => by simp at hk, fun _ _ => rfl⟩
  | f :: fs, due, due', off, hl, h => by
    simp only [putFrames] at h
    cases hpf : putFrame due (slot off) f with
    | mk due1 ok =>
      rw [hpf] at h
      cases ok with
      | false => simp at h
      | true =>
        simp only [] at h
        have hs : slot off = off := by
          simp only [slot, depth, List.length_cons] at *; omega
        rw [hs] at hpf
        have h1 := putFrame_ok off f due due1 hpf
        obtain ⟨ha, hb⟩ := putFrames_ok fs due1 due' (off + 1) (by simp only [List.length_cons] at hl; omega) h
        constructor
        · intro k f' hk
          cases k with
          | zero =>
            simp only [List.getElem?_cons_zero, Option.some.injEq] at hk
            subst hk
            rw [Nat.add_zero, hb off (Or.inl (by omega)), h1 off]
            simp
          | succ k =>
            simp only [List.getElem?_cons_succ] at hk
            have := ha k f' hk
            have e1 : off + (k + 1) = off + 1 + k := by omega
            rw [e1, this, h1 (off + 1 + k)]
            have : off + 1 + k ≠ off := by omega
            simp [this]
        · intro e he
          simp only [List.length_cons] at he
          rw [hb e (by omega), h1 e]
          have : e ≠ off := by omega
          simp [this]

theorem put_prefix (due : Due κ) (d : Nat) (it : AItem κ) (e : Nat) : due e <+: put due d it e := by
  simp only [put]
  split
  · rename_i he; rw [he]; exact List.prefix_append _ _
  · exact List.prefix_refl _

theorem putFrame_prefix (d : Nat) : ∀ (f : List (AItem κ)) (due : Due κ) (e : Nat),
    due e <+: (putFrame due d f).1 e
  | [], due, e => List.prefix_refl _
  | it :: rest, due, e => by
    simp only [putFrame]
    split
    · exact List.prefix_refl _
    · exact (put_prefix due d it e).trans (putFrame_prefix d rest _ e)

/-- whatever a set does, successful or not: every frame keeps what it held, in place -/
theorem putFrames_prefix : ∀ (fs : List (List (AItem κ))) (due : Due κ) (off e : Nat),
    due e <+: (putFrames due off fs).1 e
  | [], due, off, e => List.prefix_refl _
  | f :: fs, due, off, e => by
    simp only [putFrames]
    have h1 := putFrame_prefix (slot off) f due e
    cases hpf : putFrame due (slot off) f with
    | mk due1 ok =>
      rw [hpf] at h1
      cases ok
      · exact h1
      · exact h1.trans (putFrames_prefix fs due1 (off + 1) e)

end OsmoVerif.Spec.TdmaSched
