/- Lemmas on `int.from_bytes` / `int.to_bytes` of the codec model (C16). -/
import OsmoVerif.Model.Codec
namespace OsmoVerif.Codec

theorem natToLE_length : ∀ n x, (natToLE n x).length = n
  | 0, _ => rfl
  | n + 1, x => by simp [natToLE, natToLE_length n]

theorem natToLE_isBytes : ∀ n x, isBytes (natToLE n x) = true
  | 0, _ => rfl
  | n + 1, x => by
    have := natToLE_isBytes n (x / 256)
    simp only [isBytes, natToLE, List.all_cons, Bool.and_eq_true, decide_eq_true_eq] at this ⊢
    exact ⟨Nat.mod_lt _ (by decide), this⟩

theorem leToNat_natToLE : ∀ n x, leToNat (natToLE n x) = x % 256 ^ n
  | 0, x => by simp [natToLE, leToNat, Nat.mod_one]
  | n + 1, x => by
    simp only [natToLE, leToNat, leToNat_natToLE n]
    rw [Nat.pow_succ, Nat.mul_comm (256 ^ n) 256, Nat.mod_mul]

theorem leToNat_lt : ∀ data, isBytes data = true → leToNat data < 256 ^ data.length
  | [], _ => by simp [leToNat]
  | b :: bs, h => by
    simp only [isBytes, List.all_cons, Bool.and_eq_true, decide_eq_true_eq] at h
    have := leToNat_lt bs (by simpa [isBytes] using h.2)
    simp only [leToNat, List.length_cons, Nat.pow_succ]
    omega

theorem natToLE_leToNat : ∀ data, isBytes data = true → natToLE data.length (leToNat data) = data
  | [], _ => rfl
  | b :: bs, h => by
    simp only [isBytes, List.all_cons, Bool.and_eq_true, decide_eq_true_eq] at h
    have ih := natToLE_leToNat bs (by simpa [isBytes] using h.2)
    simp only [leToNat, List.length_cons, natToLE]
    have e1 : (b + 256 * leToNat bs) % 256 = b := by omega
    have e2 : (b + 256 * leToNat bs) / 256 = leToNat bs := by omega
    rw [e1, e2, ih]

theorem isBytes_reverse (l : List Nat) : isBytes l.reverse = isBytes l := by
  simp [isBytes, List.all_reverse]

theorem isBytes_append (a b : List Nat) : isBytes (a ++ b) = (isBytes a && isBytes b) := by
  simp [isBytes, List.all_append]

theorem isBytes_take (a : List Nat) (n : Nat) (h : isBytes a = true) : isBytes (a.take n) = true := by
  simp only [isBytes, List.all_eq_true, decide_eq_true_eq] at h ⊢
  exact fun x hx => h x (List.mem_of_mem_take hx)

theorem isBytes_drop (a : List Nat) (n : Nat) (h : isBytes a = true) : isBytes (a.drop n) = true := by
  simp only [isBytes, List.all_eq_true, decide_eq_true_eq] at h ⊢
  exact fun x hx => h x (List.mem_of_mem_drop hx)

/-- the unsigned value read by `int.from_bytes` in either byte order -/
def uOf (bo : BO) (data : List Nat) : Nat :=
  match bo with
  | .big => leToNat data.reverse
  | .little => leToNat data

theorem uOf_lt (bo : BO) (data : List Nat) (h : isBytes data = true) : uOf bo data < 256 ^ data.length := by
  cases bo
  · have := leToNat_lt data.reverse (by rw [isBytes_reverse]; exact h)
    simpa [uOf] using this
  · exact leToNat_lt data h

/-- octets of `x mod 256^n` in the given byte order -/
def bytesOf (n : Nat) (bo : BO) (x : Nat) : List Nat :=
  match bo with
  | .big => (natToLE n x).reverse
  | .little => natToLE n x

theorem bytesOf_length (n bo x) : (bytesOf n bo x).length = n := by
  cases bo <;> simp [bytesOf, natToLE_length]

theorem bytesOf_isBytes (n bo x) : isBytes (bytesOf n bo x) = true := by
  cases bo <;> simp [bytesOf, isBytes_reverse, natToLE_isBytes]

theorem uOf_bytesOf (n bo x) : uOf bo (bytesOf n bo x) = x % 256 ^ n := by
  cases bo <;> simp [uOf, bytesOf, leToNat_natToLE]

theorem bytesOf_uOf (bo : BO) (data : List Nat) (h : isBytes data = true) :
    bytesOf data.length bo (uOf bo data) = data := by
  cases bo
  · have := natToLE_leToNat data.reverse (by rw [isBytes_reverse]; exact h)
    simp only [List.length_reverse] at this
    simp [uOf, bytesOf, this]
  · simpa [uOf, bytesOf] using natToLE_leToNat data h

theorem intFromBytes_eq (bo : BO) (sign : Bool) (data : List Nat) :
    intFromBytes bo sign data =
      if sign = true ∧ 2 * uOf bo data ≥ 256 ^ data.length ∧ data.length > 0
      then (uOf bo data : Int) - (256 ^ data.length : Nat) else (uOf bo data : Int) := by
  cases bo <;> rfl

theorem intToBytes_eq (n : Nat) (bo : BO) (sign : Bool) (x : Int) :
    intToBytes n bo sign x =
      if fitsInt n sign x = true
      then .ok (bytesOf n bo (x % ((256 ^ n : Nat) : Int)).toNat) else .error .overflow := by
  cases bo <;> rfl

theorem intToBytes_of_fits (n bo sign x) (h : fitsInt n sign x = true) :
    intToBytes n bo sign x = .ok (bytesOf n bo (x % ((256 ^ n : Nat) : Int)).toNat) := by
  rw [intToBytes_eq, if_pos h]

theorem intToBytes_of_not_fits (n bo sign x) (h : ¬ fitsInt n sign x = true) :
    intToBytes n bo sign x = .error .overflow := by
  rw [intToBytes_eq, if_neg h]

theorem fitsInt_unsigned (n x) : fitsInt n false x = true ↔ (0 ≤ x ∧ x < ((256 ^ n : Nat) : Int)) := by
  simp [fitsInt]

theorem fitsInt_signed (n x) (hn : n ≠ 0) : fitsInt n true x = true ↔
    (-((256 ^ n : Nat) : Int) ≤ 2 * x ∧ 2 * x < ((256 ^ n : Nat) : Int)) := by
  simp [fitsInt, hn]

theorem fitsInt_signed_zero (x) : fitsInt 0 true x = true ↔ (x = 0 ∨ x = -1) := by
  simp [fitsInt]

theorem intToBytes_ok (n bo sign x bs) (h : intToBytes n bo sign x = .ok bs) :
    fitsInt n sign x = true ∧ bs = bytesOf n bo (x % ((256 ^ n : Nat) : Int)).toNat := by
  by_cases hf : fitsInt n sign x = true
  · rw [intToBytes_of_fits _ _ _ _ hf] at h
    exact ⟨hf, by cases h; rfl⟩
  · rw [intToBytes_of_not_fits _ _ _ _ hf] at h
    cases h

private theorem emod_neg_range (x M : Int) (h1 : -M ≤ x) (h2 : x < 0) : x % M = x + M := by
  have hM : 0 < M := by omega
  have : (x + M) % M = x + M := Int.emod_eq_of_lt (by omega) (by omega)
  rw [← this, Int.add_emod_right]

/-- decoding what `to_bytes` produced gives the value back -/
theorem intFromBytes_intToBytes (n bo sign x bs) (h : intToBytes n bo sign x = .ok bs)
    (hn0 : sign = true → n ≠ 0) :
    intFromBytes bo sign bs = x ∧ bs.length = n ∧ isBytes bs = true := by
  obtain ⟨hf, rfl⟩ := intToBytes_ok _ _ _ _ _ h
  refine ⟨?_, bytesOf_length _ _ _, bytesOf_isBytes _ _ _⟩
  rw [intFromBytes_eq, uOf_bytesOf, bytesOf_length]
  have hMpos : (0 : Int) < ((256 ^ n : Nat) : Int) := by
    have : 0 < 256 ^ n := Nat.pow_pos (by decide)
    omega
  have hone : n = 0 → 256 ^ n = 1 := by intro h0; rw [h0]
  generalize hM : 256 ^ n = M at *
  cases sign
  · rw [fitsInt_unsigned, hM] at hf
    simp only [Bool.false_eq_true, false_and, if_false]
    have e : x % (M : Int) = x := Int.emod_eq_of_lt hf.1 hf.2
    rw [e]
    have : (x.toNat : Int) = x := Int.toNat_of_nonneg hf.1
    have h2 : x.toNat % M = x.toNat := Nat.mod_eq_of_lt (by omega)
    rw [h2, this]
  · rw [fitsInt_signed _ _ (hn0 rfl), hM] at hf
    simp only [true_and]
    by_cases hx : 0 ≤ x
    · have e : x % (M : Int) = x := Int.emod_eq_of_lt hx (by omega)
      rw [e]
      have : (x.toNat : Int) = x := Int.toNat_of_nonneg hx
      have h2 : x.toNat % M = x.toNat := Nat.mod_eq_of_lt (by omega)
      rw [h2, if_neg (by omega), this]
    · have e : x % (M : Int) = x + M := emod_neg_range x M (by omega) (by omega)
      rw [e]
      have hnn : 0 ≤ x + (M : Int) := by omega
      have : ((x + (M : Int)).toNat : Int) = x + M := Int.toNat_of_nonneg hnn
      have h2 : (x + (M : Int)).toNat % M = (x + (M : Int)).toNat := Nat.mod_eq_of_lt (by omega)
      have hn : n > 0 := by
        rcases Nat.eq_zero_or_pos n with h0 | h0
        · have := hone h0; omega
        · exact h0
      rw [h2, if_pos ⟨by omega, hn⟩, this]
      omega

/-- re-encoding a decoded octet string reproduces it -/
theorem intToBytes_intFromBytes (bo sign) (data : List Nat) (h : isBytes data = true) :
    intToBytes data.length bo sign (intFromBytes bo sign data) = .ok data := by
  have hlt := uOf_lt bo data h
  have hb := bytesOf_uOf bo data h
  rw [intFromBytes_eq]
  have hone : data.length = 0 → 256 ^ data.length = 1 := by intro h0; rw [h0]
  generalize hM : 256 ^ data.length = M at *
  generalize hu : uOf bo data = u at *
  by_cases hc : sign = true ∧ 2 * u ≥ M ∧ data.length > 0
  · rw [if_pos hc]
    obtain ⟨hs, h2, hl⟩ := hc
    subst hs
    have hf : fitsInt data.length true ((u : Int) - (M : Int)) = true := by
      rw [fitsInt_signed _ _ (by omega), hM]; omega
    rw [intToBytes_of_fits _ _ _ _ hf, hM]
    have e : ((u : Int) - (M : Int)) % (M : Int) = u := by
      rw [emod_neg_range _ _ (by omega) (by omega)]; omega
    rw [e, Int.toNat_natCast, hb]
  · rw [if_neg hc]
    have hf : fitsInt data.length sign (u : Int) = true := by
      cases sign
      · rw [fitsInt_unsigned, hM]; omega
      · simp only [true_and, not_and, Nat.not_lt, Nat.le_zero] at hc
        by_cases hl0 : data.length = 0
        · have := hone hl0
          rw [hl0, fitsInt_signed_zero]; omega
        · rw [fitsInt_signed _ _ hl0, hM]
          by_cases h2 : 2 * u ≥ M
          · have := hc h2; omega
          · omega
    rw [intToBytes_of_fits _ _ _ _ hf, hM]
    have e : (u : Int) % (M : Int) = u := Int.emod_eq_of_lt (by omega) (by omega)
    rw [e, Int.toNat_natCast, hb]

/-- the decoded raw integer is representable in the octets it was read from -/
theorem intFromBytes_fits (bo sign) (data : List Nat) (h : isBytes data = true) :
    fitsInt data.length sign (intFromBytes bo sign data) = true :=
  (intToBytes_ok _ _ _ _ _ (intToBytes_intFromBytes bo sign data h)).1

end OsmoVerif.Codec
