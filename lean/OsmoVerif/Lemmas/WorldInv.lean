/-
C12 helper lemmas: the clock invariant is established by `build` and preserved by `step`.
-/
import OsmoVerif.Lemmas.WorldWiring

namespace OsmoVerif.WorldPower
open OsmoVerif OsmoVerif.World OsmoVerif.PyStr

/-! ### `clck_links` after `power_event_handler` -/

theorem mem_powerLinks {links : List Nat} (hnd : links.Nodup) (i j : Nat) (on : Bool) :
    i ∈ powerLinks links j on ↔ if i = j then on = true else i ∈ links := by
  unfold powerLinks
  by_cases hj : j ∈ links
  · have hc : links.contains j = true := List.contains_iff_mem.mpr hj
    cases on
    · simp only [hc, Bool.false_eq_true, not_false_eq_true, and_self, if_true]
      rw [hnd.mem_erase_iff]
      split
      next h => simp [h]
      next h => simp [h]
    · simp only [hc, not_true_eq_false, false_and, if_false, and_false]
      split
      next h => subst h; simp [hj]
      next h => rfl
  · have hc : links.contains j = false := by
      cases h : links.contains j with
      | false => rfl
      | true => exact absurd (List.contains_iff_mem.mp h) hj
    cases on
    · simp only [hc, Bool.false_eq_true, and_false, if_false, false_and]
      split
      next h => subst h; simp [hj]
      next h => rfl
    · simp only [hc, not_true_eq_false, if_false, Bool.false_eq_true, not_false_eq_true,
        and_self, if_true, List.mem_append, List.mem_singleton]
      split
      next h => simp [h]
      next h => simp [h]

theorem nodup_powerLinks {links : List Nat} (hnd : links.Nodup) (j : Nat) (on : Bool) :
    (powerLinks links j on).Nodup := by
  unfold powerLinks
  split
  · exact hnd.erase _
  · split
    next h =>
      have hj : j ∉ links := fun hm => h.2 (List.contains_iff_mem.mpr hm)
      refine List.nodup_append.mpr ⟨hnd, by simp, ?_⟩
      intro a ha b hb
      simp only [List.mem_singleton] at hb
      subst hb
      exact fun hab => hj (hab ▸ ha)
    · exact hnd

/-! ### the clock invariant -/

theorem wiring_hasClock {t t' : Trx} (h : wiring t = wiring t') : t.hasClock = t'.hasClock :=
  ((wiring_eq_iff t t').mp h).2.2.2.2.1

theorem ClockInv.of_frameC {w w' : World} (f : FrameC w w') (inv : ClockInv w) : ClockInv w' := by
  constructor
  · intro i
    rw [f.hlinks, inv.links_iff]
    constructor
    · rintro ⟨t, ht, h1, h2⟩
      obtain ⟨t', ht', hw, hr⟩ := f.getElem?' i t ht
      exact ⟨t', ht', by rw [← wiring_hasClock hw]; exact h1, by rw [← hr]; exact h2⟩
    · rintro ⟨t', ht', h1, h2⟩
      obtain ⟨t, ht, hw, hr⟩ := f.getElem? i t' ht'
      exact ⟨t, ht, by rw [wiring_hasClock hw]; exact h1, by rw [hr]; exact h2⟩
  · rw [f.hlinks]; exact inv.links_nodup
  · rw [f.hclk, f.hlinks]; exact inv.runs_iff
  · intro h
    rw [f.hclk] at h
    exact f.hsrc (inv.src h)

theorem ClockInv.of_initial {w : World} (h : Initial w) : ClockInv w := by
  constructor
  · intro i
    rw [h.links]
    constructor
    · intro h'; cases h'
    · rintro ⟨t, ht, -, h2⟩
      have := (h.not_running i (lt_of_getElem? ht) t ht).1
      rw [this] at h2; cases h2
  · rw [h.links]; exact List.nodup_nil
  · rw [h.clk, h.links]; simp
  · rw [h.clk]; intro h'; cases h'

/-- only the addressed transceiver is affected when it does not own a clock -/
theorem affects_noclock {w : World} (wf : WF w) {j : Nat} {self : Trx} (hw : w.trxs[j]? = some self)
    (hc : self.hasClock = false) (k : Nat) : affects w j k = true ↔ k = j := by
  have h0 : ¬ self.childIdx = 0 := by
    intro h
    have := (wf.clock_iff j (lt_of_getElem? hw) self hw).mpr h
    rw [hc] at this; cases this
  unfold affects
  rw [hw]
  have : (self.childIdx == 0) = false := by simpa using h0
  simp [this]

/-- an affected transceiver other than the addressed one is a clock-less child -/
theorem affects_child {w : World} (wf : WF w) {j : Nat} {self : Trx} (hw : w.trxs[j]? = some self)
    {k : Nat} (ha : affects w j k = true) (hk : k ≠ j) :
    ∃ tc, w.trxs[k]? = some tc ∧ tc.hasClock = false ∧ 0 < tc.childIdx := by
  unfold affects at ha
  rw [hw] at ha
  simp only [Bool.or_eq_true, beq_iff_eq, hk, false_or, Bool.and_eq_true, List.contains_iff_mem] at ha
  obtain ⟨tc, htc, h1, h2, -⟩ := wf.child_ok j (lt_of_getElem? hw) self hw k ha.2
  exact ⟨tc, htc, h2, h1⟩

theorem ClockInv.power {w : World} (wf : WF w) (inv : ClockInv w) {j : Nat} {self : Trx}
    (hw : w.trxs[j]? = some self) (on : Bool) : ClockInv (powerWorld w j self on) := by
  -- clock ownership/running of the transceivers other than `j` that own a clock is unchanged
  have other : ∀ i : Nat, i ≠ j →
      ((∃ t ∈ (powerWorld w j self on).trxs[i]?, t.hasClock = true ∧ t.running = true) ↔
       (∃ t ∈ w.trxs[i]?, t.hasClock = true ∧ t.running = true)) := by
    intro i hij
    rw [powerWorld_getElem? hw]
    by_cases ha : affects w j i = true
    · obtain ⟨tc, htc, hcl, -⟩ := affects_child wf hw ha hij
      rw [if_pos ha, htc]
      constructor
      · rintro ⟨t, ht, h1, -⟩
        simp only [Option.map_some, Option.mem_def, Option.some.injEq] at ht
        subst ht
        have := wiring_hasClock (powerSet_wiring on tc)
        rw [this, hcl] at h1; cases h1
      · rintro ⟨t, ht, h1, -⟩
        simp only [Option.mem_def, Option.some.injEq] at ht
        subst ht
        rw [hcl] at h1; cases h1
    · rw [if_neg ha]
  have atj : (powerWorld w j self on).trxs[j]? = some (powerSet on self) := by
    rw [powerWorld_getElem? hw]
    have : affects w j j = true := by simp [affects]
    rw [if_pos this, hw]; rfl
  cases hc : self.hasClock with
  | false =>
    obtain ⟨h1, h2, h3⟩ := powerWorld_noclock (w := w) (i := j) on hc
    constructor
    · intro i
      rw [h1, inv.links_iff]
      by_cases hij : i = j
      · subst hij
        rw [atj, hw]
        constructor
        · rintro ⟨t, ht, hh, -⟩
          simp only [Option.mem_def, Option.some.injEq] at ht
          subst ht; rw [hc] at hh; cases hh
        · rintro ⟨t, ht, hh, -⟩
          simp only [Option.mem_def, Option.some.injEq] at ht
          subst ht
          rw [wiring_hasClock (powerSet_wiring on self), hc] at hh; cases hh
      · exact (other i hij).symm
    · rw [h1]; exact inv.links_nodup
    · rw [h1, h2]; exact inv.runs_iff
    · rw [h2, h3]; exact inv.src
  | true =>
    obtain ⟨h1, h2, h3⟩ := powerWorld_clock (w := w) (i := j) on hc
    constructor
    · intro i
      rw [h1, mem_powerLinks inv.links_nodup]
      by_cases hij : i = j
      · subst hij
        rw [if_pos rfl, atj]
        constructor
        · intro hon
          exact ⟨_, rfl, by rw [wiring_hasClock (powerSet_wiring on self)]; exact hc,
            by rw [powerSet_running]; exact hon⟩
        · rintro ⟨t, ht, -, hr⟩
          simp only [Option.mem_def, Option.some.injEq] at ht
          subst ht
          rw [powerSet_running] at hr; exact hr
      · rw [if_neg hij, inv.links_iff]
        exact (other i hij).symm
    · rw [h1]; exact nodup_powerLinks inv.links_nodup _ _
    · rw [h1]; exact h2
    · intro hr
      rw [h3]
      split
      · rfl
      next hn =>
        apply inv.src
        have hne := h2.mp hr
        cases hcr : w.clkRunning with
        | true => rfl
        | false => exact absurd ⟨by rw [hcr]; simp, hne⟩ hn

/-! ### every step -/

/-- the outcome of `step`, by kind of operation -/
theorem step_world_cases (w : World) (op : Op) :
    (powerCmd op = none ∧ FrameC w (step w op).world) ∨
    (∃ j on, powerCmd op = some (j, on) ∧ w.trxs[j]? = none ∧ (step w op).world = w) ∨
    (∃ j t, powerCmd op = some (j, true) ∧ w.trxs[j]? = some t ∧ accepted w j = false ∧
      (step w op).world = w) ∨
    (∃ j t, powerCmd op = some (j, true) ∧ w.trxs[j]? = some t ∧ accepted w j = true ∧
      (step w op).world = powerWorld w j t true) ∨
    (∃ j t, powerCmd op = some (j, false) ∧ w.trxs[j]? = some t ∧
      (step w op).world = powerWorld w j t false) := by
  cases hp : powerCmd op with
  | none => exact .inl ⟨rfl, step_no_power hp⟩
  | some jo =>
    obtain ⟨j, on⟩ := jo
    cases hw : w.trxs[j]? with
    | none =>
      exact .inr (.inl ⟨j, on, rfl, hw, by rw [step_power_missing hp hw]⟩)
    | some t =>
      cases on with
      | true =>
        obtain ⟨sp, d, -, hs⟩ := step_poweron hp hw
        cases ha : accepted w j with
        | false =>
          rw [ha] at hs
          exact .inr (.inr (.inl ⟨j, t, rfl, hw, ha, by rw [hs]; rfl⟩))
        | true =>
          rw [ha] at hs
          exact .inr (.inr (.inr (.inl ⟨j, t, rfl, hw, ha, by rw [hs]; rfl⟩)))
      | false =>
        obtain ⟨sp, d, -, hs⟩ := step_poweroff hp hw
        exact .inr (.inr (.inr (.inr ⟨j, t, rfl, hw, by rw [hs]⟩)))

theorem step_wiring (w : World) (op : Op) :
    (step w op).world.trxs.map wiring = w.trxs.map wiring := by
  rcases step_world_cases w op with ⟨-, f⟩ | ⟨j, on, -, -, h⟩ | ⟨j, t, -, -, -, h⟩ | ⟨j, t, -, -, -, h⟩ |
      ⟨j, t, -, -, h⟩
  · exact f.hwiring
  · rw [h]
  · rw [h]
  · rw [h]; exact powerWorld_wiring _ _ _ _
  · rw [h]; exact powerWorld_wiring _ _ _ _

theorem step_length (w : World) (op : Op) : (step w op).world.trxs.length = w.trxs.length :=
  length_of_map_eq _ (step_wiring w op)

theorem WF.step {w : World} (wf : WF w) (op : Op) : WF (step w op).world :=
  WFT.of_wiring (step_wiring w op) wf

theorem ClockInv.step {w : World} (wf : WF w) (inv : ClockInv w) (op : Op) :
    ClockInv (step w op).world := by
  rcases step_world_cases w op with ⟨-, f⟩ | ⟨j, on, -, -, h⟩ | ⟨j, t, -, -, -, h⟩ | ⟨j, t, -, hw, -, h⟩ |
      ⟨j, t, -, hw, h⟩
  · exact inv.of_frameC f
  · rw [h]; exact inv
  · rw [h]; exact inv
  · rw [h]; exact inv.power wf hw true
  · rw [h]; exact inv.power wf hw false

theorem run_cons_world (w : World) (op : Op) (ops : List Op) :
    (run w (op :: ops)).1 = (run (step w op).world ops).1 := by
  simp only [run]

theorem run_inv {w : World} (wf : WF w) (inv : ClockInv w) (ops : List Op) :
    WF (run w ops).1 ∧ ClockInv (run w ops).1 := by
  induction ops generalizing w with
  | nil => exact ⟨wf, inv⟩
  | cons op ops ih =>
    rw [run_cons_world]
    exact ih (wf.step op) (inv.step wf op)

theorem run_length (w : World) (ops : List Op) : (run w ops).1.trxs.length = w.trxs.length := by
  induction ops generalizing w with
  | nil => rfl
  | cons op ops ih => rw [run_cons_world, ih, step_length]

theorem build_wf {seed : Nat} {extra : List (Nat × Nat × Nat)} {w : World}
    (h : build seed extra = .ok w) : WF w ∧ Initial w := by
  obtain ⟨wfc, hd, h1, h2, h3, -⟩ := build_wfc h
  exact ⟨WFT.of_wfc wfc hd, ⟨fun i _ t ht => wfc.init i t ht, h1, h2, h3⟩⟩

theorem reachable_inv {w : World} (h : Reachable w) : WF w ∧ ClockInv w := by
  obtain ⟨seed, extra, w0, ops, hb, rfl⟩ := h
  obtain ⟨wf, ini⟩ := build_wf hb
  exact run_inv wf (ClockInv.of_initial ini) ops

/-! ### power state after a power command -/

theorem runningOf_powerWorld {w : World} {j : Nat} {t : Trx} (hw : w.trxs[j]? = some t) (on : Bool)
    (k : Nat) : runningOf (powerWorld w j t on) k =
      if affects w j k then (runningOf w k).map (fun _ => on) else runningOf w k := by
  unfold runningOf
  rw [powerWorld_getElem? hw]
  split
  · cases w.trxs[k]? with
    | none => rfl
    | some x => simp only [Option.map_some, powerSet_running]
  · rfl

/-- effect of any operation on the power state of any transceiver -/
theorem runningOf_step (w : World) (op : Op) (k : Nat) :
    runningOf (step w op).world k =
      match powerCmd op with
      | some (j, true) =>
        if accepted w j && affects w j k then (runningOf w k).map (fun _ => true) else runningOf w k
      | some (j, false) =>
        if affects w j k then (runningOf w k).map (fun _ => false) else runningOf w k
      | none => runningOf w k := by
  rcases step_world_cases w op with ⟨hp, f⟩ | ⟨j, on, hp, hw, h⟩ | ⟨j, t, hp, hw, ha, h⟩ |
      ⟨j, t, hp, hw, ha, h⟩ | ⟨j, t, hp, hw, h⟩
  · rw [hp]; exact f.runningOf k
  · rw [hp, h]
    have hacc : accepted w j = false := by simp only [accepted, hw]
    cases on with
    | true => simp only [hacc, Bool.false_and, Bool.false_eq_true, if_false]
    | false =>
      simp only []
      split
      next haf =>
        have : k = j := by simpa [affects, hw] using haf
        subst this
        simp only [runningOf, hw, Option.map_none]
      · rfl
  · rw [hp, h]; simp only [ha, Bool.false_and, Bool.false_eq_true, if_false]
  · rw [hp, h, runningOf_powerWorld hw]; simp only [ha, Bool.true_and]
  · rw [hp, h, runningOf_powerWorld hw]


/-! ### the last-power-command fold follows the model -/

theorem spec_step_inv {w : World} {cur : Nat → Bool}
    (h : ∀ (k : Nat) (t : Trx), w.trxs[k]? = some t → t.running = cur k) (op : Op) :
    ∀ (k : Nat) (t : Trx), (step w op).world.trxs[k]? = some t → t.running = specPowerStep w op cur k := by
  intro k t' ht'
  have hacc : ∀ j, accepted w j = (!cur j && readyOf w j) := by
    intro j
    unfold accepted readyOf
    cases hj : w.trxs[j]? with
    | none => simp
    | some t => simp only [h j t hj]
  have hk : k < w.trxs.length := by rw [← step_length w op]; exact lt_of_getElem? ht'
  obtain ⟨t, ht⟩ : ∃ t, w.trxs[k]? = some t := ⟨w.trxs[k], List.getElem?_eq_getElem hk⟩
  have hps := runningOf_step w op k
  simp only [runningOf, ht', ht, Option.map_some] at hps
  unfold specPowerStep
  cases hp : powerCmd op with
  | none => rw [hp] at hps; simp only [Option.some.injEq] at hps; rw [hps]; exact h k t ht
  | some jo =>
    obtain ⟨j, on⟩ := jo
    rw [hp] at hps
    cases on with
    | true =>
      simp only [] at hps ⊢
      rw [← hacc j]
      split at hps <;> rename_i hc
      · rw [if_pos hc]; simpa using hps
      · rw [if_neg hc]; simp only [Option.some.injEq] at hps; rw [hps]; exact h k t ht
    | false =>
      simp only [] at hps ⊢
      split at hps <;> rename_i hc
      · rw [if_pos hc]; simpa using hps
      · rw [if_neg hc]; simp only [Option.some.injEq] at hps; rw [hps]; exact h k t ht

theorem spec_run_inv (ops : List Op) : ∀ (w : World) (cur : Nat → Bool),
    (∀ (k : Nat) (t : Trx), w.trxs[k]? = some t → t.running = cur k) →
    ∀ (k : Nat) (t : Trx), (run w ops).1.trxs[k]? = some t → t.running = specRunningFrom w cur ops k := by
  induction ops with
  | nil => intro w cur h k t ht; exact h k t ht
  | cons op ops ih =>
    intro w cur h k t ht
    rw [run_cons_world] at ht
    exact ih _ _ (spec_step_inv h op) k t ht


/-! ### clock indications -/

theorem filterMap_links {w : World} (f : Trx → Dgram) (l : List Nat)
    (h : ∀ i ∈ l, ∃ t, w.trxs[i]? = some t ∧ t.hasClock = true ∧ t.running = true) :
    l.filterMap (fun i => (w.trxs[i]?).map f) = (runningClockOwners w l).map f ∧
    (runningClockOwners w l).map some = l.map (fun i => w.trxs[i]?) := by
  induction l with
  | nil => exact ⟨rfl, rfl⟩
  | cons i l ih =>
    obtain ⟨t, ht, h1, h2⟩ := h i List.mem_cons_self
    obtain ⟨ih1, ih2⟩ := ih (fun i hi => h i (List.mem_cons_of_mem _ hi))
    unfold runningClockOwners at ih1 ih2 ⊢
    simp only [List.filterMap_cons, ht, Option.map_some, h1, h2, Bool.and_self, if_true, List.map_cons,
      ih1, ih2, and_self]


end OsmoVerif.WorldPower
