/-
Helper lemmas for the C20 chain theorems (Props/C20Chain.lean): the glue loops of
Model/HopChain.lean, the text bridge between trxcon's `snprintf("%u")` output (Model/TrxconIf) and
the Python `str`/`int()` view of the same octets (Model/PyStr, Model/World), the octets of a
`uint16_t` in network byte order, frequency pairs of the canonical ARFCNs.
-/
import OsmoVerif.Model.HopChain
import OsmoVerif.Lemmas.MobileAlloc
import OsmoVerif.Lemmas.TrxconIf
import OsmoVerif.Lemmas.WorldText
import OsmoVerif.Lemmas.Hopping

namespace OsmoVerif.HopChain
open OsmoVerif OsmoVerif.PyStr

/-! ### decimal texts: `%u` of trxcon = `str(int)` of Python, and `int()` reads it back -/

theorem digitChar_toNat (k : Nat) (h : k < 10) : (Nat.digitChar k).toNat = 48 + k := by
  have : ∀ k : Fin 10, (Nat.digitChar k.val).toNat = 48 + k.val := by decide
  exact this ⟨k, h⟩

theorem natDigits_eq_if (n : Nat) :
    natDigits n = if n < 10 then [48 + n] else natDigits (n / 10) ++ [48 + n % 10] := by
  unfold natDigits
  rw [Nat.toDigits_eq_if (b := 10) (n := n) (by decide)]
  split
  · rename_i h; simp [digitChar_toNat n h]
  · simp [digitChar_toNat (n % 10) (Nat.mod_lt _ (by decide))]

theorem decFuel_eq_natDigits : ∀ (f n : Nat), n < 10 ^ (f + 1) → TrxconIf.decFuel (f + 1) n = natDigits n := by
  intro f
  induction f with
  | zero =>
    intro n h
    rw [natDigits_eq_if]
    simp only [TrxconIf.decFuel]
    rw [if_pos (by omega), if_pos (by omega)]
  | succ f ih =>
    intro n h
    rw [natDigits_eq_if]
    rw [TrxconIf.decFuel]
    split
    · rfl
    · rw [ih (n / 10) (by rw [Nat.pow_succ] at h; omega)]

/-- `snprintf("%u", n)` of an `unsigned int` is the text Python's `str(n)` gives -/
theorem fmtU_eq_natDigits (n : Nat) (h : n < 4294967296) : TrxconIf.fmtU n = natDigits n := by
  have hu : TrxconIf.u32 n = n := by simp only [TrxconIf.u32]; omega
  simp only [TrxconIf.fmtU, hu]
  exact decFuel_eq_natDigits 9 n (by omega)

/-- the ASCII digits are digits of `int()` and no white space of it (regenerated tables) -/
theorem digitVal_ascii (c : Nat) (h1 : 48 ≤ c) (h2 : c ≤ 57) :
    digitVal? c = some (c - 48) ∧ isIntSpace c = false ∧ c ≠ 95 ∧ c ≠ 45 ∧ c ≠ 43 := by
  have key : ∀ k : Fin 10, digitVal? (48 + k.val) = some k.val ∧ isIntSpace (48 + k.val) = false := by
    decide
  have := key ⟨c - 48, by omega⟩
  have e : 48 + (c - 48) = c := by omega
  simp only [e] at this
  exact ⟨this.1, this.2, by omega, by omega, by omega⟩

def decVal (acc : Nat) (ds : Str) : Nat := ds.foldl (fun a c => a * 10 + (c - 48)) acc

theorem digitsVal_go_digits : ∀ (ds : Str) (acc : Nat), (∀ c ∈ ds, 48 ≤ c ∧ c ≤ 57) →
    digitsVal.go acc ds = some (decVal acc ds) := by
  intro ds
  induction ds with
  | nil => intro acc _; rfl
  | cons c rest ih =>
    intro acc h
    have hc := h c List.mem_cons_self
    obtain ⟨hv, _, h95, _, _⟩ := digitVal_ascii c hc.1 hc.2
    rw [digitsVal.go.eq_def]
    simp only [if_neg h95, hv]
    exact ih _ (fun x hx => h x (List.mem_cons_of_mem _ hx))

theorem decVal_natDigits (n : Nat) : decVal 0 (natDigits n) = n := by
  induction n using Nat.strongRecOn with
  | _ n ih =>
    rw [natDigits_eq_if]
    split
    · simp [decVal]
    · rename_i h
      have := ih (n / 10) (by omega)
      simp only [decVal, List.foldl_append, List.foldl_cons, List.foldl_nil] at this ⊢
      rw [this]; omega

/-- `int(str(n)) == n` -/
theorem pyInt_natDigits (n : Nat) : pyInt (natDigits n) = some (n : Int) := by
  obtain ⟨⟨hne, _⟩, hd⟩ := World.natDigits_token n
  obtain ⟨c, rest, hs⟩ := List.exists_cons_of_ne_nil hne
  have hlast : ∃ d, (natDigits n).getLast? = some d := by
    rw [hs]; exact ⟨_, List.getLast?_eq_some_getLast (by simp)⟩
  obtain ⟨d, hl⟩ := hlast
  have hcm : c ∈ natDigits n := by rw [hs]; exact List.mem_cons_self
  have hdm : d ∈ natDigits n := List.mem_of_getLast? hl
  have hc := hd c hcm
  have hdd := hd d hdm
  obtain ⟨hv, hsp, _, h45, h43⟩ := digitVal_ascii c hc.1 hc.2
  have hstrip : stripBy isIntSpace (natDigits n) = natDigits n :=
    World.stripBy_ends _ _ c d (by rw [hs]; rfl) hl hsp (digitVal_ascii d hdd.1 hdd.2).2.1
  unfold pyInt
  rw [hstrip, hs]
  simp only [if_neg h45, if_neg h43]
  have hgo := digitsVal_go_digits rest (c - 48) (fun x hx => hd x (by rw [hs]; exact List.mem_cons_of_mem _ hx))
  have hval : decVal (c - 48) rest = n := by
    have := decVal_natDigits n
    rw [hs] at this
    simpa [decVal] using this
  simp only [digitsVal, hv, hgo, hval]
  rfl

/-! ### the SETFH datagram: trxcon's octets are the text the toolkit parses -/

/-- (Rx, Tx) of an ARFCN in kHz, the numbers `trx_if_cmd_setfh` prints: `gsm_arfcn2freq10 · 100` -/
def khzPair (a : Nat) : Nat × Nat :=
  (TrxconIf.arfcn2freq10 a false * 100, TrxconIf.arfcn2freq10 a true * 100)

/-- (Rx, Tx) of an ARFCN in Hz, the numbers `fake_trx` keeps: kHz · 1000 -/
def hzPair (a : Nat) : Int × Int :=
  (((khzPair a).1 : Int) * 1000, ((khzPair a).2 : Int) * 1000)

theorem arfcn2freq10_lt (a : Nat) (ul : Bool) : TrxconIf.arfcn2freq10 a ul < 65536 := by
  simp only [TrxconIf.arfcn2freq10]
  split
  · decide
  · simp only [TrxconIf.u16i, TrxconIf.u16]
    split <;> omega

theorem joinSpace_flatMap (v : Str) (args : List Str) :
    joinSpace (v :: args) = v ++ args.flatMap (fun a => 32 :: a) := by
  induction args generalizing v with
  | nil => simp [joinSpace]
  | cons a as ih => simp only [joinSpace, ih a, List.flatMap_cons, List.cons_append]

theorem pairToks_freqTexts (ma : List Nat) :
    ma.flatMap TrxconIf.pairToks = World.TrxconCmd.freqTexts (ma.map khzPair) := by
  induction ma with
  | nil => rfl
  | cons a t ih =>
    have h1 := arfcn2freq10_lt a false
    have h2 := arfcn2freq10_lt a true
    simp only [List.flatMap_cons, List.map_cons, khzPair, World.TrxconCmd.freqTexts, TrxconIf.pairToks, ih,
      fmtU_eq_natDigits _ (show TrxconIf.arfcn2freq10 a false * 100 < 4294967296 by omega),
      fmtU_eq_natDigits _ (show TrxconIf.arfcn2freq10 a true * 100 < 4294967296 by omega), List.cons_append,
      List.nil_append]

/-- the octets trxcon passes to `send()` for SETFREQ_H1 are, read as text, `CMD SETFH <hsn> <maio>`
followed by the decimal kHz pairs and the NUL -/
theorem setfh_dgram_eq (hsn maio : Nat) (hh : hsn < 256) (hm : maio < 256) (ma : List Nat) :
    TrxconIf.Emitted.text ⟨1, TrxconIf.str "SETFH",
        TrxconIf.fmtU hsn :: TrxconIf.fmtU maio :: ma.flatMap TrxconIf.pairToks⟩ ++ [0] =
      (World.TrxconCmd.setfh hsn maio (ma.map khzPair)).text := by
  simp only [TrxconIf.Emitted.text, World.TrxconCmd.text, World.TrxconCmd.verb, World.TrxconCmd.args, World.cmdText,
    joinSpace_flatMap, pairToks_freqTexts, fmtU_eq_natDigits hsn (by omega), fmtU_eq_natDigits maio (by omega)]
  simp only [List.append_assoc]
  rfl

/-- the kHz values in the order of the command's arguments -/
def flatInts : List (Nat × Nat) → List Int
  | [] => []
  | (r, t) :: rest => (r : Int) :: (t : Int) :: flatInts rest

theorem intArgs_freqTexts (ps : List (Nat × Nat)) :
    World.IntArgs (World.TrxconCmd.freqTexts ps) (flatInts ps) := by
  induction ps with
  | nil => rfl
  | cons p ps ih =>
    obtain ⟨r, t⟩ := p
    simp only [World.IntArgs, World.TrxconCmd.freqTexts, flatInts, List.map_cons, pyInt_natDigits] at ih ⊢
    rw [ih]

theorem pairsHz_flatInts (ps : List (Nat × Nat)) :
    Spec.Trxc.pairsHz (flatInts ps) = ps.map (fun p => ((p.1 : Int) * 1000, (p.2 : Int) * 1000)) := by
  induction ps with
  | nil => rfl
  | cons p ps ih => obtain ⟨r, t⟩ := p; simp only [flatInts, Spec.Trxc.pairsHz, ih, List.map_cons]

/-- **fake_trx on trxcon's SETFH datagram**: one reply with status 0 echoing the arguments, and the
addressed transceiver's `fh` is `HoppingParams(hsn, maio, [(rx·1000, tx·1000) …])` — as many pairs as
the command carries, in the command's order. -/
theorem handleRx_setfh (w : World.World) (i a p : Nat) (t : World.Trx) (ht : w.trxs[i]? = some t)
    (hsn maio : Nat) (hh : hsn < 64) (pairs : List (Nat × Nat)) (hne : pairs ≠ [])
    (hlen : (World.TrxconCmd.setfh hsn maio pairs).text.length ≤ Gen.World.ctrlRecvSize) :
    World.handleRx w i a p (World.TrxconCmd.setfh hsn maio pairs).text =
      { world := World.setTrx w i (fun t => { t with fh := some (Hopping.HoppingParams.mk (hsn : Int) (maio : Int)
          (pairs.map (fun p => ((p.1 : Int) * 1000, (p.2 : Int) * 1000))) (Hopping.powNbinMask pairs.length)) }),
        out := [⟨t.ctrlPort, a, p, World.rspTextOf (lit "SETFH") 0
                  (natDigits hsn :: natDigits maio :: World.TrxconCmd.freqTexts pairs) []⟩] } := by
  obtain ⟨status, results, w', h1, _, h3⟩ := World.handleRx_cmdText a p ht (World.TrxconCmd.setfh hsn maio pairs).verb
    (World.TrxconCmd.setfh hsn maio pairs).args (World.TrxconCmd.setfh hsn maio pairs).tokens hlen
  obtain ⟨⟨r0, t0⟩, ps, rfl⟩ := List.exists_cons_of_ne_nil hne
  have hp := World.parseCmd_setfh_ok (w := w) (i := i) (t := t) (h := natDigits hsn) (m := natDigits maio)
    (c := natDigits r0) (d := natDigits t0) (r := World.TrxconCmd.freqTexts ps) (hsn := (hsn : Int)) (maio := (maio : Int))
    (fvals := flatInts ((r0, t0) :: ps)) ht (pyInt_natDigits hsn) (pyInt_natDigits maio)
    (intArgs_freqTexts ((r0, t0) :: ps)) (by omega)
  rw [pairsHz_flatInts] at hp
  simp only [World.TrxconCmd.verb, World.TrxconCmd.args, World.TrxconCmd.freqTexts] at h3 h1
  rw [hp] at h3
  rcases h3 with h3 | ⟨h3, _⟩
  · simp only [Except.ok.injEq, Prod.mk.injEq] at h3
    obtain ⟨e1, e2, e3⟩ := h3
    rw [World.TrxconCmd.text, World.TrxconCmd.verb, World.TrxconCmd.args, World.TrxconCmd.freqTexts, h1, ← e1, ← e2, ← e3]
    simp only [List.map_cons, List.length_map, List.length_cons]
  · cases h3

/-! ### layer23 / trxcon / firmware glue loops -/

theorem rd_mid (o : Obj) (pre : List Nat) (a : Nat) (post : List Nat) :
    rd o (pre ++ a :: post) pre.length = .ok a := by
  simp [rd]

theorem wr_mid (o : Obj) (pre : List Nat) (a v : Nat) (post : List Nat) :
    wr o (pre ++ a :: post) pre.length v = .ok (pre ++ v :: post) := by
  simp [wr]

/-- the conversion loop over the channels `xs` sitting at `ma[i ..]`: every one converted in place,
in order, nothing else touched -/
theorem bandLoop_ok (pcs : Bool) (freqMap : List Nat) : ∀ (xs pre post : List Nat),
    (∀ a ∈ xs, freqSupported freqMap (arfcn2index (toBand pcs a)) = .ok true) →
    bandLoop pcs freqMap xs.length pre.length (pre ++ xs ++ post) = .ok (0, pre ++ xs.map (toBand pcs) ++ post) := by
  intro xs
  induction xs with
  | nil => intro pre post _; simp [bandLoop]
  | cons a xs ih =>
    intro pre post h
    have ha := h a List.mem_cons_self
    have e1 : pre ++ a :: xs ++ post = pre ++ a :: (xs ++ post) := by simp
    have e2 : pre ++ toBand pcs a :: (xs ++ post) = (pre ++ [toBand pcs a]) ++ xs ++ post := by simp
    have e3 : pre.length + 1 = (pre ++ [toBand pcs a]).length := by simp
    simp only [List.length_cons, bandLoop, e1, rd_mid, wr_mid, ha, bind, Except.bind, pure, Except.pure,
      Bool.not_true, Bool.false_eq_true, if_false]
    rw [e2, e3, ih _ post (fun x hx => h x (List.mem_cons_of_mem _ hx))]
    simp

/-- a channel the frequency map does not list ends the loop with "frequency not implemented" -/
theorem bandLoop_unsupported (pcs : Bool) (freqMap : List Nat) : ∀ (xs pre : List Nat) (b : Nat) (post : List Nat),
    (∀ a ∈ xs, freqSupported freqMap (arfcn2index (toBand pcs a)) = .ok true) →
    freqSupported freqMap (arfcn2index (toBand pcs b)) = .ok false → ∀ k,
    bandLoop pcs freqMap (xs.length + 1 + k) pre.length (pre ++ xs ++ b :: post) =
      .ok (causeFreqNotImpl, pre ++ xs.map (toBand pcs) ++ toBand pcs b :: post) := by
  intro xs
  induction xs with
  | nil =>
    intro pre b post _ hb k
    have e : 0 + 1 + k = k + 1 := by omega
    simp only [List.length_nil, e, List.append_nil, bandLoop, rd_mid, wr_mid, hb, bind, Except.bind, pure, Except.pure,
      Bool.not_false, if_true, List.map_nil]
  | cons a xs ih =>
    intro pre b post h hb k
    have ha := h a List.mem_cons_self
    have e0 : (a :: xs).length + 1 + k = (xs.length + 1 + k) + 1 := by simp; omega
    have e1 : pre ++ a :: xs ++ b :: post = pre ++ a :: (xs ++ b :: post) := by simp
    have e2 : pre ++ toBand pcs a :: (xs ++ b :: post) = (pre ++ [toBand pcs a]) ++ xs ++ b :: post := by simp
    have e3 : pre.length + 1 = (pre ++ [toBand pcs a]).length := by simp
    rw [e0]
    simp only [bandLoop, e1, rd_mid, wr_mid, ha, bind, Except.bind, pure, Except.pure,
      Bool.not_true, Bool.false_eq_true, if_false]
    rw [e2, e3, ih _ b post (fun x hx => h x (List.mem_cons_of_mem _ hx)) hb k]
    simp

/-- the two octets of a `uint16_t` in network byte order -/
def be16 (v : Nat) : List Nat := [u16 v >>> 8, u16 v &&& 255]

theorem htonsLoop_ok : ∀ (xs pre post opre orest : List Nat),
    opre.length = 2 * pre.length → 2 * xs.length ≤ orest.length →
    htonsLoop (pre ++ xs ++ post) xs.length pre.length (opre ++ orest) =
      .ok (opre ++ xs.flatMap be16 ++ orest.drop (2 * xs.length)) := by
  intro xs
  induction xs with
  | nil => intro pre post opre orest _ _; simp [htonsLoop]
  | cons a xs ih =>
    intro pre post opre orest hl hr
    obtain ⟨o1, o2, rest, rfl⟩ : ∃ o1 o2 rest, orest = o1 :: o2 :: rest := by
      match orest, hr with
      | o1 :: o2 :: rest, _ => exact ⟨o1, o2, rest, rfl⟩
      | [_], h => simp at h; omega
      | [], h => simp at h
    have e1 : pre ++ a :: xs ++ post = pre ++ a :: (xs ++ post) := by simp
    have i1 : 2 * pre.length = opre.length := hl.symm
    have i2 : opre.length + 1 = (opre ++ [u16 a >>> 8]).length := by simp
    have e4 : opre ++ (u16 a >>> 8) :: o2 :: rest = (opre ++ [u16 a >>> 8]) ++ o2 :: rest := by simp
    simp only [List.length_cons, htonsLoop, e1, rd_mid, bind, Except.bind]
    rw [i1, wr_mid, i2]
    simp only [e4, wr_mid]
    have e5 : pre ++ a :: (xs ++ post) = (pre ++ [a]) ++ xs ++ post := by simp
    have e6 : pre.length + 1 = (pre ++ [a]).length := by simp
    have e7 : (opre ++ [u16 a >>> 8]) ++ (u16 a &&& 255) :: rest = (opre ++ be16 a) ++ rest := by simp [be16]
    rw [e5, e6, e7, ih (pre ++ [a]) post (opre ++ be16 a) rest (by simp [be16]; omega) (by simp at hr; omega)]
    have e8 : 2 * (xs.length + 1) = 2 * xs.length + 2 := by omega
    simp [List.flatMap_cons, e8]

theorem be16_decode (v : Nat) : ((u16 v >>> 8) <<< 8) ||| (u16 v &&& 255) = u16 v := by
  generalize u16 v = x
  rw [Nat.shiftRight_eq_div_pow, Nat.shiftLeft_eq, TrxconIf.and255, Nat.mul_comm,
    TrxconIf.or_low 8 (x / 2 ^ 8) (x % 256) (Nat.mod_lt _ (by decide))]
  omega

theorem ntohsAt_be16 (o : Obj) (opre : List Nat) (a : Nat) (opost : List Nat) (i : Nat) (h : opre.length = 2 * i) :
    ntohsAt o (opre ++ be16 a ++ opost) i = .ok (u16 a) := by
  have e1 : opre ++ be16 a ++ opost = opre ++ (u16 a >>> 8) :: ((u16 a &&& 255) :: opost) := by simp [be16]
  have e2 : opre ++ (u16 a >>> 8) :: ((u16 a &&& 255) :: opost) = (opre ++ [u16 a >>> 8]) ++ (u16 a &&& 255) :: opost := by simp
  have i2 : opre.length + 1 = (opre ++ [u16 a >>> 8]).length := by simp
  simp only [ntohsAt, bind, Except.bind, pure, Except.pure]
  rw [← h, e1, rd_mid, e2, i2, rd_mid]
  simp only [be16_decode]

/-- `ntohs` of what `htons` stored: the copy loop on the receiving side reads the same values, in
the same order -/
theorem ntohsLoop_ok (dst : Obj) : ∀ (xs opre opost mpre mrest : List Nat),
    opre.length = 2 * mpre.length → xs.length ≤ mrest.length →
    ntohsLoop dst (opre ++ xs.flatMap be16 ++ opost) xs.length mpre.length (mpre ++ mrest) =
      .ok (mpre ++ xs.map u16 ++ mrest.drop xs.length) := by
  intro xs
  induction xs with
  | nil => intro opre opost mpre mrest _ _; simp [ntohsLoop]
  | cons a xs ih =>
    intro opre opost mpre mrest hl hr
    obtain ⟨m1, rest, rfl⟩ : ∃ m1 rest, mrest = m1 :: rest := by
      match mrest, hr with
      | m1 :: rest, _ => exact ⟨m1, rest, rfl⟩
      | [], h => simp at h
    have e1 : opre ++ List.flatMap be16 (a :: xs) ++ opost = opre ++ be16 a ++ (xs.flatMap be16 ++ opost) := by
      simp [List.flatMap_cons]
    simp only [List.length_cons, ntohsLoop, bind, Except.bind]
    rw [e1, ntohsAt_be16 _ opre a _ mpre.length hl]
    simp only [wr_mid]
    have e2 : opre ++ be16 a ++ (xs.flatMap be16 ++ opost) = (opre ++ be16 a) ++ xs.flatMap be16 ++ opost := by simp
    have e3 : mpre ++ u16 a :: rest = (mpre ++ [u16 a]) ++ rest := by simp
    have e4 : mpre.length + 1 = (mpre ++ [u16 a]).length := by simp
    rw [e2, e3, e4, ih (opre ++ be16 a) opost (mpre ++ [u16 a]) rest (by simp [be16]; omega) (by simp at hr; omega)]
    simp

/-! ### the decoder looks at `len` octets only; trxcon's emitter at `ma_len` entries only -/

theorem mbit_append (ma pad : List Nat) (hne : ma ≠ []) (i : Nat) :
    MobileAlloc.mbit (ma ++ pad) ma.length i = MobileAlloc.mbit ma ma.length i := by
  have hl : 0 < ma.length := List.length_pos_iff.mpr hne
  simp only [MobileAlloc.mbit]
  rw [List.getElem?_append_left (by omega)]

/-- octets of the `ma` object behind the `len` octets of the bitmap have no influence -/
theorem decode_trailing (freq ma pad hopping : List Nat) (hoppLen : Nat) (si4 : Bool)
    (hf : freq.length = 1024) (hne : ma ≠ []) (h8 : ma.length ≤ 8) (hh : 64 ≤ hopping.length) :
    MobileAlloc.decode freq (ma ++ pad) ma.length hopping hoppLen si4 =
      MobileAlloc.decode freq ma ma.length hopping hoppLen si4 := by
  rw [MobileAlloc.decode_ok freq (ma ++ pad) ma.length hopping hoppLen si4 hf (by simp) h8 hh,
    MobileAlloc.decode_ok freq ma ma.length hopping hoppLen si4 hf (Nat.le_refl _) h8 hh]
  have : MobileAlloc.pickB (ma ++ pad) ma.length = MobileAlloc.pickB ma ma.length := by
    funext p; simp only [MobileAlloc.pickB, mbit_append ma pad hne]
  simp only [MobileAlloc.selFrom, this]

theorem setfhLoop_prefix : ∀ (ma pad mem : List Nat) (room : Nat),
    TrxconIf.setfhLoop (ma ++ pad) ma.length mem room = TrxconIf.setfhLoop ma ma.length mem room := by
  intro ma
  induction ma with
  | nil => intro pad mem room; cases pad <;> rfl
  | cons a t ih =>
    intro pad mem room
    simp only [List.cons_append, List.length_cons, TrxconIf.setfhLoop]
    split
    · rfl
    · split
      · rfl
      · exact ih pad _ _

/-- `cmdp->ma` points at an array of 64 entries of which `ma_len` are used: the entries behind them
are never read -/
theorem cPhyCmd_setfh_pad (t : TrxconIf.Trx) (hsn maio : Nat) (ma pad : List Nat) (hne : ma ≠ [])
    (hlen : ma.length < 4294967296) :
    TrxconIf.cPhyCmd t (.setfreqH1 hsn maio ma.length (ma ++ pad)) =
      TrxconIf.cPhyCmd t (.setfreqH1 hsn maio ma.length ma) := by
  have he1 : (ma ++ pad).isEmpty = false := by cases ma with | nil => exact absurd rfl hne | cons => rfl
  have he2 : ma.isEmpty = false := by cases ma with | nil => exact absurd rfl hne | cons => rfl
  have hu : TrxconIf.u32 ma.length = ma.length := by simp only [TrxconIf.u32]; omega
  have hb : TrxconIf.setfhMaBuf ma.length (ma ++ pad) = TrxconIf.setfhMaBuf ma.length ma := by
    simp only [TrxconIf.setfhMaBuf, he1, he2, hu, setfhLoop_prefix]
  simp only [TrxconIf.cPhyCmd, hb]

/-! ### channels and frequencies -/

/-- ARFCNs 0..1023 of a cell allocation, after the PCS conversion, for which `gsm_arfcn2freq10` is
defined are the canonical ARFCNs of the GSM bands -/
theorem canon_of_valid (pcs : Bool) (a : Nat) (h : a < 1024) (hv : TrxconIf.ValidArfcn (toBand pcs a)) :
    TrxconIf.CanonArfcn (toBand pcs a) := by
  have key : ∀ (pcs : Bool) (a : Fin 1024), TrxconIf.ValidArfcn (toBand pcs a.val) →
      TrxconIf.CanonArfcn (toBand pcs a.val) := by decide +kernel
  exact key pcs ⟨a, h⟩ hv

theorem toBand_lt (pcs : Bool) (a : Nat) (h : a < 1024) : toBand pcs a < 65536 ∧ u16 (toBand pcs a) = toBand pcs a := by
  have key : ∀ (pcs : Bool) (a : Fin 1024), toBand pcs a.val < 65536 := by decide +kernel
  have := key pcs ⟨a, h⟩
  exact ⟨this, Nat.mod_eq_of_lt this⟩

theorem toBand_inj (pcs : Bool) (a b : Nat) (ha : a < 1024) (hb : b < 1024) (h : toBand pcs a = toBand pcs b) : a = b := by
  have key : ∀ (pcs : Bool) (a : Fin 1024), toBand pcs a.val % 4096 = a.val := by decide +kernel
  have h1 := key pcs ⟨a, ha⟩
  have h2 := key pcs ⟨b, hb⟩
  simp only at h1 h2
  rw [← h1, ← h2, h]

/-- distinct canonical ARFCNs have distinct downlink frequencies (hence distinct (Rx, Tx) pairs) -/
theorem rx_inj (a b : Nat) (ha : TrxconIf.CanonArfcn a) (hb : TrxconIf.CanonArfcn b)
    (h : TrxconIf.arfcn2freq10 a false = TrxconIf.arfcn2freq10 b false) : a = b := by
  rw [← TrxconIf.freq_roundtrip a ha, ← TrxconIf.freq_roundtrip b hb, h]

end OsmoVerif.HopChain
