/-
Spec: what the burst path of the virtual Um interface must do, written from the TEXT of the
properties C02 (routing), C10 (bits and simulated radio metadata) and C18 (burst-loss
simulation) — not from burst_fwd.py / fake_trx.py.  The world state (`World`, `Trx`, `Dgram`)
is the vocabulary of `Model/World.lean`; everything else here is independent of the code model:
numbers are literals taken from the property statements / TS 45.002 (path loss 110 dB, NOPE
levels −110 / 0 / −30, training-sequence positions, soft-bit values ±127).
No Mathlib.
-/
import OsmoVerif.Model.World

namespace OsmoVerif.Spec
open OsmoVerif OsmoVerif.World

/-! ### C02: who must receive -/

/-- receive frequency of transceiver `k` in frame `fn`: the fixed tuning, or the (rx) entry of
its own hopping sequence.  `some none` = running untuned (Python `None`);
outer `none` = no such transceiver / the hopping parameters cannot be resolved. -/
def rxFreqAt (w : World) (k fn : Nat) : Option (Option Int) :=
  match w.trxs[k]? with
  | none => none
  | some t =>
    match t.hop.getRxFreq fn with
    | .ok f => some f
    | .error _ => none

/-- transmit frequency of transceiver `j` in frame `fn` -/
def txFreqAt (w : World) (j fn : Nat) : Option (Option Int) :=
  match w.trxs[j]? with
  | none => none
  | some t =>
    match t.hop.getTxFreq fn with
    | .ok f => some f
    | .error _ => none

/-- every transceiver's frequencies can be resolved in frame `fn` (true whenever the hopping
parameters were built by `HoppingParams.__init__`: C07 `py_resolve_total`) -/
def FreqOk (w : World) (fn : Nat) : Prop :=
  ∀ k, k < w.trxs.length → (rxFreqAt w k fn).isSome ∧ (txFreqAt w k fn).isSome

instance (w : World) (fn : Nat) : Decidable (FreqOk w fn) := by unfold FreqOk; infer_instance

/-- is the transceiver with index `k` powered on? -/
def poweredOn (w : World) (k : Nat) : Bool :=
  match w.trxs[k]? with
  | some t => t.running
  | none => false

/-- `k` must receive a burst that `j` transmits in frame `fn`: another transceiver, powered on,
whose receive frequency in that frame equals the sender's transmit frequency in that frame.
(Frequencies are compared as `Option`: two *untuned* running transceivers compare equal — the
corner N16, outside "tuned" in the property statement.) -/
def isRecipient (w : World) (j fn k : Nat) : Bool :=
  k != j && poweredOn w k &&
    (match rxFreqAt w k fn, txFreqAt w j fn with
     | some rx, some tx => rx == tx
     | _, _ => false)

/-- the transceivers that must receive a copy, in list order -/
def recipients (w : World) (j fn : Nat) : List Nat :=
  (List.range w.trxs.length).filter (isRecipient w j fn)

/-- port plan of a transceiver's DATA socket (transceiver.py docstring): local port
`base + 2·child_idx + 2`, the peer (L1) listens on the same number + 100 at the transceiver's
remote address -/
def toDataPeer (t : Trx) (d : Dgram) : Bool :=
  d.lport == t.basePort + 2 * t.childIdx + 2 &&
  d.rport == t.basePort + 2 * t.childIdx + 2 + 100 &&
  d.raddr == t.addr

/-- number of datagrams of an output that go to `t`'s DATA peer -/
def deliveredTo (t : Trx) (out : List Dgram) : Nat := out.countP (toDataPeer t)

/-- no two transceivers share (remote address, DATA port) (proved for built worlds elsewhere) -/
def DistinctDataPorts (w : World) : Prop :=
  (w.trxs.map (fun t => (t.addr, t.basePort + 2 * t.childIdx + 2))).Nodup

instance (w : World) : Decidable (DistinctDataPorts w) := by unfold DistinctDataPorts; infer_instance

/-- (remote address, DATA port) of a `--trx` definition (address, base port, child index) -/
def defKey (x : Nat × Nat × Nat) : Nat × Nat := (x.1, x.2.1 + 2 * x.2.2 + 2)

/-- side condition on the `--trx` definitions given to `Application.__init__` (BTS and MS
included): no two share an address and a DATA port `base + 2·child_idx + 2`.  E.g. `(a, 5700, 1)`
and `(a, 5702, 0)` do: the duplicate check of `TRXList.add_trx` (address, base port, child index)
accepts them, the second `bind()` fails at start-up (modelled-not-verified) -/
def NoPortOverlap (extra : List (Nat × Nat × Nat)) : Prop :=
  (([(addrBts, btsPort, 0), (addrBb, bbPort, 0)] ++ extra).map defKey).Nodup

instance (extra : List (Nat × Nat × Nat)) : Decidable (NoPortOverlap extra) := by
  unfold NoPortOverlap; infer_instance

/-- every configured `fh` object is the result of `HoppingParams.__init__` (the only way
`enable_fh` creates one) -/
def FhSane (w : World) : Prop :=
  ∀ t ∈ w.trxs, ∀ hp, t.fh = some hp → ∃ hsn maio ma, Hopping.pyInit hsn maio ma = .ok hp

/-! ### C18: suppression -/

/-- burst-loss parameters as `FAKE_DROP` can set them: amount ≥ 0, period ≥ 1 -/
def DropWF (r : Trx) : Prop := 0 ≤ r.dropAmount ∧ 1 ≤ r.dropPeriod

instance (r : Trx) : Decidable (DropWF r) := by unfold DropWF; infer_instance

/-- randomisation thresholds as the FAKE_TOA / FAKE_RSSI / FAKE_CI handlers can set them -/
def ThrNonneg (r : Trx) : Prop := 0 ≤ r.toaThr ∧ 0 ≤ r.rssiThr ∧ 0 ≤ r.ciThr

instance (r : Trx) : Decidable (ThrNonneg r) := by unfold ThrNonneg; infer_instance

/-- the receiver `r` drops a burst of frame `fn`: drops remain and `fn` is a multiple of the period -/
def dropDue (r : Trx) (fn : Int) : Bool :=
  decide (0 < r.dropAmount) && decide (r.dropPeriod ∣ fn)

/-- a burst from `s` to `r` in frame `fn` is suppressed: RF mute on either side, or burst loss -/
def suppressed (s r : Trx) (fn : Int) : Bool :=
  s.rfMuted || r.rfMuted || dropDue r fn

/-- "the first `n` bursts of the stream whose frame number is a multiple of `p`":
burst `i` is suppressed iff `p ∣ fn i` and fewer than `n` earlier bursts were multiples of `p`.
`dropPlan n p fns` lists that decision for every burst of the stream, in order. -/
def dropPlanFrom (n : Nat) (p : Int) (seen : Nat) : List Int → List Bool
  | [] => []
  | fn :: fns =>
    if p ∣ fn then decide (seen < n) :: dropPlanFrom n p (seen + 1) fns
    else false :: dropPlanFrom n p seen fns

def dropPlan (n : Nat) (p : Int) (fns : List Int) : List Bool := dropPlanFrom n p 0 fns

/-- the NOPE indication sent for a suppressed burst on a link of header version `ver` ≥ 1: frame
and timeslot of the burst, no bits, noise-level RSSI −110 dBm, ToA256 0, C/I −30 cB -/
def IsNope (ver : Int) (fn tn : Option Int) (m : Trxd.RxMsg) : Prop :=
  m.ver = ver ∧ m.fn = fn ∧ m.tn = tn ∧ m.nopeInd = true ∧ m.burst = none ∧
  m.rssi = some (-110) ∧ m.toa256 = some 0 ∧ m.ci = some (-30)

/-- octets of that indication (TRXD v1 header with MTS = 0x80, nothing after the header) -/
def nopeOctets (fn tn : Nat) : List Nat :=
  [16 + tn, fn / 16777216 % 256, fn / 65536 % 256, fn / 256 % 256, fn % 256,
   110, 0, 0, 0x80, 0xFF, 0xE2]

/-! ### C10: bits and metadata of a forwarded burst -/

/-- full-confidence soft bit of the matching sign: 0 ↦ +127, 1 ↦ −127 -/
def softOf (b : Nat) : Int := if b = 0 then 127 else -127

/-- simulated radio metadata and content of the message delivered to recipient `r` for a burst
(`bits`, attenuation `pwr`, frame `fn`, timeslot `tn`) transmitted by `s` -/
structure FwdMeta (s r : Trx) (fn tn : Option Int) (pwr : Option Int) (bits : List Nat)
    (m : Trxd.RxMsg) : Prop where
  /-- frame and timeslot number of the sender's message -/
  fn_eq : m.fn = fn
  tn_eq : m.tn = tn
  /-- header version negotiated by the recipient -/
  ver_eq : m.ver = r.hdrVer
  /-- a burst indication carrying one soft bit per transmitted bit -/
  nope_eq : m.nopeInd = false
  bits_eq : m.burst = some (bits.map softOf)
  /-- RSSI = sender nominal power − sender attenuation − burst attenuation − path loss (110 dB),
  or a value inside the FAKE_RSSI window -/
  rssi_ok : ∃ v, m.rssi = some v ∧
    (r.fakeRssi = false → ∃ a, pwr = some a ∧ v = s.txPowerBase - s.txAttBase - a - 110) ∧
    (r.fakeRssi = true → r.rssiBase - r.rssiThr ≤ v ∧ v ≤ r.rssiBase + r.rssiThr)
  /-- ToA256 = configured base (within its threshold) − 256 × sender timing advance -/
  toa_ok : ∃ d, m.toa256 = some (d - 256 * s.ta) ∧
    r.toaBase - r.toaThr ≤ d ∧ d ≤ r.toaBase + r.toaThr
  /-- version 1: C/I inside its configured window -/
  ci_ok : 1 ≤ r.hdrVer → ∃ c, m.ci = some c ∧ r.ciBase - r.ciThr ≤ c ∧ c ≤ r.ciBase + r.ciThr

/-- "the simulated RSSI and ToA256 stay inside their protocol ranges" (and, on version 1, the C/I
window inside ±1280 cB), for a burst of `len` octets with attenuation `pwr` from `s` to `r`:
RSSI −120..−47 dBm, ToA256 a signed 16-bit value, burst length 148 or 444, a known header version -/
def RadioOk (s r : Trx) (pwr : Option Int) (len : Nat) : Prop :=
  (r.hdrVer = 0 ∨ r.hdrVer = 1) ∧ (len = 148 ∨ len = 444) ∧
  (r.fakeRssi = false →
    match pwr with
    | some a => -120 ≤ s.txPowerBase - s.txAttBase - a - 110 ∧ s.txPowerBase - s.txAttBase - a - 110 ≤ -47
    | none => False) ∧
  (r.fakeRssi = true → -120 ≤ r.rssiBase - r.rssiThr ∧ r.rssiBase + r.rssiThr ≤ -47) ∧
  -32768 ≤ r.toaBase - r.toaThr - 256 * s.ta ∧ r.toaBase + r.toaThr - 256 * s.ta ≤ 32767 ∧
  (r.hdrVer = 1 → -1280 ≤ r.ciBase - r.ciThr ∧ r.ciBase + r.ciThr ≤ 1280)

instance (s r : Trx) (pwr : Option Int) (len : Nat) : Decidable (RadioOk s r pwr len) := by
  unfold RadioOk
  cases pwr <;> infer_instance

/-! ### C10: training sequences (TS 45.002 §5.2) -/

/-- position (first bit, length) of the training sequence in a burst of the given type:
normal burst 3 tail + 57 data + 1 stealing flag, then 26 bits; synchronisation burst 3 tail +
39 data, then 64 bits; access burst 8 extended tail bits, then 41 bits -/
def tsPos (bt : String) : Option (Nat × Nat) :=
  if bt = "NORMAL" then some (61, 26)
  else if bt = "SYNC" then some (42, 64)
  else if bt = "ACCESS" then some (8, 41)
  else none

/-- a table entry (name, tsc, burst type, bits, tsc set) is present at its position in `burst` -/
def presentAt (e : String × Nat × String × List Nat × Nat) (burst : List Nat) : Prop :=
  match tsPos e.2.2.1 with
  | some (pos, len) => (burst.drop pos).take len = e.2.2.2.1
  | none => False

instance (e : String × Nat × String × List Nat × Nat) (burst : List Nat) :
    Decidable (presentAt e burst) := by unfold presentAt; split <;> infer_instance

/-- normal burst as `RandBurstGen.gen_nb` builds it -/
def nbLayout (d1 : List Nat) (s1 : Nat) (ts : List Nat) (s2 : Nat) (d2 : List Nat) : List Nat :=
  [0, 0, 0] ++ d1 ++ [s1] ++ ts ++ [s2] ++ d2 ++ [0, 0, 0]

/-- synchronisation burst as `gen_sb` builds it -/
def sbLayout (d1 ts d2 : List Nat) : List Nat :=
  [0, 0, 0] ++ d1 ++ ts ++ d2 ++ [0, 0, 0]

/-- access burst as `gen_ab` builds it (8 tail, TS, 36 data, 3 tail, 60 guard) -/
def abLayout (ts d : List Nat) : List Nat :=
  List.replicate 8 0 ++ ts ++ d ++ [0, 0, 0] ++ List.replicate 60 0

end OsmoVerif.Spec
