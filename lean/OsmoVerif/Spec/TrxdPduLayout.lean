/-
C17 — the documented TRXD PDU structure (written from the protocol description in the osmo-trx /
trx_toolkit documentation, not from trxd_proto.py):

  v0/v1 common header : octet 0 = VER(4) | RES(1) | TN(3), octets 1..4 = FN (big endian)
  Tx (L1 -> TRX)      : octet 5 = PWR, then hard-bits (one octet per bit)
  Rx v0 (TRX -> L1)   : octet 5 = RSSI (sent as -RSSI), octets 6..7 = ToA256 (int16 BE),
                        then 148 or 444 soft-bits, optionally 2 legacy padding octets
  Rx v1               : … octet 8 = MTS = NOPE(1) | MOD(4) | TSC(3), octets 9..10 = C/I (int16 BE),
                        then the burst, absent when NOPE = 1; burst length by modulation
  v2                  : octet 0 = VER(4)|RES(1)|TN(3), octet 1 = BATCH(1)|SHADOW/RES(1)|TRXN(6),
                        octet 2 = MTS, …; batched sub-PDUs repeat octets 0..  with VER reserved
-/
namespace OsmoVerif.Spec.Trxd

/-- burst length in soft or hard bits by the 4-bit modulation code of the MTS octet:
`00xx` GMSK 148, `010x` 8-PSK 444, `0110` GMSK access burst 148, `0111` RFU,
`100x` 16QAM 592, `101x` 32QAM 740, `11xx` AQPSK 296 -/
def burstLen (mod : Int) : Option Nat :=
  if 0 ≤ mod ∧ mod ≤ 3 then some 148
  else if mod = 4 ∨ mod = 5 then some 444
  else if mod = 6 then some 148
  else if mod = 8 ∨ mod = 9 then some 592
  else if mod = 10 ∨ mod = 11 then some 740
  else if 12 ≤ mod ∧ mod ≤ 15 then some 296
  else none

def be32 (x : Nat) : List Nat := [x / 16777216 % 256, x / 65536 % 256, x / 256 % 256, x % 256]

/-- two's complement int16, big endian -/
def be16s (x : Int) : List Nat :=
  let u := (x % 65536).toNat
  [u / 256, u % 256]

/-- first octet of a v0/v1 PDU -/
def hdrOctet (ver tn : Nat) : Nat := ver * 16 + tn

/-- MTS octet -/
def mtsOctet (nope mod tsc : Nat) : Nat := nope * 128 + mod * 8 + tsc

/-- Tx PDU v0/v1 -/
def layoutTx (ver tn fn pwr : Nat) (bits : List Nat) : List Nat :=
  [hdrOctet ver tn] ++ be32 fn ++ [pwr] ++ bits

/-- Rx PDU v0 (`pad` = the optional legacy padding) -/
def layoutRxV0 (tn fn : Nat) (rssi toa256 : Int) (bits pad : List Nat) : List Nat :=
  [hdrOctet 0 tn] ++ be32 fn ++ [(-rssi).toNat] ++ be16s toa256 ++ bits ++ pad

/-- Rx PDU v1 (`bits = []` for a NOPE indication) -/
def layoutRxV1 (tn fn : Nat) (rssi toa256 : Int) (nope mod tsc : Nat) (ci : Int) (bits : List Nat) : List Nat :=
  [hdrOctet 1 tn] ++ be32 fn ++ [(-rssi).toNat] ++ be16s toa256 ++ [mtsOctet nope mod tsc] ++ be16s ci ++ bits

/-! ### version 2 (primary part + batched sub-PDUs) -/

/-- field values of one part of a v2 Rx PDU (the primary part ignores `shadow`, sub-PDUs have no FN) -/
structure RxPart where
  tn : Nat
  batch : Nat
  shadow : Nat
  trxn : Nat
  nope : Nat
  mod : Nat
  tsc : Nat
  rssi : Int
  toa256 : Int
  cir : Int
  bits : List Nat

/-- field values of one part of a v2 Tx PDU -/
structure TxPart where
  tn : Nat
  batch : Nat
  shadow : Nat
  trxn : Nat
  nope : Nat
  mod : Nat
  tsc : Nat
  pwr : Nat
  scpir : Int
  bits : List Nat

/-- field ranges -/
def RxPart.valid (p : RxPart) : Prop :=
  p.tn < 8 ∧ p.batch < 2 ∧ p.shadow < 2 ∧ p.trxn < 64 ∧ p.nope < 2 ∧ p.mod < 16 ∧ p.tsc < 8
  ∧ (-255 ≤ p.rssi ∧ p.rssi ≤ 0) ∧ (-32768 ≤ p.toa256 ∧ p.toa256 ≤ 32767) ∧ (-32768 ≤ p.cir ∧ p.cir ≤ 32767)

def TxPart.valid (p : TxPart) : Prop :=
  p.tn < 8 ∧ p.batch < 2 ∧ p.shadow < 2 ∧ p.trxn < 64 ∧ p.nope < 2 ∧ p.mod < 16 ∧ p.tsc < 8
  ∧ p.pwr < 256 ∧ (-128 ≤ p.scpir ∧ p.scpir ≤ 127)

/-- octets 0..1 of the primary part: VER=2 | RES | TN, BATCH | RES | TRXN -/
def hdr2Primary (tn batch trxn : Nat) : List Nat := [2 * 16 + tn, batch * 128 + trxn]

/-- octets 0..1 of a batched sub-PDU: RES(4) | RES | TN, BATCH | SHADOW | TRXN -/
def hdr2Batched (tn batch shadow trxn : Nat) : List Nat := [tn, batch * 128 + shadow * 64 + trxn]

def i8 (x : Int) : Nat := (x % 256).toNat

def layoutV2RxPrimary (fn : Nat) (p : RxPart) : List Nat :=
  hdr2Primary p.tn p.batch p.trxn ++ [mtsOctet p.nope p.mod p.tsc] ++ [(-p.rssi).toNat] ++ be16s p.toa256 ++ be16s p.cir
    ++ be32 fn ++ (if p.nope = 0 then p.bits else [])

def layoutV2RxBatched (p : RxPart) : List Nat :=
  hdr2Batched p.tn p.batch p.shadow p.trxn ++ [mtsOctet p.nope p.mod p.tsc] ++ [(-p.rssi).toNat] ++ be16s p.toa256
    ++ be16s p.cir ++ (if p.nope = 0 then p.bits else [])

def layoutV2Rx (fn : Nat) (p : RxPart) (subs : List RxPart) : List Nat :=
  layoutV2RxPrimary fn p ++ subs.flatMap layoutV2RxBatched

def layoutV2TxPrimary (fn : Nat) (p : TxPart) : List Nat :=
  hdr2Primary p.tn p.batch p.trxn ++ [mtsOctet p.nope p.mod p.tsc] ++ [p.pwr] ++ [i8 p.scpir] ++ [0, 0, 0]
    ++ be32 fn ++ (if p.nope = 0 then p.bits else [])

def layoutV2TxBatched (p : TxPart) : List Nat :=
  hdr2Batched p.tn p.batch p.shadow p.trxn ++ [mtsOctet p.nope p.mod p.tsc] ++ [p.pwr] ++ [i8 p.scpir] ++ [0, 0, 0]
    ++ (if p.nope = 0 then p.bits else [])

def layoutV2Tx (fn : Nat) (p : TxPart) (subs : List TxPart) : List Nat :=
  layoutV2TxPrimary fn p ++ subs.flatMap layoutV2TxBatched

/-! ### what the hand-written message codec (data_msg.py) puts on the wire for version 1 -/

/-- `Modulation` of the message codec: (coding, burst length) -/
def msgModulations : List (Nat × Nat) := [(0, 148), (4, 444), (6, 148), (8, 592), (10, 740), (12, 296)]

/-- a (coding, TSC set) pair that `RxMsg.validate` accepts: GMSK has 4 TSC sets, every other modulation 2 -/
def msgModValid (coding set : Nat) : Bool :=
  (msgModulations.map (·.1)).contains coding && (if coding = 0 then decide (set < 4) else decide (set < 2))

/-- `RxMsg.gen_mts`: the MTS modulation nibble is `coding | tsc_set` -/
def msgModCode (coding set : Nat) : Nat := coding ||| set

def msgBurstLen (coding : Nat) : Option Nat := (msgModulations.find? (·.1 = coding)).map (·.2)

end OsmoVerif.Spec.Trxd
