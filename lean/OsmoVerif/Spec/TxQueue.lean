/-
Spec: what property C03 ("every queued burst is transmitted exactly once, in its own frame")
demands of a transmit queue, written from the property text and TS 45.002 §4.3.3 (the TDMA frame
number counts modulo the hyperframe 26·51·2048 = 2715648), NOT from transceiver.py.

A transceiver's life is observed as a log of events about bursts identified by an id:
  accepted id msg     the burst was taken from L1 and queued
  emitted  id fn      the burst was put on the air during the clock tick with frame number fn
  stale    id fn      the burst was discarded and reported as stale at the tick with frame number fn
  cleared  id         the burst was discarded by a power-off
The property is the predicate `ExactlyOnce` on (log, ids still queued):
  * ids are not reused,
  * every accepted id is accounted for exactly once: by exactly one outcome event, or by one place in
    the queue (a permutation statement: outcomes ++ queued ~ accepted),
  * an emitted burst was emitted at the tick whose frame number is the burst's own,
  * a burst reported stale at tick fn had its frame "passed" at fn.
"Passed" across the hyperframe wrap is the half-window comparison on the cyclic frame counter:
frame m has passed at clock c iff m ≠ c and (c − m) mod 2715648 < 1357824.

No Mathlib.  Independent of the code models (the message type is a parameter).
-/
namespace OsmoVerif.Spec.TxQueue

/-- TS 45.002 §4.3.3: hyperframe = 26 · 51 · 2048 TDMA frames -/
def hyperframe : Nat := 2715648
/-- half of the cyclic frame number space: the window in which a frame counts as "passed" -/
def halfHyperframe : Nat := 1357824

/-- position of a burst's frame number `m` relative to the clock `c` on the cyclic counter -/
inductive Verdict | due | passed | future
deriving DecidableEq, Repr

/-- `m` is due when it is the clock's frame, passed when the clock is 1 … 1357823 frames ahead of
it (cyclically), future otherwise.  `%` on `Int` with a positive divisor is the floor modulus. -/
def verdict (c : Nat) (m : Int) : Verdict :=
  if m = (c : Int) then .due
  else if ((c : Int) - m) % 2715648 < 1357824 then .passed
  else .future

/-- observable events of one transceiver's transmit queue -/
inductive Event (μ : Type)
  | accepted (id : Nat) (msg : μ)
  | emitted (id : Nat) (tickFn : Nat)
  | stale (id : Nat) (tickFn : Nat)
  | cleared (id : Nat)
deriving DecidableEq, Repr

variable {μ : Type}

/-- id of an `accepted` event -/
def Event.accId? : Event μ → Option Nat
  | .accepted id _ => some id
  | _ => none

/-- id of an outcome event (`emitted`, `stale`, `cleared`) -/
def Event.outId? : Event μ → Option Nat
  | .accepted _ _ => none
  | .emitted id _ => some id
  | .stale id _ => some id
  | .cleared id => some id

/-- ids accepted so far, in order of acceptance -/
def accIds (log : List (Event μ)) : List Nat := log.filterMap Event.accId?
/-- ids that have received an outcome, one entry per outcome event -/
def outIds (log : List (Event μ)) : List Nat := log.filterMap Event.outId?

/-- The property on a log and the list of ids still queued. -/
structure ExactlyOnce (fnOf : μ → Option Int) (log : List (Event μ)) (queued : List Nat) : Prop where
  /-- an id names one burst -/
  ids_distinct : (accIds log).Nodup
  /-- every accepted burst has exactly one outcome or sits in the queue exactly once, never both,
  and nothing else has an outcome or is queued -/
  accounted : (outIds log ++ queued).Perm (accIds log)
  /-- put on the air only during the tick of its own frame -/
  on_time : ∀ id fn, Event.emitted id fn ∈ log → ∃ m, Event.accepted id m ∈ log ∧ fnOf m = some (fn : Int)
  /-- reported stale only when its frame had passed -/
  stale_passed : ∀ id fn, Event.stale id fn ∈ log →
    ∃ m mf, Event.accepted id m ∈ log ∧ fnOf m = some mf ∧ verdict fn mf = .passed

end OsmoVerif.Spec.TxQueue
