/-
What property C06 demands of the serial link, written from the property text (HDLC-like
framing: flag 0x7E, escape 0x7D with bit 5 inverted, UI control octet 0x03), not from the code.

* wire format of one message;
* the abstract link: messages wait in the order they were queued; whenever the line is free the
  next frame is the oldest message of the lowest DLCI that has one waiting; a frame occupies the
  line octet by octet; it is handed to the receiving side when its closing flag has passed;
* the one tolerated loss: a frame whose payload does not fit the receive buffer is dropped and
  may cost the frame that follows it (`desync`).
-/
namespace OsmoVerif.Spec.Sercomm

structure Msg where
  dlci : Nat
  payload : List Nat
deriving DecidableEq, Repr

/-- octets that must not appear between the flags: flag, escape, and zero -/
def special (c : Nat) : Bool := c == 0x7E || c == 0x7D || c == 0x00

/-- an octet as it appears inside a frame -/
def esc1 (c : Nat) : List Nat := if special c then [0x7D, c ^^^ 0x20] else [c]

def esc (xs : List Nat) : List Nat := xs.flatMap esc1

/-- address, control (UI), information -/
def body (m : Msg) : List Nat := m.dlci :: 0x03 :: m.payload

/-- a frame on the wire -/
def frame (m : Msg) : List Nat := 0x7E :: esc (body m) ++ [0x7E]

/-- address values that travel unchanged (finding F10: the others do not arrive) -/
def Transparent (d : Nat) : Prop := d ≠ 0x00 ∧ d ≠ 0x7D ∧ d ≠ 0x7E

instance (d : Nat) : Decidable (Transparent d) := by unfold Transparent; infer_instance

/-! ### priority: lowest DLCI first, first in first out within a DLCI -/

/-- the lowest DLCI that has a message waiting -/
def minDlci : List Msg → Option Nat
  | [] => none
  | m :: ms =>
    match minDlci ms with
    | none => some m.dlci
    | some d => some (min m.dlci d)

/-- take out the oldest message of DLCI `d` -/
def removeFirst (d : Nat) : List Msg → Option (Msg × List Msg)
  | [] => none
  | m :: ms =>
    if m.dlci = d then some (m, ms)
    else match removeFirst d ms with
      | some (x, r) => some (x, m :: r)
      | none => none

/-- the message that goes on the line next, and what keeps waiting -/
def pick (pending : List Msg) : Option (Msg × List Msg) :=
  match minDlci pending with
  | none => none
  | some d => removeFirst d pending

/-! ### the abstract link -/

structure Link where
  /-- waiting messages, oldest first -/
  pending : List Msg
  /-- the frame on the line and its octets still to come (closing flag included) -/
  cur : Option (Msg × List Nat)
  /-- the receiver lost frame alignment on an over-long frame -/
  desync : Bool
  /-- handed to the receiving side, oldest first -/
  delivered : List Msg
  /-- every message whose frame has passed completely (delivered or not), oldest first -/
  completed : List Msg
  /-- every octet that went over the line, oldest first -/
  wire : List Nat
deriving Repr

def Link.init : Link := ⟨[], none, false, [], [], []⟩

def Link.send (s : Link) (m : Msg) : Link := { s with pending := s.pending ++ [m] }

/-- a frame has passed completely; `cap` = payload octets the receive buffer holds.
In alignment: a payload shorter than the buffer is delivered; a payload of exactly the buffer
size is dropped; a longer one is dropped and costs alignment.  Out of alignment: the frame is
lost; alignment is back unless this frame was over-long itself. -/
def Link.complete (cap : Nat) (s : Link) (m : Msg) : Link :=
  if s.desync then
    { s with cur := none, completed := s.completed ++ [m], desync := decide (m.payload.length ≥ cap) }
  else if m.payload.length < cap then
    { s with cur := none, completed := s.completed ++ [m], delivered := s.delivered ++ [m] }
  else
    { s with cur := none, completed := s.completed ++ [m], desync := decide (m.payload.length > cap) }

/-- the line takes one octet (if there is anything to send) -/
def Link.octet (cap : Nat) (s : Link) : Link :=
  match s.cur with
  | none =>
    match pick s.pending with
    | none => s
    | some (m, rest) =>
      { s with pending := rest, cur := some (m, esc (body m) ++ [0x7E]), wire := s.wire ++ [0x7E] }
  | some (_, []) => s
  | some (m, c :: rest) =>
    if rest = [] then Link.complete cap { s with wire := s.wire ++ [c] } m
    else { s with cur := some (m, rest), wire := s.wire ++ [c] }

/-! ### bookkeeping used to state what the link guarantees -/

/-- the frame on the line, as a list -/
def Link.inflight (s : Link) : List Msg :=
  match s.cur with
  | some (m, _) => [m]
  | none => []

/-- every message is somewhere: delivered, on the line, or waiting -/
def Link.all (s : Link) : List Msg := s.delivered ++ s.inflight ++ s.pending

/-- octets the line still has to carry for what is queued now -/
def Link.remaining (s : Link) : Nat :=
  (match s.cur with | some (_, todo) => todo.length | none => 0) +
    (s.pending.map (fun m => (frame m).length)).sum

/-- a frame on the line always has octets to go -/
def Link.curOk (s : Link) : Prop := ∀ m todo, s.cur = some (m, todo) → todo ≠ []

end OsmoVerif.Spec.Sercomm
