/-
C16 — the hypotheses of the codec laws as explicit decidable predicates.

* `WF d`        : well-formedness of a protocol definition (static, about `d` only)
* `InRange d v R` : the value tree `v` is an in-range assignment for `d` when `R` octets follow
                  the message in the buffer (`R = 0` for a message that fills its buffer);
                  `inRangeFields` also computes the DECLARED LENGTH of the message.
Both are Boolean functions (`decide`-able on concrete definitions/values).
-/
import OsmoVerif.Model.Codec
namespace OsmoVerif.Codec

def Vals.keys (v : Vals) : List String := v.map (·.1)

/-! ## Well-formed definitions -/

/-- names a field stores into the envelope's dict when it is present -/
def FDef.storedNames : FDef → List String
  | .int name .. | .buf name .. | .env name .. | .seq name .. => [name]
  | .spare .. => []
  | .bits _ _ _ fs => fs.filterMap (·.name)

/-- number of dict entries a present field stores -/
def FDef.nStored (f : FDef) : Nat := f.storedNames.length

def namesOf (fs : List FDef) : List String := fs.flatMap FDef.storedNames

/-- a fixed bit-field value must be representable in the field (`0 ≤ val < 2^bl`), otherwise the
set can never be decoded -/
def wfBitF (f : BitF) : Bool :=
  match f.val with
  | none => true
  | some c => decide (0 ≤ c ∧ c < ((2 ^ f.bl : Nat) : Int))

/-- the length of a `Spare` must not depend on the buffer (`to_bytes` evaluates `get_len` on `b''`) -/
def wfSpareLen : LenD → Bool
  | .fixed n => n > 0
  | .ofField _ => true
  | .table _ _ => true
  | _ => false

/-- octets a field consumes at least when it decodes successfully (static lower bound) -/
def minLenField : FDef → Nat
  | .int _ .always len .. => len
  | .bits .always len little fs => bitsLen len (bitsOrdered little fs)
  | .buf _ .always (.fixed n) => n
  | .spare _ .always (.fixed n) _ => n
  | .env _ .always (.fixed n) _ _ => n
  | .seq _ .always (.fixed n) _ => n
  | _ => 0

def minLen (fs : List FDef) : Nat := (fs.map minLenField).sum

mutual
/-- well-formed field -/
def wfField : FDef → Bool
  | .int _ _ len _ _ _ mult => decide (len ≥ 1) && decide (mult ≠ 0)
  | .buf .. => true
  | .spare _ _ ld filler => decide (filler.length = 1) && wfSpareLen ld
  | .bits _ len little fs =>
    (match bitsDerive len little fs with | .ok _ => true | .error _ => false) && fs.all wfBitF
  | .env _ _ _ checkLen fs => checkLen && wfFields fs && decide (namesOf fs).Nodup
  | .seq _ _ _ item =>
    wfFields item && decide (namesOf item).Nodup && decide (minLen item ≥ 1)   -- F13: an item consumes ≥ 1 octet
def wfFields : List FDef → Bool
  | [] => true
  | f :: fs => wfField f && wfFields fs
end

/-- `WF d`: every field well-formed, stored names unique per envelope, nested envelopes check their
length, a sequence item consumes at least one octet. -/
def WF (d : EnvDef) : Prop := wfFields d.fs = true ∧ (namesOf d.fs).Nodup

instance (d : EnvDef) : Decidable (WF d) := by unfold WF; infer_instance

/-! ## Length references are to non-negative integer fields -/

/-- names a field stores that can only ever hold a non-negative `int`: bit-fields, and unsigned integers
with `offset ≥ 0` and `mult ≥ 0` -/
def FDef.natNames : FDef → List String
  | .int name _ _ _ signed offset mult => if signed = false ∧ 0 ≤ offset ∧ 0 ≤ mult then [name] else []
  | .bits _ _ _ fs => fs.filterMap (·.name)
  | _ => []

def natNamesOf (fs : List FDef) : List String := fs.flatMap FDef.natNames

/-- the field a length callback reads -/
def LenD.refs : LenD → List String
  | .ofField n => [n]
  | .table n _ => [n]
  | _ => []

mutual
/-- every length callback of the definition reads a field of its own envelope that can only hold a
non-negative int (`S` = such names of the enclosing envelope) -/
def refsOKField (S : List String) : FDef → Bool
  | .int .. => true
  | .bits .. => true
  | .buf _ _ ld => ld.refs.all (S.contains ·)
  | .spare _ _ ld _ => ld.refs.all (S.contains ·)
  | .env _ _ ld _ fs => ld.refs.all (S.contains ·) && refsOKFields (natNamesOf fs) fs
  | .seq _ _ ld item => ld.refs.all (S.contains ·) && refsOKFields (natNamesOf item) item
def refsOKFields (S : List String) : List FDef → Bool
  | [] => true
  | f :: fs => refsOKField S f && refsOKFields S fs
end

/-- `RefsOK d` -/
def RefsOK (d : EnvDef) : Prop := refsOKFields (natNamesOf d.fs) d.fs = true

instance (d : EnvDef) : Decidable (RefsOK d) := by unfold RefsOK; infer_instance

/-! ## In-range values and the declared length -/

/-- `get_len` evaluated on a buffer of `L + rest` octets returns `L` -/
def lenOK (ld : LenD) (pre : Vals) (L rest : Nat) : Bool :=
  match getLen ld pre (L + rest) with
  | .ok n => n == L
  | .error _ => false

/-- the entries a BitFieldSet stores (in processing order): names as declared, `0 ≤ x < 2^bl`,
fixed values respected, no name already used -/
def inRangeBits : List (BitF × Nat) → Vals → Vals → Bool
  | [], _, c => c.isEmpty
  | (f, _) :: rest, pre, c =>
    match f.name with
    | none => inRangeBits rest pre c
    | some n =>
      match c with
      | (k, .int x) :: c' =>
        decide (k = n) && decide (n ∉ pre.keys) && decide (0 ≤ x) && decide (x < ((2 ^ f.bl : Nat) : Int))
          && (match f.val with | none => true | some cst => decide (x = cst))
          && inRangeBits rest (pre ++ [(n, .int x)]) c'
      | _ => false

/-- items of a sequence value: each a dict in range for the item definition with the later items
following it, each at least one octet long; result = total length -/
def inRangeItems (chk : Vals → Nat → Option Nat) : List Val → Option Nat
  | [] => some 0
  | .dict iv :: rest =>
    match inRangeItems chk rest with
    | none => none
    | some lr =>
      match chk iv lr with
      | none => none
      | some l => if l ≥ 1 then some (l + lr) else none
  | _ :: _ => none

mutual
/-- `inRangeField f pre c rest = some L`: `c` is what the (present) field `f` stores, it is in range
given the already decoded `pre` and `rest` octets following the field, and the field occupies `L` octets -/
def inRangeField : FDef → Vals → Vals → Nat → Option Nat
  | .int name _ len _ signed offset mult, pre, c, _ =>
    match c with
    | [(k, .int x)] =>
      if k = name ∧ name ∉ pre.keys
          ∧ Int.fdiv (x - offset) mult * mult + offset = x               -- exactly representable
          ∧ fitsInt len signed (Int.fdiv (x - offset) mult) = true        -- fits the width
      then some len else none
    | _ => none
  | .buf name _ ld, pre, c, rest =>
    match c with
    | [(k, .bytes b)] =>
      if k = name ∧ name ∉ pre.keys ∧ isBytes b = true ∧ lenOK ld pre b.length rest = true
      then some b.length else none
    | _ => none
  | .spare _ _ ld _, pre, c, rest =>
    match c, getLen ld pre 0 with
    | [], .ok l => if lenOK ld pre l rest = true then some l else none
    | _, _ => none
  | .bits _ len little fs, pre, c, _ =>
    match bitsDerive len little fs with
    | .ok (l, offs) => if inRangeBits offs pre c = true then some l else none
    | .error _ => none
  | .env name _ ld _ fs, pre, c, rest =>
    match c with
    | [(k, .dict inner)] =>
      match inRangeFields fs [] inner 0 with
      | some l => if k = name ∧ name ∉ pre.keys ∧ lenOK ld pre l rest = true then some l else none
      | none => none
    | _ => none
  | .seq name _ ld item, pre, c, rest =>
    match c with
    | [(k, .list items)] =>
      match inRangeItems (fun iv r => inRangeFields item [] iv r) items with
      | some l => if k = name ∧ name ∉ pre.keys ∧ lenOK ld pre l rest = true then some l else none
      | none => none
    | _ => none
/-- `inRangeFields fs pre rst R = some L`: the association list `rst` is exactly what the fields `fs`
store (in order) on top of the already decoded `pre`, every value in range, `R` octets following;
`L` is the declared length of the fields. -/
def inRangeFields : List FDef → Vals → Vals → Nat → Option Nat
  | [], _, rst, _ => if rst.isEmpty then some 0 else none
  | f :: fs, pre, rst, R =>
    match getPres f.pres pre with
    | .error _ => none
    | .ok false => inRangeFields fs pre rst R
    | .ok true =>
      match inRangeFields fs (pre ++ rst.take f.nStored) (rst.drop f.nStored) R with
      | none => none
      | some lr =>
        match inRangeField f pre (rst.take f.nStored) (lr + R) with
        | none => none
        | some l => some (l + lr)
end

/-- declared length of `v` under `d` (when `v` is in range with `R` octets following) -/
def declLen (d : EnvDef) (v : Vals) (R : Nat) : Option Nat := inRangeFields d.fs [] v R

/-- `InRange d v R` -/
def InRange (d : EnvDef) (v : Vals) (R : Nat) : Prop := (declLen d v R).isSome = true

instance (d v R) : Decidable (InRange d v R) := by unfold InRange; infer_instance

/-! ## Definitions without spare parts (every octet/bit carries a value) -/

mutual
def noSpareField : FDef → Bool
  | .int .. | .buf .. => true
  | .spare .. => false
  | .bits _ len little fs =>
    fs.all (fun b => b.name.isSome) && decide (bitsTotal (bitsOrdered little fs) = 8 * bitsLen len (bitsOrdered little fs))
  | .env _ _ _ _ fs => noSpareFields fs
  | .seq _ _ _ item => noSpareFields item
def noSpareFields : List FDef → Bool
  | [] => true
  | f :: fs => noSpareField f && noSpareFields fs
end

end OsmoVerif.Codec
