/-
Specification of the hopping sequence generation, written from 3GPP TS 45.002
(GSM 05.02) §6.2.3 "Specification of the hopping sequence generation" — NOT
from the code.  Nothing here is imported from `Gen` or `Model`.

  For a given set of parameters (MA with N channels, 1 ≤ N ≤ 64; MAIO; HSN 0..63;
  FN through T1, T2, T3) the index MAI (0 .. N-1) into the mobile allocation is:

    if HSN = 0 (cyclic hopping):
        MAI = (FN + MAIO) modulo N
    else:
        M   = T2 + RNTABLE((HSN xor T1R) + T3)              (0 .. 152)
        M'  = M modulo 2^NBIN
        T'  = T3 modulo 2^NBIN
        S   = M'                 if M' < N
              (M' + T') modulo N otherwise
        MAI = (S + MAIO) modulo N

  with  T1R = T1 modulo 64,  T1 = FN div (26·51) (mod 2048), T2 = FN mod 26,
  T3 = FN mod 51,  NBIN = INTEGER(log2 N) + 1 (the number of bits needed to
  represent N), and RNTABLE the 114-entry table 6 of the standard.
  The selected radio frequency channel is MA(MAI).
-/
namespace OsmoVerif.Spec.Hopping

/-- TS 45.002 §6.2.3, table of 114 integers (addresses 000 … 113), transcribed
from the standard; an independent third copy (neither the Python nor the C one). -/
def rntable : List Nat := [
   48,  98,  63,   1,  36,  95,  78, 102,  94,  73,
    0,  64,  25,  81,  76,  59, 124,  23, 104, 100,
  101,  47, 118,  85,  18,  56,  96,  86,  54,   2,
   80,  34, 127,  13,   6,  89,  57, 103,  12,  74,
   55, 111,  75,  38, 109,  71, 112,  29,  11,  88,
   87,  19,   3,  68, 110,  26,  33,  31,   8,  45,
   82,  58,  40, 107,  32,   5, 106,  92,  62,  67,
   77, 108, 122,  37,  60,  66, 121,  42,  51, 126,
  117, 114,   4,  90,  43,  52,  53, 113, 120,  72,
   16,  49,   7,  79, 119,  61,  22,  84,   9,  97,
   91,  15,  21,  24,  46,  39,  93, 105,  65,  70,
  125,  99,  17, 123]

/-- `NBIN = INTEGER(log2 N) + 1`: number of bits required to represent `N`. -/
def nbin (n : Nat) : Nat := Nat.log2 n + 1

/-- Reduced frame number components (TS 45.002 §4.3.3 / §6.2.3). -/
def t1 (fn : Nat) : Nat := fn / (26 * 51) % 2048
def t1r (fn : Nat) : Nat := t1 fn % 64
def t2 (fn : Nat) : Nat := fn % 26
def t3 (fn : Nat) : Nat := fn % 51

/-- `S` of the pseudo-random branch, as a function of the values it depends on:
`x = HSN xor T1R`, `T2`, `T3`, `N`.  `none` where the standard does not define
it (table address above 113). -/
def sOf (x t2 t3 n : Nat) : Option Nat :=
  match rntable[x + t3]? with
  | none => none
  | some r =>
    let m  := t2 + r
    let m' := m % 2 ^ nbin n
    let t' := t3 % 2 ^ nbin n
    some (if m' < n then m' else (m' + t') % n)

/-- Mobile allocation index for `(HSN, MAIO, N, FN)`; `none` outside the domain
in which the standard defines it (`N = 0`, or a table address above 113 — which
cannot happen for HSN ≤ 63). -/
def mai (hsn maio n fn : Nat) : Option Nat :=
  if n = 0 then none
  else if hsn = 0 then some ((fn + maio) % n)
  else
    match sOf (hsn ^^^ t1r fn) (t2 fn) (t3 fn) n with
    | none => none
    | some s => some ((s + maio) % n)

/-- "The RF channel is MA(MAI)". -/
def select {α : Type} (ma : List α) (hsn maio fn : Nat) : Option α :=
  match mai hsn maio ma.length fn with
  | none => none
  | some i => ma[i]?

end OsmoVerif.Spec.Hopping
