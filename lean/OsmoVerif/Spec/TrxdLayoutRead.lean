/-
Spec (addition to `Spec/TrxdLayout.lean`, same source: the TRXD protocol description): how a received
datagram is READ per the layout - the inverse direction of `layoutTx` / `layoutRx`.
  octet 0: version = high nibble, TN = low 3 bits (bit 3 is reserved and ignored);
  octets 1..4 FN big endian; L1 -> TRX: octet 5 attenuation, rest hard bits;
  TRX -> L1: octet 5 = -RSSI, octets 6..7 ToA256 (two's complement), version 1: octet 8 MTS,
  octets 9..10 C/I, then soft-bit octets u, read as 127 - u.
No Mathlib; independent of the code models.
-/
import OsmoVerif.Spec.TrxdLayout
namespace OsmoVerif.Spec.TrxdLayout

/-- L1 -> TRX datagram read per the layout: octet 0 = version nibble / (reserved bit) / TN, octets 1..4
FN big endian, octet 5 attenuation, the rest hard bits -/
def readTx : List Nat → Option TxFields
  | o0 :: f0 :: f1 :: f2 :: f3 :: p :: bits => some ⟨o0 / 16, be32val f0 f1 f2 f3, o0 % 8, p, bits⟩
  | _ => none

/-- the parser's reading of a soft-bit octet: `127 - u` for the protocol's 0..254 (255 is read as -127) -/
def softVal (u : Nat) : Int := if u = 255 then -127 else 127 - (u : Int)

/-- TRX -> L1 datagram read per the layout -/
structure RxRead where
  ver : Nat
  fn : Nat
  tn : Nat
  rssi : Int
  toa256 : Int
  mts : Option Nat     -- version 1 only
  ci : Option Int      -- version 1 only
  soft : List Nat      -- soft-bit octets (and, for version 0, possibly two padding octets)

def readRx : List Nat → Option RxRead
  | o0 :: f0 :: f1 :: f2 :: f3 :: r :: t0 :: t1 :: rest =>
    if o0 / 16 = 1 then
      match rest with
      | mts :: c0 :: c1 :: soft =>
        some ⟨1, be32val f0 f1 f2 f3, o0 % 8, -(r : Int), s16val t0 t1, some mts, some (s16val c0 c1), soft⟩
      | _ => none
    else some ⟨o0 / 16, be32val f0 f1 f2 f3, o0 % 8, -(r : Int), s16val t0 t1, none, none, rest⟩
  | _ => none

end OsmoVerif.Spec.TrxdLayout
