/-
What property C13 demands: the TRXD protocol's value ranges, with LITERAL numbers taken from the
property text / protocol description (never from the code or from `Gen`):
  known header version (0, 1); FN 0..2715647; TN 0..7; attenuation 0..255; RSSI -120..-47;
  ToA256 within int16; C/I -1280..1280; TSC 0..7; TSC set 0..3 for GMSK and 0..1 otherwise;
  burst length 148 or 444 for Tx and version-0 Rx, the modulation's length for version-1 Rx;
  a NOPE indication carries no burst.
Modulations are identified by their MTS coding in the TRXD header (bits 6..3 of the MTS octet):
  GMSK 0000 (148), 8-PSK 0100 (444), GMSK access burst 0110 (148), 16QAM 1000 (592),
  32QAM 1010 (740), AQPSK 1100 (296).
Only the record types `TxMsg` / `RxMsg` are taken from the model.
-/
import OsmoVerif.Model.Trxd

namespace OsmoVerif.Spec.TrxdRanges
open OsmoVerif.Trxd

/-- the field is set and lies in `lo..hi` -/
def within (lo hi : Int) : Option Int → Prop
  | some x => lo ≤ x ∧ x ≤ hi
  | none => False

instance (lo hi : Int) (o : Option Int) : Decidable (within lo hi o) := by
  cases o <;> unfold within <;> infer_instance

/-- the burst is present and has one of the two lengths -/
def burstLen148or444 {α : Type} : Option (List α) → Prop
  | some b => b.length = 148 ∨ b.length = 444
  | none => False

instance {α : Type} (b : Option (List α)) : Decidable (burstLen148or444 b) := by
  cases b <;> unfold burstLen148or444 <;> infer_instance

/-- burst length of a modulation, by MTS coding -/
def modLen : Nat → Option Nat
  | 0b0000 => some 148
  | 0b0100 => some 444
  | 0b0110 => some 148
  | 0b1000 => some 592
  | 0b1010 => some 740
  | 0b1100 => some 296
  | _ => none

/-- the burst is present and has the modulation's length -/
def burstLenOfMod {α : Type} (coding : Nat) : Option (List α) → Prop
  | some b => modLen coding = some b.length
  | none => False

instance {α : Type} (c : Nat) (b : Option (List α)) : Decidable (burstLenOfMod c b) := by
  cases b <;> unfold burstLenOfMod <;> infer_instance

def knownVersion (ver : Int) : Prop := ver = 0 ∨ ver = 1

/-- every field of a Tx (L1 -> TRX) message lies in its protocol range -/
def InRangeTx (m : TxMsg) : Prop :=
  knownVersion m.ver ∧ within 0 2715647 m.fn ∧ within 0 7 m.tn ∧ within 0 255 m.pwr ∧
  burstLen148or444 m.burst

instance (m : TxMsg) : Decidable (InRangeTx m) := by unfold InRangeTx knownVersion; infer_instance

/-- MTS fields and burst of a version-1 Rx message that is not a NOPE indication -/
def InRangeMts (m : RxMsg) : Prop :=
  match m.modType with
  | none => False
  | some mod =>
    (if mod.coding = 0b0000 then within 0 3 m.tscSet else within 0 1 m.tscSet) ∧
    within 0 7 m.tsc ∧ burstLenOfMod mod.coding m.burst

instance (m : RxMsg) : Decidable (InRangeMts m) := by
  unfold InRangeMts; cases m.modType <;> simp only <;> infer_instance

/-- every field of an Rx (TRX -> L1) message lies in its protocol range -/
def InRangeRx (m : RxMsg) : Prop :=
  knownVersion m.ver ∧ within 0 2715647 m.fn ∧ within 0 7 m.tn ∧
  within (-120) (-47) m.rssi ∧ within (-32768) 32767 m.toa256 ∧
  (m.ver = 0 → burstLen148or444 m.burst) ∧
  (m.ver = 1 → within (-1280) 1280 m.ci ∧
    (if m.nopeInd then m.burst = none else InRangeMts m))

instance (m : RxMsg) : Decidable (InRangeRx m) := by unfold InRangeRx knownVersion; infer_instance

end OsmoVerif.Spec.TrxdRanges
