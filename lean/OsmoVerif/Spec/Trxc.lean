/-
Spec: the documented semantics of the TRXC (control) commands a fake transceiver understands,
written from the text of property C05 and the protocol comments ("CMD <VERB> [args]" answered by
"RSP <VERB> <status> [args] [results]"), NOT from ctrl_if_trx.py / fake_trx.py:

  POWERON                   refused (−1) while running, refused (−1) unless tuned (Rx and Tx
                            frequency set) or hopping; else 0 and the transceiver is powered on
  POWEROFF                  0, powered off
  RXTUNE <kHz> / TXTUNE <kHz>   0, frequency stored in Hz
  MEASURE <kHz>             0 and one result: a power level drawn from the "transmitter present"
                            range iff a running, non-hopping transceiver transmits on that
                            frequency, else from the noise range;  −1 without a power meter
  SETFH <HSN> <MAIO> <RXF1> <TXF1> [… <RXFN> <TXFN>]   (kHz; at least one pair)
                            0 and hopping configured with the (Rx, Tx) pairs in Hz (a trailing
                            unpaired frequency is ignored) iff 0 ≤ HSN < 64; else −1, no effect
  SETFORMAT <ver>           −1 if ver < 0 or ver > 15; a supported version is applied and echoed
                            as status; otherwise the highest supported lower version is the
                            status and nothing is applied
  SETPOWER <att>            0, Tx attenuation stored
  NOMTXPOWER                0 and one result: the nominal Tx power
  RFMUTE <v>                0, muted iff v > 0
  SETTA <ta>                0, timing advance stored
  FAKE_TOA <base> <thr>     −1 if thr < 0 (no effect); else 0, base and threshold stored
  FAKE_TOA <delta>          0, base += delta
  FAKE_RSSI <base> <thr>    thr < 0: 0, RSSI simulation switched off; else 0, stored and enabled
  FAKE_RSSI <delta>         0, base += delta
  FAKE_CI <base> <thr>      as FAKE_TOA
  FAKE_CI <delta>           0, base += delta
  FAKE_DROP <n>             −1 if n < 0; else 0, drop n bursts, period 1
  FAKE_DROP <n> <period>    −1 if n < 0 or period ≤ 0; else 0, stored
  FAKE_TRXC_DELAY <ms>      −1 if ms < 0 or ms > 60000 (one minute; no effect); else 0, response delay stored
  anything else             0, no effect  ("unknown verbs acknowledged with 0")

All arguments are decimal integers.  No Mathlib; independent of the code models.
-/
namespace OsmoVerif.Spec.Trxc

/-- what a command may consult of the addressed transceiver -/
structure View where
  running : Bool
  rxTuned : Bool
  txTuned : Bool
  hopping : Bool
  hasPowerMeter : Bool
deriving DecidableEq, Repr

/-- "tuned or hopping" -/
def View.ready (v : View) : Bool := (v.rxTuned && v.txTuned) || v.hopping

/-- the documented effect of a command on the addressed transceiver -/
inductive Effect
  | none
  | powerOn
  | powerOff
  | rxFreq (hz : Int)
  | txFreq (hz : Int)
  | hopping (hsn maio : Int) (ma : List (Int × Int))
  | format (ver : Int)
  | txAtt (db : Int)
  | mute (on : Bool)
  | ta (v : Int)
  | toa (base thr : Int)
  | toaAdd (d : Int)
  | rssi (base thr : Int)
  | rssiOff
  | rssiAdd (d : Int)
  | ci (base thr : Int)
  | ciAdd (d : Int)
  | drop (amount period : Int)
  | delay (ms : Int)
  /-- no state change; one result: a power level for `hz` -/
  | measure (hz : Int)
  /-- no state change; one result: the nominal Tx power -/
  | reportNomTxPower
deriving DecidableEq, Repr

structure Outcome where
  status : Int
  effect : Effect := .none
deriving DecidableEq, Repr

/-- TRXD header versions a transceiver supports, and the largest version number the header can carry -/
def supportedVersions : List Int := [0, 1]
def versionMax : Int := 15

/-- the highest supported version not above `v` (−1 if there is none) -/
def highestSupportedUpTo (v : Int) : Int :=
  (supportedVersions.filter (· ≤ v)).foldl max (-1)

/-- (Rx, Tx) pairs in Hz from the kHz list `RXF1 TXF1 … RXFN TXFN` (a trailing single value is ignored) -/
def pairsHz : List Int → List (Int × Int)
  | rx :: tx :: rest => (rx * 1000, tx * 1000) :: pairsHz rest
  | _ => []

/-- power levels (dBm) reported by MEASURE: (lo, hi) with / without a transmitter on the frequency -/
def measureRange (transmitterPresent : Bool) : Int × Int :=
  if transmitterPresent then (-75, -50) else (-120, -105)

def arg1 (f : Int → Outcome) : List Int → Outcome
  | [a] => f a
  | _ => ⟨0, .none⟩

def arg2 (f : Int → Int → Outcome) : List Int → Outcome
  | [a, b] => f a b
  | _ => ⟨0, .none⟩

/-- one row of the command table: verb, number of arguments (`va`: "or more"), semantics -/
structure Row where
  verb : String
  argc : Nat
  va : Bool
  sem : View → List Int → Outcome

def Row.matches (r : Row) (verb : String) (n : Nat) : Bool :=
  verb == r.verb && (if r.va then decide (r.argc ≤ n) else n == r.argc)

/-- the command table -/
def table : List Row := [
  ⟨"POWERON", 0, false, fun v _ =>
    if v.running then ⟨-1, .none⟩ else if !v.ready then ⟨-1, .none⟩ else ⟨0, .powerOn⟩⟩,
  ⟨"POWEROFF", 0, false, fun _ _ => ⟨0, .powerOff⟩⟩,
  ⟨"RXTUNE", 1, false, fun _ => arg1 fun khz => ⟨0, .rxFreq (khz * 1000)⟩⟩,
  ⟨"TXTUNE", 1, false, fun _ => arg1 fun khz => ⟨0, .txFreq (khz * 1000)⟩⟩,
  ⟨"MEASURE", 1, false, fun v => arg1 fun khz =>
    if v.hasPowerMeter then ⟨0, .measure (khz * 1000)⟩ else ⟨-1, .none⟩⟩,
  ⟨"SETFH", 4, true, fun _ args =>
    match args with
    | hsn :: maio :: freqs =>
      if 0 ≤ hsn ∧ hsn < 64 ∧ pairsHz freqs ≠ [] then ⟨0, .hopping hsn maio (pairsHz freqs)⟩
      else ⟨-1, .none⟩
    | _ => ⟨0, .none⟩⟩,
  ⟨"SETFORMAT", 1, false, fun _ => arg1 fun ver =>
    if ver < 0 ∨ ver > versionMax then ⟨-1, .none⟩
    else if supportedVersions.contains ver then ⟨ver, .format ver⟩
    else ⟨highestSupportedUpTo ver, .none⟩⟩,
  ⟨"SETPOWER", 1, false, fun _ => arg1 fun att => ⟨0, .txAtt att⟩⟩,
  ⟨"NOMTXPOWER", 0, false, fun _ _ => ⟨0, .reportNomTxPower⟩⟩,
  ⟨"RFMUTE", 1, false, fun _ => arg1 fun v => ⟨0, .mute (decide (v > 0))⟩⟩,
  ⟨"SETTA", 1, false, fun _ => arg1 fun ta => ⟨0, .ta ta⟩⟩,
  ⟨"FAKE_TOA", 2, false, fun _ => arg2 fun base thr =>
    if thr < 0 then ⟨-1, .none⟩ else ⟨0, .toa base thr⟩⟩,
  ⟨"FAKE_TOA", 1, false, fun _ => arg1 fun d => ⟨0, .toaAdd d⟩⟩,
  ⟨"FAKE_RSSI", 2, false, fun _ => arg2 fun base thr =>
    if thr < 0 then ⟨0, .rssiOff⟩ else ⟨0, .rssi base thr⟩⟩,
  ⟨"FAKE_RSSI", 1, false, fun _ => arg1 fun d => ⟨0, .rssiAdd d⟩⟩,
  ⟨"FAKE_CI", 2, false, fun _ => arg2 fun base thr =>
    if thr < 0 then ⟨-1, .none⟩ else ⟨0, .ci base thr⟩⟩,
  ⟨"FAKE_CI", 1, false, fun _ => arg1 fun d => ⟨0, .ciAdd d⟩⟩,
  ⟨"FAKE_DROP", 1, false, fun _ => arg1 fun n =>
    if n < 0 then ⟨-1, .none⟩ else ⟨0, .drop n 1⟩⟩,
  ⟨"FAKE_DROP", 2, false, fun _ => arg2 fun n period =>
    if n < 0 ∨ period ≤ 0 then ⟨-1, .none⟩ else ⟨0, .drop n period⟩⟩,
  ⟨"FAKE_TRXC_DELAY", 1, false, fun _ => arg1 fun ms =>
    if ms < 0 ∨ ms > 60000 then ⟨-1, .none⟩ else ⟨0, .delay ms⟩⟩
]

/-- (verb, argc, va) of every row -/
def signatures : List (String × Nat × Bool) := table.map fun r => (r.verb, r.argc, r.va)

/-- the rows are mutually exclusive: the order of the table carries no meaning -/
def rowsExclusive : Bool :=
  table.all fun r => table.all fun r' =>
    (r.verb == r'.verb && r.argc == r'.argc) ||
    !(r.verb == r'.verb && (if r.va then true else if r'.va then true else r.argc == r'.argc))

/-- documented outcome of `CMD <verb> <args…>` (integer arguments) -/
def semantics (v : View) (verb : String) (args : List Int) : Outcome :=
  match table.find? (fun r => r.matches verb args.length) with
  | some r => r.sem v args
  | none => ⟨0, .none⟩

end OsmoVerif.Spec.Trxc
