namespace OsmoVerif.Spec.TdmaSched
end OsmoVerif.Spec.TdmaSched
