/-
Specification of the TDMA scheduler, written from the property text (properties.jsonl C08) and the
header comment of include/layer1/tdma_sched.h — not from the code:

  "a circular buffer of buckets, where each bucket corresponds to one future TDMA frame. Each bucket
   contains a list of callbacks which are executed when the bucket index reaches that bucket."

The abstract state is "which items are due in `d` frames", `d = 0 .. depth-1`; nothing else
(no ring position, no memory layout, no stale slots).  Numbers are literals of the property:
depth 25, capacity 8.

* `schedule off it`   : the frame `off` ahead takes the item unless it already holds `capacity` items;
                        then the call reports `-1` and nothing changes.
* `scheduleSet off fs`: the items of the k-th frame of the set go to the frame `off + k` ahead, one by
                        one; the first item that does not fit ends the call with `-1` (items placed
                        before stay, nothing else is touched); otherwise the result is the number of
                        frame separators.
* `advance`           : everything comes one frame closer; what was due now and has not been executed
                        is due again after a full turn of the ring.
* `execute`           : the items due now run (`toRun`), in ascending priority order (`ValidRun`; the
                        order among equal priorities is not specified); the frame is empty afterwards;
                        the result is their number.
* `reset`             : erases every frame except the one due now (that one is cleared by `execute`).

* callbacks that schedule "on the fly" (tdma_sched.c: "some call back may schedule new call backs
  'on the fly'"; "if the cb() we just called has scheduled more items for the current TDMA [...] we
  will simply continue to execute them as intended. Priorities won't work though"): `ExecOnTheFly`.
  The calls a callback makes while the frame is executed act like the same calls made from outside
  at that moment (the frame being executed still holds all its items, run or not, so its capacity
  counts them); what they add to the frame due now runs in the same `execute`, after the items that
  were due when it started, in the order it was added (no priorities); nothing is lost when the
  frame is emptied at the end.

An offset `≥ depth` is outside the property ("N below the scheduler depth"); the ring makes it alias
`off % depth`, which is what `slot` says.
-/
namespace OsmoVerif.Spec.TdmaSched

def depth : Nat := 25
def capacity : Nat := 8

/-- an item as the property sees it: callback identity, its three parameters, priority -/
structure AItem (κ : Type) where
  cb : κ
  p1 : Nat
  p2 : Nat
  p3 : Nat
  prio : Int
  deriving DecidableEq, Repr

/-- `due d` = the items due in `d` frames (in scheduling order); `[]` for `d ≥ depth` -/
abbrev Due (κ : Type) := Nat → List (AItem κ)

variable {κ : Type}

def empty : Due κ := fun _ => []

def slot (off : Nat) : Nat := off % depth

/-- add one item to the frame due in `d` -/
def put (due : Due κ) (d : Nat) (it : AItem κ) : Due κ :=
  fun e => if e = d then due d ++ [it] else due e

def full (due : Due κ) (d : Nat) : Prop := capacity ≤ (due d).length

instance (due : Due κ) (d : Nat) : Decidable (full due d) := by unfold full; infer_instance

def schedule (due : Due κ) (off : Nat) (it : AItem κ) : Due κ × Int :=
  if full due (slot off) then (due, -1) else (put due (slot off) it, 0)

/-- items of one frame of a set, one by one; `false` = overflow (the rest is not placed) -/
def putFrame (due : Due κ) (d : Nat) : List (AItem κ) → Due κ × Bool
  | [] => (due, true)
  | it :: rest => if full due d then (due, false) else putFrame (put due d it) d rest

def putFrames : Due κ → Nat → List (List (AItem κ)) → Due κ × Bool
  | due, _, [] => (due, true)
  | due, off, f :: fs =>
    match putFrame due (slot off) f with
    | (due', true) => putFrames due' (off + 1) fs
    | (due', false) => (due', false)

def scheduleSet (due : Due κ) (off : Nat) (frames : List (List (AItem κ))) : Due κ × Int :=
  match putFrames due off frames with
  | (due', true) => (due', (frames.length : Int) - 1)
  | (due', false) => (due', -1)

def advance (due : Due κ) : Due κ :=
  fun d => if d < depth then due ((d + 1) % depth) else []

/-- the frame due now is emptied; result: the items to run -/
def execute (due : Due κ) : Due κ × List (AItem κ) :=
  (fun d => if d = 0 then [] else due d, due 0)

def reset (due : Due κ) : Due κ :=
  fun d => if d = 0 then due 0 else []

/-- what an execution of the items `toRun` may look like: every one of them exactly once,
ascending priorities -/
def ValidRun (toRun ran : List (AItem κ)) : Prop :=
  ran.Perm toRun ∧ ran.Pairwise (fun a b => a.prio ≤ b.prio)

inductive Op (κ : Type) where
  | schedule (off : Nat) (it : AItem κ)
  | scheduleSet (off : Nat) (frames : List (List (AItem κ)))
  | advance
  | execute
  | reset
  deriving DecidableEq

/-- result of one operation: return value (`0` for advance/reset) and the items to run -/
structure Out (κ : Type) where
  rc : Int
  toRun : List (AItem κ)

def step (due : Due κ) : Op κ → Due κ × Out κ
  | .schedule off it => let r := schedule due off it; (r.1, ⟨r.2, []⟩)
  | .scheduleSet off fs => let r := scheduleSet due off fs; (r.1, ⟨r.2, []⟩)
  | .advance => (advance due, ⟨0, []⟩)
  | .execute => let r := execute due; (r.1, ⟨r.2.length, r.2⟩)
  | .reset => (reset due, ⟨0, []⟩)

def run : Due κ → List (Op κ) → Due κ × List (Out κ)
  | due, [] => (due, [])
  | due, op :: ops =>
    let r := step due op
    let r' := run r.1 ops
    (r'.1, r.2 :: r'.2)

/-- a scheduler call a callback may make from inside: `schedule` / `scheduleSet` -/
def isCall : Op κ → Bool
  | .schedule _ _ => true
  | .scheduleSet _ _ => true
  | _ => false

/-- `execute` with callbacks that schedule on the fly.  `scr x` = the calls the callback of item `x`
makes when it runs.  `ran` (the callbacks in invocation order), the new state `due'` and the return
values `rets` of all the calls made from inside (in order) are an admissible outcome iff
* `ran = pre ++ fly`, where `pre` is a valid run of the items due when `execute` started (each once,
  ascending priorities) and `fly` is what the calls added to the frame due now, in the order added;
* the state is what the calls of the callbacks that ran, in order, make of `due` — exactly as if
  made from outside, with the frame due now still holding its items — and then the frame due now is
  emptied. -/
def ExecOnTheFly (scr : AItem κ → List (Op κ)) (due : Due κ) (ran : List (AItem κ)) (due' : Due κ)
    (rets : List Int) : Prop :=
  ∃ pre fly, ran = pre ++ fly ∧ ValidRun (due 0) pre ∧
    fly = ((run due (ran.flatMap scr)).1 0).drop (due 0).length ∧
    due' = (execute (run due (ran.flatMap scr)).1).1 ∧
    rets = (run due (ran.flatMap scr)).2.map (·.rc)

/-- the items an operation tries to place -/
def placed : Op κ → List (AItem κ)
  | .schedule _ it => [it]
  | .scheduleSet _ fs => fs.flatten
  | _ => []

end OsmoVerif.Spec.TdmaSched
