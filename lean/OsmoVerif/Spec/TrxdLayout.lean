/-
Spec: the TRXD PDU octet layout (versions 0 and 1), written arithmetically from the
protocol description (osmo-trx "TRXD header" / the layout quoted in property C04), NOT
from data_msg.py or trx_if.c:

  octet 0      : version (high nibble) and timeslot number (low 3 bits)      16·ver + tn
  octets 1..4  : TDMA frame number, big endian
  L1 -> TRX    : octet 5 = attenuation (dB), then one octet per hard bit, value 0 or 1
  TRX -> L1    : octet 5 = −RSSI (dBm), octets 6..7 = ToA256, big-endian two's complement,
                 version 1 only: octet 8 = MTS  (bit 7 NOPE; bits 6..3 modulation and TSC set;
                 bits 2..0 TSC; a NOPE indication carries 0x80 and no burst),
                 octets 9..10 = C/I in centiBels, big-endian two's complement,
                 then one octet per soft bit: 127 − s  (0 = definite "0"/+127 … 254 = −127)
  version 0 may carry two trailing padding octets (legacy transceivers).

No Mathlib.  Field records are independent of the code models.
-/
namespace OsmoVerif.Spec.TrxdLayout

/-- big-endian 32 bit -/
def be32 (n : Nat) : List Nat :=
  [n / 16777216 % 256, n / 65536 % 256, n / 256 % 256, n % 256]

/-- big-endian 16 bit two's complement of an integer in −32768..32767 -/
def s16be (x : Int) : List Nat :=
  let u := (x % 65536).toNat
  [u / 256, u % 256]

/-- value of two octets read as big-endian two's complement -/
def s16val (hi lo : Nat) : Int :=
  let u := 256 * hi + lo
  if u < 32768 then (u : Int) else (u : Int) - 65536

def be32val (a b c d : Nat) : Nat := 16777216 * a + 65536 * b + 256 * c + d

/-- L1 → TRX message fields -/
structure TxFields where
  ver : Nat
  fn : Nat
  tn : Nat
  pwr : Nat
  bits : List Nat          -- hard bits, each 0 or 1
deriving DecidableEq, Repr

def hdr (ver tn fn : Nat) : List Nat := (16 * ver + tn) :: be32 fn

def pad (ver : Nat) (legacy : Bool) : List Nat := if legacy && ver == 0 then [0, 0] else []

def layoutTx (m : TxFields) (legacy : Bool) : List Nat :=
  hdr m.ver m.tn m.fn ++ [m.pwr] ++ m.bits ++ pad m.ver legacy

/-- modulation and TSC-set bits (bits 6..3 of the MTS octet) -/
inductive Mod where
  | gmsk (tscSet : Nat)        -- 0 0 S S
  | psk8 (tscSet : Nat)        -- 0 1 0 S
  | gmskAB (tscSet : Nat)      -- 0 1 1 0  (access burst; set bit per the toolkit: 0 1 1 S)
  | qam16 (tscSet : Nat)       -- 1 0 0 S
  | qam32 (tscSet : Nat)       -- 1 0 1 S
  | aqpsk (tscSet : Nat)       -- 1 1 0 S
deriving DecidableEq, Repr

def Mod.bits : Mod → Nat
  | .gmsk s => s
  | .psk8 s => 4 + s
  | .gmskAB s => 6 + s
  | .qam16 s => 8 + s
  | .qam32 s => 10 + s
  | .aqpsk s => 12 + s

/-- burst length in symbols-as-octets per modulation (TS 45.002: 148 symbols × bits/symbol) -/
def Mod.burstLen : Mod → Nat
  | .gmsk _ => 148
  | .psk8 _ => 444
  | .gmskAB _ => 148
  | .qam16 _ => 592
  | .qam32 _ => 740
  | .aqpsk _ => 296

/-- TRX → L1 message fields -/
structure RxFields where
  ver : Nat
  fn : Nat
  tn : Nat
  rssi : Int               -- dBm (negative)
  toa256 : Int
  nope : Bool := false     -- v1 only
  mod : Mod := .gmsk 0     -- v1 only
  tsc : Nat := 0           -- v1 only
  ci : Int := 0            -- v1 only
  soft : Option (List Int) -- soft bits −127..127; none for a NOPE indication
deriving DecidableEq, Repr

def mtsOctet (m : RxFields) : Nat :=
  if m.nope then 128 else 8 * m.mod.bits + m.tsc

def softOctet (s : Int) : Nat := (127 - s).toNat

def layoutRx (m : RxFields) (legacy : Bool) : List Nat :=
  hdr m.ver m.tn m.fn ++ [(-m.rssi).toNat] ++ s16be m.toa256
    ++ (if m.ver = 1 then [mtsOctet m] ++ s16be m.ci else [])
    ++ (match m.soft with | some b => b.map softOctet | none => [])
    ++ pad m.ver legacy

end OsmoVerif.Spec.TrxdLayout
