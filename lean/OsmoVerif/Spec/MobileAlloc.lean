/-
What 3GPP TS 44.018 §10.5.2.21 (Mobile Allocation) says, written from the standard:

  * octet 3 of the IE carries MA C 8n … MA C 8n-7 (bit 8 … bit 1), …, the last octet (n+2)
    carries MA C 8 … MA C 1; so with the n octets of the value part numbered 0..n-1,
    MA C i sits in octet n-1-(i-1)/8 at bit position (i-1) mod 8 counted from the least
    significant bit.
  * "The MA C i bit indicates whether or not the Mobile allocation frequency list includes the
    i-th frequency in the cell allocation frequency list.  In the cell allocation frequency list
    the absolute RF channel numbers are placed in increasing order of ARFCN, except that
    ARFCN 0, if included in the set, is put in the last position in the list."
  * ARFCNs are 0..1023; a cell allocation has at most 64 frequencies, the value part at most
    8 octets.

Nothing here is taken from the code under test.
-/
namespace OsmoVerif.Spec.MobileAlloc

/-- The cell allocation frequency list of the set `inCA ⊆ {0..1023}`:
increasing ARFCN, ARFCN 0 last. -/
def caList (inCA : Nat → Bool) : List Nat :=
  (List.range' 1 1023).filter inCA ++ (if inCA 0 then [0] else [])

/-- MA C i (i = 1, 2, …) of a value part of `ma.length` octets; bits that do not exist are 0. -/
def maC (ma : List Nat) (i : Nat) : Bool :=
  1 ≤ i && i ≤ 8 * ma.length &&
    match ma[ma.length - 1 - (i - 1) / 8]? with
    | some o => o.testBit ((i - 1) % 8)
    | none => false

/-- The mobile allocation: the i-th frequency of the cell allocation frequency list is included
iff MA C i = 1 (order of the cell allocation frequency list). -/
def select (inCA : Nat → Bool) (ma : List Nat) : List Nat :=
  ((caList inCA).zipIdx 1).filterMap fun (a, i) => if maC ma i then some a else none

/-- position of an ARFCN in the order of the standard: 1 < 2 < … < 1023 < 0 -/
def rank (a : Nat) : Nat := if a = 0 then 1024 else a

/-- a list is in the order of the standard (strictly: no repetitions) -/
def Ordered (l : List Nat) : Prop := l.Pairwise fun a b => rank a < rank b

instance (l : List Nat) : Decidable (Ordered l) := by unfold Ordered; infer_instance

/-- some MA C i = 1 points beyond the cell allocation frequency list -/
def bitBeyond (inCA : Nat → Bool) (ma : List Nat) : Bool :=
  (List.range' 1 (8 * ma.length)).any fun i => (caList inCA).length < i && maC ma i

end OsmoVerif.Spec.MobileAlloc
