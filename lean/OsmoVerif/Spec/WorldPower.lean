/-
C12 — spec-level definitions for "power state, child transceivers and clock distribution".

What the property text speaks about, written as predicates/functions over the world model
(`OsmoVerif.Model.World`):
  * the wiring invariant `WFT`/`WF` of the application (parents, children, clocks, ports);
  * the classification of a history operation as a power command (`Op.powerCmd`), exactly the
    test sequence of `CTRLInterface.handle_rx` + `CTRLInterfaceTRX.parse_cmd`;
  * who is affected by a power command (`affects`), when POWERON is accepted (`accepted`);
  * the "last effective power command" fold (`specRunning`);
  * the clock indications expected at a tick (`clockInds`);
  * the TRXC replies of the protocol description (`rspPowerOnOk`, ...), as literal octets.
No Mathlib.
-/
import OsmoVerif.Model.World

namespace OsmoVerif.WorldPower
open OsmoVerif OsmoVerif.World OsmoVerif.PyStr

/-! ### wiring -/

/-- the start-up wiring of a transceiver (everything `power_event_handler` and the clock
distribution depend on, and nothing a command may change) -/
def wiring (t : Trx) : Nat × Nat × Nat × Bool × Bool × List Nat :=
  (t.addr, t.basePort, t.childIdx, t.childMgt, t.hasClock, t.children)

/-- Wiring invariant of `Application.trx_list` (decidable: bounded quantifiers only). -/
structure WFT (ts : List Trx) : Prop where
  /-- every entry of a `child_trx_list` is a transceiver of the application, with a child index
  > 0, without clock, on the address / base port of its parent -/
  child_ok : ∀ i < ts.length, ∀ t ∈ ts[i]?, ∀ c ∈ t.children, ∃ tc ∈ ts[c]?,
    0 < tc.childIdx ∧ tc.hasClock = false ∧ tc.addr = t.addr ∧ tc.basePort = t.basePort
  /-- only transceivers with child index 0 (clock owners) have children -/
  parent_ok : ∀ i < ts.length, ∀ t ∈ ts[i]?, t.children ≠ [] → t.childIdx = 0 ∧ t.hasClock = true
  /-- a transceiver owns a clock link iff it is not a child -/
  clock_iff : ∀ i < ts.length, ∀ t ∈ ts[i]?, (t.hasClock = true ↔ t.childIdx = 0)
  /-- every child is in the child list of a parent (same address / base port, child index 0) -/
  child_has_parent : ∀ c < ts.length, ∀ tc ∈ ts[c]?, 0 < tc.childIdx →
    ∃ p < ts.length, ∃ tp ∈ ts[p]?, c ∈ tp.children ∧ tp.childIdx = 0 ∧
      tp.addr = tc.addr ∧ tp.basePort = tc.basePort
  /-- no transceiver is a child of two parents -/
  one_parent : ∀ i < ts.length, ∀ j < ts.length, ∀ ti ∈ ts[i]?, ∀ tj ∈ ts[j]?,
    ∀ c ∈ ti.children, c ∈ tj.children → i = j
  /-- no transceiver is twice in a child list -/
  children_nodup : ∀ i < ts.length, ∀ t ∈ ts[i]?, t.children.Nodup
  /-- (remote address, base port, child index) identify a transceiver -/
  distinct : ∀ i < ts.length, ∀ j < ts.length, ∀ ti ∈ ts[i]?, ∀ tj ∈ ts[j]?,
    ti.addr = tj.addr → ti.basePort = tj.basePort → ti.childIdx = tj.childIdx → i = j
  /-- the BTS transceiver is the first one -/
  bts : ∃ t ∈ ts[0]?, t.addr = addrBts ∧ t.basePort = 5700 ∧ t.childIdx = 0 ∧
    t.childMgt = Gen.World.btsChildMgt ∧ t.hasClock = true
  /-- the MS transceiver is the second one -/
  ms : ∃ t ∈ ts[1]?, t.addr = addrBb ∧ t.basePort = 6700 ∧ t.childIdx = 0 ∧
    t.childMgt = Gen.World.msChildMgt ∧ t.hasClock = true

set_option synthInstance.maxSize 2048 in
set_option synthInstance.maxHeartbeats 400000 in
instance (ts : List Trx) : Decidable (WFT ts) :=
  decidable_of_iff
    ((∀ i < ts.length, ∀ t ∈ ts[i]?, ∀ c ∈ t.children, ∃ tc ∈ ts[c]?,
        0 < tc.childIdx ∧ tc.hasClock = false ∧ tc.addr = t.addr ∧ tc.basePort = t.basePort) ∧
     (∀ i < ts.length, ∀ t ∈ ts[i]?, t.children ≠ [] → t.childIdx = 0 ∧ t.hasClock = true) ∧
     (∀ i < ts.length, ∀ t ∈ ts[i]?, (t.hasClock = true ↔ t.childIdx = 0)) ∧
     (∀ c < ts.length, ∀ tc ∈ ts[c]?, 0 < tc.childIdx →
        ∃ p < ts.length, ∃ tp ∈ ts[p]?, c ∈ tp.children ∧ tp.childIdx = 0 ∧
          tp.addr = tc.addr ∧ tp.basePort = tc.basePort) ∧
     (∀ i < ts.length, ∀ j < ts.length, ∀ ti ∈ ts[i]?, ∀ tj ∈ ts[j]?,
        ∀ c ∈ ti.children, c ∈ tj.children → i = j) ∧
     (∀ i < ts.length, ∀ t ∈ ts[i]?, t.children.Nodup) ∧
     (∀ i < ts.length, ∀ j < ts.length, ∀ ti ∈ ts[i]?, ∀ tj ∈ ts[j]?,
        ti.addr = tj.addr → ti.basePort = tj.basePort → ti.childIdx = tj.childIdx → i = j) ∧
     (∃ t ∈ ts[0]?, t.addr = addrBts ∧ t.basePort = 5700 ∧ t.childIdx = 0 ∧
        t.childMgt = Gen.World.btsChildMgt ∧ t.hasClock = true) ∧
     (∃ t ∈ ts[1]?, t.addr = addrBb ∧ t.basePort = 6700 ∧ t.childIdx = 0 ∧
        t.childMgt = Gen.World.msChildMgt ∧ t.hasClock = true))
    ⟨fun ⟨a, b, c, d, e, f, g, h, i⟩ => ⟨a, b, c, d, e, f, g, h, i⟩,
     fun ⟨a, b, c, d, e, f, g, h, i⟩ => ⟨a, b, c, d, e, f, g, h, i⟩⟩

/-- wiring invariant of a world -/
def WF (w : World) : Prop := WFT w.trxs

instance (w : World) : Decidable (WF w) := inferInstanceAs (Decidable (WFT w.trxs))

/-- the state right after `Application.__init__`: nobody runs, nothing queued, no hopping,
the clock generator was never started -/
structure Initial (w : World) : Prop where
  not_running : ∀ i < w.trxs.length, ∀ t ∈ w.trxs[i]?, t.running = false ∧ t.txQueue = [] ∧ t.fh = none
  links : w.clkLinks = []
  clk : w.clkRunning = false
  src : w.clkSrc = none

instance (w : World) : Decidable (Initial w) :=
  decidable_of_iff
    ((∀ i < w.trxs.length, ∀ t ∈ w.trxs[i]?, t.running = false ∧ t.txQueue = [] ∧ t.fh = none) ∧
      w.clkLinks = [] ∧ w.clkRunning = false ∧ w.clkSrc = none)
    ⟨fun ⟨a, b, c, d⟩ => ⟨a, b, c, d⟩, fun ⟨a, b, c, d⟩ => ⟨a, b, c, d⟩⟩

/-- consistency of power state and clock distribution -/
structure ClockInv (w : World) : Prop where
  /-- the clock links are exactly the running clock owners -/
  links_iff : ∀ i : Nat, i ∈ w.clkLinks ↔ ∃ t ∈ w.trxs[i]?, t.hasClock = true ∧ t.running = true
  links_nodup : w.clkLinks.Nodup
  /-- the shared generator runs iff there is a link -/
  runs_iff : w.clkRunning = true ↔ w.clkLinks ≠ []
  /-- `clck_src` exists while the generator runs -/
  src : w.clkRunning = true → w.clkSrc.isSome = true

/-- a world reachable from a built one by some history -/
def Reachable (w : World) : Prop :=
  ∃ seed extra w0 ops, build seed extra = .ok w0 ∧ (run w0 ops).1 = w

/-! ### classification of operations -/

/-- the request `CTRLInterface.handle_rx` hands to `parse_cmd` for a received datagram
(`none`: the datagram is ignored — undecodable or without the `CMD` signature) -/
def ctrlRequest (dgram : List Nat) : Option (List Str) :=
  match decodeUtf8 (dgram.take Gen.World.ctrlRecvSize) with
  | none => none
  | some s =>
    if startsWith s (lit "CMD") then some (splitSpace (stripNul (strip (s.drop 4)))) else none

/-- `some (j, true)`: the operation is a POWERON command addressed to transceiver `j`;
`some (j, false)`: a POWEROFF command addressed to `j`; `none`: anything else -/
def powerCmd : Op → Option (Nat × Bool)
  | .ctrl j _ d =>
    match ctrlRequest d with
    | some [v] =>
      if v = lit "POWERON" then some (j, true)
      else if v = lit "POWEROFF" then some (j, false)
      else none
    | _ => none
  | _ => none

/-- transceivers whose power state a power command addressed to `j` sets: `j` itself and, when
`j` manages its children (`child_mgt` and child index 0), its children -/
def affects (w : World) (j k : Nat) : Bool :=
  k == j ||
    match w.trxs[j]? with
    | some t => t.childMgt && t.childIdx == 0 && t.children.contains k
    | none => false

/-- `ready` of transceiver `j` (false if there is no such transceiver) -/
def readyOf (w : World) (j : Nat) : Bool :=
  match w.trxs[j]? with
  | some t => t.ready
  | none => false

/-- POWERON addressed to `j` is accepted: `j` exists, is not running and is ready -/
def accepted (w : World) (j : Nat) : Bool :=
  match w.trxs[j]? with
  | some t => !t.running && t.ready
  | none => false

/-- `running` of transceiver `k` (`none`: no such transceiver) -/
def runningOf (w : World) (k : Nat) : Option Bool := (w.trxs[k]?).map Trx.running

/-! ### the history form: last effective power command -/

/-- effect of one operation on the specification's power map `cur`
(`w` = the world the operation meets: needed for `ready` and the child lists only) -/
def specPowerStep (w : World) (op : Op) (cur : Nat → Bool) : Nat → Bool := fun k =>
  match powerCmd op with
  | some (j, true) => if (!cur j && readyOf w j) && affects w j k then true else cur k
  | some (j, false) => if affects w j k then false else cur k
  | none => cur k

/-- fold of `specPowerStep` over a history -/
def specRunningFrom (w : World) (cur : Nat → Bool) : List Op → Nat → Bool
  | [] => cur
  | op :: ops => specRunningFrom (step w op).world (specPowerStep w op cur) ops

/-- power state demanded by the property after history `ops` from the built world `w0`:
the last effective power command (own, or the managing parent's) was an accepted POWERON -/
def specRunning (w0 : World) (ops : List Op) (k : Nat) : Bool :=
  specRunningFrom w0 (fun _ => false) ops k

/-! ### clock indications -/

/-- `"IND CLOCK <fn>\0"` -/
def indClock (fn : Nat) : List Nat := encodeUtf8 (lit "IND CLOCK " ++ natDigits fn ++ [0])

/-- running clock owners, in list order of `l` -/
def runningClockOwners (w : World) (l : List Nat) : List Trx :=
  l.filterMap (fun i => match w.trxs[i]? with
    | some t => if t.hasClock && t.running then some t else none
    | none => none)

/-- is transceiver `i` a running clock owner? -/
def isRunningClockOwner (w : World) (i : Nat) : Bool :=
  match w.trxs[i]? with
  | some t => t.hasClock && t.running
  | none => false

/-- the running clock owners of the application, in `trx_list` order -/
def runningClockOwnerIdx (w : World) : List Nat :=
  (List.range w.trxs.length).filter (isRunningClockOwner w)

/-- clock indications the property demands at a tick of frame `fn`: one per running clock owner,
every `indPeriod` frames -/
def clockInds (w : World) (fn : Nat) : List Dgram :=
  if fn % Gen.World.indPeriod = 0 then
    (runningClockOwners w w.clkLinks).map (fun t => ⟨t.clckPort, t.addr, t.clckRemote, indClock fn⟩)
  else []

/-- a datagram leaving the DATA socket of some transceiver of `w` -/
def IsDataDgram (w : World) (d : Dgram) : Prop :=
  ∃ t ∈ w.trxs, d.lport = t.dataPort ∧ d.raddr = t.addr ∧ d.rport = t.dataRemote

/-! ### TRXC replies (octets of the protocol text) -/

/-- `RSP POWERON 0\0` -/
def rspPowerOnOk : List Nat := [82, 83, 80, 32, 80, 79, 87, 69, 82, 79, 78, 32, 48, 0]
/-- `RSP POWERON -1\0` -/
def rspPowerOnFail : List Nat := [82, 83, 80, 32, 80, 79, 87, 69, 82, 79, 78, 32, 45, 49, 0]
/-- `RSP POWEROFF 0\0` -/
def rspPowerOffOk : List Nat := [82, 83, 80, 32, 80, 79, 87, 69, 82, 79, 70, 70, 32, 48, 0]

end OsmoVerif.WorldPower
